// Verification harness (overlay; not part of pion/sctp): checksum rules, property C13.
//
//	TestVerifCrc       differential: writes a trace replayed on the extracted Coq model (coq/model/Crc.v)
//	                   crc   hash/crc32 Castagnoli on random / structured inputs of length 0..8192
//	                   acc   real (*Association).unmarshalPacket on valid and mutated packets x recvZeroChecksum
//	                   emit  real (*Association).marshalPacket x sendZeroChecksum, with/without INIT / COOKIE-ECHO
//	                   neg   real setSendZeroChecksum / handleInit / handleInitAck on parameter lists
//	                   adv   parameters the real code puts into INIT / INIT-ACK / out-of-band token
//	TestVerifCrcRules  monitor: the C13 predicate evaluated on the implementation with an independent
//	                   reference (hash/crc32 over a zeroed copy); prints CRCFAIL lines
//	TestVerifCrcWire   monitor: two real associations over an in-memory conn in a synctest bubble, all four
//	                   option combinations, every packet on the wire checked; corrupted packets injected into
//	                   an established association must leave its observable state unchanged
package sctp

import (
	"bufio"
	"context"
	"encoding/binary"
	"encoding/hex"
	"errors"
	"fmt"
	"hash/crc32"
	"io"
	"math/rand"
	"net"
	"os"
	"sort"
	"strings"
	"sync"
	"testing"
	"testing/synctest"
	"time"

	"github.com/pion/logging"
)

// ---------------------------------------------------------------- helpers

func crcHex(b []byte) string {
	if len(b) == 0 {
		return "-"
	}

	return hex.EncodeToString(b)
}

var crcRefTable = crc32.MakeTable(crc32.Castagnoli) //nolint:gochecknoglobals

// independent reference: CRC32c over a copy with bytes 8..11 zeroed
func crcRefChecksum(raw []byte) uint32 {
	c := append([]byte(nil), raw...)
	copy(c[8:12], []byte{0, 0, 0, 0})

	return crc32.Checksum(c, crcRefTable)
}

func crcQuietLoggers() logging.LoggerFactory {
	lf := logging.NewDefaultLoggerFactory()
	lf.DefaultLogLevel = logging.LogLevelDisabled

	return lf
}

// chunk type code as the chunk itself marshals it
func crcTypeCode(c chunk) (int, error) {
	b, err := c.marshal()
	if err != nil || len(b) == 0 {
		return -1, fmt.Errorf("marshal: %v", err) //nolint:err113
	}

	return int(b[0]), nil
}

func crcGoTypeMandatory(c chunk) bool {
	switch c.(type) {
	case *chunkInit, *chunkCookieEcho:
		return true
	}

	return false
}

const crcNumKinds = 15

// one chunk list per kind; every list marshals without error
func crcMkChunks(r *rand.Rand, kind int) []chunk { //nolint:cyclop
	rb := func(n int) []byte {
		b := make([]byte, n)
		r.Read(b)

		return b
	}
	data := func(n int) *chunkPayloadData {
		return &chunkPayloadData{
			tsn: r.Uint32(), streamIdentifier: uint16(r.Intn(8)), streamSequenceNumber: uint16(r.Intn(65536)),
			beginningFragment: true, endingFragment: true, unordered: r.Intn(4) == 0,
			payloadType: PayloadTypeWebRTCBinary, userData: rb(n),
		}
	}
	initCommon := func(zca int) chunkInitCommon {
		ic := chunkInitCommon{
			initiateTag: r.Uint32() | 1, advertisedReceiverWindowCredit: 1 << 20,
			numOutboundStreams: 1 + uint16(r.Intn(1000)), numInboundStreams: 1 + uint16(r.Intn(1000)), initialTSN: r.Uint32(),
		}
		ic.params = append(ic.params, &paramSupportedExtensions{ChunkTypes: []chunkType{ctReconfig, ctForwardTSN}})
		if zca > 0 {
			ic.params = append(ic.params, &paramZeroChecksumAcceptable{edmid: uint32(zca)})
		}

		return ic
	}
	sack := func() *chunkSelectiveAck {
		s := &chunkSelectiveAck{cumulativeTSNAck: r.Uint32(), advertisedReceiverWindowCredit: r.Uint32()}
		for i := 0; i < r.Intn(4); i++ {
			s.gapAckBlocks = append(s.gapAckBlocks, gapAckBlock{start: uint16(2 + 3*i), end: uint16(3 + 3*i)})
		}
		for i := 0; i < r.Intn(3); i++ {
			s.duplicateTSN = append(s.duplicateTSN, r.Uint32())
		}

		return s
	}
	switch kind {
	case 0:
		return []chunk{&chunkInit{chunkInitCommon: initCommon(r.Intn(3))}}
	case 1:
		ic := initCommon(r.Intn(3))
		ic.params = append([]param{&paramStateCookie{cookie: rb(32)}}, ic.params...)

		return []chunk{&chunkInitAck{chunkInitCommon: ic}}
	case 2:
		return []chunk{&chunkCookieEcho{cookie: rb(4 * (1 + r.Intn(16)))}}
	case 3:
		return []chunk{&chunkCookieAck{}}
	case 4:
		return []chunk{data(r.Intn(1200))}
	case 5:
		return []chunk{sack()}
	case 6:
		return []chunk{&chunkAbort{errorCauses: []errorCause{&errorCauseProtocolViolation{additionalInformation: rb(r.Intn(20))}}}}
	case 7:
		return []chunk{&chunkShutdown{cumulativeTSNAck: r.Uint32()}}
	case 8:
		return []chunk{&chunkShutdownAck{}}
	case 9:
		return []chunk{&chunkShutdownComplete{}}
	case 10:
		return []chunk{&chunkForwardTSN{newCumulativeTSN: r.Uint32(), streams: []chunkForwardTSNStream{{identifier: 1, sequence: 7}}}}
	case 11:
		return []chunk{&chunkHeartbeatAck{params: []param{&paramHeartbeatInfo{heartbeatInformation: rb(8)}}}}
	case 12: // COOKIE-ECHO bundled with DATA (COOKIE-ECHO first, as RFC 9260 requires)
		return []chunk{&chunkCookieEcho{cookie: rb(32)}, data(r.Intn(300))}
	case 13: // mandatory chunk NOT first: the sender still tests every chunk
		if r.Intn(2) == 0 {
			return []chunk{data(r.Intn(100)), &chunkCookieEcho{cookie: rb(8)}}
		}

		return []chunk{sack(), &chunkInit{chunkInitCommon: initCommon(1)}}
	default: // SACK + several DATA
		cs := []chunk{sack()}
		for i := 0; i < 1+r.Intn(3); i++ {
			cs = append(cs, data(r.Intn(400)))
		}

		return cs
	}
}

func crcMkPacket(r *rand.Rand, kind int) *packet {
	p := &packet{sourcePort: 5000, destinationPort: 5000, verificationTag: r.Uint32(), chunks: crcMkChunks(r, kind)}
	if r.Intn(4) == 0 {
		p.sourcePort, p.destinationPort = uint16(r.Intn(65536)), uint16(r.Intn(65536))
	}
	if _, ok := p.chunks[0].(*chunkInit); ok {
		p.verificationTag = 0
	}

	return p
}

func crcFlip(raw []byte, bit int) {
	raw[bit/8] ^= 1 << (bit % 8)
}

type crcMut struct {
	name string
	raw  []byte
}

// mutations of one packet given with (withCRC) and without (zeroField) checksum
func crcMutations(r *rand.Rand, withCRC, zeroField []byte) []crcMut { //nolint:cyclop
	cp := func(b []byte) []byte { return append([]byte(nil), b...) }
	n := len(withCRC)
	out := []crcMut{{"valid", cp(withCRC)}, {"zerofield", cp(zeroField)}}
	m := cp(withCRC)
	crcFlip(m, r.Intn(8*n))
	out = append(out, crcMut{"bit-any", m})
	m = cp(withCRC)
	crcFlip(m, 64+r.Intn(32))
	out = append(out, crcMut{"bit-field", m})
	m = cp(withCRC)
	for {
		b := r.Intn(8 * n)
		if b < 64 || b >= 96 {
			crcFlip(m, b)

			break
		}
	}
	out = append(out, crcMut{"bit-outside", m})
	m = cp(withCRC)
	for i, k := 0, 2+r.Intn(7); i < k; i++ {
		crcFlip(m, r.Intn(8*n))
	}
	out = append(out, crcMut{"bits-multi", m})
	m = cp(withCRC)
	binary.LittleEndian.PutUint32(m[8:], r.Uint32()|1)
	out = append(out, crcMut{"field-random", m})
	out = append(out, crcMut{"truncate", cp(withCRC[:r.Intn(n+1)])})
	// 12..15 bytes: gate passes (zero field with the option, or a correct CRC) but no chunk header fits
	l := 12 + r.Intn(4)
	if l > n {
		l = n
	}
	m = cp(zeroField[:l])
	out = append(out, crcMut{"short-zero", m})
	m = cp(zeroField[:l])
	binary.LittleEndian.PutUint32(m[8:], crcRefChecksum(m))
	out = append(out, crcMut{"short-crc", m})
	// first chunk type overwritten
	if n >= 16 {
		types := []byte{byte(ctInit), byte(ctCookieEcho), byte(ctInitAck), byte(ctPayloadData), byte(ctSack), byte(r.Intn(256))}
		t := types[r.Intn(len(types))]
		m = cp(zeroField)
		m[12] = t
		out = append(out, crcMut{"type-zero", m})
		m = cp(zeroField)
		m[12] = t
		binary.LittleEndian.PutUint32(m[8:], crcRefChecksum(m))
		out = append(out, crcMut{"type-crc", m})
	}
	// burst of 1..32 bits at a random bit position
	m = cp(withCRC)
	bl := 1 + r.Intn(32)
	if bl > 8*n {
		bl = 8 * n
	}
	start := r.Intn(8*n - bl + 1)
	crcFlip(m, start)
	if bl > 1 {
		crcFlip(m, start+bl-1)
	}
	for i := 1; i < bl-1; i++ {
		if r.Intn(2) == 0 {
			crcFlip(m, start+i)
		}
	}
	out = append(out, crcMut{"burst", m})
	// zero field and a corruption elsewhere (undetectable for an endpoint that accepts zero: by design)
	m = cp(zeroField)
	for {
		b := r.Intn(8 * n)
		if b < 64 || b >= 96 {
			crcFlip(m, b)

			break
		}
	}
	out = append(out, crcMut{"zero-corrupt", m})
	// random bytes
	g := make([]byte, r.Intn(64))
	r.Read(g)
	out = append(out, crcMut{"garbage", g})

	return out
}

// class of the result of unmarshalPacket: S = too short, C = checksum mismatch, P = checksum stage passed
func crcClassify(a *Association, raw []byte) (cls string, ok bool, panicked bool) {
	defer func() {
		if x := recover(); x != nil {
			cls, ok, panicked = "P", false, true
		}
	}()
	_, err := a.unmarshalPacket(raw)
	switch {
	case err == nil:
		return "P", true, false
	case errors.Is(err, ErrPacketRawTooSmall):
		return "S", false, false
	case errors.Is(err, ErrChecksumMismatch):
		return "C", false, false
	default:
		return "P", false, false
	}
}

func crcParamTokens(ps []param) []string {
	out := []string{}
	for _, p := range ps {
		switch v := p.(type) {
		case *paramZeroChecksumAcceptable:
			out = append(out, fmt.Sprintf("z%d", v.edmid))
		case *paramSupportedExtensions:
			out = append(out, fmt.Sprintf("o%d", supportedExt))
		case *paramStateCookie:
			out = append(out, fmt.Sprintf("o%d", stateCookie))
		default:
			out = append(out, "o0")
		}
	}

	return out
}

func crcRandParams(r *rand.Rand) []param {
	ps := []param{}
	for i, n := 0, r.Intn(5); i < n; i++ {
		switch r.Intn(5) {
		case 0:
			ps = append(ps, &paramZeroChecksumAcceptable{edmid: dtlsErrorDetectionMethod})
		case 1:
			ps = append(ps, &paramZeroChecksumAcceptable{edmid: uint32(r.Intn(4))})
		case 2:
			ps = append(ps, &paramZeroChecksumAcceptable{edmid: r.Uint32()})
		default:
			ps = append(ps, &paramSupportedExtensions{ChunkTypes: []chunkType{ctReconfig, ctForwardTSN}})
		}
	}

	return ps
}

// ---------------------------------------------------------------- in-memory conn pair

type crcWire struct {
	mu   sync.Mutex
	pkts []crcWirePkt
	drop func(dir int, b []byte) bool
}

type crcWirePkt struct {
	dir int // 0 = A->B, 1 = B->A
	raw []byte
}

type crcConn struct {
	in     chan []byte
	peer   *crcConn
	closed chan struct{}
	once   sync.Once
	wire   *crcWire
	dir    int
}

func crcNewPair(w *crcWire) (*crcConn, *crcConn) {
	a := &crcConn{in: make(chan []byte, 4096), closed: make(chan struct{}), wire: w, dir: 0}
	b := &crcConn{in: make(chan []byte, 4096), closed: make(chan struct{}), wire: w, dir: 1}
	a.peer, b.peer = b, a

	return a, b
}

func (c *crcConn) Read(p []byte) (int, error) {
	select {
	case b := <-c.in:
		return copy(p, b), nil
	case <-c.closed:
		return 0, io.EOF
	}
}

func (c *crcConn) Write(p []byte) (int, error) {
	select {
	case <-c.closed:
		return 0, io.ErrClosedPipe
	default:
	}
	b := append([]byte(nil), p...)
	c.wire.mu.Lock()
	c.wire.pkts = append(c.wire.pkts, crcWirePkt{c.dir, b})
	drop := c.wire.drop != nil && c.wire.drop(c.dir, b)
	c.wire.mu.Unlock()
	if !drop {
		select {
		case c.peer.in <- b:
		default:
		}
	}

	return len(p), nil
}

func (c *crcConn) Close() error                     { c.once.Do(func() { close(c.closed) }); return nil }
func (c *crcConn) LocalAddr() net.Addr              { return nil }
func (c *crcConn) RemoteAddr() net.Addr             { return nil }
func (c *crcConn) SetDeadline(time.Time) error      { return nil }
func (c *crcConn) SetReadDeadline(time.Time) error  { return nil }
func (c *crcConn) SetWriteDeadline(time.Time) error { return nil }

func (w *crcWire) count() int {
	w.mu.Lock()
	defer w.mu.Unlock()

	return len(w.pkts)
}

type crcAssocRes struct {
	a   *Association
	err error
}

// handshake of a real client/server pair inside the current synctest bubble
func crcEstablish(w *crcWire, optA, optB, snap bool) (*Association, *Association, *crcConn, *crcConn, error) {
	ca, cb := crcNewPair(w)
	if snap {
		// out-of-band INIT exchange (SNAP): each side uses its one option for its token and its association
		tokA, errA := GenerateOutOfBandToken(WithEnableZeroChecksum(optA))
		tokB, errB := GenerateOutOfBandToken(WithEnableZeroChecksum(optB))
		if errA != nil || errB != nil {
			return nil, nil, nil, nil, fmt.Errorf("token: %v / %v", errA, errB) //nolint:err113
		}
		a, errA := ClientWithOptions(WithName("A"), WithNetConn(ca), WithLoggerFactory(crcQuietLoggers()),
			WithEnableZeroChecksum(optA), WithSNAP(tokA, tokB))
		b, errB := ClientWithOptions(WithName("B"), WithNetConn(cb), WithLoggerFactory(crcQuietLoggers()),
			WithEnableZeroChecksum(optB), WithSNAP(tokB, tokA))
		if errA != nil || errB != nil {
			if a != nil {
				_ = a.Close()
			}
			if b != nil {
				_ = b.Close()
			}
			_ = ca.Close()
			_ = cb.Close()

			return nil, nil, nil, nil, fmt.Errorf("snap: %v / %v", errA, errB) //nolint:err113
		}

		return a, b, ca, cb, nil
	}
	chA, chB := make(chan crcAssocRes, 1), make(chan crcAssocRes, 1)
	go func() {
		a, err := Client(Config{NetConn: ca, LoggerFactory: crcQuietLoggers(), EnableZeroChecksum: optA, Name: "A"})
		chA <- crcAssocRes{a, err}
	}()
	go func() {
		b, err := Server(Config{NetConn: cb, LoggerFactory: crcQuietLoggers(), EnableZeroChecksum: optB, Name: "B"})
		chB <- crcAssocRes{b, err}
	}()
	// a handshake that cannot complete (e.g. every COOKIE-ECHO dropped by the peer's checksum rules) must
	// not leave the bubble blocked: give up after a virtual deadline and close the conns
	var ra, rb crcAssocRes
	gotA, gotB := false, false
	deadline := time.After(10 * time.Minute)
	for !gotA || !gotB {
		select {
		case ra = <-chA:
			gotA = true
			if ra.err != nil {
				_ = cb.Close()
			}
		case rb = <-chB:
			gotB = true
			if rb.err != nil {
				_ = ca.Close()
			}
		case <-deadline:
			_ = ca.Close()
			_ = cb.Close()
			deadline = nil
		}
	}
	if ra.err != nil || rb.err != nil {
		if ra.a != nil {
			_ = ra.a.Close()
		}
		if rb.a != nil {
			_ = rb.a.Close()
		}
		_ = ca.Close()
		_ = cb.Close()

		return nil, nil, nil, nil, fmt.Errorf("handshake: %v / %v", ra.err, rb.err) //nolint:err113
	}

	return ra.a, rb.a, ca, cb, nil
}

// chunk type codes of a raw packet (walks the TLV chain; stops at the first malformed header)
func crcWireTypes(raw []byte) []int {
	ts := []int{}
	off := 12
	for off+4 <= len(raw) {
		l := int(binary.BigEndian.Uint16(raw[off+2:]))
		ts = append(ts, int(raw[off]))
		if l < 4 {
			break
		}
		off += l + getPadding(l)
	}

	return ts
}

// ---------------------------------------------------------------- differential

func TestVerifCrc(t *testing.T) { //nolint:cyclop,gocyclo,maintidx
	seed := verifEnvInt("VERIF_SEED", 1)
	n := int(verifEnvInt("VERIF_N", 120))
	w, done := verifOut(t, "/tmp/verif_crc.trace")
	defer done()
	r := rand.New(rand.NewSource(seed)) //nolint:gosec
	nCRC, nAcc, nEmit, nNeg, nAdv, panics := 0, 0, 0, 0, 0, 0
	lenHist := map[string]int{}
	bucket := func(l int) string {
		switch {
		case l == 0:
			return "0"
		case l < 12:
			return "1-11"
		case l < 64:
			return "12-63"
		case l < 512:
			return "64-511"
		case l < 2048:
			return "512-2047"
		default:
			return "2048-8192"
		}
	}

	// (a) CRC: structured inputs, then random ones
	crcLine := func(b []byte) {
		fmt.Fprintf(w, "crc %s %d\n", crcHex(b), crc32.Checksum(b, castagnoliTable))
		nCRC++
		lenHist[bucket(len(b))]++
	}
	// corpus first
	if path := os.Getenv("VERIF_CORPUS"); path != "" {
		data, err := os.ReadFile(path)
		if err != nil {
			t.Fatal(err)
		}
		fmt.Fprintf(w, "case corpus\n")
		for _, line := range strings.Split(string(data), "\n") {
			f := strings.Fields(line)
			if len(f) != 2 || strings.HasPrefix(f[0], "#") {
				continue
			}
			var b []byte
			if f[1] != "-" {
				if b, err = hex.DecodeString(f[1]); err != nil {
					t.Fatalf("corpus: %v", err)
				}
			}
			switch f[0] {
			case "crc":
				crcLine(b)
			case "pkt":
				for _, rz := range []bool{false, true} {
					cls, ok, _ := crcClassify(&Association{recvZeroChecksum: rz}, append([]byte(nil), b...))
					fmt.Fprintf(w, "acc %d %s %s %d corpus\n", b2i(rz), crcHex(b), cls, b2i(ok))
					nAcc++
				}
			}
		}
	}
	fmt.Fprintf(w, "case crc-structured\n")
	crcLine([]byte("123456789"))
	for l := 0; l <= 40; l++ {
		b := make([]byte, l)
		crcLine(b)
		for i := range b {
			b[i] = 0xff
		}
		crcLine(b)
	}
	for _, l := range []int{63, 64, 65, 255, 256, 257, 1023, 1024, 1191, 1500, 4095, 4096, 8191, 8192} {
		b := make([]byte, l)
		crcLine(b)
		b[r.Intn(l)] = 1 << r.Intn(8) // one bit set
		crcLine(b)
		for i := range b {
			b[i] = byte(i)
		}
		crcLine(b)
	}
	for i := 0; i < n; i++ {
		if i%10 == 0 {
			fmt.Fprintf(w, "case crc-random-%d\n", i/10)
		}
		var l int
		switch r.Intn(4) {
		case 0:
			l = r.Intn(64)
		case 1:
			l = r.Intn(1500)
		default:
			l = r.Intn(8193)
		}
		b := make([]byte, l)
		r.Read(b)
		crcLine(b)
	}

	// (b) acceptance matrix, (c) emission
	for i := 0; i < n; i++ {
		kind := i % crcNumKinds
		p := crcMkPacket(r, kind)
		withCRC, err1 := p.marshal(true)
		zeroField, err2 := p.marshal(false)
		if err1 != nil || err2 != nil {
			t.Fatalf("kind %d does not marshal: %v %v", kind, err1, err2)
		}
		fmt.Fprintf(w, "case acc-%d-kind%d\n", i, kind)
		for _, m := range crcMutations(r, withCRC, zeroField) {
			for _, rz := range []bool{false, true} {
				cls, ok, pan := crcClassify(&Association{recvZeroChecksum: rz}, append([]byte(nil), m.raw...))
				if pan {
					panics++
				}
				fmt.Fprintf(w, "acc %d %s %s %d %s\n", b2i(rz), crcHex(m.raw), cls, b2i(ok), m.name)
				nAcc++
			}
		}
		fmt.Fprintf(w, "case emit-%d-kind%d\n", i, kind)
		types := []string{}
		for _, c := range p.chunks {
			tc, err := crcTypeCode(c)
			if err != nil {
				t.Fatal(err)
			}
			types = append(types, fmt.Sprint(tc))
		}
		for _, sz := range []bool{false, true} {
			raw0, _ := p.marshal(false)
			out, err := (&Association{sendZeroChecksum: sz}).marshalPacket(p)
			if err != nil {
				t.Fatal(err)
			}
			fmt.Fprintf(w, "emit %d %s %s %s\n", b2i(sz), strings.Join(types, ","), crcHex(raw0), crcHex(out))
			nEmit++
		}
	}
	// header-only packet (no chunks)
	fmt.Fprintf(w, "case emit-nochunks\n")
	for _, sz := range []bool{false, true} {
		p := &packet{sourcePort: 5000, destinationPort: 5000, verificationTag: r.Uint32()}
		raw0, _ := p.marshal(false)
		out, _ := (&Association{sendZeroChecksum: sz}).marshalPacket(p)
		fmt.Fprintf(w, "emit %d - %s %s\n", b2i(sz), crcHex(raw0), crcHex(out))
		nEmit++
		for _, rz := range []bool{false, true} {
			cls, ok, _ := crcClassify(&Association{recvZeroChecksum: rz}, append([]byte(nil), out...))
			fmt.Fprintf(w, "acc %d %s %s %d header-only\n", b2i(rz), crcHex(out), cls, b2i(ok))
			nAcc++
		}
	}

	// negotiation: setSendZeroChecksum directly
	fmt.Fprintf(w, "case neg-set\n")
	for i := 0; i < 4*n; i++ {
		prev := r.Intn(2) == 0
		ps := crcRandParams(r)
		a := &Association{sendZeroChecksum: prev}
		a.setSendZeroChecksum(ps)
		fmt.Fprintf(w, "neg set %d %d %s\n", b2i(prev), b2i(a.sendZeroChecksum), strings.Join(crcParamTokens(ps), " "))
		nNeg++
	}

	// negotiation through handleInit / handleInitAck of real associations, and the parameters they advertise
	synctest.Test(t, func(t *testing.T) {
		t.Helper()
		fmt.Fprintf(w, "case neg-handlers\n")
		for i := 0; i < n; i++ {
			opt := r.Intn(2) == 0
			conn, _ := crcNewPair(&crcWire{})
			a := createAssociationFromConfigWithTsn(&Config{NetConn: conn, LoggerFactory: crcQuietLoggers(), EnableZeroChecksum: opt}, r.Uint32())
			// up to three INITs in a row on the same association (state stays closed)
			for k, kn := 0, 1+r.Intn(3); k < kn; k++ {
				ps := crcRandParams(r)
				ic := &chunkInit{chunkInitCommon: chunkInitCommon{
					initiateTag: r.Uint32() | 1, advertisedReceiverWindowCredit: 1 << 20,
					numOutboundStreams: 10, numInboundStreams: 10, initialTSN: r.Uint32(), params: ps,
				}}
				a.lock.Lock()
				prev := a.sendZeroChecksum
				pkts, err := a.handleInit(&packet{sourcePort: 5000, destinationPort: 5000}, ic)
				now, rzNow := a.sendZeroChecksum, a.recvZeroChecksum
				a.lock.Unlock()
				if err != nil || len(pkts) != 1 {
					t.Fatalf("handleInit: %v", err)
				}
				fmt.Fprintf(w, "neg init %d %d %s\n", b2i(prev), b2i(now), strings.Join(crcParamTokens(ps), " "))
				nNeg++
				ack, _ := pkts[0].chunks[0].(*chunkInitAck)
				fmt.Fprintf(w, "adv initack %d %d %s\n", b2i(opt), b2i(rzNow), strings.Join(crcParamTokens(ack.params), " "))
				nAdv++
			}
			_ = a.close()

			conn2, _ := crcNewPair(&crcWire{})
			a2 := createAssociationFromConfigWithTsn(&Config{NetConn: conn2, LoggerFactory: crcQuietLoggers(), EnableZeroChecksum: opt}, r.Uint32())
			ps := append([]param{&paramStateCookie{cookie: []byte{1, 2, 3, 4}}}, crcRandParams(r)...)
			ia := &chunkInitAck{chunkInitCommon: chunkInitCommon{
				initiateTag: r.Uint32() | 1, advertisedReceiverWindowCredit: 1 << 20,
				numOutboundStreams: 10, numInboundStreams: 10, initialTSN: r.Uint32(), params: ps,
			}}
			a2.lock.Lock()
			a2.setState(cookieWait)
			a2.sourcePort, a2.destinationPort = 5000, 5000
			prev := a2.sendZeroChecksum
			err := a2.handleInitAck(&packet{sourcePort: 5000, destinationPort: 5000}, ia)
			now := a2.sendZeroChecksum
			a2.lock.Unlock()
			if err != nil {
				t.Fatalf("handleInitAck: %v", err)
			}
			fmt.Fprintf(w, "neg initack %d %d %s\n", b2i(prev), b2i(now), strings.Join(crcParamTokens(ps), " "))
			nNeg++
			_ = a2.close()

			// the INIT a client really sends
			wire := &crcWire{}
			ca, _ := crcNewPair(wire)
			res := make(chan crcAssocRes, 1)
			go func() {
				c, err := Client(Config{NetConn: ca, LoggerFactory: crcQuietLoggers(), EnableZeroChecksum: opt})
				res <- crcAssocRes{c, err}
			}()
			synctest.Wait()
			if wire.count() < 1 {
				t.Fatal("client sent nothing")
			}
			ip := &packet{}
			if err := ip.unmarshal(true, wire.pkts[0].raw); err != nil {
				t.Fatalf("INIT on the wire does not parse: %v", err)
			}
			ci, okc := ip.chunks[0].(*chunkInit)
			if !okc {
				t.Fatal("first packet is not INIT")
			}
			fmt.Fprintf(w, "adv init %d %d %s\n", b2i(opt), b2i(opt), strings.Join(crcParamTokens(ci.params), " "))
			nAdv++
			_ = ca.Close()
			<-res

			// out-of-band token
			tok, err := GenerateOutOfBandToken(Config{EnableZeroChecksum: opt, LoggerFactory: crcQuietLoggers()})
			if err != nil {
				t.Fatal(err)
			}
			ti := &chunkInit{}
			if err := ti.unmarshal(tok); err != nil {
				t.Fatal(err)
			}
			fmt.Fprintf(w, "adv token %d %d %s\n", b2i(opt), b2i(opt), strings.Join(crcParamTokens(ti.params), " "))
			nAdv++
		}
	})

	// (e) every packet real association pairs put on the wire, with the receiver's option
	nWire := 0
	for combo := 0; combo < 4; combo++ {
		for _, snap := range []bool{false, true} {
			optA, optB := combo&1 != 0, combo&2 != 0
			synctest.Test(t, func(t *testing.T) {
				t.Helper()
				wire := &crcWire{}
				a, b, _, _, err := crcEstablish(wire, optA, optB, snap)
				if err != nil {
					t.Fatalf("handshake: %v", err)
				}
				sa, _ := a.OpenStream(1, PayloadTypeWebRTCBinary)
				done := make(chan struct{})
				go func() {
					defer close(done)
					sb, err := b.AcceptStream()
					if err != nil {
						return
					}
					buf := make([]byte, 65536)
					for i := 0; i < 3; i++ {
						n, _, err := sb.ReadSCTP(buf)
						if err != nil {
							return
						}
						_, _ = sb.WriteSCTP(buf[:n], PayloadTypeWebRTCBinary)
					}
				}()
				for i := 0; i < 3; i++ {
					m := make([]byte, 1+r.Intn(2500))
					r.Read(m)
					_, _ = sa.WriteSCTP(m, PayloadTypeWebRTCBinary)
				}
				select {
				case <-done:
				case <-time.After(10 * time.Minute):
				}
				time.Sleep(2 * time.Second)
				ctx, cancel := context.WithTimeout(context.Background(), 30*time.Second)
				_ = a.Shutdown(ctx)
				cancel()
				_ = a.Close()
				_ = b.Close()
				<-done
				synctest.Wait()
				fmt.Fprintf(w, "case wire-A%dB%d-snap%d\n", b2i(optA), b2i(optB), b2i(snap))
				for _, wp := range wire.pkts {
					recvOpt := optB
					if wp.dir == 1 {
						recvOpt = optA
					}
					fmt.Fprintf(w, "wire %d %s\n", b2i(recvOpt), crcHex(wp.raw))
					nWire++
				}
			})
		}
	}

	keys := []string{}
	for k := range lenHist {
		keys = append(keys, k)
	}
	sort.Strings(keys)
	h := []string{}
	for _, k := range keys {
		h = append(h, fmt.Sprintf("%s:%d", k, lenHist[k]))
	}
	fmt.Printf("CRCDIFF crc=%d acc=%d emit=%d neg=%d adv=%d wire=%d decoder_panics=%d crc_len_hist=%s\n",
		nCRC, nAcc, nEmit, nNeg, nAdv, nWire, panics, strings.Join(h, ","))
}

// ---------------------------------------------------------------- predicate monitor on the implementation

func crcMandatoryFirst(raw []byte) bool {
	return len(raw) >= 16 && (raw[12] == byte(ctInit) || raw[12] == byte(ctCookieEcho))
}

func TestVerifCrcRules(t *testing.T) { //nolint:cyclop
	seed := verifEnvInt("VERIF_SEED", 1)
	n := int(verifEnvInt("VERIF_N", 2000))
	r := rand.New(rand.NewSource(seed + 1000)) //nolint:gosec
	fails := 0
	fail := func(key, format string, args ...any) {
		fails++
		if fails <= 20 {
			fmt.Printf("CRCFAIL key=%s %s\n", key, fmt.Sprintf(format, args...))
		}
	}
	checked, accepted, acceptedZero, rejected, emitted, emittedZero := 0, 0, 0, 0, 0, 0
	byMut := map[string]int{}
	for i := 0; i < n; i++ {
		kind := r.Intn(crcNumKinds)
		p := crcMkPacket(r, kind)
		withCRC, _ := p.marshal(true)
		zeroField, _ := p.marshal(false)
		// receiving side
		for _, m := range crcMutations(r, withCRC, zeroField) {
			for _, rz := range []bool{false, true} {
				cls, ok, _ := crcClassify(&Association{recvZeroChecksum: rz}, append([]byte(nil), m.raw...))
				checked++
				byMut[m.name]++
				if len(m.raw) < 12 {
					if ok {
						fail("accept-short", "len=%d raw=%s", len(m.raw), crcHex(m.raw))
					}

					continue
				}
				field := binary.LittleEndian.Uint32(m.raw[8:])
				ref := crcRefChecksum(m.raw)
				if ok {
					accepted++
					switch {
					case field == ref:
					case field == 0 && rz && !crcMandatoryFirst(m.raw):
						acceptedZero++
					case field == 0 && !rz:
						fail("accept-zero-without-option", "mut=%s raw=%s", m.name, crcHex(m.raw))
					case field == 0:
						fail("accept-zero-on-init-or-cookie-echo", "mut=%s raw=%s", m.name, crcHex(m.raw))
					default:
						fail("accept-wrong-nonzero", "mut=%s field=%d ref=%d raw=%s", m.name, field, ref, crcHex(m.raw))
					}
				} else {
					rejected++
				}
				// an untouched packet must pass the checksum stage (CRC: always; zero: with the option, not
				// INIT/COOKIE-ECHO); whether the chunk decoder then takes it is not this property's business
				// (e.g. HEARTBEAT-ACK has no decoder case)
				if m.name == "valid" && cls != "P" {
					fail("reject-valid", "kind=%d rz=%t raw=%s", kind, rz, crcHex(m.raw))
				}
				if m.name == "zerofield" && rz && !crcMandatoryFirst(m.raw) && cls != "P" {
					fail("reject-permitted-zero", "kind=%d raw=%s", kind, crcHex(m.raw))
				}
			}
		}
		// sending side
		for _, sz := range []bool{false, true} {
			out, err := (&Association{sendZeroChecksum: sz}).marshalPacket(p)
			if err != nil {
				fail("emit-error", "%v", err)

				continue
			}
			emitted++
			field := binary.LittleEndian.Uint32(out[8:])
			ref := crcRefChecksum(out)
			mand := false
			for _, c := range p.chunks {
				tc, _ := crcTypeCode(c)
				isM := tc == int(ctInit) || tc == int(ctCookieEcho)
				if isM != crcGoTypeMandatory(c) {
					fail("type-code", "go type %T marshals type %d", c, tc)
				}
				mand = mand || isM
			}
			if field != ref {
				switch {
				case field != 0:
					fail("emit-wrong-nonzero", "field=%d ref=%d raw=%s", field, ref, crcHex(out))
				case !sz:
					fail("emit-zero-without-peer-advert", "kind=%d raw=%s", kind, crcHex(out))
				case mand:
					fail("emit-zero-on-init-or-cookie-echo", "kind=%d raw=%s", kind, crcHex(out))
				default:
					emittedZero++
				}
			}
			// what is emitted is accepted by every receiver it may be sent to
			for _, rz := range []bool{false, true} {
				if sz && !rz {
					continue
				}
				if cls, _, _ := crcClassify(&Association{recvZeroChecksum: rz}, append([]byte(nil), out...)); cls != "P" {
					fail("emit-not-accepted", "kind=%d sz=%t rz=%t raw=%s", kind, sz, rz, crcHex(out))
				}
			}
		}
	}
	// exhaustive: every single flipped bit of some packets of every kind, both option values
	sweepPkts, sweepFlips, sweepZeroOK := 0, 0, 0
	for i := 0; i < int(verifEnvInt("VERIF_SWEEP", 30)); i++ {
		p := crcMkPacket(r, i%crcNumKinds)
		good, _ := p.marshal(true)
		if binary.LittleEndian.Uint32(good[8:]) == 0 {
			continue
		}
		sweepPkts++
		for bit := 0; bit < 8*len(good); bit++ {
			m := append([]byte(nil), good...)
			crcFlip(m, bit)
			for _, rz := range []bool{false, true} {
				_, ok, _ := crcClassify(&Association{recvZeroChecksum: rz}, m)
				sweepFlips++
				if !ok {
					continue
				}
				if binary.LittleEndian.Uint32(m[8:]) == 0 && rz && !crcMandatoryFirst(m) {
					sweepZeroOK++ // the flip cleared a one-bit checksum field: permitted zero

					continue
				}
				fail("singlebit-accepted", "bit=%d rz=%t raw=%s", bit, rz, crcHex(m))
			}
		}
	}
	// exhaustive: every pair of flipped bits of a short packet (both outside the field, or both inside)
	pairPkts, pairFlips := 0, 0
	for i := 0; i < int(verifEnvInt("VERIF_PAIRS", 4)); i++ {
		p := crcMkPacket(r, []int{3, 7, 8, 9}[i%4])
		good, _ := p.marshal(true)
		if binary.LittleEndian.Uint32(good[8:]) == 0 {
			continue
		}
		pairPkts++
		inField := func(b int) bool { return b >= 64 && b < 96 }
		for b1 := 0; b1 < 8*len(good); b1++ {
			for b2 := b1 + 1; b2 < 8*len(good); b2++ {
				if inField(b1) != inField(b2) {
					continue
				}
				m := append([]byte(nil), good...)
				crcFlip(m, b1)
				crcFlip(m, b2)
				pairFlips++
				if _, ok, _ := crcClassify(&Association{recvZeroChecksum: false}, m); ok {
					fail("twobit-accepted", "bits=%d,%d raw=%s", b1, b2, crcHex(m))
				}
			}
		}
	}
	ks := []string{}
	for k, v := range byMut {
		ks = append(ks, fmt.Sprintf("%s:%d", k, v))
	}
	sort.Strings(ks)
	fmt.Printf("CRCRULES packets=%d checked=%d accepted=%d accepted_zero=%d rejected=%d emitted=%d emitted_zero=%d failures=%d "+
		"exhaustive_singlebit_packets=%d singlebit_flips=%d cleared_to_permitted_zero=%d exhaustive_twobit_packets=%d twobit_pairs=%d mutations=%s\n",
		n, checked, accepted, acceptedZero, rejected, emitted, emittedZero, fails,
		sweepPkts, sweepFlips, sweepZeroOK, pairPkts, pairFlips, strings.Join(ks, ","))
	if fails > 0 {
		t.Fail()
	}
}

// ---------------------------------------------------------------- wire monitor (real associations)

type crcSnap struct {
	peerLastTSN, tailTSN, myNextTSN, cumAck, rwnd, cwnd, state      uint32
	rpqSize, streams, acceptQ, ackState, pending, inflight, control int
	nDATAs, nPktsRecv, nPktsSent, nSACKsSent, nSACKsRecv            uint64
	delayedAck, immediateAck                                        bool
	streamBytes                                                     uint64
	wirePkts                                                        int
	bytesReceived                                                   uint64 // reported, not compared (counts raw reads)
}

func crcSnapshot(a *Association, w *crcWire) crcSnap {
	a.lock.Lock()
	defer a.lock.Unlock()
	s := crcSnap{
		peerLastTSN: a.payloadQueue.cumulativeTSN, tailTSN: a.payloadQueue.tailTSN, myNextTSN: a.myNextTSN,
		cumAck: a.cumulativeTSNAckPoint, rwnd: a.rwnd, cwnd: a.cwnd, state: a.getState(),
		rpqSize: a.payloadQueue.chunkSize, streams: len(a.streams), acceptQ: len(a.acceptCh), ackState: a.ackState,
		pending: a.pendingQueue.size(), inflight: a.inflightQueue.size(), control: a.controlQueue.size(),
		nDATAs: a.stats.getNumDATAs(), nPktsRecv: a.stats.getNumPacketsReceived(), nPktsSent: a.stats.getNumPacketsSent(),
		nSACKsSent: a.stats.getNumSACKsSent(), nSACKsRecv: a.stats.getNumSACKsReceived(),
		delayedAck: a.delayedAckTriggered, immediateAck: a.immediateAckTriggered,
		wirePkts: w.count(),
	}
	for _, st := range a.streams {
		st.lock.RLock()
		s.streamBytes += st.reassemblyQueue.nBytes
		st.lock.RUnlock()
	}
	s.bytesReceived = a.BytesReceived()

	return s
}

func (s crcSnap) comparable() crcSnap {
	s.bytesReceived = 0

	return s
}

func TestVerifCrcWire(t *testing.T) { //nolint:cyclop,gocyclo,maintidx
	seed := verifEnvInt("VERIF_SEED", 1)
	runs := int(verifEnvInt("VERIF_N", 3))
	fails := 0
	var fmu sync.Mutex
	fail := func(key, format string, args ...any) {
		fmu.Lock()
		defer fmu.Unlock()
		fails++
		if fails <= 20 {
			fmt.Printf("CRCFAIL key=%s %s\n", key, fmt.Sprintf(format, args...))
		}
	}
	totalPkts, zeroPkts, crcPkts, mandPkts, msgs, injected, controls := 0, 0, 0, 0, 0, 0, 0
	perCombo := []string{}
	typeHist := map[int]int{}
	injByMut := map[string]int{}

	for run := 0; run < runs; run++ {
		for combo := 0; combo < 4; combo++ {
			optA, optB := combo&1 != 0, combo&2 != 0
			lossy := run%2 == 1
			snap := run%4 >= 2
			synctest.Test(t, func(t *testing.T) {
				t.Helper()
				r := rand.New(rand.NewSource(seed*100 + int64(run*4+combo))) //nolint:gosec
				wire := &crcWire{}
				if lossy {
					wire.drop = func(int, []byte) bool { return r.Intn(12) == 0 }
				}
				a, b, _, _, err := crcEstablish(wire, optA, optB, snap)
				if err != nil {
					fail("e2e-handshake", "optA=%t optB=%t lossy=%t snap=%t: %v", optA, optB, lossy, snap, err)

					return
				}
				// direction of the negotiation
				a.lock.RLock()
				aS, aR := a.sendZeroChecksum, a.recvZeroChecksum
				a.lock.RUnlock()
				b.lock.RLock()
				bS, bR := b.sendZeroChecksum, b.recvZeroChecksum
				b.lock.RUnlock()
				if aR != optA || bR != optB {
					fail("direction-recv", "optA=%t optB=%t A.recv=%t B.recv=%t", optA, optB, aR, bR)
				}
				if aS != optB || bS != optA {
					fail("direction-send", "optA=%t optB=%t A.send=%t B.send=%t", optA, optB, aS, bS)
				}
				// traffic both ways, fragmented messages included
				nmsg := 6
				sa, err := a.OpenStream(1, PayloadTypeWebRTCBinary)
				if err != nil {
					fail("e2e-open", "%v", err)
				}
				sent := [][]byte{}
				for i := 0; i < nmsg; i++ {
					m := make([]byte, 1+r.Intn(3000))
					r.Read(m)
					sent = append(sent, m)
				}
				recvDone := make(chan int, 2)
				go func() {
					sb, err := b.AcceptStream()
					if err != nil {
						recvDone <- 0

						return
					}
					buf := make([]byte, 65536)
					got := 0
					for i := 0; i < nmsg; i++ {
						n, _, err := sb.ReadSCTP(buf)
						if err != nil {
							break
						}
						if string(buf[:n]) != string(sent[i]) {
							fail("e2e-payload", "optA=%t optB=%t message %d differs", optA, optB, i)
						}
						got++
						if _, err := sb.WriteSCTP(buf[:n], PayloadTypeWebRTCBinary); err != nil {
							break
						}
					}
					recvDone <- got
				}()
				go func() {
					buf := make([]byte, 65536)
					got := 0
					for i := 0; i < nmsg; i++ {
						n, _, err := sa.ReadSCTP(buf)
						if err != nil {
							break
						}
						if string(buf[:n]) != string(sent[i]) {
							fail("e2e-echo", "optA=%t optB=%t echo %d differs", optA, optB, i)
						}
						got++
					}
					recvDone <- got
				}()
				for _, m := range sent {
					if _, err := sa.WriteSCTP(m, PayloadTypeWebRTCBinary); err != nil {
						fail("e2e-write", "%v", err)
					}
				}
				// a transfer that cannot complete (packets refused by the peer's checksum rules are retransmitted
				// for ever) must not spin the virtual clock for ever: virtual deadline, then tear down
				g := []int{}
				stalled := false
				deadline := time.After(15 * time.Minute)
				for len(g) < 2 {
					select {
					case x := <-recvDone:
						g = append(g, x)
					case <-deadline:
						stalled = true
						deadline = nil
						_ = a.Close()
						_ = b.Close()
					}
				}
				if g[0] != nmsg || g[1] != nmsg {
					fail("e2e-transfer", "optA=%t optB=%t lossy=%t snap=%t delivered %d and %d of %d", optA, optB, lossy, snap, g[0], g[1], nmsg)
				}
				msgs += g[0] + g[1]
				if !stalled {
					time.Sleep(2 * time.Second) // let delayed SACKs go out
					synctest.Wait()
				}

				if !lossy && !stalled {
					// "discarded without any effect": corrupted DATA into the established B
					b.lock.RLock()
					next := b.payloadQueue.cumulativeTSN + 1
					vtag := b.myVerificationTag
					useI := b.useInterleaving
					b.lock.RUnlock()
					dp := &packet{sourcePort: 5000, destinationPort: 5000, verificationTag: vtag, chunks: []chunk{&chunkPayloadData{
						tsn: next, streamIdentifier: 9, streamSequenceNumber: 0, beginningFragment: true, endingFragment: true,
						payloadType: PayloadTypeWebRTCBinary, userData: []byte("verif-c13-injected"), iData: useI,
					}}}
					good, _ := dp.marshal(true)
					bconn, _ := b.netConn.(*crcConn)
					inject := func(raw []byte) (crcSnap, crcSnap) {
						before := crcSnapshot(b, wire)
						bconn.in <- append([]byte(nil), raw...)
						synctest.Wait()
						time.Sleep(time.Second)
						synctest.Wait()

						return before, crcSnapshot(b, wire)
					}
					var bads []crcMut
					for k := 0; k < 6; k++ {
						m := append([]byte(nil), good...)
						crcFlip(m, r.Intn(8*len(m)))
						bads = append(bads, crcMut{"bit-any", m})
					}
					m := append([]byte(nil), good...)
					binary.LittleEndian.PutUint32(m[8:], binary.LittleEndian.Uint32(m[8:])^0x00010000)
					bads = append(bads, crcMut{"bit-field", m})
					m = append([]byte(nil), good...)
					for k := 0; k < 5; k++ {
						crcFlip(m, r.Intn(8*len(m)))
					}
					bads = append(bads, crcMut{"bits-multi", m})
					if !optB {
						z, _ := dp.marshal(false)
						bads = append(bads, crcMut{"zero-without-option", z})
					}
					if optB {
						// zero checksum on packets starting with COOKIE-ECHO / INIT: refused even with the option
						b.lock.RLock()
						ck := b.myCookie
						b.lock.RUnlock()
						if ck != nil {
							cp := &packet{sourcePort: 5000, destinationPort: 5000, verificationTag: vtag, chunks: []chunk{&chunkCookieEcho{cookie: ck.cookie}}}
							z, _ := cp.marshal(false)
							bads = append(bads, crcMut{"zero-cookie-echo", z})
						}
						ip := &packet{sourcePort: 5000, destinationPort: 5000, chunks: []chunk{&chunkInit{chunkInitCommon: chunkInitCommon{
							initiateTag: 77, advertisedReceiverWindowCredit: 1 << 20, numOutboundStreams: 4, numInboundStreams: 4, initialTSN: 5,
						}}}}
						z, _ := ip.marshal(false)
						bads = append(bads, crcMut{"zero-init", z})
					}
					for _, bad := range bads {
						f := binary.LittleEndian.Uint32(bad.raw[8:])
						if f == crcRefChecksum(bad.raw) || (f == 0 && optB && !crcMandatoryFirst(bad.raw)) {
							continue // the mutation happens to be permitted
						}
						injByMut[bad.name]++
						before, after := inject(bad.raw)
						injected++
						if before.comparable() != after.comparable() {
							fail("reject-has-effect", "optB=%t mut=%s raw=%s before=%+v after=%+v", optB, bad.name, crcHex(bad.raw), before, after)
						}
						if after.bytesReceived != before.bytesReceived+uint64(len(bad.raw)) {
							fail("bytes-received", "before=%d after=%d len=%d", before.bytesReceived, after.bytesReceived, len(bad.raw))
						}
					}
					// control: the untouched packet does change the state (the comparison is sensitive)
					before, after := inject(good)
					controls++
					if after.peerLastTSN != before.peerLastTSN+1 || after.nDATAs != before.nDATAs+1 || after.streams != before.streams+1 {
						fail("noeffect-control", "valid packet had no effect: before=%+v after=%+v", before, after)
					}
				}

				// orderly end: SHUTDOWN handshake from A, then close both
				if !stalled {
					ctx, cancel := context.WithTimeout(context.Background(), 30*time.Second)
					_ = a.Shutdown(ctx)
					cancel()
					_ = a.Close()
					_ = b.Close()
				}
				synctest.Wait()

				// every packet on the wire
				nz, nc := 0, 0
				for i, wp := range wire.pkts {
					raw := wp.raw
					totalPkts++
					if len(raw) < 12 {
						fail("wire-short", "dir=%d len=%d", wp.dir, len(raw))

						continue
					}
					types := crcWireTypes(raw)
					mand := false
					for _, tc := range types {
						typeHist[tc]++
						mand = mand || tc == int(ctInit) || tc == int(ctCookieEcho)
					}
					if mand {
						mandPkts++
					}
					field := binary.LittleEndian.Uint32(raw[8:])
					ref := crcRefChecksum(raw)
					recvOpt := optB
					if wp.dir == 1 {
						recvOpt = optA
					}
					if field == ref {
						nc++
					} else {
						switch {
						case field != 0:
							fail("wire-wrong-nonzero", "pkt=%d dir=%d field=%d ref=%d raw=%s", i, wp.dir, field, ref, crcHex(raw))
						case !recvOpt:
							fail("wire-zero-to-non-acceptor", "optA=%t optB=%t pkt=%d dir=%d types=%v", optA, optB, i, wp.dir, types)
						case mand:
							fail("wire-zero-on-init-or-cookie-echo", "optA=%t optB=%t pkt=%d dir=%d types=%v", optA, optB, i, wp.dir, types)
						default:
							nz++
						}
					}
					// INIT / INIT-ACK carry the advertisement iff the sender enabled the option
					if len(types) > 0 && (types[0] == int(ctInit) || types[0] == int(ctInitAck)) {
						pp := &packet{}
						if err := pp.unmarshal(true, raw); err == nil && len(pp.chunks) == 1 {
							var ps []param
							switch c := pp.chunks[0].(type) {
							case *chunkInit:
								ps = c.params
							case *chunkInitAck:
								ps = c.params
							}
							has := false
							for _, q := range ps {
								if z, ok := q.(*paramZeroChecksumAcceptable); ok && z.edmid == dtlsErrorDetectionMethod {
									has = true
								}
							}
							sendOpt := optA
							if wp.dir == 1 {
								sendOpt = optB
							}
							if has != sendOpt {
								fail("advert", "optA=%t optB=%t dir=%d type=%d advertised=%t", optA, optB, wp.dir, types[0], has)
							}
						}
					}
				}
				zeroPkts += nz
				crcPkts += nc
				// the option is really exercised: zero checksums do appear towards an endpoint that enabled it
				if (optA || optB) && nz == 0 {
					fail("coverage-no-zero", "optA=%t optB=%t: no zero-checksum packet observed", optA, optB)
				}
				perCombo = append(perCombo, fmt.Sprintf("A%dB%d%s%s:%d/%d", b2i(optA), b2i(optB), map[bool]string{true: "L", false: ""}[lossy],
					map[bool]string{true: "S", false: ""}[snap], nz, len(wire.pkts)))
			})
		}
	}
	ks := []int{}
	for k := range typeHist {
		ks = append(ks, k)
	}
	sort.Ints(ks)
	th := []string{}
	for _, k := range ks {
		th = append(th, fmt.Sprintf("%d:%d", k, typeHist[k]))
	}
	im := []string{}
	for k, v := range injByMut {
		im = append(im, fmt.Sprintf("%s:%d", k, v))
	}
	sort.Strings(im)
	if len(perCombo) > 16 {
		perCombo = perCombo[:16]
	}
	fmt.Printf("CRCWIRE runs=%d wire_packets=%d zero=%d crc=%d with_init_or_cookie_echo=%d messages=%d injected_corrupt=%d(%s) controls=%d failures=%d zero/total_first_combos=%s chunk_types=%s\n",
		runs*4, totalPkts, zeroPkts, crcPkts, mandPkts, msgs, injected, strings.Join(im, ","), controls, fails, strings.Join(perCombo, ","), strings.Join(th, ","))
	if fails > 0 {
		t.Fail()
	}
}

// ---------------------------------------------------------------- negotiation monitor

// independent reference for "the peer advertised acceptance with the DTLS method": the last
// ZeroChecksumAcceptable parameter decides; without one the flag keeps its previous value
func crcRefSendZero(prev bool, ps []param) (bool, bool) {
	res, seen := prev, false
	for _, p := range ps {
		if z, ok := p.(*paramZeroChecksumAcceptable); ok {
			res, seen = z.edmid == 1, true
		}
	}

	return res, seen
}

func TestVerifCrcNeg(t *testing.T) { //nolint:cyclop
	seed := verifEnvInt("VERIF_SEED", 1)
	n := int(verifEnvInt("VERIF_N", 300))
	r := rand.New(rand.NewSource(seed + 2000)) //nolint:gosec
	fails := 0
	fail := func(key, format string, args ...any) {
		fails++
		if fails <= 20 {
			fmt.Printf("CRCFAIL key=%s %s\n", key, fmt.Sprintf(format, args...))
		}
	}
	nInit, nAck, nSet, nTrue := 0, 0, 0, 0
	obsSticky, obsSnap := false, false
	mkInit := func(ps []param) chunkInitCommon {
		return chunkInitCommon{
			initiateTag: r.Uint32() | 1, advertisedReceiverWindowCredit: 1 << 20,
			numOutboundStreams: 10, numInboundStreams: 10, initialTSN: r.Uint32(), params: ps,
		}
	}
	check := func(path string, opt, prev, now, recvNow bool, ps []param) {
		want, seen := crcRefSendZero(prev, ps)
		if now {
			nTrue++
		}
		if now != want {
			fail("negotiation-"+path, "opt=%t prev=%t params=%v got=%t want=%t", opt, prev, crcParamTokens(ps), now, want)
		}
		if now && !prev && !(seen && want) {
			fail("sendzero-without-dtls-advert", "path=%s opt=%t params=%v", path, opt, crcParamTokens(ps))
		}
		if recvNow != opt {
			fail("direction-recv", "path=%s opt=%t recvZeroChecksum=%t", path, opt, recvNow)
		}
	}
	synctest.Test(t, func(t *testing.T) {
		t.Helper()
		for i := 0; i < n; i++ {
			opt := r.Intn(2) == 0
			ps := crcRandParams(r)
			prev := r.Intn(2) == 0
			a0 := &Association{sendZeroChecksum: prev, recvZeroChecksum: opt}
			a0.setSendZeroChecksum(ps)
			check("set", opt, prev, a0.sendZeroChecksum, a0.recvZeroChecksum, ps)
			nSet++

			conn, _ := crcNewPair(&crcWire{})
			a := createAssociationFromConfigWithTsn(&Config{NetConn: conn, LoggerFactory: crcQuietLoggers(), EnableZeroChecksum: opt}, r.Uint32())
			ps = crcRandParams(r)
			a.lock.Lock()
			_, err := a.handleInit(&packet{sourcePort: 5000, destinationPort: 5000}, &chunkInit{chunkInitCommon: mkInit(ps)})
			now, rn := a.sendZeroChecksum, a.recvZeroChecksum
			a.lock.Unlock()
			if err != nil {
				fail("negotiation-error", "handleInit: %v", err)
			}
			check("init", opt, false, now, rn, ps)
			nInit++
			_ = a.close()

			conn2, _ := crcNewPair(&crcWire{})
			a2 := createAssociationFromConfigWithTsn(&Config{NetConn: conn2, LoggerFactory: crcQuietLoggers(), EnableZeroChecksum: opt}, r.Uint32())
			ps = append([]param{&paramStateCookie{cookie: []byte{1, 2, 3, 4}}}, crcRandParams(r)...)
			a2.lock.Lock()
			a2.setState(cookieWait)
			a2.sourcePort, a2.destinationPort = 5000, 5000
			err = a2.handleInitAck(&packet{sourcePort: 5000, destinationPort: 5000}, &chunkInitAck{chunkInitCommon: mkInit(ps)})
			now, rn = a2.sendZeroChecksum, a2.recvZeroChecksum
			a2.lock.Unlock()
			if err != nil {
				fail("negotiation-error", "handleInitAck: %v", err)
			}
			check("initack", opt, false, now, rn, ps)
			nAck++
			_ = a2.close()
		}

		// Observations outside the quantifier of C13 (one peer = one option); reported, not failures.
		// (1) the flag is not reset by a later INIT that lacks the parameter
		conn, _ := crcNewPair(&crcWire{})
		a := createAssociationFromConfigWithTsn(&Config{NetConn: conn, LoggerFactory: crcQuietLoggers()}, 1)
		a.lock.Lock()
		_, _ = a.handleInit(&packet{sourcePort: 5000, destinationPort: 5000},
			&chunkInit{chunkInitCommon: mkInit([]param{&paramZeroChecksumAcceptable{edmid: dtlsErrorDetectionMethod}})})
		first := a.sendZeroChecksum
		_, _ = a.handleInit(&packet{sourcePort: 5000, destinationPort: 5000}, &chunkInit{chunkInitCommon: mkInit(nil)})
		second := a.sendZeroChecksum
		a.lock.Unlock()
		_ = a.close()
		fmt.Printf("CRCOBS key=sendzero-sticky-across-inits after_init_with_param=%t after_later_init_without_param=%t\n", first, second)
		obsSticky = first && second
		// (2) out-of-band path: recvZeroChecksum follows Config.EnableZeroChecksum, not the local token
		tokNo, _ := GenerateOutOfBandToken(WithEnableZeroChecksum(false))
		tokPeer, _ := GenerateOutOfBandToken(WithEnableZeroChecksum(false))
		conn3, _ := crcNewPair(&crcWire{})
		a3, err := ClientWithOptions(WithNetConn(conn3), WithLoggerFactory(crcQuietLoggers()), WithEnableZeroChecksum(true), WithSNAP(tokNo, tokPeer))
		if err == nil {
			a3.lock.RLock()
			rz := a3.recvZeroChecksum
			a3.lock.RUnlock()
			fmt.Printf("CRCOBS key=snap-recvzero-from-config-not-token token_advertises=false config_option=true recvZeroChecksum=%t\n", rz)
			obsSnap = rz
			_ = a3.Close()
		}
	})
	fmt.Printf("CRCNEG set=%d handleInit=%d handleInitAck=%d send_zero_true=%d failures=%d obs_sendzero_sticky_across_inits=%t obs_snap_recvzero_from_config_not_token=%t\n",
		nSet, nInit, nAck, nTrue, fails, obsSticky, obsSnap)
	if fails > 0 {
		t.Fail()
	}
}

var _ = bufio.NewWriter // keep the import list stable for small edits
