(* C01 — reliable ordered delivery, safety half: what reads return on an ordered stream is a prefix, in
   order, of what was written, bytes and payload protocol identifier equal.
   Receiver: coq/model/E2E.v ([e2e_recv_data] = handleData -> acceptPayloadData -> pushPayloadDataToStream ->
   pop loop, over RPQ.v and one RQ.v queue per stream; [e2e_read] = one pass of ReadSCTP).
   Sender universe: a function from unbounded TSN indices to chunks, well-formed w.r.t. message families
   (T s k = index of the first fragment of the k-th ordered message of stream s, nfr s k = its number of
   fragments, frag s k j = payload of fragment j, mppi s k = its PPI); StreamW.v/sw_frags_spec and
   C17/c17_msg_contiguous are what makes the real sender produce such a universe. *)
From Coq Require Import ZArith Bool List.
From Sctp Require Import Gen SnaProofs RPQ RQ E2E RQProofs RPQProofs E2EProofs.
Import ListNotations.
Open Scope Z_scope.

(* DATA mode (no interleaving).  For every well-formed universe U, every event list - arrivals of any
   indices of U in any order, with any duplication and omission, with or without room in the accept channel,
   interleaved with reads on any stream with any buffer length -, any receive buffer size, entry limit and
   initial TSN: the messages handed to the application on stream s are messages 0,1,..,n-1 of s, in order,
   each with the concatenation of its fragments' payloads and its PPI.
   Hypotheses, per arrival ([crun_ok]):
     H_tsn  the index lies within 2^31 of the cumulative point (bounded packet lifetime, as in C05);
     H_ssn  the chunk belongs to a message fewer than 2^15 messages ahead of the number already read on
            its stream.
   The admission rule when the buffer is full is the code's ([rq_admit]); nothing is assumed about it. *)
Theorem c01_ordered_prefix : forall U own T nfr frag mppi,
  (forall s k, 1 <= nfr s k < 2147483648) ->
  (forall i c, U i = Some c ->
     exists s k j, own i = Some (s, k, j) /\ 0 <= k /\ 0 <= j < nfr s k /\ i = T s k + j /\
                   c = uchunk T nfr frag mppi s k j) ->
  forall peer_tsn buf maxent evs s, in32 buf ->
  crun_ok U own (e2e_cinit peer_tsn buf maxent) evs ->
  let outs := outs_of s (couts U (e2e_cinit peer_tsn buf maxent) evs) in
  map e2e_bytes outs =
  map (fun i => (s, concat (map (frag s (Z.of_nat i)) (js (nfr s (Z.of_nat i)))), mppi s (Z.of_nat i)))
      (seq 0 (length outs)).
Proof. exact e2e_ordered_prefix_data. Qed.
Print Assumptions c01_ordered_prefix.

(* the queue-level core: one reassembly queue fed with fragments of a message family, none twice, in any
   order, reads in between: the deliveries are consecutive whole messages starting at the read cursor *)
Theorem c01_one_queue_prefix : forall s T nfr frag mppi,
  (forall k, 1 <= nfr k < 2147483648) ->
  forall ops q m P, QInv s T nfr frag mppi q m P -> qvalid s T nfr frag mppi m P q ops ->
  qouts s T nfr frag mppi q ops = msgs_from s T nfr frag mppi m (length (qouts s T nfr frag mppi q ops)).
Proof. exact one_queue_prefix. Qed.
Print Assumptions c01_one_queue_prefix.

(* a complete set made of fragments of one message is that message, whole and in order (no truncation,
   no merge): used for "intact" *)
Theorem c01_complete_set_is_message : forall s T nfr frag mppi,
  (forall k, 1 <= nfr k < 2147483648) -> forall k cs,
  Forall (fun c => exists j, 0 <= j < nfr k /\ c = qchunk s T nfr frag mppi k j) cs ->
  rqs_complete cs = true -> cs = qmsg s T nfr frag mppi k.
Proof. exact complete_is_message. Qed.
Print Assumptions c01_complete_set_is_message.

(* no duplication: an index the receive bitmap accepts was not accepted before (C05) - the reason every
   fragment reaches its queue at most once *)
Theorem c01_accepted_once : forall k0 q g i,
  J k0 (q, g) -> - H31 < i - gK g < H31 -> snd (push q (wrap32 i)) = true -> ~ In i (gacc g).
Proof. exact J_accept_new. Qed.
Print Assumptions c01_accepted_once.

(* non-vacuity: two streams, fragmented messages, reordering, a duplicate, a short read *)
Example c01_example :
  let T s k := if s =? 0 then (if k =? 0 then 10 else 13) else 12 in
  let nfr s k := if (s =? 0) && (k =? 0) then 2 else 1 in
  let frag s k j := [s; k; j] in
  let mppi s k := 51 + s in
  let own i := if i =? 10 then Some (0, 0, 0) else if i =? 11 then Some (0, 0, 1)
               else if i =? 12 then Some (1, 0, 0) else if i =? 13 then Some (0, 1, 0) else None in
  let U i := match own i with Some (s, k, j) => Some (uchunk T nfr frag mppi s k j) | None => None end in
  let evs := [EvArr 13 true; EvArr 11 true; EvRead 0 99; EvArr 12 true; EvArr 11 true; EvArr 10 true;
              EvRead 0 1; EvRead 0 99; EvRead 1 99; EvRead 0 99] in
  map e2e_bytes (couts U (e2e_cinit 10 4096 0) evs) =
  [(0, [0;0;0;0;0;1], 51); (1, [1;0;0], 52); (0, [0;1;0], 51)].
Proof. vm_compute. reflexivity. Qed.

(* D16: without H_ssn the statement "an acknowledged chunk is held until it is read" fails: with the read
   cursor at 0 an ordered chunk with SSN 32769 is recorded in the receive bitmap (the cumulative point
   moves over it, it will never be retransmitted) and dropped by the stream's queue.  Observed on the
   implementation by TestVerifE2ESpan (32772 unread one-byte messages: 3 of them are lost). *)
Example c01_span_refuted :
  let c := mkRqChunk 1 0 32769 0 0 51 false true true false [7] in
  let r := e2e_recv_data (e2e_new 1 1048576 0 false) c true in
  snd r = EoStored (RqOk false) /\ cum (e2e_pq (fst r)) = 1 /\
  map (fun p => rq_all_chunks (snd p)) (e2e_streams (fst r)) = [[]].
Proof. vm_compute. repeat split. Qed.
