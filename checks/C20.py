"""C20 — the public API is safe for concurrent use (partial by design: the lock discipline).

Static part (proof): /verif/go/locktranslator turns the non-test files of package sctp into
coq/gen/LockGraph.v (pre_build, before the Coq build); coq/props/C20.v decides the discipline on it by
vm_compute and instantiates the soundness theorems of coq/proofs/LockProofs.v.
When the discipline does not hold (or for the findings waived in coq/model/LockWaivers.v) this module
evaluates the checker's report and prints the offending call path (function chain + lock sets): that path
is the failing input of this property.
Validation part (not proof): API storms on real associations, under the race detector in the thorough tier.
"""
import ast, collections, glob, json, os, re, subprocess, time
import vlib

PROP = "C20"
PROPS_FILE = "props/C20.v"
COQ_FILES = ["gen/LockGraph.v", "model/LockLang.v", "model/LockSem.v", "model/LockCheck.v", "model/LockWaivers.v",
             "proofs/LockProofs.v", "props/C20.v"]
TRUSTED_BASE = [
    "Coq 8.16.1 kernel; vm_compute closes the finite computation discipline_ok_with (c20_discipline_ok) and the toy "
    "Examples; no native_compute",
    "lock translator /verif/go/locktranslator (go/types; ~1500 lines): the abstraction of Go statements to the language of "
    "coq/model/LockLang.v (defer inlining, Block/Exit for return/break/continue, call resolution, what is ignored) - notes/C20.md",
    "the abstract semantics coq/model/LockSem.v stands for goroutines: mutex classes = (struct type, field), data is dropped, "
    "blocking/scheduling is an arbitrary predicate",
    "waiver lists coq/model/LockWaivers.v (hand-written, each entry justified in notes/C20.md)",
    "validation only: go test -race API storms (zz_verif_race_test.go), Go's race detector",
]
ASSUMPTIONS = [
    "what is proved is the lock discipline of the abstract program (lock sets, lock order, no callback under a lock, guarded "
    "writes) and its consequences in the abstract semantics; the Go memory model, channel/sync.Cond liveness and the scheduler "
    "are not modelled",
    "mutex instances of one class are identified: no goroutine ever holds two mutexes of one class (checked), so a cycle among "
    "instances would be a cycle among classes",
    "data-race freedom itself is validated (race detector storms), not proved; reads of guarded fields are listed, not checked",
]
LEVEL_TEXT = ("Machine-checked (Coq): an executable checker of the lock discipline is proved sound for an interleaving semantics of "
              "the abstract language, for all programs, interleavings and blocking policies: lock sets at every atom are those "
              "examined (no re-acquisition, no release of an unheld mutex), rank rule => no set of goroutines blocked on each "
              "other's mutexes (pending writers included), callbacks / net.Conn calls / blocking operations only under explicitly "
              "listed mutexes, writes under the inferred guard. The checker is evaluated by vm_compute on the abstraction of /repo "
              "regenerated on every run. Validation: concurrent API storms under the race detector.")
LEVEL_NOTE = ("Partial by design: trusted translator (Go -> lock/call abstraction), class-level mutex identity, no memory model; "
              "delivery guarantees under concurrency are only monitored in the storms (per-writer contiguity on ordered reliable streams).")
TECHNIQUE = "Coq: verified abstract interpreter of the lock discipline on a translator-generated program + race-detector storms"

LT_DIR = os.path.join(vlib.VERIF, "go/locktranslator")
LT_BIN = os.path.join(vlib.BUILD, "locktranslator")
LT_JSON = os.path.join(vlib.BUILD, "lockgraph.json")
LG_V = os.path.join(vlib.COQ, "gen/LockGraph.v")
_PRE = {"ok": None, "log": ""}


# ---------------------------------------------------------------- translator (before the Coq build)

def run_translator():
    os.makedirs(vlib.BUILD, exist_ok=True)
    src = sorted(glob.glob(os.path.join(LT_DIR, "*.go")) + [os.path.join(LT_DIR, "go.mod")])
    stamp = os.path.join(vlib.BUILD, "locktranslator.stamp")
    h = vlib.file_hash(src)
    if not os.path.exists(LT_BIN) or not os.path.exists(stamp) or open(stamp).read() != h:
        # built with the toolchain /repo needs: the source importer of go/types shells out to `go list`
        rc, out, _ = vlib.sh([vlib.GO, "build", "-o", LT_BIN, "."], cwd=LT_DIR, env=vlib.GOENV, timeout=600)
        if rc != 0:
            return False, "lock translator build failed:\n" + out
        open(stamp, "w").write(h)
    tmp = os.path.join(vlib.BUILD, "LockGraph.v.new")
    rc, out, _ = vlib.sh([LT_BIN, vlib.REPO, tmp, LT_JSON + ".new"], env=vlib.GOENV, timeout=600)
    if rc != 0:
        return False, "lock translator refused the source:\n" + out
    vlib.write_if_changed(LG_V, open(tmp).read())
    vlib.write_if_changed(LT_JSON, open(LT_JSON + ".new").read())
    return True, out.strip()


def pre_build():
    ok, log = run_translator()
    _PRE["ok"], _PRE["log"] = ok, log
    if not ok:
        return ("proof", "locktranslator", log[-2500:])
    return None


# ---------------------------------------------------------------- the checker's report, decoded

KINDS = ['user', 'ext', 'send', 'recv', 'trysend', 'tryrecv', 'selsend', 'selrecv', 'close', 'wait', 'signal',
         'write', 'read', 'atomic', 'go']
MODE = {0: '', 1: 'R', 2: 'W'}

REPORT_V = r'''
From Coq Require Import List Arith Bool String.
From Sctp Require Import LockLang LockCheck LockGraph LockWaivers.
Import ListNotations.
Set Printing Width 1000000.
Set Printing Depth 10000000.
Definition keepf (f : nat * list nat * (nat * nat) * list nat) : bool :=
  match f with (_, _, (c, _), _) =>
    match c with 100 | 102 | 200 | 0 | 1 | 2 | 3 | 6 | 7 | 9 | 11 => true | _ => false end end.
Definition R0 := Eval vm_compute in lc_report_of program WS [] URD (fun _ => false).
Definition R1 := Eval vm_compute in lc_report_of program WS [] URD (fun _ => true).
Eval vm_compute in ("R0ok"%string, rep_ok R0). Eval vm_compute in ("R0rank"%string, rep_rank R0).
Eval vm_compute in ("R0guards"%string, rep_guards R0). Eval vm_compute in ("R0table"%string, rep_table R0).
Eval vm_compute in ("R0atomics"%string, rep_atomics R0). Eval vm_compute in ("R1atomics"%string, rep_atomics R1).
Eval vm_compute in ("R0bad"%string, rep_bad R0). Eval vm_compute in ("R0facts"%string, filter keepf (rep_facts R0)).
Eval vm_compute in ("R1ok"%string, rep_ok R1). Eval vm_compute in ("R1rank"%string, rep_rank R1).
Eval vm_compute in ("R1guards"%string, rep_guards R1). Eval vm_compute in ("R1table"%string, rep_table R1).
Eval vm_compute in ("R1bad"%string, rep_bad R1). Eval vm_compute in ("R1facts"%string, filter keepf (rep_facts R1)).
'''


class Report:
    def __init__(self, J, out):
        self.J, self.out = J, out

    def grab(self, tag):
        m = re.search(r'= \("%s"%%string,\s*(.*?)\)\s*\n\s*: ' % tag, self.out, flags=re.S)
        if not m:
            raise ValueError("report field %s missing" % tag)
        txt = m.group(1).replace(';', ',').replace('true', 'True').replace('false', 'False')
        return ast.literal_eval(txt)

    def fn(self, i):
        return self.J['funcs'][i]['name'] if i < len(self.J['funcs']) else "fn#%d" % i

    def ls(self, h):
        return '{' + ', '.join('%s:%s' % (self.J['mutexes'][i], MODE[x]) for i, x in enumerate(h) if x) + '}'

    def ev(self, c, o):
        J = self.J
        if c in (100, 101, 102, 103):
            return ['Lock', 'Unlock', 'RLock', 'RUnlock'][c - 100] + ' ' + J['mutexes'][o]
        if c == 200:
            return 'call ' + self.fn(o)
        if c == 300:
            return 'loop whose lock sets do not close'
        k = KINDS[c]
        if k == 'go':
            return 'go ' + self.fn(o)
        tab = {'user': 'users', 'ext': 'exts', 'wait': 'conds', 'signal': 'conds', 'write': 'fields', 'read': 'fields',
               'atomic': 'fields'}.get(k, 'chans')
        return k + ' ' + J[tab][o]


def order_graph(facts):
    g = collections.defaultdict(set)
    for f, e, (c, o), h in facts:
        if c in (100, 102):
            for i, x in enumerate(h):
                if x and i != o:
                    g[i].add(o)
    return g


def find_cycle(g, held, m):
    """acquiring m while holding `held`: a cycle m ->* m1 -> m through the lock-order graph, if any"""
    for m1 in held:
        prev = {m: None}
        q = collections.deque([m])
        while q:
            n = q.popleft()
            if n == m1:
                break
            for k in sorted(g.get(n, ())):
                if k not in prev:
                    prev[k] = n
                    q.append(k)
        if m1 in prev:
            path = []
            n = m1
            while n is not None:
                path.append(n)
                n = prev[n]
            return path[::-1]          # m ... m1   (and m1 -> m closes it)
    return None


def classify(rep, fact, rank, guards, graph):
    """stable key per kind of violation; None = a mere consequence of another violation (not reported)"""
    f, e, (c, o), h = fact
    J = rep.J
    heldm = [J['mutexes'][i] for i, x in enumerate(h) if x]
    if c in (100, 102):
        m = J['mutexes'][o]
        if h[o]:
            return "relock:%s" % m
        cyc = find_cycle(graph, [i for i, x in enumerate(h) if x], o)
        if cyc is None:
            return None   # the rank iteration diverged because of a cycle elsewhere; this edge is not on it
        names = [J['mutexes'][i] for i in cyc]
        k = names.index(min(names))
        return "lock-order-cycle:" + "->".join(names[k:] + names[:k])
    if c in (101, 103):
        return "unlock-unheld:%s" % J['mutexes'][o]
    if c == 200:
        return "internal:call-not-in-table"
    if c == 300:
        return "lock-leaks-from-loop:%s" % rep.fn(f)
    k = KINDS[c]
    if k == 'user':
        name = J['users'][o]
        if 'Scheduler' in name:
            return "calluser-under-lock:scheduler"
        return "calluser-under-lock:%s" % name
    if k == 'ext':
        return "ext-under-lock:%s:%s" % (J['exts'][o], '+'.join(heldm))
    if k == 'write':
        if o in guards.get('_atomics', ()):
            return "mixed-atomic-write:%s" % J['fields'][o]
        return "unguarded-write:%s" % J['fields'][o]
    if k == 'read':
        return "unguarded-read:%s" % J['fields'][o]
    if k == 'go':
        return "go-non-root:%s" % rep.fn(o)
    obj = J['conds'][o] if k == 'wait' else J['chans'][o]
    return "blocking-under-lock:%s:%s:%s" % (k, obj, '+'.join(heldm))


def call_path(rep, facts, roots, target):
    """shortest chain of (function, entry lock set) from a root (entered with no lock) to target"""
    edges = collections.defaultdict(list)
    for f, e, (c, o), h in facts:
        if c == 200:
            edges[(f, tuple(e))].append(((o, tuple(h)), tuple(h)))
    names = [x['name'] for x in rep.J['funcs']]
    nm = len(rep.J['mutexes'])
    start = [(names.index(r['fn']), tuple([0] * nm)) for r in roots if r['fn'] in names]
    prev = {s: None for s in start}
    q = collections.deque(start)
    while q:
        n = q.popleft()
        if n == target:
            break
        for (m, _) in edges.get(n, []):
            if m not in prev:
                prev[m] = n
                q.append(m)
    if target not in prev:
        return []
    path = []
    n = target
    while n is not None:
        path.append(n)
        n = prev[n]
    return path[::-1]


def describe(rep, facts, fact, key):
    f, e, (c, o), h = fact
    J = rep.J
    path = call_path(rep, facts, J['roots'], (f, tuple(e)))
    kinds = {r['fn']: r['kind'] for r in J['roots']}
    chain = []
    for i, (g, ge) in enumerate(path):
        name = rep.fn(g)
        pos = J['funcs'][g]['pos']
        tag = " [root: %s]" % kinds.get(name, "?") if i == 0 else ""
        chain.append("%s (%s) entered holding %s%s" % (name, pos, rep.ls(list(ge)), tag))
    # source positions of the offending atom inside the last function
    want = rep.ev(c, o)
    sites = []
    for a in J['funcs'][f].get('atoms') or []:
        k = a['kind']
        txt = {'lock': 'Lock ', 'unlock': 'Unlock ', 'rlock': 'RLock ', 'runlock': 'RUnlock '}.get(k, k + ' ') + a['obj']
        if txt == want and a['pos'] not in sites:
            sites.append(a['pos'])
    return {
        "key": key,
        "violation": "%s while holding %s" % (want, rep.ls(h)),
        "in_function": rep.fn(f),
        "source_sites": sites[:6],
        "call_path": chain,
    }


def static_report(tmp, waivers="c20_justified", ureads="c20_unguarded_reads"):
    """Evaluate the checker's report for both flag valuations.  Returns dict or raises."""
    J = json.load(open(LT_JSON))
    src = os.path.join(tmp, "C20Report.v")
    with open(src, "w") as f:
        f.write(REPORT_V.replace("WS", waivers).replace("URD", ureads))
    rc, out, dt = vlib.sh(["coqc", "-Q", os.path.join(vlib.COQ, "gen"), "Sctp", "-Q", os.path.join(vlib.COQ, "model"), "Sctp",
                           "C20Report.v"], cwd=tmp, timeout=900)
    if rc != 0:
        raise RuntimeError("report evaluation failed: " + out[-1500:])
    rep = Report(J, out)
    res = {"wall_s": round(dt, 1), "valuations": {}, "violations": []}
    seen = set()
    for R, flagv in (("R0", "BlockWrite=false"), ("R1", "BlockWrite=true")):
        ok, rank, guards = rep.grab(R + "ok"), rep.grab(R + "rank"), dict(rep.grab(R + "guards"))
        table, bad, facts = rep.grab(R + "table"), rep.grab(R + "bad"), rep.grab(R + "facts")
        atomics = rep.grab(R + "atomics")
        edges = collections.OrderedDict()
        for f, e, (c, o), h in facts:
            if c in (100, 102):
                for i, x in enumerate(h):
                    if x:
                        edges.setdefault("%s -> %s" % (J['mutexes'][i], J['mutexes'][o]), "%s entered holding %s" % (rep.fn(f), rep.ls(e)))
        res["valuations"][flagv] = {
            "ok": ok, "entries": len(table), "functions_reached": len({f for f, _, _ in table}),
            "rank": dict(zip(J['mutexes'], rank)), "lock_order_edges": edges,
            "guards": {J['fields'][o]: [J['mutexes'][m] for m in ms] for o, ms in guards.items()},
            "atomic_fields": [J['fields'][o] for o in atomics],
        }
        guards = dict(guards, _atomics=set(atomics))
        graph = order_graph(facts)
        for fact in bad:
            key = classify(rep, fact, rank, guards, graph)
            if key is None:
                continue
            if (key, flagv) in seen:
                continue
            seen.add((key, flagv))
            d = describe(rep, facts, fact, key)
            d["flags"] = flagv
            if key.startswith("lock-order-cycle:"):
                # show one acquisition (with its call path) for every edge of the cycle
                f0, e0, (c0, o0), h0 = fact
                cyc = find_cycle(graph, [i for i, x in enumerate(h0) if x], o0)
                d["cycle_edges"] = []
                for a, b in zip(cyc, cyc[1:] + cyc[:1]):
                    for g in facts:
                        if g[2][0] in (100, 102) and g[2][1] == b and g[3][a]:
                            dd = describe(rep, facts, g, key)
                            d["cycle_edges"].append({"edge": "%s -> %s" % (J['mutexes'][a], J['mutexes'][b]), "acquisition": dd["violation"],
                                                     "in_function": dd["in_function"], "source_sites": dd["source_sites"], "call_path": dd["call_path"]})
                            break
            res["violations"].append(d)
        names = [x['name'] for x in J['funcs']]
        rootids = {names.index(r['fn']) for r in J['roots'] if r['fn'] in names}
        for f, e, xs in table:
            if len(xs) > 1:
                res["violations"].append({"key": "unbalanced-exit:%s" % rep.fn(f), "flags": flagv, "in_function": rep.fn(f),
                                          "violation": "entered holding %s, returns holding one of %s" % (rep.ls(e), [rep.ls(x) for x in xs]),
                                          "call_path": [], "source_sites": [J['funcs'][f]['pos']]})
            if f in rootids and not any(e) and any(any(x) for x in xs):
                res["violations"].append({"key": "root-returns-locked:%s" % rep.fn(f), "flags": flagv, "in_function": rep.fn(f),
                                          "violation": "root returns holding %s" % [rep.ls(x) for x in xs],
                                          "call_path": [], "source_sites": [J['funcs'][f]['pos']]})
    return res


# ---------------------------------------------------------------- storms (validation)

def race_binary(tmp):
    """-race build of the harness (needs cgo).  Returns (path or None, log)."""
    inpkg = sorted(glob.glob(os.path.join(vlib.VERIF, "go/inpkg/*.go")))
    srcs = inpkg + glob.glob(os.path.join(vlib.REPO, "*.go")) + [os.path.join(vlib.REPO, "go.mod")]
    h = vlib.file_hash(srcs)
    stamp = os.path.join(vlib.BUILD, "harness.race.stamp")
    tbin = os.path.join(vlib.BUILD, "sctp.race.test")
    if os.path.exists(tbin) and os.path.exists(stamp) and open(stamp).read() == h:
        return tbin, "cached"
    env = dict(vlib.GOENV, CGO_ENABLED="1")
    rc, out, _ = vlib.sh([vlib.GO, "test", "-race", "-overlay", os.path.join(vlib.BUILD, "overlay.json"), "-c", "-vet=off", "-o", tbin, "."],
                         cwd=vlib.REPO, env=env, timeout=1200)
    if rc != 0:
        return None, out[-1500:]
    open(stamp, "w").write(h)
    return tbin, out


def race_key(block):
    # first sctp function named in the report
    m = re.search(r'github\.com/pion/sctp\.(\(\*?\w+\)\.\w+|\w+)\(\)', block)
    return "data-race:" + (m.group(1) if m else "unknown")


def storm(ctx, name, binary, n, seeds, timeout=1500, test="TestVerifC20Storm", keyprefix="storm"):
    """run a storm test (TestVerifC20Storm by default) in len(seeds) parallel processes"""
    t0 = time.time()
    procs = []
    for s in seeds:
        e = dict(os.environ, VERIF_SEED=str(s), VERIF_N=str(n))
        procs.append((s, subprocess.Popen([binary, "-test.run", "^%s$" % test, "-test.count=1", "-test.timeout", "%ds" % timeout],
                                          cwd=vlib.REPO, env=e, stdout=subprocess.PIPE, stderr=subprocess.STDOUT, text=True, errors="replace")))
    tot = collections.Counter()
    nfail = 0
    for s, p in procs:
        try:
            out, _ = p.communicate(timeout=timeout + 60)
        except subprocess.TimeoutExpired:
            p.kill()
            out, _ = p.communicate()
            out += "\nC20STUCK seed=%s phase=test-timeout" % s
        env = {"VERIF_SEED": s, "VERIF_N": n}
        for l in out.splitlines():
            if l.startswith(("C20STUCK", "C20ORDER", "C20PANIC")):
                nfail += 1
                key = {"C20STUCK": keyprefix + "-stuck", "C20ORDER": keyprefix + "-delivery-order", "C20PANIC": keyprefix + "-panic"}[l.split()[0]]
                ctx.concrete.append(dict(property=PROP, what=l[:1500], key=key, monitor=name, test=test, env=env,
                                         race=binary.endswith("race.test")))
            if l.startswith("C20STORM"):
                for kv in l.split()[1:]:
                    k, _, v = kv.partition("=")
                    if v.isdigit():
                        tot[k] += int(v)
        for blk in re.findall(r'WARNING: DATA RACE.*?==================', out, flags=re.S):
            nfail += 1
            ctx.concrete.append(dict(property=PROP, what=blk[:3000], key=race_key(blk), monitor=name, test=test, env=env, race=True))
        if p.returncode not in (0, 1, 66) and "C20STORM" not in out:
            ctx.broken.append(("correspondence", name, "storm run failed (rc=%s): %s" % (p.returncode, out[-1200:])))
    ctx.corr.append(dict(name=name, ok=nfail == 0, records=tot.get("api_calls", 0) + tot.get("writes", 0) + tot.get("reads", 0),
                         failures=nfail, summary=dict(tot), processes=len(seeds), race_detector=binary.endswith("race.test"),
                         wall_s=round(time.time() - t0, 1)))


# ---------------------------------------------------------------- check entry points

def static_part(ctx):
    if _PRE["ok"] is False:
        ctx.notes.append("lock translator refused the source; coq/gen/LockGraph.v is stale, static report skipped")
        return None
    if _PRE["ok"] is None:          # module used outside ./check (replay)
        ok, log = run_translator()
        if not ok:
            ctx.broken.append(("proof", "locktranslator", log[-2500:]))
            return None
    try:
        res = static_report(ctx.tmp)
    except Exception as ex:  # the .vo files are missing when the Coq build failed
        ctx.broken.append(("proof", "lock-discipline report", str(ex)[-1500:]))
        return None
    v0 = next(iter(res["valuations"].values()))
    ctx.corr.append(dict(name="lock-discipline-report", ok=not res["violations"], records=sum(v["entries"] for v in res["valuations"].values()),
                         violations=len(res["violations"]), wall_s=res["wall_s"],
                         lock_order=sorted({e for v in res["valuations"].values() for e in v["lock_order_edges"]}),
                         rank=v0["rank"]))
    ctx.samples.append({"lock_order_edges": {k: v for val in res["valuations"].values() for k, v in val["lock_order_edges"].items()}})
    for d in res["violations"]:
        what = "%s in %s [%s]; path: %s" % (d["violation"], d["in_function"], d["flags"], "  ->  ".join(d["call_path"]))
        for ce in d.get("cycle_edges", []):
            what += " || cycle edge %s: %s in %s via %s" % (ce["edge"], ce["acquisition"], ce["in_function"], " -> ".join(ce["call_path"]))
        ctx.concrete.append(dict(property=PROP, key=d["key"], kind="lock-discipline call path (static)", what=what, detail=d, static=True))
    return res


def witness(ctx):
    """dynamic confirmation of the scheduler finding: attach the observation to the static item"""
    r = vlib.run_harness("TestVerifC20SchedulerReentry", {}, timeout=120)
    lines = [l for l in r["out"].splitlines() if l.startswith("C20WITNESS")]
    dead = [l for l in lines if "deadlock=1" in l]
    ctx.corr.append(dict(name="scheduler-reentry-witness", ok=not dead, records=len(lines), failures=len(dead),
                         summary=(lines[-1] if lines else r["out"][-300:]), wall_s=round(r["wall"], 1)))
    if dead:
        for it in ctx.concrete:
            if it.get("key") == "calluser-under-lock:scheduler":
                it.setdefault("observed_on_implementation", dead[0])
                it.setdefault("test", "TestVerifC20SchedulerReentry")
                break
        else:
            ctx.concrete.append(dict(property=PROP, key="calluser-under-lock:scheduler", what=dead[0], test="TestVerifC20SchedulerReentry", env={}))
    elif not lines:
        ctx.broken.append(("correspondence", "scheduler-reentry-witness", "no C20WITNESS line: " + r["out"][-800:]))


def correspondence(ctx):
    static_part(ctx)
    witness(ctx)
    common = vlib.harness_bin()
    rb, log = race_binary(ctx.tmp)
    if rb is None:
        ctx.notes.append("race detector build failed (cgo unavailable?), storms run without it: " + log[-400:])
        if ctx.tier == "thorough":
            ctx.broken.append(("correspondence", "race-binary", log[-800:]))
    binary, name = (rb, "api-storm-race") if rb else (common, "api-storm")
    if ctx.tier == "thorough":
        storm(ctx, name, binary, 14, [ctx.seed * 100 + i for i in range(12)])
    else:
        storm(ctx, name, binary, 3, [ctx.seed * 100 + i for i in range(4)])
    # concurrent writers on ONE stream in blocking-write mode while the write deadline is being moved: every write that
    # returned nil must be delivered once, in each writer's order (delivery guarantees under concurrency)
    storm(ctx, name.replace("api-storm", "blocking-write-storm"), binary, ctx.scale(4, 16),
          [ctx.seed * 100 + 50 + i for i in range(ctx.scale(4, 12))], test="TestVerifC20BlockingStorm", keyprefix="blocking-storm")


def search(ctx):
    """something no longer checks: look harder for a concrete failing input (the static report already ran in
    correspondence; here the storms are widened, under the race detector when it can be built)"""
    rb, log = race_binary(ctx.tmp)
    binary = rb or vlib.harness_bin()
    storm(ctx, "api-storm-search", binary, 10, [ctx.seed * 1000 + 500 + i for i in range(12)])


def evidence(ctx, info):
    cov = {}
    try:
        J = json.load(open(LT_JSON))
        cov["abstract_program"] = {"functions": len(J["funcs"]), "functions_with_empty_abstraction": J["functions_with_empty_abstraction"],
                                   "mutex_classes": J["mutexes"], "roots": len(J["roots"]), "fields": len(J["fields"]),
                                   "channels": J["chans"], "user_code": J["users"],
                                   "ignored_external_calls": len(J["ignored_external_calls"])}
    except OSError:
        pass
    cov["translator"] = _PRE["log"][-300:]
    return {"coverage": cov}


def replay(data):
    """./check replay <file>: re-run the static report or the harness test named in the replay"""
    import shutil, tempfile
    key = data.get("key")
    tmp = tempfile.mkdtemp(prefix="verif-C20-replay-")
    try:
        if data.get("static"):
            with vlib.Lock():
                ok, log = run_translator()
                if not ok:
                    print(log)
                    return 1
                res = vlib.build_coq()
            rep = static_report(tmp)
            hit = [d for d in rep["violations"] if d["key"] == key]
            for d in hit:
                print("REPRODUCED %s: %s in %s [%s]" % (key, d["violation"], d["in_function"], d["flags"]))
                for c in d["call_path"]:
                    print("    " + c)
            if data.get("test"):
                with vlib.Lock():
                    vlib.build_harness()
                r = vlib.run_harness(data["test"], data.get("env") or {}, timeout=300)
                print("\n".join(l for l in r["out"].splitlines() if l.startswith("C20")))
            return 1 if hit else 0
        with vlib.Lock():
            vlib.build_harness()
        binary = vlib.harness_bin()
        if data.get("race"):
            rb, _ = race_binary(tmp)
            binary = rb or binary
        e = dict(os.environ)
        e.update({k: str(v) for k, v in (data.get("env") or {}).items()})
        p = subprocess.run([binary, "-test.run", "^%s$" % data.get("test", "TestVerifC20Storm"), "-test.count=1"], cwd=vlib.REPO, env=e,
                           stdout=subprocess.PIPE, stderr=subprocess.STDOUT, text=True, errors="replace")
        bad = [l for l in p.stdout.splitlines() if l.startswith(("C20STUCK", "C20ORDER", "C20PANIC", "WARNING: DATA RACE")) or "deadlock=1" in l]
        print("\n".join(bad[:20]) or "not reproduced (schedules are not deterministic)")
        return 1 if bad else 0
    finally:
        shutil.rmtree(tmp, ignore_errors=True)
