(* C01: what an ordered stream hands to the application is a prefix of what was written.
   Part A: one reassembly queue fed with fragments of a message family (DATA mode), each fragment at
           most once, in any order, reads with any buffers in between.
   Part B: the composed receiver (E2E.v) feeds every queue that way (receive bitmap, C05).
   Part C: the sender universe generator produces such a family. *)
From Coq Require Import ZArith Bool List Lia Permutation Sorted.
From Coq Require Import ZifyBool.
From Sctp Require Import Gen SnaProofs RPQ RQ E2E RQProofs.
Import ListNotations.
Open Scope Z_scope.
Ltac Zify.zify_post_hook ::= Z.div_mod_to_equations.

(* ------------------------------------------------------------------------------------------ *)
(* serial-number facts used below                                                               *)
(* ------------------------------------------------------------------------------------------ *)
Lemma e2e_not_stale m k : m <= k < m + 32768 -> sna16LT (wrap16 k) (wrap16 m) = false.
Proof.
  intros H. destruct (sna16LT (wrap16 k) (wrap16 m)) eqn:E; [|reflexivity].
  apply sna16LT_spec in E; unfold in16, wrap16 in *; lia.
Qed.

Lemma e2e_gt_cursor m k : m <= k < m + 32768 -> (sna16GT (wrap16 k) (wrap16 m) = false <-> k = m).
Proof.
  intros H. split.
  - intros E. destruct (Z.eq_dec k m) as [|N]; [assumption|exfalso].
    assert (X : sna16GT (wrap16 k) (wrap16 m) = true) by (apply sna16GT_spec; unfold in16, wrap16; lia).
    congruence.
  - intros ->. destruct (sna16GT (wrap16 m) (wrap16 m)) eqn:E; [|reflexivity].
    apply sna16GT_spec in E; unfold in16, wrap16 in *; lia.
Qed.

Lemma e2e_key_inj m k k' : m <= k < m + 32768 -> m <= k' < m + 32768 -> wrap16 k = wrap16 k' -> k = k'.
Proof. unfold wrap16. intros. lia. Qed.

Lemma e2e_tsn_step a j j' : 0 <= j < 2147483648 -> 0 <= j' < 2147483648 ->
  wrap32 (a + j') = wrap32 (wrap32 (a + j) + 1) -> j' = j + 1.
Proof. unfold wrap32. intros. lia. Qed.

Lemma NoDup_app_snoc {A} (l : list A) x : NoDup l /\ ~ In x l -> NoDup (l ++ [x]).
Proof.
  intros [H1 H2]. apply (Permutation_NoDup (l := x :: l)); [|constructor; assumption].
  change (x :: l) with ([x] ++ l). apply Permutation_app_comm.
Qed.

(* ------------------------------------------------------------------------------------------ *)
(* rq_split_frag                                                                                *)
(* ------------------------------------------------------------------------------------------ *)
Lemma e2e_split_frag_spec ssn : forall l, Forall (fun x => rqs_chunks x <> []) l ->
  match rq_split_frag ssn l with
  | None => False
  | Some None => forall x, In x l -> rqs_key x = ssn -> exists c0 t, rqs_chunks x = c0 :: t /\ rqc_fragmented c0 = false
  | Some (Some (b, x, a)) => l = b ++ x :: a /\ rqs_key x = ssn /\
                             exists c0 t, rqs_chunks x = c0 :: t /\ rqc_fragmented c0 = true
  end.
Proof.
  induction 1 as [|y t Hy Ht IH]; cbn [rq_split_frag]; [intros x []|].
  destruct (rqs_chunks y) as [|c0 cs] eqn:Ec; [congruence|].
  destruct (rq_split_frag ssn t) as [[[[b x] a]|]|]; [| |destruct IH].
  - destruct IH as (-> & Hk & Hx).
    destruct (rqs_key y =? ssn) eqn:Ek; [destruct (rqc_fragmented c0) eqn:Ef|].
    + split; [reflexivity|]. split; [lia|]. exists c0, cs. auto.
    + split; [reflexivity|]. auto.
    + split; [reflexivity|]. auto.
  - destruct (rqs_key y =? ssn) eqn:Ek; [destruct (rqc_fragmented c0) eqn:Ef|].
    + split; [reflexivity|]. split; [lia|]. exists c0, cs. auto.
    + intros x [<-|Hx] Hkx; [exists c0, cs; auto|apply IH; assumption].
    + intros x [<-|Hx] Hkx; [lia|apply IH; assumption].
Qed.

(* ========================================================================================== *)
(* Part A: one queue, DATA mode                                                                 *)
(* ========================================================================================== *)
Section OneQueue.
  Variable s : Z.                       (* stream identifier *)
  Variable T : Z -> Z.                  (* TSN index of the first fragment of message k *)
  Variable nfr : Z -> Z.                (* number of fragments of message k *)
  Variable frag : Z -> Z -> list Z.     (* payload of fragment j of message k *)
  Variable mppi : Z -> Z.               (* payload protocol identifier of message k *)
  Hypothesis Hnfr : forall k, 1 <= nfr k < 2147483648.

  Definition qchunk (k j : Z) : rqchunk :=
    mkRqChunk (wrap32 (T k + j)) s (wrap16 k) 0 0 (mppi k) false (j =? 0) (j =? nfr k - 1) false (frag k j).

  Definition js (n : Z) : list Z := map Z.of_nat (seq 0 (Z.to_nat n)).
  Definition qmsg (k : Z) : list rqchunk := map (qchunk k) (js (nfr k)).

  Definition set_ok (m : Z) (P : list (Z * Z)) (x : rqset) : Prop :=
    exists k, m <= k < m + 32768 /\ rqs_key x = wrap16 k /\ rqs_ppi x = mppi k /\ rqs_chunks x <> [] /\
              Forall (fun c => exists j, 0 <= j < nfr k /\ c = qchunk k j /\ In (k, j) P) (rqs_chunks x).

  Definition QInv (q : rq) (m : Z) (P : list (Z * Z)) : Prop :=
    rq_inter q = false /\ rq_unordered q = [] /\ rq_si q = s /\ rq_nextSSN q = wrap16 m /\ 0 <= m /\
    Forall (set_ok m P) (rq_ordered q) /\ NoDup (map rqs_key (rq_ordered q)) /\
    (forall k j, 0 <= k < m -> 0 <= j < nfr k -> In (k, j) P).

  Lemma set_ok_mono m P P' x : (forall p, In p P -> In p P') -> set_ok m P x -> set_ok m P' x.
  Proof.
    intros HP (k & H1 & H2 & H3 & H4 & H5). exists k. repeat split; try assumption; try lia.
    eapply Forall_impl; [|exact H5]. intros c (j & A & B & C). exists j. auto.
  Qed.

  Lemma qchunk_fragmented k j : 0 <= j < nfr k -> rqc_fragmented (qchunk k j) = negb (nfr k =? 1).
  Proof. intros H. unfold rqc_fragmented, qchunk. cbn [rqc_beg rqc_end]. lia. Qed.

  (* a fragment that was not pushed before, within the span of the read cursor, arrives *)
  Lemma QInv_push q m P k j :
    QInv q m P -> 0 <= k -> 0 <= j < nfr k -> ~ In (k, j) P -> k < m + 32768 ->
    QInv (fst (rq_push q (qchunk k j))) m ((k, j) :: P).
  Proof.
    intros (Hi & Hu & Hs & Hn & Hm & Hsets & Hnd & Hdone) Hk Hj Hnew Hspan.
    assert (Hkm : m <= k).
    { destruct (Z_lt_le_dec k m) as [L|]; [|assumption]. exfalso. apply Hnew, Hdone; lia. }
    assert (Hmono : Forall (set_ok m ((k, j) :: P)) (rq_ordered q)).
    { eapply Forall_impl; [|exact Hsets]. intros x. apply set_ok_mono. intros p Hp. right. exact Hp. }
    assert (Same : QInv q m ((k, j) :: P)).
    { repeat split; try assumption. intros k0 j0 A B. right. apply Hdone; assumption. }
    unfold rq_push. change (rqc_idata (qchunk k j)) with false. change (rqc_si (qchunk k j)) with s.
    change (rqc_unord (qchunk k j)) with false. rewrite Hs. replace (negb (s =? s)) with false by lia. cbv iota.
    unfold rq_push_ordered. change (rqc_ssn (qchunk k j)) with (wrap16 k). rewrite Hn.
    rewrite (e2e_not_stale m k) by lia.
    rewrite (qchunk_fragmented k j Hj).
    assert (Hne : Forall (fun x => rqs_chunks x <> []) (rq_ordered q)).
    { eapply Forall_impl; [|exact Hsets]. intros x (k0 & _ & _ & _ & H & _). exact H. }
    (* the set of message k, if there is one *)
    assert (Hown : forall x, In x (rq_ordered q) -> rqs_key x = wrap16 k ->
                   2 <= nfr k /\ Forall (fun c => exists j0, 0 <= j0 < nfr k /\ c = qchunk k j0 /\ In (k, j0) P) (rqs_chunks x)).
    { intros x Hx Hkx. eapply Forall_forall in Hsets; [|exact Hx].
      destruct Hsets as (k0 & R0 & K0 & _ & N0 & F0). rewrite Hkx in K0.
      assert (k0 = k) by (symmetry; eapply (e2e_key_inj m); [lia|lia|exact K0]). subst k0.
      split; [|exact F0]. destruct (rqs_chunks x) as [|c0 t]; [congruence|].
      inversion F0 as [|? ? (j0 & A & B & C) _]; subst.
      destruct (Z.eq_dec (nfr k) 1) as [E1|]; [|specialize (Hnfr k); lia].
      exfalso. apply Hnew. replace j with j0 by lia. exact C. }
    destruct (nfr k =? 1) eqn:En; cbn [negb].
    - (* unfragmented message: a new set *)
      cbv iota.
      destruct (rq_has_limit q && rq_limit_reached q (rq_ordered_count q)); [exact Same|].
      cbn [fst]. unfold QInv, rq_set_q. cbn [rq_inter rq_unordered rq_si rq_nextSSN rq_ordered].
      repeat split; try assumption.
      + apply rq_isort_Forall, Forall_snoc; [exact Hmono|]. exists k. cbn [rqs_key rqs_ppi rqs_chunks].
        repeat split; try lia; try discriminate. constructor; [|constructor]. exists j. repeat split; try lia. left. reflexivity.
      + eapply Permutation_NoDup; [apply Permutation_map; symmetry; apply rq_isort_perm|].
        rewrite map_app. cbn [map rqs_key]. apply NoDup_app_snoc. split; [exact Hnd|].
        intros Hin. apply in_map_iff in Hin. destruct Hin as (x & Kx & Hx). destruct (Hown x Hx Kx) as [H2 _]. lia.
      + intros k0 j0 A B. right. apply Hdone; assumption.
    - (* fragmented message *)
      pose proof (e2e_split_frag_spec (wrap16 k) (rq_ordered q) Hne) as HS.
      destruct (rq_split_frag (wrap16 k) (rq_ordered q)) as [[[[b x] a]|]|]; [| |destruct HS].
      + destruct HS as (El & Kx & c0 & t0 & Ec & Ef).
        destruct (rq_has_tsn (rqc_tsn (qchunk k j)) (rqs_chunks x)); [exact Same|].
        destruct (rq_has_limit q && rq_limit_reached q (rq_ordered_count q)); [exact Same|].
        cbn [fst]. unfold QInv, rq_set_q. cbn [rq_inter rq_unordered rq_si rq_nextSSN rq_ordered].
        assert (Hx : In x (rq_ordered q)) by (rewrite El; apply in_or_app; right; left; reflexivity).
        destruct (Hown x Hx Kx) as [_ HF].
        rewrite El in Hmono, Hnd. apply Forall_app in Hmono. destruct Hmono as [Mb Ma]. inversion Ma as [|? ? Mx Ma']; subst.
        repeat split; try assumption.
        * apply Forall_app. split; [exact Mb|]. constructor; [|exact Ma'].
          destruct Mx as (k0 & R0 & K0 & P0 & _ & _). rewrite Kx in K0.
          assert (k0 = k) by (symmetry; eapply (e2e_key_inj m); [lia|lia|exact K0]). subst k0.
          exists k. unfold rq_push_chunk_to_set. cbn [rqs_key rqs_ppi rqs_chunks]. repeat split; try lia; try assumption.
          -- apply rq_isort_nonempty. destruct (rqs_chunks x); discriminate.
          -- apply rq_isort_Forall, Forall_snoc.
             ++ eapply Forall_impl; [|exact HF]. intros c (j0 & A & B & C). exists j0. repeat split; try lia; try assumption. right. exact C.
             ++ exists j. repeat split; try lia. left. reflexivity.
        * rewrite map_app in *. cbn [map] in *. unfold rq_push_chunk_to_set. cbn [rqs_key]. exact Hnd.
        * intros k0 j0 A B. right. apply Hdone; assumption.
      + (* no set of this message yet *)
        cbv iota.
        destruct (rq_has_limit q && rq_limit_reached q (rq_ordered_count q)); [exact Same|].
        cbn [fst]. unfold QInv, rq_set_q. cbn [rq_inter rq_unordered rq_si rq_nextSSN rq_ordered].
        repeat split; try assumption.
        * apply rq_isort_Forall, Forall_snoc; [exact Hmono|]. exists k. cbn [rqs_key rqs_ppi rqs_chunks].
          repeat split; try lia; try discriminate. constructor; [|constructor]. exists j. repeat split; try lia. left. reflexivity.
        * eapply Permutation_NoDup; [apply Permutation_map; symmetry; apply rq_isort_perm|].
          rewrite map_app. cbn [map rqs_key]. apply NoDup_app_snoc. split; [exact Hnd|].
          intros Hin. apply in_map_iff in Hin. destruct Hin as (x & Kx & Hx).
          destruct (HS x Hx Kx) as (c0 & t0 & Ec & Ef). destruct (Hown x Hx Kx) as [_ HF].
          rewrite Ec in HF. inversion HF as [|? ? (j0 & A & B & C) _]; subst.
          rewrite (qchunk_fragmented k j0 A), En in Ef. discriminate.
        * intros k0 j0 A B. right. apply Hdone; assumption.
  Qed.

  (* ---------- a complete set made of fragments of message k is the whole message, in order ---------- *)
  Lemma qchunk_inj k j j' : 0 <= j < nfr k -> 0 <= j' < nfr k -> qchunk k j = qchunk k j' -> j = j'.
  Proof.
    intros A B E. apply (f_equal rqc_tsn) in E. cbn [qchunk rqc_tsn] in E.
    pose proof (Hnfr k). unfold wrap32 in E. lia.
  Qed.

  Lemma map_nth_ext {A} (f : Z -> A) : forall (cs : list A) (a : nat),
    (forall i c, nth_error cs i = Some c -> c = f (Z.of_nat (a + i))) ->
    cs = map f (map Z.of_nat (seq a (length cs))).
  Proof.
    induction cs as [|c t IH]; intros a H; [reflexivity|]. cbn [length seq map]. f_equal.
    - rewrite (H 0%nat c eq_refl). f_equal. f_equal. lia.
    - apply IH. intros i c' Hi. rewrite (H (S i) c' Hi). f_equal. f_equal. lia.
  Qed.

  Lemma last_nth_error {A} (cs : list A) d : cs <> [] -> nth_error cs (length cs - 1) = Some (last cs d).
  Proof.
    induction cs as [|c t IH]; [congruence|]. intros _. destruct t as [|c' t']; [reflexivity|].
    cbn [length]. replace (S (S (length t')) - 1)%nat with (S (length (c' :: t') - 1)) by (cbn [length]; lia).
    cbn [nth_error]. rewrite IH by discriminate. reflexivity.
  Qed.

  Lemma complete_is_message k cs :
    Forall (fun c => exists j, 0 <= j < nfr k /\ c = qchunk k j) cs -> rqs_complete cs = true -> cs = qmsg k.
  Proof.
    intros HF HC. apply rqs_complete_iff in HC. destruct HC as (c0 & t & E & Hb & He & Hcon).
    assert (Hidx : forall i c, nth_error cs i = Some c -> c = qchunk k (Z.of_nat i) /\ Z.of_nat i < nfr k).
    { induction i as [|i IH]; intros c Hc.
      - rewrite E in Hc. cbn in Hc. inversion Hc; subst c. rewrite E in HF. inversion HF as [|? ? H0 _]. destruct H0 as (j & A & B).
        rewrite B in Hb. cbn [qchunk rqc_beg] in Hb. assert (j = 0) by lia. subst j. split; [exact B|lia].
      - destruct (nth_error cs i) as [x|] eqn:Ex.
        + destruct (IH x eq_refl) as [Ex' Hi]. assert (Hin : In c cs) by (eapply nth_error_In; exact Hc).
          eapply Forall_forall in HF; [|exact Hin]. destruct HF as (j & A & B).
          pose proof (Hcon i x c Ex Hc) as Ht. rewrite Ex', B in Ht. cbn [qchunk rqc_tsn] in Ht.
          pose proof (Hnfr k). apply e2e_tsn_step in Ht; try lia. split; [rewrite B; f_equal; lia|lia].
        + exfalso. apply nth_error_None in Ex. assert (X : nth_error cs (S i) <> None) by congruence.
          apply nth_error_Some in X. lia. }
    assert (Hne : cs <> []) by (rewrite E; discriminate).
    assert (Hlen : Z.of_nat (length cs) = nfr k).
    { pose proof (last_nth_error cs c0 Hne) as HL. destruct (Hidx _ _ HL) as [EL Hlt].
      rewrite EL in He. cbn [qchunk rqc_end] in He.
      assert (length cs <> 0)%nat by (destruct cs; [congruence|cbn; lia]). lia. }
    unfold qmsg, js. rewrite <- Hlen, Nat2Z.id. apply map_nth_ext. intros i c Hc. apply Hidx. exact Hc.
  Qed.

  Lemma wrap16_succ m : wrap16 (wrap16 m + 1) = wrap16 (m + 1).
  Proof. unfold wrap16. rewrite Zplus_mod_idemp_l. reflexivity. Qed.

  Lemma In_js j n : In j (js n) <-> 0 <= j < n.
  Proof.
    unfold js. rewrite in_map_iff. split.
    - intros (i & <- & Hi). apply in_seq in Hi. lia.
    - intros H. exists (Z.to_nat j). split; [lia|]. apply in_seq. lia.
  Qed.

  (* a read: either it delivers exactly the next message, or it changes nothing *)
  Lemma QInv_read q m P b :
    QInv q m P ->
    match snd (rq_read q b) with
    | RdOk n ppi del => del = qmsg m /\ ppi = mppi m /\ QInv (fst (rq_read q b)) (m + 1) P
    | _ => fst (rq_read q b) = q
    end.
  Proof.
    intros (Hi & Hu & Hs & Hn & Hm & Hsets & Hnd & Hdone).
    unfold rq_read. rewrite Hi, Hu.
    destruct (rq_ordered q) as [|x rest] eqn:EO; [reflexivity|].
    destruct (rqs_complete (rqs_chunks x)) eqn:Ec; cbn [negb]; [|reflexivity].
    destruct (sna16GT (rqs_key x) (rq_nextSSN q)) eqn:Eg; [reflexivity|].
    rewrite rq_copy_short_iff. destruct (rq_short b (rqs_chunks x)); [reflexivity|]. cbn [fst snd].
    inversion Hsets as [|? ? (k & Rk & Kk & Pk & Nk & Fk) Hrest]; subst.
    rewrite Kk, Hn in Eg. apply (e2e_gt_cursor m k Rk) in Eg. subst k.
    assert (Emsg : rqs_chunks x = qmsg m).
    { apply complete_is_message; [|exact Ec]. eapply Forall_impl; [|exact Fk]. intros c (j & A & B & _). exists j. auto. }
    split; [exact Emsg|]. split; [exact Pk|].
    unfold QInv, rq_set_next. cbn [rq_inter rq_unordered rq_si rq_nextSSN rq_ordered].
    cbn [map] in Hnd. inversion Hnd as [|? ? Hnotin Hnd']; subst.
    repeat split; try assumption; try lia.
    - rewrite Kk, Hn, Z.eqb_refl. apply wrap16_succ.
    - apply Forall_forall. intros y Hy. eapply Forall_forall in Hrest; [|exact Hy].
      destruct Hrest as (k & Rk' & Kk' & Rest). exists k. split; [|split; [exact Kk'|exact Rest]].
      assert (k <> m). { intros ->. apply Hnotin. rewrite Kk, <- Kk'. apply in_map. exact Hy. }
      lia.
    - intros k j A B. destruct (Z.eq_dec k m) as [->|]; [|apply Hdone; lia].
      assert (Hin : In (qchunk m j) (rqs_chunks x)).
      { rewrite Emsg. unfold qmsg. apply in_map. apply In_js. exact B. }
      eapply Forall_forall in Fk; [|exact Hin]. destruct Fk as (j0 & A0 & B0 & C0).
      replace j with j0; [exact C0|]. symmetry. eapply qchunk_inj; eassumption.
  Qed.

  (* ---------- histories on one queue ---------- *)
  Inductive qop := QPush (k j : Z) | QRead (b : Z).

  Definition qstep (q : rq) (o : qop) : rq :=
    match o with QPush k j => fst (rq_push q (qchunk k j)) | QRead b => fst (rq_read q b) end.

  Definition qout (q : rq) (o : qop) : list (list rqchunk * Z) :=
    match o with
    | QRead b => match snd (rq_read q b) with RdOk _ ppi del => [(del, ppi)] | _ => [] end
    | _ => []
    end.

  Fixpoint qouts (q : rq) (ops : list qop) : list (list rqchunk * Z) :=
    match ops with [] => [] | o :: t => qout q o ++ qouts (qstep q o) t end.

  (* hypotheses on a history: fragments exist, none is pushed twice (C05: the receive bitmap accepts a
     TSN once), and H_ssn: a fragment pushed belongs to a message less than 2^15 ahead of the number of
     messages read so far *)
  Fixpoint qvalid (m : Z) (P : list (Z * Z)) (q : rq) (ops : list qop) : Prop :=
    match ops with
    | [] => True
    | QPush k j :: t => 0 <= k /\ 0 <= j < nfr k /\ ~ In (k, j) P /\ k < m + 32768 /\
                        qvalid m ((k, j) :: P) (qstep q (QPush k j)) t
    | QRead b :: t => qvalid (m + Z.of_nat (length (qout q (QRead b)))) P (qstep q (QRead b)) t
    end.

  Definition msgs_from (m : Z) (n : nat) : list (list rqchunk * Z) :=
    map (fun i => (qmsg (m + Z.of_nat i), mppi (m + Z.of_nat i))) (seq 0 n).

  Lemma one_queue_prefix : forall ops q m P,
    QInv q m P -> qvalid m P q ops -> qouts q ops = msgs_from m (length (qouts q ops)).
  Proof.
    induction ops as [|o t IH]; intros q m P HI HV; [reflexivity|]. cbn [qouts].
    destruct o as [k j|b]; cbn [qvalid] in HV.
    - destruct HV as (A & B & C & D & HV). cbn [qout app]. eapply IH; [|exact HV].
      cbn [qstep]. apply QInv_push; assumption.
    - pose proof (QInv_read q m P b HI) as HR. cbn [qout qstep] in *.
      destruct (snd (rq_read q b)) as [n ppi del| |].
      + destruct HR as (-> & -> & HI'). cbn [length app] in *.
        specialize (IH _ _ _ HI' HV). rewrite IH at 1. unfold msgs_from. cbn [length seq map].
        replace (m + Z.of_nat 0) with m by lia. f_equal. rewrite <- seq_shift, map_map.
        apply map_ext. intros i. replace (m + 1 + Z.of_nat i) with (m + Z.of_nat (S i)) by lia. reflexivity.
      + cbn [length app] in *. rewrite HR in *. replace (m + Z.of_nat 0) with m in HV by lia. eapply IH; eassumption.
      + cbn [length app] in *. rewrite HR in *. replace (m + Z.of_nat 0) with m in HV by lia. eapply IH; eassumption.
  Qed.
End OneQueue.
