// Go AST (type-checked) -> IR.  Everything that is not classified is refused (see refuse()).
package main

import (
	"fmt"
	"go/ast"
	"go/token"
	"go/types"
	"sort"
	"strings"
)

type Fn struct {
	Name     string // Association.handleChunk, Stream.Close$1, pack
	Pos      token.Pos
	Body     Stmt
	Decl     ast.Node // *ast.FuncDecl or *ast.FuncLit
	Recv     string   // receiver type name ("" for functions and literals)
	Exported bool
	IsLit    bool
	Invoked  bool // literal: invoked/spawned/deferred at its definition site (else it escapes)
	Parent   *Fn
	ID       int
	Refused  []string
	// literal spawned/invoked with arguments: channel-typed parameters are bound to the argument's identity
	ParamChan map[string]string
}

type deferred struct {
	s    Stmt
	cond bool
}

type target struct{ depth int } // depth inside the Block to leave

type labelT struct {
	brk *target
	cnt *target
}

type T struct {
	fset  *token.FileSet
	pkg   *types.Package
	info  *types.Info
	fns   map[types.Object]*Fn // declared functions/methods
	lits  map[*ast.FuncLit]*Fn
	order []*Fn

	tracked   map[string]bool   // struct types whose field accesses are recorded
	mutexes   map[string]string // class -> "mutex" | "rwmutex" | "once"
	condMutex map[string]string // cond field id -> mutex class
	flags     map[string]bool   // immutable configuration flags: field id
	flagFuncs map[string]string // method name -> flag (func returning exactly the flag field)
	roots     map[string]string // fn name -> kind
	rootOrder []string
	ignored   map[string]int // external callee -> count (allow-listed as irrelevant)
	userIDs   map[string]bool
	notes     []string
	fresh     map[types.Object]bool
	alias     map[types.Object]ast.Expr
	chanByObj map[types.Object]string
}

type fctx struct {
	t      *T
	fn     *Fn
	depth  int
	defers []deferred
	brk    []*target
	cnt    []*target
	labels map[string]*labelT
	// local dataflow (single static definition); the maps are shared with enclosing functions (closures)
	fresh     map[types.Object]bool
	alias     map[types.Object]ast.Expr // local var := expr (chan / func value sources)
	chanByObj map[types.Object]string   // parameter of a spawned literal -> channel identity of the argument
	pendLabel string
}

func (c *fctx) pos(p token.Pos) string {
	q := c.t.fset.Position(p)
	return fmt.Sprintf("%s:%d", shortFile(q.Filename), q.Line)
}

func shortFile(f string) string {
	if i := strings.LastIndex(f, "/"); i >= 0 {
		return f[i+1:]
	}
	return f
}

func (c *fctx) refuse(p token.Pos, format string, a ...interface{}) {
	c.fn.Refused = append(c.fn.Refused, fmt.Sprintf("%s: %s", c.pos(p), fmt.Sprintf(format, a...)))
}

func unparen(e ast.Expr) ast.Expr {
	for {
		p, ok := e.(*ast.ParenExpr)
		if !ok {
			return e
		}
		e = p.X
	}
}

// ---------------------------------------------------------------- types helpers

func derefNamed(t types.Type) *types.Named {
	for {
		switch x := t.(type) {
		case *types.Pointer:
			t = x.Elem()
			continue
		case *types.Named:
			return x
		case *types.Alias:
			t = types.Unalias(x)
			continue
		}
		return nil
	}
}

func typePath(t types.Type) (pkg, name string) {
	n := derefNamed(t)
	if n == nil {
		return "", ""
	}
	if n.Obj().Pkg() != nil {
		pkg = n.Obj().Pkg().Path()
	}
	return pkg, n.Obj().Name()
}

func isSyncType(t types.Type) string {
	p, n := typePath(t)
	if p == "sync" || p == "sync/atomic" {
		return p + "." + n
	}
	return ""
}

func isChan(t types.Type) bool {
	_, ok := t.Underlying().(*types.Chan)
	return ok
}

func isFuncType(t types.Type) bool {
	_, ok := t.Underlying().(*types.Signature)
	return ok
}

// fieldID of a selector that selects a struct field of a package type: "Type.field"
func (t *T) fieldOf(sel *ast.SelectorExpr) (owner, field string, v *types.Var, ok bool) {
	s, found := t.info.Selections[sel]
	if !found || s.Kind() != types.FieldVal {
		return "", "", nil, false
	}
	fv, _ := s.Obj().(*types.Var)
	if fv == nil {
		return "", "", nil, false
	}
	if len(s.Index()) != 1 {
		return "", "", fv, false // promoted through embedding: not used by this package
	}
	n := derefNamed(s.Recv())
	if n == nil || n.Obj().Pkg() != t.pkg {
		return "", "", fv, false
	}
	return n.Obj().Name(), fv.Name(), fv, true
}

// ---------------------------------------------------------------- expressions

func (c *fctx) exprs(l []ast.Expr) []Stmt {
	var out []Stmt
	for _, e := range l {
		out = append(out, c.expr(e)...)
	}
	return out
}

func (c *fctx) rootIdentFresh(e ast.Expr) bool {
	e = unparen(e)
	if id, ok := e.(*ast.Ident); ok {
		if o := c.t.info.Uses[id]; o != nil && c.fresh[o] {
			return true
		}
	}
	return false
}

// access atoms for the selector chain of e (reads), plus evaluation effects of sub-expressions
func (c *fctx) selector(sel *ast.SelectorExpr, kind string) []Stmt {
	out := c.expr(sel.X)
	owner, field, fv, ok := c.t.fieldOf(sel)
	if !ok {
		return out
	}
	if c.t.tracked[owner] && !c.rootIdentFresh(sel.X) {
		if isSyncType(fv.Type()) == "" { // the mutex / once / cond / atomic.Value object itself is not data
			out = append(out, Atom{Kind: kind, Obj: owner + "." + field, Pos: sel.Pos()})
		} else if kind == "atomic" {
			out = append(out, Atom{Kind: kind, Obj: owner + "." + field, Pos: sel.Pos()})
		}
	}
	return out
}

// write target: the location designated by e is written
func (c *fctx) lhs(e ast.Expr) []Stmt {
	e = unparen(e)
	switch x := e.(type) {
	case *ast.Ident:
		return nil
	case *ast.SelectorExpr:
		owner, _, _, ok := c.t.fieldOf(x)
		if ok && c.t.tracked[owner] {
			return c.selector(x, "write")
		}
		if ok {
			// field of an untracked struct: if that struct is a value embedded (no pointer) in a tracked
			// field, the write is a write of the enclosing tracked field
			if tv, ok2 := c.t.info.Types[x.X]; ok2 {
				if _, isPtr := tv.Type.Underlying().(*types.Pointer); !isPtr {
					return c.lhs(x.X)
				}
			}
		}
		return c.expr(x.X)
	case *ast.IndexExpr:
		out := c.expr(x.Index)
		if tv, ok := c.t.info.Types[x.X]; ok {
			switch tv.Type.Underlying().(type) {
			case *types.Map, *types.Slice, *types.Array:
				return append(out, c.lhs(x.X)...) // element write = write of the container field
			case *types.Pointer:
				return append(out, c.lhs(x.X)...)
			}
		}
		return append(out, c.expr(x.X)...)
	case *ast.StarExpr:
		return c.expr(x.X)
	}
	return c.expr(e)
}

func (c *fctx) expr(e ast.Expr) []Stmt {
	if e == nil {
		return nil
	}
	switch x := e.(type) {
	case *ast.Ident, *ast.BasicLit:
		return nil
	case *ast.ParenExpr:
		return c.expr(x.X)
	case *ast.SelectorExpr:
		if _, ok := c.t.info.Selections[x]; !ok {
			return nil // qualified identifier pkg.Name
		}
		if s := c.t.info.Selections[x]; s.Kind() == types.MethodVal {
			// method value not in call position: the method escapes
			if f, ok := s.Obj().(*types.Func); ok && f.Pkg() == c.t.pkg {
				if fn := c.t.fns[f]; fn != nil {
					c.t.addRoot(fn.Name, "closure")
					c.t.notes = append(c.t.notes, fmt.Sprintf("%s: method value %s escapes; treated as a root entered with no lock held", c.pos(x.Pos()), fn.Name))
				}
			}
			return c.expr(x.X)
		}
		return c.selector(x, "read")
	case *ast.StarExpr:
		return c.expr(x.X)
	case *ast.UnaryExpr:
		if x.Op == token.ARROW {
			out := c.expr(x.X)
			return append(out, Atom{Kind: "recv", Obj: c.chanID(x.X), Pos: x.Pos()})
		}
		return c.expr(x.X)
	case *ast.BinaryExpr:
		out := c.expr(x.X)
		r := c.expr(x.Y)
		if (x.Op == token.LAND || x.Op == token.LOR) && len(r) > 0 {
			return append(out, mkChoice(Skip{}, mkSeq(r...))) // short circuit
		}
		return append(out, r...)
	case *ast.CallExpr:
		return c.call(x)
	case *ast.IndexExpr:
		return append(c.expr(x.X), c.expr(x.Index)...)
	case *ast.IndexListExpr:
		return c.expr(x.X)
	case *ast.SliceExpr:
		out := c.expr(x.X)
		out = append(out, c.expr(x.Low)...)
		out = append(out, c.expr(x.High)...)
		return append(out, c.expr(x.Max)...)
	case *ast.TypeAssertExpr:
		return c.expr(x.X)
	case *ast.CompositeLit:
		var out []Stmt
		for _, el := range x.Elts {
			if kv, ok := el.(*ast.KeyValueExpr); ok {
				if _, isID := kv.Key.(*ast.Ident); !isID {
					out = append(out, c.expr(kv.Key)...)
				}
				out = append(out, c.expr(kv.Value)...)
			} else {
				out = append(out, c.expr(el)...)
			}
		}
		return out
	case *ast.KeyValueExpr:
		return append(c.expr(x.Key), c.expr(x.Value)...)
	case *ast.FuncLit:
		// a literal used as a value: it escapes (stored / returned / passed on)
		fn := c.t.litFn(x, c.fn)
		if !fn.Invoked {
			c.t.addRoot(fn.Name, "closure")
		}
		return nil
	case *ast.ArrayType, *ast.MapType, *ast.ChanType, *ast.FuncType, *ast.StructType, *ast.InterfaceType, *ast.Ellipsis:
		return nil
	}
	c.refuse(e.Pos(), "expression %T not classified", e)
	return nil
}

// ---------------------------------------------------------------- channels, function values

func (c *fctx) chanID(e ast.Expr) string {
	e = unparen(e)
	switch x := e.(type) {
	case *ast.SelectorExpr:
		if owner, field, _, ok := c.t.fieldOf(x); ok {
			return owner + "." + field
		}
		if tv, ok := c.t.info.Types[x.X]; ok {
			p, n := typePath(tv.Type)
			if p != "" && p != c.t.pkg.Path() {
				return "ext:" + p + "." + n + "." + x.Sel.Name // t.C of *time.Timer
			}
		}
	case *ast.CallExpr:
		if obj := c.calleeObj(x); obj != nil {
			if f, ok := obj.(*types.Func); ok && f.Pkg() != c.t.pkg {
				name := f.Name()
				if sig, ok := f.Type().(*types.Signature); ok && sig.Recv() != nil {
					p, n := typePath(sig.Recv().Type())
					return "ext:" + p + "." + n + "." + name
				}
				if f.Pkg() != nil {
					return "ext:" + f.Pkg().Path() + "." + name
				}
			}
		}
	case *ast.Ident:
		if o := c.t.info.Uses[x]; o != nil {
			if src, ok := c.alias[o]; ok {
				return c.chanID(src)
			}
			if id, ok := c.chanByObj[o]; ok {
				return id
			}
			return "local:" + c.fn.Name + "." + x.Name
		}
	}
	c.refuse(e.Pos(), "channel expression not classified")
	return "unknown"
}

func (c *fctx) calleeObj(call *ast.CallExpr) types.Object {
	switch f := unparen(call.Fun).(type) {
	case *ast.Ident:
		return c.t.info.Uses[f]
	case *ast.SelectorExpr:
		if s, ok := c.t.info.Selections[f]; ok {
			return s.Obj()
		}
		return c.t.info.Uses[f.Sel]
	case *ast.IndexExpr:
		if id, ok := unparen(f.X).(*ast.Ident); ok {
			return c.t.info.Uses[id]
		}
		if se, ok := unparen(f.X).(*ast.SelectorExpr); ok {
			return c.t.info.Uses[se.Sel]
		}
	}
	return nil
}

// call of a func-typed value
func (c *fctx) funcValueCall(call *ast.CallExpr, fun ast.Expr, depth int) []Stmt {
	fun = unparen(fun)
	switch x := fun.(type) {
	case *ast.FuncLit:
		fn := c.t.litFn(x, c.fn)
		fn.Invoked = true
		return []Stmt{CallS{fn, call.Pos()}}
	case *ast.SelectorExpr:
		if owner, field, _, ok := c.t.fieldOf(x); ok {
			id := owner + "." + field
			c.t.userIDs[id] = true
			return []Stmt{Atom{Kind: "user", Obj: id, Pos: call.Pos()}}
		}
	case *ast.Ident:
		o := c.t.info.Uses[x]
		if o != nil && depth < 4 {
			if src, ok := c.alias[o]; ok {
				return c.funcValueCall(call, src, depth+1)
			}
		}
		if v, ok := o.(*types.Var); ok {
			id := "funcvalue:" + c.fn.Name + "." + v.Name()
			c.t.userIDs[id] = true
			return []Stmt{Atom{Kind: "user", Obj: id, Pos: call.Pos()}}
		}
	}
	c.refuse(call.Pos(), "call of a function value that is not classified")
	return nil
}

// ---------------------------------------------------------------- calls

var pureStd = map[string]bool{
	"fmt": true, "errors": true, "math": true, "math/bits": true, "encoding/binary": true, "encoding/hex": true,
	"strings": true, "bytes": true, "sort": true, "io": true, "os": true, "maps": true, "slices": true, "hash/crc32": true,
	"crypto/rand": true, "strconv": true, "time": true, "context": true,
	"github.com/pion/logging": true, "github.com/pion/randutil": true, "github.com/pion/transport/v4/deadline": true,
}

func (c *fctx) mutexClass(recv ast.Expr) (string, bool) {
	sel, ok := unparen(recv).(*ast.SelectorExpr)
	if !ok {
		// &x.lock ?
		if u, ok2 := unparen(recv).(*ast.UnaryExpr); ok2 && u.Op == token.AND {
			return c.mutexClass(u.X)
		}
		return "", false
	}
	owner, field, _, ok := c.t.fieldOf(sel)
	if !ok {
		return "", false
	}
	return owner + "." + field, true
}

// the field designated by an argument like &a.x or (*uint32)(&a.x)
func (c *fctx) addrField(e ast.Expr) (*ast.SelectorExpr, bool) {
	e = unparen(e)
	switch x := e.(type) {
	case *ast.UnaryExpr:
		if x.Op == token.AND {
			if s, ok := unparen(x.X).(*ast.SelectorExpr); ok {
				return s, true
			}
		}
	case *ast.CallExpr: // conversion
		if tv, ok := c.t.info.Types[x.Fun]; ok && tv.IsType() && len(x.Args) == 1 {
			return c.addrField(x.Args[0])
		}
	}
	return nil, false
}

func (c *fctx) call(call *ast.CallExpr) []Stmt {
	t := c.t
	// conversion
	if tv, ok := t.info.Types[call.Fun]; ok && tv.IsType() {
		return c.exprs(call.Args)
	}
	fun := unparen(call.Fun)
	// immediately invoked literal
	if lit, ok := fun.(*ast.FuncLit); ok {
		out := c.exprs(call.Args)
		fn := t.litFn(lit, c.fn)
		fn.Invoked = true
		return append(out, CallS{fn, call.Pos()})
	}
	obj := c.calleeObj(call)
	switch o := obj.(type) {
	case *types.Builtin:
		switch o.Name() {
		case "close":
			out := c.exprs(call.Args)
			return append(out, Atom{Kind: "close", Obj: c.chanID(call.Args[0]), Pos: call.Pos()})
		case "delete":
			out := c.lhs(call.Args[0])
			return append(out, c.exprs(call.Args[1:])...)
		case "copy":
			out := c.lhs(call.Args[0])
			return append(out, c.exprs(call.Args[1:])...)
		case "panic":
			out := c.exprs(call.Args)
			out = append(out, c.runDefers())
			return append(out, Exit{c.depth - 1, "panic"})
		case "recover":
			c.refuse(call.Pos(), "recover()")
			return nil
		default:
			return c.exprs(call.Args)
		}
	case *types.Func:
		o = o.Origin() // methods of instantiated generic types -> their declaration
		sig, _ := o.Type().(*types.Signature)
		var recvExpr ast.Expr
		if se, ok := fun.(*ast.SelectorExpr); ok {
			if _, isSel := t.info.Selections[se]; isSel {
				recvExpr = se.X
			}
		}
		if o.Pkg() == t.pkg {
			var out []Stmt
			if recvExpr != nil {
				out = append(out, c.expr(recvExpr)...)
			}
			out = append(out, c.callArgs(call)...)
			if sig != nil && sig.Recv() != nil {
				if iface, ok := sig.Recv().Type().Underlying().(*types.Interface); ok {
					return append(out, t.dispatch(c, call, sig.Recv().Type(), iface, o))
				}
			}
			fn := t.fns[o]
			if fn == nil {
				c.refuse(call.Pos(), "callee %s has no body in the package", o.FullName())
				return out
			}
			if fl, ok := t.flagFuncs[fn.Name]; ok {
				_ = fl // a flag getter used outside a condition: plain read of an immutable field
				return out
			}
			return append(out, CallS{fn, call.Pos()})
		}
		return c.extCall(call, o, sig, recvExpr)
	case *types.Var:
		out := c.callArgs(call)
		return append(out, c.funcValueCall(call, fun, 0)...)
	case *types.TypeName:
		return c.exprs(call.Args)
	}
	if _, ok := fun.(*ast.CallExpr); ok || obj == nil {
		c.refuse(call.Pos(), "callee expression not classified")
	}
	return c.exprs(call.Args)
}

// arguments; function literals / method values passed as arguments are NOT evaluated here by
// default: expr() registers them as escaping.
func (c *fctx) callArgs(call *ast.CallExpr) []Stmt {
	return c.exprs(call.Args)
}

func (t *T) dispatch(c *fctx, call *ast.CallExpr, recvT types.Type, iface *types.Interface, m *types.Func) Stmt {
	var alts []Stmt
	scope := t.pkg.Scope()
	names := scope.Names()
	sort.Strings(names)
	for _, n := range names {
		tn, ok := scope.Lookup(n).(*types.TypeName)
		if !ok {
			continue
		}
		named, ok := tn.Type().(*types.Named)
		if !ok {
			continue
		}
		if _, isI := named.Underlying().(*types.Interface); isI {
			continue
		}
		ptr := types.NewPointer(named)
		if !types.Implements(named, iface) && !types.Implements(ptr, iface) {
			continue
		}
		ms := types.NewMethodSet(ptr)
		sel := ms.Lookup(t.pkg, m.Name())
		if sel == nil {
			continue
		}
		if f, ok := sel.Obj().(*types.Func); ok {
			if fn := t.fns[f]; fn != nil {
				alts = append(alts, CallS{fn, call.Pos()})
			}
		}
	}
	// an exported interface whose methods are all exported can be implemented by the user
	if n := derefNamed(recvT); n != nil && n.Obj().Exported() {
		allExp := true
		for i := 0; i < iface.NumMethods(); i++ {
			if !iface.Method(i).Exported() {
				allExp = false
			}
		}
		if allExp {
			id := "iface:" + n.Obj().Name() + "." + m.Name()
			t.userIDs[id] = true
			alts = append(alts, Atom{Kind: "user", Obj: id, Pos: call.Pos()})
		}
	}
	if len(alts) == 0 {
		c.refuse(call.Pos(), "interface method %s has no implementation in the package", m.FullName())
		return Skip{}
	}
	return mkChoice(alts...)
}

func (c *fctx) extCall(call *ast.CallExpr, o *types.Func, sig *types.Signature, recvExpr ast.Expr) []Stmt {
	t := c.t
	pkgPath := ""
	if o.Pkg() != nil {
		pkgPath = o.Pkg().Path()
	}
	recvName := ""
	if sig != nil && sig.Recv() != nil {
		_, recvName = typePath(sig.Recv().Type())
	}
	full := pkgPath + "." + o.Name()
	if recvName != "" {
		full = pkgPath + "." + recvName + "." + o.Name()
	}
	switch pkgPath {
	case "sync":
		switch recvName {
		case "Mutex", "RWMutex":
			cls, ok := c.mutexClass(recvExpr)
			if !ok {
				c.refuse(call.Pos(), "mutex operation on something that is not a struct field")
				return nil
			}
			kind := map[string]string{"Lock": "lock", "Unlock": "unlock", "RLock": "rlock", "RUnlock": "runlock"}[o.Name()]
			if kind == "" {
				c.refuse(call.Pos(), "mutex method %s", o.Name())
				return nil
			}
			if recvName == "Mutex" {
				t.mutexes[cls] = "mutex"
			} else {
				t.mutexes[cls] = "rwmutex"
			}
			out := c.expr(unparen(recvExpr).(*ast.SelectorExpr).X)
			return append(out, Atom{Kind: kind, Obj: cls, Pos: call.Pos()})
		case "Cond":
			cls, ok := c.mutexClass(recvExpr)
			if !ok {
				c.refuse(call.Pos(), "sync.Cond that is not a struct field")
				return nil
			}
			out := c.expr(unparen(recvExpr).(*ast.SelectorExpr).X)
			out = append(out, c.selector(unparen(recvExpr).(*ast.SelectorExpr), "read")...)
			switch o.Name() {
			case "Wait":
				mu, ok := t.condMutex[cls]
				if !ok {
					c.refuse(call.Pos(), "no sync.NewCond(&x.lock) assignment found for %s", cls)
					return nil
				}
				// Wait = release the lock, block, re-acquire the lock
				return append(out, Atom{Kind: "unlock", Obj: mu, Pos: call.Pos()},
					Atom{Kind: "wait", Obj: cls, Pos: call.Pos()}, Atom{Kind: "lock", Obj: mu, Pos: call.Pos()})
			case "Signal", "Broadcast":
				return append(out, Atom{Kind: "signal", Obj: cls, Pos: call.Pos()})
			}
			c.refuse(call.Pos(), "sync.Cond method %s", o.Name())
			return nil
		case "Once":
			if o.Name() != "Do" {
				c.refuse(call.Pos(), "sync.Once method %s", o.Name())
				return nil
			}
			cls, ok := c.mutexClass(recvExpr)
			if !ok {
				c.refuse(call.Pos(), "sync.Once that is not a struct field")
				return nil
			}
			t.mutexes[cls] = "once"
			var body []Stmt
			if lit, ok := unparen(call.Args[0]).(*ast.FuncLit); ok {
				fn := t.litFn(lit, c.fn)
				fn.Invoked = true
				body = []Stmt{CallS{fn, call.Pos()}}
			} else {
				body = c.funcValueCall(call, call.Args[0], 0)
			}
			// Once.Do: fast path (already done) or: take the Once's mutex, run f unless done, release
			slow := mkSeq(Atom{Kind: "lock", Obj: cls, Pos: call.Pos()}, mkChoice(Skip{}, mkSeq(body...)),
				Atom{Kind: "unlock", Obj: cls, Pos: call.Pos()})
			return []Stmt{mkChoice(Skip{}, slow)}
		}
		if recvName == "" && o.Name() == "NewCond" {
			return nil
		}
		c.refuse(call.Pos(), "sync construct %s", full)
		return nil
	case "sync/atomic":
		if recvName != "" { // atomic.Value etc: method on a field
			if se, ok := unparen(recvExpr).(*ast.SelectorExpr); ok {
				out := c.selector(se, "atomic")
				return append(out, c.exprs(call.Args)...)
			}
			c.refuse(call.Pos(), "atomic method on a non-field")
			return nil
		}
		if len(call.Args) > 0 {
			if se, ok := c.addrField(call.Args[0]); ok {
				out := c.selector(se, "atomic")
				return append(out, c.exprs(call.Args[1:])...)
			}
		}
		c.refuse(call.Pos(), "atomic operation whose operand is not &x.field")
		return nil
	case "net":
		if recvName == "Conn" {
			out := c.expr(recvExpr)
			out = append(out, c.exprs(call.Args)...)
			return append(out, Atom{Kind: "ext", Obj: "net.Conn." + o.Name(), Pos: call.Pos()})
		}
	case "time":
		if recvName == "" && o.Name() == "AfterFunc" {
			// the callback runs on its own goroutine later: a root
			arg := unparen(call.Args[1])
			if se, ok := arg.(*ast.SelectorExpr); ok {
				if s, ok := t.info.Selections[se]; ok && s.Kind() == types.MethodVal {
					if f, ok := s.Obj().(*types.Func); ok && t.fns[f] != nil {
						t.addRoot(t.fns[f].Name, "timer")
						return c.expr(call.Args[0])
					}
				}
			}
			if lit, ok := arg.(*ast.FuncLit); ok {
				fn := t.litFn(lit, c.fn)
				fn.Invoked = true
				t.addRoot(fn.Name, "timer")
				return c.expr(call.Args[0])
			}
			c.refuse(call.Pos(), "time.AfterFunc callback not classified")
			return nil
		}
		if o.Name() == "Sleep" {
			c.refuse(call.Pos(), "time.Sleep")
			return nil
		}
	}
	if o.Pkg() == nil { // universe: error.Error
		return append(c.expr(recvExpr), c.exprs(call.Args)...)
	}
	if pureStd[pkgPath] {
		t.ignored[full]++
		var out []Stmt
		if recvExpr != nil {
			out = append(out, c.expr(recvExpr)...)
		}
		// function literals passed to library code (sort.Slice, sort.Search) are invoked synchronously
		for _, a := range call.Args {
			if lit, ok := unparen(a).(*ast.FuncLit); ok {
				fn := t.litFn(lit, c.fn)
				fn.Invoked = true
				out = append(out, mkChoice(Skip{}, mkLoop(CallS{fn, call.Pos()})))
				continue
			}
			out = append(out, c.expr(a)...)
		}
		return out
	}
	c.refuse(call.Pos(), "call into %s is not classified", full)
	return nil
}

// ---------------------------------------------------------------- statements

func (c *fctx) runDefers() Stmt {
	var out []Stmt
	for i := len(c.defers) - 1; i >= 0; i-- {
		d := c.defers[i]
		if d.cond {
			out = append(out, mkChoice(Skip{}, d.s))
		} else {
			out = append(out, d.s)
		}
	}
	return mkSeq(out...)
}

func (c *fctx) stmts(l []ast.Stmt) Stmt {
	var out []Stmt
	for _, s := range l {
		out = append(out, c.stmt(s))
	}
	return mkSeq(out...)
}

// branch walks a conditional branch: defers registered inside become conditional afterwards
func (c *fctx) branches(bodies []func() Stmt) []Stmt {
	base := append([]deferred{}, c.defers...)
	var added []deferred
	var out []Stmt
	for _, b := range bodies {
		c.defers = append([]deferred{}, base...)
		s := b()
		out = append(out, s)
		if canComplete(s) {
			for _, d := range c.defers[len(base):] {
				added = append(added, deferred{d.s, true})
			}
		}
	}
	c.defers = append(base, added...)
	return out
}

func (c *fctx) inBlock(f func() Stmt) Stmt {
	c.depth++
	s := f()
	c.depth--
	return Block{s}
}

// flag condition?  returns (flag, negated, ok)
func (c *fctx) flagCond(e ast.Expr) (string, bool, bool) {
	e = unparen(e)
	if u, ok := e.(*ast.UnaryExpr); ok && u.Op == token.NOT {
		f, n, ok := c.flagCond(u.X)
		return f, !n, ok
	}
	if se, ok := e.(*ast.SelectorExpr); ok {
		if owner, field, _, ok := c.t.fieldOf(se); ok && c.t.flags[owner+"."+field] {
			return owner + "." + field, false, true
		}
	}
	if call, ok := e.(*ast.CallExpr); ok {
		if f, ok := c.calleeObj(call).(*types.Func); ok {
			if fn := c.t.fns[f]; fn != nil {
				if fl, ok := c.t.flagFuncs[fn.Name]; ok {
					return fl, false, true
				}
			}
		}
	}
	return "", false, false
}

func (c *fctx) recordDefine(lhs, rhs ast.Expr) {
	id, ok := unparen(lhs).(*ast.Ident)
	if !ok {
		return
	}
	o := c.t.info.Defs[id]
	if o == nil {
		return
	}
	r := unparen(rhs)
	switch x := r.(type) {
	case *ast.UnaryExpr:
		if x.Op == token.AND {
			if _, ok := unparen(x.X).(*ast.CompositeLit); ok {
				c.fresh[o] = true
			}
		}
	case *ast.CompositeLit:
		c.fresh[o] = true
	case *ast.CallExpr:
		if b, ok := c.calleeObj(x).(*types.Builtin); ok && b.Name() == "new" {
			c.fresh[o] = true
		}
	}
	if isChan(o.Type()) || isFuncType(o.Type()) {
		c.alias[o] = rhs
	}
}

func (c *fctx) stmt(s ast.Stmt) Stmt {
	label := c.pendLabel
	c.pendLabel = ""
	switch x := s.(type) {
	case nil:
		return Skip{}
	case *ast.EmptyStmt:
		return Skip{}
	case *ast.ExprStmt:
		return mkSeq(c.expr(x.X)...)
	case *ast.DeclStmt:
		var out []Stmt
		if gd, ok := x.Decl.(*ast.GenDecl); ok {
			for _, sp := range gd.Specs {
				if vs, ok := sp.(*ast.ValueSpec); ok {
					out = append(out, c.exprs(vs.Values)...)
					if len(vs.Values) == len(vs.Names) {
						for i := range vs.Names {
							c.recordDefine(vs.Names[i], vs.Values[i])
						}
					}
					if len(vs.Values) == 0 {
						for _, n := range vs.Names {
							if o := c.t.info.Defs[n]; o != nil {
								if _, isStruct := o.Type().Underlying().(*types.Struct); isStruct {
									c.fresh[o] = true
								}
							}
						}
					}
				}
			}
		}
		return mkSeq(out...)
	case *ast.AssignStmt:
		out := c.exprs(x.Rhs)
		for _, l := range x.Lhs {
			out = append(out, c.lhs(l)...)
		}
		if x.Tok == token.DEFINE && len(x.Lhs) == len(x.Rhs) {
			for i := range x.Lhs {
				c.recordDefine(x.Lhs[i], x.Rhs[i])
			}
		} else if x.Tok == token.ASSIGN {
			// re-assignment of an aliased local: the alias is no longer a single definition
			for _, l := range x.Lhs {
				if id, ok := unparen(l).(*ast.Ident); ok {
					if o := c.t.info.Uses[id]; o != nil {
						if _, had := c.alias[o]; had {
							delete(c.alias, o)
						}
						delete(c.fresh, o)
					}
				}
			}
		}
		// cond := sync.NewCond(&x.lock) handled in a pre-pass
		return mkSeq(out...)
	case *ast.IncDecStmt:
		return mkSeq(c.lhs(x.X)...)
	case *ast.SendStmt:
		out := c.expr(x.Chan)
		out = append(out, c.expr(x.Value)...)
		return mkSeq(append(out, Atom{Kind: "send", Obj: c.chanID(x.Chan), Pos: x.Pos()})...)
	case *ast.GoStmt:
		return c.goStmt(x)
	case *ast.DeferStmt:
		return c.deferStmt(x)
	case *ast.ReturnStmt:
		out := c.exprs(x.Results)
		out = append(out, c.runDefers())
		out = append(out, Exit{c.depth - 1, "return"})
		return mkSeq(out...)
	case *ast.BlockStmt:
		return c.stmts(x.List)
	case *ast.LabeledStmt:
		c.pendLabel = x.Label.Name
		return c.stmt(x.Stmt)
	case *ast.BranchStmt:
		switch x.Tok {
		case token.BREAK, token.CONTINUE:
			var tg *target
			if x.Label != nil {
				lt := c.labels[x.Label.Name]
				if lt != nil {
					if x.Tok == token.BREAK {
						tg = lt.brk
					} else {
						tg = lt.cnt
					}
				}
			} else if x.Tok == token.BREAK && len(c.brk) > 0 {
				tg = c.brk[len(c.brk)-1]
			} else if x.Tok == token.CONTINUE && len(c.cnt) > 0 {
				tg = c.cnt[len(c.cnt)-1]
			}
			if tg == nil {
				c.refuse(x.Pos(), "branch target not found")
				return Skip{}
			}
			return Exit{c.depth - tg.depth, x.Tok.String()}
		case token.FALLTHROUGH:
			return Atom{Kind: "fallthrough"} // resolved by switchStmt
		}
		c.refuse(x.Pos(), "goto")
		return Skip{}
	case *ast.IfStmt:
		init := c.stmt(x.Init)
		if fl, neg, ok := c.flagCond(x.Cond); ok {
			bs := c.branches([]func() Stmt{func() Stmt { return c.stmts(x.Body.List) }, func() Stmt { return c.stmt(x.Else) }})
			if neg {
				return mkSeq(init, IfFlag{fl, bs[1], bs[0]})
			}
			return mkSeq(init, IfFlag{fl, bs[0], bs[1]})
		}
		cond := mkSeq(c.expr(x.Cond)...)
		bs := c.branches([]func() Stmt{func() Stmt { return c.stmts(x.Body.List) }, func() Stmt { return c.stmt(x.Else) }})
		return mkSeq(init, cond, mkChoice(bs...))
	case *ast.ForStmt:
		init := c.stmt(x.Init)
		return mkSeq(init, c.loop(label, x.Pos(), func() Stmt { return mkSeq(c.expr(x.Cond)...) }, x.Body, func() Stmt { return c.stmt(x.Post) }))
	case *ast.RangeStmt:
		pre := c.expr(x.X)
		var per Stmt = Skip{}
		if tv, ok := c.t.info.Types[x.X]; ok {
			switch tv.Type.Underlying().(type) {
			case *types.Chan:
				per = Atom{Kind: "recv", Obj: c.chanID(x.X), Pos: x.Pos()}
			case *types.Signature:
				c.refuse(x.Pos(), "range over func")
			}
		}
		var asg []Stmt
		if x.Tok == token.ASSIGN {
			asg = append(asg, c.lhs(x.Key)...)
			if x.Value != nil {
				asg = append(asg, c.lhs(x.Value)...)
			}
		}
		return mkSeq(mkSeq(pre...), c.loop(label, x.Pos(), func() Stmt { return mkSeq(per, mkSeq(asg...)) }, x.Body, func() Stmt { return Skip{} }))
	case *ast.SwitchStmt:
		init := c.stmt(x.Init)
		tag := mkSeq(c.expr(x.Tag)...)
		return mkSeq(init, tag, c.switchBody(label, x.Body, false))
	case *ast.TypeSwitchStmt:
		init := c.stmt(x.Init)
		var asg Stmt
		switch a := x.Assign.(type) {
		case *ast.ExprStmt:
			asg = mkSeq(c.expr(a.X)...)
		case *ast.AssignStmt:
			asg = mkSeq(c.exprs(a.Rhs)...)
		}
		return mkSeq(init, asg, c.switchBody(label, x.Body, true))
	case *ast.SelectStmt:
		return c.selectStmt(label, x)
	}
	c.refuse(s.Pos(), "statement %T not classified", s)
	return Skip{}
}

func (c *fctx) loop(label string, pos token.Pos, cond func() Stmt, body *ast.BlockStmt, post func() Stmt) Stmt {
	nDef := len(c.defers)
	res := c.inBlock(func() Stmt { // break target
		bt := &target{c.depth}
		condS := cond()
		var ct *target
		bodyS := c.inBlock(func() Stmt { // continue target
			ct = &target{c.depth}
			c.brk = append(c.brk, bt)
			c.cnt = append(c.cnt, ct)
			if label != "" {
				c.labels[label] = &labelT{bt, ct}
			}
			s := c.stmts(body.List)
			c.brk = c.brk[:len(c.brk)-1]
			c.cnt = c.cnt[:len(c.cnt)-1]
			return s
		})
		return mkLoop(mkSeq(condS, bodyS, post()))
	})
	if len(c.defers) != nDef {
		c.refuse(pos, "defer inside a loop")
		c.defers = c.defers[:nDef]
	}
	return res
}

func (c *fctx) switchBody(label string, body *ast.BlockStmt, isType bool) Stmt {
	return c.inBlock(func() Stmt {
		bt := &target{c.depth}
		c.brk = append(c.brk, bt)
		if label != "" {
			c.labels[label] = &labelT{bt, nil}
		}
		hasDefault := false
		var fns []func() Stmt
		var heads []Stmt
		for _, cl := range body.List {
			cc := cl.(*ast.CaseClause)
			if cc.List == nil {
				hasDefault = true
			}
			var h []Stmt
			if !isType {
				h = c.exprs(cc.List)
			}
			heads = append(heads, mkSeq(h...))
			cc2 := cc
			fns = append(fns, func() Stmt { return c.stmts(cc2.Body) })
		}
		bodies := c.branches(fns)
		// fallthrough: append the next clause's body
		for i := len(bodies) - 1; i >= 0; i-- {
			if q, ok := bodies[i].(Seq); ok {
				if a, ok := q.L[len(q.L)-1].(Atom); ok && a.Kind == "fallthrough" && i+1 < len(bodies) {
					bodies[i] = mkSeq(append(append([]Stmt{}, q.L[:len(q.L)-1]...), bodies[i+1])...)
				}
			} else if a, ok := bodies[i].(Atom); ok && a.Kind == "fallthrough" && i+1 < len(bodies) {
				bodies[i] = bodies[i+1]
			}
		}
		var alts []Stmt
		var headsSoFar []Stmt
		for i := range bodies {
			// case expressions are evaluated in order until one matches
			headsSoFar = append(headsSoFar, heads[i])
			alts = append(alts, mkSeq(mkSeq(headsSoFar...), bodies[i]))
		}
		if !hasDefault {
			alts = append(alts, mkSeq(headsSoFar...))
		}
		c.brk = c.brk[:len(c.brk)-1]
		return mkChoice(alts...)
	})
}

func (c *fctx) selectStmt(label string, x *ast.SelectStmt) Stmt {
	hasDefault := false
	for _, cl := range x.Body.List {
		if cl.(*ast.CommClause).Comm == nil {
			hasDefault = true
		}
	}
	return c.inBlock(func() Stmt {
		bt := &target{c.depth}
		c.brk = append(c.brk, bt)
		if label != "" {
			c.labels[label] = &labelT{bt, nil}
		}
		var pre []Stmt // channel and value expressions of all cases are evaluated first
		var comms []Stmt
		var fns []func() Stmt
		for _, cl := range x.Body.List {
			cc := cl.(*ast.CommClause)
			var comm Stmt = Skip{}
			sendK, recvK := "selsend", "selrecv"
			if hasDefault {
				sendK, recvK = "trysend", "tryrecv"
			}
			switch m := cc.Comm.(type) {
			case nil:
			case *ast.SendStmt:
				pre = append(pre, c.expr(m.Chan)...)
				pre = append(pre, c.expr(m.Value)...)
				comm = Atom{Kind: sendK, Obj: c.chanID(m.Chan), Pos: m.Pos()}
			case *ast.ExprStmt:
				u, ok := unparen(m.X).(*ast.UnaryExpr)
				if !ok || u.Op != token.ARROW {
					c.refuse(m.Pos(), "select case not classified")
					break
				}
				pre = append(pre, c.expr(u.X)...)
				comm = Atom{Kind: recvK, Obj: c.chanID(u.X), Pos: m.Pos()}
			case *ast.AssignStmt:
				u, ok := unparen(m.Rhs[0]).(*ast.UnaryExpr)
				if !ok || u.Op != token.ARROW {
					c.refuse(m.Pos(), "select case not classified")
					break
				}
				pre = append(pre, c.expr(u.X)...)
				comm = Atom{Kind: recvK, Obj: c.chanID(u.X), Pos: m.Pos()}
				var asg []Stmt
				if m.Tok == token.ASSIGN {
					for _, l := range m.Lhs {
						asg = append(asg, c.lhs(l)...)
					}
				}
				comm = mkSeq(comm, mkSeq(asg...))
			}
			comms = append(comms, comm)
			cc2 := cc
			fns = append(fns, func() Stmt { return c.stmts(cc2.Body) })
		}
		bodies := c.branches(fns)
		var alts []Stmt
		for i := range bodies {
			alts = append(alts, mkSeq(comms[i], bodies[i]))
		}
		c.brk = c.brk[:len(c.brk)-1]
		return mkSeq(mkSeq(pre...), mkChoice(alts...))
	})
}

func (c *fctx) goStmt(x *ast.GoStmt) Stmt {
	t := c.t
	call := x.Call
	out := c.exprs(call.Args)
	fun := unparen(call.Fun)
	if lit, ok := fun.(*ast.FuncLit); ok {
		fn := t.litFn(lit, c.fn)
		fn.Invoked = true
		// parameters of the literal are bound to the arguments (for channel identities)
		fn.ParamChan = map[string]string{}
		i := 0
		for _, f := range lit.Type.Params.List {
			for _, n := range f.Names {
				if i < len(call.Args) {
					if tv, ok := t.info.Types[call.Args[i]]; ok && isChan(tv.Type) {
						fn.ParamChan[n.Name] = c.chanID(call.Args[i])
					}
				}
				i++
			}
		}
		t.addRoot(fn.Name, "goroutine")
		return mkSeq(append(out, Atom{Kind: "go", Fn: fn, Pos: x.Pos()})...)
	}
	if f, ok := c.calleeObj(call).(*types.Func); ok && f.Pkg() == t.pkg {
		if se, ok := fun.(*ast.SelectorExpr); ok {
			out = append(out, c.expr(se.X)...)
		}
		if fn := t.fns[f]; fn != nil {
			t.addRoot(fn.Name, "goroutine")
			return mkSeq(append(out, Atom{Kind: "go", Fn: fn, Pos: x.Pos()})...)
		}
	}
	c.refuse(x.Pos(), "go statement whose target is not a package function or literal")
	return Skip{}
}

func (c *fctx) deferStmt(x *ast.DeferStmt) Stmt {
	call := x.Call
	// receiver and arguments are evaluated now, the call itself at function exit
	var now []Stmt
	fun := unparen(call.Fun)
	if lit, ok := fun.(*ast.FuncLit); ok {
		now = c.exprs(call.Args)
		fn := c.t.litFn(lit, c.fn)
		fn.Invoked = true
		c.defers = append(c.defers, deferred{CallS{fn, x.Pos()}, false})
		return mkSeq(now...)
	}
	// translate the call; split "evaluation now" from "the call" = last element
	all := c.call(call)
	if len(all) == 0 {
		return Skip{}
	}
	// heuristics-free rule: everything except reads is deferred; reads happen now
	var later []Stmt
	for _, s := range all {
		if a, ok := s.(Atom); ok && a.Kind == "read" {
			now = append(now, s)
		} else {
			later = append(later, s)
		}
	}
	if len(later) > 0 {
		c.defers = append(c.defers, deferred{mkSeq(later...), false})
	}
	return mkSeq(now...)
}

// ---------------------------------------------------------------- functions

func (t *T) addRoot(name, kind string) {
	if old, ok := t.roots[name]; ok {
		if old == kind || old != "closure" {
			return
		}
	} else {
		t.rootOrder = append(t.rootOrder, name)
	}
	t.roots[name] = kind
}

func (t *T) litFn(lit *ast.FuncLit, parent *Fn) *Fn {
	if fn, ok := t.lits[lit]; ok {
		return fn
	}
	n := 1
	for _, f := range t.lits {
		if f.Parent == parent {
			n++
		}
	}
	fn := &Fn{Name: fmt.Sprintf("%s$%d", parent.Name, n), Pos: lit.Pos(), Decl: lit, IsLit: true, Parent: parent}
	t.lits[lit] = fn
	t.order = append(t.order, fn)
	return fn
}

func (t *T) translateFn(fn *Fn) {
	c := &fctx{t: t, fn: fn, labels: map[string]*labelT{}, fresh: t.fresh, alias: t.alias, chanByObj: t.chanByObj}
	var body *ast.BlockStmt
	switch d := fn.Decl.(type) {
	case *ast.FuncDecl:
		body = d.Body
	case *ast.FuncLit:
		body = d.Body
		// bind parameters to the arguments of the go call, for channel identities
		for _, f := range d.Type.Params.List {
			for _, n := range f.Names {
				if id, ok := fn.ParamChan[n.Name]; ok {
					if o := t.info.Defs[n]; o != nil {
						c.chanByObj[o] = id
					}
				}
			}
		}
	}
	c.depth = 1
	s := c.stmts(body.List)
	if canComplete(s) {
		s = mkSeq(s, c.runDefers())
	}
	fn.Body = Block{s}
}
