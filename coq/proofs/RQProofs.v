(* Lemmas about the reassembly-queue model (coq/model/RQ.v).
   Part 1: conservation of held chunks for every weight function (hence as multisets), exactness of
           the byte counter over all histories.
   Part 2: structure of delivered messages, well-formedness invariant, forward operations.
   Part 3: association-level receive-window laws. *)
From Coq Require Import ZArith Bool List Lia Permutation Sorted.
From Coq Require Import ZifyBool.
From Sctp Require Import Gen SnaProofs RQ.
Import ListNotations.
Open Scope Z_scope.
Ltac Zify.zify_post_hook ::= Z.div_mod_to_equations.

(* ------------------------------------------------------------------------------------------ *)
(* generic weighted sums                                                                        *)
(* ------------------------------------------------------------------------------------------ *)
Definition gsum {A : Type} (f : A -> Z) (l : list A) : Z := fold_right (fun x n => f x + n) 0 l.

Lemma gsum_nil {A} (f : A -> Z) : gsum f [] = 0.
Proof. reflexivity. Qed.
Lemma gsum_cons {A} (f : A -> Z) x l : gsum f (x :: l) = f x + gsum f l.
Proof. reflexivity. Qed.
Lemma gsum_app {A} (f : A -> Z) a b : gsum f (a ++ b) = gsum f a + gsum f b.
Proof. induction a as [|x a IH]; [reflexivity|]. rewrite <- app_comm_cons, !gsum_cons, IH. lia. Qed.
Lemma gsum_perm {A} (f : A -> Z) a b : Permutation a b -> gsum f a = gsum f b.
Proof. induction 1; rewrite ?gsum_cons in *; lia. Qed.
Lemma gsum_rev {A} (f : A -> Z) l : gsum f (rev l) = gsum f l.
Proof. apply gsum_perm, Permutation_sym, Permutation_rev. Qed.
Lemma gsum_nonneg {A} (f : A -> Z) l : (forall x, 0 <= f x) -> 0 <= gsum f l.
Proof. intros H. induction l as [|x l IH]; [reflexivity|]. rewrite gsum_cons. specialize (H x). lia. Qed.
Lemma gsum_filter_split {A} (f : A -> Z) p l :
  gsum f (filter p l) + gsum f (filter (fun x => negb (p x)) l) = gsum f l.
Proof.
  induction l as [|x l IH]; [reflexivity|]. cbn [filter]. destruct (p x); cbn [negb]; rewrite !gsum_cons; lia.
Qed.
Lemma gsum_firstn_skipn {A} (f : A -> Z) n l : gsum f (firstn n l) + gsum f (skipn n l) = gsum f l.
Proof. rewrite <- gsum_app, firstn_skipn. reflexivity. Qed.
Lemma gsum_concat {A B} (f : B -> Z) (g : A -> list B) l :
  gsum f (concat (map g l)) = gsum (fun x => gsum f (g x)) l.
Proof.
  induction l as [|x l IH]; [reflexivity|]. cbn [map concat]. rewrite gsum_app, gsum_cons, IH. reflexivity.
Qed.
Lemma gsum_ext {A} (f g : A -> Z) l : (forall x, f x = g x) -> gsum f l = gsum g l.
Proof. intros H. induction l as [|x l IH]; [reflexivity|]. rewrite !gsum_cons, H, IH. reflexivity. Qed.

(* ------------------------------------------------------------------------------------------ *)
(* the transcribed insertion sort is a permutation (whatever the comparator does)               *)
(* ------------------------------------------------------------------------------------------ *)
Lemma rq_ins_rev_perm {A} (lt : A -> A -> bool) x rl : Permutation (rq_ins_rev lt x rl) (x :: rl).
Proof.
  induction rl as [|y t IH]; [reflexivity|]. cbn [rq_ins_rev]. destruct (lt x y); [|reflexivity].
  rewrite IH. apply perm_swap.
Qed.

Lemma rq_isort_fold_perm {A} (lt : A -> A -> bool) l : forall acc,
  Permutation (fold_left (fun acc x => rq_ins_rev lt x acc) l acc) (l ++ acc).
Proof.
  induction l as [|x l IH]; intros acc; [reflexivity|]. cbn [fold_left]. rewrite IH, rq_ins_rev_perm.
  rewrite <- app_comm_cons. symmetry. apply Permutation_middle.
Qed.

Lemma rq_isort_perm {A} (lt : A -> A -> bool) l : Permutation (rq_isort lt l) l.
Proof.
  unfold rq_isort. rewrite <- Permutation_rev, rq_isort_fold_perm, app_nil_r. reflexivity.
Qed.

Lemma gsum_isort {A} (f : A -> Z) lt l : gsum f (rq_isort lt l) = gsum f l.
Proof. apply gsum_perm, rq_isort_perm. Qed.

Lemma rq_isort_in {A} (lt : A -> A -> bool) l x : In x (rq_isort lt l) <-> In x l.
Proof. split; apply Permutation_in; [|symmetry]; apply rq_isort_perm. Qed.

Lemma rq_isort_Forall {A} (P : A -> Prop) lt l : Forall P l -> Forall P (rq_isort lt l).
Proof. intros H. eapply Permutation_Forall; [symmetry; apply rq_isort_perm|assumption]. Qed.

Lemma rq_isort_nonempty {A} (lt : A -> A -> bool) l : l <> [] -> rq_isort lt l <> [].
Proof.
  intros H E. apply H. apply Permutation_nil. rewrite <- E. apply rq_isort_perm.
Qed.

(* ------------------------------------------------------------------------------------------ *)
(* weights of a queue                                                                           *)
(* ------------------------------------------------------------------------------------------ *)
Definition wS (w : rqchunk -> Z) (l : list rqset) : Z := gsum (fun s => gsum w (rqs_chunks s)) l.
Definition wq (w : rqchunk -> Z) (q : rq) : Z := gsum w (rq_all_chunks q).

Lemma wS_set_chunks w l : gsum w (rq_set_chunks l) = wS w l.
Proof. unfold rq_set_chunks, wS. apply gsum_concat. Qed.

Lemma wq_unfold w q :
  wq w q = wS w (rq_ordered q) + wS w (rq_unordered q) + gsum w (rq_uchunks q) +
           wS w (rq_orderedMID q) + wS w (rq_unorderedMID q) + wS w (rq_umidmap q).
Proof. unfold wq, rq_all_chunks. rewrite !gsum_app, !wS_set_chunks. lia. Qed.

Lemma wS_app w a b : wS w (a ++ b) = wS w a + wS w b.
Proof. apply gsum_app. Qed.
Lemma wS_cons w s l : wS w (s :: l) = gsum w (rqs_chunks s) + wS w l.
Proof. reflexivity. Qed.
Lemma wS_nil w : wS w [] = 0.
Proof. reflexivity. Qed.

Lemma held_bytes_wq q : rq_held_bytes q = wq rqc_len q.
Proof. reflexivity. Qed.

Lemma rqc_len_nonneg c : 0 <= rqc_len c.
Proof. unfold rqc_len. lia. Qed.

Lemma held_bytes_nonneg q : 0 <= rq_held_bytes q.
Proof. apply gsum_nonneg, rqc_len_nonneg. Qed.

(* ------------------------------------------------------------------------------------------ *)
(* pieces used by push                                                                          *)
(* ------------------------------------------------------------------------------------------ *)
Lemma rq_find_scan_split : forall l pre cur b r a,
  rq_find_scan l pre cur = Some (b, r, a) -> b ++ r ++ a = rev pre ++ rev cur ++ l.
Proof.
  induction l as [|c t IH]; intros pre cur b r a H; cbn [rq_find_scan] in H; [discriminate|].
  destruct (rqc_beg c) eqn:Eb.
  - destruct (rqc_end c) eqn:Ee.
    + inversion H; subst; clear H. rewrite rev_app_distr. rewrite <- !app_assoc. reflexivity.
    + apply IH in H. rewrite H. rewrite rev_app_distr. cbn [rev app]. rewrite <- !app_assoc. reflexivity.
  - destruct cur as [|d cur'].
    + apply IH in H. rewrite H. cbn [rev app]. rewrite <- !app_assoc. reflexivity.
    + destruct (negb (rqc_tsn c =? wrap32 (rqc_tsn d + 1))) eqn:En.
      * apply IH in H. rewrite H. cbn [rev app]. rewrite rev_app_distr. cbn [rev]. rewrite <- !app_assoc. reflexivity.
      * destruct (rqc_end c) eqn:Ee.
        -- inversion H; subst; clear H. cbn [rev]. rewrite <- !app_assoc. reflexivity.
        -- apply IH in H. rewrite H. cbn [rev]. rewrite <- !app_assoc. reflexivity.
Qed.

Lemma rq_find_complete_sum w uc cset rest :
  rq_find_complete uc = Some (Some (cset, rest)) -> gsum w (rqs_chunks cset) + gsum w rest = gsum w uc.
Proof.
  unfold rq_find_complete. destruct (rq_find_scan uc [] []) as [[[b r] a]|] eqn:E; [|discriminate].
  destruct r as [|c0 r']; [discriminate|]. intros H; inversion H; subst; clear H. cbn [rqs_chunks].
  apply rq_find_scan_split in E. change (rev [] ++ rev [] ++ uc) with uc in E.
  rewrite <- E, !gsum_app. lia.
Qed.

Lemma rq_find_scan_nonempty : forall l pre cur b r a,
  rq_find_scan l pre cur = Some (b, r, a) -> r <> [].
Proof.
  induction l as [|c t IH]; intros pre cur b r a H; cbn [rq_find_scan] in H; [discriminate|].
  destruct (rqc_beg c).
  - destruct (rqc_end c); [inversion H; discriminate|]. eapply IH; eassumption.
  - destruct cur as [|d cur'].
    + eapply IH; eassumption.
    + destruct (negb (rqc_tsn c =? wrap32 (rqc_tsn d + 1))).
      * eapply IH; eassumption.
      * destruct (rqc_end c).
        -- inversion H as [[H1 H2 H3]]. cbn [rev]. destruct (rev cur' ++ [d]); discriminate.
        -- eapply IH; eassumption.
Qed.

Lemma rq_find_complete_no_panic uc : rq_find_complete uc <> Some None.
Proof.
  unfold rq_find_complete. destruct (rq_find_scan uc [] []) as [[[b r] a]|] eqn:E; [|discriminate].
  apply rq_find_scan_nonempty in E. destruct r; [congruence|discriminate].
Qed.

Lemma rq_split_frag_app ssn l b x a :
  rq_split_frag ssn l = Some (Some (b, x, a)) -> l = b ++ x :: a /\ rqs_key x = ssn.
Proof.
  revert b x a. induction l as [|s t IH]; intros b x a H; cbn [rq_split_frag] in H; [discriminate|].
  assert (C : match rq_split_frag ssn t with
              | None => None | Some None => Some None
              | Some (Some (b0, x0, a0)) => Some (Some (s :: b0, x0, a0)) end = Some (Some (b, x, a)) ->
              s :: t = b ++ x :: a /\ rqs_key x = ssn).
  { destruct (rq_split_frag ssn t) as [[[[b0 x0] a0]|]|]; try discriminate.
    intros E; inversion E; subst; clear E. destruct (IH _ _ _ eq_refl) as [-> K]. split; [reflexivity|exact K]. }
  destruct (rqs_key s =? ssn) eqn:Ek; [|exact (C H)].
  destruct (rqs_chunks s) as [|c0 cs]; [discriminate|].
  destruct (rqc_fragmented c0); [|exact (C H)].
  inversion H; subst; clear H. split; [reflexivity|lia].
Qed.

Lemma rq_split_key_app k l b x a :
  rq_split_key k l = Some (b, x, a) -> l = b ++ x :: a /\ rqs_key x = k.
Proof.
  revert b x a. induction l as [|s t IH]; intros b x a H; cbn [rq_split_key] in H; [discriminate|].
  destruct (rqs_key s =? k) eqn:Ek.
  - inversion H; subst; clear H. split; [reflexivity|lia].
  - destruct (rq_split_key k t) as [[[b0 x0] a0]|]; [|discriminate].
    inversion H; subst; clear H. destruct (IH _ _ _ eq_refl) as [-> K]. split; [reflexivity|exact K].
Qed.

Lemma rqm_push_and_check_spec s c s' comp acc :
  rqm_push_and_check s c = (s', comp, acc) ->
  (acc = false /\ s' = s /\ comp = false) \/
  (acc = true /\ rqs_key s' = rqs_key s /\ Permutation (rqs_chunks s') (c :: rqs_chunks s) /\
   comp = rqm_complete (rqs_chunks s') /\
   rqm_complete (rqs_chunks s) = false /\
   existsb (fun x => rqc_fsn x =? rqc_fsn c) (rqs_chunks s) = false).
Proof.
  unfold rqm_push_and_check. destruct (rqm_complete (rqs_chunks s)) eqn:E1.
  { intros H; inversion H; subst. left. auto. }
  destruct (existsb (fun x => rqc_fsn x =? rqc_fsn c) (rqs_chunks s)) eqn:E2.
  { intros H; inversion H; subst. left. auto. }
  intros H; inversion H; subst; clear H. right. cbn [rqs_key rqs_chunks]. repeat split.
  rewrite rq_isort_perm. rewrite Permutation_app_comm. reflexivity.
Qed.

Lemma rq_insert_by_mid_perm a s : Permutation (rq_insert_by_mid a s) (s :: a).
Proof.
  unfold rq_insert_by_mid. set (p := rq_bsearch _ _ _ _). clearbody p.
  rewrite <- Permutation_middle. rewrite firstn_skipn. reflexivity.
Qed.

Lemma gsum_map_put (f : rqset -> Z) s m :
  gsum f (rq_map_put s m) = gsum f m - match rq_map_get (rqs_key s) m with Some o => f o | None => 0 end + f s.
Proof.
  induction m as [|x t IH]; [cbn; lia|]. cbn [rq_map_put rq_map_get find].
  destruct (rqs_key x =? rqs_key s) eqn:E; rewrite !gsum_cons; [lia|].
  unfold rq_map_get in IH. rewrite IH. lia.
Qed.

Lemma gsum_map_del (f : rqset -> Z) k m :
  gsum f (rq_map_del k m) = gsum f m - match rq_map_get k m with Some o => f o | None => 0 end.
Proof.
  induction m as [|x t IH]; [cbn; lia|]. cbn [rq_map_del rq_map_get find].
  destruct (rqs_key x =? k) eqn:E; rewrite !gsum_cons; [lia|].
  unfold rq_map_get in IH. rewrite IH. lia.
Qed.

Lemma wS_perm w a b : Permutation a b -> wS w a = wS w b.
Proof. apply gsum_perm. Qed.
Lemma wS_isort w lt l : wS w (rq_isort lt l) = wS w l.
Proof. apply gsum_isort. Qed.
Lemma wS_insert_by_mid w a s : wS w (rq_insert_by_mid a s) = gsum w (rqs_chunks s) + wS w a.
Proof. rewrite (wS_perm w _ _ (rq_insert_by_mid_perm a s)). apply wS_cons. Qed.
Lemma wS_map_put w s m :
  wS w (rq_map_put s m) =
  wS w m - match rq_map_get (rqs_key s) m with Some o => gsum w (rqs_chunks o) | None => 0 end + gsum w (rqs_chunks s).
Proof. unfold wS. apply (gsum_map_put (fun s => gsum w (rqs_chunks s))). Qed.
Lemma wS_map_del w k m :
  wS w (rq_map_del k m) =
  wS w m - match rq_map_get k m with Some o => gsum w (rqs_chunks o) | None => 0 end.
Proof. unfold wS. apply (gsum_map_del (fun s => gsum w (rqs_chunks s))). Qed.

(* ------------------------------------------------------------------------------------------ *)
(* push: what is held afterwards = what was held before (+ the chunk, if it was taken)           *)
(* ------------------------------------------------------------------------------------------ *)
Definition push_conserves (q : rq) (c : rqchunk) (q' : rq) : Prop :=
  exists b : bool,
    (forall w, wq w q' = wq w q + if b then w c else 0) /\
    rq_nbytes q' = (if b then rq_add_bytes (rq_nbytes q) (rqc_len c) else rq_nbytes q).

Lemma push_conserves_id q c : push_conserves q c q.
Proof. exists false. split; [intros; lia|reflexivity]. Qed.

Lemma rq_push_unordered_conserve q c : push_conserves q c (fst (rq_push_unordered q c)).
Proof.
  unfold rq_push_unordered.
  destruct (rq_has_limit q && rq_limit_reached q (rq_unordered_count q)); [apply push_conserves_id|].
  destruct (rq_find_complete (rq_isort rq_tsn_lt (rq_uchunks q ++ [c]))) as [[[cset rest]|]|] eqn:E;
    cbn [fst]; exists true; (split; [intros w|reflexivity]); rewrite !wq_unfold; unfold rq_set_q; cbn [rq_ordered rq_unordered rq_uchunks rq_orderedMID rq_unorderedMID rq_umidmap].
  - apply (rq_find_complete_sum w) in E. rewrite gsum_isort, gsum_app in E. cbn in E.
    rewrite wS_app, wS_cons, wS_nil. lia.
  - rewrite gsum_isort, gsum_app. cbn. lia.
  - rewrite gsum_isort, gsum_app. cbn. lia.
Qed.

Lemma rq_push_ordered_conserve q c : push_conserves q c (fst (rq_push_ordered q c)).
Proof.
  unfold rq_push_ordered.
  destruct (sna16LT (rqc_ssn c) (rq_nextSSN q)); [apply push_conserves_id|].
  destruct (if rqc_fragmented c then rq_split_frag (rqc_ssn c) (rq_ordered q) else Some None)
    as [found|] eqn:Ef; [|apply push_conserves_id].
  destruct (match found with Some (_, s, _) => rq_has_tsn (rqc_tsn c) (rqs_chunks s) | None => false end);
    [apply push_conserves_id|].
  destruct (rq_has_limit q && rq_limit_reached q (rq_ordered_count q)); [apply push_conserves_id|].
  destruct found as [[[before s] after]|]; cbn [fst]; exists true; (split; [intros w|reflexivity]);
    rewrite !wq_unfold; unfold rq_set_q; cbn [rq_ordered rq_unordered rq_uchunks rq_orderedMID rq_unorderedMID rq_umidmap].
  - destruct (rqc_fragmented c); [|discriminate]. apply rq_split_frag_app in Ef. destruct Ef as [-> _].
    rewrite !wS_app, !wS_cons. unfold rq_push_chunk_to_set. cbn [rqs_chunks].
    rewrite gsum_isort, gsum_app. cbn. lia.
  - rewrite wS_isort, wS_app, wS_cons, wS_nil. cbn. lia.
Qed.

Lemma rq_push_ordered_idata_conserve q c : push_conserves q c (fst (rq_push_ordered_idata q c)).
Proof.
  unfold rq_push_ordered_idata.
  destruct (sna32LT (rqc_mid c) (rq_nextMID q)); [apply push_conserves_id|].
  destruct (rq_split_key (rqc_mid c) (rq_orderedMID q)) as [[[before s] after]|] eqn:Ek.
  - destruct (rqm_push_and_check s c) as [[s' comp] acc] eqn:Ep.
    apply rqm_push_and_check_spec in Ep. apply rq_split_key_app in Ek. destruct Ek as [Ek _].
    destruct Ep as [(-> & _ & _)|(-> & _ & HP & _)]; [apply push_conserves_id|].
    cbn [fst]. exists true. split; [intros w|reflexivity].
    rewrite !wq_unfold; unfold rq_set_q; cbn [rq_ordered rq_unordered rq_uchunks rq_orderedMID rq_unorderedMID rq_umidmap].
    rewrite Ek, !wS_app, !wS_cons. rewrite (gsum_perm w _ _ HP), gsum_cons. lia.
  - destruct (rq_limit_reached q (Z.of_nat (length (rq_orderedMID q)))); [apply push_conserves_id|].
    destruct (rqm_push_and_check (mkRqSet (rqc_mid c) (rqc_ppi c) []) c) as [[s' comp] acc] eqn:Ep.
    apply rqm_push_and_check_spec in Ep. cbn [fst].
    destruct Ep as [(-> & -> & _)|(-> & _ & HP & _)].
    + exists false. split; [intros w|reflexivity].
      rewrite !wq_unfold; unfold rq_set_q; cbn [rq_ordered rq_unordered rq_uchunks rq_orderedMID rq_unorderedMID rq_umidmap].
      rewrite wS_insert_by_mid. cbn [rqs_chunks gsum fold_right]. lia.
    + exists true. split; [intros w|reflexivity].
      rewrite !wq_unfold; unfold rq_set_q; cbn [rq_ordered rq_unordered rq_uchunks rq_orderedMID rq_unorderedMID rq_umidmap].
      rewrite wS_insert_by_mid.
      rewrite (gsum_perm w _ _ HP), gsum_cons. cbn [rqs_chunks gsum fold_right]. lia.
Qed.

Lemma rq_map_get_key k m s : rq_map_get k m = Some s -> rqs_key s = k.
Proof. unfold rq_map_get. intros H. apply find_some in H. lia. Qed.

Lemma rq_push_unordered_idata_conserve q c : push_conserves q c (fst (rq_push_unordered_idata q c)).
Proof.
  unfold rq_push_unordered_idata.
  destruct (existsb (fun s => rqs_key s =? rqc_mid c) (rq_unorderedMID q)); [apply push_conserves_id|].
  set (entry := match rq_map_get (rqc_mid c) (rq_umidmap q) with Some s => Some s | None => _ end).
  assert (HE : forall s, entry = Some s -> rqs_key s = rqc_mid c /\
              forall w, gsum w (rqs_chunks s) =
                        match rq_map_get (rqc_mid c) (rq_umidmap q) with Some o => gsum w (rqs_chunks o) | None => 0 end).
  { intros s. unfold entry. destruct (rq_map_get (rqc_mid c) (rq_umidmap q)) as [o|] eqn:G.
    - intros E; inversion E; subst. split; [eapply rq_map_get_key; eassumption|reflexivity].
    - destruct (rq_limit_reached q _); [discriminate|]. intros E; inversion E; subst. split; reflexivity. }
  destruct entry as [s|]; [|apply push_conserves_id].
  destruct (HE s eq_refl) as [Hk Hs]. clear HE.
  destruct (rqm_push_and_check s c) as [[s' comp] acc] eqn:Ep.
  apply rqm_push_and_check_spec in Ep.
  destruct Ep as [(-> & -> & _)|(-> & Hk' & HP & _)]; cbn [negb fst].
  - exists false. split; [intros w|reflexivity].
    rewrite !wq_unfold; unfold rq_set_q; cbn [rq_ordered rq_unordered rq_uchunks rq_orderedMID rq_unorderedMID rq_umidmap].
    rewrite wS_map_put, Hk, <- Hs. lia.
  - destruct comp; cbn [fst]; exists true; (split; [intros w|reflexivity]);
      rewrite !wq_unfold; unfold rq_set_q; cbn [rq_ordered rq_unordered rq_uchunks rq_orderedMID rq_unorderedMID rq_umidmap].
    + rewrite wS_app, wS_cons, wS_nil. rewrite wS_map_del, <- Hs.
      rewrite (gsum_perm w _ _ HP), gsum_cons. lia.
    + rewrite wS_map_put, Hk', Hk, <- Hs.
      rewrite (gsum_perm w _ _ HP), gsum_cons. lia.
Qed.

Lemma wq_set_inter w q : wq w (rq_set_inter q) = wq w q.
Proof. reflexivity. Qed.

Lemma push_conserves_inter q c q' : push_conserves (rq_set_inter q) c q' -> push_conserves q c q'.
Proof. intros [b [H1 H2]]. exists b. split; [intros w; rewrite H1, wq_set_inter; reflexivity|exact H2]. Qed.

Lemma rq_push_conserve q c : push_conserves q c (fst (rq_push q c)).
Proof.
  unfold rq_push. destruct (rqc_idata c).
  - apply push_conserves_inter.
    destruct (negb (rqc_si c =? rq_si (rq_set_inter q))); [apply push_conserves_id|].
    destruct (rqc_unord c); [apply rq_push_unordered_idata_conserve|apply rq_push_ordered_idata_conserve].
  - destruct (negb (rqc_si c =? rq_si q)); [apply push_conserves_id|].
    destruct (rqc_unord c); [apply rq_push_unordered_conserve|apply rq_push_ordered_conserve].
Qed.

(* ------------------------------------------------------------------------------------------ *)
(* read                                                                                         *)
(* ------------------------------------------------------------------------------------------ *)
Lemma rq_copy_spec buflen : forall cs n0 sh,
  fst (rq_copy buflen n0 cs sh) = n0 + gsum rqc_len cs /\
  (snd (rq_copy buflen n0 cs sh) = true <-> (sh = true \/ (cs <> [] /\ buflen < n0 + gsum rqc_len cs))).
Proof.
  induction cs as [|c t IH]; intros n0 sh; cbn [rq_copy fst snd].
  - cbn. split; [lia|]. split; [auto|]. intros [H|[H _]]; [exact H|congruence].
  - destruct (IH (n0 + rqc_len c) (sh || (buflen - n0 <? rqc_len c))) as [H1 H2].
    rewrite gsum_cons. split; [lia|]. rewrite H2.
    pose proof (gsum_nonneg rqc_len t rqc_len_nonneg) as Ht. pose proof (rqc_len_nonneg c) as Hc.
    destruct sh; cbn [orb]; [tauto|]. split.
    + intros [X|[_ X]]; right; (split; [discriminate|lia]).
    + intros [X|[_ X]]; [discriminate|].
      destruct (buflen - n0 <? rqc_len c) eqn:E; [left; reflexivity|].
      right. split; [|lia]. destruct t; [cbn in *; lia|discriminate].
Qed.

(* the copy loop reports a short buffer exactly when the buffer is smaller than the message *)
Definition rq_short (buflen : Z) (cs : list rqchunk) : bool :=
  match cs with [] => false | _ => buflen <? gsum rqc_len cs end.

Lemma rq_copy_short_iff buflen cs :
  rq_copy buflen 0 cs false = (gsum rqc_len cs, rq_short buflen cs).
Proof.
  destruct (rq_copy_spec buflen cs 0 false) as [H1 H2].
  destruct (rq_copy buflen 0 cs false) as [n sh]. cbn [fst snd] in *. f_equal; [lia|].
  unfold rq_short. destruct cs as [|c t].
  - destruct sh; [|reflexivity]. destruct H2 as [H2 _]. destruct (H2 eq_refl) as [X|[X _]]; congruence.
  - destruct sh, (buflen <? gsum rqc_len (c :: t)) eqn:E; try reflexivity; exfalso.
    + destruct H2 as [H2 _]. destruct (H2 eq_refl) as [X|[_ X]]; [discriminate|lia].
    + destruct H2 as [_ H2]. assert (X : false = true) by (apply H2; right; split; [discriminate|lia]). discriminate.
Qed.

Definition read_conserves (q : rq) (q' : rq) (r : rq_rd) : Prop :=
  match r with
  | RdOk n ppi del =>
      n = gsum rqc_len del /\ (forall w, wq w q = wq w q' + gsum w del) /\
      rq_nbytes q' = rq_sub (rq_nbytes q) n
  | RdShort _ | RdTryAgain => q' = q
  end.

Lemma rq_read_conserve q buflen :
  read_conserves q (fst (rq_read q buflen)) (snd (rq_read q buflen)).
Proof.
  unfold rq_read. destruct (rq_inter q).
  - destruct (rq_unorderedMID q) as [|s rest] eqn:EU.
    + destruct (rq_orderedMID q) as [|s rest] eqn:EO; [reflexivity|].
      destruct (negb (rqm_complete (rqs_chunks s))); [reflexivity|].
      destruct (sna32GT (rqs_key s) (rq_nextMID q)); [reflexivity|].
      rewrite rq_copy_short_iff. destruct (rq_short buflen (rqs_chunks s)); [reflexivity|].
      cbn [fst snd read_conserves]. split; [reflexivity|]. split; [|reflexivity].
      intros w. rewrite !wq_unfold. unfold rq_set_next.
      cbn [rq_ordered rq_unordered rq_uchunks rq_orderedMID rq_unorderedMID rq_umidmap].
      rewrite EO, EU, wS_cons. lia.
    + rewrite rq_copy_short_iff. destruct (rq_short buflen (rqs_chunks s)); [reflexivity|].
      cbn [fst snd read_conserves]. split; [reflexivity|]. split; [|reflexivity].
      intros w. rewrite !wq_unfold. unfold rq_set_next.
      cbn [rq_ordered rq_unordered rq_uchunks rq_orderedMID rq_unorderedMID rq_umidmap].
      rewrite EU, wS_cons. lia.
  - destruct (rq_unordered q) as [|s rest] eqn:EU.
    + destruct (rq_ordered q) as [|s rest] eqn:EO; [reflexivity|].
      destruct (negb (rqs_complete (rqs_chunks s))); [reflexivity|].
      destruct (sna16GT (rqs_key s) (rq_nextSSN q)); [reflexivity|].
      rewrite rq_copy_short_iff. destruct (rq_short buflen (rqs_chunks s)); [reflexivity|].
      cbn [fst snd read_conserves]. split; [reflexivity|]. split; [|reflexivity].
      intros w. rewrite !wq_unfold. unfold rq_set_next.
      cbn [rq_ordered rq_unordered rq_uchunks rq_orderedMID rq_unorderedMID rq_umidmap].
      rewrite EO, EU, wS_cons. lia.
    + rewrite rq_copy_short_iff. destruct (rq_short buflen (rqs_chunks s)); [reflexivity|].
      cbn [fst snd read_conserves]. split; [reflexivity|]. split; [|reflexivity].
      intros w. rewrite !wq_unfold. unfold rq_set_next.
      cbn [rq_ordered rq_unordered rq_uchunks rq_orderedMID rq_unorderedMID rq_umidmap].
      rewrite EU, wS_cons. lia.
Qed.

(* ------------------------------------------------------------------------------------------ *)
(* forward operations: what they remove                                                         *)
(* ------------------------------------------------------------------------------------------ *)
Definition rq_fwdo_removed (q : rq) (lastSSN : Z) : list rqchunk :=
  rq_set_chunks (filter (rq_fwdo_drop lastSSN) (rq_ordered q)).
Definition rq_fwdu_removed (q : rq) (newCum : Z) : list rqchunk :=
  fst (rq_fwdu_prefix newCum (rq_uchunks q)).
Definition rq_fwdom_removed (q : rq) (lastMID : Z) : list rqchunk :=
  rq_set_chunks (filter (rq_fwdom_drop lastMID) (rq_orderedMID q)).
Definition rq_fwdum_removed (q : rq) (lastMID : Z) : list rqchunk :=
  rq_set_chunks (filter (fun s => sna32LTE (rqs_key s) lastMID) (rq_umidmap q)).

Definition rq_removed (q : rq) (o : rq_op) : list rqchunk :=
  match o with
  | RqFwdO s => rq_fwdo_removed q s
  | RqFwdU t => rq_fwdu_removed q t
  | RqFwdOM m => rq_fwdom_removed q m
  | RqFwdUM m => rq_fwdum_removed q m
  | _ => []
  end.

Definition fwd_conserves (q q' : rq) (removed : list rqchunk) : Prop :=
  (forall w, wq w q = wq w q' + gsum w removed) /\
  rq_nbytes q' = rq_sub_chunks (rq_nbytes q) removed.

Lemma rq_fwdu_prefix_app newCum l :
  l = fst (rq_fwdu_prefix newCum l) ++ snd (rq_fwdu_prefix newCum l).
Proof.
  induction l as [|c t IH]; [reflexivity|]. cbn [rq_fwdu_prefix].
  destruct (sna32GT (rqc_tsn c) newCum); [reflexivity|].
  destruct (rq_fwdu_prefix newCum t) as [a b]. cbn [fst snd] in *. rewrite <- app_comm_cons, <- IH. reflexivity.
Qed.

Lemma rq_fwd_ordered_conserve q v : fwd_conserves q (rq_fwd_ordered q v) (rq_fwdo_removed q v).
Proof.
  split; [|reflexivity]. intros w. unfold rq_fwdo_removed. rewrite wS_set_chunks, !wq_unfold.
  unfold rq_fwd_ordered, rq_set_next. cbn [rq_ordered rq_unordered rq_uchunks rq_orderedMID rq_unorderedMID rq_umidmap].
  pose proof (gsum_filter_split (fun s => gsum w (rqs_chunks s)) (rq_fwdo_drop v) (rq_ordered q)) as H.
  unfold wS. lia.
Qed.

Lemma rq_fwd_ordered_mid_conserve q v : fwd_conserves q (rq_fwd_ordered_mid q v) (rq_fwdom_removed q v).
Proof.
  split; [|reflexivity]. intros w. unfold rq_fwdom_removed. rewrite wS_set_chunks, !wq_unfold.
  unfold rq_fwd_ordered_mid, rq_set_next. cbn [rq_ordered rq_unordered rq_uchunks rq_orderedMID rq_unorderedMID rq_umidmap].
  pose proof (gsum_filter_split (fun s => gsum w (rqs_chunks s)) (rq_fwdom_drop v) (rq_orderedMID q)) as H.
  unfold wS. lia.
Qed.

Lemma rq_fwd_unordered_mid_conserve q v : fwd_conserves q (rq_fwd_unordered_mid q v) (rq_fwdum_removed q v).
Proof.
  split; [|reflexivity]. intros w. unfold rq_fwdum_removed. rewrite wS_set_chunks, !wq_unfold.
  unfold rq_fwd_unordered_mid. cbn [rq_ordered rq_unordered rq_uchunks rq_orderedMID rq_unorderedMID rq_umidmap].
  pose proof (gsum_filter_split (fun s => gsum w (rqs_chunks s)) (fun s => sna32LTE (rqs_key s) v) (rq_umidmap q)) as H.
  cbv beta in H. unfold wS. lia.
Qed.

Lemma rq_fwd_unordered_conserve q v : fwd_conserves q (rq_fwd_unordered q v) (rq_fwdu_removed q v).
Proof.
  unfold fwd_conserves, rq_fwd_unordered, rq_fwdu_removed.
  pose proof (rq_fwdu_prefix_app v (rq_uchunks q)) as H.
  destruct (rq_fwdu_prefix v (rq_uchunks q)) as [a b]. cbn [fst snd] in *.
  split; [|reflexivity]. intros w. rewrite !wq_unfold.
  cbn [rq_ordered rq_unordered rq_uchunks rq_orderedMID rq_unorderedMID rq_umidmap].
  rewrite H, gsum_app. lia.
Qed.

(* ------------------------------------------------------------------------------------------ *)
(* subtractNumBytes never clamps when the counter is exact                                      *)
(* ------------------------------------------------------------------------------------------ *)
Definition B63 : Z := 9223372036854775808.

Lemma rq_sub_exact nb n : 0 <= n <= nb -> nb < B63 -> rq_sub nb n = nb - n.
Proof.
  unfold rq_sub, rq_int64, wrap64, B63. intros H1 H2.
  destruct (nb <? 9223372036854775808) eqn:E1; [|lia].
  destruct (nb >=? n) eqn:E2; [|lia]. rewrite Z.mod_small; lia.
Qed.

Lemma rq_sub_chunks_exact : forall cs nb, gsum rqc_len cs <= nb -> nb < B63 ->
  rq_sub_chunks nb cs = nb - gsum rqc_len cs.
Proof.
  unfold rq_sub_chunks. induction cs as [|c t IH]; intros nb H1 H2; cbn [fold_left]; [cbn; lia|].
  rewrite gsum_cons in H1. pose proof (rqc_len_nonneg c). pose proof (gsum_nonneg rqc_len t rqc_len_nonneg).
  rewrite rq_sub_exact by lia. rewrite IH by lia. rewrite gsum_cons. lia.
Qed.

(* the clamp branch "cur = 0" of subtractNumBytes, as a predicate on one call / a sequence of calls *)
Definition rq_clamps (nb n : Z) : bool := negb (rq_int64 nb >=? n).
Fixpoint rq_clamps_any (nb : Z) (cs : list rqchunk) : bool :=
  match cs with
  | [] => false
  | c :: t => rq_clamps nb (rqc_len c) || rq_clamps_any (rq_sub nb (rqc_len c)) t
  end.

Lemma rq_clamps_any_false : forall cs nb, gsum rqc_len cs <= nb -> nb < B63 -> rq_clamps_any nb cs = false.
Proof.
  induction cs as [|c t IH]; intros nb H1 H2; [reflexivity|]. cbn [rq_clamps_any].
  rewrite gsum_cons in H1. pose proof (rqc_len_nonneg c). pose proof (gsum_nonneg rqc_len t rqc_len_nonneg).
  rewrite rq_sub_exact by lia. rewrite IH by lia.
  unfold rq_clamps, rq_int64, B63 in *. destruct (nb <? 9223372036854775808) eqn:E1; lia.
Qed.

(* ------------------------------------------------------------------------------------------ *)
(* the byte counter is exact in every reachable state                                           *)
(* ------------------------------------------------------------------------------------------ *)
Definition rq_op_bytes (o : rq_op) : Z := match o with RqPush c => rqc_len c | _ => 0 end.
Definition rq_ops_bytes (ops : list rq_op) : Z := gsum rq_op_bytes ops.

Definition rq_exact (q : rq) : Prop := rq_nbytes q = rq_held_bytes q.

Lemma rq_op_bytes_nonneg o : 0 <= rq_op_bytes o.
Proof. destruct o; cbn; try lia. apply rqc_len_nonneg. Qed.

Lemma rq_step_exact q o :
  rq_exact q -> rq_held_bytes q + rq_op_bytes o < B63 ->
  rq_exact (rq_step q o) /\ rq_held_bytes (rq_step q o) <= rq_held_bytes q + rq_op_bytes o.
Proof.
  unfold rq_exact. intros HE HB. pose proof (held_bytes_nonneg q) as H0.
  destruct o as [c|b|v|v|v|v]; cbn [rq_step rq_op_bytes] in *.
  - destruct (rq_push_conserve q c) as [acc [H1 H2]]. specialize (H1 rqc_len).
    change (wq rqc_len) with rq_held_bytes in H1. pose proof (rqc_len_nonneg c).
    rewrite H2. destruct acc; unfold rq_add_bytes, wrap64, B63 in *; lia.
  - pose proof (rq_read_conserve q b) as H. destruct (rq_read q b) as [q' r]. cbn [fst snd] in *.
    destruct r as [n ppi del| |]; cbn [read_conserves] in H; try (subst q'; lia).
    destruct H as (Hn & Hw & Hb). specialize (Hw rqc_len). change (wq rqc_len) with rq_held_bytes in Hw.
    pose proof (gsum_nonneg rqc_len del rqc_len_nonneg). pose proof (held_bytes_nonneg q').
    rewrite Hb, rq_sub_exact by lia. lia.
  - destruct (rq_fwd_ordered_conserve q v) as [Hw Hb]. specialize (Hw rqc_len). change (wq rqc_len) with rq_held_bytes in Hw.
    pose proof (gsum_nonneg rqc_len (rq_fwdo_removed q v) rqc_len_nonneg). pose proof (held_bytes_nonneg (rq_fwd_ordered q v)).
    rewrite Hb, rq_sub_chunks_exact by lia. lia.
  - destruct (rq_fwd_unordered_conserve q v) as [Hw Hb]. specialize (Hw rqc_len). change (wq rqc_len) with rq_held_bytes in Hw.
    pose proof (gsum_nonneg rqc_len (rq_fwdu_removed q v) rqc_len_nonneg). pose proof (held_bytes_nonneg (rq_fwd_unordered q v)).
    rewrite Hb, rq_sub_chunks_exact by lia. lia.
  - destruct (rq_fwd_ordered_mid_conserve q v) as [Hw Hb]. specialize (Hw rqc_len). change (wq rqc_len) with rq_held_bytes in Hw.
    pose proof (gsum_nonneg rqc_len (rq_fwdom_removed q v) rqc_len_nonneg). pose proof (held_bytes_nonneg (rq_fwd_ordered_mid q v)).
    rewrite Hb, rq_sub_chunks_exact by lia. lia.
  - destruct (rq_fwd_unordered_mid_conserve q v) as [Hw Hb]. specialize (Hw rqc_len). change (wq rqc_len) with rq_held_bytes in Hw.
    pose proof (gsum_nonneg rqc_len (rq_fwdum_removed q v) rqc_len_nonneg). pose proof (held_bytes_nonneg (rq_fwd_unordered_mid q v)).
    rewrite Hb, rq_sub_chunks_exact by lia. lia.
Qed.

Lemma rq_run_exact : forall ops q,
  rq_exact q -> rq_held_bytes q + rq_ops_bytes ops < B63 ->
  rq_exact (rq_run q ops) /\ rq_held_bytes (rq_run q ops) <= rq_held_bytes q + rq_ops_bytes ops.
Proof.
  induction ops as [|o ops IH]; intros q HE HB; cbn [rq_run fold_left].
  - unfold rq_ops_bytes in *. cbn in *. split; [assumption|lia].
  - unfold rq_ops_bytes in *. rewrite gsum_cons in HB.
    pose proof (gsum_nonneg rq_op_bytes ops rq_op_bytes_nonneg).
    destruct (rq_step_exact q o HE) as [H1 H2]; [lia|].
    destruct (IH (rq_step q o) H1) as [H3 H4]; [lia|].
    split; [exact H3|]. rewrite gsum_cons. fold (rq_run (rq_step q o) ops). lia.
Qed.

(* a queue that holds nothing and counts nothing, with any counters / entry limit / mode flag *)
Definition rq_empty (q : rq) : Prop :=
  rq_ordered q = [] /\ rq_unordered q = [] /\ rq_uchunks q = [] /\ rq_orderedMID q = [] /\
  rq_unorderedMID q = [] /\ rq_umidmap q = [] /\ rq_nbytes q = 0.

Lemma rq_empty_exact q : rq_empty q -> rq_exact q /\ rq_held_bytes q = 0.
Proof.
  intros (H1 & H2 & H3 & H4 & H5 & H6 & H7). unfold rq_exact, rq_held_bytes, rq_all_chunks.
  rewrite H1, H2, H3, H4, H5, H6, H7. split; reflexivity.
Qed.

Lemma rq_new_empty si mx : rq_empty (rq_new si mx).
Proof. repeat split. Qed.

Theorem rq_bytes_exact_thm q0 ops :
  rq_empty q0 -> rq_ops_bytes ops < B63 ->
  rq_nbytes (rq_run q0 ops) = rq_held_bytes (rq_run q0 ops).
Proof.
  intros HE HB. destruct (rq_empty_exact q0 HE) as [H1 H2].
  destruct (rq_run_exact ops q0 H1) as [H _]; [lia|exact H].
Qed.

(* no subtractNumBytes call of any step takes the clamp branch *)
Definition rq_step_clamps (q : rq) (o : rq_op) : bool :=
  match o with
  | RqPush _ => false
  | RqRead b => match snd (rq_read q b) with RdOk n _ _ => rq_clamps (rq_nbytes q) n | _ => false end
  | _ => rq_clamps_any (rq_nbytes q) (rq_removed q o)
  end.

Lemma rq_step_no_clamp q o : rq_exact q -> rq_held_bytes q < B63 -> rq_step_clamps q o = false.
Proof.
  unfold rq_exact. intros HE HB. pose proof (held_bytes_nonneg q) as H0.
  destruct o as [c|b|v|v|v|v]; cbn [rq_step_clamps rq_removed]; [reflexivity| | | | |].
  - pose proof (rq_read_conserve q b) as H. destruct (rq_read q b) as [q' r]. cbn [fst snd] in *.
    destruct r as [n ppi del| |]; [|reflexivity|reflexivity]. cbn [read_conserves] in H.
    destruct H as (Hn & Hw & Hb). specialize (Hw rqc_len). change (wq rqc_len) with rq_held_bytes in Hw.
    pose proof (gsum_nonneg rqc_len del rqc_len_nonneg). pose proof (held_bytes_nonneg q').
    unfold rq_clamps, rq_int64, B63 in *. destruct (rq_nbytes q <? 9223372036854775808) eqn:E1; lia.
  - destruct (rq_fwd_ordered_conserve q v) as [Hw _]. specialize (Hw rqc_len). change (wq rqc_len) with rq_held_bytes in Hw.
    pose proof (held_bytes_nonneg (rq_fwd_ordered q v)). apply rq_clamps_any_false; lia.
  - destruct (rq_fwd_unordered_conserve q v) as [Hw _]. specialize (Hw rqc_len). change (wq rqc_len) with rq_held_bytes in Hw.
    pose proof (held_bytes_nonneg (rq_fwd_unordered q v)). apply rq_clamps_any_false; lia.
  - destruct (rq_fwd_ordered_mid_conserve q v) as [Hw _]. specialize (Hw rqc_len). change (wq rqc_len) with rq_held_bytes in Hw.
    pose proof (held_bytes_nonneg (rq_fwd_ordered_mid q v)). apply rq_clamps_any_false; lia.
  - destruct (rq_fwd_unordered_mid_conserve q v) as [Hw _]. specialize (Hw rqc_len). change (wq rqc_len) with rq_held_bytes in Hw.
    pose proof (held_bytes_nonneg (rq_fwd_unordered_mid q v)). apply rq_clamps_any_false; lia.
Qed.

Lemma rq_ops_bytes_app a b : rq_ops_bytes (a ++ b) = rq_ops_bytes a + rq_ops_bytes b.
Proof. apply gsum_app. Qed.

Lemma rq_run_app q a b : rq_run q (a ++ b) = rq_run (rq_run q a) b.
Proof. unfold rq_run. apply fold_left_app. Qed.

Theorem rq_clamp_unreachable_thm q0 ops o :
  rq_empty q0 -> rq_ops_bytes (ops ++ [o]) < B63 ->
  rq_step_clamps (rq_run q0 ops) o = false.
Proof.
  intros HE HB. destruct (rq_empty_exact q0 HE) as [H1 H2].
  rewrite rq_ops_bytes_app in HB. unfold rq_ops_bytes at 2 in HB. cbn in HB.
  pose proof (rq_op_bytes_nonneg o).
  destruct (rq_run_exact ops q0 H1) as [H3 H4]; [lia|].
  apply rq_step_no_clamp; [exact H3|lia].
Qed.

(* counter zero <-> every held chunk has an empty payload; nothing held -> counter zero *)
Lemma gsum_len_zero_iff cs : gsum rqc_len cs = 0 <-> Forall (fun c => rqc_data c = []) cs.
Proof.
  induction cs as [|c t IH]; [split; [constructor|reflexivity]|].
  rewrite gsum_cons. pose proof (rqc_len_nonneg c). pose proof (gsum_nonneg rqc_len t rqc_len_nonneg).
  split.
  - intros H1. constructor.
    + unfold rqc_len in *. destruct (rqc_data c); [reflexivity|cbn [length] in *; lia].
    + apply IH. lia.
  - intros H1. inversion H1 as [|? ? Hc Ht]; subst. apply IH in Ht. unfold rqc_len in *. rewrite Hc. cbn [length]. lia.
Qed.

Theorem rq_counter_zero_iff_thm q0 ops :
  rq_empty q0 -> rq_ops_bytes ops < B63 ->
  (rq_nbytes (rq_run q0 ops) = 0 <-> Forall (fun c => rqc_data c = []) (rq_all_chunks (rq_run q0 ops))).
Proof.
  intros HE HB. rewrite (rq_bytes_exact_thm q0 ops HE HB). apply gsum_len_zero_iff.
Qed.

Theorem rq_drained_thm q0 ops :
  rq_empty q0 -> rq_ops_bytes ops < B63 ->
  rq_all_chunks (rq_run q0 ops) = [] -> rq_nbytes (rq_run q0 ops) = 0.
Proof.
  intros HE HB H. rewrite (rq_bytes_exact_thm q0 ops HE HB). unfold rq_held_bytes. rewrite H. reflexivity.
Qed.

(* ========================================================================================== *)
(* Part 2: messages, well-formedness                                                            *)
(* ========================================================================================== *)

(* a fragment run: first chunk has B, last chunk has E, [key] grows by one (mod 2^32) along it *)
Definition rq_consec (key : rqchunk -> Z) (cs : list rqchunk) : Prop :=
  forall i c d, nth_error cs i = Some c -> nth_error cs (S i) = Some d -> key d = wrap32 (key c + 1).

Definition rq_msg_tsn (cs : list rqchunk) : Prop :=
  exists c0 t, cs = c0 :: t /\ rqc_beg c0 = true /\ rqc_end (last cs c0) = true /\ rq_consec rqc_tsn cs.

Definition rq_msg_fsn (cs : list rqchunk) : Prop :=
  exists c0 t, cs = c0 :: t /\ rqc_beg c0 = true /\ rqc_end (last cs c0) = true /\
               rqc_fsn c0 = 0 /\ rq_consec rqc_fsn cs.

Lemma rq_tsn_consec_iff : forall t c0, rq_tsn_consec (rqc_tsn c0) t = true <-> rq_consec rqc_tsn (c0 :: t).
Proof.
  induction t as [|c t IH]; intros c0; cbn [rq_tsn_consec].
  - split; [|reflexivity]. intros _ i x y H1 H2. destruct i; cbn in H2; [discriminate|destruct i; discriminate].
  - rewrite andb_true_iff, IH. split.
    + intros [E H] i x y H1 H2. destruct i as [|i].
      * cbn in H1, H2. inversion H1; inversion H2; subst. lia.
      * exact (H i x y H1 H2).
    + intros H. split.
      * specialize (H 0%nat c0 c eq_refl eq_refl). lia.
      * intros i x y H1 H2. exact (H (S i) x y H1 H2).
Qed.

Lemma rq_fsn_consec_iff : forall t c0, rq_fsn_consec (rqc_fsn c0) t = true <-> rq_consec rqc_fsn (c0 :: t).
Proof.
  induction t as [|c t IH]; intros c0; cbn [rq_fsn_consec].
  - split; [|reflexivity]. intros _ i x y H1 H2. destruct i; cbn in H2; [discriminate|destruct i; discriminate].
  - rewrite andb_true_iff, IH. split.
    + intros [E H] i x y H1 H2. destruct i as [|i].
      * cbn in H1, H2. inversion H1; inversion H2; subst. lia.
      * exact (H i x y H1 H2).
    + intros H. split.
      * specialize (H 0%nat c0 c eq_refl eq_refl). lia.
      * intros i x y H1 H2. exact (H (S i) x y H1 H2).
Qed.

Lemma rqs_complete_iff cs : rqs_complete cs = true <-> rq_msg_tsn cs.
Proof.
  unfold rqs_complete, rq_msg_tsn. destruct cs as [|c0 t].
  - split; [discriminate|]. intros (c0 & t & H & _). discriminate.
  - rewrite !andb_true_iff, rq_tsn_consec_iff. split.
    + intros [[H1 H2] H3]. exists c0, t. auto.
    + intros (c1 & t1 & E & H1 & H2 & H3). inversion E; subst. auto.
Qed.

Lemma rqm_complete_iff cs : rqm_complete cs = true <-> rq_msg_fsn cs.
Proof.
  unfold rqm_complete, rq_msg_fsn. destruct cs as [|c0 t].
  - split; [discriminate|]. intros (c0 & t & H & _). discriminate.
  - rewrite !andb_true_iff, rq_fsn_consec_iff. split.
    + intros [[[H1 H2] H3] H4]. exists c0, t. repeat split; auto. lia.
    + intros (c1 & t1 & E & H1 & H2 & H3 & H4). inversion E; subst. repeat split; auto. lia.
Qed.

(* in an I-DATA message the i-th fragment carries FSN i *)
Lemma rq_msg_fsn_index cs : rq_msg_fsn cs ->
  forall i c, nth_error cs i = Some c -> rqc_fsn c = wrap32 (Z.of_nat i).
Proof.
  intros (c0 & t & E & _ & _ & H0 & HC). induction i as [|i IH]; intros c H.
  - subst cs. cbn in H. inversion H; subst. rewrite H0. reflexivity.
  - destruct (nth_error cs i) as [x|] eqn:Ex.
    + rewrite (HC i x c Ex H), (IH x eq_refl). unfold wrap32. rewrite Nat2Z.inj_succ.
      rewrite Zplus_mod_idemp_l. reflexivity.
    + exfalso. apply nth_error_None in Ex. assert (X : nth_error cs (S i) <> None) by congruence.
      apply nth_error_Some in X. lia.
Qed.

(* ---------- the run found by findCompleteUnorderedChunkSet is a message ---------- *)
Definition rq_prun (l : list rqchunk) : Prop :=
  match l with [] => True | c0 :: t => rqc_beg c0 = true /\ rq_tsn_consec (rqc_tsn c0) t = true end.

Lemma rq_tsn_consec_snoc : forall t x c,
  rq_tsn_consec x (t ++ [c]) =
  rq_tsn_consec x t && (rqc_tsn c =? wrap32 (fold_left (fun _ d => rqc_tsn d) t x + 1)).
Proof.
  induction t as [|y t IH]; intros x c; cbn [app rq_tsn_consec fold_left].
  - rewrite andb_true_r. reflexivity.
  - rewrite IH. rewrite andb_assoc. reflexivity.
Qed.

Lemma rq_last_tsn_fold : forall l d c0 t, l ++ [d] = c0 :: t ->
  fold_left (fun _ x => rqc_tsn x) t (rqc_tsn c0) = rqc_tsn d.
Proof.
  intros l d c0 t E. destruct l as [|y l].
  - cbn in E. inversion E; subst. reflexivity.
  - cbn in E. inversion E; subst. rewrite fold_left_app. reflexivity.
Qed.

Lemma rq_prun_snoc l d c : rq_prun (l ++ [d]) -> rqc_tsn c = wrap32 (rqc_tsn d + 1) ->
  rq_prun ((l ++ [d]) ++ [c]).
Proof.
  intros H E. destruct (l ++ [d]) as [|c0 t] eqn:El; [destruct l; discriminate|].
  cbn [rq_prun app] in *. destruct H as [H1 H2]. split; [exact H1|].
  rewrite rq_tsn_consec_snoc, H2, (rq_last_tsn_fold l d c0 t El). cbn [andb]. lia.
Qed.

Lemma rq_prun_complete l c : l <> [] -> rq_prun l -> rqc_end c = true ->
  rqc_tsn c = wrap32 (fold_left (fun _ x => rqc_tsn x) (tl l) (rqc_tsn (hd c l)) + 1) ->
  rqs_complete (l ++ [c]) = true.
Proof.
  intros Hn H He Et. destruct l as [|c0 t]; [congruence|]. cbn [rq_prun hd tl] in *.
  destruct H as [H1 H2]. unfold rqs_complete. cbn [app].
  change (c0 :: t ++ [c]) with ((c0 :: t) ++ [c]). rewrite last_last, H1, He.
  rewrite rq_tsn_consec_snoc, H2. cbn [andb]. lia.
Qed.

Lemma rq_find_scan_complete : forall l pre cur b r a,
  rq_find_scan l pre cur = Some (b, r, a) -> rq_prun (rev cur) -> rqs_complete r = true.
Proof.
  induction l as [|c t IH]; intros pre cur b r a H HP; cbn [rq_find_scan] in H; [discriminate|].
  destruct (rqc_beg c) eqn:Eb.
  - destruct (rqc_end c) eqn:Ee.
    + inversion H; subst. unfold rqs_complete. cbn [last rq_tsn_consec]. rewrite Eb, Ee. reflexivity.
    + eapply IH; [eassumption|]. cbn. auto.
  - destruct cur as [|d cur'].
    + eapply IH; [eassumption|exact I].
    + destruct (negb (rqc_tsn c =? wrap32 (rqc_tsn d + 1))) eqn:En.
      * eapply IH; [eassumption|exact I].
      * assert (Et : rqc_tsn c = wrap32 (rqc_tsn d + 1)) by lia.
        destruct (rqc_end c) eqn:Ee.
        -- inversion H; subst. cbn [rev] in *.
           apply rq_prun_complete; [destruct (rev cur'); discriminate|exact HP|exact Ee|].
           destruct (rev cur' ++ [d]) as [|c0 t0] eqn:El; [destruct (rev cur'); discriminate|].
           cbn [hd tl]. rewrite (rq_last_tsn_fold _ _ _ _ El). exact Et.
        -- eapply IH; [eassumption|]. cbn [rev] in *. apply rq_prun_snoc; assumption.
Qed.

Lemma rq_find_complete_spec uc cset rest :
  rq_find_complete uc = Some (Some (cset, rest)) ->
  rqs_complete (rqs_chunks cset) = true /\ Permutation uc (rqs_chunks cset ++ rest).
Proof.
  unfold rq_find_complete. destruct (rq_find_scan uc [] []) as [[[b r] a]|] eqn:E; [|discriminate].
  destruct r as [|c0 r']; [discriminate|]. intros H; inversion H; subst; clear H. cbn [rqs_chunks]. split.
  - eapply rq_find_scan_complete; [eassumption|exact I].
  - apply rq_find_scan_split in E. change (rev [] ++ rev [] ++ uc) with uc in E. rewrite <- E.
    rewrite app_assoc. rewrite (Permutation_app_comm b). rewrite <- app_assoc. reflexivity.
Qed.

(* ---------- well-formedness of a queue ---------- *)
Definition ck_od (si key : Z) (c : rqchunk) : Prop :=
  rqc_ssn c = key /\ rqc_si c = si /\ rqc_unord c = false /\ rqc_idata c = false.
Definition ck_ud (si : Z) (c : rqchunk) : Prop :=
  rqc_si c = si /\ rqc_unord c = true /\ rqc_idata c = false.
Definition ck_om (si key : Z) (c : rqchunk) : Prop :=
  rqc_mid c = key /\ rqc_si c = si /\ rqc_unord c = false /\ rqc_idata c = true.
Definition ck_um (si key : Z) (c : rqchunk) : Prop :=
  rqc_mid c = key /\ rqc_si c = si /\ rqc_unord c = true /\ rqc_idata c = true.

Definition set_od si (s : rqset) : Prop := rqs_chunks s <> [] /\ Forall (ck_od si (rqs_key s)) (rqs_chunks s).
Definition set_ud si (s : rqset) : Prop := rqs_complete (rqs_chunks s) = true /\ Forall (ck_ud si) (rqs_chunks s).
Definition set_om si (s : rqset) : Prop := rqs_chunks s <> [] /\ Forall (ck_om si (rqs_key s)) (rqs_chunks s).
Definition set_umc si (s : rqset) : Prop := rqm_complete (rqs_chunks s) = true /\ Forall (ck_um si (rqs_key s)) (rqs_chunks s).
Definition set_um si (s : rqset) : Prop := Forall (ck_um si (rqs_key s)) (rqs_chunks s).

Definition rq_wf (q : rq) : Prop :=
  Forall (set_od (rq_si q)) (rq_ordered q) /\
  Forall (set_ud (rq_si q)) (rq_unordered q) /\
  Forall (ck_ud (rq_si q)) (rq_uchunks q) /\
  Forall (set_om (rq_si q)) (rq_orderedMID q) /\
  Forall (set_umc (rq_si q)) (rq_unorderedMID q) /\
  Forall (set_um (rq_si q)) (rq_umidmap q).

Lemma rq_empty_wf q : rq_empty q -> rq_wf q.
Proof.
  intros (H1 & H2 & H3 & H4 & H5 & H6 & _). unfold rq_wf. rewrite H1, H2, H3, H4, H5, H6.
  repeat split; constructor.
Qed.

Lemma Forall_snoc {A} (P : A -> Prop) l x : Forall P l -> P x -> Forall P (l ++ [x]).
Proof. intros H1 H2. apply Forall_app. split; [assumption|constructor; [assumption|constructor]]. Qed.

Lemma Forall_filter_keep {A} (P : A -> Prop) f l : Forall P l -> Forall P (filter f l).
Proof.
  intros H. apply Forall_forall. intros x Hx. apply filter_In in Hx. destruct Hx as [Hx _].
  eapply Forall_forall in H; eassumption.
Qed.

Lemma Forall_map_put {P : rqset -> Prop} s m : Forall P m -> P s -> Forall P (rq_map_put s m).
Proof.
  intros H Hs. induction m as [|x t IH]; cbn [rq_map_put]; [constructor; [assumption|constructor]|].
  inversion H; subst. destruct (rqs_key x =? rqs_key s); constructor; auto.
Qed.

Lemma Forall_map_del {P : rqset -> Prop} k m : Forall P m -> Forall P (rq_map_del k m).
Proof.
  intros H. induction m as [|x t IH]; cbn [rq_map_del]; [constructor|].
  inversion H; subst. destruct (rqs_key x =? k); [assumption|constructor; auto].
Qed.

Lemma rq_map_get_in k m s : rq_map_get k m = Some s -> In s m.
Proof. unfold rq_map_get. intros H. apply find_some in H. tauto. Qed.

(* ---------- push preserves well-formedness and never panics ---------- *)
Lemma rq_push_unordered_wf q c :
  rq_wf q -> ck_ud (rq_si q) c ->
  rq_wf (fst (rq_push_unordered q c)) /\ snd (rq_push_unordered q c) <> RqPanic.
Proof.
  intros (W1 & W2 & W3 & W4 & W5 & W6) Hc. unfold rq_push_unordered.
  destruct (rq_has_limit q && rq_limit_reached q (rq_unordered_count q)).
  { split; [repeat split; assumption|discriminate]. }
  assert (HU : Forall (ck_ud (rq_si q)) (rq_isort rq_tsn_lt (rq_uchunks q ++ [c]))).
  { apply rq_isort_Forall, Forall_snoc; assumption. }
  destruct (rq_find_complete (rq_isort rq_tsn_lt (rq_uchunks q ++ [c]))) as [[[cset rest]|]|] eqn:E; cbn [fst snd].
  - apply rq_find_complete_spec in E. destruct E as [E1 E2].
    assert (HP : Forall (ck_ud (rq_si q)) (rqs_chunks cset ++ rest)).
    { eapply Permutation_Forall; eassumption. }
    apply Forall_app in HP. destruct HP as [HP1 HP2].
    split; [|discriminate]. unfold rq_wf, rq_set_q.
    cbn [rq_si rq_ordered rq_unordered rq_uchunks rq_orderedMID rq_unorderedMID rq_umidmap].
    repeat split; try assumption. apply Forall_snoc; [assumption|]. split; assumption.
  - exfalso. exact (rq_find_complete_no_panic _ E).
  - split; [|discriminate]. unfold rq_wf, rq_set_q.
    cbn [rq_si rq_ordered rq_unordered rq_uchunks rq_orderedMID rq_unorderedMID rq_umidmap].
    repeat split; assumption.
Qed.

Lemma rq_split_frag_no_panic ssn si l : Forall (set_od si) l -> rq_split_frag ssn l <> None.
Proof.
  induction 1 as [|s t [Hs _] Ht IH]; cbn [rq_split_frag]; [discriminate|].
  destruct (rq_split_frag ssn t) as [[[[b x] a]|]|]; [| |congruence];
    (destruct (rqs_key s =? ssn); [|discriminate]);
    (destruct (rqs_chunks s) as [|c0 cs]; [congruence|]); destruct (rqc_fragmented c0); discriminate.
Qed.

Lemma rq_push_ordered_wf q c :
  rq_wf q -> rqc_si c = rq_si q -> rqc_unord c = false -> rqc_idata c = false ->
  rq_wf (fst (rq_push_ordered q c)) /\ snd (rq_push_ordered q c) <> RqPanic.
Proof.
  intros (W1 & W2 & W3 & W4 & W5 & W6) Hsi Hu Hi. unfold rq_push_ordered.
  assert (WF : rq_wf q) by (repeat split; assumption).
  destruct (sna16LT (rqc_ssn c) (rq_nextSSN q)); [split; [exact WF|discriminate]|].
  destruct (if rqc_fragmented c then rq_split_frag (rqc_ssn c) (rq_ordered q) else Some None)
    as [found|] eqn:Ef.
  2:{ exfalso. destruct (rqc_fragmented c); [|discriminate].
      exact (rq_split_frag_no_panic _ _ _ W1 Ef). }
  destruct (match found with Some (_, s, _) => rq_has_tsn (rqc_tsn c) (rqs_chunks s) | None => false end);
    [split; [exact WF|discriminate]|].
  destruct (rq_has_limit q && rq_limit_reached q (rq_ordered_count q)); [split; [exact WF|discriminate]|].
  destruct found as [[[before s] after]|]; cbn [fst snd]; (split; [|discriminate]); unfold rq_wf, rq_set_q;
    cbn [rq_si rq_ordered rq_unordered rq_uchunks rq_orderedMID rq_unorderedMID rq_umidmap];
    repeat split; try assumption.
  - destruct (rqc_fragmented c); [|discriminate]. apply rq_split_frag_app in Ef. destruct Ef as [El Ek].
    rewrite El in W1. apply Forall_app in W1. destruct W1 as [Wb Wa]. inversion Wa as [|? ? [Hs1 Hs2] Wa']; subst.
    apply Forall_app. split; [assumption|]. constructor; [|assumption].
    unfold set_od, rq_push_chunk_to_set. cbn [rqs_chunks rqs_key]. split.
    + apply rq_isort_nonempty. destruct (rqs_chunks s); discriminate.
    + apply rq_isort_Forall, Forall_snoc; [assumption|]. repeat split; auto.
  - apply rq_isort_Forall, Forall_snoc; [assumption|]. unfold set_od. cbn [rqs_chunks rqs_key].
    split; [discriminate|]. constructor; [|constructor]. repeat split; auto.
Qed.

Lemma rqm_push_and_check_wf (ck : Z -> rqchunk -> Prop) s c s' comp acc :
  rqm_push_and_check s c = (s', comp, acc) -> Forall (ck (rqs_key s)) (rqs_chunks s) -> ck (rqs_key s) c ->
  Forall (ck (rqs_key s')) (rqs_chunks s') /\ rqs_key s' = rqs_key s /\ (acc = true -> rqs_chunks s' <> []) /\
  (acc = true -> comp = rqm_complete (rqs_chunks s')) /\ (acc = false -> s' = s).
Proof.
  intros H HF Hc. apply rqm_push_and_check_spec in H.
  destruct H as [(-> & -> & ->)|(-> & Hk & HP & Hcomp & _)].
  - repeat split; auto; discriminate.
  - rewrite Hk. repeat split; auto; try discriminate.
    + eapply Permutation_Forall; [symmetry; exact HP|]. constructor; assumption.
    + intros _ E. rewrite E in HP. apply Permutation_nil in HP. discriminate.
Qed.

Lemma rq_push_ordered_idata_wf q c :
  rq_wf q -> rqc_si c = rq_si q -> rqc_unord c = false -> rqc_idata c = true ->
  rq_wf (fst (rq_push_ordered_idata q c)) /\ snd (rq_push_ordered_idata q c) <> RqPanic.
Proof.
  intros (W1 & W2 & W3 & W4 & W5 & W6) Hsi Hu Hi. unfold rq_push_ordered_idata.
  assert (WF : rq_wf q) by (repeat split; assumption).
  destruct (sna32LT (rqc_mid c) (rq_nextMID q)); [split; [exact WF|discriminate]|].
  destruct (rq_split_key (rqc_mid c) (rq_orderedMID q)) as [[[before s] after]|] eqn:Ek.
  - apply rq_split_key_app in Ek. destruct Ek as [El Ek].
    rewrite El in W4. apply Forall_app in W4. destruct W4 as [Wb Wa]. inversion Wa as [|? ? [Hs1 Hs2] Wa']; subst.
    destruct (rqm_push_and_check s c) as [[s' comp] acc] eqn:Ep.
    destruct (rqm_push_and_check_wf (ck_om (rq_si q)) _ _ _ _ _ Ep Hs2) as (F1 & F2 & F3 & _ & _).
    { repeat split; auto. }
    destruct acc; cbn [fst snd]; [|split; [exact WF|discriminate]].
    split; [|discriminate]. unfold rq_wf, rq_set_q.
    cbn [rq_si rq_ordered rq_unordered rq_uchunks rq_orderedMID rq_unorderedMID rq_umidmap].
    repeat split; try assumption. apply Forall_app. split; [assumption|]. constructor; [|assumption].
    split; auto.
  - destruct (rq_limit_reached q (Z.of_nat (length (rq_orderedMID q)))); [split; [exact WF|discriminate]|].
    destruct (rqm_push_and_check (mkRqSet (rqc_mid c) (rqc_ppi c) []) c) as [[s' comp] acc] eqn:Ep.
    destruct (rqm_push_and_check_wf (ck_om (rq_si q)) _ _ _ _ _ Ep) as (F1 & F2 & F3 & _ & _).
    { constructor. } { cbn [rqs_key]. repeat split; auto. }
    assert (acc = true) as ->.
    { unfold rqm_push_and_check in Ep. cbn [rqs_chunks rqm_complete existsb] in Ep. inversion Ep. reflexivity. }
    cbn [fst snd]. split; [|discriminate]. unfold rq_wf, rq_set_q.
    cbn [rq_si rq_ordered rq_unordered rq_uchunks rq_orderedMID rq_unorderedMID rq_umidmap].
    repeat split; try assumption.
    eapply Permutation_Forall; [symmetry; apply rq_insert_by_mid_perm|]. constructor; [|assumption].
    split; auto.
Qed.

Lemma rq_push_unordered_idata_wf q c :
  rq_wf q -> rqc_si c = rq_si q -> rqc_unord c = true -> rqc_idata c = true ->
  rq_wf (fst (rq_push_unordered_idata q c)) /\ snd (rq_push_unordered_idata q c) <> RqPanic.
Proof.
  intros (W1 & W2 & W3 & W4 & W5 & W6) Hsi Hu Hi. unfold rq_push_unordered_idata.
  assert (WF : rq_wf q) by (repeat split; assumption).
  destruct (existsb (fun s => rqs_key s =? rqc_mid c) (rq_unorderedMID q)); [split; [exact WF|discriminate]|].
  set (entry := match rq_map_get (rqc_mid c) (rq_umidmap q) with Some s => Some s | None => _ end).
  assert (HE : forall s, entry = Some s -> rqs_key s = rqc_mid c /\ set_um (rq_si q) s).
  { intros s. unfold entry. destruct (rq_map_get (rqc_mid c) (rq_umidmap q)) as [o|] eqn:G.
    - intros E; inversion E; subst. split; [eapply rq_map_get_key; eassumption|].
      apply rq_map_get_in in G. eapply Forall_forall in W6; eassumption.
    - destruct (rq_limit_reached q _); [discriminate|]. intros E; inversion E; subst.
      split; [reflexivity|constructor]. }
  destruct entry as [s|]; [|split; [exact WF|discriminate]].
  destruct (HE s eq_refl) as [Hk Hs]. clear HE.
  destruct (rqm_push_and_check s c) as [[s' comp] acc] eqn:Ep.
  destruct (rqm_push_and_check_wf (ck_um (rq_si q)) _ _ _ _ _ Ep Hs) as (F1 & F2 & F3 & F4 & F5).
  { rewrite Hk. repeat split; auto. }
  destruct acc; cbn [negb].
  - specialize (F4 eq_refl). destruct comp; cbn [fst snd]; (split; [|discriminate]); unfold rq_wf, rq_set_q;
      cbn [rq_si rq_ordered rq_unordered rq_uchunks rq_orderedMID rq_unorderedMID rq_umidmap];
      repeat split; try assumption.
    + apply Forall_snoc; [assumption|]. split; [symmetry; exact F4|exact F1].
    + apply Forall_map_del. assumption.
    + apply Forall_map_put; assumption.
  - cbn [fst snd]. split; [|discriminate]. unfold rq_wf, rq_set_q.
    cbn [rq_si rq_ordered rq_unordered rq_uchunks rq_orderedMID rq_unorderedMID rq_umidmap].
    repeat split; try assumption. apply Forall_map_put; assumption.
Qed.

Lemma rq_wf_set_inter q : rq_wf q -> rq_wf (rq_set_inter q).
Proof. intros H. exact H. Qed.

Lemma rq_push_wf q c : rq_wf q -> rq_wf (fst (rq_push q c)) /\ snd (rq_push q c) <> RqPanic.
Proof.
  intros W. unfold rq_push. destruct (rqc_idata c) eqn:Ei.
  - destruct (negb (rqc_si c =? rq_si (rq_set_inter q))) eqn:Es; [split; [exact W|discriminate]|].
    assert (rqc_si c = rq_si q) by (cbn [rq_set_inter rq_si] in Es; lia).
    destruct (rqc_unord c) eqn:Eu.
    + apply rq_push_unordered_idata_wf; auto.
    + apply rq_push_ordered_idata_wf; auto.
  - destruct (negb (rqc_si c =? rq_si q)) eqn:Es; [split; [exact W|discriminate]|].
    assert (rqc_si c = rq_si q) by lia.
    destruct (rqc_unord c) eqn:Eu.
    + apply rq_push_unordered_wf; [exact W|]. repeat split; auto.
    + apply rq_push_ordered_wf; auto.
Qed.

Lemma rq_read_wf q b : rq_wf q -> rq_wf (fst (rq_read q b)).
Proof.
  intros (W1 & W2 & W3 & W4 & W5 & W6). assert (WF : rq_wf q) by (repeat split; assumption).
  unfold rq_read. destruct (rq_inter q).
  - destruct (rq_unorderedMID q) as [|s rest] eqn:EU.
    + destruct (rq_orderedMID q) as [|s rest] eqn:EO; [exact WF|].
      destruct (negb (rqm_complete (rqs_chunks s))); [exact WF|].
      destruct (sna32GT (rqs_key s) (rq_nextMID q)); [exact WF|].
      destruct (rq_copy b 0 (rqs_chunks s) false) as [n sh]. destruct sh; [exact WF|].
      cbn [fst]. unfold rq_wf, rq_set_next.
      cbn [rq_si rq_ordered rq_unordered rq_uchunks rq_orderedMID rq_unorderedMID rq_umidmap].
      inversion W4; subst. repeat split; assumption.
    + destruct (rq_copy b 0 (rqs_chunks s) false) as [n sh]. destruct sh; [exact WF|].
      cbn [fst]. unfold rq_wf, rq_set_next.
      cbn [rq_si rq_ordered rq_unordered rq_uchunks rq_orderedMID rq_unorderedMID rq_umidmap].
      inversion W5; subst. repeat split; assumption.
  - destruct (rq_unordered q) as [|s rest] eqn:EU.
    + destruct (rq_ordered q) as [|s rest] eqn:EO; [exact WF|].
      destruct (negb (rqs_complete (rqs_chunks s))); [exact WF|].
      destruct (sna16GT (rqs_key s) (rq_nextSSN q)); [exact WF|].
      destruct (rq_copy b 0 (rqs_chunks s) false) as [n sh]. destruct sh; [exact WF|].
      cbn [fst]. unfold rq_wf, rq_set_next.
      cbn [rq_si rq_ordered rq_unordered rq_uchunks rq_orderedMID rq_unorderedMID rq_umidmap].
      inversion W1; subst. repeat split; assumption.
    + destruct (rq_copy b 0 (rqs_chunks s) false) as [n sh]. destruct sh; [exact WF|].
      cbn [fst]. unfold rq_wf, rq_set_next.
      cbn [rq_si rq_ordered rq_unordered rq_uchunks rq_orderedMID rq_unorderedMID rq_umidmap].
      inversion W2; subst. repeat split; assumption.
Qed.

Lemma rq_fwdu_prefix_Forall (P : rqchunk -> Prop) v l : Forall P l -> Forall P (snd (rq_fwdu_prefix v l)).
Proof.
  intros H. pose proof (rq_fwdu_prefix_app v l) as E. rewrite E in H. apply Forall_app in H. tauto.
Qed.

Lemma rq_step_wf q o : rq_wf q -> rq_wf (rq_step q o).
Proof.
  intros W. destruct o as [c|b|v|v|v|v]; cbn [rq_step].
  - apply rq_push_wf; assumption.
  - apply rq_read_wf; assumption.
  - destruct W as (W1 & W2 & W3 & W4 & W5 & W6). unfold rq_wf, rq_fwd_ordered, rq_set_next.
    cbn [rq_si rq_ordered rq_unordered rq_uchunks rq_orderedMID rq_unorderedMID rq_umidmap].
    repeat split; try assumption. apply Forall_filter_keep; assumption.
  - destruct W as (W1 & W2 & W3 & W4 & W5 & W6). unfold rq_wf, rq_fwd_unordered.
    pose proof (rq_fwdu_prefix_Forall _ v _ W3) as H.
    destruct (rq_fwdu_prefix v (rq_uchunks q)) as [a r].
    cbn [rq_si rq_ordered rq_unordered rq_uchunks rq_orderedMID rq_unorderedMID rq_umidmap snd] in *.
    repeat split; assumption.
  - destruct W as (W1 & W2 & W3 & W4 & W5 & W6). unfold rq_wf, rq_fwd_ordered_mid, rq_set_next.
    cbn [rq_si rq_ordered rq_unordered rq_uchunks rq_orderedMID rq_unorderedMID rq_umidmap].
    repeat split; try assumption. apply Forall_filter_keep; assumption.
  - destruct W as (W1 & W2 & W3 & W4 & W5 & W6). unfold rq_wf, rq_fwd_unordered_mid.
    cbn [rq_si rq_ordered rq_unordered rq_uchunks rq_orderedMID rq_unorderedMID rq_umidmap].
    repeat split; try assumption. apply Forall_filter_keep; assumption.
Qed.

Lemma rq_run_wf : forall ops q, rq_wf q -> rq_wf (rq_run q ops).
Proof.
  induction ops as [|o ops IH]; intros q W; [exact W|]. cbn [rq_run fold_left].
  apply IH, rq_step_wf, W.
Qed.

Theorem rq_wf_reachable_thm q0 ops : rq_empty q0 -> rq_wf (rq_run q0 ops).
Proof. intros H. exact (rq_run_wf ops q0 (rq_empty_wf q0 H)). Qed.

Theorem rq_no_panic_thm q0 ops c : rq_empty q0 -> snd (rq_push (rq_run q0 ops) c) <> RqPanic.
Proof. intros HE. apply rq_push_wf, rq_run_wf, rq_empty_wf, HE. Qed.

(* ------------------------------------------------------------------------------------------ *)
(* what a successful read returns                                                               *)
(* ------------------------------------------------------------------------------------------ *)
(* which container the message came from, and what happened to the cursor *)
Definition rq_read_from (q q' : rq) (ppi : Z) (del : list rqchunk) : Prop :=
  (rq_inter q = false /\ exists s rest, rq_unordered q = s :: rest /\ del = rqs_chunks s /\ ppi = rqs_ppi s /\
     rq_unordered q' = rest /\ rq_ordered q' = rq_ordered q /\ rq_nextSSN q' = rq_nextSSN q) \/
  (rq_inter q = false /\ rq_unordered q = [] /\ exists s rest, rq_ordered q = s :: rest /\ del = rqs_chunks s /\
     ppi = rqs_ppi s /\ rqs_complete del = true /\ sna16GT (rqs_key s) (rq_nextSSN q) = false /\
     rq_ordered q' = rest /\ rq_unordered q' = [] /\
     rq_nextSSN q' = (if rqs_key s =? rq_nextSSN q then wrap16 (rq_nextSSN q + 1) else rq_nextSSN q)) \/
  (rq_inter q = true /\ exists s rest, rq_unorderedMID q = s :: rest /\ del = rqs_chunks s /\ ppi = rqs_ppi s /\
     rq_unorderedMID q' = rest /\ rq_orderedMID q' = rq_orderedMID q /\ rq_nextMID q' = rq_nextMID q) \/
  (rq_inter q = true /\ rq_unorderedMID q = [] /\ exists s rest, rq_orderedMID q = s :: rest /\ del = rqs_chunks s /\
     ppi = rqs_ppi s /\ rqm_complete del = true /\ sna32GT (rqs_key s) (rq_nextMID q) = false /\
     rq_orderedMID q' = rest /\ rq_unorderedMID q' = [] /\
     rq_nextMID q' = (if rqs_key s =? rq_nextMID q then wrap32 (rq_nextMID q + 1) else rq_nextMID q)).

Lemma rq_read_ok_cases q b q' n ppi del :
  rq_read q b = (q', RdOk n ppi del) ->
  n = gsum rqc_len del /\ rq_short b del = false /\ rq_read_from q q' ppi del.
Proof.
  unfold rq_read, rq_read_from. destruct (rq_inter q).
  - destruct (rq_unorderedMID q) as [|s rest] eqn:EU.
    + destruct (rq_orderedMID q) as [|s rest] eqn:EO; [discriminate|].
      destruct (rqm_complete (rqs_chunks s)) eqn:Ec; cbn [negb]; [|discriminate].
      destruct (sna32GT (rqs_key s) (rq_nextMID q)) eqn:Eg; [discriminate|].
      rewrite rq_copy_short_iff. destruct (rq_short b (rqs_chunks s)) eqn:Es; [discriminate|].
      intros H; inversion H; subst; clear H. split; [reflexivity|]. split; [exact Es|].
      right. right. right. split; [reflexivity|]. split; [reflexivity|]. exists s, rest.
      unfold rq_set_next; cbn [rq_orderedMID rq_unorderedMID rq_nextMID]. repeat split; auto.
    + rewrite rq_copy_short_iff. destruct (rq_short b (rqs_chunks s)) eqn:Es; [discriminate|].
      intros H; inversion H; subst; clear H. split; [reflexivity|]. split; [exact Es|].
      right. right. left. split; [reflexivity|]. exists s, rest.
      unfold rq_set_next; cbn [rq_orderedMID rq_unorderedMID rq_nextMID]. repeat split; auto.
  - destruct (rq_unordered q) as [|s rest] eqn:EU.
    + destruct (rq_ordered q) as [|s rest] eqn:EO; [discriminate|].
      destruct (rqs_complete (rqs_chunks s)) eqn:Ec; cbn [negb]; [|discriminate].
      destruct (sna16GT (rqs_key s) (rq_nextSSN q)) eqn:Eg; [discriminate|].
      rewrite rq_copy_short_iff. destruct (rq_short b (rqs_chunks s)) eqn:Es; [discriminate|].
      intros H; inversion H; subst; clear H. split; [reflexivity|]. split; [exact Es|].
      right. left. split; [reflexivity|]. split; [reflexivity|]. exists s, rest.
      unfold rq_set_next; cbn [rq_ordered rq_unordered rq_nextSSN]. repeat split; auto.
    + rewrite rq_copy_short_iff. destruct (rq_short b (rqs_chunks s)) eqn:Es; [discriminate|].
      intros H; inversion H; subst; clear H. split; [reflexivity|]. split; [exact Es|].
      left. split; [reflexivity|]. exists s, rest.
      unfold rq_set_next; cbn [rq_ordered rq_unordered rq_nextSSN]. repeat split; auto.
Qed.

(* the message handed to the application, in a well-formed queue *)
Definition rq_message (si : Z) (q : rq) (del : list rqchunk) : Prop :=
  (rq_inter q = false /\ rq_msg_tsn del /\
     (Forall (ck_ud si) del \/
      exists ssn, Forall (ck_od si ssn) del /\ sna16GT ssn (rq_nextSSN q) = false)) \/
  (rq_inter q = true /\ rq_msg_fsn del /\
     exists mid, Forall (ck_um si mid) del \/
                 (Forall (ck_om si mid) del /\ sna32GT mid (rq_nextMID q) = false)).

Lemma rq_read_message q b q' n ppi del :
  rq_wf q -> rq_read q b = (q', RdOk n ppi del) ->
  n = gsum rqc_len del /\ n <= b /\ rq_message (rq_si q) q del.
Proof.
  intros (W1 & W2 & W3 & W4 & W5 & W6) H. apply rq_read_ok_cases in H. destruct H as (Hn & Hs & HF).
  assert (M : rq_message (rq_si q) q del).
  { unfold rq_message. destruct HF as [(Hi & s & rest & E & -> & _)|[(Hi & _ & s & rest & E & -> & _ & Hc & Hg & _)|
                      [(Hi & s & rest & E & -> & _)|(Hi & _ & s & rest & E & -> & _ & Hc & Hg & _)]]].
    - left. split; [exact Hi|]. rewrite E in W2. inversion W2 as [|? ? [Hc Hk] _]; subst.
      split; [apply rqs_complete_iff; exact Hc|left; exact Hk].
    - left. split; [exact Hi|]. rewrite E in W1. inversion W1 as [|? ? [_ Hk] _]; subst.
      split; [apply rqs_complete_iff; exact Hc|right; exists (rqs_key s); auto].
    - right. split; [exact Hi|]. rewrite E in W5. inversion W5 as [|? ? [Hc Hk] _]; subst.
      split; [apply rqm_complete_iff; exact Hc|exists (rqs_key s); left; exact Hk].
    - right. split; [exact Hi|]. rewrite E in W4. inversion W4 as [|? ? [_ Hk] _]; subst.
      split; [apply rqm_complete_iff; exact Hc|exists (rqs_key s); right; auto]. }
  split; [exact Hn|]. split; [|exact M].
  unfold rq_short in Hs. destruct del as [|c t].
  - exfalso. destruct M as [(_ & (c0 & t0 & E & _) & _)|(_ & (c0 & t0 & E & _) & _)]; discriminate.
  - lia.
Qed.

(* a read that does not deliver leaves the queue untouched; a short buffer is reported exactly
   when the buffer is smaller than the message at the head *)
Lemma rq_read_not_ok_identity q b : 
  match snd (rq_read q b) with RdOk _ _ _ => True | _ => fst (rq_read q b) = q end.
Proof.
  pose proof (rq_read_conserve q b) as H. destruct (rq_read q b) as [q' r]. cbn [fst snd] in *.
  destruct r; cbn [read_conserves] in H; auto.
Qed.

Lemma rq_read_short_spec q b q' n : rq_read q b = (q', RdShort n) -> q' = q /\ b < n.
Proof.
  intros H. pose proof (rq_read_not_ok_identity q b) as HI. rewrite H in HI. cbn [fst snd] in HI.
  split; [exact HI|]. revert H. unfold rq_read.
  assert (X : forall s (qq : Z -> rq) ppi del, (let '(n0, short) := rq_copy b 0 (rqs_chunks s) false in
             if short then (q, RdShort n0) else (qq n0, RdOk n0 ppi del)) = (q', RdShort n) -> b < n).
  { intros s qq ppi del. rewrite rq_copy_short_iff. unfold rq_short. destruct (rqs_chunks s) as [|c t]; [discriminate|].
    destruct (b <? gsum rqc_len (c :: t)) eqn:E; [|discriminate]. intros H; inversion H as [[H1 H2]].
    apply Z.ltb_lt. exact E. }
  destruct (rq_inter q).
  - destruct (rq_unorderedMID q) as [|s rest].
    + destruct (rq_orderedMID q) as [|s rest]; [discriminate|].
      destruct (negb (rqm_complete (rqs_chunks s))); [discriminate|].
      destruct (sna32GT (rqs_key s) (rq_nextMID q)); [discriminate|].
      apply (X s (fun n0 => _)).
    + apply (X s (fun n0 => _)).
  - destruct (rq_unordered q) as [|s rest].
    + destruct (rq_ordered q) as [|s rest]; [discriminate|].
      destruct (negb (rqs_complete (rqs_chunks s))); [discriminate|].
      destruct (sna16GT (rqs_key s) (rq_nextSSN q)); [discriminate|].
      apply (X s (fun n0 => _)).
    + apply (X s (fun n0 => _)).
Qed.

(* ------------------------------------------------------------------------------------------ *)
(* history-level conservation: accepted = delivered + removed + held, as multisets              *)
(* ------------------------------------------------------------------------------------------ *)
Definition rq_accepted (q : rq) (c : rqchunk) : bool :=
  negb (wq (fun _ => 1) (fst (rq_push q c)) =? wq (fun _ => 1) q).

Definition rq_step_acc (q : rq) (o : rq_op) : list rqchunk :=
  match o with RqPush c => if rq_accepted q c then [c] else [] | _ => [] end.
Definition rq_step_del (q : rq) (o : rq_op) : list rqchunk :=
  match o with RqRead b => match snd (rq_read q b) with RdOk _ _ d => d | _ => [] end | _ => [] end.

Fixpoint rq_hist (f : rq -> rq_op -> list rqchunk) (q : rq) (ops : list rq_op) : list rqchunk :=
  match ops with
  | [] => []
  | o :: t => f q o ++ rq_hist f (rq_step q o) t
  end.

Lemma rq_step_conserve w q o :
  wq w q + gsum w (rq_step_acc q o) =
  wq w (rq_step q o) + gsum w (rq_step_del q o) + gsum w (rq_removed q o).
Proof.
  destruct o as [c|b|v|v|v|v]; cbn [rq_step rq_step_acc rq_step_del rq_removed].
  - destruct (rq_push_conserve q c) as [acc [H1 _]]. unfold rq_accepted.
    pose proof (H1 (fun _ => 1)) as HC. cbv beta in HC. rewrite (H1 w).
    destruct acc; [replace (_ =? _) with false by lia|replace (_ =? _) with true by lia]; cbn; lia.
  - pose proof (rq_read_conserve q b) as H. destruct (rq_read q b) as [q' r]. cbn [fst snd] in *.
    destruct r as [n ppi del| |]; cbn [read_conserves] in H.
    + destruct H as (_ & Hw & _). rewrite (Hw w). cbn. lia.
    + subst. cbn. lia.
    + subst. cbn. lia.
  - destruct (rq_fwd_ordered_conserve q v) as [Hw _]. rewrite (Hw w). cbn. lia.
  - destruct (rq_fwd_unordered_conserve q v) as [Hw _]. rewrite (Hw w). cbn. lia.
  - destruct (rq_fwd_ordered_mid_conserve q v) as [Hw _]. rewrite (Hw w). cbn. lia.
  - destruct (rq_fwd_unordered_mid_conserve q v) as [Hw _]. rewrite (Hw w). cbn. lia.
Qed.

Lemma rq_run_conserve w : forall ops q,
  wq w q + gsum w (rq_hist rq_step_acc q ops) =
  wq w (rq_run q ops) + gsum w (rq_hist rq_step_del q ops) + gsum w (rq_hist rq_removed q ops).
Proof.
  induction ops as [|o t IH]; intros q; cbn [rq_hist rq_run fold_left]; [cbn; lia|].
  rewrite !gsum_app. pose proof (rq_step_conserve w q o). specialize (IH (rq_step q o)).
  unfold rq_run in IH. lia.
Qed.

Lemma rqchunk_eq_dec (a b : rqchunk) : {a = b} + {a <> b}.
Proof.
  decide equality; try apply Z.eq_dec; try apply bool_dec. apply list_eq_dec, Z.eq_dec.
Qed.

Lemma gsum_count x l :
  gsum (fun c => if rqchunk_eq_dec c x then 1 else 0) l = Z.of_nat (count_occ rqchunk_eq_dec l x).
Proof.
  induction l as [|c t IH]; [reflexivity|]. rewrite gsum_cons, IH. cbn [count_occ].
  destruct (rqchunk_eq_dec c x); lia.
Qed.

Definition rq_pushed (ops : list rq_op) : list rqchunk :=
  flat_map (fun o => match o with RqPush c => [c] | _ => [] end) ops.

Lemma rq_acc_le_pushed x : forall ops q,
  (count_occ rqchunk_eq_dec (rq_hist rq_step_acc q ops) x <= count_occ rqchunk_eq_dec (rq_pushed ops) x)%nat.
Proof.
  induction ops as [|o t IH]; intros q; cbn [rq_hist rq_pushed flat_map]; [lia|].
  rewrite !count_occ_app. specialize (IH (rq_step q o)). unfold rq_pushed in IH.
  destruct o; cbn [rq_step_acc]; try (cbn [count_occ]; lia).
  destruct (rq_accepted q c); cbn [count_occ]; [lia|]. destruct (rqchunk_eq_dec c x); lia.
Qed.

Theorem rq_conservation_thm q0 ops x :
  rq_empty q0 ->
  let cnt l := count_occ rqchunk_eq_dec l x in
  (cnt (rq_hist rq_step_del q0 ops) + cnt (rq_hist rq_removed q0 ops) + cnt (rq_all_chunks (rq_run q0 ops))
   = cnt (rq_hist rq_step_acc q0 ops))%nat /\
  (cnt (rq_hist rq_step_acc q0 ops) <= cnt (rq_pushed ops))%nat.
Proof.
  intros HE cnt. split; [|apply rq_acc_le_pushed].
  pose proof (rq_run_conserve (fun c => if rqchunk_eq_dec c x then 1 else 0) ops q0) as H.
  unfold wq in H. rewrite !gsum_count in H.
  destruct HE as (H1 & H2 & H3 & H4 & H5 & H6 & _).
  assert (E : rq_all_chunks q0 = []) by (unfold rq_all_chunks; rewrite H1, H2, H3, H4, H5, H6; reflexivity).
  rewrite E in H. cbn [count_occ] in H. unfold cnt. lia.
Qed.

(* ------------------------------------------------------------------------------------------ *)
(* forward operations: exactly what is removed, what is kept, how the cursor moves               *)
(* ------------------------------------------------------------------------------------------ *)
Lemma rq_fwd_ordered_spec q v :
  let q' := rq_fwd_ordered q v in
  rq_ordered q' = filter (fun s => negb (rq_fwdo_drop v s)) (rq_ordered q) /\
  (forall s, In s (rq_ordered q) -> ~ In s (rq_ordered q') ->
             sna16LTE (rqs_key s) v = true /\ rqs_complete (rqs_chunks s) = false) /\
  (forall s, In s (rq_ordered q) -> (rqs_complete (rqs_chunks s) = true \/ sna16LTE (rqs_key s) v = false) ->
             In s (rq_ordered q')) /\
  rq_nextSSN q' = (if sna16LTE (rq_nextSSN q) v then wrap16 (v + 1) else rq_nextSSN q) /\
  rq_unordered q' = rq_unordered q /\ rq_uchunks q' = rq_uchunks q /\ rq_orderedMID q' = rq_orderedMID q /\
  rq_unorderedMID q' = rq_unorderedMID q /\ rq_umidmap q' = rq_umidmap q /\ rq_nextMID q' = rq_nextMID q /\
  rq_inter q' = rq_inter q.
Proof.
  cbv zeta. unfold rq_fwd_ordered, rq_set_next.
  cbn [rq_ordered rq_unordered rq_uchunks rq_orderedMID rq_unorderedMID rq_umidmap rq_nextSSN rq_nextMID rq_inter].
  split; [reflexivity|]. split; [|split; [|repeat split]].
  - intros s Hin Hnot. rewrite filter_In in Hnot. unfold rq_fwdo_drop in *.
    destruct (sna16LTE (rqs_key s) v), (rqs_complete (rqs_chunks s)); cbn in Hnot; auto; exfalso; apply Hnot; auto.
  - intros s Hin Hc. rewrite filter_In. split; [exact Hin|]. unfold rq_fwdo_drop.
    destruct Hc as [-> | ->]; [rewrite andb_false_r|]; reflexivity.
Qed.

Lemma rq_fwd_ordered_mid_spec q v :
  let q' := rq_fwd_ordered_mid q v in
  rq_orderedMID q' = filter (fun s => negb (rq_fwdom_drop v s)) (rq_orderedMID q) /\
  (forall s, In s (rq_orderedMID q) -> ~ In s (rq_orderedMID q') ->
             sna32LTE (rqs_key s) v = true /\ rqm_complete (rqs_chunks s) = false) /\
  (forall s, In s (rq_orderedMID q) -> (rqm_complete (rqs_chunks s) = true \/ sna32LTE (rqs_key s) v = false) ->
             In s (rq_orderedMID q')) /\
  rq_nextMID q' = (if sna32LTE (rq_nextMID q) v then wrap32 (v + 1) else rq_nextMID q) /\
  rq_ordered q' = rq_ordered q /\ rq_unordered q' = rq_unordered q /\ rq_uchunks q' = rq_uchunks q /\
  rq_unorderedMID q' = rq_unorderedMID q /\ rq_umidmap q' = rq_umidmap q /\ rq_nextSSN q' = rq_nextSSN q /\
  rq_inter q' = rq_inter q.
Proof.
  cbv zeta. unfold rq_fwd_ordered_mid, rq_set_next.
  cbn [rq_ordered rq_unordered rq_uchunks rq_orderedMID rq_unorderedMID rq_umidmap rq_nextSSN rq_nextMID rq_inter].
  split; [reflexivity|]. split; [|split; [|repeat split]].
  - intros s Hin Hnot. rewrite filter_In in Hnot. unfold rq_fwdom_drop in *.
    destruct (sna32LTE (rqs_key s) v), (rqm_complete (rqs_chunks s)); cbn in Hnot; auto; exfalso; apply Hnot; auto.
  - intros s Hin Hc. rewrite filter_In. split; [exact Hin|]. unfold rq_fwdom_drop.
    destruct Hc as [-> | ->]; [rewrite andb_false_r|]; reflexivity.
Qed.

Lemma rq_fwdu_prefix_spec v : forall l,
  Forall (fun c => sna32GT (rqc_tsn c) v = false) (fst (rq_fwdu_prefix v l)) /\
  match snd (rq_fwdu_prefix v l) with [] => True | c :: _ => sna32GT (rqc_tsn c) v = true end.
Proof.
  induction l as [|c t IH]; cbn [rq_fwdu_prefix]; [split; [constructor|exact I]|].
  destruct (sna32GT (rqc_tsn c) v) eqn:E; cbn [fst snd]; [split; [constructor|exact E]|].
  destruct (rq_fwdu_prefix v t) as [a b]. cbn [fst snd] in *. destruct IH as [H1 H2].
  split; [constructor; assumption|exact H2].
Qed.

Lemma rq_fwd_unordered_spec q v :
  let q' := rq_fwd_unordered q v in
  rq_uchunks q = rq_fwdu_removed q v ++ rq_uchunks q' /\
  Forall (fun c => sna32GT (rqc_tsn c) v = false) (rq_fwdu_removed q v) /\
  match rq_uchunks q' with [] => True | c :: _ => sna32GT (rqc_tsn c) v = true end /\
  rq_ordered q' = rq_ordered q /\ rq_unordered q' = rq_unordered q /\ rq_orderedMID q' = rq_orderedMID q /\
  rq_unorderedMID q' = rq_unorderedMID q /\ rq_umidmap q' = rq_umidmap q /\
  rq_nextSSN q' = rq_nextSSN q /\ rq_nextMID q' = rq_nextMID q /\ rq_inter q' = rq_inter q.
Proof.
  cbv zeta. unfold rq_fwd_unordered, rq_fwdu_removed.
  pose proof (rq_fwdu_prefix_app v (rq_uchunks q)) as HA. pose proof (rq_fwdu_prefix_spec v (rq_uchunks q)) as [H1 H2].
  destruct (rq_fwdu_prefix v (rq_uchunks q)) as [a b]. cbn [fst snd] in *.
  cbn [rq_ordered rq_unordered rq_uchunks rq_orderedMID rq_unorderedMID rq_umidmap rq_nextSSN rq_nextMID rq_inter].
  repeat split; auto.
Qed.

Lemma rq_fwd_unordered_mid_spec q v :
  let q' := rq_fwd_unordered_mid q v in
  rq_umidmap q' = filter (fun s => negb (sna32LTE (rqs_key s) v)) (rq_umidmap q) /\
  (forall s, In s (rq_umidmap q) -> ~ In s (rq_umidmap q') -> sna32LTE (rqs_key s) v = true) /\
  rq_ordered q' = rq_ordered q /\ rq_unordered q' = rq_unordered q /\ rq_uchunks q' = rq_uchunks q /\
  rq_orderedMID q' = rq_orderedMID q /\ rq_unorderedMID q' = rq_unorderedMID q /\
  rq_nextSSN q' = rq_nextSSN q /\ rq_nextMID q' = rq_nextMID q /\ rq_inter q' = rq_inter q.
Proof.
  cbv zeta. unfold rq_fwd_unordered_mid.
  cbn [rq_ordered rq_unordered rq_uchunks rq_orderedMID rq_unorderedMID rq_umidmap rq_nextSSN rq_nextMID rq_inter].
  split; [reflexivity|]. split; [|repeat split].
  intros s Hin Hnot. rewrite filter_In in Hnot. destruct (sna32LTE (rqs_key s) v); [reflexivity|].
  exfalso. apply Hnot. auto.
Qed.

(* ------------------------------------------------------------------------------------------ *)
(* the stale test of an ordered DATA chunk: which distances ahead of the read cursor survive    *)
(* ------------------------------------------------------------------------------------------ *)
Lemma rq_stale_iff next d : in16 next -> 0 <= d < 65536 ->
  (sna16LT (wrap16 (next + d)) next = true <-> 32768 < d).
Proof.
  intros Hn Hd. rewrite sna16LT_spec; unfold in16, wrap16 in *; lia.
Qed.

Lemma rq_push_ordered_far_ahead_dropped q c d :
  in16 (rq_nextSSN q) -> 32768 < d < 65536 ->
  rqc_idata c = false -> rqc_unord c = false -> rqc_si c = rq_si q ->
  rqc_ssn c = wrap16 (rq_nextSSN q + d) ->
  rq_push q c = (q, RqOk false).
Proof.
  intros Hn Hd Hi Hu Hs Hssn. unfold rq_push. rewrite Hi, Hu.
  replace (negb (rqc_si c =? rq_si q)) with false by lia.
  unfold rq_push_ordered. rewrite Hssn.
  assert (E : sna16LT (wrap16 (rq_nextSSN q + d)) (rq_nextSSN q) = true) by (apply rq_stale_iff; unfold in16 in *; lia).
  rewrite E. reflexivity.
Qed.

Lemma rq_push_ordered_within_span_not_stale q c d :
  in16 (rq_nextSSN q) -> 0 <= d <= 32768 -> rqc_ssn c = wrap16 (rq_nextSSN q + d) ->
  sna16LT (rqc_ssn c) (rq_nextSSN q) = false.
Proof.
  intros Hn Hd ->. destruct (sna16LT (wrap16 (rq_nextSSN q + d)) (rq_nextSSN q)) eqn:E; [|reflexivity].
  apply rq_stale_iff in E; unfold in16 in *; lia.
Qed.

(* ========================================================================================== *)
(* Part 3: the advertised receiver window and admission when the buffer is full                 *)
(* ========================================================================================== *)
Definition zsum (l : list Z) : Z := gsum (fun x => x) l.

Lemma rq_bytes_queued_gen : forall cs acc, 0 <= acc -> Forall (fun n => 0 <= n) cs -> acc + zsum cs < 4294967296 ->
  fold_left (fun a n => wrap32 (a + wrap32 n)) cs acc = acc + zsum cs.
Proof.
  unfold zsum. induction cs as [|n t IH]; intros acc Ha Hf Hb; cbn [fold_left]; [cbn; lia|].
  inversion Hf as [|? ? Hn Ht]; subst. rewrite gsum_cons in Hb |- *.
  pose proof (gsum_nonneg (fun x => x) t) as Hs.
  assert (Hs' : 0 <= gsum (fun x => x) t).
  { clear - Ht. induction Ht as [|x l Hx Hl IHl]; [cbn; lia|]. rewrite gsum_cons. lia. }
  assert (E : wrap32 (acc + wrap32 n) = acc + n) by (unfold wrap32; rewrite !Z.mod_small; lia).
  rewrite E, IH; [lia|lia|assumption|lia].
Qed.

Lemma rq_bytes_queued_exact cs : Forall (fun n => 0 <= n) cs -> zsum cs < 4294967296 ->
  rq_bytes_queued cs = zsum cs.
Proof. intros Hf Hb. unfold rq_bytes_queued. rewrite rq_bytes_queued_gen; [lia|lia|assumption|lia]. Qed.

Lemma zsum_nonneg cs : Forall (fun n => 0 <= n) cs -> 0 <= zsum cs.
Proof. unfold zsum. induction 1 as [|x l Hx Hl IH]; [cbn; lia|]. rewrite gsum_cons. lia. Qed.

(* a_rwnd = max 0 (buffer - sum of the counters), as long as the sum fits in 32 bits *)
Theorem rq_a_rwnd_formula buf cs :
  0 <= buf < 4294967296 -> Forall (fun n => 0 <= n) cs -> zsum cs < 4294967296 ->
  rq_a_rwnd buf cs = Z.max 0 (buf - zsum cs).
Proof.
  intros Hb Hf Hs. unfold rq_a_rwnd. rewrite rq_bytes_queued_exact by assumption.
  pose proof (zsum_nonneg cs Hf). destruct (zsum cs >=? buf) eqn:E; [lia|].
  unfold wrap32. rewrite Z.mod_small; lia.
Qed.

Theorem rq_a_rwnd_full_iff buf cs :
  0 < buf < 4294967296 -> Forall (fun n => 0 <= n) cs -> zsum cs < 4294967296 ->
  (rq_a_rwnd buf cs = buf <-> zsum cs = 0).
Proof.
  intros Hb Hf Hs. rewrite rq_a_rwnd_formula by (try assumption; lia). pose proof (zsum_nonneg cs Hf). lia.
Qed.

Lemma rq_bytes_queued_range cs : 0 <= rq_bytes_queued cs < 4294967296.
Proof.
  unfold rq_bytes_queued.
  assert (G : forall l a, 0 <= a < 4294967296 ->
              0 <= fold_left (fun a n => wrap32 (a + wrap32 n)) l a < 4294967296).
  { induction l as [|n t IH]; intros a0 Ha; cbn [fold_left]; [exact Ha|]. apply IH. unfold wrap32. lia. }
  apply G. lia.
Qed.

Theorem rq_a_rwnd_range buf cs : 0 <= buf < 4294967296 -> 0 <= rq_a_rwnd buf cs <= buf.
Proof.
  intros Hb. unfold rq_a_rwnd. pose proof (rq_bytes_queued_range cs) as H.
  destruct (rq_bytes_queued cs >=? buf) eqn:E; [lia|]. unfold wrap32. rewrite Z.mod_small; lia.
Qed.

(* the receive buffer is full (credit 0): only a chunk strictly below the highest TSN received is
   handed to the stream; with credit left every chunk is *)
Theorem rq_admit_zero_window lastT tsn :
  rq_admit 0 lastT tsn = true -> exists l, lastT = Some l /\ sna32LT tsn l = true.
Proof.
  unfold rq_admit. cbn. destruct lastT as [l|]; [|discriminate]. intros H. exists l. auto.
Qed.

Theorem rq_admit_with_credit credit lastT tsn : 0 < credit -> rq_admit credit lastT tsn = true.
Proof. intros H. unfold rq_admit. replace (credit >? 0) with true by lia. reflexivity. Qed.

(* the window advertised for a set of streams whose queues are reachable from empty queues *)
Definition rq_reachable (q : rq) : Prop :=
  exists q0 ops, rq_empty q0 /\ rq_ops_bytes ops < B63 /\ q = rq_run q0 ops.

Theorem rq_window_formula_thm buf qs :
  0 <= buf < 4294967296 -> Forall rq_reachable qs -> zsum (map rq_held_bytes qs) < 4294967296 ->
  rq_a_rwnd buf (map rq_nbytes qs) = Z.max 0 (buf - zsum (map rq_held_bytes qs)).
Proof.
  intros Hb Hr Hs.
  assert (E : map rq_nbytes qs = map rq_held_bytes qs).
  { apply map_ext_in. intros q Hq. eapply Forall_forall in Hr; [|exact Hq].
    destruct Hr as (q0 & ops & H1 & H2 & ->). apply rq_bytes_exact_thm; assumption. }
  rewrite E. apply rq_a_rwnd_formula; [assumption| |assumption].
  apply Forall_forall. intros n Hn. apply in_map_iff in Hn. destruct Hn as (q & <- & _). apply held_bytes_nonneg.
Qed.

Theorem rq_window_full_when_drained_thm buf qs :
  0 <= buf < 4294967296 -> Forall rq_reachable qs -> Forall (fun q => rq_all_chunks q = []) qs ->
  rq_a_rwnd buf (map rq_nbytes qs) = buf.
Proof.
  intros Hb Hr Hd.
  assert (E : map rq_held_bytes qs = map (fun _ => 0) qs).
  { apply map_ext_in. intros q Hq. eapply Forall_forall in Hd; [|exact Hq]. unfold rq_held_bytes. rewrite Hd. reflexivity. }
  assert (Z0 : zsum (map (fun _ : rq => 0) qs) = 0).
  { unfold zsum. clear. induction qs as [|q t IH]; [reflexivity|]. cbn [map]. rewrite gsum_cons, IH. reflexivity. }
  rewrite rq_window_formula_thm; try assumption; rewrite E, Z0; lia.
Qed.

(* ---------- together with the TSN window of the receive bitmap (RPQ.v) ---------- *)
From Sctp Require Import RPQ.

(* handleData: canPush, then acceptPayloadData (stream lookup aside) *)
Definition rq_assoc_takes (pq : rpq) (credit tsn : Z) : bool :=
  can_push pq tsn && rq_admit credit (last_tsn_received pq) tsn.

Theorem rq_assoc_takes_window pq credit tsn :
  rq_assoc_takes pq credit tsn = true ->
  has_chunk pq tsn = false /\ sna32LTE tsn (cum pq) = false /\
  sna32GT tsn (wrap32 (cum pq + max_off pq)) = false.
Proof.
  unfold rq_assoc_takes, can_push. intros H. apply andb_true_iff in H. destruct H as [H _].
  destruct (has_chunk pq tsn), (sna32LTE tsn (cum pq)), (sna32GT tsn (wrap32 (cum pq + max_off pq)));
    cbn in H; try discriminate. auto.
Qed.

Theorem rq_assoc_takes_zero_window pq tsn :
  rq_assoc_takes pq 0 tsn = true -> size pq <> 0 /\ sna32LT tsn (tail pq) = true.
Proof.
  unfold rq_assoc_takes. intros H. apply andb_true_iff in H. destruct H as [_ H].
  apply rq_admit_zero_window in H. destruct H as (l & E & H). unfold last_tsn_received in E.
  destruct (size pq =? 0) eqn:Es; [discriminate|]. inversion E; subst. split; [lia|exact H].
Qed.

(* ------------------------------------------------------------------------------------------ *)
(* chunks with an empty payload are stored without ever consuming credit (no entry limit set)   *)
(* ------------------------------------------------------------------------------------------ *)
Definition rq_zchunk (t : Z) : rqchunk := mkRqChunk t 0 1 0 0 51 false true true false [].
Definition rq_zhist (n : nat) : list rq_op := map (fun i => RqPush (rq_zchunk (Z.of_nat i))) (seq 0 n).

Definition rq_zinv (q : rq) (n : Z) : Prop :=
  rq_si q = 0 /\ rq_max q = 0 /\ rq_nextSSN q = 0 /\ rq_inter q = false /\ rq_unordered q = [] /\
  Forall (fun s => rqs_key s = 1 /\ rqs_complete (rqs_chunks s) = true) (rq_ordered q) /\
  wq (fun _ => 1) q = n /\ rq_nbytes q = 0.

Lemma rq_zpush q t : rq_si q = 0 -> rq_max q = 0 -> rq_nextSSN q = 0 ->
  fst (rq_push q (rq_zchunk t)) =
  rq_set_q q (rq_isort rq_ssn_lt (rq_ordered q ++ [mkRqSet 1 51 [rq_zchunk t]])) (rq_unordered q) (rq_uchunks q)
           (rq_orderedMID q) (rq_unorderedMID q) (rq_umidmap q) (rq_add_bytes (rq_nbytes q) 0).
Proof.
  intros H1 H2 H3. unfold rq_push.
  change (rqc_idata (rq_zchunk t)) with false. change (rqc_si (rq_zchunk t)) with 0.
  change (rqc_unord (rq_zchunk t)) with false. rewrite H1. change (negb (0 =? 0)) with false. cbv iota.
  unfold rq_push_ordered. change (rqc_ssn (rq_zchunk t)) with 1. rewrite H3.
  change (sna16LT 1 0) with false. change (rqc_fragmented (rq_zchunk t)) with false. cbv iota.
  unfold rq_has_limit. rewrite H2. change (0 >? 0) with false. cbn [andb]. cbv iota. cbn [fst].
  reflexivity.
Qed.

Lemma rq_zstep q n t : rq_zinv q n -> rq_zinv (rq_step q (RqPush (rq_zchunk t))) (n + 1).
Proof.
  intros (H1 & H2 & H3 & H4 & H5 & H6 & H7 & H8). cbn [rq_step]. rewrite rq_zpush by assumption.
  unfold rq_zinv, rq_set_q. cbn [rq_si rq_max rq_nextSSN rq_inter rq_unordered rq_ordered rq_nbytes].
  repeat split; auto.
  - apply rq_isort_Forall, Forall_snoc; [assumption|]. cbn. auto.
  - rewrite wq_unfold in *. cbn [rq_ordered rq_unordered rq_uchunks rq_orderedMID rq_unorderedMID rq_umidmap].
    rewrite wS_isort, wS_app, wS_cons, wS_nil. cbn [rqs_chunks gsum fold_right]. lia.
  - rewrite H8. reflexivity.
Qed.

Theorem rq_zero_length_unbounded_thm : forall n b,
  let q := rq_run (rq_new 0 0) (rq_zhist n) in
  Z.of_nat (length (rq_all_chunks q)) = Z.of_nat n /\ rq_nbytes q = 0 /\ rq_a_rwnd 1048576 [rq_nbytes q] = 1048576 /\
  snd (rq_read q b) = RdTryAgain.
Proof.
  intros n b q.
  assert (HI : rq_zinv q (Z.of_nat n)).
  { subst q. induction n as [|n IH].
    - repeat split; auto. constructor.
    - unfold rq_zhist in *. rewrite seq_S, map_app, rq_run_app. cbn [map rq_run fold_left plus].
      replace (Z.of_nat (S n)) with (Z.of_nat n + 1) by lia. apply rq_zstep. exact IH. }
  destruct HI as (H1 & H2 & H3 & H4 & H5 & H6 & H7 & H8).
  repeat split.
  - rewrite <- H7. unfold wq. clear. induction (rq_all_chunks q) as [|c t IH]; [reflexivity|].
    cbn [length]. rewrite gsum_cons, Nat2Z.inj_succ, IH. lia.
  - exact H8.
  - rewrite H8. reflexivity.
  - unfold rq_read. rewrite H4, H5. destruct (rq_ordered q) as [|s rest]; [reflexivity|].
    inversion H6 as [|? ? [Hk Hc] _]; subst. rewrite Hc, Hk, H3. reflexivity.
Qed.

(* ========================================================================================== *)
(* Part 4: ordered DATA streams release SSNs in non-decreasing order, under the explicit          *)
(*         "fewer than 2^15 messages span" hypothesis (window of the 16-bit serial comparison)   *)
(* ========================================================================================== *)
Definition off16 (b k : Z) : Z := (k - b) mod 65536.
Definition inwin (b k : Z) : Prop := in16 k /\ off16 b k < 32768.

Lemma sna16LT_off b k1 k2 : inwin b k1 -> inwin b k2 -> sna16LT k1 k2 = (off16 b k1 <? off16 b k2).
Proof.
  intros [H1 W1] [H2 W2]. unfold off16 in *.
  destruct (sna16LT k1 k2) eqn:E.
  - apply sna16LT_spec in E; try assumption. unfold in16 in *. lia.
  - destruct ((k1 - b) mod 65536 <? (k2 - b) mod 65536) eqn:E2; [|reflexivity].
    assert (X : sna16LT k1 k2 = true) by (apply sna16LT_spec; try assumption; unfold in16 in *; lia).
    congruence.
Qed.

(* ---------- the transcribed insertion sort sorts, when the comparator is "<" on a key ---------- *)
Section SortCorrect.
  Context {A : Type}.
  Variable f : A -> Z.
  Variable lt : A -> A -> bool.
  Definition desc (l : list A) : Prop := StronglySorted (fun a b => f a >= f b) l.
  Definition asc (l : list A) : Prop := StronglySorted (fun a b => f a <= f b) l.

  Lemma rq_ins_rev_in x rl z : In z (rq_ins_rev lt x rl) <-> z = x \/ In z rl.
  Proof.
    split.
    - intros H. apply (Permutation_in _ (rq_ins_rev_perm lt x rl)) in H. destruct H; auto.
    - intros H. apply (Permutation_in _ (Permutation_sym (rq_ins_rev_perm lt x rl))). destruct H; [left; auto|right; auto].
  Qed.

  Lemma rq_ins_rev_desc x : forall rl,
    (forall y, In y rl -> lt x y = (f x <? f y)) -> desc rl -> desc (rq_ins_rev lt x rl).
  Proof.
    induction rl as [|y t IH]; intros HL HD; cbn [rq_ins_rev].
    - constructor; constructor.
    - inversion HD as [|? ? HDt HFy]; subst. rewrite (HL y (or_introl eq_refl)).
      destruct (f x <? f y) eqn:E.
      + constructor.
        * apply IH; [intros z Hz; apply HL; right; exact Hz|exact HDt].
        * apply Forall_forall. intros z Hz. apply rq_ins_rev_in in Hz. destruct Hz as [->|Hz]; [lia|].
          eapply Forall_forall in HFy; [exact HFy|exact Hz].
      + constructor; [exact HD|]. constructor; [lia|].
        apply Forall_forall. intros z Hz. eapply Forall_forall in HFy; [|exact Hz]. lia.
  Qed.

  Lemma rq_isort_fold_desc : forall l acc,
    (forall x y, In x (l ++ acc) -> In y (l ++ acc) -> lt x y = (f x <? f y)) -> desc acc ->
    desc (fold_left (fun acc x => rq_ins_rev lt x acc) l acc).
  Proof.
    induction l as [|x l IH]; intros acc HL HD; cbn [fold_left]; [exact HD|].
    apply IH.
    - intros a b Ha Hb. apply HL.
      + apply in_app_or in Ha. destruct Ha as [Ha|Ha]; [right; apply in_or_app; left; exact Ha|].
        apply rq_ins_rev_in in Ha. destruct Ha as [->|Ha]; [left; reflexivity|right; apply in_or_app; right; exact Ha].
      + apply in_app_or in Hb. destruct Hb as [Hb|Hb]; [right; apply in_or_app; left; exact Hb|].
        apply rq_ins_rev_in in Hb. destruct Hb as [->|Hb]; [left; reflexivity|right; apply in_or_app; right; exact Hb].
    - apply rq_ins_rev_desc; [|exact HD]. intros y Hy. apply HL; [left; reflexivity|right; apply in_or_app; right; exact Hy].
  Qed.

  Lemma asc_snoc l x : asc l -> Forall (fun a => f a <= f x) l -> asc (l ++ [x]).
  Proof.
    induction l as [|y t IH]; intros HA HF; cbn [app]; [constructor; constructor|].
    inversion HA as [|? ? HAt HFy]; subst. inversion HF as [|? ? Hy HFt]; subst.
    constructor; [apply IH; assumption|]. apply Forall_app. split; [exact HFy|constructor; [exact Hy|constructor]].
  Qed.

  Lemma desc_rev_asc l : desc l -> asc (rev l).
  Proof.
    induction 1 as [|x l HD IH HF]; cbn [rev]; [constructor|].
    apply asc_snoc; [exact IH|]. apply Forall_forall. intros z Hz. apply in_rev in Hz.
    eapply Forall_forall in HF; [|exact Hz]. lia.
  Qed.

  Lemma rq_isort_asc l :
    (forall x y, In x l -> In y l -> lt x y = (f x <? f y)) -> asc (rq_isort lt l).
  Proof.
    intros HL. unfold rq_isort. apply desc_rev_asc. apply rq_isort_fold_desc; [|constructor].
    rewrite app_nil_r. exact HL.
  Qed.
End SortCorrect.

Lemma StronglySorted_weaken {A} (R R' : A -> A -> Prop) l :
  StronglySorted R l -> (forall x y, In x l -> In y l -> R x y -> R' x y) -> StronglySorted R' l.
Proof.
  induction 1 as [|x l HS IH HF]; intros HW; [constructor|]. constructor.
  - apply IH. intros a b Ha Hb. apply HW; right; assumption.
  - apply Forall_forall. intros z Hz. eapply Forall_forall in HF; [|exact Hz].
    apply HW; [left; reflexivity|right; exact Hz|exact HF].
Qed.

Lemma StronglySorted_filter {A} (R : A -> A -> Prop) p l : StronglySorted R l -> StronglySorted R (filter p l).
Proof.
  induction 1 as [|x l HS IH HF]; cbn [filter]; [constructor|]. destruct (p x); [|exact IH].
  constructor; [exact IH|]. apply Forall_filter_keep. exact HF.
Qed.

(* ordered sets listed so that no later set precedes an earlier one *)
Definition rq_krel (k1 k2 : Z) : Prop := sna16LT k2 k1 = false.
Definition rq_osorted (l : list rqset) : Prop := StronglySorted rq_krel (map rqs_key l).

(* ghost: the SSN of the last ordered message delivered *)
Definition rq_ord_delivery (q : rq) (o : rq_op) : option Z :=
  match o with
  | RqRead bl =>
      match snd (rq_read q bl) with
      | RdOk _ _ _ =>
          if rq_inter q then None
          else match rq_unordered q, rq_ordered q with
               | [], s :: _ => Some (rqs_key s)
               | _, _ => None
               end
      | _ => None
      end
  | _ => None
  end.

Definition rq_op_keys (o : rq_op) : list Z :=
  match o with
  | RqPush c => if rqc_idata c || rqc_unord c then [] else [rqc_ssn c]
  | RqFwdO v => [v]
  | _ => []
  end.

(* the span hypothesis for one step: the read cursor, the SSNs of all held ordered sets, the last
   SSN delivered and the SSN named by the operation fit in one half of the 16-bit number space *)
Definition rq_span_ok (q : rq) (L : option Z) (o : rq_op) : Prop :=
  exists b, Forall (inwin b)
    (rq_nextSSN q :: map rqs_key (rq_ordered q) ++ (match L with Some l => [l] | None => [] end) ++ rq_op_keys o).

Definition rq_J (q : rq) (L : option Z) : Prop :=
  rq_osorted (rq_ordered q) /\
  match L with
  | None => True
  | Some l => sna16LT (rq_nextSSN q) l = false /\ Forall (fun s => sna16LT (rqs_key s) l = false) (rq_ordered q)
  end.

Lemma Forall_inwin_in b l k : Forall (inwin b) l -> In k l -> inwin b k.
Proof. intros H Hk. eapply Forall_forall in H; eassumption. Qed.

Lemma rq_osorted_same_keys l l' : map rqs_key l = map rqs_key l' -> rq_osorted l -> rq_osorted l'.
Proof. unfold rq_osorted. intros ->. auto. Qed.

Lemma rq_push_ordered_J q c L :
  rq_J q L -> rq_span_ok q L (RqPush c) -> rqc_idata c = false -> rqc_unord c = false ->
  rq_J (fst (rq_push_ordered q c)) L /\ rq_nextSSN (fst (rq_push_ordered q c)) = rq_nextSSN q.
Proof.
  intros [HS HL] [b HW] Hi Hu. unfold rq_op_keys in HW. rewrite Hi, Hu in HW. cbn [orb] in HW.
  unfold rq_push_ordered.
  destruct (sna16LT (rqc_ssn c) (rq_nextSSN q)) eqn:Est; [split; [split; assumption|reflexivity]|].
  destruct (if rqc_fragmented c then rq_split_frag (rqc_ssn c) (rq_ordered q) else Some None)
    as [found|] eqn:Ef; [|split; [split; assumption|reflexivity]].
  destruct (match found with Some (_, s, _) => rq_has_tsn (rqc_tsn c) (rqs_chunks s) | None => false end);
    [split; [split; assumption|reflexivity]|].
  destruct (rq_has_limit q && rq_limit_reached q (rq_ordered_count q)); [split; [split; assumption|reflexivity]|].
  destruct found as [[[before s] after]|]; cbn [fst]; (split; [|reflexivity]); unfold rq_J, rq_set_q;
    cbn [rq_ordered rq_nextSSN].
  - destruct (rqc_fragmented c); [|discriminate]. apply rq_split_frag_app in Ef. destruct Ef as [El Ek].
    assert (EM : map rqs_key (rq_ordered q) = map rqs_key (before ++ rq_push_chunk_to_set c s :: after)).
    { rewrite El, !map_app. reflexivity. }
    split; [eapply rq_osorted_same_keys; eassumption|].
    destruct L as [l|]; [|exact I]. destruct HL as [HL1 HL2]. split; [exact HL1|].
    rewrite El in HL2. apply Forall_app in HL2. destruct HL2 as [Hb Ha]. inversion Ha; subst.
    apply Forall_app. split; [exact Hb|]. constructor; assumption.
  - (* a new set: the slice is re-sorted *)
    set (cset := mkRqSet (rqc_ssn c) (rqc_ppi c) [c]).
    assert (HWk : forall x, In x (rq_ordered q ++ [cset]) -> inwin b (rqs_key x)).
    { intros x Hx. apply in_app_or in Hx. destruct Hx as [Hx|[<-|[]]].
      - eapply Forall_inwin_in; [exact HW|]. right. apply in_or_app. left. apply in_map. exact Hx.
      - eapply Forall_inwin_in; [exact HW|]. right. apply in_or_app. right. apply in_or_app. right. left. reflexivity. }
    assert (HA : asc (fun s => off16 b (rqs_key s)) (rq_isort rq_ssn_lt (rq_ordered q ++ [cset]))).
    { apply rq_isort_asc. intros x y Hx Hy. unfold rq_ssn_lt. apply sna16LT_off; apply HWk; assumption. }
    split.
    + unfold rq_osorted. unfold asc in HA.
      assert (G : forall l, StronglySorted (fun a b0 => off16 b (rqs_key a) <= off16 b (rqs_key b0)) l ->
                  (forall x, In x l -> inwin b (rqs_key x)) -> StronglySorted rq_krel (map rqs_key l)).
      { induction 1 as [|x l HSl IH HF]; intros HI; cbn [map]; [constructor|]. constructor.
        - apply IH. intros z Hz. apply HI. right. exact Hz.
        - apply Forall_forall. intros k Hk. apply in_map_iff in Hk. destruct Hk as (z & <- & Hz).
          eapply Forall_forall in HF; [|exact Hz]. unfold rq_krel.
          rewrite (sna16LT_off b (rqs_key z) (rqs_key x)); [lia|apply HI; right; exact Hz|apply HI; left; reflexivity]. }
      apply G; [exact HA|]. intros x Hx. apply HWk. apply rq_isort_in in Hx. exact Hx.
    + destruct L as [l|]; [|exact I]. destruct HL as [HL1 HL2]. split; [exact HL1|].
      apply rq_isort_Forall, Forall_snoc; [exact HL2|]. cbn [rqs_key cset].
      assert (Wn : inwin b (rq_nextSSN q)) by (eapply Forall_inwin_in; [exact HW|left; reflexivity]).
      assert (Wl : inwin b l).
      { eapply Forall_inwin_in; [exact HW|]. right. apply in_or_app. right. apply in_or_app. left. left. reflexivity. }
      assert (Wc : inwin b (rqc_ssn c)).
      { eapply Forall_inwin_in; [exact HW|]. right. apply in_or_app. right. apply in_or_app. right. left. reflexivity. }
      rewrite (sna16LT_off b) in Est, HL1 |- * by assumption. lia.
Qed.

Lemma sna16GT_off b k1 k2 : inwin b k1 -> inwin b k2 -> sna16GT k1 k2 = (off16 b k2 <? off16 b k1).
Proof.
  intros [H1 W1] [H2 W2]. unfold off16 in *.
  destruct (sna16GT k1 k2) eqn:E.
  - apply sna16GT_spec in E; try assumption. unfold in16 in *. lia.
  - destruct ((k2 - b) mod 65536 <? (k1 - b) mod 65536) eqn:E2; [|reflexivity].
    assert (X : sna16GT k1 k2 = true) by (apply sna16GT_spec; try assumption; unfold in16 in *; lia).
    congruence.
Qed.

Lemma sna16LTE_off b k1 k2 : inwin b k1 -> inwin b k2 -> sna16LTE k1 k2 = (off16 b k1 <=? off16 b k2).
Proof.
  intros W1 W2. unfold sna16LTE. rewrite (sna16LT_off b) by assumption.
  destruct W1 as [H1 W1], W2 as [H2 W2]. unfold off16, in16 in *. lia.
Qed.

Lemma sna16LT_succ_false b v l : inwin b l -> inwin b v -> off16 b l <= off16 b v ->
  sna16LT (wrap16 (v + 1)) l = false.
Proof.
  intros [H1 W1] [H2 W2] Hle. destruct (sna16LT (wrap16 (v + 1)) l) eqn:E; [|reflexivity].
  apply sna16LT_spec in E; [|unfold in16, wrap16; lia|assumption].
  unfold off16, wrap16, in16 in *. lia.
Qed.

Lemma sna16LT_succ_self k : in16 k -> sna16LT (wrap16 (k + 1)) k = false.
Proof.
  intros H. destruct (sna16LT (wrap16 (k + 1)) k) eqn:E; [|reflexivity].
  apply sna16LT_spec in E; [|unfold in16, wrap16; lia|assumption]. unfold wrap16, in16 in *. lia.
Qed.

Ltac rq_destruct_all :=
  repeat match goal with
         | |- context [match ?x with _ => _ end] => destruct x
         | |- context [if ?x then _ else _] => destruct x
         end.

Lemma rq_push_unordered_keeps q c :
  rq_ordered (fst (rq_push_unordered q c)) = rq_ordered q /\ rq_nextSSN (fst (rq_push_unordered q c)) = rq_nextSSN q.
Proof. unfold rq_push_unordered. rq_destruct_all; split; reflexivity. Qed.

Lemma rq_push_ordered_idata_keeps q c :
  rq_ordered (fst (rq_push_ordered_idata q c)) = rq_ordered q /\
  rq_nextSSN (fst (rq_push_ordered_idata q c)) = rq_nextSSN q.
Proof. unfold rq_push_ordered_idata. rq_destruct_all; split; reflexivity. Qed.

Lemma rq_push_unordered_idata_keeps q c :
  rq_ordered (fst (rq_push_unordered_idata q c)) = rq_ordered q /\
  rq_nextSSN (fst (rq_push_unordered_idata q c)) = rq_nextSSN q.
Proof. unfold rq_push_unordered_idata. rq_destruct_all; split; reflexivity. Qed.

Lemma rq_J_transfer q q' L : rq_ordered q' = rq_ordered q -> rq_nextSSN q' = rq_nextSSN q -> rq_J q L -> rq_J q' L.
Proof. unfold rq_J. intros -> ->. auto. Qed.

Lemma rq_push_J q c L : rq_J q L -> rq_span_ok q L (RqPush c) -> rq_J (fst (rq_push q c)) L.
Proof.
  intros HJ HW. unfold rq_push. destruct (rqc_idata c) eqn:Ei.
  - destruct (negb (rqc_si c =? rq_si (rq_set_inter q))); [exact HJ|].
    destruct (rqc_unord c).
    + destruct (rq_push_unordered_idata_keeps (rq_set_inter q) c) as [E1 E2]. eapply rq_J_transfer; eauto.
    + destruct (rq_push_ordered_idata_keeps (rq_set_inter q) c) as [E1 E2]. eapply rq_J_transfer; eauto.
  - destruct (negb (rqc_si c =? rq_si q)); [exact HJ|].
    destruct (rqc_unord c) eqn:Eu.
    + destruct (rq_push_unordered_keeps q c) as [E1 E2]. eapply rq_J_transfer; eauto.
    + apply rq_push_ordered_J; assumption.
Qed.

Lemma rq_read_inter_keeps q b : rq_inter q = true ->
  rq_ordered (fst (rq_read q b)) = rq_ordered q /\ rq_nextSSN (fst (rq_read q b)) = rq_nextSSN q.
Proof. intros H. unfold rq_read. rewrite H. rq_destruct_all; split; reflexivity. Qed.

Lemma rq_osorted_filter p l : rq_osorted l -> rq_osorted (filter p l).
Proof.
  unfold rq_osorted. induction l as [|s t IH]; intros H; cbn [filter map]; [constructor|].
  cbn [map] in H. inversion H as [|? ? HS HF]; subst. destruct (p s); cbn [map]; [|apply IH; exact HS].
  constructor; [apply IH; exact HS|]. apply Forall_forall. intros k Hk. apply in_map_iff in Hk.
  destruct Hk as (z & <- & Hz). apply filter_In in Hz. destruct Hz as [Hz _].
  eapply Forall_forall in HF; [exact HF|]. apply in_map. exact Hz.
Qed.

Definition rq_next_L (q : rq) (L : option Z) (o : rq_op) : option Z :=
  match rq_ord_delivery q o with Some k => Some k | None => L end.

Lemma rq_step_J q L o :
  rq_J q L -> rq_span_ok q L o ->
  rq_J (rq_step q o) (rq_next_L q L o) /\
  (forall k l, rq_ord_delivery q o = Some k -> L = Some l -> sna16LT k l = false).
Proof.
  intros HJ HW. destruct o as [c|bl|v|v|v|v]; unfold rq_next_L; cbn [rq_step rq_ord_delivery].
  - split; [apply rq_push_J; assumption|discriminate].
  - destruct (rq_inter q) eqn:Ei.
    { destruct (rq_read_inter_keeps q bl Ei) as [E1 E2].
      assert (X : match snd (rq_read q bl) with RdOk _ _ _ => None | _ => None end = @None Z) by (destruct (snd (rq_read q bl)); reflexivity).
      rewrite X. split; [eapply rq_J_transfer; eauto|discriminate]. }
    destruct (rq_read q bl) as [q' r] eqn:ER. cbn [fst snd].
    destruct r as [n ppi del|n|].
    2:{ pose proof (rq_read_not_ok_identity q bl) as HI. rewrite ER in HI. cbn [fst snd] in HI. subst q'. split; [exact HJ|discriminate]. }
    2:{ pose proof (rq_read_not_ok_identity q bl) as HI. rewrite ER in HI. cbn [fst snd] in HI. subst q'. split; [exact HJ|discriminate]. }
    apply rq_read_ok_cases in ER. destruct ER as (_ & _ & HF).
    destruct HF as [(_ & s & rest & EU & _ & _ & _ & EO & EN)|[(_ & EU & s & rest & EO & _ & _ & Hc & Hg & EO' & _ & EN)|
                   [(Hi & _)|(Hi & _)]]]; try congruence.
    + rewrite EU. split; [eapply rq_J_transfer; eauto|discriminate].
    + rewrite EU, EO. destruct HJ as [HS HL]. destruct HW as [b HW]. rewrite EO in HW, HS, HL. cbn [map app] in HW.
      assert (Wn : inwin b (rq_nextSSN q)) by (eapply Forall_inwin_in; [exact HW|left; reflexivity]).
      assert (Ws : inwin b (rqs_key s)) by (eapply Forall_inwin_in; [exact HW|right; left; reflexivity]).
      unfold rq_osorted in HS. cbn [map] in HS. inversion HS as [|? ? HSr HFr].
      split.
      * unfold rq_J. rewrite EO', EN. split; [exact HSr|]. split.
        -- rewrite (sna16GT_off b) in Hg by assumption.
           destruct (rqs_key s =? rq_nextSSN q) eqn:Ek.
           ++ assert (rqs_key s = rq_nextSSN q) as -> by lia. apply sna16LT_succ_self. apply Wn.
           ++ rewrite (sna16LT_off b) by assumption. lia.
        -- apply Forall_forall. intros z Hz. eapply Forall_forall in HFr; [exact HFr|]. apply in_map. exact Hz.
      * intros k l0 Ek El. inversion Ek; subst k. subst L. destruct HL as [_ HL2]. inversion HL2; assumption.
  - split; [|discriminate]. destruct HJ as [HS HL]. destruct HW as [b HW]. unfold rq_J, rq_fwd_ordered, rq_set_next.
    cbn [rq_ordered rq_nextSSN]. split; [apply rq_osorted_filter; exact HS|].
    destruct L as [l|]; [|exact I]. destruct HL as [HL1 HL2]. split; [|apply Forall_filter_keep; exact HL2].
    assert (Wn : inwin b (rq_nextSSN q)) by (eapply Forall_inwin_in; [exact HW|left; reflexivity]).
    assert (Wl : inwin b l).
    { eapply Forall_inwin_in; [exact HW|]. right. apply in_or_app. right. apply in_or_app. left. left. reflexivity. }
    assert (Wv : inwin b v).
    { eapply Forall_inwin_in; [exact HW|]. right. apply in_or_app. right. apply in_or_app. right. left. reflexivity. }
    destruct (sna16LTE (rq_nextSSN q) v) eqn:El; [|exact HL1].
    rewrite (sna16LTE_off b) in El by assumption. rewrite (sna16LT_off b) in HL1 by assumption.
    apply (sna16LT_succ_false b); try assumption. lia.
  - split; [|discriminate]. unfold rq_fwd_unordered. destruct (rq_fwdu_prefix v (rq_uchunks q)). exact HJ.
  - split; [|discriminate]. exact HJ.
  - split; [|discriminate]. exact HJ.
Qed.

(* the SSNs of the ordered messages delivered along a history, each compared with its predecessor *)
Fixpoint rq_ord_deliveries (q : rq) (ops : list rq_op) : list Z :=
  match ops with
  | [] => []
  | o :: t => (match rq_ord_delivery q o with Some k => [k] | None => [] end) ++ rq_ord_deliveries (rq_step q o) t
  end.

Fixpoint rq_span_run (q : rq) (L : option Z) (ops : list rq_op) : Prop :=
  match ops with
  | [] => True
  | o :: t => rq_span_ok q L o /\ rq_span_run (rq_step q o) (rq_next_L q L o) t
  end.

Fixpoint rq_chain (L : option Z) (D : list Z) : Prop :=
  match D with
  | [] => True
  | k :: t => match L with Some l => sna16LT k l = false | None => True end /\ rq_chain (Some k) t
  end.

Lemma rq_run_ordered_release : forall ops q L,
  rq_J q L -> rq_span_run q L ops -> rq_chain L (rq_ord_deliveries q ops).
Proof.
  induction ops as [|o t IH]; intros q L HJ HR; cbn [rq_ord_deliveries]; [exact I|].
  destruct HR as [HW HR]. destruct (rq_step_J q L o HJ HW) as [HJ' HD].
  unfold rq_next_L in *. destruct (rq_ord_delivery q o) as [k|] eqn:Ed; cbn [app rq_chain].
  - split; [destruct L as [l|]; [apply (HD k l); reflexivity|exact I]|]. apply IH; assumption.
  - apply IH; assumption.
Qed.

Theorem rq_ordered_release_thm q0 ops :
  rq_empty q0 -> rq_span_run q0 None ops -> rq_chain None (rq_ord_deliveries q0 ops).
Proof.
  intros HE HR. apply rq_run_ordered_release; [|exact HR].
  destruct HE as (H1 & _). unfold rq_J, rq_osorted. rewrite H1. split; [constructor|exact I].
Qed.

(* boolean form of the span hypothesis (one window base per step), for examples *)
Definition inwinb (b k : Z) : bool := (0 <=? k) && (k <? 65536) && (off16 b k <? 32768).

Lemma inwinb_sound b l : forallb (inwinb b) l = true -> Forall (inwin b) l.
Proof.
  intros H. apply Forall_forall. intros k Hk. rewrite forallb_forall in H. specialize (H k Hk).
  unfold inwinb, inwin, in16 in *. lia.
Qed.

Fixpoint rq_span_runb (bs : list Z) (q : rq) (L : option Z) (ops : list rq_op) : bool :=
  match ops, bs with
  | [], _ => true
  | o :: t, b :: bt =>
      forallb (inwinb b) (rq_nextSSN q :: map rqs_key (rq_ordered q) ++
                          (match L with Some l => [l] | None => [] end) ++ rq_op_keys o) &&
      rq_span_runb bt (rq_step q o) (rq_next_L q L o) t
  | _ :: _, [] => false
  end.

Lemma rq_span_runb_sound : forall ops bs q L, rq_span_runb bs q L ops = true -> rq_span_run q L ops.
Proof.
  induction ops as [|o t IH]; intros bs q L H; cbn [rq_span_run]; [exact I|].
  destruct bs as [|b bt]; cbn [rq_span_runb] in H; [discriminate|].
  apply andb_true_iff in H. destruct H as [H1 H2]. split; [|eapply IH; exact H2].
  exists b. apply inwinb_sound. exact H1.
Qed.

(* ========================================================================================== *)
(* Part 5: with an entry limit configured, the number of DATA chunks held per class is bounded   *)
(* ========================================================================================== *)
Definition cnt1 (_ : rqchunk) : Z := 1.

Lemma rq_nchunks_gen : forall l a,
  fold_left (fun n s => n + Z.of_nat (length (rqs_chunks s))) l a = a + wS cnt1 l.
Proof.
  induction l as [|s t IH]; intros a; cbn [fold_left]; [rewrite wS_nil; lia|].
  rewrite IH, wS_cons.
  assert (E : gsum cnt1 (rqs_chunks s) = Z.of_nat (length (rqs_chunks s))).
  { induction (rqs_chunks s) as [|c cs IHc]; [reflexivity|]. rewrite gsum_cons, IHc. cbn [length]. unfold cnt1. lia. }
  lia.
Qed.

Lemma gsum_cnt1_len cs : gsum cnt1 cs = Z.of_nat (length cs).
Proof. induction cs as [|c t IH]; [reflexivity|]. rewrite gsum_cons, IH. cbn [length]. unfold cnt1. lia. Qed.

Lemma rq_ordered_count_wS q : rq_ordered_count q = wS cnt1 (rq_ordered q).
Proof. unfold rq_ordered_count, rq_nchunks. rewrite rq_nchunks_gen. lia. Qed.

Lemma rq_unordered_count_wS q : rq_unordered_count q = gsum cnt1 (rq_uchunks q) + wS cnt1 (rq_unordered q).
Proof. unfold rq_unordered_count. rewrite rq_nchunks_gen, gsum_cnt1_len. reflexivity. Qed.

Lemma wS_cnt1_nonneg l : 0 <= wS cnt1 l.
Proof. unfold wS. apply gsum_nonneg. intros s. apply gsum_nonneg. intros c. unfold cnt1. lia. Qed.
Lemma gsum_cnt1_nonneg l : 0 <= gsum cnt1 l.
Proof. apply gsum_nonneg. intros c. unfold cnt1. lia. Qed.

Definition rq_counts_le (q' q : rq) : Prop :=
  rq_ordered_count q' <= rq_ordered_count q /\ rq_unordered_count q' <= rq_unordered_count q.

Definition rq_counts_step (q' q : rq) : Prop :=
  (rq_ordered_count q' <= rq_ordered_count q \/
   (rq_ordered_count q' = rq_ordered_count q + 1 /\ rq_ordered_count q < rq_max q)) /\
  (rq_unordered_count q' <= rq_unordered_count q \/
   (rq_unordered_count q' = rq_unordered_count q + 1 /\ rq_unordered_count q < rq_max q)).

Lemma rq_counts_step_refl q : rq_counts_step q q.
Proof. split; left; lia. Qed.

Lemma rq_push_ordered_idata_keeps_u q c :
  rq_unordered (fst (rq_push_ordered_idata q c)) = rq_unordered q /\
  rq_uchunks (fst (rq_push_ordered_idata q c)) = rq_uchunks q.
Proof. unfold rq_push_ordered_idata. rq_destruct_all; split; reflexivity. Qed.

Lemma rq_push_unordered_idata_keeps_u q c :
  rq_unordered (fst (rq_push_unordered_idata q c)) = rq_unordered q /\
  rq_uchunks (fst (rq_push_unordered_idata q c)) = rq_uchunks q.
Proof. unfold rq_push_unordered_idata. rq_destruct_all; split; reflexivity. Qed.

Lemma rq_counts_step_same q q' :
  rq_ordered q' = rq_ordered q -> rq_unordered q' = rq_unordered q -> rq_uchunks q' = rq_uchunks q ->
  rq_counts_step q' q.
Proof.
  intros E1 E2 E3. unfold rq_counts_step. rewrite !rq_ordered_count_wS, !rq_unordered_count_wS, E1, E2, E3.
  split; left; lia.
Qed.

Lemma rq_push_counts q c : 0 < rq_max q -> rq_counts_step (fst (rq_push q c)) q.
Proof.
  intros Hm. unfold rq_push. destruct (rqc_idata c).
  - destruct (negb (rqc_si c =? rq_si (rq_set_inter q))); [apply rq_counts_step_same; reflexivity|].
    destruct (rqc_unord c).
    + destruct (rq_push_unordered_idata_keeps (rq_set_inter q) c) as [E1 _].
      destruct (rq_push_unordered_idata_keeps_u (rq_set_inter q) c) as [E2 E3].
      apply rq_counts_step_same; assumption.
    + destruct (rq_push_ordered_idata_keeps (rq_set_inter q) c) as [E1 _].
      destruct (rq_push_ordered_idata_keeps_u (rq_set_inter q) c) as [E2 E3].
      apply rq_counts_step_same; assumption.
  - destruct (negb (rqc_si c =? rq_si q)); [apply rq_counts_step_refl|].
    destruct (rqc_unord c).
    + (* unordered DATA *)
      unfold rq_push_unordered, rq_has_limit, rq_limit_reached, isReassemblyQueueLimitReached.
      replace (rq_max q >? 0) with true by lia. cbn [andb].
      destruct (rq_unordered_count q >=? rq_max q) eqn:El; [apply rq_counts_step_refl|].
      unfold rq_counts_step.
      destruct (rq_find_complete (rq_isort rq_tsn_lt (rq_uchunks q ++ [c]))) as [[[cset rest]|]|] eqn:E; cbn [fst];
        rewrite !rq_ordered_count_wS, !rq_unordered_count_wS; unfold rq_set_q; cbn [rq_ordered rq_unordered rq_uchunks];
        (split; [left; lia|right]).
      * apply (rq_find_complete_sum cnt1) in E. rewrite gsum_isort, gsum_app in E. cbn [gsum fold_right] in E.
        rewrite wS_app, wS_cons, wS_nil. rewrite rq_unordered_count_wS in El. change (cnt1 c) with 1 in E. lia.
      * rewrite gsum_isort, gsum_app. cbn [gsum fold_right]. rewrite rq_unordered_count_wS in El. change (cnt1 c) with 1. lia.
      * rewrite gsum_isort, gsum_app. cbn [gsum fold_right]. rewrite rq_unordered_count_wS in El. change (cnt1 c) with 1. lia.
    + (* ordered DATA *)
      unfold rq_push_ordered.
      destruct (sna16LT (rqc_ssn c) (rq_nextSSN q)); [apply rq_counts_step_refl|].
      destruct (if rqc_fragmented c then rq_split_frag (rqc_ssn c) (rq_ordered q) else Some None)
        as [found|] eqn:Ef; [|apply rq_counts_step_refl].
      destruct (match found with Some (_, s, _) => rq_has_tsn (rqc_tsn c) (rqs_chunks s) | None => false end);
        [apply rq_counts_step_refl|].
      unfold rq_has_limit, rq_limit_reached, isReassemblyQueueLimitReached.
      replace (rq_max q >? 0) with true by lia. cbn [andb].
      destruct (rq_ordered_count q >=? rq_max q) eqn:El; [apply rq_counts_step_refl|].
      unfold rq_counts_step.
      destruct found as [[[before s] after]|]; cbn [fst];
        rewrite !rq_ordered_count_wS, !rq_unordered_count_wS; unfold rq_set_q; cbn [rq_ordered rq_unordered rq_uchunks];
        (split; [right|left; lia]); rewrite rq_ordered_count_wS in El.
      * destruct (rqc_fragmented c); [|discriminate]. apply rq_split_frag_app in Ef. destruct Ef as [Ef _].
        rewrite Ef in *. rewrite !wS_app, !wS_cons in *. unfold rq_push_chunk_to_set. cbn [rqs_chunks].
        rewrite gsum_isort, gsum_app. cbn [gsum fold_right]. change (cnt1 c) with 1. lia.
      * rewrite wS_isort, wS_app, wS_cons, wS_nil. cbn [rqs_chunks gsum fold_right]. change (cnt1 c) with 1. lia.
Qed.

Lemma rq_read_counts q b : rq_counts_le (fst (rq_read q b)) q.
Proof.
  unfold rq_counts_le. rewrite !rq_ordered_count_wS, !rq_unordered_count_wS.
  unfold rq_read. destruct (rq_inter q).
  - destruct (rq_unorderedMID q) as [|s rest].
    + destruct (rq_orderedMID q) as [|s rest]; [cbn [fst]; lia|].
      destruct (negb (rqm_complete (rqs_chunks s))); [cbn [fst]; lia|].
      destruct (sna32GT (rqs_key s) (rq_nextMID q)); [cbn [fst]; lia|].
      destruct (rq_copy b 0 (rqs_chunks s) false) as [n sh]. destruct sh; cbn [fst]; [lia|].
      unfold rq_set_next. cbn [rq_ordered rq_unordered rq_uchunks]. lia.
    + destruct (rq_copy b 0 (rqs_chunks s) false) as [n sh]. destruct sh; cbn [fst]; [lia|].
      unfold rq_set_next. cbn [rq_ordered rq_unordered rq_uchunks]. lia.
  - destruct (rq_unordered q) as [|s rest] eqn:EU.
    + destruct (rq_ordered q) as [|s rest] eqn:EO; [cbn [fst]; rewrite EU, EO; lia|].
      destruct (negb (rqs_complete (rqs_chunks s))); [cbn [fst]; rewrite EU, EO; lia|].
      destruct (sna16GT (rqs_key s) (rq_nextSSN q)); [cbn [fst]; rewrite EU, EO; lia|].
      destruct (rq_copy b 0 (rqs_chunks s) false) as [n sh]. destruct sh; cbn [fst]; [rewrite EU, EO; lia|].
      unfold rq_set_next. cbn [rq_ordered rq_unordered rq_uchunks]. rewrite wS_cons.
      pose proof (gsum_cnt1_nonneg (rqs_chunks s)). lia.
    + destruct (rq_copy b 0 (rqs_chunks s) false) as [n sh]. destruct sh; cbn [fst]; [rewrite EU; lia|].
      unfold rq_set_next. cbn [rq_ordered rq_unordered rq_uchunks]. rewrite wS_cons.
      pose proof (gsum_cnt1_nonneg (rqs_chunks s)). lia.
Qed.

Lemma rq_step_counts q o : 0 < rq_max q -> rq_counts_step (rq_step q o) q /\ rq_max (rq_step q o) = rq_max q.
Proof.
  intros Hm. destruct o as [c|b|v|v|v|v]; cbn [rq_step].
  - split; [apply rq_push_counts; exact Hm|].
    unfold rq_push, rq_push_unordered, rq_push_ordered, rq_push_ordered_idata, rq_push_unordered_idata.
    rq_destruct_all; reflexivity.
  - destruct (rq_read_counts q b) as [H1 H2]. split; [split; left; assumption|].
    unfold rq_read. rq_destruct_all; reflexivity.
  - split; [|reflexivity]. unfold rq_counts_step. rewrite !rq_ordered_count_wS, !rq_unordered_count_wS.
    unfold rq_fwd_ordered, rq_set_next. cbn [rq_ordered rq_unordered rq_uchunks].
    pose proof (gsum_filter_split (fun s => gsum cnt1 (rqs_chunks s)) (rq_fwdo_drop v) (rq_ordered q)) as H.
    pose proof (wS_cnt1_nonneg (filter (rq_fwdo_drop v) (rq_ordered q))) as H0. unfold wS in *.
    split; left; lia.
  - split; [|unfold rq_fwd_unordered; destruct (rq_fwdu_prefix v (rq_uchunks q)); reflexivity].
    unfold rq_counts_step. rewrite !rq_ordered_count_wS, !rq_unordered_count_wS.
    unfold rq_fwd_unordered. pose proof (rq_fwdu_prefix_app v (rq_uchunks q)) as HA.
    destruct (rq_fwdu_prefix v (rq_uchunks q)) as [a r]. cbn [fst snd rq_ordered rq_unordered rq_uchunks] in *.
    rewrite HA, gsum_app. pose proof (gsum_cnt1_nonneg a). split; left; lia.
  - split; [|reflexivity]. apply rq_counts_step_same; reflexivity.
  - split; [|reflexivity]. apply rq_counts_step_same; reflexivity.
Qed.

Theorem rq_entry_limit_thm : forall ops q,
  0 < rq_max q -> rq_ordered_count q <= rq_max q -> rq_unordered_count q <= rq_max q ->
  rq_ordered_count (rq_run q ops) <= rq_max q /\ rq_unordered_count (rq_run q ops) <= rq_max q.
Proof.
  induction ops as [|o t IH]; intros q Hm H1 H2; cbn [rq_run fold_left]; [split; assumption|].
  destruct (rq_step_counts q o Hm) as [[HS1 HS2] HM].
  fold (rq_run (rq_step q o) t). rewrite <- HM. apply IH; rewrite HM; try assumption.
  - destruct HS1 as [|[-> ?]]; lia.
  - destruct HS2 as [|[-> ?]]; lia.
Qed.

(* when the limit is reached a further DATA chunk that would need a new entry is refused with the
   error that makes the association abort *)
Lemma rq_entry_limit_error q c :
  0 < rq_max q -> rqc_idata c = false -> rqc_si c = rq_si q -> rqc_unord c = true ->
  rq_max q <= rq_unordered_count q -> rq_push q c = (q, RqErrLimit).
Proof.
  intros Hm Hi Hs Hu Hc. unfold rq_push. rewrite Hi, Hu. replace (negb (rqc_si c =? rq_si q)) with false by lia.
  unfold rq_push_unordered, rq_has_limit, rq_limit_reached, isReassemblyQueueLimitReached.
  replace (rq_max q >? 0) with true by lia. replace (rq_unordered_count q >=? rq_max q) with true by lia.
  reflexivity.
Qed.

(* ========================================================================================== *)
(* Part 6: with non-empty payloads the number of chunks held is bounded by the byte counter      *)
(* ========================================================================================== *)
Lemma count_occ_pos_In x l : (0 < count_occ rqchunk_eq_dec l x)%nat <-> In x l.
Proof. symmetry. apply count_occ_In. Qed.

Lemma rq_held_were_pushed q0 ops x :
  rq_empty q0 -> In x (rq_all_chunks (rq_run q0 ops)) -> In x (rq_pushed ops).
Proof.
  intros HE Hx. destruct (rq_conservation_thm q0 ops x HE) as [H1 H2]. cbv zeta in *.
  apply (count_occ_In rqchunk_eq_dec) in Hx. apply (count_occ_In rqchunk_eq_dec). lia.
Qed.

Lemma gsum_len_ge_length cs : Forall (fun c => 0 < rqc_len c) cs -> Z.of_nat (length cs) <= gsum rqc_len cs.
Proof.
  induction 1 as [|c t Hc Ht IH]; [cbn; lia|]. rewrite gsum_cons. cbn [length]. lia.
Qed.

Theorem rq_chunks_le_counter_thm q0 ops :
  rq_empty q0 -> rq_ops_bytes ops < B63 -> Forall (fun c => 0 < rqc_len c) (rq_pushed ops) ->
  Z.of_nat (length (rq_all_chunks (rq_run q0 ops))) <= rq_nbytes (rq_run q0 ops).
Proof.
  intros HE HB HP. rewrite (rq_bytes_exact_thm q0 ops HE HB). unfold rq_held_bytes.
  change (rq_sum_len (rq_all_chunks (rq_run q0 ops))) with (gsum rqc_len (rq_all_chunks (rq_run q0 ops))).
  apply gsum_len_ge_length. apply Forall_forall. intros x Hx.
  eapply Forall_forall in HP; [exact HP|]. eapply rq_held_were_pushed; eassumption.
Qed.

(* consequence for the streams of an association: chunks held <= buffer - a_rwnd while credit is left *)
Theorem rq_chunks_le_buffer_thm buf qs :
  0 <= buf < 4294967296 ->
  Forall (fun q => exists q0 ops, rq_empty q0 /\ rq_ops_bytes ops < B63 /\
                   Forall (fun c => 0 < rqc_len c) (rq_pushed ops) /\ q = rq_run q0 ops) qs ->
  zsum (map rq_held_bytes qs) < 4294967296 ->
  0 < rq_a_rwnd buf (map rq_nbytes qs) ->
  zsum (map (fun q => Z.of_nat (length (rq_all_chunks q))) qs) <= buf - rq_a_rwnd buf (map rq_nbytes qs).
Proof.
  intros Hb Hr Hs Hw.
  assert (Hreach : Forall rq_reachable qs).
  { apply Forall_forall. intros q Hq. eapply Forall_forall in Hr; [|exact Hq].
    destruct Hr as (q0 & ops & H1 & H2 & _ & H4). exists q0, ops. auto. }
  rewrite (rq_window_formula_thm buf qs Hb Hreach Hs) in *.
  assert (Hle : zsum (map (fun q => Z.of_nat (length (rq_all_chunks q))) qs) <= zsum (map rq_held_bytes qs)).
  { clear Hs Hw Hreach. unfold zsum. induction qs as [|q t IH]; [cbn; lia|]. cbn [map]. rewrite !gsum_cons.
    inversion Hr as [|? ? Hq Ht]; subst. specialize (IH Ht).
    destruct Hq as (q0 & ops & H1 & H2 & H3 & ->).
    pose proof (rq_chunks_le_counter_thm q0 ops H1 H2 H3) as HC.
    rewrite (rq_bytes_exact_thm q0 ops H1 H2) in HC. lia. }
  lia.
Qed.

(* ========================================================================================== *)
(* Part 7: the window counts the unread data of streams the peer has reset (243f816)             *)
(* ========================================================================================== *)
Lemma zsum_app a b : zsum (a ++ b) = zsum a + zsum b.
Proof. apply gsum_app. Qed.

Lemma rq_reachable_counter q : rq_reachable q -> rq_nbytes q = rq_held_bytes q /\ 0 <= rq_held_bytes q.
Proof.
  intros (q0 & ops & H1 & H2 & ->). split; [apply rq_bytes_exact_thm; assumption|apply held_bytes_nonneg].
Qed.

Lemma rq_counters_are_held qs : Forall rq_reachable qs -> map rq_nbytes qs = map rq_held_bytes qs.
Proof.
  intros H. apply map_ext_in. intros q Hq. eapply Forall_forall in H; [|exact Hq]. apply rq_reachable_counter, H.
Qed.

Lemma rq_filter_nonempty_sum qs : Forall rq_reachable qs ->
  zsum (map rq_nbytes (filter (fun q => rq_nbytes q >? 0) qs)) = zsum (map rq_held_bytes qs).
Proof.
  induction 1 as [|q t Hq Ht IH]; [reflexivity|]. cbn [filter map].
  destruct (rq_reachable_counter q Hq) as [E N]. unfold zsum in *. rewrite gsum_cons.
  destruct (rq_nbytes q >? 0) eqn:Ep; cbn [map]; rewrite ?gsum_cons, IH; lia.
Qed.

Theorem rq_credit_formula_thm buf mapq detq :
  0 <= buf < 4294967296 -> Forall rq_reachable mapq -> Forall rq_reachable detq ->
  zsum (map rq_held_bytes mapq) + zsum (map rq_held_bytes detq) < 4294967296 ->
  rq_credit buf mapq detq = Z.max 0 (buf - zsum (map rq_held_bytes mapq) - zsum (map rq_held_bytes detq)).
Proof.
  intros Hb Hm Hd Hs. unfold rq_credit.
  assert (Hnn : Forall (fun n => 0 <= n) (map rq_nbytes mapq ++ map rq_nbytes (filter (fun q => rq_nbytes q >? 0) detq))).
  { apply Forall_app. split; apply Forall_forall; intros n Hn; apply in_map_iff in Hn; destruct Hn as (q & <- & Hq).
    - eapply Forall_forall in Hm; [|exact Hq]. destruct (rq_reachable_counter q Hm). lia.
    - apply filter_In in Hq. lia. }
  assert (Es : zsum (map rq_nbytes mapq ++ map rq_nbytes (filter (fun q => rq_nbytes q >? 0) detq)) =
               zsum (map rq_held_bytes mapq) + zsum (map rq_held_bytes detq)).
  { rewrite zsum_app, (rq_counters_are_held mapq Hm), (rq_filter_nonempty_sum detq Hd). reflexivity. }
  rewrite rq_a_rwnd_formula; [rewrite Es; lia|assumption|assumption|lia].
Qed.

(* performing an inbound reset does not change the window: the bytes move from the map to the detached list *)
Theorem rq_credit_reset_thm buf l1 q l2 detq :
  0 <= buf < 4294967296 -> Forall rq_reachable (l1 ++ q :: l2) -> Forall rq_reachable detq ->
  zsum (map rq_held_bytes (l1 ++ q :: l2)) + zsum (map rq_held_bytes detq) < 4294967296 ->
  rq_credit buf (l1 ++ l2) (rq_detach q detq) = rq_credit buf (l1 ++ q :: l2) detq.
Proof.
  intros Hb Hm Hd Hs.
  assert (Hq : rq_reachable q) by (apply Forall_app in Hm; destruct Hm as [_ H]; inversion H; assumption).
  assert (Hm' : Forall rq_reachable (l1 ++ l2)).
  { apply Forall_app in Hm. destruct Hm as [A B]. inversion B; subst. apply Forall_app. split; assumption. }
  destruct (rq_reachable_counter q Hq) as [Eq Nq].
  assert (Hd' : Forall rq_reachable (rq_detach q detq)).
  { unfold rq_detach. destruct (rq_nbytes q >? 0); [apply Forall_snoc|]; assumption. }
  assert (Ed : zsum (map rq_held_bytes (rq_detach q detq)) = zsum (map rq_held_bytes detq) + rq_held_bytes q).
  { unfold rq_detach. destruct (rq_nbytes q >? 0) eqn:E; [|lia].
    rewrite map_app, zsum_app. unfold zsum. cbn. lia. }
  assert (Em : zsum (map rq_held_bytes (l1 ++ q :: l2)) = zsum (map rq_held_bytes (l1 ++ l2)) + rq_held_bytes q).
  { rewrite !map_app, !zsum_app. cbn [map]. unfold zsum. rewrite gsum_cons. lia. }
  rewrite (rq_credit_formula_thm buf (l1 ++ q :: l2) detq) by assumption.
  rewrite (rq_credit_formula_thm buf (l1 ++ l2) (rq_detach q detq)) by (try assumption; lia).
  lia.
Qed.

Theorem rq_credit_full_when_drained_thm buf mapq detq :
  0 <= buf < 4294967296 -> Forall rq_reachable mapq -> Forall rq_reachable detq ->
  Forall (fun q => rq_all_chunks q = []) mapq -> Forall (fun q => rq_all_chunks q = []) detq ->
  rq_credit buf mapq detq = buf.
Proof.
  intros Hb Hm Hd Em Ed.
  assert (Z0 : forall qs, Forall (fun q => rq_all_chunks q = []) qs -> zsum (map rq_held_bytes qs) = 0).
  { induction 1 as [|q t Hq Ht IH]; [reflexivity|]. cbn [map]. unfold zsum in *. rewrite gsum_cons, IH.
    unfold rq_held_bytes. rewrite Hq. reflexivity. }
  rewrite rq_credit_formula_thm; try assumption; rewrite (Z0 _ Em), (Z0 _ Ed); lia.
Qed.
