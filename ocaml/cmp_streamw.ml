(* Stream.WriteSCTP differential: model sw_write vs recorded results *)
module M = Model
open Zio

let dump (s : M.sw_stream) = Printf.sprintf "%s %s %s %s %s %s" (sz s.M.sw_ssn) (sz s.M.sw_omid) (sz s.M.sw_umid) (sbool s.M.sw_unordered) (sz s.M.sw_buffered) (sz s.M.sw_state)

let run path =
  let cases = read_cases path in
  List.iter (fun (name, lines) ->
    List.iteri (fun i toks ->
      incr records;
      match toks with
      | "write" :: n :: ppi :: il :: maxp :: maxmsg :: est :: "|" :: ssn :: omid :: umid :: un :: buf :: state :: "|" :: res :: ret :: "|" :: p1 :: p2 :: p3 :: p4 :: p5 :: p6 :: "|" :: nch :: chunks ->
        let st = { M.sw_ssn = cz ssn; M.sw_omid = cz omid; M.sw_umid = cz umid; M.sw_unordered = (un = "1"); M.sw_buffered = cz buf; M.sw_state = cz state } in
        let im = Printf.sprintf "%s %s | %s | %s %s" res ret (String.concat " " [p1; p2; p3; p4; p5; p6]) nch (String.concat " " chunks) in
        (match M.sw_write st (cz n) (cz ppi) (il = "1") (cz maxp) (cz maxmsg) (est = "1") with
         | None -> report name (i+1) "write" "model: fragmentation does not terminate" im
         | Some ((st', r), cs) ->
           let rs, rn = (match r with M.SwOk k -> "ok", sz k | M.SwTooLarge -> "toolarge", "0" | M.SwClosed -> "closed", "0" | M.SwSendErr -> "senderr", "0") in
           let cstr = String.concat " " (List.map (fun c -> Printf.sprintf "%s %s %s %s %s %s %s %s %s" (sbool c.M.swc_unordered) (sbool c.M.swc_b) (sbool c.M.swc_e)
                         (sz c.M.swc_ppi) (sz c.M.swc_ssn) (sz c.M.swc_mid) (sz c.M.swc_fsn) (sbool c.M.swc_idata) (sz c.M.swc_len)) cs) in
           let m = Printf.sprintf "%s %s | %s | %d %s" rs rn (dump st') (List.length cs) cstr in
           if m <> im then report name (i+1) ("write n=" ^ n ^ " ppi=" ^ ppi ^ " il=" ^ il ^ " maxp=" ^ maxp) m im)
      | _ -> report name (i+1) "unparsed" "" (String.concat " " toks)) lines) cases;
  Printf.printf "SUMMARY component=streamw cases=%d records=%d mismatches=%d\n" (List.length cases) !records !mismatches
