(* C16 — sequence-number wrap-around is invisible: serial-arithmetic laws.
   Statements are about the translator-generated definitions in Gen.v (regenerated from
   /repo/util.go on every run).  Only statements, closed by [exact], and Print Assumptions. *)
From Coq Require Import ZArith Bool.
From Sctp Require Import Gen SnaProofs.
Open Scope Z_scope.

(* for two 32-bit values less than half the number space apart exactly one of
   before / equal / after holds *)
Theorem c16_trichotomy32 : forall a b, in32 a -> in32 b ->
  (b - a) mod 4294967296 <> 2147483648 ->
  exactly_one (sna32LT a b) (sna32EQ a b) (sna32GT a b).
Proof. exact sna32_trichotomy. Qed.
Print Assumptions c16_trichotomy32.

Theorem c16_trichotomy16 : forall a b, in16 a -> in16 b ->
  (b - a) mod 65536 <> 32768 ->
  exactly_one (sna16LT a b) (sna16EQ a b) (sna16GT a b).
Proof. exact sna16_trichotomy. Qed.
Print Assumptions c16_trichotomy16.

(* "before" means: the forward distance is in (0, 2^(n-1)) *)
Theorem c16_lt32_is_forward_distance : forall a b, in32 a -> in32 b ->
  sna32LT a b = true <-> 0 < (b - a) mod 4294967296 < 2147483648.
Proof. exact sna32LT_spec. Qed.
Print Assumptions c16_lt32_is_forward_distance.

Theorem c16_lt16_is_forward_distance : forall a b, in16 a -> in16 b ->
  sna16LT a b = true <-> 0 < (b - a) mod 65536 < 32768.
Proof. exact sna16LT_spec. Qed.
Print Assumptions c16_lt16_is_forward_distance.

(* the answer is unchanged when both operands are shifted by the same amount *)
Theorem c16_shift_lt32 : forall a b k, in32 a -> in32 b ->
  sna32LT (wrap32 (a + k)) (wrap32 (b + k)) = sna32LT a b.
Proof. exact sna32LT_shift. Qed.
Print Assumptions c16_shift_lt32.
Theorem c16_shift_lte32 : forall a b k, in32 a -> in32 b ->
  sna32LTE (wrap32 (a + k)) (wrap32 (b + k)) = sna32LTE a b.
Proof. exact sna32LTE_shift. Qed.
Print Assumptions c16_shift_lte32.
Theorem c16_shift_gt32 : forall a b k, in32 a -> in32 b ->
  sna32GT (wrap32 (a + k)) (wrap32 (b + k)) = sna32GT a b.
Proof. exact sna32GT_shift. Qed.
Print Assumptions c16_shift_gt32.
Theorem c16_shift_gte32 : forall a b k, in32 a -> in32 b ->
  sna32GTE (wrap32 (a + k)) (wrap32 (b + k)) = sna32GTE a b.
Proof. exact sna32GTE_shift. Qed.
Print Assumptions c16_shift_gte32.
Theorem c16_shift_lt16 : forall a b k, in16 a -> in16 b ->
  sna16LT (wrap16 (a + k)) (wrap16 (b + k)) = sna16LT a b.
Proof. exact sna16LT_shift. Qed.
Print Assumptions c16_shift_lt16.
Theorem c16_shift_lte16 : forall a b k, in16 a -> in16 b ->
  sna16LTE (wrap16 (a + k)) (wrap16 (b + k)) = sna16LTE a b.
Proof. exact sna16LTE_shift. Qed.
Print Assumptions c16_shift_lte16.
Theorem c16_shift_gt16 : forall a b k, in16 a -> in16 b ->
  sna16GT (wrap16 (a + k)) (wrap16 (b + k)) = sna16GT a b.
Proof. exact sna16GT_shift. Qed.
Print Assumptions c16_shift_gt16.
Theorem c16_shift_gte16 : forall a b k, in16 a -> in16 b ->
  sna16GTE (wrap16 (a + k)) (wrap16 (b + k)) = sna16GTE a b.
Proof. exact sna16GTE_shift. Qed.
Print Assumptions c16_shift_gte16.

(* after = before flipped, off the antipode *)
Theorem c16_gt_is_lt_flipped32 : forall a b, in32 a -> in32 b ->
  (b - a) mod 4294967296 <> 2147483648 -> sna32GT a b = sna32LT b a.
Proof. exact sna32_gt_lt_flip. Qed.
Print Assumptions c16_gt_is_lt_flipped32.
Theorem c16_gt_is_lt_flipped16 : forall a b, in16 a -> in16 b ->
  (b - a) mod 65536 <> 32768 -> sna16GT a b = sna16LT b a.
Proof. exact sna16_gt_lt_flip. Qed.
Print Assumptions c16_gt_is_lt_flipped16.

(* transitivity while the total span stays below half the space *)
Theorem c16_lt32_trans : forall a b c, in32 a -> in32 b -> in32 c ->
  sna32LT a b = true -> sna32LT b c = true ->
  (b - a) mod 4294967296 + (c - b) mod 4294967296 < 2147483648 -> sna32LT a c = true.
Proof. exact sna32LT_trans. Qed.
Print Assumptions c16_lt32_trans.
Theorem c16_lt16_trans : forall a b c, in16 a -> in16 b -> in16 c ->
  sna16LT a b = true -> sna16LT b c = true ->
  (b - a) mod 65536 + (c - b) mod 65536 < 32768 -> sna16LT a c = true.
Proof. exact sna16LT_trans. Qed.
Print Assumptions c16_lt16_trans.

(* non-vacuity: concrete values across the wrap *)
Example c16_example_wrap : sna32LT 4294967290 5 = true /\ sna32GT 5 4294967290 = true /\
  sna16LT 65530 3 = true /\ sna32LT (wrap32 (4294967290 + 100)) (wrap32 (5 + 100)) = true.
Proof. vm_compute. repeat split. Qed.
