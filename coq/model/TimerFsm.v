(* Executable model of the timers of pion/sctp (integer only; no proofs in this file):
     rtxTimer  (rtx_timer.go: start / stop / close / isRunning / timeout)
     ackTimer  (ack_timer.go)
     the ack decision of association.go (handlePeerLastTSNAndAcknowledgement, handleChunksStart/End,
     onAckTimeout, gatherOutboundSackPackets) and Karn's rule (processSelectiveAck).

   What is modelled besides the Go struct fields: the runtime timer behind time.AfterFunc and the
   goroutines it starts.  [tc_armed] is the pending runtime timer (arming id, deadline); when it
   fires ([TFire]) the runtime starts a goroutine running t.timeout(): that goroutine is "in flight"
   ([tc_inflight]) until it obtains the timer mutex ([TRun k] = the k-th in-flight callback takes the
   mutex).  API calls, fire and run events may interleave in any order: this is exactly the freedom
   the Go scheduler has.  timer.Stop() reports true iff the runtime timer was still armed.
   Arming ids, the deadline of the latest arming and the clock are ghost state for the theorems
   (the Go code has no such fields).  Time is virtual nanoseconds. *)
From Coq Require Import ZArith Bool List.
From Sctp Require Import Gen RPQ.
Import ListNotations.
Open Scope Z_scope.

Definition tm_stopped : Z := 0.   (* rtxTimerStopped / ackTimerStopped *)
Definition tm_started : Z := 1.
Definition tm_closed : Z := 2.

Definition tm_ms : Z := 1000000.              (* time.Millisecond in ns *)
Definition tm_ack_interval : Z := 200 * tm_ms. (* ackInterval *)

(* ---------- shared core: state, pending counter, runtime timer, in-flight callbacks ---------- *)
Record tcore := mkCore {
  tc_state : Z;
  tc_pending : Z;                  (* uint8 *)
  tc_armed : option (Z * Z);       (* runtime timer: (arming id, deadline) *)
  tc_inflight : list Z;            (* arming ids of fired callbacks that have not yet taken the mutex *)
  tc_gen : Z;                      (* ghost: next arming id *)
  tc_lastdl : Z;                   (* ghost: deadline of the latest arming *)
  tc_now : Z                       (* ghost: virtual clock *)
}.

Definition tc_init : tcore := mkCore tm_stopped 0 None [] 0 0 0.

Definition tc_set_state (c : tcore) (s : Z) : tcore :=
  mkCore s (tc_pending c) (tc_armed c) (tc_inflight c) (tc_gen c) (tc_lastdl c) (tc_now c).

(* t.pending++ ; t.timer.Reset(d)   (Reset replaces whatever was armed) *)
Definition tc_arm (c : tcore) (d : Z) : tcore :=
  mkCore (tc_state c) (wrap8 (tc_pending c + 1)) (Some (tc_gen c, tc_now c + d)) (tc_inflight c)
         (tc_gen c + 1) (tc_now c + d) (tc_now c).

(* if t.timer.Stop() { t.pending-- } *)
Definition tc_disarm (c : tcore) : tcore :=
  match tc_armed c with
  | Some _ => mkCore (tc_state c) (wrap8 (tc_pending c - 1)) None (tc_inflight c) (tc_gen c) (tc_lastdl c) (tc_now c)
  | None => c
  end.

(* the runtime timer expires: allowed once the deadline is reached *)
Definition tc_fire (c : tcore) : option tcore :=
  match tc_armed c with
  | Some (g, dl) =>
      if dl <=? tc_now c then
        Some (mkCore (tc_state c) (tc_pending c) None (tc_inflight c ++ [g]) (tc_gen c) (tc_lastdl c) (tc_now c))
      else None
  | None => None
  end.

Fixpoint tm_remove_nth (k : nat) (l : list Z) : option (Z * list Z) :=
  match l, k with
  | [], _ => None
  | x :: r, O => Some (x, r)
  | x :: r, S k' => match tm_remove_nth k' r with Some (y, r') => Some (y, x :: r') | None => None end
  end.

(* the k-th in-flight callback obtains the mutex and executes "t.pending--" *)
Definition tc_take (c : tcore) (k : nat) : option (Z * tcore) :=
  match tm_remove_nth k (tc_inflight c) with
  | Some (g, rest) =>
      Some (g, mkCore (tc_state c) (wrap8 (tc_pending c - 1)) (tc_armed c) rest (tc_gen c) (tc_lastdl c) (tc_now c))
  | None => None
  end.

Definition tc_advance (c : tcore) (d : Z) : tcore :=
  mkCore (tc_state c) (tc_pending c) (tc_armed c) (tc_inflight c) (tc_gen c) (tc_lastdl c) (tc_now c + d).

(* ---------- events and outputs ---------- *)
Inductive tm_ev :=
| TStart (rto : Z)        (* rtxTimer.start(rto) with rto in whole milliseconds; ackTimer.start() ignores rto *)
| TStop
| TClose
| TIsRunning
| TAdvance (d : Z)        (* the clock advances by d >= 0 ns *)
| TFire                   (* the runtime timer expires *)
| TRun (k : nat).         (* the k-th in-flight callback takes the mutex *)

Inductive tm_out :=
| OStarted (ok : bool)
| ORunning (b : bool)
| OTimeout (id n : Z)     (* observer.onRetransmissionTimeout(id, nRtos) *)
| OFailure (id : Z)       (* observer.onRetransmissionFailure(id) *)
| OAck                    (* observer.onAckTimeout() *)
| ONone
| OInvalid.               (* the event is not enabled in this state (nothing happens) *)

(* ---------- rtxTimer ---------- *)
(* calculateNextTimeout on whole-millisecond values (the float version is model/Rto.v; for integers
   with rto*2^30 < 2^53 both agree exactly), then time.Duration(timeout) * time.Millisecond *)
Definition tm_next_timeout_ms (rto n rtoMax : Z) : Z :=
  if n <? 31 then Z.min (rto * 2 ^ n) rtoMax else rtoMax.

Record rtx := mkRtx {
  rx_core : tcore;
  rx_id : Z;
  rx_maxretrans : Z;     (* uint *)
  rx_rtomax : Z;         (* ms *)
  rx_rto : Z;            (* ms *)
  rx_nrtos : Z           (* uint *)
}.

(* newRTXTimer (rtoMax = 0 selects defaultRTOMax = 60000 ms) *)
Definition rtx_new (id maxRetrans rtoMax : Z) : rtx :=
  mkRtx tc_init id maxRetrans (if rtoMax =? 0 then 60000 else rtoMax) 0 0.

Definition rtx_with_core (t : rtx) (c : tcore) : rtx :=
  mkRtx c (rx_id t) (rx_maxretrans t) (rx_rtomax t) (rx_rto t) (rx_nrtos t).

Definition rtx_dur (t : rtx) : Z := tm_next_timeout_ms (rx_rto t) (rx_nrtos t) (rx_rtomax t) * tm_ms.

Definition rtx_step (t : rtx) (e : tm_ev) : rtx * tm_out :=
  let c := rx_core t in
  match e with
  | TStart rto =>
      if negb (tc_state c =? tm_stopped) then (t, OStarted false)
      else
        let t1 := mkRtx (tc_set_state c tm_started) (rx_id t) (rx_maxretrans t) (rx_rtomax t) rto 0 in
        (rtx_with_core t1 (tc_arm (rx_core t1) (rtx_dur t1)), OStarted true)
  | TStop =>
      if tc_state c =? tm_started then (rtx_with_core t (tc_set_state (tc_disarm c) tm_stopped), ONone)
      else (t, ONone)
  | TClose =>
      if tc_state c =? tm_started then (rtx_with_core t (tc_set_state (tc_disarm c) tm_closed), ONone)
      else (rtx_with_core t (tc_set_state c tm_closed), ONone)
  | TIsRunning => (t, ORunning (tc_state c =? tm_started))
  | TAdvance d => if 0 <=? d then (rtx_with_core t (tc_advance c d), ONone) else (t, OInvalid)
  | TFire => match tc_fire c with Some c' => (rtx_with_core t c', ONone) | None => (t, OInvalid) end
  | TRun k =>
      match tc_take c k with
      | None => (t, OInvalid)
      | Some (_, c1) =>
          if (tc_pending c1 =? 0) && (tc_state c1 =? tm_started) then
            let n := wrap64 (rx_nrtos t + 1) in
            let t1 := mkRtx c1 (rx_id t) (rx_maxretrans t) (rx_rtomax t) (rx_rto t) n in
            if (rx_maxretrans t =? 0) || (n <=? rx_maxretrans t) then
              (rtx_with_core t1 (tc_arm c1 (rtx_dur t1)), OTimeout (rx_id t) n)
            else
              (rtx_with_core t1 (tc_set_state c1 tm_stopped), OFailure (rx_id t))
          else (rtx_with_core t c1, ONone)
      end
  end.

Fixpoint rtx_run (t : rtx) (evs : list tm_ev) : rtx * list tm_out :=
  match evs with
  | [] => (t, [])
  | e :: r => let '(t1, o) := rtx_step t e in let '(t2, os) := rtx_run t1 r in (t2, o :: os)
  end.

(* ---------- ackTimer ---------- *)
Definition ack_step (c : tcore) (e : tm_ev) : tcore * tm_out :=
  match e with
  | TStart _ =>
      if negb (tc_state c =? tm_stopped) then (c, OStarted false)
      else (tc_arm (tc_set_state c tm_started) tm_ack_interval, OStarted true)
  | TStop =>
      if tc_state c =? tm_started then (tc_set_state (tc_disarm c) tm_stopped, ONone) else (c, ONone)
  | TClose =>
      if tc_state c =? tm_started then (tc_set_state (tc_disarm c) tm_closed, ONone)
      else (tc_set_state c tm_closed, ONone)
  | TIsRunning => (c, ORunning (tc_state c =? tm_started))
  | TAdvance d => if 0 <=? d then (tc_advance c d, ONone) else (c, OInvalid)
  | TFire => match tc_fire c with Some c' => (c', ONone) | None => (c, OInvalid) end
  | TRun k =>
      match tc_take c k with
      | None => (c, OInvalid)
      | Some (_, c1) =>
          if (tc_pending c1 =? 0) && (tc_state c1 =? tm_started) then (tc_set_state c1 tm_stopped, OAck)
          else (c1, ONone)
      end
  end.

Fixpoint ack_run (c : tcore) (evs : list tm_ev) : tcore * list tm_out :=
  match evs with
  | [] => (c, [])
  | e :: r => let '(c1, o) := ack_step c e in let '(c2, os) := ack_run c1 r in (c2, o :: os)
  end.

(* ---------- timer id -> maximum number of retransmissions (createAssociationFromConfigWithTsn) ---------- *)
Definition tm_max_retrans (timer_id : Z) : Z :=
  if (timer_id =? c_timerT1Init) || (timer_id =? c_timerT1Cookie) then c_maxInitRetrans else c_noMaxRetrans.

(* ---------- ack decision ---------- *)
Record ackst := mkAck {
  ak_state : Z;      (* a.ackState *)
  ak_mode : Z;       (* a.ackMode *)
  ak_imm : bool;     (* a.immediateAckTriggered *)
  ak_del : bool      (* a.delayedAckTriggered *)
}.

(* handleChunksStart *)
Definition ack_chunks_start (a : ackst) : ackst := mkAck (ak_state a) (ak_mode a) false false.

(* handleData, the branch for a chunk that canPush rejects (a duplicate, or beyond the tracking window):
     nDups := len(dupTSN); payloadQueue.push(tsn); duplicate = len(dupTSN) > nDups
   push stores nothing in this case; it appends the TSN to the duplicate list unless it is beyond the window.
   (For an accepted chunk the queue is updated by acceptPayloadData, which is not part of this model.) *)
Definition ack_record_duplicate (q : rpq) (tsn : Z) : rpq * bool :=
  if can_push q tsn then (q, false)
  else
    let q' := fst (push q tsn) in
    (q', Nat.ltb (length (dups q)) (length (dups q'))).

(* the same flag from the two queue tests the harness can observe *)
Definition ack_duplicate_flag (canPush beyondWindow : bool) : bool := negb canPush && negb beyondWindow.

(* handleData: sackNow := immediateSack || gapDetected || duplicate ; forced in SHUTDOWN-SENT *)
Definition ack_sack_now (immediateSack duplicate : bool) (tsn peerLastTSN : Z) (state : Z) : bool :=
  if state =? c_shutdownSent then true
  else immediateSack || sna32GT tsn (wrap32 (peerLastTSN + 1)) || duplicate.

(* the ack part of handlePeerLastTSNAndAcknowledgement *)
Definition ack_on_data (a : ackst) (sackImmediately hasPacketLoss : bool) : ackst :=
  if sackImmediately || hasPacketLoss || (ak_mode a =? c_ackModeNoDelay) then
    mkAck (ak_state a) (ak_mode a) true (ak_del a)
  else if (ak_mode a =? c_ackModeAlwaysDelay) ||
          ((ak_mode a =? c_ackModeNormal) && negb (ak_state a =? c_ackStateImmediate)) then
    (if ak_state a =? c_ackStateIdle then mkAck (ak_state a) (ak_mode a) (ak_imm a) true
     else mkAck (ak_state a) (ak_mode a) true (ak_del a))
  else mkAck (ak_state a) (ak_mode a) true (ak_del a).

(* handleChunksEnd: new ack state and the operation applied to the ack timer *)
Definition ack_chunks_end (a : ackst) : ackst * option tm_ev :=
  if ak_imm a then (mkAck c_ackStateImmediate (ak_mode a) (ak_imm a) (ak_del a), Some TStop)
  else if ak_del a then (mkAck c_ackStateDelay (ak_mode a) (ak_imm a) (ak_del a), Some (TStart 0))
  else (a, None).

(* onAckTimeout *)
Definition ack_on_timeout (a : ackst) : ackst := mkAck c_ackStateImmediate (ak_mode a) (ak_imm a) (ak_del a).

(* gatherOutboundSackPackets: emits a SACK iff the state is immediate *)
Definition ack_gather (a : ackst) : ackst * bool :=
  if ak_state a =? c_ackStateImmediate then (mkAck c_ackStateIdle (ak_mode a) (ak_imm a) (ak_del a), true)
  else (a, false).

(* one inbound packet: the DATA chunks it carries as (sackImmediately, hasPacketLoss) pairs *)
Definition ack_packet (a : ackst) (tmr : tcore) (chunks : list (bool * bool)) : ackst * tcore :=
  let a1 := fold_left (fun a ch => ack_on_data a (fst ch) (snd ch)) chunks (ack_chunks_start a) in
  let '(a2, op) := ack_chunks_end a1 in
  match op with
  | Some e => (a2, fst (ack_step tmr e))
  | None => (a2, tmr)
  end.

(* ---------- Karn's rule (processSelectiveAck, both the cumulative and the gap-block loop) ---------- *)
(* a newly acknowledged chunk yields an RTT sample iff ... *)
Definition karn_takes_sample (tsn minTSN2MeasureRTT nSent : Z) : bool :=
  sna32GTE tsn minTSN2MeasureRTT && (nSent =? 1).

(* chunks newly acknowledged by one SACK, in processing order: (tsn, nSent, alreadyAcked).
   Returns the new minTSN2MeasureRTT and the TSNs whose round trip was fed to setNewRTT. *)
Fixpoint karn_sack (minTSN myNextTSN : Z) (chunks : list (Z * Z * bool)) : Z * list Z :=
  match chunks with
  | [] => (minTSN, [])
  | (tsn, nSent, acked) :: r =>
      if negb acked && karn_takes_sample tsn minTSN nSent then
        let '(m, l) := karn_sack myNextTSN myNextTSN r in (m, tsn :: l)
      else karn_sack minTSN myNextTSN r
  end.
