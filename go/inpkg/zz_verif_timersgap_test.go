// Verification harness (C19): "an acknowledgement is sent at once when a gap is seen".  Hand-built DATA packets are
// injected into an established association in a chosen arrival order; after every arrival that leaves a hole below
// the highest TSN received, a SACK must leave at the same virtual instant (RFC 9260 6.2 / 6.7), and with no hole a
// SACK must leave within 200 ms.
package sctp

import (
	"testing"
	"testing/synctest"
	"time"
)

// order: TSN offsets (1-based, relative to the cumulative TSN at the start) in arrival order; no duplicates
func vtMonGap(t *testing.T, m *vtMon, order []int) {
	synctest.Test(t, func(t *testing.T) {
		n := newVtNet()
		_, a1, closeAll := vtEstablish(t, n, 0)
		defer closeAll()
		a1.lock.Lock()
		cum0 := a1.peerLastTSN()
		tag, sp, dp := a1.myVerificationTag, a1.destinationPort, a1.sourcePort
		inter := a1.useInterleaving // the framing that was negotiated (a chunk of the other kind is answered with ABORT)
		a1.lock.Unlock()
		got := map[int]bool{}
		base := 0 // offsets 1..base are all received
		for _, k := range order {
			pk := &packet{sourcePort: sp, destinationPort: dp, verificationTag: tag, chunks: []chunk{&chunkPayloadData{
				tsn: cum0 + uint32(k), streamIdentifier: 1, streamSequenceNumber: uint16(k - 1), messageIdentifier: uint32(k - 1),
				iData: inter, beginningFragment: true,
				endingFragment: true, payloadType: PayloadTypeWebRTCBinary, userData: []byte{byte(k), 1, 2, 3},
			}}}
			raw, err := pk.marshal(true)
			if err != nil {
				t.Fatal(err)
			}
			mk := n.mark()
			t0 := time.Since(n.start)
			n.inject(1, raw)
			synctest.Wait()
			got[k] = true
			for got[base+1] {
				base++
			}
			hole := false
			for g := range got {
				if g > base {
					hole = true
				}
			}
			sackNow := false
			for _, p := range n.since(mk) {
				if vtHas(p, 1, ctSack) {
					sackNow = true
				}
			}
			if hole {
				m.check("c19-gap-delayed-ack", sackNow,
					"arrival order %v: after TSN offset %d (all received up to %d, something above is held) no SACK left at the instant of arrival", order, k, base)
			}
			if !sackNow {
				time.Sleep(201 * time.Millisecond)
				synctest.Wait()
				var lat time.Duration = -1
				for _, p := range n.since(mk) {
					if vtHas(p, 1, ctSack) && lat < 0 {
						lat = p.at - t0
					}
				}
				m.check("c19-ack-late", lat >= 0 && lat <= 200*time.Millisecond,
					"arrival order %v: DATA offset %d delivered at %v: SACK latency %v (limit 200ms)", order, k, t0, lat)
			} else {
				// let a little time pass so that consecutive arrivals are separate packets at separate instants
				time.Sleep(3 * time.Millisecond)
				synctest.Wait()
			}
		}
	})
}

func vtMonGapAll(t *testing.T, m *vtMon, nRandom int, perm func(int) []int) {
	fixed := [][]int{
		{1, 2, 3},
		{2, 1, 3},
		{1, 2, 5, 3, 4, 6},    // two-chunk hole filled from below: 3 leaves 4 missing
		{1, 3, 5, 2, 4},       // lower of two holes filled first
		{4, 3, 2, 1},          // reverse order
		{1, 2, 3, 6, 7, 4, 5}, // hole filled while a delayed ack may be pending
		{2, 4, 6, 1, 3, 5},
	}
	for _, o := range fixed {
		vtMonGap(t, m, o)
	}
	for i := 0; i < nRandom; i++ {
		p := perm(8)
		o := []int{}
		for _, x := range p {
			if x%7 != 6 { // leave one offset out for good
				o = append(o, x+1)
			}
		}
		vtMonGap(t, m, o)
	}
}
