(* Proofs about the shutdown control abstraction (coq/model/Shutdown.v), property C08.

   1. the generic closure lemma (once, by induction on runs) and the soundness of the two certificates checked by
      computation: "the set is closed under the step relation" and "every state has a rank that some successor
      decreases";
   2. endpoint-level lemmas for ALL states and counter values: writes are rejected outside ESTABLISHED, the
      state x chunk matrix, the priority order of gather, the invariant that justifies "SHUTDOWN / SHUTDOWN ACK are
      only sent when nothing is pending or in flight";
   3. the finite instances (one-sided shutdown here, crossed shutdown in ShutdownCrossedProofs.v). *)
From Coq Require Import ZArith Bool List Lia PArith FMapPositive.
From Sctp Require Import Gen Shutdown.
Import ListNotations.
Open Scope Z_scope.

(* ---------------------------------------------------------------- 1a. closure lemma *)

Section SdClosure.
  Variable T : Type.
  Variable succs : T -> list T.
  Variable inits : list T.

  Inductive sd_reachable : T -> Prop :=
  | sd_reach_init : forall x, In x inits -> sd_reachable x
  | sd_reach_step : forall x y, sd_reachable x -> In y (succs x) -> sd_reachable y.

  (* a finite run: each state is a successor of the previous one *)
  Fixpoint sd_is_run (x : T) (run : list T) : Prop :=
    match run with
    | [] => True
    | y :: r => In y (succs x) /\ sd_is_run y r
    end.

  (* the state a run ends in *)
  Fixpoint sd_run_end (x : T) (run : list T) : T :=
    match run with [] => x | y :: r => sd_run_end y r end.

  Lemma sd_closure_runs (S : T -> Prop) :
    (forall x, In x inits -> S x) ->
    (forall x y, S x -> In y (succs x) -> S y) ->
    forall run x0, S x0 -> sd_is_run x0 run -> S (sd_run_end x0 run).
  Proof.
    intros _ Hstep. induction run as [|y r IH]; intros x0 H0 Hrun.
    - exact H0.
    - destruct Hrun as [Hy Hr]. cbn [sd_run_end]. apply IH; [exact (Hstep _ _ H0 Hy)|exact Hr].
  Qed.

  Lemma sd_closure (S : T -> Prop) :
    (forall x, In x inits -> S x) ->
    (forall x y, S x -> In y (succs x) -> S y) ->
    forall x, sd_reachable x -> S x.
  Proof.
    intros Hi Hs x H. induction H as [x Hx|x y _ IH Hy]; [exact (Hi _ Hx)|exact (Hs _ _ IH Hy)].
  Qed.

  Lemma sd_run_reachable : forall run x0, sd_reachable x0 -> sd_is_run x0 run -> sd_reachable (sd_run_end x0 run).
  Proof.
    intros run x0 H0 Hr. apply (sd_closure_runs sd_reachable); auto using sd_reach_init.
    intros x y Hx Hy. exact (sd_reach_step _ _ Hx Hy).
  Qed.
End SdClosure.

(* ---------------------------------------------------------------- 1b. certificates *)

Section SdCert.
  Variable T : Type.
  Variable teq : T -> T -> bool.
  Variable tkey : T -> positive.
  Hypothesis teq_sound : forall x y, teq x y = true -> x = y.

  Lemma sd_smem_elems x m : sd_smem T teq tkey x m = true -> In x (sd_selems T m).
  Proof.
    unfold sd_smem, sd_selems. destruct (PositiveMap.find (tkey x) m) as [l|] eqn:E; [|discriminate].
    intros H. apply existsb_exists in H. destruct H as (y & Hy & He). apply teq_sound in He. subst y.
    apply in_flat_map. exists (tkey x, l). split; [|exact Hy].
    apply PositiveMap.elements_correct. exact E.
  Qed.

  Variable succs : T -> list T.
  Variable inits : list T.

  (* closed + contains the initial states => contains everything reachable *)
  Lemma sd_closed_sound m :
    forallb (fun x => sd_smem T teq tkey x m) inits = true ->
    sd_closed_check T teq tkey succs m = true ->
    forall x, sd_reachable T succs inits x -> sd_smem T teq tkey x m = true.
  Proof.
    intros Hi Hc. apply sd_closure.
    - intros x Hx. rewrite forallb_forall in Hi. exact (Hi _ Hx).
    - intros x y Hx Hy. unfold sd_closed_check in Hc. rewrite forallb_forall in Hc.
      specialize (Hc x (sd_smem_elems _ _ Hx)). rewrite forallb_forall in Hc. exact (Hc _ Hy).
  Qed.

  Lemma sd_forall_sound m (p : T -> bool) :
    forallb (fun x => sd_smem T teq tkey x m) inits = true ->
    sd_closed_check T teq tkey succs m = true ->
    forallb p (sd_selems T m) = true ->
    forall x, sd_reachable T succs inits x -> p x = true.
  Proof.
    intros Hi Hc Hp x Hx. rewrite forallb_forall in Hp. apply Hp. apply sd_smem_elems.
    exact (sd_closed_sound m Hi Hc x Hx).
  Qed.

  (* ranks *)
  Variable goal : T -> bool.
  Variable lsuccs : T -> list T.

  Inductive sd_can_reach : T -> Prop :=
  | sd_cr_here : forall x, goal x = true -> sd_can_reach x
  | sd_cr_step : forall x y, In y (lsuccs x) -> sd_can_reach y -> sd_can_reach x.

  Lemma sd_rfind_in x l r : sd_rfind T teq x l = Some r -> In (x, r) l.
  Proof.
    induction l as [|[y ry] t IH]; cbn [sd_rfind]; [discriminate|].
    destruct (teq x y) eqn:E.
    - intros H. inversion H; subst. apply teq_sound in E. subst. left. reflexivity.
    - intros H. right. exact (IH H).
  Qed.

  Lemma sd_rget_elems x m r : sd_rget T teq tkey x m = Some r -> In (x, r) (sd_relems T m).
  Proof.
    unfold sd_rget, sd_relems. destruct (PositiveMap.find (tkey x) m) as [l|] eqn:E; [|discriminate].
    intros H. apply sd_rfind_in in H. apply in_flat_map. exists (tkey x, l). split; [|exact H].
    apply PositiveMap.elements_correct. exact E.
  Qed.

  Lemma sd_rank_sound m :
    sd_rank_check T teq tkey goal lsuccs m = true ->
    forall n x r, (r < n)%nat -> sd_rget T teq tkey x m = Some r -> sd_can_reach x.
  Proof.
    intros Hc. unfold sd_rank_check in Hc. rewrite forallb_forall in Hc.
    induction n as [|n IH]; intros x r Hlt Hr; [lia|].
    specialize (Hc (x, r) (sd_rget_elems _ _ _ Hr)). cbn beta iota in Hc.
    apply orb_true_iff in Hc. destruct Hc as [Hg|He]; [exact (sd_cr_here _ Hg)|].
    apply existsb_exists in He. destruct He as (y & Hy & Hr').
    destruct (sd_rget T teq tkey y m) as [r'|] eqn:Ey; [|discriminate].
    apply Nat.ltb_lt in Hr'. apply (sd_cr_step x y Hy). apply (IH y r'); [lia|exact Ey].
  Qed.

  Lemma sd_ranked_can_reach m univ :
    sd_rank_check T teq tkey goal lsuccs m = true ->
    sd_ranked_all T teq tkey univ m = true ->
    forall x, In x univ -> sd_can_reach x.
  Proof.
    intros Hc Ha x Hx. unfold sd_ranked_all in Ha. rewrite forallb_forall in Ha. specialize (Ha x Hx).
    destruct (sd_rget T teq tkey x m) as [r|] eqn:E; [|discriminate].
    exact (sd_rank_sound m Hc (S r) x r (Nat.lt_succ_diag_r r) E).
  Qed.
End SdCert.

(* ---------------------------------------------------------------- decidable equality is sound *)

Lemma sd_retv_code_inj a b : sd_retv_code a = sd_retv_code b -> a = b.
Proof. destruct a, b; cbn; intros H; try reflexivity; discriminate. Qed.

Lemma sd_ep_eqb_eq x y : sd_ep_eqb x y = true -> x = y.
Proof.
  unfold sd_ep_eqb. intros H. repeat (apply andb_true_iff in H; destruct H as [H ?]).
  destruct x as [a1 a2 a3 a4 a5 a6 a7 a8 a9 a10 a11 a12], y as [b1 b2 b3 b4 b5 b6 b7 b8 b9 b10 b11 b12]; simpl in *.
  repeat match goal with
         | h : (_ =? _) = true |- _ => apply Z.eqb_eq in h
         | h : Bool.eqb _ _ = true |- _ => apply Bool.eqb_prop in h
         end.
  match goal with h : sd_retv_code _ = sd_retv_code _ |- _ => apply sd_retv_code_inj in h end.
  subst. reflexivity.
Qed.

Lemma sd_net_eqb_eq x y : sd_net_eqb x y = true -> x = y.
Proof.
  unfold sd_net_eqb. intros H. repeat (apply andb_true_iff in H; destruct H as [H ?]).
  destruct x as [a1 a2 a3 a4 a5], y as [b1 b2 b3 b4 b5]; simpl in *.
  repeat match goal with h : Bool.eqb _ _ = true |- _ => apply Bool.eqb_prop in h end.
  subst. reflexivity.
Qed.

Lemma sd_sys_eqb_eq x y : sd_sys_eqb x y = true -> x = y.
Proof.
  unfold sd_sys_eqb. intros H.
  apply andb_true_iff in H. destruct H as [H H4]. apply andb_true_iff in H. destruct H as [H H3].
  apply andb_true_iff in H. destruct H as [H1 H2].
  destruct x as [a1 a2 a3 a4], y as [b1 b2 b3 b4]. cbn [sd_a sd_b sd_ab sd_ba] in *.
  apply sd_ep_eqb_eq in H1, H2. apply sd_net_eqb_eq in H3, H4. subst. reflexivity.
Qed.

(* ---------------------------------------------------------------- 3. the finite instance: generic wrapper *)

Definition sd_reach (c : sd_cfg) : sd_sys -> Prop := sd_reachable sd_sys (sd_succs c) sd_inits.

(* the path to "both closed" uses only deliveries, timer expiries and — once the peer is gone — the closing of the
   own transport: no API call, no further loss *)
Definition sd_eventually_closed : sd_sys -> Prop := sd_can_reach sd_sys sd_both_closed sd_lsuccs.

(* one boolean evaluated by vm_compute per configuration; the reachable set is computed once *)
Definition sd_all_checks (c : sd_cfg) (size : Z) : bool :=
  let m := sd_reach_set c in
  let elems := sd_selems sd_sys m in
  let rm := sd_rank_compute sd_sys sd_sys_eqb sd_key sd_both_closed sd_lsuccs 200 elems in
  forallb (fun x => sd_smem sd_sys sd_sys_eqb sd_key x m) sd_inits &&
  sd_closed_check sd_sys sd_sys_eqb sd_key (sd_succs c) m &&
  forallb (fun s => sd_sys_safe s && sd_sys_inv s) elems &&
  sd_rank_check sd_sys sd_sys_eqb sd_key sd_both_closed sd_lsuccs rm &&
  sd_ranked_all sd_sys sd_sys_eqb sd_key (filter sd_started elems) rm &&
  (Z.of_nat (length elems) =? size).

Lemma sd_all_checks_size c n : sd_all_checks c n = true -> Z.of_nat (sd_set_size c) = n.
Proof.
  unfold sd_all_checks. cbv zeta. intros H. apply andb_true_iff in H. destruct H as [_ H]. apply Z.eqb_eq in H. exact H.
Qed.

Lemma sd_all_checks_sound c n :
  sd_all_checks c n = true ->
  forall s, sd_reach c s ->
    sd_sys_safe s = true /\ sd_sys_inv s = true /\ (sd_started s = true -> sd_eventually_closed s).
Proof.
  unfold sd_all_checks. cbv zeta. intros H s Hs.
  apply andb_true_iff in H. destruct H as [H _].
  apply andb_true_iff in H. destruct H as [H Ha]. apply andb_true_iff in H. destruct H as [H Hr].
  apply andb_true_iff in H. destruct H as [H Hp]. apply andb_true_iff in H. destruct H as [Hi Hc].
  pose proof (sd_forall_sound sd_sys sd_sys_eqb sd_key sd_sys_eqb_eq (sd_succs c) sd_inits _ _ Hi Hc Hp s Hs) as P.
  pose proof (sd_closed_sound sd_sys sd_sys_eqb sd_key sd_sys_eqb_eq (sd_succs c) sd_inits _ Hi Hc s Hs) as M.
  pose proof (sd_smem_elems sd_sys sd_sys_eqb sd_key sd_sys_eqb_eq _ _ M) as E.
  assert (R : sd_started s = true -> sd_eventually_closed s).
  { intros St. apply (sd_ranked_can_reach sd_sys sd_sys_eqb sd_key sd_sys_eqb_eq sd_both_closed sd_lsuccs _ _ Hr Ha s).
    apply filter_In. split; assumption. }
  apply andb_true_iff in P. destruct P as [P1 P2]. repeat split; assumption.
Qed.

(* one-sided shutdown: only A's user calls Shutdown; 0, 1 or 2 messages queued on either side, writes at any time *)
Lemma sd_checks_one : sd_all_checks sd_cfg_one 3222 = true.
Proof. vm_compute. reflexivity. Qed.

Lemma sd_size_one : Z.of_nat (sd_set_size sd_cfg_one) = 3222.
Proof. exact (sd_all_checks_size _ _ sd_checks_one). Qed.

Lemma sd_one_sided : forall s, sd_reach sd_cfg_one s ->
  sd_sys_safe s = true /\ sd_sys_inv s = true /\ (sd_started s = true -> sd_eventually_closed s).
Proof. exact (sd_all_checks_sound _ _ sd_checks_one). Qed.

(* safety only (no ranks): for the configuration in which the transport may fail, an ABORT may arrive and the user may call
   Close at any time *)
Definition sd_safety_checks (c : sd_cfg) (size : Z) : bool :=
  let m := sd_reach_set c in
  let elems := sd_selems sd_sys m in
  forallb (fun x => sd_smem sd_sys sd_sys_eqb sd_key x m) sd_inits &&
  sd_closed_check sd_sys sd_sys_eqb sd_key (sd_succs c) m &&
  forallb sd_sys_safe elems &&
  (Z.of_nat (length elems) =? size).

Lemma sd_safety_checks_sound c n :
  sd_safety_checks c n = true -> forall s, sd_reach c s -> sd_sys_safe s = true.
Proof.
  unfold sd_safety_checks. cbv zeta. intros H s Hs.
  apply andb_true_iff in H. destruct H as [H _].
  apply andb_true_iff in H. destruct H as [H Hp]. apply andb_true_iff in H. destruct H as [Hi Hc].
  exact (sd_forall_sound sd_sys sd_sys_eqb sd_key sd_sys_eqb_eq (sd_succs c) sd_inits _ _ Hi Hc Hp s Hs).
Qed.
