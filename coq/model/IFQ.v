(* Executable model of /repo/queue.go (generic ring deque queue[T]) and /repo/payload_queue.go
   (payloadQueue, the in-flight queue of the association).  No proofs in this file.

   Conventions
   - Go `int` (head, tail, count, nBytes, capacities) is modelled as Z WITHOUT wrap: nothing in
     queue.go / payload_queue.go clamps or wraps these values, and 2^63 is out of reach of a slice
     length / a byte count in memory.
   - Go's `%` truncates towards zero: it is Z.rem (named rg_mod below), not Z.modulo.  For the
     non-negative operands that occur in every reachable state both agree (IFQProofs.rg_mod_nonneg).
   - uint32 arithmetic on TSNs wraps explicitly (wrap32, generated from /repo in Gen.v).
   - Slice accesses.  Go bounds-checks every buf[i].  IFQProofs.rg_wf_always proves that in EVERY
     state reachable from newQueue by ANY sequence of PushBack/PopFront (PopFront on an empty ring
     included) one has len(buf) >= minCap, 0 <= head < len(buf), 0 <= tail < len(buf); hence the
     accesses buf[head], buf[tail], buf[(tail-1+len)%len], buf[head:], buf[:tail] can never be out
     of range and are modelled as total reads/writes (rg_rd / rg_wr).  The only index that can
     really be out of range is At(i) with a caller-supplied negative i: rg_at is a checked read
     (None = Go's "index out of range" panic).
   - The ring is parametric in the element type; `z` is Go's zero value of T (what `var zeroVal T`
     and make([]T, n) produce). *)
From Coq Require Import ZArith Bool List.
From Sctp Require Import Gen.
Import ListNotations.
Open Scope Z_scope.

(* ------------------------------------------------------------------------------------------ *)
(* queue.go                                                                                   *)
(* ------------------------------------------------------------------------------------------ *)

Record rg (A : Type) := rg_mk {
  rg_buf : list A;   (* buf, len(buf) = capacity *)
  rg_head : Z;       (* head *)
  rg_tail : Z;       (* tail *)
  rg_count : Z       (* count *)
}.
Arguments rg_mk {A}.
Arguments rg_buf {A}.
Arguments rg_head {A}.
Arguments rg_tail {A}.
Arguments rg_count {A}.

(* Go's % (truncated remainder) *)
Definition rg_mod (a b : Z) : Z := Z.rem a b.

(* len(q.buf) *)
Definition rg_cap {A} (r : rg A) : Z := Z.of_nat (length (rg_buf r)).

(* total read / write, used where the index is provably in range (see header) *)
Definition rg_rd {A} (z : A) (l : list A) (i : Z) : A := nth (Z.to_nat i) l z.

Fixpoint rg_upd_nat {A} (l : list A) (n : nat) (x : A) : list A :=
  match l with
  | [] => []
  | h :: t => match n with O => x :: t | S n' => h :: rg_upd_nat t n' x end
  end.

Definition rg_wr {A} (l : list A) (i : Z) (x : A) : list A :=
  if i <? 0 then l else rg_upd_nat l (Z.to_nat i) x.

(* checked read: None = index out of range *)
Definition rg_rd_chk {A} (l : list A) (i : Z) : option A :=
  if i <? 0 then None else nth_error l (Z.to_nat i).

(* for queueCap < capacity { queueCap <<= 1 } ; 64 rounds suffice for every capacity <= 2^62
   (IFQProofs.rg_cap_loop_spec); larger capacities cannot be allocated anyway *)
Fixpoint rg_cap_loop (fuel : nat) (queueCap capacity : Z) : Z :=
  match fuel with
  | O => queueCap
  | S f => if queueCap <? capacity then rg_cap_loop f (Z.shiftl queueCap 1) capacity else queueCap
  end.

(* newQueue[T](capacity) *)
Definition rg_new {A} (z : A) (capacity : Z) : rg A :=
  rg_mk (repeat z (Z.to_nat (rg_cap_loop 64 c_minCap capacity))) 0 0 0.

(* Len *)
Definition rg_len {A} (r : rg A) : Z := rg_count r.

(* l[a:b] (total: callers are in range, see header) *)
Definition rg_slice {A} (l : list A) (a b : Z) : list A :=
  firstn (Z.to_nat (b - a)) (skipn (Z.to_nat a) l).

(* n := copy(dst, src): copies min(len dst, len src) elements to the front of dst *)
Definition rg_copy {A} (dst src : list A) : list A * nat :=
  let n := Nat.min (length dst) (length src) in
  (firstn n src ++ skipn n dst, n).

(* growIfFull, branch by branch *)
Definition rg_grow_if_full {A} (z : A) (r : rg A) : rg A :=
  if rg_count r <? rg_cap r then r
  else
    let newBuf := repeat z (Z.to_nat (Z.shiftl (rg_count r) 1)) in
    let nb :=
      if rg_head r <? rg_tail r then                       (* q.tail > q.head *)
        fst (rg_copy newBuf (rg_slice (rg_buf r) (rg_head r) (rg_tail r)))
      else
        let '(nb1, n) := rg_copy newBuf (rg_slice (rg_buf r) (rg_head r) (rg_cap r)) in
        firstn n nb1 ++ fst (rg_copy (skipn n nb1) (rg_slice (rg_buf r) 0 (rg_tail r)))
    in
    rg_mk nb 0 (rg_count r) (rg_count r).

(* PushBack *)
Definition rg_push_back {A} (z : A) (r : rg A) (x : A) : rg A :=
  let r1 := rg_grow_if_full z r in
  rg_mk (rg_wr (rg_buf r1) (rg_tail r1) x)
        (rg_head r1)
        (rg_mod (rg_tail r1 + 1) (rg_cap r1))
        (rg_count r1 + 1).

(* PopFront.  There is NO emptiness guard in the Go code: on an empty ring it returns buf[head]
   (the zero value or a stale element), clears the slot, advances head and makes count negative. *)
Definition rg_pop_front {A} (z : A) (r : rg A) : A * rg A :=
  (rg_rd z (rg_buf r) (rg_head r),
   rg_mk (rg_wr (rg_buf r) (rg_head r) z)
         (rg_mod (rg_head r + 1) (rg_cap r))
         (rg_tail r)
         (rg_count r - 1)).

(* Front / Back: no guard either *)
Definition rg_front {A} (z : A) (r : rg A) : A := rg_rd z (rg_buf r) (rg_head r).
Definition rg_back {A} (z : A) (r : rg A) : A :=
  rg_rd z (rg_buf r) (rg_mod (rg_tail r - 1 + rg_cap r) (rg_cap r)).

(* At(i) = buf[(head+i) % len(buf)]; no check of i against count; panics iff the Go remainder is
   negative (only possible for i < -head) *)
Definition rg_at {A} (r : rg A) (i : Z) : option A :=
  rg_rd_chk (rg_buf r) (rg_mod (rg_head r + i) (rg_cap r)).

(* NOT a method of queue[T].  The in-flight queue stores *chunkPayloadData; markAsAcked and
   markAllToRetrasmit mutate the pointee obtained from At(i).  With values instead of pointers in
   the model this is a write to the slot At(i) reads.  (Sound as long as no pointer is stored twice
   in the ring; the association moves each chunk from the pending queue exactly once.) *)
Definition rg_set_at {A} (r : rg A) (i : Z) (x : A) : rg A :=
  rg_mk (rg_wr (rg_buf r) (rg_mod (rg_head r + i) (rg_cap r)) x) (rg_head r) (rg_tail r) (rg_count r).

(* abstraction function: the count elements starting at head, wrapping around the buffer end.
   Also used by the comparator for the canonical dump. *)
Definition rg_to_list {A} (r : rg A) : list A :=
  firstn (Z.to_nat (rg_count r))
         (skipn (Z.to_nat (rg_head r)) (rg_buf r) ++ firstn (Z.to_nat (rg_head r)) (rg_buf r)).

(* ring operations as data *)
Inductive rg_op (A : Type) := rg_op_push (x : A) | rg_op_pop.
Arguments rg_op_push {A}.
Arguments rg_op_pop {A}.

Definition rg_step {A} (z : A) (r : rg A) (o : rg_op A) : rg A :=
  match o with
  | rg_op_push x => rg_push_back z r x
  | rg_op_pop => snd (rg_pop_front z r)
  end.

Definition rg_run {A} (z : A) (r : rg A) (ops : list (rg_op A)) : rg A := fold_left (rg_step z) ops r.

(* ------------------------------------------------------------------------------------------ *)
(* payload_queue.go                                                                           *)
(* ------------------------------------------------------------------------------------------ *)

(* projection of chunkPayloadData the queue looks at *)
Record ichunk := ic_mk {
  ic_id : Z;        (* identity of the pointer (harness side table); 0 = nil *)
  ic_tsn : Z;       (* tsn, uint32 *)
  ic_len : Z;       (* len(userData) *)
  ic_acked : bool;  (* acked *)
  ic_rtx : bool;    (* retransmit *)
  ic_aband : bool   (* value of abandoned(): opaque for the queue (head/_abandoned/_allInflight) *)
}.

(* stand-in for the nil pointer in unused slots *)
Definition ic_zero : ichunk := ic_mk 0 0 0 false false false.

Record ifq := ifq_mk {
  ifq_chunks : rg ichunk;  (* chunks *)
  ifq_nbytes : Z           (* nBytes (Go int; no clamp anywhere in payload_queue.go) *)
}.

(* newPayloadQueue *)
Definition ifq_new : ifq := ifq_mk (rg_new ic_zero 128) 0.

(* pushNoCheck *)
Definition ifq_push_no_check (q : ifq) (c : ichunk) : ifq :=
  ifq_mk (rg_push_back ic_zero (ifq_chunks q) c) (ifq_nbytes q + ic_len c).

(* pop: only if the oldest chunk's TSN matches *)
Definition ifq_pop (q : ifq) (tsn : Z) : ifq * option ichunk :=
  if (0 <? rg_len (ifq_chunks q)) && (tsn =? ic_tsn (rg_front ic_zero (ifq_chunks q))) then
    let '(c, r) := rg_pop_front ic_zero (ifq_chunks q) in
    (ifq_mk r (ifq_nbytes q - ic_len c), Some c)
  else (q, None).

(* offset := tsn - Front().tsn   (uint32) *)
Definition ifq_offset (q : ifq) (tsn : Z) : Z :=
  wrap32 (tsn - ic_tsn (rg_front ic_zero (ifq_chunks q))).

(* get.  Note: never compares the TSN of the chunk found with the TSN asked for.
   The result None stands for (nil,false); the At inside cannot panic because offset >= 0
   (IFQProofs.ifq_get_none_iff shows None arises only from the two guards). *)
Definition ifq_get (q : ifq) (tsn : Z) : option ichunk :=
  let length := rg_len (ifq_chunks q) in
  if length =? 0 then None
  else
    let offset := ifq_offset q tsn in
    if length <=? offset then None      (* int64(offset) >= int64(length) *)
    else rg_at (ifq_chunks q) offset.

(* the chunk after markAsAcked touched it: acked = true, retransmit = false, userData = []byte{} *)
Definition ic_set_acked (c : ichunk) : ichunk :=
  ic_mk (ic_id c) (ic_tsn c) 0 true false (ic_aband c).

(* markAsAcked: returns nBytesAcked *)
Definition ifq_mark_as_acked (q : ifq) (tsn : Z) : ifq * Z :=
  match ifq_get q tsn with
  | Some c =>
      let n := ic_len c in
      (ifq_mk (rg_set_at (ifq_chunks q) (ifq_offset q tsn) (ic_set_acked c)) (ifq_nbytes q - n), n)
  | None => (q, 0)
  end.

Definition ic_set_rtx (c : ichunk) : ichunk :=
  ic_mk (ic_id c) (ic_tsn c) (ic_len c) (ic_acked c) true (ic_aband c).

(* for i := 0; i < Len(); i++ { c := At(i); if c.acked || c.abandoned() {continue}; c.retransmit = true }
   n = remaining iterations, i = loop variable *)
Fixpoint ifq_mark_loop (n : nat) (i : Z) (r : rg ichunk) : rg ichunk :=
  match n with
  | O => r
  | S n' =>
      match rg_at r i with
      | None => r   (* index-out-of-range panic; unreachable for i >= 0 (IFQProofs.rg_at_in_range) *)
      | Some c =>
          let r' := if ic_acked c || ic_aband c then r else rg_set_at r i (ic_set_rtx c) in
          ifq_mark_loop n' (i + 1) r'
      end
  end.

(* markAllToRetrasmit *)
Definition ifq_mark_all_to_retransmit (q : ifq) : ifq :=
  ifq_mk (ifq_mark_loop (Z.to_nat (rg_len (ifq_chunks q))) 0 (ifq_chunks q)) (ifq_nbytes q).

(* getNumBytes / size *)
Definition ifq_get_num_bytes (q : ifq) : Z := ifq_nbytes q.
Definition ifq_size (q : ifq) : Z := rg_len (ifq_chunks q).

(* in-flight queue operations as data *)
Inductive ifq_op :=
| ifq_op_push (c : ichunk)
| ifq_op_pop (tsn : Z)
| ifq_op_ack (tsn : Z)
| ifq_op_rtx_all.

Definition ifq_step (q : ifq) (o : ifq_op) : ifq :=
  match o with
  | ifq_op_push c => ifq_push_no_check q c
  | ifq_op_pop t => fst (ifq_pop q t)
  | ifq_op_ack t => fst (ifq_mark_as_acked q t)
  | ifq_op_rtx_all => ifq_mark_all_to_retransmit q
  end.

Definition ifq_run (q : ifq) (ops : list ifq_op) : ifq := fold_left ifq_step ops q.
