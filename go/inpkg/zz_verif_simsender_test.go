// Verification harness: step-commuting records for the sender model (coq/model/Sender.v).
// For every harness event that touches the sender's acknowledgement / window / byte-accounting
// state, the projection of the association before and after the event is written together with
// the event; /verif/ocaml/cmp_sender.ml replays each record independently on the extracted model.
package sctp

import (
	"bufio"
	"fmt"
	"sort"
	"strings"
	"sync"
	"testing"
)

type sndSnap struct {
	line  string
	nxt   uint32
	t3    uint64
	infl  []*chunkPayloadData
	rtx   []bool
	nsent []uint32
	sids  []uint16
	lens  []int
	state uint32
	tlr   bool
	nInfl int
}

func sndSnapshot(a *Association) sndSnap {
	a.lock.RLock()
	defer a.lock.RUnlock()
	var sb strings.Builder
	front := uint32(0)
	n := a.inflightQueue.chunks.Len()
	if n > 0 {
		front = a.inflightQueue.chunks.Front().tsn
	}
	fmt.Fprintf(&sb, "%d %d %d %d %d %d %d %d %d %d %d %d %d %d %d %d %d",
		a.getState(), a.cumulativeTSNAckPoint, front, a.inflightQueue.nBytes, a.CWND(), a.RWND(), a.ssthresh,
		a.partialBytesAcked, b2i(a.inFastRecovery), a.fastRecoverExitPoint, b2i(a.willRetransmitFast),
		a.MTU(), a.minCwnd, a.cwndCAStep, a.pendingQueue.size(), a.pendingQueue.getNumBytes(), n)
	snap := sndSnap{nxt: a.myNextTSN, t3: a.stats.getNumT3Timeouts(), state: a.getState(), tlr: a.tlrActive, nInfl: n}
	for i := 0; i < n; i++ {
		c := a.inflightQueue.chunks.At(i)
		fmt.Fprintf(&sb, " %d %d %d %d %d %d", c.streamIdentifier, len(c.userData), b2i(c.acked), b2i(c.abandoned()), c.missIndicator, b2i(c.retransmit))
		snap.infl = append(snap.infl, c)
		snap.rtx = append(snap.rtx, c.retransmit)
		snap.nsent = append(snap.nsent, c.nSent)
		snap.sids = append(snap.sids, c.streamIdentifier)
		snap.lens = append(snap.lens, len(c.userData))
	}
	ids := make([]int, 0, len(a.streams))
	for id := range a.streams {
		ids = append(ids, int(id))
	}
	sort.Ints(ids)
	fmt.Fprintf(&sb, " %d", len(ids))
	for _, id := range ids {
		fmt.Fprintf(&sb, " %d %d", id, a.streams[uint16(id)].BufferedAmount())
	}
	snap.line = sb.String()
	return snap
}

type sndRecorder struct {
	mu       *sync.Mutex
	w        *bufio.Writer
	n        *int
	kinds    map[string]int
	pre      [2]sndSnap
	skipped  *int
	injected bool // also record packets that fail the package's checksum / decode (they must be no-ops)
}

func (r *sndRecorder) before(s *sim, ev *simEvent) {
	for side := 0; side < 2; side++ {
		if s.assoc[side] != nil {
			r.pre[side] = sndSnapshot(s.assoc[side])
		}
	}
}

func onlyDataPathChunks(p *packet) bool {
	for _, c := range p.chunks {
		switch c.(type) {
		case *chunkPayloadData, *chunkSelectiveAck:
		default:
			return false
		}
	}
	return true
}

func (r *sndRecorder) after(s *sim, ev *simEvent) {
	emit := func(side int, evline string) {
		a := s.assoc[side]
		if a == nil {
			return
		}
		pre := r.pre[side]
		post := sndSnapshot(a)
		// new first transmissions: chunks with TSN >= pre.nxt, in TSN order
		nNew := int(post.nxt - pre.nxt)
		if nNew < 0 || nNew > len(post.infl) {
			*r.skipped++
			return
		}
		var sb strings.Builder
		fmt.Fprintf(&sb, "sends %d", nNew)
		for i := len(post.infl) - nNew; i < len(post.infl); i++ {
			fmt.Fprintf(&sb, " %d %d", post.sids[i], post.lens[i])
		}
		fmt.Fprintf(&sb, " %d %d", pre.nxt, b2i(pre.tlr || post.tlr))
		// oracle: chunks that RACK declared lost during this event = chunks that were original transmissions
		// without a retransmit mark before the event, are still in flight and unacknowledged after it, have a
		// miss count below 3 (so it was not the fast-retransmit rule) and were marked for retransmission or
		// already retransmitted by the gather that follows the event (a T3 expiry marks everything: it is its
		// own record kind; the PTO probe is timer-driven and cannot occur inside a packet delivery)
		rack := 0
		if !strings.HasPrefix(evline, "t3") {
			was := map[*chunkPayloadData]bool{}
			for i, c := range pre.infl {
				was[c] = !pre.rtx[i] && pre.nsent[i] == 1
			}
			a.lock.RLock()
			for _, c := range post.infl {
				if w, ok := was[c]; ok && w && !c.acked && c.missIndicator < 3 && (c.retransmit || c.nSent > 1) {
					rack++
				}
			}
			a.lock.RUnlock()
		}
		r.mu.Lock()
		defer r.mu.Unlock()
		*r.n++
		fmt.Fprintf(r.w, "case s%d\npre %s\nev %s\n%s\nrack %d\npost %s\n", *r.n, pre.line, evline, sb.String(), rack, post.line)
	}
	switch ev.kind {
	case "deliver":
		if ev.pkt.pkt == nil || !onlyDataPathChunks(ev.pkt.pkt) {
			return
		}
		for _, c := range ev.pkt.pkt.chunks {
			if v, ok := c.(*chunkSelectiveAck); ok {
				var sb strings.Builder
				fmt.Fprintf(&sb, "sack %d %d %d", v.cumulativeTSNAck, v.advertisedReceiverWindowCredit, len(v.gapAckBlocks))
				for _, g := range v.gapAckBlocks {
					fmt.Fprintf(&sb, " %d %d", g.start, g.end)
				}
				r.kinds["sack"]++
				emit(ev.side, sb.String())
				return
			}
		}
	case "write":
		if ev.err != nil || ev.n == 0 {
			return
		}
		a := s.assoc[ev.side]
		// fragment lengths as packetize computes them
		var sb strings.Builder
		mp := int(a.maxPayloadSize)
		nfr := (ev.n + mp - 1) / mp
		fmt.Fprintf(&sb, "write %d %d", ev.sid, nfr)
		rem := ev.n
		for rem > 0 {
			f := rem
			if f > mp {
				f = mp
			}
			fmt.Fprintf(&sb, " %d", f)
			rem -= f
		}
		r.kinds["write"]++
		emit(ev.side, sb.String())
	case "advance":
		for side := 0; side < 2; side++ {
			a := s.assoc[side]
			if a == nil {
				continue
			}
			k := a.stats.getNumT3Timeouts() - r.pre[side].t3
			if k == 1 {
				r.kinds["t3"]++
				emit(side, "t3")
			} else if k > 1 {
				*r.skipped++
			}
		}
	}
}

// TestVerifSimSender runs transfer scenarios and records sender step-commuting records.
func TestVerifSimSender(t *testing.T) {
	seed := verifEnvInt("VERIF_SEED", 1)
	n := int(verifEnvInt("VERIF_N", 40))
	nEvents := int(verifEnvInt("VERIF_EVENTS", 250))
	w, done := verifOut(t, "/tmp/verif_sender.trace")
	defer done()
	var mu sync.Mutex
	cnt, skipped := 0, 0
	kinds := map[string]int{}
	simObserverFactory = func() []simObserver {
		return []simObserver{&sndRecorder{mu: &mu, w: w, n: &cnt, kinds: kinds, skipped: &skipped}}
	}
	defer func() { simObserverFactory = nil }()
	st := &xferStats{faults: map[string]int{}}
	for i := 0; i < n; i++ {
		fails := runTransferScenario(t, seed*1000003+int64(i), nEvents, st)
		st.scenarios++
		st.fails += len(fails)
	}
	fmt.Printf("SIMSENDER scenarios=%d records=%d sack=%d write=%d t3=%d skipped=%d monitor_fails=%d\n",
		st.scenarios, cnt, kinds["sack"], kinds["write"], kinds["t3"], skipped, st.fails)
}
