(* Executable model of the float part of rtx_timer.go: rtoManager (setNewRTT, getRTO, reset, setRTO),
   calculateNextTimeout, and of math.Max / math.Min as written in $GOROOT/src/math/dim.go
   (functions max / min; the amd64 assembly archMax / archMin is compared against them by the
   differential).  No proofs in this file.

   Floats are Coq primitive floats = IEEE 754 binary64, round-to-nearest-even = Go float64 on amd64
   (GOAMD64=v1: no fused multiply-add; every operation below is rounded individually, in the same
   order as the Go expression).  Go constant expressions such as (1-rtoBeta) are evaluated exactly
   by the compiler and then rounded; 0.75 and 0.875 are exact, so the float subtraction below gives
   the same constant. *)
From Coq Require Import ZArith Bool List Floats.
Import ListNotations.
Open Scope float_scope.

(* ---------- constants of rtx_timer.go (float constants are not handled by the translator; the
   differential compares them bit for bit with the Go constants: record "consts") ---------- *)
Definition rto_initial : float := 1000.      (* rtoInitial = 1.0 * 1000 *)
Definition rto_min : float := 1000.          (* rtoMin *)
Definition rto_default_max : float := 60000. (* defaultRTOMax *)
Definition rto_alpha : float := 0.125.       (* rtoAlpha *)
Definition rto_beta : float := 0.25.         (* rtoBeta *)

(* ---------- math.Max / math.Min (dim.go: func max, func min) ---------- *)
Definition rto_isnan (x : float) : bool := negb (x =? x).            (* IsNaN: f != f *)
Definition rto_isinf_pos (x : float) : bool := (x =? infinity).      (* IsInf(f, 1): f > MaxFloat64 *)
Definition rto_isinf_neg (x : float) : bool := (x =? neg_infinity).  (* IsInf(f,-1): f < -MaxFloat64 *)
Definition rto_signbit (x : float) : bool := get_sign x.             (* only used on zeros *)

Definition rto_gomax (x y : float) : float :=
  if rto_isinf_pos x || rto_isinf_pos y then infinity
  else if rto_isnan x || rto_isnan y then nan
  else if (x =? 0) && (x =? y) then (if rto_signbit x then y else x)
  else if y <? x then x          (* x > y *)
  else y.

Definition rto_gomin (x y : float) : float :=
  if rto_isinf_neg x || rto_isinf_neg y then neg_infinity
  else if rto_isnan x || rto_isnan y then nan
  else if (x =? 0) && (x =? y) then (if rto_signbit x then x else y)
  else if x <? y then x
  else y.

(* ---------- rtoManager ---------- *)
Record rtomgr := mkRtomgr {
  rm_srtt : float;
  rm_rttvar : float;
  rm_rto : float;
  rm_noupdate : bool;
  rm_rtomax : float
}.

(* newRTOManager *)
Definition rto_new (rtoMax : float) : rtomgr :=
  mkRtomgr 0 0 rto_initial false (if rtoMax =? 0 then rto_default_max else rtoMax).

(* m.rto = math.Min(math.Max(m.srtt+4*m.rttvar, rtoMin), m.rtoMax) *)
Definition rto_clamp (srtt rttvar rtoMax : float) : float :=
  rto_gomin (rto_gomax (srtt + 4 * rttvar) rto_min) rtoMax.

(* the new (srtt, rttvar) pair of setNewRTT *)
Definition rto_smooth (srtt rttvar rtt : float) : float * float :=
  if srtt =? 0 then (rtt, rtt / 2)
  else
    let rttvar' := (1 - rto_beta) * rttvar + rto_beta * abs (srtt - rtt) in
    let srtt' := (1 - rto_alpha) * srtt + rto_alpha * rtt in
    (srtt', rttvar').

(* setNewRTT: returns the new manager and the returned srtt *)
Definition rto_set_new_rtt (m : rtomgr) (rtt : float) : rtomgr * float :=
  if rm_noupdate m then (m, rm_srtt m)
  else
    let '(s, v) := rto_smooth (rm_srtt m) (rm_rttvar m) rtt in
    (mkRtomgr s v (rto_clamp s v (rm_rtomax m)) false (rm_rtomax m), s).

Definition rto_get (m : rtomgr) : float := rm_rto m.

Definition rto_reset (m : rtomgr) : rtomgr :=
  if rm_noupdate m then m
  else mkRtomgr 0 0 rto_initial false (rm_rtomax m).

Definition rto_set_rto (m : rtomgr) (rto : float) (noUpdate : bool) : rtomgr :=
  mkRtomgr (rm_srtt m) (rm_rttvar m) rto noUpdate (rm_rtomax m).

(* run a whole sample sequence *)
Definition rto_run (m : rtomgr) (samples : list float) : rtomgr :=
  fold_left (fun m r => fst (rto_set_new_rtt m r)) samples m.

(* ---------- calculateNextTimeout ---------- *)
(* float64(1 << nRtos) for nRtos < 31 *)
Definition rto_pow2 (n : Z) : float := of_uint63 (Uint63.of_Z (2 ^ n)).

Definition rto_next_timeout (rto : float) (nRtos : Z) (rtoMax : float) : float :=
  if (nRtos <? 31)%Z then rto_gomin (rto * rto_pow2 nRtos) rtoMax
  else rtoMax.

(* ---------- bit patterns (math.Float64bits / Float64frombits), used only by the differential ---------- *)
Open Scope Z_scope.

Definition rto_of_bits (b : Z) : float :=
  let s := Z.testbit b 63 in
  let e := (b / 4503599627370496) mod 2048 in
  let m := b mod 4503599627370496 in
  SF2Prim
    (if e =? 2047 then (if m =? 0 then S754_infinity s else S754_nan)
     else if e =? 0 then
       match m with
       | Zpos p => S754_finite s p (-1074)
       | _ => S754_zero s
       end
     else
       match m + 4503599627370496 with
       | Zpos p => S754_finite s p (e - 1075)
       | _ => S754_nan
       end).

(* every NaN is reported as the canonical quiet NaN 0x7FF8000000000000 (the harness does the same) *)
Definition rto_nan_bits : Z := 9221120237041090560.

Definition rto_to_bits (x : float) : Z :=
  match Prim2SF x with
  | S754_zero s => if s then 9223372036854775808 else 0
  | S754_infinity s => (if s then 9223372036854775808 else 0) + 9218868437227405312
  | S754_nan => rto_nan_bits
  | S754_finite s m e =>
      (if s then 9223372036854775808 else 0) +
      (if 4503599627370496 <=? Zpos m then (e + 1075) * 4503599627370496 + (Zpos m - 4503599627370496)
       else Zpos m)
  end.

(* ---------- replay of harness records inside Coq (DESIGN 2.4 float path) ---------- *)
(* state dump: bits of srtt, rttvar, rto, rtoMax and the noUpdate flag *)
Definition rto_dump (m : rtomgr) : list Z :=
  [rto_to_bits (rm_srtt m); rto_to_bits (rm_rttvar m); rto_to_bits (rm_rto m);
   rto_to_bits (rm_rtomax m); if rm_noupdate m then 1 else 0].

Inductive rto_op :=
| RNew (rtoMax : Z) (dump : list Z)
| RRtt (rtt ret : Z) (dump : list Z)
| RReset (dump : list Z)
| RSet (rto : Z) (noUpdate : bool) (dump : list Z)
| RGet (ret : Z)
| RNto (rto n rtoMax ret : Z)       (* calculateNextTimeout *)
| RMax (x y ret : Z)                (* math.Max *)
| RMin (x y ret : Z)                (* math.Min *)
| RConsts (l : list Z).             (* rtoInitial rtoMin defaultRTOMax rtoAlpha rtoBeta *)

Definition rto_leqb (a b : list Z) : bool :=
  (Nat.eqb (length a) (length b)) && forallb (fun p => fst p =? snd p) (combine a b).

(* one record: new state and whether the model agrees with the observation *)
Definition rto_replay_op (m : rtomgr) (o : rto_op) : rtomgr * bool :=
  match o with
  | RNew mx d => let m' := rto_new (rto_of_bits mx) in (m', rto_leqb (rto_dump m') d)
  | RRtt r ret d =>
      let '(m', s) := rto_set_new_rtt m (rto_of_bits r) in
      (m', (rto_to_bits s =? ret) && rto_leqb (rto_dump m') d)
  | RReset d => let m' := rto_reset m in (m', rto_leqb (rto_dump m') d)
  | RSet r nu d => let m' := rto_set_rto m (rto_of_bits r) nu in (m', rto_leqb (rto_dump m') d)
  | RGet ret => (m, rto_to_bits (rto_get m) =? ret)
  | RNto r n mx ret => (m, rto_to_bits (rto_next_timeout (rto_of_bits r) n (rto_of_bits mx)) =? ret)
  | RMax x y ret => (m, rto_to_bits (rto_gomax (rto_of_bits x) (rto_of_bits y)) =? ret)
  | RMin x y ret => (m, rto_to_bits (rto_gomin (rto_of_bits x) (rto_of_bits y)) =? ret)
  | RConsts l => (m, rto_leqb (map rto_to_bits [rto_initial; rto_min; rto_default_max; rto_alpha; rto_beta]) l)
  end.

(* a case is a list of records replayed from a fresh manager; the result lists the indices
   (case number, record number) where model and implementation differ *)
Fixpoint rto_replay_case (cid : Z) (m : rtomgr) (i : Z) (ops : list rto_op) : list (Z * Z) :=
  match ops with
  | [] => []
  | o :: rest =>
      let '(m', ok) := rto_replay_op m o in
      if ok then rto_replay_case cid m' (i + 1) rest
      else (cid, i) :: rto_replay_case cid m' (i + 1) rest
  end.

Definition rto_mismatches (cases : list (Z * list rto_op)) : list (Z * Z) :=
  flat_map (fun c => rto_replay_case (fst c) (rto_new (rto_of_bits 0)) 0 (snd c)) cases.

Definition rto_count (cases : list (Z * list rto_op)) : Z :=
  fold_left (fun a c => a + Z.of_nat (length (snd c))) cases 0.
