"""C02 — no permanent stall: once the network heals, reliable data is delivered, drained (PARTIAL)."""
import vlib, simcommon

PROP = "C02"
PROPS_FILE = "props/C02.v"
COQ_FILES = ["gen/Gen.v", "proofs/SnaProofs.v", "model/Sender.v", "proofs/SenderProofs.v", "model/RPQ.v", "proofs/RPQProofs.v",
             "model/RQ.v", "proofs/RQProofs.v", "model/TimerFsm.v", "proofs/TimerProofs.v", "proofs/RPQWordProofs.v",
             "model/Live.v", "proofs/LiveSender.v", "proofs/LiveProofs.v", "proofs/LiveReach.v", "props/C02.v"]
TRUSTED_BASE = [
    "Coq 8.16.1 kernel; vm_compute only in Examples; no native_compute",
    "hand-written models Sender.v (T3 branch, retransmission selection, admission / probe), RPQ.v (receive bitmap), RQ.v (admission at zero "
    "credit), TimerFsm.v (rtxTimer)",
    "extraction + comparators of those components; simulator harness (overlay, synctest, go1.26.8)",
    "modelled, not verified: goroutine wake-ups (awakeWriteLoop), the wall-clock bound, RACK/PTO timers (they add retransmission sources, "
    "never remove T3); the composed round coq/model/Live.v is glue over functions that are each tied to the code by their own "
    "correspondence (t3_step / rtx_select / sack_step: sender step records; can_push / push / pop / gap_blocks: RPQ differential; "
    "rq_admit: RQ window monitor) - the order of the glue (T3, retransmission, delivery, SACK, delivery) is the fault-free network itself",
]
ASSUMPTIONS = [
    "PARTIAL: proved are the ingredients (T3 never gives up; T3 marks everything outstanding; the lowest outstanding chunk is always "
    "retransmittable; the probe path; the receiver always takes the lowest missing TSN and gap fills at zero credit; acknowledgements never "
    "grow the outstanding byte count; cwnd >= MTU) AND their composition: from any state satisfying the link invariant LInv - which is proved to hold in EVERY reachable state of the two-endpoint system under "
    "arbitrary loss / duplication / delay / reordering of DATA and SACKs (LiveReach.v) - every "
    "fault-free T3 round advances the cumulative ack by >= 1 chunk (2^32 wrap included), the genuine SACK is never rejected, the invariant "
    "is re-established, and the in-flight queue is empty after at most n rounds. Not proved: pending (not yet sent) data beyond the probe lemma, FORWARD-TSN / stream resets in the composed system, and "
    "the wall-clock bound (each round <= one RTO <= RTO.max by C19), which is checked on the implementation in virtual time.",
    "hypotheses of theorems 9-11 = hypotheses of the property: reliable chunks of at most one MTU; positive window credit when the lowest "
    "outstanding chunk arrives (application reads, messages fit); the retransmission gate admits one MTU-sized chunk",
    "workloads whose in-progress messages fit the receive buffer (hypothesis of the property)",
]
LEVEL_TEXT = ("Coq theorems for each ingredient of the no-stall argument over all states / histories of the sender, receive-queue and "
              "timer models, and for their composition into a two-endpoint fault-free retransmission round that provably advances the "
              "cumulative ack and drains the in-flight queue within n rounds from any state satisfying the link invariant (see props/C02.v); "
              "the preservation of that invariant by arbitrary histories and the time bound (a few RTO.max) are searched for counterexamples on "
              "real associations in virtual time: random fault prefixes followed by a fault-free suffix must end with everything "
              "delivered and zero buffered bytes; zero-window episodes with a pausing reader; at every quiescent point outstanding "
              "data must have T3 armed and queued data must have something in flight.")
LEVEL_NOTE = ("Partial: a liveness theorem over goroutine schedules and wall-clock time is outside what the model carries. Trusted: Coq kernel, hand "
              "models, extraction, simulator.")
TECHNIQUE = "Coq proof of the progress lemmas and of the composed fault-free round (drain within n rounds) + step-commuting correspondence + heal-and-drain simulation"


def correspondence(ctx):
    vlib.differential(ctx, "sender-step-commuting", "TestVerifSimSender", "sender",
                      {"VERIF_N": ctx.scale(40, 1500), "VERIF_EVENTS": 250}, timeout=3000)
    simcommon.transfer(ctx, quick=80, thorough=3000)
    simcommon.sim_monitor(ctx, "zero-window-episodes", "TestVerifScenZeroWindow", {}, "SCENZEROWND")


def search(ctx):
    simcommon.sim_monitor(ctx, "sim-transfer-wide", "TestVerifSimTransfer",
                          {"VERIF_N": 800, "VERIF_EVENTS": 300, "VERIF_SEED": ctx.seed + 17}, "SIMTRANSFER")
