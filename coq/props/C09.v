(* C09 — teardown (partial: goroutine scheduling and the Go runtime are modelled, not verified).
   Model: coq/model/Teardown.v — one association; readLoop, writeLoop, timerLoop, timer callbacks and the
   callers blocked in Client/Server (which closes the association when the handshake fails), ReadSCTP,
   blocking WriteSCTP, AcceptStream, Shutdown (nil / ErrShutdownIncomplete), Close, Abort are
   program-counter automata over channels (closed or not), sync.Once guards, a.lock and the stream condition
   variable; the step relation is the interleaving of all enabled automata steps.  A family fixes the phase
   (handshake / established / shutdown), the blocked caller and the one injection (Close call, Abort call,
   conn.Read failing, conn.Write failing, inbound ABORT) that may happen at any point of the run, once.
   td_reach c s: s is reachable in family c.  Only statements closed by [exact] + Print Assumptions. *)
From Coq Require Import Bool List PArith NArith.
From Sctp Require Import Gen Teardown TeardownProofs TeardownHsProofs TeardownEstProofs TeardownSdProofs
  TeardownClose2Proofs TeardownT1Proofs TeardownDlProofs TeardownMainProofs.
Import ListNotations.

(* The generic closure lemma: a set that contains the initial state and is closed under the step relation
   contains every reachable state (induction on runs).  The reachable sets are computed by a worklist and
   certified with it. *)
Theorem c09_closure : forall c (P : td_state -> Prop),
  P (td_init c) -> td_closed_under_step c P -> forall s, td_reach c s -> P s.
Proof. exact td_closure. Qed.
Print Assumptions c09_closure.

(* (a) all_terminate.  In every family (3 phases x 5 injections x 3 blocked callers, the families with a
   further Close() racing with everything, and the handshake families in which T1 may exhaust its
   retransmissions) a reachable state without an enabled step has every goroutine
   automaton at its end and every caller returned: no deadlocked configuration is reachable, before or after
   the injection. *)
Theorem c09_all_terminate : forall c s, In c td_all_families -> td_reach c s ->
  td_steps c s = [] -> td_done s = true.
Proof. exact td_all_terminate. Qed.
Print Assumptions c09_all_terminate.

(* what "finished" means *)
Theorem c09_done_means : forall s, td_done s = true ->
  td_rl s = TdRlDone /\ td_wl s = TdWlDone /\ td_tl s = true /\ td_tcl s = true /\ td_lk s = false /\
  (td_cw s = TdCwNone \/ td_cw s = TdCwOk \/ td_cw s = TdCwHsErr \/ td_cw s = TdCwClosed) /\
  td_rd s <> TdRdParked /\ td_rd s <> TdRdCheck /\ td_wr s <> TdWrBlocked /\
  td_wr s <> TdWrWoken /\ td_ac s <> TdAcWait /\ td_sh s <> TdShWait /\ td_sh s <> TdShWoken /\
  (td_c1 s = TdCcNone \/ td_c1 s = TdCcRet) /\ (td_c2 s = TdCcNone \/ td_c2 s = TdCcRet) /\
  (td_ab s = TdAbNone \/ td_ab s = TdAbRet) /\ td_dl s <> TdDlArmed.
Proof. exact td_done_spec. Qed.
Print Assumptions c09_done_means.

(* (a) progress.  From every reachable state a finished state is reachable (rank certificate: backward
   closure from the finished states).  The injection of a family happens at most once, so from a state after
   the injection the finished state is reached by steps of the association's goroutines, its timers, the
   callers and inbound packets only.  Under a scheduler that does not starve an enabled goroutine for ever
   this is termination; fairness itself is not modelled. *)
Theorem c09_progress : forall c s, In c td_all_families -> td_reach c s ->
  exists t, td_star c s t /\ td_done t = true.
Proof. exact td_progress. Qed.
Print Assumptions c09_progress.

(* (b) no_write_after_close.  After this side closed the conn at most one conn.Write is attempted in the whole
   run: the write of a packet the loop had gathered before.  It returns an error (nothing reaches the
   transport), and the loop leaves through closeNetConn. *)
Theorem c09_no_write_after_close : forall c s, In c td_all_families -> td_reach c s -> td_wac s <> TdCnt2.
Proof. exact td_no_write_after_close. Qed.
Print Assumptions c09_no_write_after_close.

Theorem c09_write_after_close_fails : forall s t, td_connc s = true ->
  (td_wl s = TdWlWrAbort \/ td_wl s = TdWlWr1 \/ td_wl s = TdWlWr2 \/ td_wl s = TdWlWrFin) ->
  In t (td_write s) -> td_wl t = TdWlFailConn /\ td_wac t = td_cnt_succ (td_wac s).
Proof. exact td_write_after_close_fails. Qed.
Print Assumptions c09_write_after_close_fails.

(* (c) close_idempotent.  Once a first Close() has returned, every step of a further Close() — at any
   reachable state, whatever else is still running — changes nothing but its own program counter, and it is
   never blocked.  (A third call is in the same situation as the second.)  Two concurrent Close() calls are
   covered by c09_all_terminate / c09_channels_closed_once on td_families_close2. *)
Theorem c09_close_idempotent : forall c s, In c td_all_families -> td_reach c s -> td_c1 s = TdCcRet ->
  (forall t, In t (td_close_caller td_c2 td_set_c2 s) -> td_set_c2 (td_c2 s) t = s) /\
  (td_c2 s <> TdCcNone -> td_c2 s <> TdCcRet -> td_close_caller td_c2 td_set_c2 s <> []).
Proof. exact td_close_idempotent. Qed.
Print Assumptions c09_close_idempotent.

(* (d) abort_carries_cause.  td_pab is the cause of the ABORT chunk the environment delivered (two values).
   A reader returns an abort error only with that cause; and when the association has finished after an
   ABORT was handled, the error stored for readers (handleAbort's result -> closeErr -> unregisterStream ->
   readErr) is that cause, and a reader that was blocked got it (or had returned data before). *)
Theorem c09_abort_carries_cause : forall c s, In c td_all_families -> td_reach c s ->
  (td_rd s = TdRdRetAb0 -> td_pab s = TdCeAbort0) /\
  (td_rd s = TdRdRetAb1 -> td_pab s = TdCeAbort1) /\
  (forall e, e = TdCeAbort0 \/ e = TdCeAbort1 -> td_pab s = e -> td_done s = true ->
     td_rerr s = e /\ (td_rd s = TdRdNone \/ td_rd s = TdRdRetData \/ td_rd s = td_abort_result e)).
Proof. exact td_abort_carries_cause. Qed.
Print Assumptions c09_abort_carries_cause.

(* (e) every channel is closed at most once (closeWriteLoopCh and abortSentCh through their Once guards,
   readLoopCloseCh, acceptCh; writeNotify is re-made under the lock that closes it).  Also in the families
   with T1 exhaustion. *)
Theorem c09_channels_closed_once : forall c s, In c td_all_families -> td_reach c s ->
  td_panic s = false /\ td_cwl s = td_cwlo s /\ td_abs s = td_abso s.
Proof. exact td_channels_closed_once. Qed.
Print Assumptions c09_channels_closed_once.

(* the final states the comparator (ocaml/cmp_teardown.ml) reads from the extracted model cover every
   reachable maximal run end *)
Theorem c09_outcomes_complete : forall c s, In c td_all_families -> td_reach c s ->
  td_steps c s = [] -> In (td_outcome_of s) (td_final_outcomes c).
Proof. exact td_outcomes_complete. Qed.
Print Assumptions c09_outcomes_complete.

(* (f) Shutdown() returns nil only when the shutdown sequence ran to its end (shutdownCompleted was set by a
   handled SHUTDOWN-ACK or SHUTDOWN-COMPLETE), and ErrShutdownIncomplete only when it did not: a teardown by
   Close / Abort / transport failure / inbound ABORT that interrupts the sequence gives the error (fix 568b58f). *)
Theorem c09_shutdown_result : forall c s, In c td_all_families -> td_reach c s ->
  (td_sh s = TdShNil -> td_sdc s = true) /\ (td_sh s = TdShErr -> td_sdc s = false).
Proof. exact td_shutdown_result. Qed.
Print Assumptions c09_shutdown_result.

(* T1 exhaustion during the handshake is part of td_all_families: c09_all_terminate / c09_progress hold for
   Close, Abort, conn.Read failing, conn.Write failing and an inbound ABORT.  History (notes/C09.md): the
   faithful model refuted (a) twice, both times reproduced on the implementation and repaired in /repo:
   D27 (aeda016: the connect call closes the association when the handshake result is an error) and D31
   (c7c80cb: the failure callback of T1 re-checks the state under a.lock).  The schedule of D31 — callback
   fired, handshake completed by the read loop, connect call returned the association, callback takes the lock,
   Abort() called — now leads to a state in which the callback has returned without holding the lock, Abort()
   can take its next step, and a finished state is reachable. *)
Example c09_t1_callback_race_now_harmless :
  exists s, td_reach td_cfg_t1_abort s /\
            td_follow td_cfg_t1_abort (td_init td_cfg_t1_abort) td_old_race_schedule = Some s /\
            td_cw s = TdCwOk /\ td_tf s = TdTfDone /\ td_lk s = false /\ td_ab s = TdAbFlag /\
            td_abort_caller s <> [] /\ (exists t, td_star td_cfg_t1_abort s t /\ td_done t = true).
Proof. exact td_old_race_harmless. Qed.
Print Assumptions c09_t1_callback_race_now_harmless.

Theorem c09_t1_families_are_covered : forall c, In c td_families_t1 -> In c td_all_families.
Proof.
  intros c H. unfold td_all_families. apply in_or_app. right. apply in_or_app. right. apply in_or_app. left. exact H.
Qed.
Print Assumptions c09_t1_families_are_covered.

(* A read deadline armed on a stream with nobody reading starts a goroutine (Stream.SetReadDeadline).  The
   families td_families_deadline (established, each injection) are part of td_all_families, so by
   c09_all_terminate / c09_done_means / c09_progress that goroutine has ended in every maximal run end and a
   finished state stays reachable: unregisterStream closes readTimeoutCancel when the stream gets its terminal
   error (fix 2bd54a4; before it the goroutine stayed until the deadline, D28). *)
Theorem c09_deadline_families_are_covered : forall c, In c td_families_deadline -> In c td_all_families.
Proof.
  intros c H. unfold td_all_families. apply in_or_app. right. apply in_or_app. right. apply in_or_app. right. exact H.
Qed.
Print Assumptions c09_deadline_families_are_covered.

Theorem c09_deadline_goroutine_ends : forall c s, In c td_families_deadline -> td_reach c s ->
  td_steps c s = [] -> td_dl s = TdDlDone.
Proof. exact td_deadline_goroutine_ends. Qed.
Print Assumptions c09_deadline_goroutine_ends.

(* non-vacuity: a concrete run — established, a reader blocked, Close() injected — reaches a finished state
   in which the Close() has returned and the reader got the read error *)
Example c09_example_close_run :
  let c := mkTdCfg TdPhEst TdInjClose TdMixReader false false in
  In c td_families /\
  exists s, td_reach c s /\ td_done s = true /\ td_c1 s = TdCcRet /\ td_rd s = TdRdRetRead /\ td_steps c s = [].
Proof. exact td_example_close_run. Qed.
