"""C08 — graceful shutdown: drain before SHUTDOWN, both endpoints close under loss / duplication / reordering,
crossed shutdowns, writes rejected after the call, state x chunk matrix."""
import os
import vlib, simcommon

PROP = "C08"
PROPS_FILE = "props/C08.v"
COQ_FILES = ["gen/Gen.v", "proofs/SnaProofs.v", "model/Sender.v", "proofs/SenderProofs.v",
             "model/Shutdown.v", "proofs/ShutdownProofs.v", "proofs/ShutdownInvProofs.v", "proofs/ShutdownGatherProofs.v",
             "proofs/ShutdownCrossedProofs.v", "proofs/ShutdownFailingProofs.v", "proofs/ShutdownDataProofs.v", "props/C08.v"]
TRUSTED_BASE = [
    "Coq 8.16.1 kernel; vm_compute inside proofs only for the two finite instances (certificates: 'set closed under the "
    "step relation', 'rank decreases along some step'), Examples and the refutation witness; no native_compute",
    "hand-written control abstraction coq/model/Shutdown.v of association.go (Shutdown, handleShutdown, finishShutdownHandling, "
    "handleShutdownAck, handleShutdownComplete (incl. shutdownCompleted of fix 568b58f), retransmitShutdownAck, handleInit/SHUTDOWN-ACK-SENT, handleData/SHUTDOWN-SENT, "
    "handleSack state filter + postprocessSack + advanceShutdownAfterDataDrain, onShutdownTimeout, onAckTimeout, "
    "gatherOutboundPriorityPackets/gatherOutbound/gatherOutboundShutdownPackets/gatherOutboundSackPackets, close, readLoop exit); "
    "translator for the state constants and isShutdownHandleState / entersShutdownReceived / isDataReceiveState",
    "extraction (ExtrOcamlBasic) + ocaml/cmp_sd.ml; simulator go/inpkg/zz_verif_sim_test.go + zz_verif_simsd_test.go "
    "(overlay, testing/synctest, go1.26.8): the snapshot function is the abstraction function",
    "modelled as oracles of the event, constrained by predicates the correspondence checks on every record: how many chunks "
    "an acknowledgement removes from the in-flight queue (0..in flight; stale / rejected acks), how many chunks a gather moves "
    "from the pending to the in-flight queue (0..pending), whether a gather retransmits, whether DATA asks for an immediate SACK",
    "not verified: goroutine scheduling, channels, timers' runtime, net.Conn; ABORT, RECONFIG, FORWARD-TSN and the control queue "
    "are outside the projection",
]
ASSUMPTIONS = [
    "'Shutdown returned nil => the shutdown sequence completed and both queues of the caller are empty' holds for all histories "
    "including transport failure, ABORT from the peer and a concurrent Close (c08_shutdown_nil_means_completed; finite instance "
    "c08_shutdown_nil_safe_under_failures). Before fix 568b58f the clause was refuted (finding D18, "
    "sim-C08-shutdown-nil-on-transport-failure, recorded as fixed); the witness is replayed as a regression on every run",
    "'the peer has received' rests on C05 (a cumulative ack only covers delivered TSNs) and on Sender.sack_step modelling "
    "processAcknowledgement (C10's correspondence); proved here: SHUTDOWN / SHUTDOWN ACK leave only with both queues empty (all "
    "queue sizes), and an empty in-flight queue means every chunk was removed by a cumulative acknowledgement",
    "both_close / crossed_close are possibility statements on the finite instances (<= 2 messages queued per side): from every "
    "reachable state, also after everything in transit was lost, deliveries and timer expiries alone lead to 'both closed'; the "
    "peer of the side that closed first may need its transport to close (a lost SHUTDOWN COMPLETE is never retransmitted: the "
    "closed side answers nothing). Fairness of the network (a packet retransmitted for ever is eventually delivered) is the "
    "reading under which this gives termination; T2 has no retry limit (noMaxRetrans)",
]
LEVEL_TEXT = ("Coq theorems: (all queue sizes, all histories of one endpoint) SHUTDOWN and SHUTDOWN ACK are emitted only with the "
              "pending and in-flight queues empty; writes outside ESTABLISHED are rejected and queue nothing; state x chunk "
              "successor matrix; priority order of gather; integer-level refinement of the acknowledgement oracle by the sender "
              "model; Shutdown's result is nil only if shutdownCompleted is set, for all histories incl. transport failure / ABORT / "
              "Close. Finite instances (one-sided: 3222 states, crossed: 9621 states, with failures: 41599 states; <= 2 messages per side, duplication / "
              "reordering / loss of everything in transit, writes and calls at any time) closed by a worklist computation certified "
              "by the closure lemma: Shutdown returns nil only on a closed and drained association, and every reachable state "
              "has a finite delivery/timer path to 'both closed'. The model is tied to the code by step-commuting records of "
              "every delivery / T2 / ack-timer / API event of exhaustive <= k-fault schedules on two real associations "
              "(state, will-send flags, shutdownCompletePending, T2, queue sizes, ackState, Shutdown's result, emitted packet "
              "kinds in order), by the state x chunk matrix injected into real associations, and by the monitor P_C08.")
LEVEL_NOTE = ("Trusted: Coq kernel, hand model Shutdown.v, extraction, simulator. The monitor P_C08 (nil => peer read exactly the "
              "messages written before the call, in order; both closed; loops exited; writes after the call fail and send nothing) "
              "and the explicit successor table of the matrix search for concrete failing schedules.")
TECHNIQUE = "Coq proof (inductive invariant + certified finite reachability/rank) + step-commuting correspondence on exhaustive fault schedules"


def _run(ctx, name, env, timeout):
    """One harness run gives both the monitor lines and the trace for the comparator."""
    trace = os.path.join(ctx.tmp, name + ".trace")
    e = dict(env)
    e.update(VERIF_OUT=trace, VERIF_SEED=ctx.seed)
    r = vlib.run_harness("TestVerifSimSd", e, timeout=timeout)
    fails = [l for l in r["out"].splitlines() if l.startswith("SIMFAIL prop=%s " % PROP)]
    summ = [l for l in r["out"].splitlines() if l.startswith("SIMSD ")]
    cl = simcommon.classify(PROP)
    for l in fails:
        ctx.concrete.append(dict(property=PROP, what=l[:600], key=cl(l), monitor=name, test="TestVerifSimSd", env=e))
    if r["rc"] != 0 and not fails:
        ctx.broken.append(("correspondence", name, "harness run failed (rc=%s): %s" % (r["rc"], r["out"][-1500:])))
    ctx.corr.append(dict(name=name + "-monitor", ok=not fails and r["rc"] == 0, records=0, failures=len(fails),
                         summary=summ[-1] if summ else "", wall_s=round(r["wall"], 2)))
    if not os.path.exists(trace):
        ctx.broken.append(("correspondence", name, "no trace written"))
        return
    c = vlib.run_cmp("sd", trace, timeout=timeout)
    ok = c["rc"] == 0 and not c["mismatches"] and c["summary"].get("records", 0) > 0
    ctx.corr.append(dict(name=name + "-step-commuting", ok=ok, records=c["summary"].get("records", 0),
                         observed=c["summary"].get("observed", 0), cases=c["summary"].get("cases", 0),
                         mismatches=len(c["mismatches"]), kinds=c["summary"].get("kinds", ""), wall_s=round(c["wall"], 2)))
    if not ok:
        ctx.broken.append(("correspondence", name, "\n".join(c["mismatches"][:5]) or c["raw"][-1500:]))
    try:
        with open(trace) as f:
            head = [next(f).strip() for _ in range(16)]
        ctx.samples.append({"trace": name, "first_lines": head})
    except (StopIteration, OSError):
        pass


def correspondence(ctx):
    # exhaustive schedules with <= k faults (drop / duplicate / swap) x one-sided, crossed x queued data 0 / 1 / several
    # fragmented messages on either side; state x chunk matrix; transport failure / peer ABORT / concurrent Close racing the
    # drain (regression of D18: Shutdown must report ErrShutdownIncomplete)
    _run(ctx, "sd-schedules", {"VERIF_SD_K": ctx.scale(2, 3)}, timeout=ctx.scale(1200, 14000))


def search(ctx):
    # one fault more than the tier's bound, positions capped
    _run(ctx, "sd-schedules-wide", {"VERIF_SD_K": ctx.scale(3, 4), "VERIF_SD_CAP": ctx.scale(14, 12)}, timeout=14000)
