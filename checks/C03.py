"""C03 — no inbound bytes can crash, hang or corrupt an endpoint."""
import vlib, simcommon

PROP = "C03"
PROPS_FILE = "props/C03.v"
COQ_FILES = ["gen/Gen.v", "proofs/SnaProofs.v", "model/Codec.v", "proofs/CodecProofs.v", "model/Inbound.v", "proofs/InboundProofs.v",
             "model/Sender.v", "proofs/SenderProofs.v", "model/RPQ.v", "proofs/RPQProofs.v", "model/RQ.v", "proofs/RQProofs.v",
             "model/Handshake.v", "proofs/HandshakeProofs.v", "props/C03.v"]
TRUSTED_BASE = [
    "Coq 8.16.1 kernel; vm_compute only in Examples; no native_compute",
    "hand-written models of the inbound path: Codec.v (packet.unmarshal and all chunk/param/cause decoders, every slice read a checked read), "
    "Inbound.v (dispatch guards of handleData / handleForwardTSN / handleIForwardTSN / handleSack), Sender.v (handleSack), RPQ.v, RQ.v, Handshake.v",
    "extraction (ExtrOcamlBasic) + ocaml/cmp_codec.ml, cmp_inbound.ml, cmp_sender.ml; harness: codec differential on mutated byte strings, "
    "exhaustive 640-combination dispatch matrix on bare associations, hostile-packet injection into live simulated associations",
    "modelled, not verified: Go memory safety beyond the decoder's slice reads (the handlers index maps and queues through checked accessors), "
    "goroutine scheduling, wall-clock time per packet (loops carry explicit fuel in the model; the simulator bounds virtual and real time per event)",
]
ASSUMPTIONS = [
    "a SACK whose gap blocks only name chunks that are in flight is indistinguishable from a genuine one; 'acknowledgements for data never "
    "sent' means TSNs outside the in-flight queue",
    "RECONFIG and SHUTDOWN-sequence chunks are covered by C14 / C08; this check covers decoding, dispatch, SACK, FORWARD-TSN, reassembly and "
    "stale handshake chunks",
]
LEVEL_TEXT = ("Coq theorems for all byte strings / all field values: the decoder never panics and never runs out of fuel; wrong-kind chunks "
              "abort, payload chunks outside data states are dropped; invalid SACKs are rejected before any mutation, stale ones ignored, "
              "accepted ones release exactly the acknowledged bytes; FORWARD-TSN behind the cumulative point is a no-op on the receive "
              "queue; reassembly never panics; stale handshake chunks are no-ops when established. Each model is tied to the code by its "
              "differential; hostile packets of 14 kinds are injected into live associations (state must be unchanged, transfers must "
              "still complete, wrong kinds must be answered with ABORT).")
LEVEL_NOTE = ("Trusted: Coq kernel, hand models, extraction, harness. 'Bounded time' is carried by totality of the model functions with "
              "explicit fuel and by the harness' per-event limits, not by a cost theorem.")
TECHNIQUE = "Coq proof (totality, validation-before-mutation, dispatch lemmas) + differential correspondence + hostile injection"


def correspondence(ctx):
    vlib.differential(ctx, "codec-differential", "TestVerifCodec", "codec", {"VERIF_N": ctx.scale(1500, 40000)})
    vlib.differential(ctx, "dispatch-matrix", "TestVerifInboundMatrix", "inbound", {})
    vlib.differential(ctx, "sender-under-hostile-sacks", "TestVerifSimInjectSender", "sender", {"VERIF_N": ctx.scale(60, 1500)}, timeout=3000)
    simcommon.sim_monitor(ctx, "misplaced-control-chunks-all-states", "TestVerifInboundHostile", {"VERIF_N": ctx.scale(6, 60)}, "INBOUNDHOSTILE")
    simcommon.sim_monitor(ctx, "hostile-injection", "TestVerifSimInject", {"VERIF_N": ctx.scale(150, 4000)}, "SIMINJECT")


def search(ctx):
    simcommon.sim_monitor(ctx, "hostile-injection-wide", "TestVerifSimInject", {"VERIF_N": 1500, "VERIF_SEED": ctx.seed + 23}, "SIMINJECT")
