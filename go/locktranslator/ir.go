// Intermediate representation of the lock/call abstraction and its simplifier.
//
// The IR is exactly the statement language of coq/model/LockLang.v:
//
//	Skip | Atom | Call f | Seq | Choice | Loop | Block | Exit n | IfFlag
//
// `Block b` opens an exit scope; `Exit n` leaves the n-th enclosing Block (0 = innermost) and
// continues after it.  return / break / continue are all expressed with Block + Exit
// (return = exit of the function's outermost Block, after the inlined deferred calls).
package main

import (
	"fmt"
	"go/token"
	"sort"
	"strings"
)

type Stmt interface{}

type Skip struct{}

// Atom kinds: lock unlock rlock runlock (Obj = mutex class)
//
//	user ext                      (Obj = callback / external id)
//	send recv trysend tryrecv selsend selrecv close   (Obj = channel id)
//	wait signal                   (Obj = cond id)
//	write read atomic             (Obj = field id)
//	go                            (Fn = spawned function)
type Atom struct {
	Kind string
	Obj  string
	Fn   *Fn
	Pos  token.Pos
}

type CallS struct {
	F   *Fn
	Pos token.Pos
}

type Seq struct{ L []Stmt }
type Choice struct{ L []Stmt }
type Loop struct{ B Stmt }
type Block struct{ B Stmt }
type Exit struct {
	N   int
	Why string
}
type IfFlag struct {
	Flag string
	A, B Stmt // A when the flag is true
}

func isSkip(s Stmt) bool { _, ok := s.(Skip); return ok }

func mkSeq(l ...Stmt) Stmt {
	var out []Stmt
	for _, s := range l {
		if s == nil || isSkip(s) {
			continue
		}
		if q, ok := s.(Seq); ok {
			out = append(out, q.L...)
			continue
		}
		out = append(out, s)
	}
	// nothing after an Exit in a sequence is reachable
	for i, s := range out {
		if _, ok := s.(Exit); ok {
			out = out[:i+1]
			break
		}
	}
	switch len(out) {
	case 0:
		return Skip{}
	case 1:
		return out[0]
	}
	return Seq{out}
}

func key(s Stmt) string {
	switch x := s.(type) {
	case Skip:
		return "_"
	case Atom:
		if x.Fn != nil {
			return x.Kind + ":" + x.Fn.Name
		}
		return x.Kind + ":" + x.Obj
	case CallS:
		return "call:" + x.F.Name
	case Seq:
		p := make([]string, len(x.L))
		for i, e := range x.L {
			p[i] = key(e)
		}
		return "(" + strings.Join(p, ";") + ")"
	case Choice:
		p := make([]string, len(x.L))
		for i, e := range x.L {
			p[i] = key(e)
		}
		return "[" + strings.Join(p, "|") + "]"
	case Loop:
		return "loop{" + key(x.B) + "}"
	case Block:
		return "blk{" + key(x.B) + "}"
	case Exit:
		return fmt.Sprintf("exit%d", x.N)
	case IfFlag:
		return "if " + x.Flag + "{" + key(x.A) + "}{" + key(x.B) + "}"
	}
	panic(fmt.Sprintf("key: %T", s))
}

func mkChoice(l ...Stmt) Stmt {
	var out []Stmt
	seen := map[string]bool{}
	var add func(s Stmt)
	add = func(s Stmt) {
		if s == nil {
			s = Skip{}
		}
		if c, ok := s.(Choice); ok {
			for _, e := range c.L {
				add(e)
			}
			return
		}
		k := key(s)
		if seen[k] {
			return
		}
		seen[k] = true
		out = append(out, s)
	}
	for _, s := range l {
		add(s)
	}
	switch len(out) {
	case 0:
		return Skip{}
	case 1:
		return out[0]
	}
	return Choice{out}
}

func mkLoop(b Stmt) Stmt {
	if isSkip(b) {
		return Skip{}
	}
	return Loop{b}
}

// canComplete: may the statement complete normally (fall through to what follows it)?
func canComplete(s Stmt) bool {
	switch x := s.(type) {
	case Exit:
		return false
	case Seq:
		for _, e := range x.L {
			if !canComplete(e) {
				return false
			}
		}
		return true
	case Choice:
		for _, e := range x.L {
			if canComplete(e) {
				return true
			}
		}
		return false
	case IfFlag:
		return canComplete(x.A) || canComplete(x.B)
	case Block:
		return canComplete(x.B) || usesExit(x.B, 0)
	}
	return true
}

// usesExit: does s contain an Exit that targets the Block `level` scopes outside of s?
func usesExit(s Stmt, level int) bool {
	switch x := s.(type) {
	case Exit:
		return x.N == level
	case Seq:
		for _, e := range x.L {
			if usesExit(e, level) {
				return true
			}
		}
	case Choice:
		for _, e := range x.L {
			if usesExit(e, level) {
				return true
			}
		}
	case IfFlag:
		return usesExit(x.A, level) || usesExit(x.B, level)
	case Loop:
		return usesExit(x.B, level)
	case Block:
		return usesExit(x.B, level+1)
	}
	return false
}

// unshift: the Block at `level` around s is being removed; Exits that crossed it lose one level.
func unshift(s Stmt, level int) Stmt {
	switch x := s.(type) {
	case Exit:
		if x.N > level {
			return Exit{x.N - 1, x.Why}
		}
		return x
	case Seq:
		l := make([]Stmt, len(x.L))
		for i, e := range x.L {
			l[i] = unshift(e, level)
		}
		return Seq{l}
	case Choice:
		l := make([]Stmt, len(x.L))
		for i, e := range x.L {
			l[i] = unshift(e, level)
		}
		return Choice{l}
	case IfFlag:
		return IfFlag{x.Flag, unshift(x.A, level), unshift(x.B, level)}
	case Loop:
		return Loop{unshift(x.B, level)}
	case Block:
		return Block{unshift(x.B, level+1)}
	}
	return s
}

// dropTailExit replaces `Exit level` in tail position of s by Skip (falling off the end of a
// Block body is the same as exiting that Block).
func dropTailExit(s Stmt, level int) Stmt {
	switch x := s.(type) {
	case Exit:
		if x.N == level {
			return Skip{}
		}
		return x
	case Seq:
		l := append([]Stmt{}, x.L...)
		l[len(l)-1] = dropTailExit(l[len(l)-1], level)
		return mkSeq(l...)
	case Choice:
		l := make([]Stmt, len(x.L))
		for i, e := range x.L {
			l[i] = dropTailExit(e, level)
		}
		return mkChoice(l...)
	case IfFlag:
		return IfFlag{x.Flag, dropTailExit(x.A, level), dropTailExit(x.B, level)}
	case Block:
		return Block{dropTailExit(x.B, level+1)}
	}
	return s
}

func isAccess(s Stmt) (Atom, bool) {
	a, ok := s.(Atom)
	if ok && (a.Kind == "read" || a.Kind == "write" || a.Kind == "atomic") {
		return a, true
	}
	return a, false
}

// simplify: flatten, drop Skips, merge duplicate adjacent accesses, remove unused Blocks.
// keep(a) decides whether an atom is kept; callRelevant(f) whether a call is kept.
func simplify(s Stmt, keep func(Atom) bool, callRelevant func(*Fn) bool) Stmt {
	switch x := s.(type) {
	case nil:
		return Skip{}
	case Skip:
		return x
	case Atom:
		if !keep(x) {
			return Skip{}
		}
		return x
	case CallS:
		if !callRelevant(x.F) {
			return Skip{}
		}
		return x
	case Exit:
		return x
	case Seq:
		var l []Stmt
		for _, e := range x.L {
			l = append(l, simplify(e, keep, callRelevant))
		}
		r := mkSeq(l...)
		if q, ok := r.(Seq); ok {
			// dedupe runs of access atoms
			var out []Stmt
			run := map[string]bool{}
			for _, e := range q.L {
				if a, ok := isAccess(e); ok {
					k := a.Kind + ":" + a.Obj
					if run[k] {
						continue
					}
					if a.Kind == "read" && run["write:"+a.Obj] {
						continue
					}
					run[k] = true
					out = append(out, e)
					continue
				}
				run = map[string]bool{}
				out = append(out, e)
			}
			return mkSeq(out...)
		}
		return r
	case Choice:
		var l []Stmt
		for _, e := range x.L {
			l = append(l, simplify(e, keep, callRelevant))
		}
		return mkChoice(l...)
	case IfFlag:
		a, b := simplify(x.A, keep, callRelevant), simplify(x.B, keep, callRelevant)
		if key(a) == key(b) {
			return a
		}
		return IfFlag{x.Flag, a, b}
	case Loop:
		return mkLoop(simplify(x.B, keep, callRelevant))
	case Block:
		b := simplify(x.B, keep, callRelevant)
		b = dropTailExit(b, 0)
		if !usesExit(b, 0) {
			return unshift(b, 0)
		}
		return Block{b}
	}
	panic(fmt.Sprintf("simplify: %T", s))
}

func walk(s Stmt, f func(Stmt)) {
	f(s)
	switch x := s.(type) {
	case Seq:
		for _, e := range x.L {
			walk(e, f)
		}
	case Choice:
		for _, e := range x.L {
			walk(e, f)
		}
	case IfFlag:
		walk(x.A, f)
		walk(x.B, f)
	case Loop:
		walk(x.B, f)
	case Block:
		walk(x.B, f)
	}
}

func sortedKeys(m map[string]bool) []string {
	var l []string
	for k := range m {
		l = append(l, k)
	}
	sort.Strings(l)
	return l
}

// hasEffect: does the statement contain an atom or a call (as opposed to control flow only)?
func hasEffect(s Stmt) bool {
	found := false
	walk(s, func(x Stmt) {
		switch x.(type) {
		case Atom, CallS:
			found = true
		}
	})
	return found
}
