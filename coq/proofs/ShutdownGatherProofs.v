(* Priority order of gatherOutbound in the shutdown control abstraction (coq/model/Shutdown.v), for all states. *)
From Coq Require Import ZArith Bool List Lia.
From Sctp Require Import Gen Shutdown ShutdownInvProofs.
Import ListNotations.
Open Scope Z_scope.

(* ---------------------------------------------------------------- (e) priority order of gather *)

(* SHUTDOWN COMPLETE goes out alone, before and instead of anything else, and closes the association *)
Lemma sd_gather_complete_first e moved rtx :
  sd_down e = false -> sd_wsc e = true ->
  snd (sd_gather e moved rtx) = [SdShutdownComplete] /\
  sd_state (fst (sd_gather e moved rtx)) = c_closed /\ sd_down (fst (sd_gather e moved rtx)) = true.
Proof.
  destruct e as [st wsd wsa wsc scp done t2 pend infl ack ret down]. sd_red. intros -> ->.
  unfold sd_gather, sd_gather_shutdown, sd_close. sd_red. destruct ret; sd_red; repeat split.
Qed.

(* a pending SHUTDOWN ACK in SHUTDOWN-ACK-SENT is the first packet *)
Lemma sd_gather_ack_first e moved rtx :
  sd_down e = false -> sd_wsc e = false -> sd_state e = c_shutdownAckSent -> sd_wsa e = true ->
  snd (sd_gather e moved rtx) = [SdShutdownAck].
Proof.
  destruct e as [st wsd wsa wsc scp done t2 pend infl ack ret down]. sd_red. intros -> -> -> ->.
  unfold sd_gather, sd_gather_shutdown. sd_red. sd_consts. cbn [Z.eqb Pos.eqb]. sd_red. reflexivity.
Qed.

(* a pending SHUTDOWN in SHUTDOWN-SENT: the SACK that is due, then the SHUTDOWN, nothing else *)
Lemma sd_gather_shutdown_first e moved rtx :
  sd_down e = false -> sd_wsc e = false -> sd_wsa e = false -> sd_state e = c_shutdownSent -> sd_wsd e = true ->
  snd (sd_gather e moved rtx) = (if sd_ack e =? sd_ackImmediate then [SdSack] else []) ++ [SdShutdown].
Proof.
  destruct e as [st wsd wsa wsc scp done t2 pend infl ack ret down]. sd_red. intros -> -> -> -> ->.
  unfold sd_gather, sd_gather_shutdown, sd_gather_sack, sd_close. sd_consts. sd_red.
  sd_split; sd_red; try reflexivity; try lia.
Qed.

(* in the remaining cases the order is DATA, SACK, SHUTDOWN / SHUTDOWN ACK *)
Definition sd_kind_rank (k : sd_kind) : Z :=
  match k with SdData => 0 | SdSack => 1 | SdInit => 1 | SdShutdown => 2 | SdShutdownAck => 2 | SdShutdownComplete => 2 end.

Fixpoint sd_sorted_by_rank (l : list sd_kind) : bool :=
  match l with
  | [] => true
  | a :: r => forallb (fun b => sd_kind_rank a <? sd_kind_rank b) r && sd_sorted_by_rank r
  end.

Lemma sd_gather_order e moved rtx :
  sd_sorted_by_rank (snd (sd_gather e moved rtx)) = true /\
  (* no user data leaves an endpoint in SHUTDOWN-SENT, SHUTDOWN-ACK-SENT or CLOSED *)
  (In SdData (snd (sd_gather e moved rtx)) -> sd_sends_data (sd_state e) = true).
Proof.
  destruct e as [st wsd wsa wsc scp done t2 pend infl ack ret down].
  unfold sd_gather, sd_gather_shutdown, sd_gather_sack, sd_gather_data, sd_advance_after_drain, sd_has_data, sd_close, sd_sends_data.
  sd_red. sd_consts.
  destruct down; [cbn; split; [reflexivity|intros []]|].
  destruct wsc; [sd_red; cbn; split; [reflexivity|intros [H|[]]; discriminate H]|].
  sd_split.
  all: try (exfalso; lia).
  all: sd_red; cbn [sd_sorted_by_rank forallb sd_kind_rank Z.ltb Z.compare andb In]; (split; [reflexivity|]);
    intros HData; sd_in; try contradiction; try discriminate; try reflexivity.
Qed.
