(* C02: one fault-free retransmission round of two endpoints, composed from the executable models of the
   sender (Sender.v: t3_step, rtx_select, sack_step) and of the receiver's TSN tracker (RPQ.v: can_push,
   push, pop, gap_blocks) with the association-level admission rule (RQ.v: rq_admit).  No proofs here.

   The round is the slowest path the implementation has for getting a lost chunk across, the one that is
   still there after every earlier fault, back-off and congestion collapse:
     T3-rtx expires at the sender (it is running whenever data is outstanding and it never gives up: C19 /
     c02_t3_never_gives_up)  ->  the sender retransmits what rtx_select picks  ->  the network, now
     fault-free, delivers those DATA chunks  ->  the receiver stores what it may (TSN window, credit or
     gap-fill), moves its cumulative point over everything consecutive  ->  answers with a SACK built from
     its tracker (cumulative TSN + gap blocks)  ->  the SACK is delivered  ->  handleSack at the sender. *)
From Coq Require Import ZArith Bool List.
From Sctp Require Import Gen Sender RPQ RQ.
Import ListNotations.
Open Scope Z_scope.

Record lv := mkLv { lv_s : sst; lv_q : rpq }.

(* handleData: a TSN the tracker cannot take is a duplicate (recorded by push, nothing else changes); one it
   can take is stored only if the advertised credit is positive or it fills a gap below the highest TSN *)
Definition lv_recv (credit : Z) (q : rpq) (tsn : Z) : rpq :=
  if can_push q tsn then
    (if rq_admit credit (last_tsn_received q) tsn then fst (push q tsn) else q)
  else fst (push q tsn).

(* handlePeerLastTSNAndAcknowledgement: pop while the next TSN is there *)
Fixpoint lv_pops (fuel : nat) (q : rpq) : rpq :=
  match fuel with
  | O => q
  | S f => if snd (pop q false) then lv_pops f (fst (pop q false)) else q
  end.

(* [credit i] = the receiver's window credit when the retransmission of in-flight index i arrives;
   [gate] = the MTU / burst-budget gate of the retransmission walk; [arwnd] = the a_rwnd the SACK carries *)
Definition lv_round (gate : Z -> bool) (credit : Z -> Z) (arwnd : Z) (st : lv) : option lv :=
  let s1 := t3_step (lv_s st) in
  let sel := rtx_select s1 gate in
  let q1 := fold_left (fun q i => lv_recv (credit i) q (wrap32 (st_front s1 + i))) sel (lv_q st) in
  let q2 := lv_pops (S (Z.to_nat (size q1))) q1 in
  match sack_step s1 (cum q2) arwnd (gap_blocks q2) with
  | SOk s2 => Some (mkLv s2 q2)
  | SErr => None
  end.

Fixpoint lv_rounds (n : nat) (gate : Z -> bool) (credit : Z -> Z) (arwnd : Z) (st : lv) : option lv :=
  match n with
  | O => Some st
  | S m => match lv_round gate credit arwnd st with
           | Some st' => lv_rounds m gate credit arwnd st'
           | None => None
           end
  end.
