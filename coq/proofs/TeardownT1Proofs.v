(* Teardown (C09): handshake families in which the T1 timer may exhaust its retransmissions: the safety
   clauses hold, termination is refuted (witness runs). *)
From Coq Require Import Bool List PArith NArith.
From Sctp Require Import Gen Teardown TeardownProofs.
Import ListNotations.

(* T1 exhaustion: the safety clauses other than "a stuck state is finished" still hold in every family ... *)
Definition td_chk_state_t1 (s : td_state) : bool :=
  td_chk_wac s && td_chk_chan s && td_chk_abort s && td_chk_close2 s.

Lemma td_families_t1_safe : forallb (fun c => td_check_family_safe c td_chk_state_t1) td_families_t1 = true.
Proof. vm_cast_no_check (eq_refl true). Qed.

(* ... and with a Close() injection everything holds *)
Lemma td_family_t1_close_ok : td_check_family (mkTdCfg TdPhHs TdInjClose TdMixNone true false) = true.
Proof. vm_cast_no_check (eq_refl true). Qed.

Definition td_sizes_t1 : list N :=
  Eval vm_compute in map td_family_size td_families_t1.

(* Witness 1 (transport failure).  T1 exhausts its retransmissions: the Client call returns the handshake
   error (steps 1-3).  A late INIT-ACK / COOKIE-ACK then completes the handshake: completeHandshake blocks
   under a.lock because nobody receives from handshakeCompletedCh any more (step 4).  Now the transport
   fails (step 5): the read loop is not in conn.Read, the write loop is blocked on a.lock; nothing moves. *)
Definition td_cfg_t1_rfail := mkTdCfg TdPhHs TdInjRfail TdMixNone true false.
Definition td_witness_t1_rfail : list nat := [7; 7; 1; 2; 0].

Definition td_rlpc_is_hs (x : td_rlpc) := match x with TdRlHs => true | _ => false end.
Definition td_cwpc_is_hserr (x : td_cwpc) := match x with TdCwHsErr => true | _ => false end.
Definition td_abpc_is_flag (x : td_abpc) := match x with TdAbFlag => true | _ => false end.

Definition td_witness_t1_rfail_chk : bool :=
  match td_follow td_cfg_t1_rfail (td_init td_cfg_t1_rfail) td_witness_t1_rfail with
  | Some s => td_cwpc_is_hserr (td_cw s) && td_rlpc_is_hs (td_rl s) && td_lk s && td_rfail s && td_injd s &&
              td_final td_cfg_t1_rfail s && negb (td_done s)
  | None => false
  end.

Lemma td_witness_t1_rfail_chk_ok : td_witness_t1_rfail_chk = true.
Proof. vm_cast_no_check (eq_refl true). Qed.

Lemma td_witness_t1_rfail_ok :
  exists s, td_follow td_cfg_t1_rfail (td_init td_cfg_t1_rfail) td_witness_t1_rfail = Some s /\
            td_cw s = TdCwHsErr /\ td_rl s = TdRlHs /\ td_lk s = true /\ td_rfail s = true /\ td_injd s = true /\
            td_final td_cfg_t1_rfail s = true /\ td_done s = false.
Proof.
  pose proof td_witness_t1_rfail_chk_ok as H. unfold td_witness_t1_rfail_chk in H.
  destruct (td_follow td_cfg_t1_rfail (td_init td_cfg_t1_rfail) td_witness_t1_rfail) as [s|]; [|discriminate H].
  repeat (apply andb_true_iff in H; destruct H as [H ?]).
  exists s. split; [reflexivity|].
  split; [destruct (td_cw s); try discriminate; reflexivity|].
  split; [destruct (td_rl s); try discriminate; reflexivity|].
  repeat split; try assumption. apply negb_true_iff. assumption.
Qed.

(* the actors along the witness *)
Lemma td_witness_t1_rfail_actors :
  td_path_actors td_cfg_t1_rfail (td_init td_cfg_t1_rfail) td_witness_t1_rfail
    = [TdAT1Fail; TdAT1Fail; TdAT1Fail; TdAEnv; TdAEnv].
Proof. vm_cast_no_check (eq_refl [TdAT1Fail; TdAT1Fail; TdAT1Fail; TdAEnv; TdAEnv]). Qed.

(* Witness 2 (Abort): same blocked completeHandshake, then Abort() blocks on a.lock and never returns. *)
Definition td_cfg_t1_abort := mkTdCfg TdPhHs TdInjAbort TdMixNone true false.
Definition td_witness_t1_abort : list nat := [7; 7; 1; 2; 0].

Definition td_witness_t1_abort_chk : bool :=
  match td_follow td_cfg_t1_abort (td_init td_cfg_t1_abort) td_witness_t1_abort with
  | Some s => td_cwpc_is_hserr (td_cw s) && td_rlpc_is_hs (td_rl s) && td_lk s && td_abpc_is_flag (td_ab s) &&
              td_final td_cfg_t1_abort s && negb (td_done s)
  | None => false
  end.

Lemma td_witness_t1_abort_chk_ok : td_witness_t1_abort_chk = true.
Proof. vm_cast_no_check (eq_refl true). Qed.

Lemma td_witness_t1_abort_ok :
  exists s, td_follow td_cfg_t1_abort (td_init td_cfg_t1_abort) td_witness_t1_abort = Some s /\
            td_cw s = TdCwHsErr /\ td_rl s = TdRlHs /\ td_lk s = true /\ td_ab s = TdAbFlag /\
            td_final td_cfg_t1_abort s = true /\ td_done s = false.
Proof.
  pose proof td_witness_t1_abort_chk_ok as H. unfold td_witness_t1_abort_chk in H.
  destruct (td_follow td_cfg_t1_abort (td_init td_cfg_t1_abort) td_witness_t1_abort) as [s|]; [|discriminate H].
  repeat (apply andb_true_iff in H; destruct H as [H ?]).
  exists s. split; [reflexivity|].
  split; [destruct (td_cw s); try discriminate; reflexivity|].
  split; [destruct (td_rl s); try discriminate; reflexivity|].
  split; [assumption|].
  split; [destruct (td_ab s); try discriminate; reflexivity|].
  split; [assumption|]. apply negb_true_iff. assumption.
Qed.

(* the same stuck state is reached with a conn.Write failure and with an inbound ABORT that is never read *)
Lemma td_t1_stuck_other_injections :
  forallb (fun c => match td_find_path c (fun s => td_final c s && negb (td_done s)) with Some _ => true | None => false end)
          [mkTdCfg TdPhHs TdInjWfail TdMixNone true false] = true.
Proof. vm_cast_no_check (eq_refl true). Qed.
