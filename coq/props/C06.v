(* C06 — unordered / partial reliability: retransmission stops when the policy is exhausted, DCEP is always
   reliable and ordered, the reader gets whole written messages at most once.
   Model: coq/model/PR.v (association.go checkPartialReliabilityStatus, movePendingDataChunkToInflightQueue,
   getDataPacketsToRetransmit, gatherOutboundFastRetransmissionPackets, markAllToRetrasmit, RACK/PTO marking,
   processSelectiveAck; chunk_payload_data.go abandoned/setAbandoned/setAllInflight), StreamW.sw_packetize for the
   DCEP rule, RQ.v for the receiver-side clauses (cited from RQSafety.v).
   A history is a list of pr_ev: PrSend (a chunk leaves the pending queue), PrMark (RACK / PTO marks one chunk),
   PrT3 (T3 expiry: C2-C3 and markAllToRetrasmit), PrRtx (one marked chunk retransmitted by a gather), PrFrtx
   (one chunk fast-retransmitted), PrUnmark (a gather clears the mark of a chunk whose message was abandoned in the
   meantime, fix 3b069d1), PrSack, PrGather.  pr_step refuses what the code cannot do (marking or fast-retransmitting
   an acked / abandoned chunk, retransmitting an unmarked or abandoned one), so "every history" = every list on
   which pr_run succeeds; which chunks are marked or retransmitted is otherwise arbitrary (oracle).
   Only statements closed by [exact] + Print Assumptions here. *)
From Coq Require Import ZArith Bool List.
From Sctp Require Import Gen SnaProofs RQ RQProofs RQSafety StreamW PR PRProofs.
Import ListNotations.
Open Scope Z_scope.

(* ---------------------------------------------------------------- (d) retransmission limit *)

(* Stream sid has the policy "at most N retransmissions" (0 <= N < 2^32 - 1), partial reliability is negotiated.
   Along every history in which loss recovery (RACK / PTO / T3 marking, fast retransmission) selects chunks only
   at moments when no message of the stream is partly in flight (pr_run_whole: its later fragments are not still
   waiting in the pending queue - finding D21 is what happens otherwise), every chunk of the stream that is not
   a DCEP chunk has been put on the wire between 1 and max(N, 1) <= N + 1 times (the code abandons at nSent >= N,
   so N = 0 and N = 1 both mean "no retransmission"). *)
Theorem c06_nsent_bound : forall sid N evs s0 s outs,
  0 <= N < 4294967295 ->
  pr_rexmit_stream s0 sid N -> pr_ent s0 -> pr_nb_inv sid N s0 ->
  pr_run_whole sid s0 evs ->
  pr_run s0 evs = Some (s, outs) ->
  forall c, In c (pr_infl s) -> pr_sid c = sid -> pr_dcep c = false -> 1 <= pr_nsent c <= Z.max N 1.
Proof. exact pr_nsent_bound_thm. Qed.
Print Assumptions c06_nsent_bound.

(* the initial state satisfies the hypotheses *)
Example c06_nsent_bound_init : forall tsn pol N sid,
  pr_pol_get sid pol = Some (c_ReliabilityTypeRexmit, N) ->
  let s0 := pr_init tsn pol true false in
  pr_rexmit_stream s0 sid N /\ pr_ent s0 /\ pr_nb_inv sid N s0.
Proof. intros. unfold pr_rexmit_stream, pr_ent, pr_nb_inv. cbn. repeat split; auto. Qed.

(* the bound is attained: limit 2, T3 marks the chunk, the gather retransmits it (second transmission: the limit is
   reached and the message abandoned); the next T3 marks nothing *)
Example c06_nsent_bound_is_tight :
  let s0 := pr_init 100 [(5, (c_ReliabilityTypeRexmit, 2))] true false in
  let c := mkPrChunk 100 5 0 0 false true true 1 false 0 false false 0 in
  let evs := [PrSend c 0; PrT3; PrRtx 100 1000000000; PrT3] in
  pr_run_whole 5 s0 evs /\
  match pr_run s0 evs with
  | Some (s, _) => map pr_nsent (pr_infl s) = [2] /\ forallb (pr_abandoned s) (pr_infl s) = true /\ map pr_rtx (pr_infl s) = [false]
  | None => False
  end.
Proof. split; [apply pr_run_wholeb_sound; vm_compute; reflexivity | vm_compute; repeat split; reflexivity]. Qed.

(* Finding D21 (sim-C06-rexmit-limit-exceeded-fragmented-message), model level: without the side condition the
   statement is false.  Limit 0, a two-fragment message whose second fragment is still in the pending queue
   (cwnd): the first fragment is not abandoned() because the head's _allInflight is unset; T3 marks it and the
   next gather retransmits it: 2 transmissions > N + 1 = 1. *)
Example c06_nsent_bound_refuted :
  let s0 := pr_init 100 [(5, (c_ReliabilityTypeRexmit, 0))] true false in
  let f1 := mkPrChunk 100 5 0 0 false true false 1 false 0 false false 0 in
  let evs := [PrSend f1 0; PrT3; PrRtx 100 1000000000] in
  pr_run_okb (pr_whole_sideb 5) s0 evs = false /\
  match pr_run s0 evs with
  | Some (s, _) => map pr_nsent (pr_infl s) = [2] /\ map (pr_abandoned s) (pr_infl s) = [false] /\
                   map (fun c => pr_msg_flag (pr_msgs s) (pr_msg c)) (pr_infl s) = [true]
  | None => False
  end.
Proof. split; [vm_compute; reflexivity | vm_compute; repeat split; reflexivity]. Qed.

(* abandoned chunks are never selected and never put on the wire again: marking (RACK / PTO) and fast retransmission
   refuse them, a gather does not retransmit them even if their retransmit mark is still set (fix 3b069d1, finding D30),
   and after markAllToRetrasmit a chunk of an abandoned message carries the mark only if one did before; the
   correspondence check verifies these constraints on every observed step (a refused step is a mismatch) *)
Theorem c06_abandoned_not_marked : forall s t c,
  pr_get (pr_infl s) t = Some c -> pr_abandoned s c = true ->
  pr_mark s t = None /\ (forall now, pr_fast_retransmit s t now = None) /\ (forall now, pr_retransmit s t now = None) /\
  (forall c', In c' (pr_infl (pr_mark_all_rtx s)) -> pr_msg c' = pr_msg c -> pr_rtx c' = true ->
     exists c0, In c0 (pr_infl s) /\ pr_rtx c0 = true /\ pr_msg c0 = pr_msg c).
Proof. exact pr_abandoned_not_marked_thm. Qed.
Print Assumptions c06_abandoned_not_marked.

(* ---------------------------------------------------------------- (e) lifetime limit *)

(* one step: a retransmission or fast retransmission of a chunk (lifetime L ms, not DCEP) at an age >= L sets the
   abandoned flag of its message; pr_elapsed_ms is the integer part of the age in ms (the code computes it in
   float64: the value can be 1 smaller when the age is an exact multiple of 1 ms; the correspondence check
   verifies exactly this relation on every observed retransmission) *)
Theorem c06_late_transmission_abandons : forall s sid L t now c s',
  pr_timed_stream s sid L -> pr_ent s -> pr_get (pr_infl s) t = Some c -> pr_sid c = sid -> pr_dcep c = false ->
  pr_elapsed_ms now (pr_first c) >= L ->
  (pr_retransmit s t now = Some s' \/ pr_fast_retransmit s t now = Some s') ->
  pr_msg_flag (pr_msgs s') (pr_msg c) = true.
Proof. exact pr_late_tx_abandons_thm. Qed.
Print Assumptions c06_late_transmission_abandons.

(* Stream sid has the lifetime policy L.  Follow any chunk of the stream (not DCEP) that is in flight at position
   p0 (if it is marked for retransmission, its message is entirely in flight), through any history (pr_track moves
   the position when SACKs pop chunks in front of it).  If loss recovery selects chunks only while the messages of
   the stream are entirely in flight (pr_lt_side), then at most ONE (re)transmission of the chunk happens at a time
   >= firstSent + L: the one at which the status check abandons the message. *)
Theorem c06_lifetime : forall sid L evs s0 p0 c,
  pr_timed_stream s0 sid L -> pr_ent s0 ->
  nth_error (pr_infl s0) p0 = Some c -> pr_sid c = sid -> pr_dcep c = false ->
  (pr_rtx c = true -> pr_msg_allinfl (pr_msgs s0) (pr_msg c) = true) ->
  pr_run_ok (pr_lt_side sid) s0 evs ->
  (pr_count_late L p0 s0 evs <= 1)%nat.
Proof. exact pr_lifetime_thm. Qed.
Print Assumptions c06_lifetime.

(* the hypotheses are satisfiable: lifetime 500 ms, T3 at 1 s retransmits (that transmission abandons the
   message), a second T3 marks nothing: one late transmission *)
Example c06_lifetime_example :
  let s0 := pr_init 100 [(5, (c_ReliabilityTypeTimed, 500))] true false in
  let c := mkPrChunk 100 5 0 0 false true true 1 false 0 false false 0 in
  let evs := [PrSend c 0; PrT3; PrRtx 100 1000000000; PrGather; PrT3; PrGather] in
  pr_run_ok (pr_lt_side 5) s0 evs /\ pr_count_late 500 0 s0 evs = 1%nat /\
  match pr_run s0 evs with
  | Some (s2, outs) => map pr_nsent (pr_infl s2) = [2] /\ outs = [PrOutFwd 100 [(5, 0)]]
  | None => False
  end.
Proof.
  split; [apply pr_lt_sideb_sound; vm_compute; reflexivity|].
  split; [vm_compute; reflexivity|]. vm_compute. split; reflexivity.
Qed.

(* Finding D30 (sim-C06-lifetime-exceeded-abandoned-chunk-retransmitted), fixed by 3b069d1.  Before the fix
   getDataPacketsToRetransmit tested only the retransmit mark: lifetime 100 ms; the chunk is marked (T3 / RACK / PTO)
   but its retransmission is held back by the window; three miss indications fast-retransmit it at 200 ms (late, the
   message is abandoned; the fast path leaves the mark set), and the next gather retransmitted the abandoned chunk
   again at 300 ms: two transmissions after the lifetime expired (pre-fix history: Send; Mark; Frtx @200 ms; Rtx @300 ms,
   observed on the real code, notes/C06.md).  Now the last step is refused, the gather clears the mark instead, and
   exactly one late transmission remains. *)
Example c06_d30_history_now_refused :
  let s0 := pr_init 100 [(5, (c_ReliabilityTypeTimed, 100))] true false in
  let c := mkPrChunk 100 5 0 0 false true true 1 false 0 false false 0 in
  let pre := [PrSend c 0; PrMark 100; PrFrtx 100 200000000] in
  pr_run s0 (pre ++ [PrRtx 100 300000000]) = None /\
  pr_run_ok (pr_lt_side 5) s0 (pre ++ [PrUnmark 100; PrGather]) /\
  pr_count_late 100 0 s0 (pre ++ [PrUnmark 100; PrGather]) = 1%nat /\
  match pr_run s0 (pre ++ [PrUnmark 100; PrGather]) with
  | Some (s, _) => map pr_nsent (pr_infl s) = [2] /\ map pr_rtx (pr_infl s) = [false] /\ forallb (pr_abandoned s) (pr_infl s) = true
  | None => False
  end.
Proof.
  split; [vm_compute; reflexivity|]. split; [apply pr_lt_sideb_sound; vm_compute; reflexivity|].
  split; [vm_compute; reflexivity|]. vm_compute. repeat split; reflexivity.
Qed.

(* Finding D21 (sim-C06-lifetime-not-enforced-fragmented-message), model level: without the side condition
   the bound fails.  Lifetime 100 ms, first fragment of a message whose tail is still pending: every T3 marks it
   again (it is not abandoned() while _allInflight is unset) and every gather retransmits it. *)
Example c06_lifetime_refuted :
  let s0 := pr_init 100 [(5, (c_ReliabilityTypeTimed, 100))] true false in
  let f1 := mkPrChunk 100 5 0 0 false true false 1 false 0 false false 0 in
  let evs := [PrSend f1 0; PrT3; PrRtx 100 1000000000; PrT3; PrRtx 100 3000000000; PrT3; PrRtx 100 7000000000] in
  pr_run_okb (pr_whole_sideb 5) s0 evs = false /\ pr_count_late 100 0 s0 evs = 3%nat.
Proof. split; vm_compute; reflexivity. Qed.

(* ---------------------------------------------------------------- (f) DCEP *)

(* In every history whose fragment sends are consistent (all fragments of a message carry the payload protocol
   identifier of its head: Stream.packetize), a DCEP chunk is never abandoned: the flag of its message is never
   set, whatever the policy of the stream, however often it is retransmitted. *)
Theorem c06_dcep_never_abandoned : forall evs s0 s outs,
  pr_dcep_tab s0 -> pr_run_ok pr_ev_dcep_ok s0 evs -> pr_run s0 evs = Some (s, outs) ->
  forall c, In c (pr_infl s) -> pr_dcep c = true ->
    pr_msg_flag (pr_msgs s) (pr_msg c) = false /\ pr_abandoned s c = false.
Proof. exact pr_dcep_never_abandoned_thm. Qed.
Print Assumptions c06_dcep_never_abandoned.

Example c06_dcep_init : forall tsn pol uf ui, pr_dcep_tab (pr_init tsn pol uf ui).
Proof. intros. apply pr_init_tab. Qed.

(* DCEP is forced ordered by Stream.packetize whatever the stream's ordering setting (model sw_packetize) *)
Theorem c06_dcep_forced_ordered : forall st n il maxp st' chunks un,
  sw_packetize st n sw_ppi_dcep il maxp = Some (st', chunks, un) ->
  un = false /\ Forall (fun c => swc_unordered c = false /\ swc_ppi c = sw_ppi_dcep) chunks.
Proof. exact pr_dcep_forced_ordered_thm. Qed.
Print Assumptions c06_dcep_forced_ordered.

(* a DCEP message on a stream with limit 0 survives any number of retransmissions *)
Example c06_dcep_example :
  let s0 := pr_init 100 [(5, (c_ReliabilityTypeRexmit, 0))] true false in
  let c := mkPrChunk 100 5 0 0 false true true 1 true 0 false false 0 in
  let evs := [PrSend c 0; PrT3; PrRtx 100 1000000000; PrT3; PrRtx 100 3000000000; PrGather] in
  pr_run_ok pr_ev_dcep_ok s0 evs /\
  match pr_run s0 evs with
  | Some (s, outs) => map pr_nsent (pr_infl s) = [3] /\ map (pr_abandoned s) (pr_infl s) = [false] /\ outs = []
  | None => False
  end.
Proof. split; [vm_compute; repeat split; intros; discriminate | vm_compute; repeat split; reflexivity]. Qed.

(* ---------------------------------------------------------------- (g) receiver side (cited from RQSafety.v) *)

(* at most once, as multisets over every history of pushes, reads and forward operations *)
Theorem c06_at_most_once : forall q0 ops x,
  rq_empty q0 ->
  let cnt l := count_occ rqchunk_eq_dec l x in
  (cnt (rq_hist rq_step_del q0 ops) + cnt (rq_hist rq_removed q0 ops) + cnt (rq_all_chunks (rq_run q0 ops))
   = cnt (rq_hist rq_step_acc q0 ops))%nat /\
  (cnt (rq_hist rq_step_acc q0 ops) <= cnt (rq_pushed ops))%nat.
Proof. exact rqs_at_most_once. Qed.
Print Assumptions c06_at_most_once.

(* never a fragment, never a splice: what read returns is one B..E run of one message (DATA: consecutive TSNs of
   one SSN resp. all unordered; I-DATA: FSN 0,1,2,.. of one MID in one ordered / unordered space) *)
Theorem c06_read_returns_one_message : forall q b q' n ppi del,
  rq_wf q -> rq_read q b = (q', RdOk n ppi del) ->
  n = gsum rqc_len del /\ n <= b /\ rq_message (rq_si q) q del.
Proof. exact rqs_read_returns_one_message. Qed.
Print Assumptions c06_read_returns_one_message.

Theorem c06_wf_reachable : forall q0 ops, rq_empty q0 -> rq_wf (rq_run q0 ops).
Proof. exact rqs_wf_reachable. Qed.
Print Assumptions c06_wf_reachable.

(* ordered streams deliver a subsequence in writing order, under the span hypothesis (forward skips included) *)
Theorem c06_ordered_subsequence : forall q0 ops,
  rq_empty q0 -> rq_span_run q0 None ops -> rq_chain None (rq_ord_deliveries q0 ops).
Proof. exact rqs_ordered_release. Qed.
Print Assumptions c06_ordered_subsequence.

(* an ordered message is delivered only when complete, at the head and not after the cursor; unordered
   messages only from the complete sets *)
Theorem c06_read_source_and_cursor : forall q b q' n ppi del,
  rq_read q b = (q', RdOk n ppi del) ->
  n = gsum rqc_len del /\ rq_short b del = false /\ rq_read_from q q' ppi del.
Proof. exact rqs_read_source_and_cursor. Qed.
Print Assumptions c06_read_source_and_cursor.
