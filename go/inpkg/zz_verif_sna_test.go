// Verification harness: serial-number helpers, sampled (quick) or exhaustive over 16 bits (thorough),
// compared against the translator-generated Coq definitions by /verif/ocaml/cmp.
package sctp

import (
	"fmt"
	"math/rand"
	"testing"
)

func TestVerifSna(t *testing.T) {
	seed := verifEnvInt("VERIF_SEED", 1)
	n := int(verifEnvInt("VERIF_N", 20000))
	w, done := verifOut(t, "/tmp/verif_sna.trace")
	defer done()
	rng := rand.New(rand.NewSource(seed))
	fmt.Fprintln(w, "case sna")
	edge32 := []uint32{0, 1, 2, 1<<31 - 1, 1 << 31, 1<<31 + 1, 1<<32 - 2, 1<<32 - 1}
	pick32 := func() uint32 {
		if rng.Intn(3) == 0 {
			return edge32[rng.Intn(len(edge32))] + uint32(rng.Intn(3)) - 1
		}
		return rng.Uint32()
	}
	for i := 0; i < n; i++ {
		a := pick32()
		var b uint32
		switch rng.Intn(4) {
		case 0:
			b = a + uint32(rng.Intn(5)) - 2
		case 1:
			b = a + 1<<31 + uint32(rng.Intn(5)) - 2
		default:
			b = pick32()
		}
		fmt.Fprintf(w, "s32 %d %d %d %d %d %d %d\n", a, b, b2i(sna32LT(a, b)), b2i(sna32LTE(a, b)), b2i(sna32GT(a, b)), b2i(sna32GTE(a, b)), b2i(sna32EQ(a, b)))
		a16, b16 := uint16(a), uint16(b)
		if rng.Intn(2) == 0 {
			b16 = a16 + 1<<15 + uint16(rng.Intn(5)) - 2
		}
		fmt.Fprintf(w, "s16 %d %d %d %d %d %d %d\n", a16, b16, b2i(sna16LT(a16, b16)), b2i(sna16LTE(a16, b16)), b2i(sna16GT(a16, b16)), b2i(sna16GTE(a16, b16)), b2i(sna16EQ(a16, b16)))
		l := rng.Intn(70000)
		fmt.Fprintf(w, "pad %d %d\n", l, getPadding(l))
		mtu := uint32(rng.Intn(3000))
		if rng.Intn(8) == 0 {
			mtu = rng.Uint32()
		}
		fmt.Fprintf(w, "mps %d %d %d\n", mtu, maxPayloadSizeForMTU(mtu, false), maxPayloadSizeForMTU(mtu, true))
		bs := rng.Uint32()
		if rng.Intn(2) == 0 {
			bs = uint32(rng.Intn(16 << 20))
		}
		fmt.Fprintf(w, "mto %d %d\n", bs, getMaxTSNOffset(bs))
	}
}

// Exhaustive sweep of all 2^32 pairs of 16-bit serial numbers against the arithmetic
// characterisation proved in coq/props/C16.v (translator validation, thorough tier).
func TestVerifSna16Exhaustive(t *testing.T) {
	bad := 0
	for a := 0; a < 65536; a++ {
		for b := 0; b < 65536; b++ {
			d := (b - a) & 0xffff
			lt := d > 0 && d < 32768
			gt := d >= 32768 // includes antipode, as sna16GT does
			x, y := uint16(a), uint16(b)
			if sna16LT(x, y) != lt || sna16GT(x, y) != gt || sna16LTE(x, y) != (lt || d == 0) || sna16GTE(x, y) != (gt || d == 0) || sna16EQ(x, y) != (d == 0) {
				if bad < 5 {
					fmt.Printf("SNA16BAD %d %d\n", a, b)
				}
				bad++
			}
		}
	}
	fmt.Printf("SNA16 exhaustive pairs=4294967296 bad=%d\n", bad)
	if bad > 0 {
		t.Fail()
	}
}
