(* Endpoint-level lemmas about coq/model/Shutdown.v for ALL states, flag values, counter values and oracle values
   (no finiteness): the invariant behind "SHUTDOWN and SHUTDOWN ACK leave an endpoint only when nothing is pending
   or in flight", write rejection, the state x chunk matrix, the priority order of gather.
   The case analyses are done by one tactic that splits on the tests the step functions perform. *)
From Coq Require Import ZArith Bool List Lia.
From Sctp Require Import Gen Shutdown.
Import ListNotations.
Open Scope Z_scope.

(* the inductive invariant (it also holds between a handler and the gather that follows it) *)
Definition sd_Inv (e : sd_ep) : Prop :=
  (sd_wsd e = true -> sd_down e = false -> sd_state e = c_shutdownSent) /\
  (sd_wsa e = true -> sd_down e = false -> sd_state e = c_shutdownAckSent) /\
  (sd_state e = c_shutdownSent \/ sd_state e = c_shutdownAckSent -> sd_pend e = 0 /\ sd_infl e = 0) /\
  (sd_wsc e = true -> sd_scp e = true) /\ 0 <= sd_pend e /\ 0 <= sd_infl e /\
  (* fix 568b58f: nil is returned only with shutdownCompleted set, and that flag is set only with both queues empty,
     in a state from which no write is accepted any more *)
  (sd_ret e = SdRetNil -> sd_done e = true) /\
  (sd_done e = true -> sd_pend e = 0 /\ sd_infl e = 0 /\
     (sd_state e = c_shutdownSent \/ sd_state e = c_shutdownAckSent \/ sd_state e = c_closed)).

Definition sd_drained_out (e2 : sd_ep) (out : list sd_kind) : Prop :=
  (In SdShutdown out \/ In SdShutdownAck out) -> sd_pend e2 = 0 /\ sd_infl e2 = 0.

Definition sd_ev_ok (e : sd_ep) (ev : sd_event) : bool :=
  match ev with
  | SdEvWrite n => 0 <=? n
  | SdEvRecvSack r => sd_ackres_ok e r
  | SdEvRecvShutdown r => sd_ackres_ok e r
  | _ => true
  end.

Ltac sd_consts := unfold c_closed, c_established, c_shutdownAckSent, c_shutdownPending, c_shutdownReceived, c_shutdownSent,
  sd_ackIdle, sd_ackImmediate, sd_ackDelay in *.

Ltac sd_red := cbn [sd_state sd_wsd sd_wsa sd_wsc sd_scp sd_done sd_set_done sd_t2 sd_pend sd_infl sd_ack sd_ret sd_down
                    sd_set_state sd_set_wsd sd_set_wsa sd_set_wsc sd_set_scp sd_set_t2 sd_set_pend sd_set_infl sd_set_ack sd_set_ret sd_set_down
                    fst snd app negb andb orb existsb] in *.

Ltac sd_split :=
  repeat (sd_red;
    match goal with
    | |- context[if ?b then _ else _] =>
      match b with
      | ?x =? ?y => destruct (Z.eqb_spec x y); [try subst|]
      | ?x <? ?y => destruct (Z.ltb_spec x y); try (exfalso; lia)
      | ?x <=? ?y => destruct (Z.leb_spec x y); try (exfalso; lia)
      | _ => is_var b; destruct b
      | ?v || _ => is_var v; destruct v
      | _ || ?v => is_var v; destruct v
      | ?v && _ => is_var v; destruct v
      | _ && ?v => is_var v; destruct v
      | negb ?v => is_var v; destruct v
      end
    | |- context[?x =? ?y] => destruct (Z.eqb_spec x y); [try subst|]
    | |- context[?x <? ?y] => destruct (Z.ltb_spec x y); try (exfalso; lia)
    | |- context[?x <=? ?y] => destruct (Z.leb_spec x y); try (exfalso; lia)
    | |- context[match ?r with SdNotCalled => _ | _ => _ end] => destruct r
    end).

Ltac sd_in :=
  repeat match goal with
  | H : In _ (if ?b then _ else _) |- _ => destruct b; sd_red
  | H : In _ ((if ?b then _ else _) ++ _) |- _ => destruct b; sd_red
  | H : In _ [] |- _ => destruct H
  | H : In _ (_ :: _) |- _ => destruct H as [H|H]; [try discriminate H|]
  | H : _ \/ _ |- _ => destruct H as [H|H]
  end.

Ltac sd_fin := sd_red; unfold sd_Inv, sd_drained_out in *; sd_red;
  repeat split; intros; sd_in; try discriminate; try lia; try (intuition (try discriminate; lia)).

Ltac sd_prune I1 I2 wsd wsa :=
  destruct wsa; [pose proof (I2 eq_refl eq_refl); try subst|];
  (destruct wsd; [pose proof (I1 eq_refl eq_refl); try subst; try discriminate|]).

(* what gather does to the state: nothing, unless SHUTDOWN COMPLETE goes out (closed) or the queues are empty in
   SHUTDOWN-PENDING / SHUTDOWN-RECEIVED *)
Definition sd_gather_state_spec (e e2 : sd_ep) : Prop :=
  (sd_down e = true -> e2 = e) /\
  (sd_down e = false -> sd_wsc e = true -> sd_state e2 = c_closed /\ sd_down e2 = true) /\
  (sd_down e = false -> sd_wsc e = false ->
   (sd_state e = c_shutdownPending \/ sd_state e = c_shutdownReceived -> 0 < sd_pend e + sd_infl e) ->
   sd_state e2 = sd_state e /\ sd_down e2 = false).

Lemma sd_gather_inv e moved rtx :
  sd_Inv e -> sd_oracle_ok e moved rtx = true ->
  sd_Inv (fst (sd_gather e moved rtx)) /\
  sd_drained_out (fst (sd_gather e moved rtx)) (snd (sd_gather e moved rtx)) /\
  sd_gather_state_spec e (fst (sd_gather e moved rtx)).
Proof.
  destruct e as [st wsd wsa wsc scp done t2 pend infl ack ret down].
  intros (I1 & I2 & I3 & I4 & I5 & I6 & I7 & I8) Hor. unfold sd_oracle_ok, sd_sends_data in Hor. sd_red. sd_consts.
  unfold sd_gather_state_spec, sd_gather, sd_gather_shutdown, sd_gather_sack, sd_gather_data, sd_advance_after_drain, sd_has_data, sd_close.
  sd_consts.
  apply andb_true_iff in Hor; destruct Hor as [Hor Ho4]; apply andb_true_iff in Hor; destruct Hor as [Hor Ho3];
  apply andb_true_iff in Hor; destruct Hor as [Ho1 Ho2]; apply Z.leb_le in Ho1, Ho2.
  destruct down.
  { sd_fin. }
  sd_prune I1 I2 wsd wsa.
  all: sd_split.
  all: sd_fin.
Qed.

Lemma sd_handle_inv e ev : sd_Inv e -> sd_ev_ok e ev = true -> sd_Inv (fst (sd_handle e ev)).
Proof.
  destruct e as [st wsd wsa wsc scp done t2 pend infl ack ret down].
  intros (I1 & I2 & I3 & I4 & I5 & I6 & I7 & I8) Hev. sd_red. sd_consts.
  destruct ev as [|n|imm|r|r| | | | | | | | |]; try destruct r as [a| |];
    unfold sd_ev_ok, sd_ackres_ok in Hev; sd_red;
    try (apply andb_true_iff in Hev; destruct Hev as [He1 He2]; apply Z.leb_le in He1, He2);
    try (apply Z.leb_le in Hev);
    unfold sd_handle, sd_api_shutdown, sd_write_attempt, sd_recv_data, sd_recv_sack, sd_recv_shutdown, sd_recv_shutdown_ack,
      sd_recv_shutdown_complete, sd_recv_init, sd_t2_expire, sd_ack_timeout, sd_retransmit_shutdown_ack, sd_finish_shutdown_handling,
      sd_advance_after_drain, sd_has_data, sd_close, isShutdownHandleState, entersShutdownReceived, isDataReceiveState;
    sd_consts.
  all: destruct down; [try (sd_split; sd_fin)|].
  all: sd_prune I1 I2 wsd wsa.
  all: sd_split.
  all: sd_fin.
Qed.

(* ---------------------------------------------------------------- (a) drain before SHUTDOWN / SHUTDOWN ACK *)

Lemma sd_step_inv e ev moved rtx :
  sd_Inv e -> sd_ev_ok e ev = true -> sd_oracle_ok (fst (sd_handle e ev)) moved rtx = true ->
  sd_Inv (fst (fst (sd_step e ev moved rtx))) /\
  sd_drained_out (fst (fst (sd_step e ev moved rtx))) (snd (fst (sd_step e ev moved rtx))).
Proof.
  intros HI He Ho. unfold sd_step. destruct (sd_handle e ev) as [e1 acc] eqn:Eh.
  cbn [fst] in Ho. pose proof (sd_handle_inv e ev HI He) as H1. rewrite Eh in H1. cbn [fst] in H1.
  destruct (sd_gather_inv e1 moved rtx H1 Ho) as (G1 & G2 & _).
  destruct (sd_gather e1 moved rtx) as [e2 out]. cbn [fst snd] in *. split; assumption.
Qed.

(* over histories of one endpoint: any events, any oracle values satisfying the checked constraints *)
Fixpoint sd_ep_trace (e : sd_ep) (l : list (sd_event * Z * bool)) : list (sd_ep * list sd_kind) :=
  match l with
  | [] => []
  | (ev, moved, rtx) :: r =>
    let e2 := fst (fst (sd_step e ev moved rtx)) in
    (e2, snd (fst (sd_step e ev moved rtx))) :: sd_ep_trace e2 r
  end.

Fixpoint sd_evs_ok (e : sd_ep) (l : list (sd_event * Z * bool)) : Prop :=
  match l with
  | [] => True
  | (ev, moved, rtx) :: r =>
    sd_ev_ok e ev = true /\ sd_oracle_ok (fst (sd_handle e ev)) moved rtx = true /\
    sd_evs_ok (fst (fst (sd_step e ev moved rtx))) r
  end.

Lemma sd_drain_before_shutdown_hist : forall l e, sd_Inv e -> sd_evs_ok e l ->
  forall e2 out, In (e2, out) (sd_ep_trace e l) -> sd_Inv e2 /\ sd_drained_out e2 out.
Proof.
  induction l as [|[[ev moved] rtx] r IH]; intros e HI Hok e2 out Hin; [destruct Hin|].
  cbn [sd_evs_ok] in Hok. destruct Hok as (H1 & H2 & H3).
  destruct (sd_step_inv e ev moved rtx HI H1 H2) as [J1 J2].
  cbn [sd_ep_trace In] in Hin. destruct Hin as [Hin|Hin].
  - inversion Hin; subst. split; assumption.
  - exact (IH _ J1 H3 _ _ Hin).
Qed.

Lemma sd_Inv_ep0 pend : 0 <= pend -> sd_Inv (sd_ep0 pend).
Proof. intros H. unfold sd_Inv, sd_ep0. sd_red. sd_consts. repeat split; intros; try discriminate; try lia. Qed.

(* ---------------------------------------------------------------- (b) writes after shutdown began *)

Lemma sd_write_rejected e n : sd_state e <> c_established -> sd_write_attempt e n = (e, false).
Proof. intros H. unfold sd_write_attempt. destruct (Z.eqb_spec (sd_state e) c_established); [contradiction|reflexivity]. Qed.

Lemma sd_write_accepted e n : sd_state e = c_established ->
  sd_write_attempt e n = (sd_set_pend e (sd_pend e + n), true).
Proof. intros H. unfold sd_write_attempt. rewrite H. reflexivity. Qed.

(* a rejected write does not make the write loop send anything it would not have sent anyway *)
Lemma sd_write_rejected_step e n moved rtx : sd_state e <> c_established ->
  sd_step e (SdEvWrite n) moved rtx = (sd_gather e moved rtx, false).
Proof.
  intros H. unfold sd_step, sd_handle. rewrite (sd_write_rejected e n H).
  destruct (sd_gather e moved rtx). reflexivity.
Qed.

(* the states a shutdown passes through all reject writes; a second Shutdown call is refused as well *)
Lemma sd_shutdown_refused e : sd_state e <> c_established -> snd (sd_api_shutdown e) = false.
Proof. intros H. unfold sd_api_shutdown. destruct (Z.eqb_spec (sd_state e) c_established); [contradiction|reflexivity]. Qed.

Lemma sd_shutdown_call_leaves_established e : sd_state e = c_established ->
  sd_state (fst (sd_api_shutdown e)) = (if sd_has_data e then c_shutdownPending else c_shutdownSent) /\
  sd_ret (fst (sd_api_shutdown e)) = SdWaiting.
Proof.
  intros H. unfold sd_api_shutdown. rewrite H. cbn [Z.eqb negb].
  change (c_established =? c_established) with true. cbn [negb].
  unfold sd_has_data. sd_red. destruct ((0 <? sd_pend e) || (0 <? sd_infl e)); sd_red; split; reflexivity.
Qed.

(* ---------------------------------------------------------------- (d) state x chunk matrix *)

(* the permitted successor states, listed explicitly (RFC 9260 section 9.2; 8.5.1 for unexpected chunks) *)
Definition sd_matrix (st : Z) (k : sd_kind) : list Z :=
  if st =? c_established then
    match k with SdShutdown => [c_shutdownReceived; c_shutdownAckSent; c_established] | _ => [c_established] end
  else if st =? c_shutdownPending then
    match k with
    | SdShutdown => [c_shutdownReceived; c_shutdownAckSent; c_shutdownPending]
    | SdSack => [c_shutdownPending; c_shutdownSent]
    | _ => [c_shutdownPending] end
  else if st =? c_shutdownReceived then
    match k with
    | SdShutdown | SdSack => [c_shutdownReceived; c_shutdownAckSent]
    | _ => [c_shutdownReceived] end
  else if st =? c_shutdownSent then
    match k with
    | SdShutdown => [c_shutdownAckSent]
    | SdShutdownAck => [c_closed]
    | _ => [c_shutdownSent] end
  else if st =? c_shutdownAckSent then
    match k with
    | SdShutdownAck | SdShutdownComplete => [c_closed]
    | _ => [c_shutdownAckSent] end
  else [st].

(* what holds between two harness events (checked on every reachable state of the finite instances: sd_ep_inv) *)
Definition sd_boundary (e : sd_ep) : Prop :=
  sd_Inv e /\ sd_wsd e = false /\ sd_wsa e = false /\ sd_wsc e = false /\ sd_scp e = false /\ sd_down e = false /\
  ((sd_state e = c_shutdownPending \/ sd_state e = c_shutdownReceived) -> 0 < sd_pend e + sd_infl e).

(* the handler part of the matrix, with what the gather part needs *)
Definition sd_hmatrix (st : Z) (k : sd_kind) : list Z :=
  match k with
  | SdShutdownAck => if (st =? c_shutdownSent) || (st =? c_shutdownAckSent) then [st] else sd_matrix st k
  | _ => sd_matrix st k
  end.

Lemma sd_handle_matrix e ev k :
  sd_ev_kind ev = Some k -> sd_boundary e -> sd_ev_ok e ev = true ->
  let e1 := fst (sd_handle e ev) in
  In (sd_state e1) (sd_hmatrix (sd_state e) k) /\
  (sd_wsc e1 = true <-> k = SdShutdownAck /\ (sd_state e = c_shutdownSent \/ sd_state e = c_shutdownAckSent)) /\
  (sd_down e1 = true -> sd_state e1 = c_closed) /\
  (sd_state e1 = c_shutdownPending \/ sd_state e1 = c_shutdownReceived -> 0 < sd_pend e1 + sd_infl e1) /\
  sd_pend e1 = sd_pend e.
Proof.
  destruct e as [st wsd wsa wsc scp done t2 pend infl ack ret down].
  intros Hk ((I1 & I2 & I3 & I4 & I5 & I6 & I7 & I8) & B1 & B2 & B3 & B4 & B5 & B6) Hev. sd_red. subst. sd_consts.
  destruct ev as [|n|imm|r|r| | | | | | | | |]; try discriminate Hk; try destruct r as [a| |];
    inversion Hk; subst k; clear Hk;
    unfold sd_ev_ok, sd_ackres_ok in Hev; sd_red;
    try (apply andb_true_iff in Hev; destruct Hev as [He1 He2]; apply Z.leb_le in He1, He2);
    unfold sd_hmatrix, sd_matrix;
    unfold sd_handle, sd_recv_data, sd_recv_sack, sd_recv_shutdown, sd_recv_shutdown_ack,
      sd_recv_shutdown_complete, sd_recv_init, sd_retransmit_shutdown_ack, sd_finish_shutdown_handling,
      sd_advance_after_drain, sd_has_data, sd_close, isShutdownHandleState, entersShutdownReceived, isDataReceiveState;
    sd_consts; sd_red.
  all: sd_split.
  all: sd_red; cbn [In]; repeat split; intros; sd_in; try discriminate; try lia; try tauto;
    try (intuition (try discriminate; try lia)).
Qed.

Theorem sd_state_chunk_matrix e ev k moved rtx :
  sd_ev_kind ev = Some k -> sd_boundary e -> sd_ev_ok e ev = true ->
  sd_oracle_ok (fst (sd_handle e ev)) moved rtx = true ->
  In (sd_state (fst (fst (sd_step e ev moved rtx)))) (sd_matrix (sd_state e) k).
Proof.
  intros Hk HB Hev Hor.
  pose proof (sd_handle_matrix e ev k Hk HB Hev) as HM. cbv zeta in HM.
  destruct HB as (HI & _).
  pose proof (sd_handle_inv e ev HI Hev) as HI1.
  unfold sd_step. destruct (sd_handle e ev) as [e1 acc]. cbn [fst] in *.
  destruct HM as (M1 & M2 & M3 & M4 & M5).
  destruct (sd_gather_inv e1 moved rtx HI1 Hor) as (_ & _ & (G1 & G2 & G3)).
  destruct (sd_gather e1 moved rtx) as [e2 out]. cbn [fst] in *.
  destruct (sd_down e1) eqn:Ed.
  - (* the handler closed the association (SHUTDOWN COMPLETE in SHUTDOWN-ACK-SENT) *)
    rewrite (G1 eq_refl). destruct (sd_wsc e1) eqn:Ew.
    + destruct (proj1 M2 eq_refl) as (Ek & Hs). subst k. rewrite (M3 eq_refl).
      unfold sd_matrix. sd_consts. destruct Hs as [Hs|Hs]; rewrite Hs; cbn; auto.
    + unfold sd_hmatrix in M1. destruct k; try exact M1.
      destruct ((sd_state e =? c_shutdownSent) || (sd_state e =? c_shutdownAckSent)) eqn:Es; [|exact M1].
      exfalso. assert (false = true) as X; [|discriminate X].
      apply (proj2 M2). split; [reflexivity|]. apply orb_true_iff in Es. destruct Es as [Es|Es]; apply Z.eqb_eq in Es; auto.
  - destruct (sd_wsc e1) eqn:Ew.
    + destruct (G2 eq_refl eq_refl) as (Hc & _). rewrite Hc.
      destruct (proj1 M2 eq_refl) as (Ek & Hs). subst k.
      unfold sd_matrix. sd_consts. destruct Hs as [Hs|Hs]; rewrite Hs; cbn; auto.
    + destruct (G3 eq_refl eq_refl M4) as (Hc & _). rewrite Hc.
      unfold sd_hmatrix in M1. destruct k; try exact M1.
      destruct ((sd_state e =? c_shutdownSent) || (sd_state e =? c_shutdownAckSent)) eqn:Es; [|exact M1].
      exfalso. assert (false = true) as X; [|discriminate X].
      apply (proj2 M2). split; [reflexivity|]. apply orb_true_iff in Es. destruct Es as [Es|Es]; apply Z.eqb_eq in Es; auto.
Qed.

(* the cells the property text names *)

(* a duplicated SHUTDOWN in SHUTDOWN-ACK-SENT re-triggers the SHUTDOWN ACK (T2 restarted by the emission) *)
Lemma sd_dup_shutdown_reacks e r moved rtx :
  sd_state e = c_shutdownAckSent -> sd_scp e = false -> sd_wsc e = false -> sd_down e = false ->
  snd (fst (sd_step e (SdEvRecvShutdown r) moved rtx)) = [SdShutdownAck] /\
  sd_state (fst (fst (sd_step e (SdEvRecvShutdown r) moved rtx))) = c_shutdownAckSent /\
  sd_t2 (fst (fst (sd_step e (SdEvRecvShutdown r) moved rtx))) = true.
Proof.
  destruct e as [st wsd wsa wsc scp done t2 pend infl ack ret down]. sd_red. intros -> -> -> ->.
  unfold sd_step, sd_handle, sd_recv_shutdown, sd_retransmit_shutdown_ack. sd_red. sd_consts. cbn [Z.eqb Pos.eqb].
  unfold sd_gather, sd_gather_shutdown. sd_red. cbn [Z.eqb Pos.eqb]. sd_red. repeat split.
Qed.

(* a duplicated SHUTDOWN in SHUTDOWN-RECEIVED is processed again (its cumulative ack counts) and acknowledged as soon
   as the queues are empty *)
Lemma sd_dup_shutdown_in_received e acked moved rtx :
  sd_state e = c_shutdownReceived -> sd_scp e = false -> sd_wsc e = false -> sd_wsa e = false -> sd_wsd e = false ->
  sd_down e = false -> sd_pend e = 0 -> acked = sd_infl e -> moved = 0 ->
  snd (fst (sd_step e (SdEvRecvShutdown (SdAckOk acked)) moved rtx)) =
    (if sd_ack e =? sd_ackImmediate then [SdShutdownAck] else [SdShutdownAck]) /\
  sd_state (fst (fst (sd_step e (SdEvRecvShutdown (SdAckOk acked)) moved rtx))) = c_shutdownAckSent.
Proof.
  destruct e as [st wsd wsa wsc scp done t2 pend infl ack ret down]. sd_red. intros -> -> -> -> -> -> -> -> ->.
  unfold sd_step, sd_handle, sd_recv_shutdown, sd_finish_shutdown_handling, sd_has_data, isShutdownHandleState, entersShutdownReceived.
  sd_red. sd_consts. cbn [Z.eqb Pos.eqb]. sd_red. rewrite Z.sub_diag. cbn [Z.ltb Z.compare]. sd_red.
  unfold sd_gather, sd_gather_shutdown. sd_red. cbn [Z.eqb Pos.eqb]. sd_red.
  destruct (ack =? 1); repeat split.
Qed.

(* SHUTDOWN COMPLETE is honoured in SHUTDOWN-ACK-SENT only *)
Lemma sd_shutdown_complete_only_in_ack_sent e :
  sd_state e <> c_shutdownAckSent -> sd_recv_shutdown_complete e = e.
Proof. intros H. unfold sd_recv_shutdown_complete. destruct (Z.eqb_spec (sd_state e) c_shutdownAckSent); [contradiction|reflexivity]. Qed.

(* SHUTDOWN ACK is honoured in SHUTDOWN-SENT and SHUTDOWN-ACK-SENT only *)
Lemma sd_shutdown_ack_only_when_sent e :
  sd_state e <> c_shutdownSent -> sd_state e <> c_shutdownAckSent -> sd_recv_shutdown_ack e = e.
Proof.
  intros H1 H2. unfold sd_recv_shutdown_ack.
  destruct (Z.eqb_spec (sd_state e) c_shutdownSent); [contradiction|].
  destruct (Z.eqb_spec (sd_state e) c_shutdownAckSent); [contradiction|reflexivity].
Qed.

(* DATA is dropped outside the data-receive states and once SHUTDOWN COMPLETE is pending *)
Lemma sd_data_dropped e imm :
  sd_scp e = true \/ isDataReceiveState (sd_state e) = false -> sd_recv_data e imm = e.
Proof.
  intros H. unfold sd_recv_data. destruct H as [H|H]; rewrite H; [reflexivity|].
  cbn [negb]. rewrite orb_true_r. reflexivity.
Qed.


(* ---------------------------------------------------------------- Shutdown's result (after fix 568b58f) *)

(* for ALL histories of an endpoint — deliveries, timers, API calls, and the events that close the association under a
   blocked Shutdown: transport failure, ABORT from the peer, a concurrent Close — Shutdown's result is nil only if
   shutdownCompleted is set, and then the pending and the in-flight queue are empty *)
Lemma sd_nil_means_completed_hist : forall l e, sd_Inv e -> sd_evs_ok e l ->
  forall e2 out, In (e2, out) (sd_ep_trace e l) -> sd_ret e2 = SdRetNil ->
    sd_done e2 = true /\ sd_pend e2 = 0 /\ sd_infl e2 = 0.
Proof.
  intros l e HI Hok e2 out Hin Hr.
  destruct (sd_drain_before_shutdown_hist l e HI Hok e2 out Hin) as ((_ & _ & _ & _ & _ & _ & I7 & I8) & _).
  specialize (I7 Hr). destruct (I8 I7) as (P & Q & _). auto.
Qed.

(* shutdownCompleted is set by nothing but the end of the sequence: SHUTDOWN ACK received in SHUTDOWN-SENT /
   SHUTDOWN-ACK-SENT, or SHUTDOWN COMPLETE received in SHUTDOWN-ACK-SENT; gather never touches it *)
Lemma sd_done_only_by_sequence e ev moved rtx :
  sd_done (fst (fst (sd_step e ev moved rtx))) = true ->
  sd_done e = true \/
  (ev = SdEvRecvShutdownAck /\ sd_down e = false /\ (sd_state e = c_shutdownSent \/ sd_state e = c_shutdownAckSent)) \/
  (ev = SdEvRecvShutdownComplete /\ sd_down e = false /\ sd_state e = c_shutdownAckSent).
Proof.
  destruct e as [st wsd wsa wsc scp done t2 pend infl ack ret down].
  destruct done; [intros _; left; reflexivity|].
  assert (G : forall e1, sd_done (fst (sd_gather e1 moved rtx)) = sd_done e1).
  { intros [st1 wsd1 wsa1 wsc1 scp1 done1 t21 pend1 infl1 ack1 ret1 down1].
    unfold sd_gather, sd_gather_shutdown, sd_gather_sack, sd_gather_data, sd_advance_after_drain, sd_has_data, sd_close.
    sd_consts. sd_split; sd_red; reflexivity. }
  unfold sd_step. destruct (sd_handle _ ev) as [e1 acc] eqn:Eh.
  specialize (G e1). destruct (sd_gather e1 moved rtx) as [e2 out]. cbn [fst] in *. rewrite G. clear G e2 out.
  revert Eh. sd_red. sd_consts.
  destruct ev as [|n|imm|r|r| | | | | | | | |]; try destruct r as [a| |];
    unfold sd_handle, sd_api_shutdown, sd_write_attempt, sd_recv_data, sd_recv_sack, sd_recv_shutdown, sd_recv_shutdown_ack,
      sd_recv_shutdown_complete, sd_recv_init, sd_t2_expire, sd_ack_timeout, sd_retransmit_shutdown_ack, sd_finish_shutdown_handling,
      sd_advance_after_drain, sd_has_data, sd_close, isShutdownHandleState, entersShutdownReceived, isDataReceiveState;
    sd_consts; sd_red.
  all: sd_split; sd_red; intros Eh; inversion Eh; subst; sd_red; intros Hd; try discriminate Hd.
  all: right; sd_consts; first [left; repeat split; auto; fail | right; repeat split; auto].
Qed.
