(* Teardown (C09): the clauses of the property, for every reachable state of every family. *)
From Coq Require Import Bool List PArith NArith.
From Sctp Require Import Gen Teardown TeardownProofs TeardownHsProofs TeardownEstProofs TeardownSdProofs
  TeardownClose2Proofs TeardownT1Proofs TeardownDlProofs.
Import ListNotations.

Lemma td_in_families : forall c, In c td_families -> td_check_family c = true.
Proof.
  intros c H. unfold td_families in H. apply in_flat_map in H. destruct H as [p [Hp Hc]].
  destruct Hp as [<- | [<- | [<- | []]]].
  - exact (td_forallb_family _ _ c td_families_ok_Hs Hc).
  - exact (td_forallb_family _ _ c td_families_ok_Est Hc).
  - exact (td_forallb_family _ _ c td_families_ok_Sd Hc).
Qed.

Lemma td_in_families_close2 : forall c, In c td_families_close2 -> td_check_family c = true.
Proof. intros c H. exact (td_forallb_family _ _ c td_families_ok_close2 H). Qed.

Lemma td_in_families_t1 : forall c, In c td_families_t1 -> td_check_family c = true.
Proof. intros c H. exact (td_forallb_family _ _ c td_families_t1_ok H). Qed.

Lemma td_in_families_deadline : forall c, In c td_families_deadline -> td_check_family c = true.
Proof. intros c H. exact (td_forallb_family _ _ c td_families_ok_deadline H). Qed.

(* all families: 45 (phase x injection x caller), 6 with a further Close(), 5 with T1 exhaustion, 5 with an
   armed read deadline *)
Definition td_all_families : list td_cfg :=
  td_families ++ td_families_close2 ++ td_families_t1 ++ td_families_deadline.

Lemma td_in_all_families : forall c, In c td_all_families -> td_check_family c = true.
Proof.
  intros c Hc. unfold td_all_families in Hc. apply in_app_or in Hc. destruct Hc as [Hc | Hc].
  - exact (td_in_families c Hc).
  - apply in_app_or in Hc. destruct Hc as [Hc | Hc]; [exact (td_in_families_close2 c Hc)|].
    apply in_app_or in Hc. destruct Hc as [Hc | Hc]; [exact (td_in_families_t1 c Hc) | exact (td_in_families_deadline c Hc)].
Qed.

Lemma td_safe_everywhere : forall c s, In c td_all_families -> td_reach c s ->
  td_chk_wac s = true /\ td_chk_chan s = true /\ td_chk_abort s = true /\ td_chk_close2 s = true /\
  td_chk_shut s = true.
Proof.
  intros c s Hc Hr.
  destruct (td_check_family_sound c (td_in_all_families c Hc)) as [Hs _].
  destruct (td_chk_state_split c s (Hs s Hr)) as [_ H]. exact H.
Qed.

(* (a) maximal run ends are finished: no deadlocked configuration is reachable *)
Lemma td_all_terminate : forall c s, In c td_all_families -> td_reach c s ->
  td_steps c s = [] -> td_done s = true.
Proof.
  intros c s Hc Hr Hnil.
  destruct (td_check_family_sound c (td_in_all_families c Hc)) as [Hs _].
  destruct (td_chk_state_split c s (Hs s Hr)) as [Hd _].
  unfold td_chk_dead, td_final in Hd. rewrite Hnil in Hd. exact Hd.
Qed.

(* (a) progress: from every reachable state a finished state is reachable (the injection of a family happens
   at most once, so after it no further injection is used to get there) *)
Lemma td_progress : forall c s, In c td_all_families -> td_reach c s -> td_can_finish c s.
Proof.
  intros c s Hc Hr.
  destruct (td_check_family_sound c (td_in_all_families c Hc)) as [_ Hl]. exact (Hl s Hr).
Qed.

(* finished means: every goroutine automaton is at its end, timers are closed, the lock is free, every
   caller has returned *)
Lemma td_done_spec : forall s, td_done s = true ->
  td_rl s = TdRlDone /\ td_wl s = TdWlDone /\ td_tl s = true /\ td_tcl s = true /\ td_lk s = false /\
  (td_cw s = TdCwNone \/ td_cw s = TdCwOk \/ td_cw s = TdCwHsErr \/ td_cw s = TdCwClosed) /\
  td_rd s <> TdRdParked /\ td_rd s <> TdRdCheck /\ td_wr s <> TdWrBlocked /\
  td_wr s <> TdWrWoken /\ td_ac s <> TdAcWait /\ td_sh s <> TdShWait /\ td_sh s <> TdShWoken /\
  (td_c1 s = TdCcNone \/ td_c1 s = TdCcRet) /\ (td_c2 s = TdCcNone \/ td_c2 s = TdCcRet) /\
  (td_ab s = TdAbNone \/ td_ab s = TdAbRet) /\ td_dl s <> TdDlArmed.
Proof.
  intros s H. unfold td_done in H. repeat (apply andb_true_iff in H; destruct H as [H ?]).
  split; [destruct (td_rl s); try discriminate; reflexivity|].
  split; [destruct (td_wl s); try discriminate; reflexivity|].
  split; [assumption|]. split; [assumption|]. split; [apply negb_true_iff; assumption|].
  split; [destruct (td_cw s); try discriminate; auto|].
  split; [intro E; rewrite E in *; discriminate|].
  split; [intro E; rewrite E in *; discriminate|].
  split; [intro E; rewrite E in *; discriminate|].
  split; [intro E; rewrite E in *; discriminate|].
  split; [intro E; rewrite E in *; discriminate|].
  split; [intro E; rewrite E in *; discriminate|].
  split; [intro E; rewrite E in *; discriminate|].
  split; [destruct (td_c1 s); try discriminate; auto|].
  split; [destruct (td_c2 s); try discriminate; auto|].
  split; [destruct (td_ab s); try discriminate; auto|].
  intro E; rewrite E in *; discriminate.
Qed.

(* (b) at most one conn.Write is attempted after this side closed the conn ... *)
Lemma td_no_write_after_close : forall c s, In c td_all_families -> td_reach c s -> td_wac s <> TdCnt2.
Proof.
  intros c s Hc Hr. destruct (td_safe_everywhere c s Hc Hr) as [H _].
  unfold td_chk_wac in H. intro E. rewrite E in H. discriminate H.
Qed.

(* ... and that one (a write the loop had already gathered when the conn was closed under it) returns an
   error, counts, and ends the loop through closeNetConn *)
Lemma td_write_after_close_fails : forall s t, td_connc s = true ->
  (td_wl s = TdWlWrAbort \/ td_wl s = TdWlWr1 \/ td_wl s = TdWlWr2 \/ td_wl s = TdWlWrFin) ->
  In t (td_write s) -> td_wl t = TdWlFailConn /\ td_wac t = td_cnt_succ (td_wac s).
Proof.
  intros s t Hc Hw Hin. unfold td_write in Hin.
  destruct Hw as [E | [E | [E | E]]]; rewrite E in Hin; unfold td_conn_write in Hin; rewrite Hc in Hin;
  cbn [orb] in Hin; destruct Hin as [<- | []]; split; reflexivity.
Qed.

(* the write loop never writes from any other program counter *)
Lemma td_writes_only_from_write_pcs : forall s t, In t (td_write s) -> td_wac t <> td_wac s ->
  td_wl s = TdWlWrAbort \/ td_wl s = TdWlWr1 \/ td_wl s = TdWlWr2 \/ td_wl s = TdWlWrFin.
Proof.
  intros s t Hin Hne. unfold td_write in Hin. destruct (td_wl s) eqn:E; auto; exfalso; apply Hne;
  repeat match type of Hin with
         | In _ (if ?b then _ else _) => destruct b
         | In _ (_ ++ _) => apply in_app_or in Hin; destruct Hin as [Hin | Hin]
         | In _ (match ?x with _ => _ end) => destruct x
         | In _ (_ :: _) => destruct Hin as [<- | Hin]
         | In _ [] => destruct Hin
         end; try reflexivity;
  unfold td_close_eff, td_once_cwl, td_close_ch_cwl, td_once_abs, td_close_ch_abs;
  repeat match goal with |- context [if ?b then _ else _] => destruct b end; reflexivity.
Qed.

(* (c) once a first Close() has returned, every step of a further Close() changes nothing but its own
   program counter, and it is never blocked *)
Lemma td_close_idempotent : forall c s, In c td_all_families -> td_reach c s -> td_c1 s = TdCcRet ->
  (forall t, In t (td_close_caller td_c2 td_set_c2 s) -> td_set_c2 (td_c2 s) t = s) /\
  (td_c2 s <> TdCcNone -> td_c2 s <> TdCcRet -> td_close_caller td_c2 td_set_c2 s <> []).
Proof.
  intros c s Hc Hr H1. destruct (td_safe_everywhere c s Hc Hr) as [_ [_ [_ [H _]]]].
  unfold td_chk_close2 in H. rewrite H1 in H.
  destruct (td_c2 s) eqn:E2.
  - split; [|congruence]. intros t Hin. unfold td_close_caller in Hin. rewrite E2 in Hin. destruct Hin.
  - destruct (td_close_caller td_c2 td_set_c2 s) as [|t [|]]; try discriminate H.
    apply Pos.eqb_eq in H. apply td_enc_inj in H. split; [|discriminate].
    intros t' [<- | []]. exact H.
  - destruct (td_close_caller td_c2 td_set_c2 s) as [|t [|]]; try discriminate H.
    apply Pos.eqb_eq in H. apply td_enc_inj in H. split; [|discriminate].
    intros t' [<- | []]. exact H.
  - destruct (td_close_caller td_c2 td_set_c2 s) as [|t [|]]; try discriminate H.
    apply Pos.eqb_eq in H. apply td_enc_inj in H. split; [|discriminate].
    intros t' [<- | []]. exact H.
  - destruct (td_close_caller td_c2 td_set_c2 s) as [|t [|]]; try discriminate H.
    apply Pos.eqb_eq in H. apply td_enc_inj in H. split; [|discriminate].
    intros t' [<- | []]. exact H.
  - destruct (td_close_caller td_c2 td_set_c2 s) as [|t [|]]; try discriminate H.
    apply Pos.eqb_eq in H. apply td_enc_inj in H. split; [|discriminate].
    intros t' [<- | []]. exact H.
  - split; [|congruence]. intros t Hin. unfold td_close_caller in Hin. rewrite E2 in Hin. destruct Hin.
Qed.

(* (d) the error the readers get carries the cause of the ABORT that was handled *)
Definition td_abort_result (e : td_err) : td_rdpc :=
  match e with TdCeAbort0 => TdRdRetAb0 | TdCeAbort1 => TdRdRetAb1 | _ => TdRdNone end.

Lemma td_abort_carries_cause : forall c s, In c td_all_families -> td_reach c s ->
  (td_rd s = TdRdRetAb0 -> td_pab s = TdCeAbort0) /\
  (td_rd s = TdRdRetAb1 -> td_pab s = TdCeAbort1) /\
  (forall e, e = TdCeAbort0 \/ e = TdCeAbort1 -> td_pab s = e -> td_done s = true ->
     td_rerr s = e /\ (td_rd s = TdRdNone \/ td_rd s = TdRdRetData \/ td_rd s = td_abort_result e)).
Proof.
  intros c s Hc Hr. destruct (td_safe_everywhere c s Hc Hr) as [_ [_ [H _]]].
  unfold td_chk_abort in H. apply andb_true_iff in H. destruct H as [H H3]. apply andb_true_iff in H. destruct H as [_ H2].
  split; [|split].
  - intro E. rewrite E in H2. destruct (td_pab s); try discriminate H2. reflexivity.
  - intro E. rewrite E in H2. destruct (td_pab s); try discriminate H2. reflexivity.
  - intros e He Hp Hd. rewrite Hp, Hd in H3.
    destruct He as [-> | ->]; cbn [implb] in H3; apply andb_true_iff in H3; destruct H3 as [Ha Hb];
    (split; [destruct (td_rerr s); try discriminate Ha; reflexivity|]);
    destruct (td_rd s); try discriminate Hb; cbn [td_abort_result]; auto.
Qed.

(* (e) no channel is closed twice; the Once guards agree with the channels they protect *)
Lemma td_channels_closed_once : forall c s, In c td_all_families -> td_reach c s ->
  td_panic s = false /\ td_cwl s = td_cwlo s /\ td_abs s = td_abso s.
Proof.
  intros c s Hc Hr. destruct (td_safe_everywhere c s Hc Hr) as [_ [H _]].
  unfold td_chk_chan in H. apply andb_true_iff in H. destruct H as [H Ha]. apply andb_true_iff in H. destruct H as [Hp Hcw].
  apply negb_true_iff in Hp. apply eqb_prop in Hcw. apply eqb_prop in Ha. auto.
Qed.

(* (f) Shutdown's result *)
Lemma td_shutdown_result : forall c s, In c td_all_families -> td_reach c s ->
  (td_sh s = TdShNil -> td_sdc s = true) /\ (td_sh s = TdShErr -> td_sdc s = false).
Proof.
  intros c s Hc Hr. destruct (td_safe_everywhere c s Hc Hr) as [_ [_ [_ [_ H]]]].
  unfold td_chk_shut in H. split; intro E; rewrite E in H; [exact H | apply negb_true_iff; exact H].
Qed.

(* the schedule that wedged the association before c7c80cb (D31) is harmless now: the state it leads to is
   reachable, Abort() is not blocked there, and a finished state is reachable from it *)
Lemma td_old_race_harmless :
  exists s, td_reach td_cfg_t1_abort s /\
            td_follow td_cfg_t1_abort (td_init td_cfg_t1_abort) td_old_race_schedule = Some s /\
            td_cw s = TdCwOk /\ td_tf s = TdTfDone /\ td_lk s = false /\ td_ab s = TdAbFlag /\
            td_abort_caller s <> [] /\ td_can_finish td_cfg_t1_abort s.
Proof.
  destruct td_old_race_now_harmless as [s [Hf [Hcw [Htf [Hlk [Hab [_ Hne]]]]]]].
  assert (Hr : td_reach td_cfg_t1_abort s) by exact (td_follow_reach _ _ _ Hf).
  exists s. repeat split; try assumption.
  apply td_progress; [|exact Hr]. unfold td_all_families. apply in_or_app. right. apply in_or_app. right.
  apply in_or_app. left. right. left. reflexivity.
Qed.

(* the outcome sets the comparator reads from the model cover every reachable maximal run end *)
Lemma td_outcomes_complete : forall c s, In c td_all_families -> td_reach c s ->
  td_steps c s = [] -> In (td_outcome_of s) (td_final_outcomes c).
Proof.
  intros c s Hc Hr Hnil.
  pose proof (td_in_all_families c Hc) as Hchk.
  apply td_final_outcomes_complete; [|exact Hr | unfold td_final; rewrite Hnil; reflexivity].
  unfold td_check_family in Hchk. unfold td_check_family_safe.
  destruct (td_reach_list c); [|discriminate Hchk]. cbv zeta in Hchk.
  apply andb_true_iff in Hchk. destruct Hchk as [Hchk _]. apply andb_true_iff in Hchk. destruct Hchk as [Hcl _].
  rewrite Hcl. cbn. apply forallb_forall. reflexivity.
Qed.

(* non-vacuity: a run of 21 steps in the family (established, reader blocked, Close injected) *)
Definition td_example_cfg := mkTdCfg TdPhEst TdInjClose TdMixReader false false.
Definition td_example_path : list nat := [0; 7; 6; 0; 0; 1; 1; 1; 0; 0; 0; 0; 0; 2; 1; 3; 0; 2; 0; 0; 0].

Definition td_example_chk : bool :=
  match td_follow td_example_cfg (td_init td_example_cfg) td_example_path with
  | Some s => td_done s && match td_c1 s with TdCcRet => true | _ => false end &&
              match td_rd s with TdRdRetRead => true | _ => false end && td_final td_example_cfg s
  | None => false
  end.

Lemma td_example_chk_ok : td_example_chk = true.
Proof. vm_cast_no_check (eq_refl true). Qed.

Lemma td_example_follow : exists s, td_follow td_example_cfg (td_init td_example_cfg) td_example_path = Some s /\
  td_done s = true /\ td_c1 s = TdCcRet /\ td_rd s = TdRdRetRead /\ td_steps td_example_cfg s = [].
Proof.
  pose proof td_example_chk_ok as H. unfold td_example_chk in H.
  destruct (td_follow td_example_cfg (td_init td_example_cfg) td_example_path) as [s|]; [|discriminate H].
  do 3 (apply andb_true_iff in H; destruct H as [H ?]).
  exists s. split; [reflexivity|]. split; [assumption|].
  split; [destruct (td_c1 s); try discriminate; reflexivity|].
  split; [destruct (td_rd s); try discriminate; reflexivity|].
  unfold td_final in *. destruct (td_steps td_example_cfg s); [reflexivity | discriminate].
Qed.

Lemma td_example_close_run :
  let c := mkTdCfg TdPhEst TdInjClose TdMixReader false false in
  In c td_families /\
  exists s, td_reach c s /\ td_done s = true /\ td_c1 s = TdCcRet /\ td_rd s = TdRdRetRead /\ td_steps c s = [].
Proof.
  cbv zeta. split; [unfold td_families, td_families_of, td_phases, td_injs, td_mixes; cbn; tauto|].
  destruct td_example_follow as [s [F H]]. exists s. split; [exact (td_follow_reach _ _ _ F) | exact H].
Qed.

(* the goroutine of an armed read deadline has ended at every maximal run end *)
Lemma td_deadline_goroutine_ends : forall c s, In c td_families_deadline -> td_reach c s ->
  td_steps c s = [] -> td_dl s = TdDlDone.
Proof.
  intros c s Hc Hr Hnil.
  assert (Ha : In c td_all_families).
  { unfold td_all_families. apply in_or_app. right. apply in_or_app. right. apply in_or_app. right. exact Hc. }
  pose proof (td_all_terminate c s Ha Hr Hnil) as Hd.
  pose proof (td_forallb_family _ _ c td_families_deadline_present Hc) as Hp. cbv beta in Hp.
  pose proof (td_check_family_safe_sound c _ Hp s Hr) as Hpres. unfold td_dl_present in Hpres.
  destruct (td_done_spec s Hd) as [_ [_ [_ [_ [_ [_ [_ [_ [_ [_ [_ [_ [_ [_ [_ [_ Hn]]]]]]]]]]]]]]]].
  destruct (td_dl s); [discriminate Hpres | contradiction | reflexivity].
Qed.
