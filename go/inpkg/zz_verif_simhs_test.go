// Verification harness (overlay; not part of pion/sctp): property C04 — handshake.
//
//  1. hsRecorder: step-commuting records for coq/model/Handshake.v.  For every start of a side, every
//     delivery of an INIT / INIT-ACK / COOKIE-ECHO / COOKIE-ACK and every T1 expiry in a simulated
//     handshake: abstract endpoint state before, event with its abstract content flags, abstract state
//     after, packets emitted, handler error, plus the peer's abstract state and the set of packets emitted
//     so far (the implementation's SYSTEM state).  /verif/ocaml/cmp_hs.ml replays each record on the
//     extracted step function and checks that the system state lies in the computed reachable set.
//  2. exhaustive fault schedules: role assignment x 16 option combinations x start order x every
//     placement of <= k faults (drop / duplicate now / duplicate late / swap-with-next) on the packets of
//     the exchange, run on two real associations; P_C04 is checked on the implementation.
//  3. targeted scenarios: nobody answers (T1-init, T1-cookie budget), transport closed while waiting,
//     SNAP start, continuing after a failed connect, forged packets (outside the property's quantifier).
package sctp

import (
	"bufio"
	"bytes"
	"errors"
	"fmt"
	"os"
	"sort"
	"strings"
	"sync"
	"sync/atomic"
	"testing"
	"testing/synctest"
	"time"

	"github.com/pion/logging"
)

// ---------------------------------------------------------------- logger that remembers handler errors

type hsLogFactory struct{ herr *atomic.Int32 }

func (f *hsLogFactory) NewLogger(string) logging.LeveledLogger { return &hsLogger{herr: f.herr} }

type hsLogger struct{ herr *atomic.Int32 }

func (l *hsLogger) Trace(string)          {}
func (l *hsLogger) Tracef(string, ...any) {}
func (l *hsLogger) Debug(string)          {}
func (l *hsLogger) Debugf(string, ...any) {}
func (l *hsLogger) Info(string)           {}
func (l *hsLogger) Infof(string, ...any)  {}
func (l *hsLogger) Warn(string)           {}
func (l *hsLogger) Warnf(string, ...any)  {}
func (l *hsLogger) Error(string)          {}
func (l *hsLogger) Errorf(format string, args ...any) {
	msg := fmt.Sprintf(format, args...)
	if !strings.HasPrefix(msg, "Failed to handle chunk") {
		return
	}
	switch {
	case strings.Contains(msg, ErrHandleInitState.Error()):
		l.herr.Store(1)
	case strings.Contains(msg, ErrInitAckNoCookie.Error()):
		l.herr.Store(2)
	default:
		l.herr.Store(9)
	}
}

// ---------------------------------------------------------------- trace output shared by parallel runs

type hsTrace struct {
	mu     sync.Mutex
	w      *bufio.Writer
	n      int
	kinds  map[string]int
	skips  int
	recMod int
}

func (tr *hsTrace) emit(body string, kind string) {
	if tr == nil || tr.w == nil {
		return
	}
	tr.mu.Lock()
	defer tr.mu.Unlock()
	tr.n++
	tr.kinds[kind]++
	fmt.Fprintf(tr.w, "case h%d\n%s", tr.n, body)
}

// ---------------------------------------------------------------- one simulated handshake

const (
	hsClient = 0
	hsServer = 1
	hsSnap   = 2
)

type hsRun struct {
	s        *sim
	tr       *hsTrace
	record   bool
	role     [2]int
	started  [2]bool
	herr     [2]*atomic.Int32
	forged   bool // forged packets were injected: no reachable-set check
	tok      [2][]byte
	pre      [2]string
	preWire  int
	preN     [2][2]int  // nRtos of t1Init, t1Cookie before an advance
	preRun   [2][2]bool // running flags before an advance
	evActive bool
	evLine   string
}

func newHsRun(t *testing.T, o simOpts, label string, roles [2]int, tr *hsTrace, record bool) *hsRun {
	s := newSim(t, o, label)
	h := &hsRun{s: s, tr: tr, record: record, role: roles}
	for i := 0; i < 2; i++ {
		h.herr[i] = &atomic.Int32{}
	}
	s.obs = append(s.obs, h)
	return h
}

func (h *hsRun) opt(side int) (il, zc bool) {
	o := h.s.opts
	if side == 0 {
		return o.interleaveA != 0, o.zeroA
	}
	return o.interleaveB != 0, o.zeroB
}

func (h *hsRun) resCode(side int) int {
	s := h.s
	if !s.hsFinished(side) {
		return 0
	}
	switch {
	case s.hsErr[side] == nil:
		return 1
	case errors.Is(s.hsErr[side], ErrHandshakeInitAck):
		return 2
	case errors.Is(s.hsErr[side], ErrHandshakeCookieEcho):
		return 3
	}
	return 9
}

func hsTimer(t *rtxTimer) (bool, int) {
	t.mutex.Lock()
	defer t.mutex.Unlock()
	return t.state == rtxTimerStarted, int(t.nRtos)
}

// abs: the abstraction function (projection of Association read by the model), 21 numbers.
// A side whose read loop / timer goroutine sits in completeHandshake holds a.lock for ever: frozen.
func (h *hsRun) abs(side int) string {
	a := h.s.assoc[side]
	il, zc := h.opt(side)
	if a == nil {
		return fmt.Sprintf("0 %d %d %d %d 0 0 0 0 0 0 0 0 0 0 0 0 0 0 0 0", h.role[side], b2i(il), b2i(zc), closed)
	}
	frozen := 0
	if a.lock.TryRLock() {
		defer a.lock.RUnlock()
	} else {
		frozen = 1 // settled point: the only possible holder is a goroutine blocked inside completeHandshake
	}
	t1i, ni := hsTimer(a.t1Init)
	t1c, nc := hsTimer(a.t1Cookie)
	return fmt.Sprintf("%d %d %d %d %d %d %d %d %d %d %d %d %d %d %d %d %d %d %d %d %d",
		b2i(h.started[side]), h.role[side], b2i(a.localInterleaving), b2i(a.recvZeroChecksum), a.getState(),
		b2i(a.peerInterleaving), b2i(a.peerForwardTSN), b2i(a.peerIForwardTSN), b2i(a.sendZeroChecksum),
		b2i(a.useInterleaving), b2i(a.useForwardTSN), b2i(a.useIForwardTSN),
		b2i(a.myCookie != nil), b2i(a.storedInit != nil), b2i(a.storedCookieEcho != nil),
		b2i(t1i), ni, b2i(t1c), nc, h.resCode(side), frozen)
}

func hsZca(params []param) int {
	z := 0
	for _, p := range params {
		if v, ok := p.(*paramZeroChecksumAcceptable); ok {
			if v.edmid == dtlsErrorDetectionMethod {
				z = 1
			} else {
				z = 2
			}
		}
	}
	return z
}

func hsHasCookie(params []param) bool {
	for _, p := range params {
		if _, ok := p.(*paramStateCookie); ok {
			return true
		}
	}
	return false
}

func hsAbsInit(c *chunkInitCommon) string {
	e := getSupportedExtensions(c.params)
	return fmt.Sprintf("%d %d %d %d", b2i(e.forwardTSN), b2i(e.interleaving), b2i(e.iForwardTSN), hsZca(c.params))
}

// hsAbsPkt: abstract packet (kind + content flags); rcv is the association the packet is addressed to.
func hsAbsPkt(p *packet, rcv *Association) (string, bool) {
	if p == nil || len(p.chunks) != 1 {
		return "", false
	}
	switch c := p.chunks[0].(type) {
	case *chunkInit:
		return "init " + hsAbsInit(&c.chunkInitCommon), true
	case *chunkInitAck:
		return fmt.Sprintf("initack %s %d", hsAbsInit(&c.chunkInitCommon), b2i(hsHasCookie(c.params))), true
	case *chunkCookieEcho:
		mine := rcv != nil && rcv.myCookie != nil && bytes.Equal(rcv.myCookie.cookie, c.cookie)
		return fmt.Sprintf("echo %d", b2i(mine)), true
	case *chunkCookieAck:
		return "ack", true
	}
	return "", false
}

func (h *hsRun) outsLine(side, from int) string {
	var outs []string
	for _, p := range h.s.wire[from:] {
		if p.from != side {
			continue
		}
		if a, ok := hsAbsPkt(p.pkt, h.s.assoc[1-side]); ok {
			outs = append(outs, a)
		}
	}
	return fmt.Sprintf("outs %d %s", len(outs), strings.Join(outs, " "))
}

func (h *hsRun) netLine() string {
	seen := map[string]bool{}
	var l []string
	for _, p := range h.s.wire {
		if a, ok := hsAbsPkt(p.pkt, h.s.assoc[1-p.from]); ok {
			k := fmt.Sprintf("%d %s", p.from, a)
			if !seen[k] {
				seen[k] = true
				l = append(l, k)
			}
		}
	}
	sort.Strings(l)
	return fmt.Sprintf("net %d %s", len(l), strings.Join(l, " "))
}

func (h *hsRun) writeRecord(side int, pre, ev string, wireFrom int, kind string) {
	if !h.record {
		return
	}
	var sb strings.Builder
	herr := h.herr[side].Swap(0)
	fmt.Fprintf(&sb, "x %d\npre %s\nev %s\npost %s\n%s\nherr %d\n", side, pre, ev, h.abs(side), h.outsLine(side, wireFrom), herr)
	if !h.forged {
		fmt.Fprintf(&sb, "peer %s\n%s\n", h.abs(1-side), h.netLine())
	}
	h.tr.emit(sb.String(), kind)
}

// simObserver: deliveries and clock advances
func (h *hsRun) before(s *sim, ev *simEvent) {
	h.evActive = false
	switch ev.kind {
	case "deliver":
		if s.assoc[ev.side] == nil || !h.started[ev.side] {
			return
		}
		a, ok := hsAbsPkt(ev.pkt.pkt, s.assoc[ev.side])
		if !ok {
			return
		}
		h.evActive = true
		h.evLine = "deliver " + a
		h.pre[ev.side] = h.abs(ev.side)
		h.preWire = len(s.wire)
		h.herr[ev.side].Store(0)
	case "advance":
		h.preWire = len(s.wire)
		for side := 0; side < 2; side++ {
			if a := s.assoc[side]; a != nil {
				h.pre[side] = h.abs(side)
				h.preRun[side][0], h.preN[side][0] = hsTimer(a.t1Init)
				h.preRun[side][1], h.preN[side][1] = hsTimer(a.t1Cookie)
			}
		}
	}
}

func (h *hsRun) after(s *sim, ev *simEvent) {
	switch ev.kind {
	case "deliver":
		if h.evActive {
			h.writeRecord(ev.side, h.pre[ev.side], h.evLine, h.preWire, strings.Fields(h.evLine)[1])
		}
	case "advance":
		for side := 0; side < 2; side++ {
			a := s.assoc[side]
			if a == nil {
				continue
			}
			_, ni := hsTimer(a.t1Init)
			_, nc := hsTimer(a.t1Cookie)
			di, dc := ni-h.preN[side][0], nc-h.preN[side][1]
			switch {
			case di == 1 && dc == 0 && h.preRun[side][0]:
				h.writeRecord(side, h.pre[side], "t1i", h.preWire, "t1i")
			case dc == 1 && di == 0 && h.preRun[side][1]:
				h.writeRecord(side, h.pre[side], "t1c", h.preWire, "t1c")
			case di != 0 || dc != 0:
				h.tr.mu.Lock()
				h.tr.skips++
				h.tr.mu.Unlock()
			}
		}
	}
	h.evActive = false
}

func (h *hsRun) waitResult(side int, a *Association) {
	s := h.s
	defer close(s.hsDone[side])
	select {
	case err := <-a.handshakeCompletedCh:
		s.hsErr[side] = err
	case <-a.readLoopCloseCh:
		s.hsErr[side] = ErrAssociationClosedBeforeConn
	}
}

func (h *hsRun) config(side int) Config {
	cfgIn := simConfig(h.s.opts, side, h.s.conn[side])
	cfgIn.LoggerFactory = &hsLogFactory{herr: h.herr[side]}
	return cfgIn
}

// start creates and starts one side according to its role.
func (h *hsRun) start(side int) {
	s := h.s
	pre := h.abs(side)
	wire0 := len(s.wire)
	ev := "start"
	switch h.role[side] {
	case hsSnap:
		cfgIn := h.config(side)
		cfgIn.snapConfig = &snapConfig{localInit: h.tok[side], remoteInit: h.tok[1-side]}
		cfg, err := buildClientConfig(cfgIn)
		if err != nil {
			s.t.Fatalf("config: %v", err)
		}
		ci := &chunkInit{}
		if err = ci.unmarshal(h.tok[1-side]); err != nil {
			s.t.Fatalf("token: %v", err)
		}
		ev = "startsnap init " + hsAbsInit(&ci.chunkInitCommon)
		s.peerInitRwnd[side] = ci.advertisedReceiverWindowCredit // what the shared window monitor learns from a delivered INIT
		a, err := createSNAPAssociation(cfg)
		if a != nil {
			a.ackMode = s.opts.ackMode
		}
		s.assoc[side] = a
		s.hsErr[side] = err
		close(s.hsDone[side])
	default:
		cfgIn := h.config(side)
		var cfg *Config
		var err error
		if h.role[side] == hsClient {
			cfg, err = buildClientConfig(cfgIn)
		} else {
			cfg, err = buildServerConfig(cfgIn)
		}
		if err != nil {
			s.t.Fatalf("config: %v", err)
		}
		tsn := s.opts.tsnA
		if side == 1 {
			tsn = s.opts.tsnB
		}
		a := createAssociationFromConfigWithTsn(cfg, tsn)
		a.ackMode = s.opts.ackMode
		s.assoc[side] = a
		if h.role[side] == hsClient {
			a.initClient()
		} else {
			a.initServer()
		}
		go h.waitResult(side, a)
	}
	h.started[side] = true
	s.logEvent("start side=%d role=%d", side, h.role[side])
	s.settle()
	h.writeRecord(side, pre, ev, wire0, "start")
}

func (h *hsRun) makeTokens() {
	for side := 0; side < 2; side++ {
		tok, err := GenerateOutOfBandToken(simConfig(h.s.opts, side, h.s.conn[side]))
		if err != nil {
			h.s.t.Fatalf("token: %v", err)
		}
		h.tok[side] = tok
	}
}

func (h *hsRun) bothDone() bool { return h.s.hsFinished(0) && h.s.hsFinished(1) }

func (h *hsRun) closeAll() {
	s := h.s
	for side := 0; side < 2; side++ {
		if s.assoc[side] != nil && h.started[side] {
			_ = s.assoc[side].Close()
		}
	}
	synctest.Wait()
}

// ---------------------------------------------------------------- fault schedules

// fault kinds: D drop; U duplicate, both copies back to back; L duplicate, second copy after the next
// delivery of another packet; S swap: held until a later packet of the same sender has been delivered.
const hsFaultKinds = "DULS"

type hsFault struct {
	id   int // packet number in emission order (both directions)
	kind byte
}

func hsFaultString(f []hsFault) string {
	if len(f) == 0 {
		return "none"
	}
	var p []string
	for _, x := range f {
		p = append(p, fmt.Sprintf("%d%c", x.id, x.kind))
	}
	return strings.Join(p, ",")
}

// drive delivers parked packets oldest first, applying the faults; when nothing is deliverable the clock
// advances by one second (T1 retransmissions).  Returns the number of faults that were applied.
func (h *hsRun) drive(faults []hsFault, limit time.Duration) int {
	s := h.s
	fk := map[int]byte{}
	for _, f := range faults {
		fk[f.id] = f.kind
	}
	used := map[int]bool{}
	heldL := map[int]bool{} // duplicate copy waiting for the next delivery of another packet
	heldS := map[int]bool{} // waiting for a later packet of the same sender
	applied := 0
	release := func(q *simPkt) {
		for id := range heldL {
			if id != q.id {
				delete(heldL, id)
			}
		}
		for _, p := range s.flight[q.from] {
			if heldS[p.id] && p.id < q.id {
				delete(heldS, p.id)
			}
		}
	}
	oldest := func() (int, int) {
		bf, bi := -1, -1
		for from := 0; from < 2; from++ {
			for i, p := range s.flight[from] {
				if heldL[p.id] || heldS[p.id] {
					continue
				}
				if bf < 0 || p.id < s.flight[bf][bi].id {
					bf, bi = from, i
				}
				break
			}
		}
		return bf, bi
	}
	deadline := s.now() + limit
	for iter := 0; iter < 2000; iter++ {
		from, idx := oldest()
		if from < 0 {
			if h.bothDone() && len(heldL) == 0 && len(heldS) == 0 {
				break
			}
			if h.bothDone() || s.now() >= deadline {
				// stale arrivals: whatever is still held arrives now
				if len(heldL) == 0 && len(heldS) == 0 {
					break
				}
				heldL, heldS = map[int]bool{}, map[int]bool{}
				continue
			}
			s.advance(time.Second)
			continue
		}
		p := s.flight[from][idx]
		k := byte(0)
		if !used[p.id] {
			k = fk[p.id]
			used[p.id] = true
			if k != 0 {
				applied++
			}
		}
		switch k {
		case 'D':
			s.drop(from, idx)
		case 'U':
			s.deliver(from, idx, true)
			s.deliver(from, idx, false)
			release(p)
		case 'L':
			s.deliver(from, idx, true)
			release(p)
			heldL[p.id] = true
		case 'S':
			heldS[p.id] = true
		default:
			s.deliver(from, idx, false)
			release(p)
		}
	}
	return applied
}

// hsDeep: everything a stale handshake packet must leave alone in an established association.
func hsDeep(a *Association) string {
	if !a.lock.TryRLock() {
		return "frozen"
	}
	defer a.lock.RUnlock()
	t1i, ni := hsTimer(a.t1Init)
	t1c, nc := hsTimer(a.t1Cookie)
	return fmt.Sprintf("st=%d ptag=%d mytag=%d next=%d cumack=%d rcum=%d rwnd=%d ssthresh=%d cwnd=%d use=%v,%v,%v peer=%v,%v,%v szc=%v rzc=%v mis=%d mos=%d si=%v se=%v t1=%v/%d,%v/%d infl=%d pend=%d streams=%d ports=%d,%d cookie=%v",
		a.getState(), a.peerVerificationTag, a.myVerificationTag, a.myNextTSN, a.cumulativeTSNAckPoint,
		a.payloadQueue.getcumulativeTSN(), a.RWND(), a.ssthresh, a.CWND(),
		a.useInterleaving, a.useForwardTSN, a.useIForwardTSN, a.peerInterleaving, a.peerForwardTSN, a.peerIForwardTSN,
		a.sendZeroChecksum, a.recvZeroChecksum, a.myMaxNumInboundStreams, a.myMaxNumOutboundStreams,
		a.storedInit != nil, a.storedCookieEcho != nil, t1i, ni, t1c, nc,
		a.inflightQueue.size(), a.pendingQueue.size(), len(a.streams), a.sourcePort, a.destinationPort, a.myCookie != nil)
}

func hsKind(p *simPkt) string {
	if p.pkt == nil || len(p.pkt.chunks) != 1 {
		return ""
	}
	switch p.pkt.chunks[0].(type) {
	case *chunkInit:
		return "INIT"
	case *chunkInitAck:
		return "INIT-ACK"
	case *chunkCookieEcho:
		return "COOKIE-ECHO"
	case *chunkCookieAck:
		return "COOKIE-ACK"
	}
	return ""
}

func (h *hsRun) allRead() bool {
	s := h.s
	for side := 0; side < 2; side++ {
		for sid, want := range s.sent[1-side] {
			if len(s.recvd[side][sid]) != len(want) {
				return false
			}
		}
	}
	return true
}

func (h *hsRun) exchange(tag string, n int) {
	s := h.s
	for side := 0; side < 2; side++ {
		if err := s.write(side, 1, n+side, PayloadTypeWebRTCBinary); err != nil {
			s.fail("C04", fmt.Sprintf("(write-after-%s) write on an established association failed: side=%d err=%v", tag, side, err))
		}
	}
	if !s.runFaultFree(20*time.Second, 100*time.Millisecond, h.allRead) {
		s.fail("C04", fmt.Sprintf("(data-after-%s) a message written after %s was not delivered within 20 s: read %d/%d and %d/%d",
			tag, tag, len(s.recvd[1][1]), len(s.sent[0][1]), len(s.recvd[0][1]), len(s.sent[1][1])))
	}
}

// checkEstablished: P_C04 on the implementation after the exchange.
func (h *hsRun) checkEstablished(sched string, full bool) {
	s := h.s
	ilA, zcA := h.opt(0)
	ilB, zcB := h.opt(1)
	for side := 0; side < 2; side++ {
		if !s.hsFinished(side) || s.hsErr[side] != nil {
			s.fail("C04", fmt.Sprintf("(not-established) connect call of side %d: finished=%v err=%v state=%s after schedule %s",
				side, s.hsFinished(side), s.hsErr[side], getAssociationStateString(s.assoc[side].getState()), sched))
			return
		}
		if st := s.assoc[side].getState(); st != established {
			s.fail("C04", fmt.Sprintf("(not-established) side %d returned success in state %s after schedule %s", side, getAssociationStateString(st), sched))
			return
		}
	}
	wantIL := ilA && ilB
	wantPR := PartialReliabilityModeForwardTSN
	if wantIL {
		wantPR = PartialReliabilityModeIForwardTSN
	}
	for side := 0; side < 2; side++ {
		m, ok := s.assoc[side].Metadata()
		peerZC, ownZC := zcB, zcA
		if side == 1 {
			peerZC, ownZC = zcA, zcB
		}
		if !ok {
			s.fail("C04", fmt.Sprintf("(metadata) Metadata() not available on established side %d", side))
			continue
		}
		if m.MessageInterleavingEnabled != wantIL {
			s.fail("C04", fmt.Sprintf("(agree-interleaving) side %d uses interleaving=%v, options %v,%v, schedule %s", side, m.MessageInterleavingEnabled, ilA, ilB, sched))
		}
		if m.PartialReliabilityMode != wantPR {
			s.fail("C04", fmt.Sprintf("(fwd-variant) side %d partial reliability mode %v, interleaving %v, schedule %s", side, m.PartialReliabilityMode, wantIL, sched))
		}
		if m.ZeroChecksumSendingEnabled != peerZC {
			s.fail("C04", fmt.Sprintf("(zero-checksum-direction) side %d sends zero checksum=%v but the peer's option is %v (own option %v), schedule %s", side, m.ZeroChecksumSendingEnabled, peerZC, ownZC, sched))
		}
		if m.ZeroChecksumReceivingEnabled != ownZC {
			s.fail("C04", fmt.Sprintf("(zero-checksum-direction) side %d accepts zero checksum=%v but its option is %v", side, m.ZeroChecksumReceivingEnabled, ownZC))
		}
	}
	m0, _ := s.assoc[0].Metadata()
	m1, _ := s.assoc[1].Metadata()
	if m0.MessageInterleavingEnabled != m1.MessageInterleavingEnabled || m0.PartialReliabilityMode != m1.PartialReliabilityMode {
		s.fail("C04", fmt.Sprintf("(agree-interleaving) the two sides disagree: %+v vs %+v, schedule %s", m0, m1, sched))
	}
	if !full {
		return
	}
	// one message each way, then the wire
	h.exchange("handshake", 300)
	// a stale duplicate of each handshake packet, in both directions, after establishment and data transfer
	firstOf := map[string]*simPkt{}
	for _, p := range s.wire {
		if k := hsKind(p); k != "" {
			key := fmt.Sprintf("%s/%d", k, p.from)
			if firstOf[key] == nil {
				firstOf[key] = p
			}
		}
	}
	keys := make([]string, 0, len(firstOf))
	for k := range firstOf {
		keys = append(keys, k)
	}
	sort.Strings(keys)
	for _, key := range keys {
		p := firstOf[key]
		to := 1 - p.from
		before := hsDeep(s.assoc[to])
		w0 := len(s.wire)
		s.flight[p.from] = append(s.flight[p.from], p)
		s.deliver(p.from, len(s.flight[p.from])-1, false)
		after := hsDeep(s.assoc[to])
		if before != after {
			s.fail("C04", fmt.Sprintf("(stale-changed) a stale %s changed the established receiver side %d: before[%s] after[%s]", hsKind(p), to, before, after))
		}
		for _, q := range s.wire[w0:] {
			if q.from != to {
				continue
			}
			k := hsKind(q)
			if !(hsKind(p) == "COOKIE-ECHO" && k == "COOKIE-ACK") {
				s.fail("C04", fmt.Sprintf("(stale-reply) a stale %s made established side %d emit %s", hsKind(p), to, pktSummary(q)))
			}
		}
		// the reply (COOKIE-ACK) reaches the peer as another stale packet
		for len(s.flight[to]) > 0 {
			pb := hsDeep(s.assoc[1-to])
			s.deliver(to, 0, false)
			if pa := hsDeep(s.assoc[1-to]); pa != pb {
				s.fail("C04", fmt.Sprintf("(stale-changed) the reply to a stale %s changed side %d: before[%s] after[%s]", hsKind(p), 1-to, pb, pa))
			}
		}
	}
	h.exchange("stale", 500)
	// the wire: chunk kinds and checksum direction
	for _, p := range s.wire {
		if p.pkt == nil || len(p.raw) < 12 {
			continue
		}
		field := uint32(p.raw[8]) | uint32(p.raw[9])<<8 | uint32(p.raw[10])<<16 | uint32(p.raw[11])<<24
		peerAccepts := (p.from == 0 && zcB) || (p.from == 1 && zcA)
		if field == 0 && (!peerAccepts || chunkMandatoryChecksum(p.pkt.chunks)) {
			s.fail("C04", fmt.Sprintf("(zero-checksum-direction) side %d put a zero checksum on the wire, peer accepts=%v: %s", p.from, peerAccepts, pktSummary(p)))
		}
		for _, c := range p.pkt.chunks {
			switch v := c.(type) {
			case *chunkPayloadData:
				if v.isIData() != wantIL {
					s.fail("C04", fmt.Sprintf("(wire-kind) side %d sent I-DATA=%v, negotiated interleaving=%v", p.from, v.isIData(), wantIL))
				}
			case *chunkForwardTSN:
				if wantIL {
					s.fail("C04", fmt.Sprintf("(wire-kind) side %d sent FORWARD-TSN although interleaving was negotiated", p.from))
				}
			case *chunkIForwardTSN:
				if !wantIL {
					s.fail("C04", fmt.Sprintf("(wire-kind) side %d sent I-FORWARD-TSN without interleaving negotiated", p.from))
				}
			}
		}
	}
}

// checkForwardVariant: abandon one message (rexmit limit 0, its only transmission lost) and look at the
// chunk kind that advances the peer.
func (h *hsRun) checkForwardVariant() {
	s := h.s
	ilA, _ := h.opt(0)
	ilB, _ := h.opt(1)
	st, err := s.assoc[0].OpenStream(7, PayloadTypeWebRTCBinary)
	if err != nil {
		s.fail("C04", fmt.Sprintf("(fwd-variant) cannot open stream: %v", err))
		return
	}
	st.SetReliabilityParams(false, ReliabilityTypeRexmit, 0)
	if _, err = st.WriteSCTP(simPayload(0, 7, 0, 64), PayloadTypeWebRTCBinary); err != nil {
		s.fail("C04", fmt.Sprintf("(fwd-variant) write failed: %v", err))
		return
	}
	s.settle()
	w0 := len(s.wire)
	seen := ""
	for i := 0; i < 12 && seen == ""; i++ {
		for len(s.flight[0]) > 0 {
			s.drop(0, 0)
		}
		s.advance(time.Second)
		for _, p := range s.wire[w0:] {
			if p.from != 0 || p.pkt == nil {
				continue
			}
			for _, c := range p.pkt.chunks {
				switch c.(type) {
				case *chunkForwardTSN:
					seen = "FORWARD-TSN"
				case *chunkIForwardTSN:
					seen = "I-FORWARD-TSN"
				}
			}
		}
	}
	want := "FORWARD-TSN"
	if ilA && ilB {
		want = "I-FORWARD-TSN"
	}
	if seen != want {
		s.fail("C04", fmt.Sprintf("(fwd-variant) abandoned message announced by %q, expected %s (interleaving options %v,%v)", seen, want, ilA, ilB))
	}
}

type hsStats struct {
	mu                                    sync.Mutex
	runs, applied, packets, events, fails int
	byFaults                              [8]int
}

type hsJob struct {
	roles   [2]int
	order   int // 0: side 0 starts first; 1: side 1 first; 2: side 0, one T1 period later side 1
	optIdx  int // bits: ilA zcA ilB zcB
	faults  []hsFault
	idx     int
	special string
}

func hsRoleName(r [2]int) string {
	n := []string{"client", "server", "snap"}
	return n[r[0]] + "-" + n[r[1]]
}

func hsOpts(optIdx int, seed int64) simOpts {
	o := simOpts{seed: seed, setTSN: true, tsnA: 1000 + uint32(optIdx), tsnB: 4000000000 + uint32(optIdx)}
	o.interleaveA, o.zeroA = optIdx&1, optIdx&2 != 0
	o.interleaveB, o.zeroB = (optIdx>>2)&1, optIdx&8 != 0
	return o
}

// runHsJob: one fault schedule on two real associations.
func runHsJob(t *testing.T, j hsJob, tr *hsTrace, st *hsStats, seed int64) {
	synctest.Test(t, func(t *testing.T) {
		o := hsOpts(j.optIdx, seed)
		sched := hsFaultString(j.faults)
		label := fmt.Sprintf("hs/%s/order=%d/il=%d,%d/zc=%v,%v/faults=%s", hsRoleName(j.roles), j.order, o.interleaveA, o.interleaveB, o.zeroA, o.zeroB, sched)
		record := tr != nil && (len(j.faults) <= 1 || tr.recMod <= 1 || j.idx%tr.recMod == j.optIdx%tr.recMod)
		h := newHsRun(t, o, label, j.roles, tr, record)
		s := h.s
		if j.roles[0] == hsSnap {
			h.makeTokens()
		}
		switch j.order {
		case 0:
			h.start(0)
			h.start(1)
		case 1:
			h.start(1)
			h.start(0)
		default:
			h.start(0)
			s.advance(1100 * time.Millisecond)
			h.start(1)
		}
		applied := h.drive(j.faults, 60*time.Second)
		h.checkEstablished(sched, true)
		if len(j.faults) == 0 && len(s.fails) == 0 {
			h.checkForwardVariant()
		}
		st.mu.Lock()
		st.runs++
		st.applied += applied
		st.packets += len(s.wire)
		st.events += len(s.events)
		st.fails += len(s.fails)
		st.byFaults[len(j.faults)]++
		st.mu.Unlock()
		h.closeAll()
		s.report()
	})
}

// hsSchedules enumerates all placements of <= k faults on packet numbers 0..L-1.
func hsSchedules(L, k int) [][]hsFault {
	out := [][]hsFault{nil}
	var rec func(start int, cur []hsFault)
	rec = func(start int, cur []hsFault) {
		if len(cur) == k {
			return
		}
		for id := start; id < L; id++ {
			for _, kind := range []byte(hsFaultKinds) {
				nxt := append(append([]hsFault{}, cur...), hsFault{id, kind})
				out = append(out, nxt)
				rec(id+1, nxt)
			}
		}
	}
	rec(0, nil)
	return out
}

func hsRunJobs(t *testing.T, jobs []hsJob, tr *hsTrace, st *hsStats, seed int64) {
	shards := int(verifEnvInt("VERIF_HS_SHARDS", 16))
	t.Run("jobs", func(t *testing.T) {
		for sh := 0; sh < shards; sh++ {
			sh := sh
			t.Run(fmt.Sprintf("shard%d", sh), func(t *testing.T) {
				t.Parallel()
				for i := sh; i < len(jobs); i += shards {
					runHsJob(t, jobs[i], tr, st, seed)
				}
			})
		}
	})
}

func newHsTrace(t *testing.T, def string) (*hsTrace, func()) {
	w, done := verifOut(t, def)
	return &hsTrace{w: w, kinds: map[string]int{}, recMod: int(verifEnvInt("VERIF_HS_RECMOD", 16))}, done
}

// TestVerifSimHs: exhaustive fault schedules (<= VERIF_HS_K faults) x role assignments x 16 option
// combinations x start orders; step-commuting records go to VERIF_OUT, monitor failures are printed.
func TestVerifSimHs(t *testing.T) {
	seed := verifEnvInt("VERIF_SEED", 1)
	k := int(verifEnvInt("VERIF_HS_K", 2))
	tr, done := newHsTrace(t, "/tmp/verif_hs.trace")
	defer done()
	st := &hsStats{}
	var jobs []hsJob
	add := func(roles [2]int, orders []int, L int) {
		scheds := hsSchedules(L, k)
		for _, order := range orders {
			for opt := 0; opt < 16; opt++ {
				for i, f := range scheds {
					if order == 2 && len(f) > 1 {
						continue // the late start is itself one lost INIT: combined with at most one more fault
					}
					jobs = append(jobs, hsJob{roles: roles, order: order, optIdx: opt, faults: f, idx: i})
				}
			}
		}
	}
	// fault-free exchanges emit 4 (client/server) and 8 (client/client) packets; every fault adds at most two
	add([2]int{hsClient, hsServer}, []int{0, 1, 2}, 4+2*k)
	add([2]int{hsServer, hsClient}, []int{0}, 4+2*k)
	add([2]int{hsClient, hsClient}, []int{0, 1, 2}, 8+2*k)
	for opt := 0; opt < 16; opt++ {
		jobs = append(jobs, hsJob{roles: [2]int{hsSnap, hsSnap}, order: 0, optIdx: opt}, hsJob{roles: [2]int{hsSnap, hsSnap}, order: 1, optIdx: opt})
	}
	hsRunJobs(t, jobs, tr, st, seed)
	fmt.Printf("SIMHS k=%d schedules=%d runs=%d faults_applied=%d by_fault_count=%v packets=%d events=%d records=%d skipped=%d kinds=%v fails=%d\n",
		k, len(jobs), st.runs, st.applied, st.byFaults[:k+1], st.packets, st.events, tr.n, tr.skips, tr.kinds, st.fails)
}

// ---------------------------------------------------------------- targeted scenarios

func hsScenario(t *testing.T, label string, optIdx int, roles [2]int, tr *hsTrace, fn func(h *hsRun)) int {
	n := 0
	synctest.Test(t, func(t *testing.T) {
		h := newHsRun(t, hsOpts(optIdx, int64(optIdx)), label, roles, tr, tr != nil)
		fn(h)
		h.closeAll()
		n = len(h.s.fails)
		h.s.report()
	})
	return n
}

func hsCountKind(s *sim, from int, kind string) (int, []time.Duration) {
	n := 0
	var at []time.Duration
	for _, p := range s.wire {
		if p.from == from && hsKind(p) == kind {
			n++
			at = append(at, p.at)
		}
	}
	return n, at
}

// TestVerifSimHsSpecial: nobody answers (T1-init / T1-cookie budget and timing), transport closed while
// waiting, continuing after a failed connect (frozen endpoint), forged packets.
func TestVerifSimHsSpecial(t *testing.T) {
	tr, done := newHsTrace(t, "/tmp/verif_hs_special.trace")
	defer done()
	fails, scen := 0, 0
	t1line := func(kind string, at []time.Duration, t0, failAt time.Duration) {
		var sb strings.Builder
		fmt.Fprintf(&sb, "t1 %s 1000 60000 %d", kind, len(at)-1)
		for _, x := range at[1:] {
			fmt.Fprintf(&sb, " %d", (x - t0).Milliseconds())
		}
		fmt.Fprintf(&sb, " %d\n", (failAt - t0).Milliseconds())
		tr.emit(sb.String(), "t1-"+kind)
	}
	for opt := 0; opt < 16; opt += 5 {
		// (1) the peer never answers: INIT is sent 1 + maxInitRetrans times, then the connect call fails
		scen++
		fails += hsScenario(t, "hs/no-answer-init", opt, [2]int{hsClient, hsServer}, tr, func(h *hsRun) {
			s := h.s
			h.start(0)
			var failAt time.Duration
			for i := 0; i < 3000 && !s.hsFinished(0); i++ {
				for len(s.flight[0]) > 0 {
					s.drop(0, 0)
				}
				s.advance(100 * time.Millisecond)
				failAt = s.now()
			}
			n, at := hsCountKind(s, 0, "INIT")
			if !s.hsFinished(0) {
				s.fail("C04", fmt.Sprintf("(connect-hangs) no result from the connect call after %v without any answer (%d INITs sent)", s.now(), n))
				return
			}
			if !errors.Is(s.hsErr[0], ErrHandshakeInitAck) {
				s.fail("C04", fmt.Sprintf("(connect-error) unanswered connect call returned %v", s.hsErr[0]))
			}
			if n != int(maxInitRetrans)+1 {
				s.fail("C04", fmt.Sprintf("(retry-budget) %d INITs on the wire, expected 1+%d", n, maxInitRetrans))
			}
			t1line("init", at, at[0], failAt)
			// afterwards nothing more is sent
			w := len(s.wire)
			s.advance(200 * time.Second)
			if len(s.wire) != w {
				s.fail("C04", fmt.Sprintf("(retry-budget) %d more packets after the connect call failed", len(s.wire)-w))
			}
		})
		// (2) INIT-ACK arrives, every COOKIE-ECHO is lost
		scen++
		fails += hsScenario(t, "hs/no-answer-cookie", opt, [2]int{hsClient, hsServer}, tr, func(h *hsRun) {
			s := h.s
			h.start(0)
			h.start(1)
			s.deliver(0, 0, false) // INIT
			s.deliver(1, 0, false) // INIT-ACK
			var failAt time.Duration
			for i := 0; i < 3000 && !s.hsFinished(0); i++ {
				for len(s.flight[0]) > 0 {
					s.drop(0, 0)
				}
				s.advance(100 * time.Millisecond)
				failAt = s.now()
			}
			n, at := hsCountKind(s, 0, "COOKIE-ECHO")
			if !s.hsFinished(0) {
				s.fail("C04", fmt.Sprintf("(connect-hangs) no result from the connect call after %v with every COOKIE-ECHO lost (%d sent)", s.now(), n))
				return
			}
			if !errors.Is(s.hsErr[0], ErrHandshakeCookieEcho) {
				s.fail("C04", fmt.Sprintf("(connect-error) connect call with every COOKIE-ECHO lost returned %v", s.hsErr[0]))
			}
			if n != int(maxInitRetrans)+1 {
				s.fail("C04", fmt.Sprintf("(retry-budget) %d COOKIE-ECHOs on the wire, expected 1+%d", n, maxInitRetrans))
			}
			t1line("cookie", at, at[0], failAt)
			if s.hsFinished(1) {
				s.fail("C04", fmt.Sprintf("(server-result) the server call returned (%v) although no COOKIE-ECHO arrived", s.hsErr[1]))
			}
		})
		// (3) the transport closes while a call waits: the call returns
		for _, who := range []int{0, 1} {
			scen++
			who := who
			fails += hsScenario(t, fmt.Sprintf("hs/transport-closed/side=%d", who), opt, [2]int{hsClient, hsServer}, nil, func(h *hsRun) {
				s := h.s
				h.start(0)
				h.start(1)
				if who == 0 {
					s.drop(0, 0)
				}
				s.advance(2500 * time.Millisecond)
				for len(s.flight[0]) > 0 {
					s.drop(0, 0)
				}
				if s.hsFinished(who) {
					s.fail("C04", fmt.Sprintf("(server-result) side %d returned before anything happened: %v", who, s.hsErr[who]))
				}
				_ = s.conn[who].Close()
				s.settle()
				if !s.hsFinished(who) {
					s.fail("C04", fmt.Sprintf("(wait-after-close) the waiting call of side %d did not return when its transport was closed", who))
				} else if s.hsErr[who] == nil {
					s.fail("C04", fmt.Sprintf("(wait-after-close) the waiting call of side %d returned success after its transport was closed", who))
				}
			})
		}
		// (4) after a failed connect the association lives on: a late INIT-ACK is still processed, the
		// server ends established with a peer whose caller has given up, and the client's read loop then
		// waits for ever inside completeHandshake with the association lock held (frozen in the model).
		scen++
		fails += hsScenario(t, "hs/late-answer-after-failure", opt, [2]int{hsClient, hsServer}, tr, func(h *hsRun) {
			s := h.s
			h.start(0)
			h.start(1)
			for i := 0; i < 3000 && !s.hsFinished(0); i++ {
				for len(s.flight[0]) > 1 {
					s.drop(0, 1)
				}
				s.advance(100 * time.Millisecond)
			}
			if !s.hsFinished(0) || s.hsErr[0] == nil {
				s.fail("C04", "(connect-hangs) no failure with all INITs parked")
				return
			}
			s.deliver(0, 0, false) // the first INIT arrives at last
			for i := 0; i < 20 && (len(s.flight[0]) > 0 || len(s.flight[1]) > 0); i++ {
				if len(s.flight[1]) > 0 {
					s.deliver(1, 0, false)
				} else {
					s.deliver(0, 0, false)
				}
			}
			frozen := !s.assoc[0].lock.TryRLock()
			if !frozen {
				s.assoc[0].lock.RUnlock()
			}
			fmt.Printf("SIMNOTE prop=C04 (late-answer-after-failure) client result=%v; afterwards client state=%s lock-held-for-ever=%v, server result=%v state=%s\n",
				s.hsErr[0], getAssociationStateString(s.assoc[0].getState()), frozen, s.hsErr[1], getAssociationStateString(s.assoc[1].getState()))
		})
		// (5) forged packets (outside the quantifier of C04): recorded for the step correspondence only
		scen++
		fails += hsScenario(t, "hs/forged", opt, [2]int{hsClient, hsServer}, tr, func(h *hsRun) {
			s := h.s
			h.forged = true
			h.start(0)
			h.start(1)
			s.deliver(0, 0, true) // INIT (kept: delivered again below)
			// a COOKIE-ECHO with a wrong cookie, to the server in CLOSED with a cookie
			a0 := s.assoc[0]
			mk := func(vt uint32, c chunk) *simPkt {
				p := &packet{sourcePort: 5000, destinationPort: 5000, verificationTag: vt, chunks: []chunk{c}}
				raw, err := p.marshal(true)
				if err != nil {
					s.t.Fatalf("marshal: %v", err)
				}
				q := &packet{}
				_ = q.unmarshal(false, raw)
				sp := &simPkt{id: s.nextID, from: 0, raw: raw, at: s.now(), pkt: q}
				s.nextID++
				return sp
			}
			inj := func(from int, p *simPkt) {
				p.from = from
				s.flight[from] = append(s.flight[from], p)
				s.deliver(from, len(s.flight[from])-1, false)
			}
			inj(0, mk(s.assoc[1].myVerificationTag, &chunkCookieEcho{cookie: []byte("not the cookie of this endpoint!")}))
			// an INIT announcing another error detection method
			ci := &chunkInit{}
			ci.initiateTag, ci.initialTSN, ci.numInboundStreams, ci.numOutboundStreams, ci.advertisedReceiverWindowCredit = a0.myVerificationTag, a0.myNextTSN, 10, 10, 100000
			setSupportedExtensions(&ci.chunkInitCommon, false)
			ci.params = append(ci.params, &paramZeroChecksumAcceptable{edmid: 7})
			inj(0, mk(0, ci))
			s.deliver(0, 0, false) // the genuine INIT again
			// the client receives an INIT-ACK without state cookie: T1-init stops, nothing is stored
			ia := &chunkInitAck{}
			ia.initiateTag, ia.initialTSN, ia.numInboundStreams, ia.numOutboundStreams, ia.advertisedReceiverWindowCredit = 77, 88, 10, 10, 100000
			setSupportedExtensions(&ia.chunkInitCommon, true)
			for len(s.flight[1]) > 0 {
				s.drop(1, 0)
			}
			inj(1, mk(a0.myVerificationTag, ia))
			t1i, _ := hsTimer(a0.t1Init)
			w := len(s.wire)
			s.advance(300 * time.Second)
			fmt.Printf("SIMNOTE prop=C04 (cookieless-init-ack) forged INIT-ACK without cookie: client state=%s T1-init running=%v stored INIT=%v connect call returned=%v packets sent in the next 300 s=%d\n",
				getAssociationStateString(a0.getState()), t1i, a0.storedInit != nil, s.hsFinished(0), len(s.wire)-w)
		})
	}
	// (6) a foreign peer: INIT (to a server) and INIT-ACK with cookie (to a client) listing every subset of
	// {FORWARD-TSN, I-DATA, I-FORWARD-TSN} as supported extensions, against both local interleaving
	// settings; the negotiated use flags (useInterleaving / useForwardTSN / useIForwardTSN) are part of the
	// step records and must be what the model's hs_caps + hs_update_il give (C04 b, C17 framing clause).
	for opt := 0; opt < 16; opt++ {
		for sub := 0; sub < 8; sub++ {
			scen++
			sub := sub
			exts := func(c *chunkInitCommon) {
				types := []chunkType{ctReconfig}
				if sub&1 != 0 {
					types = append(types, ctForwardTSN)
				}
				if sub&2 != 0 {
					types = append(types, ctIData)
				}
				if sub&4 != 0 {
					types = append(types, ctIForwardTSN)
				}
				c.params = append(c.params, &paramSupportedExtensions{ChunkTypes: types})
			}
			fails += hsScenario(t, fmt.Sprintf("hs/foreign-extensions/opt=%d/sub=%d", opt, sub), opt, [2]int{hsClient, hsServer}, tr, func(h *hsRun) {
				s := h.s
				h.forged = true
				h.start(0)
				h.start(1)
				a0 := s.assoc[0]
				mk := func(from int, vt uint32, c chunk) *simPkt {
					p := &packet{sourcePort: 5000, destinationPort: 5000, verificationTag: vt, chunks: []chunk{c}}
					raw, err := p.marshal(true)
					if err != nil {
						s.t.Fatalf("marshal: %v", err)
					}
					q := &packet{}
					_ = q.unmarshal(false, raw)
					sp := &simPkt{id: s.nextID, from: from, raw: raw, at: s.now(), pkt: q}
					s.nextID++
					return sp
				}
				inj := func(from int, p *simPkt) {
					s.flight[from] = append(s.flight[from], p)
					s.deliver(from, len(s.flight[from])-1, false)
				}
				// the genuine INIT never arrives; the server sees the foreign one
				for len(s.flight[0]) > 0 {
					s.drop(0, 0)
				}
				ci := &chunkInit{}
				ci.initiateTag, ci.initialTSN, ci.numInboundStreams, ci.numOutboundStreams, ci.advertisedReceiverWindowCredit = 4242, 99, 10, 10, 100000
				exts(&ci.chunkInitCommon)
				inj(0, mk(0, 0, ci))
				// the server's INIT-ACK is thrown away; the client sees a foreign INIT-ACK with a cookie
				for len(s.flight[1]) > 0 {
					s.drop(1, 0)
				}
				ia := &chunkInitAck{}
				ia.initiateTag, ia.initialTSN, ia.numInboundStreams, ia.numOutboundStreams, ia.advertisedReceiverWindowCredit = 77, 88, 10, 10, 100000
				exts(&ia.chunkInitCommon)
				ck := []byte("a cookie of a foreign implementation")
				if mc := s.assoc[1].myCookie; mc != nil {
					ck = append([]byte{}, mc.cookie...) // the cookie the server side issued: the model's echo is "mine"
				}
				ia.params = append(ia.params, &paramStateCookie{cookie: ck})
				inj(1, mk(1, a0.myVerificationTag, ia))
				for side := 0; side < 2; side++ {
					a := s.assoc[side]
					a.lock.RLock()
					ui, uf, uif, li, pi := a.useInterleaving, a.useForwardTSN, a.useIForwardTSN, a.localInterleaving, a.peerInterleaving
					a.lock.RUnlock()
					if ui != (li && pi) {
						s.fail("C17", fmt.Sprintf("(framing-not-as-negotiated) side=%d useInterleaving=%v but local=%v peer=%v (extensions subset %d)", side, ui, li, pi, sub))
					}
					if (uf && ui) || (uif && !ui) {
						s.fail("C17", fmt.Sprintf("(forward-variant-mismatch) side=%d useInterleaving=%v useForwardTSN=%v useIForwardTSN=%v (extensions subset %d)", side, ui, uf, uif, sub))
					}
				}
			})
		}
	}
	fmt.Printf("SIMHSSPECIAL scenarios=%d records=%d kinds=%v fails=%d\n", scen, tr.n, tr.kinds, fails)
}

var _ = os.Getenv
