(* step-commuting check of the shutdown control abstraction (coq/model/Shutdown.v): each record
   (abstract endpoint before, event with oracles, packet kinds emitted, API verdict, abstract endpoint after)
   is replayed independently on the extracted step functions:
     sd_replay pre ev moved rtx = (post, out, accepted, oracles_ok). *)
module M = Model
open Zio

let parse_ep (toks : string list) : M.sd_ep =
  match toks with
  | [st; wsd; wsa; wsc; scp; dn; t2; pend; infl; ack; ret; down] ->
    let b s = (s = "1") in
    { M.sd_state = cz st; M.sd_wsd = b wsd; M.sd_wsa = b wsa; M.sd_wsc = b wsc; M.sd_scp = b scp; M.sd_done = b dn; M.sd_t2 = b t2;
      M.sd_pend = cz pend; M.sd_infl = cz infl; M.sd_ack = cz ack;
      M.sd_ret = (match ret with "0" -> M.SdNotCalled | "1" -> M.SdWaiting | "2" -> M.SdRetNil | "3" -> M.SdRetErr
                              | "4" -> M.SdRetIncomplete | _ -> failwith "bad ret");
      M.sd_down = b down }
  | _ -> failwith "bad endpoint line"

let show_ep (e : M.sd_ep) : string =
  Printf.sprintf "state=%s wsd=%s wsa=%s wsc=%s scp=%s done=%s t2=%s pend=%s infl=%s ack=%s ret=%s down=%s"
    (sz e.M.sd_state) (sbool e.M.sd_wsd) (sbool e.M.sd_wsa) (sbool e.M.sd_wsc) (sbool e.M.sd_scp) (sbool e.M.sd_done) (sbool e.M.sd_t2)
    (sz e.M.sd_pend) (sz e.M.sd_infl) (sz e.M.sd_ack)
    (match e.M.sd_ret with M.SdNotCalled -> "0" | M.SdWaiting -> "1" | M.SdRetNil -> "2" | M.SdRetErr -> "3" | M.SdRetIncomplete -> "4")
    (sbool e.M.sd_down)

let kind_name = function
  | M.SdData -> "DATA" | M.SdSack -> "SACK" | M.SdShutdown -> "SHUTDOWN" | M.SdShutdownAck -> "SHUTDOWNACK"
  | M.SdShutdownComplete -> "SHUTDOWNCOMPLETE" | M.SdInit -> "INIT"

let ackres = function
  | "ok" :: k :: _ -> M.SdAckOk (cz k)
  | "stale" :: _ -> M.SdAckStale
  | "err" :: _ -> M.SdAckErr
  | _ -> failwith "bad ack result"

let timer_ev = function
  | "t2" -> M.SdEvT2 | "acktimer" -> M.SdEvAckTimer | "rtx" -> M.SdEvRtx
  | s -> failwith ("bad timer event " ^ s)

let kinds = Hashtbl.create 16
let bump k n = Hashtbl.replace kinds k (n + try Hashtbl.find kinds k with Not_found -> 0)

let observed = ref 0

let run path =
  let cases = read_cases path in
  List.iter (fun (name, lines) ->
    incr records;
    try
      let find k = List.tl (List.find (fun l -> List.hd l = k) lines) in
      let pre = parse_ep (find "pre") and post = parse_ep (find "post") in
      let ev = find "ev" in
      let n = int_of_string (List.hd (find "n")) in
      observed := !observed + n;
      let (moved, rtx) = (match find "or" with [m; r] -> (cz m, r = "1") | _ -> failwith "bad oracle line") in
      let out = (match find "out" with ["-"] -> [] | l -> l) in
      let acc = (find "acc" = ["1"]) in
      let evs =
        match ev with
        | ["shutdown"] -> bump "shutdown-call" n; `One M.SdEvShutdownCall
        | ["write"; k] -> bump (if acc then "write-accepted" else "write-rejected") n; `One (M.SdEvWrite (cz k))
        | ["data"; imm] -> bump "data" n; `One (M.SdEvRecvData (imm = "1"))
        | "sack" :: r -> bump "sack" n; `One (M.SdEvRecvSack (ackres r))
        | "sdn" :: r -> bump "shutdown" n; `One (M.SdEvRecvShutdown (ackres r))
        | ["sdack"] -> bump "shutdown-ack" n; `One M.SdEvRecvShutdownAck
        | ["sdcomp"] -> bump "shutdown-complete" n; `One M.SdEvRecvShutdownComplete
        | ["init"] -> bump "init" n; `One M.SdEvRecvInit
        | ["down"] -> bump "transport-down" n; `One M.SdEvTransportDown
        | ["abort"] -> bump "abort" n; `One M.SdEvRecvAbort
        | ["close"] -> bump "close-call" n; `One M.SdEvCloseCall
        | "seq" :: _ :: l -> bump "timers" n; List.iter (fun t -> bump ("timer-" ^ t) n) l; `Seq (List.map timer_ev l)
        | _ -> failwith "bad event" in
      bump ("state-" ^ sz pre.M.sd_state) n;
      (match evs with
       | `One e ->
         let (((e2, o), a), ok) = M.sd_replay pre e moved rtx in
         let mo = List.map kind_name o in
         let m = Printf.sprintf "%s out=[%s] acc=%s oracles_ok=%s" (show_ep e2) (String.concat " " mo) (sbool a) (sbool ok) in
         let i = Printf.sprintf "%s out=[%s] acc=%s oracles_ok=1" (show_ep post) (String.concat " " out) (sbool acc) in
         if m <> i then report name 0 ("ev=" ^ String.concat " " ev ^ " pre=[" ^ show_ep pre ^ "]") m i
       | `Seq l ->
         let (e2, o, ok, _) =
           List.fold_left (fun (e, o, ok, first) t ->
             let (((e', o'), _), ok') = M.sd_replay e t (if first then moved else czi 0) (t = M.SdEvRtx && rtx) in
             (e', o @ o', ok && ok', false)) (pre, [], true, true) l in
         let mo = List.sort_uniq compare (List.map kind_name o) in
         let io = List.sort_uniq compare out in
         let m = Printf.sprintf "%s out={%s} oracles_ok=%s" (show_ep e2) (String.concat " " mo) (sbool ok) in
         let i = Printf.sprintf "%s out={%s} oracles_ok=1" (show_ep post) (String.concat " " io) in
         if m <> i then report name 0 ("ev=" ^ String.concat " " ev ^ " pre=[" ^ show_ep pre ^ "]") m i)
    with Failure e | Invalid_argument e -> report name 0 ("malformed record: " ^ e) "" ""
       | Not_found -> report name 0 "malformed record (missing line)" "" "") cases;
  let ks = String.concat "," (List.sort compare (Hashtbl.fold (fun k v acc -> (k ^ ":" ^ string_of_int v) :: acc) kinds [])) in
  Printf.printf "SUMMARY component=sd cases=%d records=%d mismatches=%d observed=%d kinds=%s\n"
    (List.length cases) !records !mismatches !observed ks
