// Verification harness (overlay; not part of pion/sctp): timers component (property C19).
//
//	TestVerifTimersRto      float differential: rtoManager / calculateNextTimeout / math.Max / math.Min,
//	                        every float written as its IEEE bit pattern; replayed inside Coq (model/Rto.v)
//	TestVerifTimersFsm      rtxTimer / ackTimer under testing/synctest (virtual time); trace replayed on
//	                        the extracted model (model/TimerFsm.v) by ocaml/cmp_timers.ml
//	TestVerifTimersAckFsm   ack decision (handlePeerLastTSNAndAcknowledgement + handleChunksEnd) and
//	                        Karn's rule (processSelectiveAck) on real Association objects, same comparator
//	TestVerifTimersMonitor  property monitors on live associations in synctest bubbles
package sctp

import (
	"bufio"
	"fmt"
	"io"
	"math"
	"math/rand"
	"net"
	"runtime"
	"sort"
	"strings"
	"sync"
	"testing"
	"testing/synctest"
	"time"
	"unsafe"

	"github.com/pion/logging"
)

// ---------------------------------------------------------------------------------------------
// float differential

func vtBits(f float64) uint64 {
	if f != f {
		return 0x7FF8000000000000 // every NaN is reported as the canonical quiet NaN
	}
	return math.Float64bits(f)
}

func vtDumpMgr(w *bufio.Writer, m *rtoManager) {
	fmt.Fprintf(w, " %d %d %d %d %d\n", vtBits(m.srtt), vtBits(m.rttvar), vtBits(m.rto), vtBits(m.rtoMax), b2i(m.noUpdate))
}

// sample classes (the distribution is printed in the summary line)
const (
	vtClsZero = iota
	vtClsSubnormal
	vtClsTiny
	vtClsTypical
	vtClsSecond
	vtClsNearClamp
	vtClsLarge
	vtClsHuge
	vtClsInf
	vtClsNegative
	vtClsNaN
	vtClsRandomBits
	vtNumCls
)

var vtClsNames = []string{"zero", "subnormal", "tiny", "typical", "second", "nearclamp", "large", "huge", "inf", "negative", "nan", "randbits"}

func vtNudge(rng *rand.Rand, f float64) float64 {
	k := rng.Intn(5) - 2
	for ; k > 0; k-- {
		f = math.Nextafter(f, math.Inf(1))
	}
	for ; k < 0; k++ {
		f = math.Nextafter(f, math.Inf(-1))
	}
	return f
}

// vtSample draws one round-trip sample.  wild=false keeps to what time.Duration arithmetic can
// produce (finite, non-negative); wild=true adds +Inf, negatives, NaN and raw bit patterns.
func vtSample(rng *rand.Rand, wild bool, m *rtoManager, hist *[vtNumCls]int) float64 {
	n := vtClsInf
	if wild {
		n = vtNumCls
	}
	cls := rng.Intn(n)
	if cls < vtClsInf && rng.Intn(3) != 0 {
		cls = vtClsTypical + rng.Intn(3) // weight towards realistic values and clamp neighbourhoods
	}
	hist[cls]++
	switch cls {
	case vtClsZero:
		return 0
	case vtClsSubnormal:
		return math.Float64frombits(uint64(rng.Int63n(1<<52-1)) + 1)
	case vtClsTiny:
		return math.Ldexp(1+rng.Float64(), -1000+rng.Intn(990))
	case vtClsTypical:
		return vtNudge(rng, float64(rng.Intn(500000))/1000.0)
	case vtClsSecond:
		return vtNudge(rng, float64(1+rng.Intn(70000)))
	case vtClsNearClamp:
		// choose the sample so that srtt+4*rttvar lands next to rtoMin or rtoMax
		target := rtoMin
		if rng.Intn(2) == 0 {
			target = m.rtoMax
		}
		if m.srtt == 0 {
			return vtNudge(rng, target/3) // first measurement: srtt + 4*(rtt/2) = 3*rtt
		}
		// subsequent: solve roughly for rtt with |srtt-rtt| = d
		d := (target - 0.875*m.srtt - 3*m.rttvar) / 1.125
		if d < 0 || d != d {
			d = 0
		}
		return vtNudge(rng, m.srtt+d)
	case vtClsLarge:
		return math.Ldexp(1+rng.Float64(), 20+rng.Intn(60))
	case vtClsHuge:
		if rng.Intn(4) == 0 {
			return math.MaxFloat64
		}
		return math.Ldexp(1+rng.Float64(), 900+rng.Intn(124))
	case vtClsInf:
		return math.Inf(1)
	case vtClsNegative:
		switch rng.Intn(4) {
		case 0:
			return math.Copysign(0, -1)
		case 1:
			return math.Inf(-1)
		default:
			return -float64(rng.Intn(500000)) / 1000.0
		}
	case vtClsNaN:
		return math.NaN()
	default:
		return math.Float64frombits(rng.Uint64())
	}
}

var vtRtoMaxes = []float64{
	0, 60000, 1000, 2000, 1500.5, 999.9999999999999, 1000.0000000000001, 500, 1, 0.001, 5e-324,
	120000, 1e9, 9.2e12, 1e300, math.MaxFloat64,
}
var vtRtoMaxesWild = []float64{math.Inf(1), -1, -1000, math.Inf(-1), math.Copysign(0, -1)}

func vtRtoMax(rng *rand.Rand, wild bool) float64 {
	if wild && rng.Intn(4) == 0 {
		if rng.Intn(6) == 0 {
			return math.NaN()
		}
		return vtRtoMaxesWild[rng.Intn(len(vtRtoMaxesWild))]
	}
	if rng.Intn(3) == 0 {
		return 60000
	}
	return vtRtoMaxes[rng.Intn(len(vtRtoMaxes))]
}

func vtAnyFloat(rng *rand.Rand) float64 {
	switch rng.Intn(12) {
	case 0:
		return 0
	case 1:
		return math.Copysign(0, -1)
	case 2:
		return math.Inf(1)
	case 3:
		return math.Inf(-1)
	case 4:
		return math.NaN()
	case 5:
		return math.Float64frombits(rng.Uint64())
	case 6:
		return vtNudge(rng, 1000)
	case 7:
		return math.MaxFloat64
	case 8:
		return math.Float64frombits(uint64(rng.Int63n(1 << 52)))
	default:
		return vtNudge(rng, float64(rng.Intn(200000))/7.0)
	}
}

func TestVerifTimersRto(t *testing.T) {
	seed := verifEnvInt("VERIF_SEED", 1)
	nCases := int(verifEnvInt("VERIF_N", 300))
	nOps := int(verifEnvInt("VERIF_OPS", 24))
	w, done := verifOut(t, "/tmp/verif_timers_rto.trace")
	defer done()
	rng := rand.New(rand.NewSource(seed))
	var hist [vtNumCls]int
	nWild, nSmallMax, nRec := 0, 0, 0

	// constants
	fmt.Fprintf(w, "case consts\nconsts %d %d %d %d %d\n", vtBits(rtoInitial), vtBits(rtoMin), vtBits(defaultRTOMax),
		vtBits(rtoAlpha), vtBits(rtoBeta))
	nRec++

	for c := 0; c < nCases; c++ {
		wild := c%4 == 3
		if wild {
			nWild++
		}
		fmt.Fprintf(w, "case r%d\n", c)
		mx := vtRtoMax(rng, wild)
		if mx < 1000 && mx != 0 {
			nSmallMax++
		}
		m := newRTOManager(mx)
		fmt.Fprintf(w, "new %d", vtBits(mx))
		vtDumpMgr(w, m)
		nRec++
		for i := 0; i < nOps; i++ {
			r := rng.Intn(100)
			switch {
			case r < 70:
				s := vtSample(rng, wild, m, &hist)
				ret := m.setNewRTT(s)
				fmt.Fprintf(w, "rtt %d %d", vtBits(s), vtBits(ret))
				vtDumpMgr(w, m)
			case r < 76:
				m.reset()
				fmt.Fprintf(w, "reset")
				vtDumpMgr(w, m)
			case r < 79:
				v := vtAnyFloat(rng)
				nu := rng.Intn(3) == 0
				m.setRTO(v, nu)
				fmt.Fprintf(w, "set %d %d", vtBits(v), b2i(nu))
				vtDumpMgr(w, m)
			case r < 84:
				fmt.Fprintf(w, "get %d\n", vtBits(m.getRTO()))
			case r < 94:
				// back-off of the current RTO, as rtxTimer.calculateNextTimeout does
				var n uint
				switch rng.Intn(6) {
				case 0:
					n = uint(31 + rng.Intn(40))
				case 1:
					n = uint(rng.Uint64())
				default:
					n = uint(rng.Intn(31))
				}
				rto := m.getRTO()
				if rng.Intn(4) == 0 {
					rto = vtAnyFloat(rng)
				}
				mx2 := m.rtoMax
				if rng.Intn(4) == 0 {
					mx2 = vtRtoMax(rng, wild)
				}
				fmt.Fprintf(w, "nto %d %d %d %d\n", vtBits(rto), n, vtBits(mx2), vtBits(calculateNextTimeout(rto, n, mx2)))
			case r < 97:
				x, y := vtAnyFloat(rng), vtAnyFloat(rng)
				fmt.Fprintf(w, "max %d %d %d\n", vtBits(x), vtBits(y), vtBits(math.Max(x, y)))
			default:
				x, y := vtAnyFloat(rng), vtAnyFloat(rng)
				fmt.Fprintf(w, "min %d %d %d\n", vtBits(x), vtBits(y), vtBits(math.Min(x, y)))
			}
			nRec++
		}
	}
	dist := ""
	for i, n := range hist {
		dist += fmt.Sprintf(" %s=%d", vtClsNames[i], n)
	}
	fmt.Printf("RTOGEN cases=%d records=%d wild_cases=%d rtomax_below_min=%d samples:%s\n", nCases+1, nRec, nWild, nSmallMax, dist)
}

// ---------------------------------------------------------------------------------------------
// timer state machines under testing/synctest
//
// Trace (component "timers"), one case per timer object:
//   rtx <id> <maxRetrans> <rtoMax ms>  |  ack
//   start <rto ms> <ok> / stop / close / isrunning <b> / sleep <ns> / holdfire <ns> / wait
//   each followed by:  obs <state> <pending> <nRtos> <k> { <kind> <id> <n> <virtual ns> }*k
// holdfire: the harness takes the timer mutex, sleeps exactly to the deadline of the arming made by the
// preceding successful start (so the runtime timer fires and its callback goroutine blocks on the mutex),
// then releases the mutex and continues WITHOUT yielding: the callback is "in flight" while the following
// API calls run (GOMAXPROCS(1): it cannot run before the harness blocks in wait/sleep).  Only one callback can
// be kept in flight this way: while a goroutine waits for a mutex the bubble is not idle and virtual time stands
// still, so a second holdfire is only issued after the first callback has run.

type vtOp struct {
	code int // 0 start 1 stop 2 close 3 isrunning 4 sleep 5 holdfire 6 wait
	arg  int64
}

type vtObserver struct {
	mu    sync.Mutex
	start time.Time
	log   []string
}

func (o *vtObserver) add(kind string, id int, n uint) {
	o.mu.Lock()
	o.log = append(o.log, fmt.Sprintf("%s %d %d %d", kind, id, n, int64(time.Since(o.start))))
	o.mu.Unlock()
}
func (o *vtObserver) onRetransmissionTimeout(id int, n uint) { o.add("T", id, n) }
func (o *vtObserver) onRetransmissionFailure(id int)         { o.add("F", id, 0) }
func (o *vtObserver) onAckTimeout()                          { o.add("A", 0, 0) }
func (o *vtObserver) take() []string {
	o.mu.Lock()
	l := o.log
	o.log = nil
	o.mu.Unlock()
	return l
}

func vtMutexStarving(m *sync.Mutex) bool {
	// sync.Mutex = { _ noCopy; mu internal/sync.Mutex{state int32; sema uint32} }; bit 2 = starvation mode
	return *(*int32)(unsafe.Pointer(m))&4 != 0
}

// vtRunTimerCase runs one operation list on a real timer in its own bubble.  Returns false if the case had to
// be abandoned (mutex went into starvation mode: the no-yield assumption of holdfire no longer holds).
func vtRunTimerCase(t *testing.T, w *bufio.Writer, name string, ack bool, id int, maxRetrans uint, rtoMax int64, ops []vtOp) bool {
	var buf strings.Builder
	okCase := true
	synctest.Test(t, func(t *testing.T) {
		obs := &vtObserver{start: time.Now()}
		var rt *rtxTimer
		var at *ackTimer
		var mu *sync.Mutex
		if ack {
			at = newAckTimer(obs)
			mu = &at.mutex
			fmt.Fprintf(&buf, "ack\n")
		} else {
			rt = newRTXTimer(id, obs, maxRetrans, float64(rtoMax))
			mu = &rt.mutex
			fmt.Fprintf(&buf, "rtx %d %d %d\n", id, maxRetrans, rtoMax)
		}
		snapshot := func() {
			var st, pend int
			var nr uint
			mu.Lock()
			if ack {
				st, pend = int(at.state), int(at.pending)
			} else {
				st, pend, nr = int(rt.state), int(rt.pending), rt.nRtos
			}
			mu.Unlock()
			l := obs.take()
			fmt.Fprintf(&buf, "obs %d %d %d %d", st, pend, nr, len(l))
			for _, s := range l {
				fmt.Fprintf(&buf, " %s", s)
			}
			fmt.Fprintln(&buf)
		}
		armedKnown := false
		inFlight := false // a callback goroutine is waiting for the mutex (virtual time cannot pass while it does)
		var deadline time.Time
		for i, op := range ops {
			switch op.code {
			case 0:
				var ok bool
				if ack {
					ok = at.start()
					if ok {
						deadline = time.Now().Add(ackInterval)
					}
				} else {
					ok = rt.start(float64(op.arg))
					if ok {
						deadline = time.Now().Add(rt.calculateNextTimeout())
					}
				}
				if ok {
					armedKnown = true
				}
				fmt.Fprintf(&buf, "start %d %d\n", op.arg, b2i(ok))
			case 1:
				if ack {
					at.stop()
				} else {
					rt.stop()
				}
				armedKnown = false
				fmt.Fprintf(&buf, "stop\n")
			case 2:
				if ack {
					at.close()
				} else {
					rt.close()
				}
				armedKnown = false
				fmt.Fprintf(&buf, "close\n")
			case 3:
				var b bool
				if ack {
					b = at.isRunning()
				} else {
					b = rt.isRunning()
				}
				fmt.Fprintf(&buf, "isrunning %d\n", b2i(b))
			case 4:
				// 2^i ns offset: a harness wake-up never coincides with a timer deadline (whole ms after an API time)
				d := time.Duration(op.arg) + time.Duration(int64(1)<<uint(i%20))
				time.Sleep(d)
				synctest.Wait()
				armedKnown, inFlight = false, false
				fmt.Fprintf(&buf, "sleep %d\n", int64(d))
			case 5:
				if !armedKnown || inFlight {
					continue
				}
				d := time.Until(deadline)
				mu.Lock()
				time.Sleep(d)
				starving := vtMutexStarving(mu)
				mu.Unlock()
				armedKnown, inFlight = false, true
				if starving {
					okCase = false
				}
				fmt.Fprintf(&buf, "holdfire %d\n", int64(d))
			case 6:
				synctest.Wait()
				armedKnown, inFlight = false, false
				fmt.Fprintf(&buf, "wait\n")
			}
			if !okCase {
				break
			}
			snapshot()
		}
		// never leave a timer armed in the bubble
		if ack {
			at.close()
		} else {
			rt.close()
		}
		synctest.Wait()
		if okCase {
			fmt.Fprintf(&buf, "close\nwait\n")
			snapshot()
		}
	})
	if okCase {
		fmt.Fprintf(w, "case %s\n%s", name, buf.String())
	}
	return okCase
}

var vtSleepsRtx = []int64{0, 1, 2, 3, 5, 9, 17, 40}                 // ms
var vtSleepsAck = []int64{0, 50, 150, 199, 200, 201, 250, 400, 600} // ms
var vtStartRtos = []int64{1, 2, 3, 5}

func vtRandomOps(rng *rand.Rand, n int, ack, race bool) []vtOp {
	ops := make([]vtOp, 0, n)
	for len(ops) < n {
		r := rng.Intn(100)
		switch {
		case r < 28:
			ops = append(ops, vtOp{0, vtStartRtos[rng.Intn(len(vtStartRtos))]})
		case r < 40:
			ops = append(ops, vtOp{1, 0})
		case r < 44:
			ops = append(ops, vtOp{2, 0})
		case r < 52:
			ops = append(ops, vtOp{3, 0})
		case r < 80 || !race:
			s := vtSleepsRtx
			if ack {
				s = vtSleepsAck
			}
			ops = append(ops, vtOp{4, s[rng.Intn(len(s))] * int64(time.Millisecond)})
		case r < 93:
			ops = append(ops, vtOp{5, 0})
		default:
			ops = append(ops, vtOp{6, 0})
		}
	}
	return ops
}

func TestVerifTimersFsm(t *testing.T) {
	seed := verifEnvInt("VERIF_SEED", 1)
	nCases := int(verifEnvInt("VERIF_N", 400))
	exLen := int(verifEnvInt("VERIF_LEN", 4))
	w, done := verifOut(t, "/tmp/verif_timers_fsm.trace")
	defer done()
	defer runtime.GOMAXPROCS(runtime.GOMAXPROCS(1)) // see holdfire
	rng := rand.New(rand.NewSource(seed))
	nEx, nRnd, nRace, nAbandoned, nAck := 0, 0, 0, 0, 0

	// exhaustive: every sequence over a small alphabet up to length exLen, rtx (maxRetrans 2) and ack timer
	alphaRtx := []vtOp{{0, 1}, {0, 3}, {1, 0}, {2, 0}, {3, 0}, {4, 0}, {4, 2 * int64(time.Millisecond)}, {4, 7 * int64(time.Millisecond)}}
	alphaAck := []vtOp{{0, 0}, {1, 0}, {2, 0}, {3, 0}, {4, 0}, {4, 150 * int64(time.Millisecond)}, {4, 250 * int64(time.Millisecond)}}
	for _, ack := range []bool{false, true} {
		alpha := alphaRtx
		if ack {
			alpha = alphaAck
		}
		for l := 1; l <= exLen; l++ {
			idx := make([]int, l)
			for {
				ops := make([]vtOp, l)
				for i, k := range idx {
					ops[i] = alpha[k]
				}
				vtRunTimerCase(t, w, fmt.Sprintf("ex%d", nEx), ack, timerT3RTX, 2, 4, ops)
				nEx++
				if ack {
					nAck++
				}
				i := l - 1
				for i >= 0 {
					idx[i]++
					if idx[i] < len(alpha) {
						break
					}
					idx[i] = 0
					i--
				}
				if i < 0 {
					break
				}
			}
		}
	}
	// random longer sequences, a third of them with forced in-flight callbacks
	maxRs := []uint{0, 0, 1, 2, 8, uint(maxInitRetrans)}
	rtoMaxes := []int64{0, 4, 16, 7, 1000, 60000}
	for c := 0; c < nCases; c++ {
		ack := c%4 == 3
		race := c%3 == 0
		ops := vtRandomOps(rng, 4+rng.Intn(12), ack, race)
		ok := vtRunTimerCase(t, w, fmt.Sprintf("rnd%d", c), ack, rng.Intn(5), maxRs[rng.Intn(len(maxRs))], rtoMaxes[rng.Intn(len(rtoMaxes))], ops)
		nRnd++
		if ack {
			nAck++
		}
		if race {
			nRace++
		}
		if !ok {
			nAbandoned++
		}
	}
	fmt.Printf("TIMERFSMGEN exhaustive_len=%d exhaustive_cases=%d random_cases=%d race_cases=%d ack_cases=%d abandoned=%d\n",
		exLen, nEx, nRnd, nRace, nAck, nAbandoned)
}

// ---------------------------------------------------------------------------------------------
// ack decision and Karn's rule on real Association objects (no network, no loops)
//
//   ackinit <ackState> <ackMode>
//   pkt <k> { <immediateSack> <tsn> <peerLastTSN before> <assoc state> <hasPacketLoss after> <canPush before> <beyond window> <dupTSN grew> }*k
//   sleep <ns> | gather <sackEmitted>
//   each followed by  aobs <ackState> <immediateAckTriggered> <delayedAckTriggered> <ackTimer running> <#ack timeouts>
//   karn <minTSN2MeasureRTT> <myNextTSN> <k> { <tsn> <nSent> <acked before> }*k <minTSN after> <#samples 0|1|2> <sampled tsn>
//   maxretrans <timer id> <maxRetrans>

func vtLoggers() logging.LoggerFactory {
	lf := logging.NewDefaultLoggerFactory()
	lf.DefaultLogLevel = logging.LogLevelDisabled
	return lf
}

func vtBareAssoc(tsn uint32) *Association {
	return createAssociationFromConfigWithTsn(&Config{
		Name:          "vt",
		LoggerFactory: vtLoggers(),
	}, tsn)
}

func vtCloseBare(a *Association) {
	a.closeAllTimers()
	a.closeWriteLoopOnce.Do(func() { close(a.closeWriteLoopCh) }) // ends timerLoop
}

func vtAckObs(w *bufio.Writer, a *Association) {
	a.lock.Lock()
	st, imm, del := a.ackState, a.immediateAckTriggered, a.delayedAckTriggered
	a.lock.Unlock()
	fmt.Fprintf(w, "aobs %d %d %d %d %d\n", st, b2i(imm), b2i(del), b2i(a.ackTimer.isRunning()), a.stats.getNumAckTimeouts())
}

func vtAckCase(t *testing.T, w *bufio.Writer, rng *rand.Rand, name string, hist map[string]int) {
	var buf strings.Builder
	bw := bufio.NewWriter(&buf)
	synctest.Test(t, func(t *testing.T) {
		a := vtBareAssoc(rng.Uint32())
		peerTSN := rng.Uint32()
		if rng.Intn(3) == 0 {
			peerTSN = uint32(0) - uint32(rng.Intn(6)) // TSNs wrap during the case
		}
		a.lock.Lock()
		a.setState(established)
		a.payloadQueue.init(peerTSN - 1)
		a.ackMode = []int{ackModeNormal, ackModeNormal, ackModeNormal, ackModeNoDelay, ackModeAlwaysDelay}[rng.Intn(5)]
		a.ackState = ackStateIdle
		fmt.Fprintf(bw, "ackinit %d %d\n", a.ackState, a.ackMode)
		a.lock.Unlock()
		vtAckObs(bw, a)
		ssn := uint16(0)
		nSteps := 3 + rng.Intn(10)
		for i := 0; i < nSteps; i++ {
			switch r := rng.Intn(100); {
			case r < 60:
				k := 1
				if rng.Intn(4) == 0 {
					k = 2 + rng.Intn(2)
				}
				if rng.Intn(12) == 0 {
					a.lock.Lock()
					a.setState([]uint32{shutdownSent, shutdownPending, established}[rng.Intn(3)])
					a.lock.Unlock()
				}
				a.handleChunksStart()
				fmt.Fprintf(bw, "pkt %d", k)
				for j := 0; j < k; j++ {
					a.lock.Lock()
					last := a.peerLastTSN()
					var tsn uint32
					kind := ""
					switch q := rng.Intn(10); {
					case q < 5:
						tsn, kind = last+1, "next"
					case q < 7:
						tsn, kind = last+2+uint32(rng.Intn(3)), "gap"
					case q < 9:
						tsn, kind = last-uint32(rng.Intn(3)), "dup"
					default:
						if rng.Intn(3) == 0 {
							tsn, kind = last+a.payloadQueue.maxTSNOffset+1+uint32(rng.Intn(3)), "beyond-window"
						} else {
							tsn, kind = last+1+uint32(rng.Intn(4)), "any"
						}
					}
					hist[kind]++
					imm := rng.Intn(8) == 0
					c := &chunkPayloadData{
						tsn: tsn, streamIdentifier: 1, streamSequenceNumber: ssn, unordered: true,
						beginningFragment: true, endingFragment: true, immediateSack: imm,
						userData: []byte{byte(i), byte(j)}, payloadType: PayloadTypeWebRTCBinary,
					}
					ssn++
					st := a.getState()
					canPush := a.payloadQueue.canPush(tsn)
					beyond := sna32GT(tsn, a.payloadQueue.cumulativeTSN+a.payloadQueue.maxTSNOffset)
					nDups := len(a.payloadQueue.dupTSN)
					a.handleData(c)
					dupGrew := len(a.payloadQueue.dupTSN) > nDups
					loss := a.payloadQueue.size() > 0
					a.lock.Unlock()
					fmt.Fprintf(bw, " %d %d %d %d %d %d %d %d", b2i(imm), tsn, last, st, b2i(loss), b2i(canPush), b2i(beyond), b2i(dupGrew))
				}
				a.handleChunksEnd()
				fmt.Fprintln(bw)
			case r < 80:
				d := time.Duration([]int64{20, 100, 150, 199, 201, 250, 450}[rng.Intn(7)])*time.Millisecond + time.Duration(int64(1)<<uint(i%20))
				time.Sleep(d)
				synctest.Wait()
				fmt.Fprintf(bw, "sleep %d\n", int64(d))
				hist["sleep"]++
			default:
				a.lock.Lock()
				before := a.stats.getNumSACKsSent()
				a.gatherOutboundSackPackets(nil)
				emitted := a.stats.getNumSACKsSent() > before
				a.lock.Unlock()
				fmt.Fprintf(bw, "gather %d\n", b2i(emitted))
				hist["gather"]++
			}
			vtAckObs(bw, a)
		}
		vtCloseBare(a)
		synctest.Wait()
	})
	bw.Flush()
	fmt.Fprintf(w, "case %s\n%s", name, buf.String())
}

func vtKarnCase(t *testing.T, w *bufio.Writer, rng *rand.Rand, name string, hist map[string]int) {
	var buf strings.Builder
	synctest.Test(t, func(t *testing.T) {
		base := rng.Uint32()
		if rng.Intn(3) == 0 {
			base = uint32(0) - uint32(rng.Intn(8))
		}
		a := vtBareAssoc(base)
		start := time.Now()
		n := 1 + rng.Intn(8)
		a.lock.Lock()
		a.setState(established)
		a.cumulativeTSNAckPoint = base - 1
		a.advancedPeerTSNAckPoint = base - 1
		a.myNextTSN = base + uint32(n) + uint32(rng.Intn(3))
		a.minTSN2MeasureRTT = base + uint32(rng.Intn(n+4)) - 2
		a.rtoMgr = newRTOManager(0)
		type ck struct {
			tsn   uint32
			nSent uint32
			acked bool
		}
		chunks := make([]ck, n)
		for i := 0; i < n; i++ {
			ns := uint32(1)
			if rng.Intn(3) == 0 {
				ns = 2 + uint32(rng.Intn(2))
			}
			acked := i > 0 && rng.Intn(5) == 0 // acknowledged earlier by a gap block
			c := &chunkPayloadData{
				tsn: base + uint32(i), streamIdentifier: 1, beginningFragment: true, endingFragment: true,
				userData: []byte{byte(i)}, nSent: ns, since: start.Add(time.Duration(i) * time.Millisecond), acked: acked,
			}
			a.inflightQueue.pushNoCheck(c)
			chunks[i] = ck{c.tsn, ns, acked}
			if ns > 1 {
				hist["retransmitted"]++
			} else {
				hist["first-tx"]++
			}
		}
		a.lock.Unlock()
		time.Sleep(time.Second)
		// SACK: cumulative ack covers k chunks, then non-overlapping gap blocks over the rest
		k := rng.Intn(n + 1)
		sack := &chunkSelectiveAck{cumulativeTSNAck: base - 1 + uint32(k)}
		order := []ck{}
		for i := 0; i < k; i++ {
			order = append(order, chunks[i])
		}
		for i := k + 1; i < n; { // offsets are relative to cumulativeTSNAck; offset 1 would be contiguous
			if rng.Intn(2) == 0 {
				i++
				continue
			}
			j := i + rng.Intn(n-i)
			sack.gapAckBlocks = append(sack.gapAckBlocks, gapAckBlock{start: uint16(i - k + 1), end: uint16(j - k + 1)})
			for x := i; x <= j; x++ {
				order = append(order, chunks[x])
			}
			i = j + 2
		}
		a.lock.Lock()
		mn, nx := a.minTSN2MeasureRTT, a.myNextTSN
		_, _, _, _, _, err := a.processSelectiveAck(sack)
		mnAfter := a.minTSN2MeasureRTT
		srtt, rttvar := a.rtoMgr.srtt, a.rtoMgr.rttvar
		a.lock.Unlock()
		if err != nil {
			hist["sack-rejected"]++
			vtCloseBare(a)
			return
		}
		cnt, sampled := 0, uint32(0)
		if srtt != 0 {
			if rttvar == srtt/2 {
				cnt = 1
				sampled = base + uint32(1000-int(math.Round(srtt)))
				hist["sampled"]++
			} else {
				cnt = 2
			}
		} else {
			hist["no-sample"]++
		}
		fmt.Fprintf(&buf, "karn %d %d %d", mn, nx, len(order))
		for _, c := range order {
			fmt.Fprintf(&buf, " %d %d %d", c.tsn, c.nSent, b2i(c.acked))
		}
		fmt.Fprintf(&buf, " %d %d %d\n", mnAfter, cnt, sampled)
		vtCloseBare(a)
		synctest.Wait()
	})
	if buf.Len() > 0 {
		fmt.Fprintf(w, "case %s\n%s", name, buf.String())
	}
}

func TestVerifTimersAckFsm(t *testing.T) {
	seed := verifEnvInt("VERIF_SEED", 1)
	nCases := int(verifEnvInt("VERIF_N", 300))
	w, done := verifOut(t, "/tmp/verif_timers_ack.trace")
	defer done()
	rng := rand.New(rand.NewSource(seed))
	hist := map[string]int{}
	// retry limits as wired into a real association
	a := vtBareAssoc(1)
	fmt.Fprintf(w, "case maxretrans\n")
	for _, tm := range []*rtxTimer{a.t1Init, a.t1Cookie, a.t2Shutdown, a.t3RTX, a.tReconfig} {
		fmt.Fprintf(w, "maxretrans %d %d\n", tm.id, tm.maxRetrans)
	}
	vtCloseBare(a)
	for c := 0; c < nCases; c++ {
		vtAckCase(t, w, rng, fmt.Sprintf("ack%d", c), hist)
		vtKarnCase(t, w, rng, fmt.Sprintf("karn%d", c), hist)
	}
	keys := make([]string, 0, len(hist))
	for k := range hist {
		keys = append(keys, k)
	}
	sort.Strings(keys)
	s := ""
	for _, k := range keys {
		s += fmt.Sprintf(" %s=%d", k, hist[k])
	}
	fmt.Printf("TIMERACKGEN cases=%d%s\n", 2*nCases+1, s)
}

// ---------------------------------------------------------------------------------------------
// monitors on live associations (in-memory transport owned by the harness, synctest bubble)

type vtPkt struct {
	from int
	at   time.Duration
	raw  []byte
}

type vtNet struct {
	mu      sync.Mutex
	start   time.Time
	conns   [2]*vtConn
	log     []vtPkt
	deliver func(from int, raw []byte) bool // nil: deliver everything at once
}

type vtConn struct {
	net    *vtNet
	side   int
	in     chan []byte
	closed chan struct{}
	once   sync.Once
}

type vtAddr struct{}

func (vtAddr) Network() string { return "vt" }
func (vtAddr) String() string  { return "vt" }

func (c *vtConn) Read(p []byte) (int, error) {
	select {
	case b := <-c.in:
		return copy(p, b), nil
	case <-c.closed:
		return 0, io.EOF
	}
}

func (c *vtConn) Write(p []byte) (int, error) {
	b := append([]byte(nil), p...)
	n := c.net
	n.mu.Lock()
	n.log = append(n.log, vtPkt{c.side, time.Since(n.start), b})
	d := n.deliver
	n.mu.Unlock()
	if d == nil || d(c.side, b) {
		n.inject(1-c.side, b)
	}
	return len(p), nil
}

func (c *vtConn) Close() error                     { c.once.Do(func() { close(c.closed) }); return nil }
func (c *vtConn) LocalAddr() net.Addr              { return vtAddr{} }
func (c *vtConn) RemoteAddr() net.Addr             { return vtAddr{} }
func (c *vtConn) SetDeadline(time.Time) error      { return nil }
func (c *vtConn) SetReadDeadline(time.Time) error  { return nil }
func (c *vtConn) SetWriteDeadline(time.Time) error { return nil }

func (n *vtNet) inject(to int, raw []byte) {
	select {
	case n.conns[to].in <- raw:
	default:
	}
}

func newVtNet() *vtNet {
	n := &vtNet{start: time.Now()}
	for i := 0; i < 2; i++ {
		n.conns[i] = &vtConn{net: n, side: i, in: make(chan []byte, 4096), closed: make(chan struct{})}
	}
	return n
}

func (n *vtNet) setDeliver(f func(from int, raw []byte) bool) {
	n.mu.Lock()
	n.deliver = f
	n.mu.Unlock()
}

func (n *vtNet) mark() int {
	n.mu.Lock()
	defer n.mu.Unlock()
	return len(n.log)
}

func (n *vtNet) since(mark int) []vtPkt {
	n.mu.Lock()
	defer n.mu.Unlock()
	return append([]vtPkt(nil), n.log[mark:]...)
}

// chunks of a raw packet as (type, value bytes)
type vtChunk struct {
	typ   chunkType
	value []byte
}

func vtChunks(raw []byte) []vtChunk {
	var out []vtChunk
	off := packetHeaderSize
	for off+4 <= len(raw) {
		l := int(raw[off+2])<<8 | int(raw[off+3])
		if l < 4 || off+l > len(raw) {
			break
		}
		out = append(out, vtChunk{chunkType(raw[off]), raw[off+4 : off+l]})
		off += l + getPadding(l)
	}
	return out
}

func vtHas(p vtPkt, from int, typ chunkType) bool {
	if p.from != from {
		return false
	}
	for _, c := range vtChunks(p.raw) {
		if c.typ == typ || (typ == ctPayloadData && c.typ == ctIData) { // DATA or I-DATA, whichever was negotiated
			return true
		}
	}
	return false
}

// establish two associations over the harness transport; both are closed by the returned function
func vtEstablish(t *testing.T, n *vtNet, rtoMax float64) (a0, a1 *Association, closeAll func()) {
	type res struct {
		a   *Association
		err error
	}
	ch0, ch1 := make(chan res, 1), make(chan res, 1)
	go func() {
		a, err := Client(Config{Name: "A", NetConn: n.conns[0], LoggerFactory: vtLoggers(), RTOMax: rtoMax})
		ch0 <- res{a, err}
	}()
	go func() {
		a, err := Server(Config{Name: "B", NetConn: n.conns[1], LoggerFactory: vtLoggers(), RTOMax: rtoMax})
		ch1 <- res{a, err}
	}()
	r0, r1 := <-ch0, <-ch1
	if r0.err != nil || r1.err != nil {
		t.Fatalf("handshake failed: %v %v", r0.err, r1.err)
	}
	return r0.a, r1.a, func() {
		_ = r0.a.Close()
		_ = r1.a.Close()
		synctest.Wait()
	}
}

type vtMon struct {
	fails  []string
	checks map[string]int
}

func (m *vtMon) check(key string, ok bool, format string, args ...interface{}) {
	m.checks[key]++
	if !ok {
		m.fails = append(m.fails, fmt.Sprintf("TIMERFAIL key=%s %s", key, fmt.Sprintf(format, args...)))
	}
}

// D15: a packet that carries only a duplicate DATA chunk must be acknowledged at once (RFC 9260 6.2) and the
// duplicate must be reported.
func vtMonDuplicate(t *testing.T, m *vtMon, extraMsgs int) {
	synctest.Test(t, func(t *testing.T) {
		n := newVtNet()
		a0, a1, closeAll := vtEstablish(t, n, 0)
		defer closeAll()
		s, err := a0.OpenStream(1, PayloadTypeWebRTCBinary)
		if err != nil {
			t.Fatal(err)
		}
		var dataPkt []byte
		for i := 0; i <= extraMsgs; i++ {
			mk := n.mark()
			if _, err = s.Write([]byte{1, 2, 3, byte(i)}); err != nil {
				t.Fatal(err)
			}
			time.Sleep(300 * time.Millisecond) // delayed SACK goes out
			synctest.Wait()
			for _, p := range n.since(mk) {
				if vtHas(p, 0, ctPayloadData) && dataPkt == nil {
					dataPkt = p.raw // the first DATA packet: its TSN is at or below B's cumulative TSN from now on
				}
			}
		}
		if dataPkt == nil {
			desc := ""
			for _, p := range n.since(0) {
				desc += fmt.Sprintf(" [%d@%v:", p.from, p.at)
				for _, c := range vtChunks(p.raw) {
					desc += fmt.Sprintf(" %d", c.typ)
				}
				desc += "]"
			}
			t.Fatal("no DATA packet seen:" + desc)
		}
		dupTSN := uint32(dataPkt[16])<<24 | uint32(dataPkt[17])<<16 | uint32(dataPkt[18])<<8 | uint32(dataPkt[19])
		a1.lock.Lock()
		stBefore, cum := a1.ackState, a1.peerLastTSN()
		a1.lock.Unlock()
		mk := n.mark()
		t0 := time.Since(n.start)
		n.inject(1, dataPkt) // the same packet again: only a duplicate DATA chunk
		synctest.Wait()
		a1.lock.Lock()
		stAfter := a1.ackState
		a1.lock.Unlock()
		running := a1.ackTimer.isRunning()
		sackNow := false
		for _, p := range n.since(mk) {
			if vtHas(p, 1, ctSack) {
				sackNow = true
			}
		}
		time.Sleep(250 * time.Millisecond)
		synctest.Wait()
		var sackAt time.Duration = -1
		var dups []uint32
		for _, p := range n.since(mk) {
			if vtHas(p, 1, ctSack) && sackAt < 0 {
				sackAt = p.at - t0
				pk := &packet{}
				if err := pk.unmarshal(true, p.raw); err == nil {
					for _, c := range pk.chunks {
						if sk, ok := c.(*chunkSelectiveAck); ok {
							dups = sk.duplicateTSN
						}
					}
				}
			}
		}
		m.check("c19-dup-data-delayed-ack", sackNow,
			"duplicate DATA tsn=%d (peer cumTSN=%d, dup is %d behind) ackState before=%d after=%d ackTimerRunning=%v: no SACK at the instant of arrival; first SACK %v later",
			dupTSN, cum, cum-dupTSN, stBefore, stAfter, running, sackAt)
		found := false
		for _, d := range dups {
			if d == dupTSN {
				found = true
			}
		}
		m.check("c19-dup-tsn-not-reported", found,
			"duplicate DATA tsn=%d (peer cumTSN=%d): the next SACK (%v later) lists duplicate TSNs %v", dupTSN, cum, sackAt, dups)
	})
}

// D2/D3: on-demand heartbeat
func vtMonHeartbeat(t *testing.T, m *vtMon, oneWay time.Duration) {
	synctest.Test(t, func(t *testing.T) {
		n := newVtNet()
		a0, a1, closeAll := vtEstablish(t, n, 0)
		defer closeAll()
		_ = a1
		// packets are held by the harness and delivered after the one-way delay
		var held []vtPkt
		var hmu sync.Mutex
		n.setDeliver(func(from int, raw []byte) bool {
			hmu.Lock()
			held = append(held, vtPkt{from: from, raw: raw})
			hmu.Unlock()
			return false
		})
		flush := func() {
			hmu.Lock()
			h := held
			held = nil
			hmu.Unlock()
			for _, p := range h {
				n.inject(1-p.from, p.raw)
			}
			synctest.Wait()
		}
		a0.lock.Lock()
		a0.rtoMgr.reset()
		srttBefore := a0.rtoMgr.srtt
		a0.lock.Unlock()
		mk := n.mark()
		a0.ActiveHeartbeat()
		synctest.Wait()
		hbLen := -1
		for _, p := range n.since(mk) {
			for _, c := range vtChunks(p.raw) {
				if p.from == 0 && c.typ == ctHeartbeat {
					hbLen = len(c.value)
				}
			}
		}
		m.check("c19-heartbeat-no-info", hbLen >= 12,
			"ActiveHeartbeat(): HEARTBEAT chunk on the wire has a %d-byte body (Heartbeat Info parameter with the 8-byte timestamp needs 12)", hbLen)
		time.Sleep(oneWay)
		flush() // HEARTBEAT reaches B
		time.Sleep(oneWay)
		flush() // whatever B answered reaches A
		time.Sleep(time.Second)
		flush()
		acked := false
		for _, p := range n.since(mk) {
			if vtHas(p, 1, ctHeartbeatAck) {
				acked = true
			}
		}
		m.check("c19-heartbeat-unanswered", acked, "ActiveHeartbeat(): peer sent no HEARTBEAT-ACK within %v (HEARTBEAT body %d bytes)", 2*oneWay+time.Second, hbLen)
		a0.lock.Lock()
		srttAfter := a0.rtoMgr.srtt
		a0.lock.Unlock()
		m.check("c19-heartbeat-no-rtt-sample", srttAfter != srttBefore,
			"ActiveHeartbeat() with a %v round trip: srtt before=%v after=%v (no RTT sample)", 2*oneWay, srttBefore, srttAfter)

		// independent of the emitter: a well-formed HEARTBEAT (built by hand) must be answered, and the answer must
		// be understood by the sender of the heartbeat
		info := make([]byte, 8)
		ts := uint64(time.Now().UnixNano())
		for i := 0; i < 8; i++ {
			info[i] = byte(ts >> uint(56-8*i))
		}
		body := append([]byte{0, 1, 0, 12}, info...)               // Heartbeat Info parameter
		hb := append([]byte{byte(ctHeartbeat), 0, 0, 16}, body...) // chunk header + parameter
		a0.lock.Lock()
		hdr := []byte{byte(a0.sourcePort >> 8), byte(a0.sourcePort), byte(a0.destinationPort >> 8), byte(a0.destinationPort),
			byte(a0.peerVerificationTag >> 24), byte(a0.peerVerificationTag >> 16), byte(a0.peerVerificationTag >> 8), byte(a0.peerVerificationTag), 0, 0, 0, 0}
		a0.lock.Unlock()
		raw := append(hdr, hb...)
		cs := generatePacketChecksum(raw)
		raw[8], raw[9], raw[10], raw[11] = byte(cs), byte(cs>>8), byte(cs>>16), byte(cs>>24)
		mk2 := n.mark()
		n.inject(1, raw)
		synctest.Wait()
		var ackRaw []byte
		for _, p := range n.since(mk2) {
			if vtHas(p, 1, ctHeartbeatAck) {
				ackRaw = p.raw
			}
		}
		m.check("c19-wellformed-heartbeat-unanswered", ackRaw != nil, "hand-built HEARTBEAT with info: no HEARTBEAT-ACK from the peer")
		if ackRaw != nil {
			pk := &packet{}
			err := pk.unmarshal(true, ackRaw)
			m.check("c19-heartbeat-ack-not-decoded", err == nil,
				"HEARTBEAT-ACK emitted by the peer (%d bytes) is rejected by packet.unmarshal: %v", len(ackRaw), err)
			a0.lock.Lock()
			s1 := a0.rtoMgr.srtt
			a0.lock.Unlock()
			time.Sleep(oneWay)
			flush()
			a0.lock.Lock()
			s2 := a0.rtoMgr.srtt
			a0.lock.Unlock()
			m.check("c19-heartbeat-ack-no-rtt-sample", s1 != s2, "well-formed HEARTBEAT-ACK delivered after %v: srtt before=%v after=%v", oneWay, s1, s2)
		}
	})
}

// T1-init: bounded retries with doubling intervals capped by RTO.max, then failure is reported
func vtMonT1(t *testing.T, m *vtMon, rtoMax float64) {
	synctest.Test(t, func(t *testing.T) {
		n := newVtNet()
		n.setDeliver(func(int, []byte) bool { return false }) // silent peer
		errCh := make(chan error, 1)
		go func() {
			_, err := Client(Config{Name: "A", NetConn: n.conns[0], LoggerFactory: vtLoggers(), RTOMax: rtoMax})
			errCh <- err
		}()
		effMax := rtoMax
		if effMax == 0 {
			effMax = defaultRTOMax
		}
		var want []time.Duration
		at := time.Duration(0)
		want = append(want, 0)
		for i := uint(0); i <= maxInitRetrans; i++ {
			at += time.Duration(math.Min(rtoInitial*float64(uint64(1)<<i), effMax)) * time.Millisecond
			want = append(want, at)
		}
		failAt := want[len(want)-1]
		want = want[:len(want)-1] // the last expiry reports failure instead of retransmitting
		time.Sleep(failAt + time.Second)
		synctest.Wait()
		var got []time.Duration
		for _, p := range n.since(0) {
			if vtHas(p, 0, ctInit) {
				got = append(got, p.at)
			}
		}
		var err error
		select {
		case err = <-errCh:
		default:
		}
		m.check("c19-t1-schedule", fmt.Sprint(got) == fmt.Sprint(want) && err != nil,
			"rtoMax=%v: INIT transmissions at %v, expected %v; handshake result after %v: %v", rtoMax, got, want, failAt, err)
		_ = n.conns[0].Close()
		_ = n.conns[1].Close()
		synctest.Wait()
	})
}

// T3-rtx never gives up; the acknowledgement of a retransmitted chunk gives no RTT sample (Karn); every
// retransmission interval is within [rtoMin, rtoMax]; RTO stays in range; SACK delay <= 200 ms
func vtMonT3(t *testing.T, m *vtMon, rtoMax float64, blackout time.Duration, oneWay time.Duration) {
	synctest.Test(t, func(t *testing.T) {
		n := newVtNet()
		a0, a1, closeAll := vtEstablish(t, n, rtoMax)
		defer closeAll()
		effMax := rtoMax
		if effMax == 0 {
			effMax = defaultRTOMax
		}
		s, err := a0.OpenStream(1, PayloadTypeWebRTCBinary)
		if err != nil {
			t.Fatal(err)
		}
		// phase 1: clean round trips with a one-way delay; SACK latency and RTO range
		var held []vtPkt
		var hmu sync.Mutex
		hold := func(from int, raw []byte) bool {
			hmu.Lock()
			held = append(held, vtPkt{from: from, raw: raw})
			hmu.Unlock()
			return false
		}
		flush := func() {
			hmu.Lock()
			h := held
			held = nil
			hmu.Unlock()
			for _, p := range h {
				n.inject(1-p.from, p.raw)
			}
			synctest.Wait()
		}
		n.setDeliver(hold)
		for i := 0; i < 3; i++ {
			if _, err = s.Write([]byte{byte(i)}); err != nil {
				t.Fatal(err)
			}
			synctest.Wait()
			time.Sleep(oneWay)
			mk := n.mark()
			tArr := time.Since(n.start)
			flush() // DATA arrives at B
			time.Sleep(201 * time.Millisecond)
			synctest.Wait()
			var lat time.Duration = -1
			for _, p := range n.since(mk) {
				if vtHas(p, 1, ctSack) && lat < 0 {
					lat = p.at - tArr
				}
			}
			m.check("c19-ack-late", lat >= 0 && lat <= 200*time.Millisecond, "DATA delivered at %v: SACK latency %v (limit 200ms)", tArr, lat)
			time.Sleep(oneWay)
			flush() // SACK arrives at A
			// the value handed to rtxTimer.start and the time-out actually armed for the first expiry
			rto := a0.rtoMgr.getRTO()
			t0 := calculateNextTimeout(rto, 0, effMax)
			if effMax >= rtoMin {
				m.check("c19-rto-out-of-range", rto >= rtoMin && rto <= effMax && t0 >= rtoMin && t0 <= effMax,
					"after round trip %d (one-way %v): rto=%v first time-out=%v not in [%v, %v]", i, oneWay, rto, t0, rtoMin, effMax)
			} else {
				m.check("c19-rto-out-of-range", t0 == effMax,
					"after round trip %d (one-way %v): rtoMax=%v below rtoMin: rto=%v first time-out=%v, expected %v", i, oneWay, effMax, rto, t0, effMax)
			}
		}
		// phase 2: black-out: everything from A is lost
		a0.lock.Lock()
		srtt0, rttvar0 := a0.rtoMgr.srtt, a0.rtoMgr.rttvar
		a0.lock.Unlock()
		n.setDeliver(func(from int, raw []byte) bool { return false })
		mk := n.mark()
		if _, err = s.Write([]byte{9, 9, 9}); err != nil {
			t.Fatal(err)
		}
		time.Sleep(blackout)
		synctest.Wait()
		var times []time.Duration
		for _, p := range n.since(mk) {
			if vtHas(p, 0, ctPayloadData) {
				times = append(times, p.at)
			}
		}
		okGaps := len(times) >= 2
		maxGap := time.Duration(0)
		for i := 1; i < len(times); i++ {
			g := times[i] - times[i-1]
			if g > maxGap {
				maxGap = g
			}
			if float64(g)/float64(time.Millisecond) > effMax+1 {
				okGaps = false
			}
		}
		last := time.Duration(0)
		if len(times) > 0 {
			last = time.Since(n.start) - times[len(times)-1]
		}
		m.check("c19-t3-gave-up", okGaps && float64(last)/float64(time.Millisecond) <= effMax+1 && a0.getState() == established,
			"rtoMax=%v black-out %v: %d DATA transmissions, largest gap %v, last one %v ago, state=%d", rtoMax, blackout, len(times), maxGap, last, a0.getState())
		// phase 3: heal; the retransmitted chunk is acknowledged; Karn: no sample from it
		n.setDeliver(nil)
		time.Sleep(time.Duration(effMax)*time.Millisecond + time.Second)
		synctest.Wait()
		a0.lock.Lock()
		srtt1, rttvar1 := a0.rtoMgr.srtt, a0.rtoMgr.rttvar
		inflight := a0.inflightQueue.size()
		a0.lock.Unlock()
		m.check("c19-t3-not-recovered", inflight == 0, "after healing: %d chunks still in flight", inflight)
		m.check("c19-karn-violated", srtt0 == srtt1 && rttvar0 == rttvar1,
			"srtt/rttvar changed from %v/%v to %v/%v although only a retransmitted chunk was acknowledged", srtt0, rttvar0, srtt1, rttvar1)
		_ = a1
	})
}

func TestVerifTimersMonitor(t *testing.T) {
	nVar := int(verifEnvInt("VERIF_N", 20))
	seed := verifEnvInt("VERIF_SEED", 1)
	rng := rand.New(rand.NewSource(seed))
	m := &vtMon{checks: map[string]int{}}
	vtMonDuplicate(t, m, 0) // duplicate of the chunk at the cumulative TSN
	vtMonDuplicate(t, m, 2) // duplicate of a chunk two behind the cumulative TSN
	vtMonHeartbeat(t, m, 10*time.Millisecond)
	vtMonGapAll(t, m, nVar, rng.Perm)
	for _, mx := range []float64{0, 4000, 1000, 500} {
		vtMonT1(t, m, mx)
	}
	maxes := []float64{0, 2000, 5000, 1000, 700}
	for i := 0; i < nVar; i++ {
		mx := maxes[i%len(maxes)]
		eff := mx
		if eff == 0 {
			eff = defaultRTOMax
		}
		blackout := time.Duration(3+rng.Intn(6)) * time.Duration(eff) * time.Millisecond
		oneWay := time.Duration(1+rng.Intn(400)) * time.Millisecond
		vtMonT3(t, m, mx, blackout, oneWay)
	}
	for _, f := range m.fails {
		fmt.Println(f)
	}
	keys := make([]string, 0, len(m.checks))
	for k := range m.checks {
		keys = append(keys, k)
	}
	sort.Strings(keys)
	s := ""
	for _, k := range keys {
		s += fmt.Sprintf(" %s=%d", k, m.checks[k])
	}
	fmt.Printf("TIMERMON failures=%d checks:%s\n", len(m.fails), s)
}
