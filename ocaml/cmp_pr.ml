(* step-commuting check of the partial-reliability model (coq/model/PR.v) against records written by
   go/inpkg/zz_verif_simprobs_test.go.  Each record is replayed independently.
   sender record:   post' = pr_run (abs pre) events ; post' and the emitted FORWARD-TSN chunks must equal the
                    implementation's on the whole projection; an event the model refuses (a code constraint
                    the implementation violated) is a mismatch;
   receiver record: pr_recv_fwd / pr_recv_ifwd (abs pre) chunk = abs post (bitmap and every reassembly queue). *)
module M = Model
open Zio

let rec take n l = if n <= 0 then ([], l) else match l with [] -> failwith "short" | x :: t -> let (a, b) = take (n - 1) t in (x :: a, b)
let b s = (s = "1")

(* ---------------------------------------------------------------- sender state *)
let parse_chunk toks =
  match toks with
  | tsn :: sid :: ssn :: mid :: u :: bg :: en :: msg :: dcep :: ns :: ack :: rtx :: first :: rest ->
      ({ M.pr_tsn = cz tsn; pr_sid = cz sid; pr_ssn = cz ssn; pr_mid = cz mid; pr_unord = b u; pr_beg = b bg; pr_end = b en;
         pr_msg = cz msg; pr_dcep = b dcep; pr_nsent = cz ns; pr_acked = b ack; pr_rtx = b rtx; pr_first = cz first }, rest)
  | _ -> failwith "chunk"

let rec parse_n n f toks = if n = 0 then ([], toks) else let (x, r) = f toks in let (xs, r') = parse_n (n - 1) f r in (x :: xs, r')

let parse_infl toks = match toks with n :: r -> fst (parse_n (int_of_string n) parse_chunk r) | _ -> failwith "infl"
let parse_msgs toks =
  match toks with
  | n :: r -> fst (parse_n (int_of_string n) (fun t -> match t with
      | id :: ab :: al :: dc :: r -> ({ M.pr_m_id = cz id; pr_m_aband = b ab; pr_m_allinfl = b al; pr_m_dcep = b dc }, r)
      | _ -> failwith "msg") r)
  | _ -> failwith "msgs"
let parse_pol toks =
  match toks with
  | n :: r -> fst (parse_n (int_of_string n) (fun t -> match t with
      | sid :: rt :: rv :: r -> ((cz sid, (cz rt, cz rv)), r) | _ -> failwith "pol") r)
  | _ -> failwith "pol"

let chunk_str (c : M.pr_chunk) =
  Printf.sprintf "%s:%s:%s:%s:%s%s%s:m%s:d%s:n%s:a%s:r%s:f%s" (sz c.M.pr_tsn) (sz c.M.pr_sid) (sz c.M.pr_ssn) (sz c.M.pr_mid)
    (sbool c.M.pr_unord) (sbool c.M.pr_beg) (sbool c.M.pr_end) (sz c.M.pr_msg) (sbool c.M.pr_dcep) (sz c.M.pr_nsent)
    (sbool c.M.pr_acked) (sbool c.M.pr_rtx) (sz c.M.pr_first)

let out_str (o : M.pr_out) =
  match o with
  | M.PrOutFwd (c, l) -> Printf.sprintf "fwd %s %d%s" (sz c) (List.length l) (String.concat "" (List.map (fun (a, v) -> " " ^ sz a ^ " " ^ sz v) l))
  | M.PrOutIFwd (c, l) -> Printf.sprintf "ifwd %s %d%s" (sz c) (List.length l)
      (String.concat "" (List.map (fun ((a, u), v) -> " " ^ sz a ^ " " ^ sbool u ^ " " ^ sz v) l))

let kinds = Hashtbl.create 16
let bump k = Hashtbl.replace kinds k (1 + try Hashtbl.find kinds k with Not_found -> 0)
let fpedge = ref 0 and n_snd = ref 0 and n_rcv = ref 0 and n_rcv_skip = ref 0

let rec pairs l = match l with a :: b :: r -> (cz a, cz b) :: pairs r | _ -> []

let timed_of (s : M.pr_state) (c : M.pr_chunk) =
  match M.pr_pol_get c.M.pr_sid s.M.pr_pol with
  | Some (rt, _) -> sz rt = "2" && not c.M.pr_dcep && (s.M.pr_usefwd || s.M.pr_useifwd)
  | None -> false

exception Fpedge

let sender name lines =
  incr n_snd;
  let find k = List.tl (List.find (fun l -> List.hd l = k) lines) in
  let mk flags pol msgs infl =
    match flags with
    | [uf; ui; w; cum; adv; nxt] ->
        { M.pr_infl = infl; pr_msgs = msgs; pr_pol = pol; pr_cum = cz cum; pr_adv = cz adv; pr_next = cz nxt;
          pr_usefwd = b uf; pr_useifwd = b ui; pr_willfwd = b w }
    | _ -> failwith "flags" in
  let pol = parse_pol (find "pre.pol") in
  let pre = mk (find "pre.flags") pol (parse_msgs (find "pre.msgs")) (parse_infl (find "pre.infl")) in
  let post_msgs = parse_msgs (find "post.msgs") in
  let post = mk (find "post.flags") pol post_msgs (parse_infl (find "post.infl")) in
  let evs = List.filter (fun l -> List.hd l = "e") lines in
  let outs_impl = List.map (fun l -> String.concat " " (List.tl l)) (List.filter (fun l -> List.hd l = "o") lines) in
  List.iter (fun (_, (rt, _)) -> bump ("policy-" ^ (match sz rt with "0" -> "reliable" | "1" -> "rexmit" | "2" -> "timed" | x -> x))) pol;
  let st = ref pre and outs = ref [] and refused = ref None in
  (try
    List.iteri (fun i e ->
      if !refused = None then begin
        (* oracle constraint: int64(time.Since(firstSent).Seconds()*1000) equals the model's integer division, or is one
           less when the duration is an exact multiple of 1 ms (float64 rounding of d/1e9*1000); in that case the step is
           replayed with the clock read 1 ns earlier, which gives the model the implementation's value *)
        let eff_now tsn now goel =
          match M.pr_get (!st).M.pr_infl (cz tsn) with
          | Some c when goel <> "-1" ->
              let m = M.pr_elapsed_ms (cz now) c.M.pr_first in
              if sz m = goel then cz now
              else begin
                let d = Z.sub (Z.of_string now) (z_of_cz c.M.pr_first) in
                if Z.equal (Z.rem d (Z.of_int 1000000)) Z.zero && Z.equal (Z.of_string goel) (Z.pred (z_of_cz m)) then begin
                  incr fpedge; if timed_of !st c then bump "float-boundary-on-timed-stream"; cz_of_z (Z.pred (Z.of_string now)) end
                else begin report name i ("elapsed-time oracle: tsn=" ^ tsn ^ " now=" ^ now) (sz m) goel; cz now end
              end
          | _ -> cz now in
        let ev =
          match List.tl e with
          | ["send"; tsn; sid; ssn; mid; u; bg; en; msg; dcep; now; _] ->
              bump "send";
              Some (M.PrSend ({ M.pr_tsn = cz tsn; pr_sid = cz sid; pr_ssn = cz ssn; pr_mid = cz mid; pr_unord = b u; pr_beg = b bg;
                                pr_end = b en; pr_msg = cz msg; pr_dcep = b dcep; pr_nsent = czi 0; pr_acked = false; pr_rtx = false;
                                pr_first = czi 0 }, cz now))
          | ["mark"; tsn] -> bump "mark"; Some (M.PrMark (cz tsn))
          | ["t3"] -> bump "t3"; Some M.PrT3
          | ["rtx"; tsn; now; goel] -> bump "rtx"; Some (M.PrRtx (cz tsn, eff_now tsn now goel))
          | ["frtx"; tsn; now; goel] -> bump "fast-rtx"; Some (M.PrFrtx (cz tsn, eff_now tsn now goel))
          | "sack" :: cum :: ng :: gl -> bump "sack"; Some (M.PrSack (cz cum, pairs (fst (take (2 * int_of_string ng) gl))))
          | ["gather"] -> Some M.PrGather
          | _ -> None in
        match ev with
        | None -> refused := Some (i, "unparsed event " ^ String.concat " " e)
        | Some ev ->
            (match M.pr_step !st ev with
             | None -> refused := Some (i, "the model refuses the step (the implementation did what the code constraints forbid): " ^ String.concat " " (List.tl e))
             | Some (s', o) -> st := s'; outs := !outs @ o)
      end) evs;
    (* fix 3b069d1: a gather clears the retransmit mark of a marked chunk whose message was abandoned in the meantime (no
       log line).  Which of these chunks the loop visited before it stopped on the window is read from the state after
       the event; the model step PrUnmark refuses anything but a marked chunk of an abandoned message. *)
    if !refused = None then begin
      let post_rtx = Hashtbl.create 16 in
      List.iter (fun (c : M.pr_chunk) -> Hashtbl.replace post_rtx (sz c.M.pr_tsn) c.M.pr_rtx) post.M.pr_infl;
      List.iter (fun (c : M.pr_chunk) ->
        if !refused = None && c.M.pr_rtx && (try not (Hashtbl.find post_rtx (sz c.M.pr_tsn)) with Not_found -> false) then
          match M.pr_step !st (M.PrUnmark c.M.pr_tsn) with
          | Some (s', _) -> bump "mark-of-abandoned-chunk-cleared"; st := s'
          | None -> refused := Some (0, "retransmit mark of tsn " ^ sz c.M.pr_tsn ^ " disappeared although the chunk was neither retransmitted, acknowledged nor abandoned"))
        (!st).M.pr_infl
    end;
    (match !refused with
     | Some (i, what) -> report name i what "" ""
     | None ->
         let m = !st in
         let flags (s : M.pr_state) = Printf.sprintf "will=%s cum=%s adv=%s next=%s" (sbool s.M.pr_willfwd) (sz s.M.pr_cum) (sz s.M.pr_adv) (sz s.M.pr_next) in
         let evtxt = String.concat " ; " (List.map (fun e -> String.concat " " (List.tl e)) evs) in
         if flags m <> flags post then report name 0 ("points/flags after [" ^ evtxt ^ "]") (flags m) (flags post)
         else begin
           let mi = String.concat " " (List.map chunk_str m.M.pr_infl) and ii = String.concat " " (List.map chunk_str post.M.pr_infl) in
           if mi <> ii then report name 0 ("in-flight table after [" ^ evtxt ^ "]") mi ii
           else begin
             let bad = List.filter (fun (x : M.pr_minfo) ->
               match M.pr_minfo_get x.M.pr_m_id m.M.pr_msgs with
               | Some y -> y.M.pr_m_aband <> x.M.pr_m_aband || y.M.pr_m_allinfl <> x.M.pr_m_allinfl || y.M.pr_m_dcep <> x.M.pr_m_dcep
               | None -> true) post_msgs in
             (match bad with
              | x :: _ ->
                  let show (y : M.pr_minfo) = Printf.sprintf "msg %s aband=%s allinfl=%s dcep=%s" (sz y.M.pr_m_id) (sbool y.M.pr_m_aband) (sbool y.M.pr_m_allinfl) (sbool y.M.pr_m_dcep) in
                  report name 0 ("message flags after [" ^ evtxt ^ "]")
                    (match M.pr_minfo_get x.M.pr_m_id m.M.pr_msgs with Some y -> show y | None -> "absent") (show x)
              | [] ->
                  let mo = String.concat " | " (List.map out_str !outs) and io = String.concat " | " outs_impl in
                  if mo <> io then report name 0 ("FORWARD-TSN chunks emitted during [" ^ evtxt ^ "]") mo io
                  else begin
                    if !outs <> [] then bump "with-forward-tsn";
                    if List.exists (fun (c : M.pr_chunk) -> M.pr_abandoned m c) m.M.pr_infl then bump "post-has-abandoned"
                  end)
           end
         end)
  with Fpedge -> ())

(* ---------------------------------------------------------------- receiver state *)
let parse_rqchunk toks =
  match toks with
  | tsn :: si :: ssn :: mid :: fsn :: ppi :: u :: bg :: en :: i :: len :: rest ->
      let (d, rest') = take (int_of_string len) rest in
      ({ M.rqc_tsn = cz tsn; rqc_si = cz si; rqc_ssn = cz ssn; rqc_mid = cz mid; rqc_fsn = cz fsn; rqc_ppi = cz ppi;
         rqc_unord = b u; rqc_beg = b bg; rqc_end = b en; rqc_idata = b i; rqc_data = List.map cz d }, rest')
  | _ -> failwith "rqchunk"
let parse_set toks =
  match toks with
  | key :: ppi :: n :: rest ->
      let (cs, r) = parse_n (int_of_string n) parse_rqchunk rest in
      ({ M.rqs_key = cz key; rqs_ppi = cz ppi; rqs_chunks = cs }, r)
  | _ -> failwith "set"
let expect tag toks = match toks with t :: n :: r when t = tag -> (int_of_string n, r) | _ -> failwith ("expected " ^ tag)

let parse_rq si mx toks : M.rq =
  match toks with
  | "dump" :: nssn :: nmid :: inter :: nbytes :: r ->
      let (n, r) = expect "O" r in let (o, r) = parse_n n parse_set r in
      let (n, r) = expect "U" r in let (u, r) = parse_n n parse_set r in
      let (n, r) = expect "C" r in let (c, r) = parse_n n parse_rqchunk r in
      let (n, r) = expect "OM" r in let (om, r) = parse_n n parse_set r in
      let (n, r) = expect "UM" r in let (um, r) = parse_n n parse_set r in
      let (n, r) = expect "MAP" r in let (mp, _) = parse_n n (fun t -> parse_set (List.tl t)) r in
      { M.rq_si = cz si; rq_nextSSN = cz nssn; rq_nextMID = cz nmid; rq_ordered = o; rq_unordered = u; rq_uchunks = c;
        rq_orderedMID = om; rq_unorderedMID = um; rq_umidmap = mp; rq_inter = b inter; rq_nbytes = cz nbytes; rq_max = cz mx }
  | _ -> failwith "rq dump"

let rqchunk_str (c : M.rqchunk) =
  Printf.sprintf "%s,%s,%s,%s,%s,%s,%s%s%s%s,%d" (sz c.M.rqc_tsn) (sz c.M.rqc_si) (sz c.M.rqc_ssn) (sz c.M.rqc_mid) (sz c.M.rqc_fsn)
    (sz c.M.rqc_ppi) (sbool c.M.rqc_unord) (sbool c.M.rqc_beg) (sbool c.M.rqc_end) (sbool c.M.rqc_idata) (List.length c.M.rqc_data)
let set_str (s : M.rqset) = Printf.sprintf "{%s/%s:%s}" (sz s.M.rqs_key) (sz s.M.rqs_ppi) (String.concat ";" (List.map rqchunk_str s.M.rqs_chunks))
let by_key (l : M.rqset list) = List.stable_sort (fun a b -> Z.compare (z_of_cz a.M.rqs_key) (z_of_cz b.M.rqs_key)) l
let rq_str (q : M.rq) =
  let sets l = String.concat "" (List.map set_str l) in
  Printf.sprintf "si=%s nextSSN=%s nextMID=%s inter=%s nbytes=%s O[%s] U[%s] C[%s] OM[%s] UM[%s] MAP[%s]" (sz q.M.rq_si) (sz q.M.rq_nextSSN)
    (sz q.M.rq_nextMID) (sbool q.M.rq_inter) (sz q.M.rq_nbytes) (sets q.M.rq_ordered) (sets q.M.rq_unordered)
    (String.concat ";" (List.map rqchunk_str q.M.rq_uchunks)) (sets q.M.rq_orderedMID) (sets q.M.rq_unorderedMID) (sets (by_key q.M.rq_umidmap))

(* "pq dump cum tail size maxoff nwords nidx {i v}* ndups {d}*" *)
let parse_pq toks : M.rpq =
  match toks with
  | "dump" :: cum :: tail :: size :: maxoff :: nwords :: nidx :: r ->
      let (ws, r) = take (2 * int_of_string nidx) r in
      let rec words l = match l with i :: v :: t -> (int_of_string i, Z.of_string v) :: words t | _ -> [] in
      let bits = List.concat (List.map (fun (i, v) ->
        List.filter_map (fun k -> if Z.testbit v k then Some (czi (i * 64 + k)) else None) (List.init 64 (fun k -> k))) (words ws)) in
      let dups = match r with n :: d -> List.map cz (fst (take (int_of_string n) d)) | [] -> [] in
      { M.cum = cz cum; tail = cz tail; size = cz size; bits = bits; dups = dups; max_off = cz maxoff; nwords = cz nwords }
  | _ -> failwith "pq dump"
let pq_str (q : M.rpq) =
  Printf.sprintf "cum=%s tail=%s size=%s bits=[%s] dups=[%s]" (sz q.M.cum) (sz q.M.tail) (sz q.M.size)
    (String.concat "," (List.map string_of_int (List.sort compare (List.map iz q.M.bits)))) (slist sz q.M.dups)

let parse_side (lines : string list list) : M.pr_rcv * int =
  let find k = List.tl (List.find (fun l -> List.hd l = k) lines) in
  let (inter, uf, ui, nreconf, maxent, accq) =
    match find "rflags" with [a; c; d; e; f; g] -> (b a, b c, b d, int_of_string e, cz f, cz g) | _ -> failwith "rflags" in
  let pq = parse_pq (find "pq") in
  let streams = List.filter_map (fun l -> match l with
    | "st" :: sid :: mx :: dump -> Some (cz sid, parse_rq sid mx dump)
    | _ -> None) lines in
  ({ M.pr_r_pq = pq; pr_r_streams = streams; pr_r_inter = inter; pr_r_usefwd = uf; pr_r_useifwd = ui;
     pr_r_maxent = maxent; pr_r_accq = accq }, nreconf)

let rec split_at tag l acc = match l with [] -> failwith ("no " ^ tag) | x :: t -> if x = [tag] then (List.rev acc, t) else split_at tag t (x :: acc)

let receiver name lines =
  let (_, l1) = split_at "BEGINPRE" lines [] in
  let (pre_l, l2) = split_at "ENDPRE" l1 [] in
  let (mid_l, l3) = split_at "BEGINPOST" l2 [] in
  let (post_l, _) = split_at "ENDPOST" l3 [] in
  let (pre, nreconf) = parse_side pre_l in
  let (post, _) = parse_side post_l in
  if nreconf > 0 then incr n_rcv_skip else begin
    incr n_rcv;
    let ev = List.tl (List.find (fun l -> List.hd l = "ev") mid_l) in
    let sacked = (List.tl (List.find (fun l -> List.hd l = "sacked") mid_l)) = ["1"] in
    let (r, res, what) =
      match ev with
      | "fwd" :: nc :: n :: rest ->
          bump "recv-fwd";
          let entries = pairs (fst (take (2 * int_of_string n) rest)) in
          let known = List.for_all (fun (sid, _) -> List.exists (fun (k, _) -> sz k = sz sid) pre.M.pr_r_streams) entries in
          let (r, res) = M.pr_recv_fwd pre (cz nc) entries in
          if not known && res = M.PrrApplied then bump "recv-entry-creates-stream";
          (r, res, String.concat " " ev)
      | "ifwd" :: nc :: n :: rest ->
          bump "recv-ifwd";
          let rec triples l = match l with a :: u :: m :: t -> ((cz a, b u), cz m) :: triples t | _ -> [] in
          let entries = triples (fst (take (3 * int_of_string n) rest)) in
          let known = List.for_all (fun ((sid, _), _) -> List.exists (fun (k, _) -> sz k = sz sid) pre.M.pr_r_streams) entries in
          let (r, res) = M.pr_recv_ifwd pre (cz nc) entries in
          if not known && res = M.PrrApplied then bump "recv-entry-creates-stream";
          (r, res, String.concat " " ev)
      | _ -> failwith "ev" in
    (match res with M.PrrApplied -> bump "recv-applied" | M.PrrStale -> bump "recv-stale" | M.PrrAbort -> bump "recv-abort" | M.PrrErrorChunk -> bump "recv-error");
    let pq = if sacked then fst (M.pop_duplicates r.M.pr_r_pq) else r.M.pr_r_pq in
    let side_str (x : M.pr_rcv) pq = pq_str pq ^ " || acceptq=" ^ sz x.M.pr_r_accq ^ " || " ^ String.concat " || " (List.map (fun (_, q) -> rq_str q) x.M.pr_r_streams) in
    let m = side_str r pq and im = side_str post post.M.pr_r_pq in
    if m <> im then report name 0 ("receiver state after " ^ what) m im
  end

let run path =
  let cases = read_cases path in
  List.iter (fun (name, lines) ->
    incr records;
    try
      match List.find (fun l -> List.hd l = "kind") lines with
      | "kind" :: "snd" :: _ -> sender name lines
      | "kind" :: "rcv" :: _ -> receiver name lines
      | _ -> report name 0 "unknown record kind" "" ""
    with Failure e | Invalid_argument e -> report name 0 ("malformed record: " ^ e) "" ""
       | Not_found -> report name 0 "malformed record (missing line)" "" "") cases;
  let ks = String.concat "," (List.sort compare (Hashtbl.fold (fun k v acc -> (k ^ ":" ^ string_of_int v) :: acc) kinds [])) in
  Printf.printf "SUMMARY component=pr cases=%d records=%d mismatches=%d sender_records=%d receiver_records=%d receiver_skipped_reconfig=%d float_boundary_steps=%d kinds=%s\n"
    (List.length cases) !records !mismatches !n_snd !n_rcv !n_rcv_skip !fpedge ks
