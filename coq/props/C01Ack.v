(* C01, the clause "acknowledged only if delivered to the receiver": in every reachable state of the
   two-endpoint system (proofs/LiveReach.v: any schedule of sends, T3 expiries, and arrivals of any copy of any
   DATA chunk or SACK ever sent; loss = never arriving), the sender's cumulative ack point never runs ahead of the
   receiver's cumulative point, every chunk the sender has marked acknowledged was accepted by the receiver, and
   every TSN the receiver's cumulative point covers was accepted (no FORWARD-TSN in this system: reliable streams).
   So a message is released from the sender's buffers only after every one of its chunks reached the receiver's
   queues -- from which props/C01.v shows it is handed to the application intact and in order.
   Only statements closed by [exact] + Print Assumptions. *)
From Coq Require Import ZArith Bool List.
From Sctp Require Import Gen SnaProofs Sender SenderProofs RPQ RPQProofs Live LiveSender LiveProofs LiveReach.
Import ListNotations.
Open Scope Z_scope.

Theorem c01_acknowledged_only_if_received : forall s K m evs,
  Sl s K -> st_infl s = [] -> 1 <= m < 2147483584 -> 0 < st_mtu s -> BI s [] ->
  let y0 := mkLs (mkLv s (rpq_init (rpq_new m) (wrap32 K))) K (mkGhost K [] []) [] [] in
  lrun_ok y0 evs ->
  let y := lrun y0 evs in
  st_cum (lv_s (ls_st y)) = wrap32 (ls_K y) /\ ls_K y <= gK (ls_g y) /\ cum (lv_q (ls_st y)) = wrap32 (gK (ls_g y)) /\
  (forall i c, nth_error (st_infl (lv_s (ls_st y))) i = Some c -> sc_acked c = true -> In (ls_K y + 1 + Z.of_nat i) (gacc (ls_g y))) /\
  (forall k, K < k <= gK (ls_g y) -> In k (gacc (ls_g y)) \/ skipped (ls_g y) k).
Proof. exact reachable_ack_is_honest. Qed.
Print Assumptions c01_acknowledged_only_if_received.
