// Verification harness (overlay; not part of pion/sctp): graceful shutdown (property C08).
//
//  1. sdRecorder: a simObserver writing one step-commuting record of the shutdown control abstraction
//     (coq/model/Shutdown.v) per harness event: abstract endpoint before / event with oracles / packet
//     kinds emitted / abstract endpoint after.  /verif/ocaml/cmp_sd.ml replays each record on the
//     extracted step functions.
//  2. Exhaustive fault schedules (drop / duplicate / swap, up to k faults) over one-sided and crossed
//     shutdowns with 0 / 1 / several fragmented messages queued at the time of the call, on two real
//     associations; monitor P_C08.
//  3. State x chunk matrix: every shutdown-sequence chunk (and DATA, SACK, INIT) injected into an
//     association driven into each state.
//  4. Transport loss racing the drain (candidate D18).
package sctp

import (
	"bufio"
	"context"
	"errors"
	"fmt"
	"os"
	"sort"
	"strings"
	"sync"
	"testing"
	"testing/synctest"
	"time"
)

// ---------------------------------------------------------------- abstraction function

const (
	sdRetNotCalled  = 0
	sdRetWaiting    = 1
	sdRetNil        = 2
	sdRetErr        = 3 // refused at once (ErrShutdownNonEstablished) or any other error
	sdRetIncomplete = 4 // ErrShutdownIncomplete: the association closed before the sequence completed
)

type sdCall struct {
	mu     sync.Mutex
	called bool
	done   bool
	err    error
}

func (c *sdCall) status() int {
	c.mu.Lock()
	defer c.mu.Unlock()
	switch {
	case !c.called:
		return sdRetNotCalled
	case !c.done:
		return sdRetWaiting
	case c.err == nil:
		return sdRetNil
	case errors.Is(c.err, ErrShutdownIncomplete):
		return sdRetIncomplete
	default:
		return sdRetErr
	}
}

// sdExt is the per-simulation state of this file (kept outside the shared sim struct).
type sdExt struct {
	call     [2]*sdCall
	order    map[*simPkt]int // delivery order key (duplicates get a later key)
	dupSeq   int
	wireMark int
}

var (
	sdExtMu sync.Mutex
	sdExts  = map[*sim]*sdExt{}
)

func sdExtOf(s *sim) *sdExt {
	sdExtMu.Lock()
	defer sdExtMu.Unlock()
	x := sdExts[s]
	if x == nil {
		x = &sdExt{call: [2]*sdCall{{}, {}}, order: map[*simPkt]int{}, dupSeq: 1 << 24}
		sdExts[s] = x
	}
	return x
}

func sdExtDrop(s *sim) {
	sdExtMu.Lock()
	delete(sdExts, s)
	sdExtMu.Unlock()
}

type sdSnap struct {
	state                        uint32
	wsd, wsa, wsc, scp, done, t2 bool
	pend, infl, ack, ret         int
	down                         bool
	cumAck, nextTSN              uint32
	t2n                          uint
	ackTO, t3TO                  uint64
	inflTSNs                     map[uint32]bool
	peerLast                     uint32
	maxPayload                   uint32
}

func sdSnapshot(s *sim, side int) sdSnap {
	a := s.assoc[side]
	a.lock.RLock()
	sn := sdSnap{
		state: a.getState(), wsd: a.willSendShutdown, wsa: a.willSendShutdownAck, wsc: a.willSendShutdownComplete,
		scp: a.shutdownCompletePending, done: a.shutdownCompleted, pend: a.pendingQueue.size(), infl: a.inflightQueue.size(), ack: a.ackState,
		cumAck: a.cumulativeTSNAckPoint, nextTSN: a.myNextTSN, peerLast: a.peerLastTSN(), maxPayload: a.maxPayloadSize,
		inflTSNs: map[uint32]bool{},
	}
	for i := 0; i < a.inflightQueue.chunks.Len(); i++ {
		sn.inflTSNs[a.inflightQueue.chunks.At(i).tsn] = true
	}
	a.lock.RUnlock()
	sn.t2 = a.t2Shutdown.isRunning()
	a.t2Shutdown.mutex.Lock()
	sn.t2n = a.t2Shutdown.nRtos
	a.t2Shutdown.mutex.Unlock()
	sn.ackTO = a.stats.getNumAckTimeouts()
	sn.t3TO = a.stats.getNumT3Timeouts()
	select {
	case <-a.closeWriteLoopCh:
		sn.down = true
	default:
	}
	sn.ret = sdExtOf(s).call[side].status()
	return sn
}

func (n sdSnap) line() string {
	return fmt.Sprintf("%d %d %d %d %d %d %d %d %d %d %d %d", n.state, b2i(n.wsd), b2i(n.wsa), b2i(n.wsc), b2i(n.scp), b2i(n.done), b2i(n.t2),
		n.pend, n.infl, n.ack, n.ret, b2i(n.down))
}

// ---------------------------------------------------------------- recorder

type sdRecStore struct {
	mu       sync.Mutex
	uniq     map[string]int
	order    []string
	observed int
	kinds    map[string]int
	skipped  int
}

func newSdRecStore() *sdRecStore { return &sdRecStore{uniq: map[string]int{}, kinds: map[string]int{}} }

func (st *sdRecStore) add(kind, rec string) {
	st.mu.Lock()
	defer st.mu.Unlock()
	st.observed++
	st.kinds[kind]++
	if _, ok := st.uniq[rec]; !ok {
		st.order = append(st.order, rec)
	}
	st.uniq[rec]++
}

func (st *sdRecStore) write(w *bufio.Writer) {
	st.mu.Lock()
	defer st.mu.Unlock()
	for i, r := range st.order {
		fmt.Fprintf(w, "case d%d\nn %d\n%s", i+1, st.uniq[r], r)
	}
}

type sdRecorder struct {
	st       *sdRecStore
	pre      [2]sdSnap
	wireMark int
}

func (r *sdRecorder) before(s *sim, ev *simEvent) {
	for side := 0; side < 2; side++ {
		if s.assoc[side] != nil {
			r.pre[side] = sdSnapshot(s, side)
		}
	}
	r.wireMark = len(s.wire)
}

func sdPktKind(p *simPkt) string {
	if p.pkt == nil || len(p.pkt.chunks) == 0 {
		return "OTHER"
	}
	switch p.pkt.chunks[0].(type) {
	case *chunkPayloadData:
		return "DATA"
	case *chunkSelectiveAck:
		return "SACK"
	case *chunkShutdown:
		return "SHUTDOWN"
	case *chunkShutdownAck:
		return "SHUTDOWNACK"
	case *chunkShutdownComplete:
		return "SHUTDOWNCOMPLETE"
	case *chunkInit:
		return "INIT"
	case *chunkAbort:
		return "ABORT"
	default:
		return "OTHER"
	}
}

// emitted returns the kinds of the packets `side` wrote during the event (consecutive DATA packets collapsed),
// whether a DATA chunk was a retransmission, and whether anything outside the abstraction was written.
func (r *sdRecorder) emitted(s *sim, side int) (kinds []string, rtx bool, other bool) {
	for _, p := range s.wire[r.wireMark:] {
		if p.from != side {
			continue
		}
		k := sdPktKind(p)
		if k == "OTHER" || k == "ABORT" {
			other = true
			if os.Getenv("VERIF_SD_DEBUG") != "" {
				fmt.Printf("SDDEBUG other packet: %s\n", pktSummary(p))
			}
			continue
		}
		if k == "DATA" {
			for _, c := range p.pkt.chunks {
				if d, ok := c.(*chunkPayloadData); ok && sna32LT(d.tsn, r.pre[side].nextTSN) {
					rtx = true
				}
			}
			if len(kinds) > 0 && kinds[len(kinds)-1] == "DATA" {
				continue
			}
		}
		kinds = append(kinds, k)
	}
	return
}

// ackRes classifies what processAcknowledgement does with a cumulative TSN ack, from the state before.
func sdAckRes(pre sdSnap, cum uint32, acked int) string {
	if sna32GT(pre.cumAck, cum) {
		return "stale"
	}
	if sna32LT(pre.cumAck, cum) && (!pre.inflTSNs[pre.cumAck+1] || !pre.inflTSNs[cum]) {
		return "err"
	}
	return fmt.Sprintf("ok %d", acked)
}

func (r *sdRecorder) emit(s *sim, side int, kind string, evTokens func(pre, post sdSnap, moved, acked int) (string, bool), added int, acc bool, seq bool) {
	if s.assoc[side] == nil {
		return
	}
	pre := r.pre[side]
	post := sdSnapshot(s, side)
	kinds, rtx, other := r.emitted(s, side)
	if other {
		r.st.mu.Lock()
		r.st.skipped++
		r.st.mu.Unlock()
		return
	}
	moved := pre.pend + added - post.pend
	acked := pre.infl + moved - post.infl
	ev, ok := evTokens(pre, post, moved, acked)
	if !ok {
		return
	}
	out := "-"
	if len(kinds) > 0 {
		if seq {
			sort.Strings(kinds)
		}
		out = strings.Join(kinds, " ")
	}
	rec := fmt.Sprintf("pre %s\nev %s\nor %d %d\nout %s\nacc %d\npost %s\n", pre.line(), ev, moved, b2i(rtx), out, b2i(acc), post.line())
	r.st.add(kind, rec)
}

func (r *sdRecorder) after(s *sim, ev *simEvent) {
	switch ev.kind {
	case "deliver":
		p := ev.pkt
		if p == nil || p.pkt == nil || len(p.pkt.chunks) == 0 {
			return
		}
		side := ev.side
		if r.pre[side].down {
			return
		}
		k := sdPktKind(p)
		switch k {
		case "DATA":
			for _, c := range p.pkt.chunks {
				if _, ok := c.(*chunkPayloadData); !ok {
					return
				}
			}
			r.emit(s, side, "data", func(pre, post sdSnap, moved, acked int) (string, bool) {
				imm := pre.ack == ackStateIdle && post.ack != ackStateDelay
				return fmt.Sprintf("data %d", b2i(imm)), true
			}, 0, true, false)
		case "SACK":
			if len(p.pkt.chunks) != 1 {
				return
			}
			v := p.pkt.chunks[0].(*chunkSelectiveAck)
			r.emit(s, side, "sack", func(pre, post sdSnap, moved, acked int) (string, bool) {
				return "sack " + sdAckRes(pre, v.cumulativeTSNAck, acked), true
			}, 0, true, false)
		case "SHUTDOWN":
			if len(p.pkt.chunks) != 1 {
				return
			}
			v := p.pkt.chunks[0].(*chunkShutdown)
			r.emit(s, side, "shutdown", func(pre, post sdSnap, moved, acked int) (string, bool) {
				return "sdn " + sdAckRes(pre, v.cumulativeTSNAck, acked), true
			}, 0, true, false)
		case "SHUTDOWNACK":
			r.emit(s, side, "shutdown-ack", func(pre, post sdSnap, moved, acked int) (string, bool) { return "sdack", true }, 0, true, false)
		case "SHUTDOWNCOMPLETE":
			r.emit(s, side, "shutdown-complete", func(pre, post sdSnap, moved, acked int) (string, bool) { return "sdcomp", true }, 0, true, false)
		case "ABORT":
			r.emit(s, side, "abort", func(pre, post sdSnap, moved, acked int) (string, bool) { return "abort", true }, 0, true, false)
		case "INIT":
			r.emit(s, side, "init", func(pre, post sdSnap, moved, acked int) (string, bool) { return "init", true }, 0, true, false)
		}
	case "write":
		side := ev.side
		a := s.assoc[side]
		mp := int(a.maxPayloadSize)
		n := (ev.n + mp - 1) / mp
		added := 0
		if ev.err == nil {
			added = n
		}
		r.emit(s, side, "write", func(pre, post sdSnap, moved, acked int) (string, bool) {
			return fmt.Sprintf("write %d", n), true
		}, added, ev.err == nil, false)
	case "sd-shutdown":
		side := ev.side
		r.emit(s, side, "shutdown-call", func(pre, post sdSnap, moved, acked int) (string, bool) { return "shutdown", true }, 0, ev.err == nil, false)
	case "sd-close":
		side := ev.side
		r.emit(s, side, "close-call", func(pre, post sdSnap, moved, acked int) (string, bool) { return "close", true }, 0, true, false)
	case "sd-transport-down":
		side := ev.side
		r.emit(s, side, "transport-down", func(pre, post sdSnap, moved, acked int) (string, bool) { return "down", true }, 0, true, false)
	case "advance":
		for side := 0; side < 2; side++ {
			if s.assoc[side] == nil || r.pre[side].down {
				continue
			}
			r.emit(s, side, "timers", func(pre, post sdSnap, moved, acked int) (string, bool) {
				var evs []string
				for i := uint64(0); i < post.ackTO-pre.ackTO; i++ {
					evs = append(evs, "acktimer")
				}
				nT2 := 0
				if post.t2n > pre.t2n {
					nT2 = int(post.t2n - pre.t2n)
				}
				for i := 0; i < nT2; i++ {
					evs = append(evs, "t2")
				}
				kinds, rtx, _ := r.emitted(s, side)
				if post.t3TO > pre.t3TO || rtx || (len(evs) == 0 && len(kinds) > 0) {
					evs = append(evs, "rtx")
				}
				if len(evs) == 0 {
					if pre.line() == post.line() {
						return "", false // nothing happened on this side
					}
					evs = append(evs, "rtx")
				}
				return fmt.Sprintf("seq %d %s", len(evs), strings.Join(evs, " ")), true
			}, 0, true, true)
		}
	}
}

// ---------------------------------------------------------------- simulator primitives of this file

// sdCallShutdown starts Association.Shutdown in its own goroutine inside the bubble.
func sdCallShutdown(s *sim, side int) {
	x := sdExtOf(s)
	c := x.call[side]
	ev := &simEvent{kind: "sd-shutdown", side: side}
	for _, o := range s.obs {
		o.before(s, ev)
	}
	s.logEvent("shutdown side=%d", side)
	first := false
	c.mu.Lock()
	if !c.called {
		c.called = true
		first = true
	}
	c.mu.Unlock()
	a := s.assoc[side]
	res := make(chan error, 1)
	go func() {
		err := a.Shutdown(context.Background())
		if first {
			c.mu.Lock()
			c.done = true
			c.err = err
			c.mu.Unlock()
		}
		res <- err
	}()
	s.settle()
	select {
	case err := <-res:
		ev.err = err
	default:
	}
	for _, o := range s.obs {
		o.after(s, ev)
	}
}

// sdTransportDown closes the transport of one side under it (the net.Conn starts failing).
func sdTransportDown(s *sim, side int) {
	ev := &simEvent{kind: "sd-transport-down", side: side}
	for _, o := range s.obs {
		o.before(s, ev)
	}
	s.logEvent("transport-down side=%d", side)
	_ = s.conn[side].Close()
	s.settle()
	for _, o := range s.obs {
		o.after(s, ev)
	}
}

// sdCallClose: the user calls Close while Shutdown may be blocked.
func sdCallClose(s *sim, side int) {
	ev := &simEvent{kind: "sd-close", side: side}
	for _, o := range s.obs {
		o.before(s, ev)
	}
	s.logEvent("close side=%d", side)
	_ = s.assoc[side].Close()
	s.settle()
	for _, o := range s.obs {
		o.after(s, ev)
	}
}

// sdInject delivers a crafted packet (built with the package's own marshal) to `to`, as a delivery event.
func sdInject(s *sim, to int, raw []byte, what string) {
	p := &simPkt{id: -1, from: 1 - to, raw: raw, at: s.now()}
	pk := &packet{}
	if err := pk.unmarshal(false, raw); err == nil {
		p.pkt = pk
	}
	s.logEvent("inject to=%d %s", to, what)
	ev := &simEvent{kind: "deliver", side: to, pkt: p}
	for _, o := range s.obs {
		o.before(s, ev)
	}
	select {
	case <-s.conn[to].closed:
	default:
		select {
		case s.conn[to].in <- raw:
		default:
		}
	}
	s.settle()
	for _, o := range s.obs {
		o.after(s, ev)
	}
}

// sdCraft marshals chunks into a packet as the peer of `to` would send it.
func sdCraft(s *sim, to int, cs ...chunk) []byte {
	peer := s.assoc[1-to]
	p := peer.createPacket(cs)
	if _, ok := cs[0].(*chunkInit); ok {
		p.verificationTag = 0
	}
	raw, err := p.marshal(true)
	if err != nil {
		s.t.Fatalf("craft: %v", err)
	}
	return raw
}

func sdClosed(a *Association) bool { return a.getState() == closed }

func sdLoopsExited(a *Association) bool {
	select {
	case <-a.readLoopCloseCh:
	default:
		return false
	}
	select {
	case <-a.closeWriteLoopCh:
		return true
	default:
		return false
	}
}

// ---------------------------------------------------------------- fault schedules

type sdFault struct {
	pos  int
	kind int // 0 drop, 1 duplicate (second copy arrives later), 2 swap with the next packet of the direction
}

var sdFaultNames = []string{"drop", "dup", "swap"}

type sdScenario struct {
	crossed      bool
	dataA, dataB int // 0 none, 1 one small message, 2 several fragmented messages exceeding cwnd
	plan         []sdFault
}

func (sc sdScenario) label() string {
	var sb strings.Builder
	fmt.Fprintf(&sb, "shutdown/crossed=%v/dataA=%d/dataB=%d/faults=", sc.crossed, sc.dataA, sc.dataB)
	for i, f := range sc.plan {
		if i > 0 {
			sb.WriteString(",")
		}
		fmt.Fprintf(&sb, "%s@%d", sdFaultNames[f.kind], f.pos)
	}
	return sb.String()
}

type sdStats struct {
	mu                                        sync.Mutex
	runs, decisions, fails, inapplicable      int
	faults                                    [3]int
	capped                                    int
	printed                                   map[string]int
	maxDecisions                              int
	bothClosedByProtocol, peerNeededTransport int
	rejectedWrites                            int
	foreign                                   int
}

func sdFailKey(line string) string {
	i := strings.Index(line, "(")
	j := strings.Index(line, ")")
	if i >= 0 && j > i {
		return line[i : j+1]
	}
	return line
}

// sdReport prints at most three lines per failure key (thousands of schedules can hit the same one).
func (st *sdStats) report(s *sim) {
	st.mu.Lock()
	defer st.mu.Unlock()
	if sdReplayVerbose {
		for _, e := range s.events {
			fmt.Println("  EVENT " + e)
		}
		for _, f := range s.fails {
			fmt.Println("  MONITOR " + f)
		}
	}
	for _, f := range s.fails {
		if !strings.HasPrefix(f, "SIMFAIL prop=C08 ") {
			// monitors of other properties share the simulator; their wire view does not know that a SHUTDOWN
			// chunk acknowledges data cumulatively, so their lines are counted here, not reported
			st.foreign++
			continue
		}
		st.fails++
		k := sdFailKey(f)
		if st.printed[k] < 3 {
			st.printed[k]++
			fmt.Println(f)
			if os.Getenv("VERIF_SIMEVENTS") != "" {
				for _, e := range s.events {
					fmt.Println("  EVENT " + e)
				}
			}
		}
	}
}

func sdWriteData(s *sim, side, amount int) {
	switch amount {
	case 1:
		_ = s.write(side, 1, 100, PayloadTypeWebRTCBinary)
	case 2:
		for i := 0; i < 3; i++ {
			_ = s.write(side, 1, 2500, PayloadTypeWebRTCBinary)
		}
	}
}

// sdProbeWrites: a write on a side whose shutdown has begun must fail and put nothing on the wire.
func sdProbeWrites(s *sim, st *sdStats, probed *[2]uint32) {
	for side := 0; side < 2; side++ {
		a := s.assoc[side]
		state := a.getState()
		if state == established || state == probed[side] {
			continue
		}
		probed[side] = state
		mark := len(s.wire)
		pendBefore := a.pendingQueue.size()
		nSent := len(s.sent[side][1])
		err := s.write(side, 1, 10, PayloadTypeWebRTCBinary)
		if err == nil || len(s.sent[side][1]) != nSent || a.pendingQueue.size() != pendBefore {
			s.fail("C08", fmt.Sprintf("(write-accepted-after-shutdown) write in state %s returned %v, pending %d -> %d: side=%d",
				getAssociationStateString(state), err, pendBefore, a.pendingQueue.size(), side))
		}
		for _, p := range s.wire[mark:] {
			if p.from == side && sdPktKind(p) == "DATA" {
				for _, c := range p.pkt.chunks {
					if d, ok := c.(*chunkPayloadData); ok && s.txCount[side][d.tsn] == 1 {
						s.fail("C08", fmt.Sprintf("(data-sent-after-shutdown) rejected write put new DATA tsn=%d on the wire: side=%d", d.tsn, side))
					}
				}
			}
		}
		st.mu.Lock()
		st.rejectedWrites++
		st.mu.Unlock()
	}
}

// sdOldest picks the parked packet that was sent first.  Packets written at the same virtual instant by the two sides
// (timers firing together) are ordered by direction, not by the order in which the goroutines reached the
// transport, so that a schedule is a deterministic function of its fault plan.  Duplicates carry a later key.
func sdOldest(s *sim, x *sdExt) (from int, ok bool) {
	var best *simPkt
	for d := 0; d < 2; d++ {
		if len(s.flight[d]) == 0 {
			continue
		}
		p := s.flight[d][0]
		if best == nil || sdBefore(x, p, best) {
			best, from = p, d
		}
	}
	return from, best != nil
}

func sdBefore(x *sdExt, p, q *simPkt) bool {
	kp, dp := x.order[p]
	kq, dq := x.order[q]
	switch {
	case dp && dq:
		return kp < kq
	case dp != dq:
		return dq // a duplicate comes after every original parked now
	case p.at != q.at:
		return p.at < q.at
	case p.from != q.from:
		return p.from < q.from
	default:
		return p.id < q.id
	}
}

// runSdScenario runs one shutdown under one fault plan.  Returns the number of delivery decisions taken and
// whether every fault of the plan could be applied.
func runSdScenario(t *testing.T, sc sdScenario, store *sdRecStore, st *sdStats) (decisions int, applicable bool) {
	applicable = true
	synctest.Test(t, func(t *testing.T) {
		o := simOpts{seed: int64(len(sc.plan)), interleaveA: 0, interleaveB: 0, setTSN: true, tsnA: 4294967290, tsnB: 7000, rtoMax: 2000}
		s := newSim(t, o, sc.label())
		defer sdExtDrop(s)
		x := sdExtOf(s)
		if !s.establish() {
			s.fail("C04", fmt.Sprintf("fault-free handshake did not complete: errs=%v,%v", s.hsErr[0], s.hsErr[1]))
			s.closeBoth()
			st.report(s)
			return
		}
		if store != nil {
			s.obs = append(s.obs, &sdRecorder{st: store})
		}
		// data queued before the call(s); nothing is delivered in between
		sdWriteData(s, 0, sc.dataA)
		sdWriteData(s, 1, sc.dataB)
		var sentBefore [2]int
		for side := 0; side < 2; side++ {
			sentBefore[side] = len(s.sent[side][1])
		}
		sdCallShutdown(s, 0)
		if sc.crossed {
			sdCallShutdown(s, 1)
		}
		var probed [2]uint32
		probed[0], probed[1] = established, established
		sdProbeWrites(s, st, &probed)

		limit := s.now() + 90*time.Second
		plan := sc.plan
		neededTransport := false
		var transportClosedByHarness [2]bool
		for s.now() < limit {
			from, ok := sdOldest(s, x)
			if !ok {
				if sdClosed(s.assoc[0]) && sdClosed(s.assoc[1]) {
					break
				}
				// one side closed and the other one only waits for a packet that will never come: its transport goes
				// away with the peer ("the peer at the latest when its transport closes")
				if len(plan) == 0 && (sdClosed(s.assoc[0]) != sdClosed(s.assoc[1])) && s.now() > limit-60*time.Second {
					break
				}
				// 137 ms: no timer of the package (200 ms, 1 s, 2 s, ...) armed at a multiple of the step expires exactly
				// at a later multiple, so a timer never races the harness's own wake-up inside the bubble
				s.advance(137 * time.Millisecond)
				s.readAll()
				sdProbeWrites(s, st, &probed)
				continue
			}
			select {
			case <-s.conn[1-from].closed:
				s.drop(from, 0) // the receiver's transport is closed: not a delivery decision
				continue
			default:
			}
			pos := decisions
			decisions++
			if len(plan) > 0 && plan[0].pos == pos {
				f := plan[0]
				plan = plan[1:]
				switch f.kind {
				case 0:
					s.drop(from, 0)
				case 1:
					p := s.flight[from][0]
					s.deliver(from, 0, true)
					// the second copy arrives after everything parked now
					if len(s.flight[from]) > 0 && s.flight[from][0] == p {
						s.flight[from] = append(append([]*simPkt{}, s.flight[from][1:]...), p)
						x.dupSeq++
						x.order[p] = x.dupSeq
					}
				case 2:
					if len(s.flight[from]) < 2 {
						applicable = false
						s.deliver(from, 0, false)
					} else {
						s.deliver(from, 1, false)
					}
				}
				st.mu.Lock()
				st.faults[f.kind]++
				st.mu.Unlock()
			} else {
				s.deliver(from, 0, false)
			}
			s.readAll()
			sdProbeWrites(s, st, &probed)
		}
		if len(plan) > 0 {
			applicable = false // the run ended before the position of a planned fault
		}
		s.readAll()

		// ---- P_C08
		for side := 0; side < 2; side++ {
			a := s.assoc[side]
			peer := 1 - side
			if !sdClosed(a) {
				if sdClosed(s.assoc[peer]) {
					// the peer is gone: this side's transport closes; it must end up closed with its loops exited
					neededTransport = true
					transportClosedByHarness[side] = true
					sdTransportDown(s, side)
					if !sdClosed(a) || !sdLoopsExited(a) {
						s.fail("C08", fmt.Sprintf("(not-closed-after-transport-close) side=%d state=%s after its transport closed", side, getAssociationStateString(a.getState())))
					}
				} else {
					s.fail("C08", fmt.Sprintf("(shutdown-stuck) neither side closed after %v: states=%s,%s pending=%d,%d inflight=%d,%d",
						s.now(), getAssociationStateString(s.assoc[0].getState()), getAssociationStateString(s.assoc[1].getState()),
						s.assoc[0].pendingQueue.size(), s.assoc[1].pendingQueue.size(), s.assoc[0].inflightQueue.size(), s.assoc[1].inflightQueue.size()))
					break
				}
			}
		}
		s.readAll()
		for side := 0; side < 2; side++ {
			a := s.assoc[side]
			peer := 1 - side
			ret := x.call[side].status()
			if sdClosed(a) && !sdLoopsExited(a) {
				s.fail("C08", fmt.Sprintf("(loops-alive-after-close) side=%d closed but read/write loop still running", side))
			}
			if sdClosed(a) && ret == sdRetWaiting {
				s.fail("C08", fmt.Sprintf("(shutdown-call-hangs) side=%d is closed but Shutdown has not returned", side))
			}
			if ret == sdRetNil {
				got := s.recvd[peer][1]
				ok := len(got) == sentBefore[side]
				for i := 0; ok && i < len(got); i++ {
					ok = got[i].idx == i
				}
				if !ok {
					s.fail("C08", fmt.Sprintf("(nil-without-delivery) Shutdown returned nil on side=%d but the peer read %d of the %d messages written before the call (in order=%v)",
						side, len(got), sentBefore[side], ok))
				}
				if !sdClosed(a) {
					s.fail("C08", fmt.Sprintf("(nil-before-closed) Shutdown returned nil on side=%d in state %s", side, getAssociationStateString(a.getState())))
				}
			}
			if ret == sdRetIncomplete && !transportClosedByHarness[side] {
				s.fail("C08", fmt.Sprintf("(shutdown-error-although-completed) side=%d closed through the shutdown sequence but Shutdown returned %v", side, x.call[side].err))
			}
			if ret == sdRetErr && side == 0 {
				s.fail("C08", fmt.Sprintf("(shutdown-refused) Shutdown on an established association returned %v", x.call[side].err))
			}
			// reads after closure: the queue was served first, now the stream reports closure
			if st1 := s.streams[side][1]; st1 != nil && sdClosed(a) {
				buf := make([]byte, 16)
				st1.lock.RLock()
				readable := st1.reassemblyQueue.isReadable()
				st1.lock.RUnlock()
				if !readable {
					_ = st1.SetReadDeadline(time.Now().Add(time.Millisecond))
					if _, _, err := st1.ReadSCTP(buf); err == nil {
						s.fail("C08", fmt.Sprintf("(read-after-closure) read on a closed association returned data not accounted for: side=%d", side))
					}
				}
			}
		}
		if os.Getenv("VERIF_SD_LOG") != "" {
			fmt.Printf("SDRUN %s decisions=%d t=%v\n", sc.label(), decisions, s.now())
		}
		st.mu.Lock()
		st.runs++
		st.decisions += decisions
		if decisions > st.maxDecisions {
			st.maxDecisions = decisions
		}
		if neededTransport {
			st.peerNeededTransport++
		} else if sdClosed(s.assoc[0]) && sdClosed(s.assoc[1]) {
			st.bothClosedByProtocol++
		}
		if !applicable {
			st.inapplicable++
		}
		st.mu.Unlock()
		s.closeBoth()
		st.report(s)
	})
	return decisions, applicable
}

// sdEnumerate runs every plan extending `plan` with faults at later positions, up to k faults in total.
func sdEnumerate(t *testing.T, sc sdScenario, k, capPos int, store *sdRecStore, st *sdStats) {
	n, applicable := runSdScenario(t, sc, store, st)
	if !applicable || len(sc.plan) >= k {
		return
	}
	start := 0
	if len(sc.plan) > 0 {
		start = sc.plan[len(sc.plan)-1].pos + 1
	}
	if n > capPos {
		n = capPos
		st.mu.Lock()
		st.capped++
		st.mu.Unlock()
	}
	for pos := start; pos < n; pos++ {
		for f := 0; f < 3; f++ {
			child := sc
			child.plan = append(append([]sdFault{}, sc.plan...), sdFault{pos: pos, kind: f})
			sdEnumerate(t, child, k, capPos, store, st)
		}
	}
}

type sdCombo struct {
	crossed      bool
	dataA, dataB int
	k            int
}

func sdCombos(k int) []sdCombo {
	var out []sdCombo
	for _, crossed := range []bool{false, true} {
		for dataA := 0; dataA < 3; dataA++ {
			for dataB := 0; dataB < 3; dataB++ {
				kk := k
				if k == 2 && dataA == 2 && dataB == 2 {
					kk = 1 // quick tier: the largest combination gets single faults only
				}
				out = append(out, sdCombo{crossed, dataA, dataB, kk})
			}
		}
	}
	return out
}

// TestVerifSimSd: exhaustive fault schedules + matrix + transport-loss scenarios; writes the step records.
func TestVerifSimSd(t *testing.T) {
	k := int(verifEnvInt("VERIF_SD_K", 2))
	capPos := int(verifEnvInt("VERIF_SD_CAP", 40))
	w, done := verifOut(t, "/tmp/verif_sd.trace")
	defer done()
	store := newSdRecStore()
	st := &sdStats{printed: map[string]int{}}
	t.Run("schedules", func(t *testing.T) {
		for _, c := range sdCombos(k) {
			c := c
			base := sdScenario{crossed: c.crossed, dataA: c.dataA, dataB: c.dataB}
			// parallel unit: (combination, first fault)
			n, _ := runSdScenario(t, base, store, st)
			if c.k == 0 {
				continue
			}
			if n > capPos {
				n = capPos
			}
			for pos := 0; pos < n; pos++ {
				for f := 0; f < 3; f++ {
					pos, f := pos, f
					t.Run(fmt.Sprintf("%v-%d-%d-%s@%d", c.crossed, c.dataA, c.dataB, sdFaultNames[f], pos), func(t *testing.T) {
						t.Parallel()
						sc := base
						sc.plan = []sdFault{{pos: pos, kind: f}}
						sdEnumerate(t, sc, c.k, capPos, store, st)
					})
				}
			}
		}
	})
	mat := runSdMatrix(t, store, st)
	tl := runSdTransportLoss(t, store, st)
	store.write(w)
	var ks []string
	for kd, n := range store.kinds {
		ks = append(ks, fmt.Sprintf("%s:%d", kd, n))
	}
	sort.Strings(ks)
	fmt.Printf("SIMSD k=%d schedules=%d decisions=%d max_decisions=%d drops=%d dups=%d swaps=%d inapplicable=%d capped=%d closed_by_protocol=%d peer_closed_with_transport=%d rejected_writes=%d matrix_cells=%d transport_loss_runs=%d records_observed=%d records_unique=%d skipped=%d kinds=%s foreign_monitor_lines=%d fails=%d\n",
		k, st.runs, st.decisions, st.maxDecisions, st.faults[0], st.faults[1], st.faults[2], st.inapplicable, st.capped,
		st.bothClosedByProtocol, st.peerNeededTransport, st.rejectedWrites, mat, tl, store.observed, len(store.order), store.skipped,
		strings.Join(ks, ","), st.foreign, st.fails)
}

// ---------------------------------------------------------------- state x chunk matrix

type sdMatrixState struct {
	name    string
	state   uint32
	hasData bool
	prepare func(s *sim)
}

func sdMatrixStates() []sdMatrixState {
	wr := func(s *sim) { _ = s.write(0, 1, 100, PayloadTypeWebRTCBinary) }
	shutdownNoop := func(s *sim) {
		a := s.assoc[0]
		sdInject(s, 0, sdCraft(s, 0, &chunkShutdown{cumulativeTSNAck: a.cumulativeTSNAckPoint}), "SHUTDOWN(prepare)")
	}
	return []sdMatrixState{
		{"established", established, false, func(s *sim) {}},
		{"established+data", established, true, wr},
		{"shutdownPending", shutdownPending, true, func(s *sim) { wr(s); sdCallShutdown(s, 0) }},
		{"shutdownSent", shutdownSent, false, func(s *sim) { sdCallShutdown(s, 0) }},
		{"shutdownReceived", shutdownReceived, true, func(s *sim) { wr(s); shutdownNoop(s) }},
		{"shutdownAckSent", shutdownAckSent, false, func(s *sim) { shutdownNoop(s) }},
		{"closed", closed, false, func(s *sim) {
			sdCallShutdown(s, 0)
			s.runFaultFree(20*time.Second, 250*time.Millisecond, func() bool { return sdClosed(s.assoc[0]) && sdClosed(s.assoc[1]) })
		}},
	}
}

type sdMatrixChunk struct {
	name  string
	build func(s *sim) []byte
}

func sdMatrixChunks() []sdMatrixChunk {
	return []sdMatrixChunk{
		{"SHUTDOWN-noop", func(s *sim) []byte {
			return sdCraft(s, 0, &chunkShutdown{cumulativeTSNAck: s.assoc[0].cumulativeTSNAckPoint})
		}},
		{"SHUTDOWN-ackall", func(s *sim) []byte {
			return sdCraft(s, 0, &chunkShutdown{cumulativeTSNAck: s.assoc[0].myNextTSN - 1})
		}},
		{"SHUTDOWN-bad", func(s *sim) []byte {
			return sdCraft(s, 0, &chunkShutdown{cumulativeTSNAck: s.assoc[0].myNextTSN + 1000})
		}},
		{"SHUTDOWN-ACK", func(s *sim) []byte { return sdCraft(s, 0, &chunkShutdownAck{}) }},
		{"SHUTDOWN-COMPLETE", func(s *sim) []byte { return sdCraft(s, 0, &chunkShutdownComplete{}) }},
		{"DATA", func(s *sim) []byte {
			a := s.assoc[0]
			return sdCraft(s, 0, &chunkPayloadData{tsn: a.peerLastTSN() + 1, streamIdentifier: 9, beginningFragment: true, endingFragment: true,
				payloadType: PayloadTypeWebRTCBinary, userData: []byte("matrix")})
		}},
		{"SACK-noop", func(s *sim) []byte {
			return sdCraft(s, 0, &chunkSelectiveAck{cumulativeTSNAck: s.assoc[0].cumulativeTSNAckPoint, advertisedReceiverWindowCredit: 100000})
		}},
		{"SACK-ackall", func(s *sim) []byte {
			return sdCraft(s, 0, &chunkSelectiveAck{cumulativeTSNAck: s.assoc[0].myNextTSN - 1, advertisedReceiverWindowCredit: 100000})
		}},
		{"INIT", func(s *sim) []byte {
			ci := &chunkInit{}
			ci.initiateTag = 12345
			ci.advertisedReceiverWindowCredit = 100000
			ci.numOutboundStreams = 10
			ci.numInboundStreams = 10
			ci.initialTSN = 1
			return sdCraft(s, 0, ci)
		}},
	}
}

// sdMatrixExpect: the successor state and the packets the RFC (9260 section 9.2, 8.5.1) allows, listed explicitly.
func sdMatrixExpect(st sdMatrixState, chunk string) (next uint32, out string) {
	next, out = st.state, ""
	if st.state == closed {
		return
	}
	drainTo := func(has bool) uint32 {
		if has {
			return shutdownReceived
		}
		return shutdownAckSent
	}
	switch chunk {
	case "SHUTDOWN-noop", "SHUTDOWN-ackall", "SHUTDOWN-bad":
		has := st.hasData && chunk != "SHUTDOWN-ackall"
		switch st.state {
		case established, shutdownPending, shutdownReceived:
			if chunk == "SHUTDOWN-bad" {
				return st.state, ""
			}
			next = drainTo(has)
		case shutdownSent, shutdownAckSent:
			next = shutdownAckSent
		}
		if next == shutdownAckSent {
			out = "SHUTDOWNACK"
		}
	case "SHUTDOWN-ACK":
		if st.state == shutdownSent || st.state == shutdownAckSent {
			next, out = closed, "SHUTDOWNCOMPLETE"
		}
	case "SHUTDOWN-COMPLETE":
		if st.state == shutdownAckSent {
			next = closed
		}
	case "DATA":
		switch st.state {
		case shutdownSent:
			out = "SACK SHUTDOWN"
		case established, shutdownPending:
			out = "*" // SACK now or delayed
		}
	case "SACK-ackall":
		if st.hasData {
			switch st.state {
			case shutdownPending:
				next, out = shutdownSent, "SHUTDOWN"
			case shutdownReceived:
				next, out = shutdownAckSent, "SHUTDOWNACK"
			}
		}
	case "INIT":
		if st.state == shutdownAckSent {
			out = "SHUTDOWNACK"
		}
	}
	return
}

func runSdMatrix(t *testing.T, store *sdRecStore, st *sdStats) int {
	cells := 0
	for _, ms := range sdMatrixStates() {
		for _, mc := range sdMatrixChunks() {
			ms, mc := ms, mc
			cells++
			synctest.Test(t, func(t *testing.T) {
				o := simOpts{seed: 1, interleaveA: 0, interleaveB: 0, setTSN: true, tsnA: 1000, tsnB: 4294967200, rtoMax: 2000}
				s := newSim(t, o, fmt.Sprintf("matrix/%s/%s", ms.name, mc.name))
				defer sdExtDrop(s)
				if !s.establish() {
					s.fail("C04", "fault-free handshake did not complete")
					s.closeBoth()
					st.report(s)
					return
				}
				s.obs = append(s.obs, &sdRecorder{st: store})
				ms.prepare(s)
				a := s.assoc[0]
				if got := a.getState(); got != ms.state {
					s.fail("C08", fmt.Sprintf("(matrix-prepare) could not drive the association into %s: state=%s", ms.name, getAssociationStateString(got)))
				}
				mark := len(s.wire)
				nRead := len(s.recvd[0][9])
				raw := mc.build(s)
				sdInject(s, 0, raw, mc.name)
				var outs []string
				for _, p := range s.wire[mark:] {
					if p.from == 0 {
						k := sdPktKind(p)
						if k == "DATA" && len(outs) > 0 && outs[len(outs)-1] == "DATA" {
							continue
						}
						outs = append(outs, k)
					}
				}
				got := strings.Join(outs, " ")
				next, want := sdMatrixExpect(ms, mc.name)
				if a.getState() != next {
					s.fail("C08", fmt.Sprintf("(matrix-%s-%s) successor state %s, permitted %s", ms.name, mc.name,
						getAssociationStateString(a.getState()), getAssociationStateString(next)))
				}
				if want != "*" && got != want {
					s.fail("C08", fmt.Sprintf("(matrix-%s-%s-output) emitted [%s], expected [%s]", ms.name, mc.name, got, want))
				}
				if mc.name == "DATA" {
					// DATA is passed up only in a data-receive state
					accepted := false
					if stx := s.streams[0][9]; stx != nil {
						accepted = true
					}
					_ = nRead
					wantAcc := ms.state == established || ms.state == shutdownPending || ms.state == shutdownSent
					a.lock.RLock()
					_, have := a.streams[9]
					a.lock.RUnlock()
					accepted = accepted || have
					if accepted != wantAcc {
						s.fail("C08", fmt.Sprintf("(matrix-%s-DATA-accept) DATA accepted=%v, expected %v", ms.name, accepted, wantAcc))
					}
				}
				s.closeBoth()
				st.report(s)
			})
		}
	}
	return cells
}

// ---------------------------------------------------------------- transport loss racing the drain (D18)

// runSdTransportLoss: data written, Shutdown called, the DATA never reaches the peer, then the caller's
// transport fails (or the user closes the association).  "Shutdown returned nil" must not be observed
// unless the peer got the messages.
func runSdTransportLoss(t *testing.T, store *sdRecStore, st *sdStats) int {
	runs := 0
	for _, how := range []string{"transport-failure", "peer-transport-failure-after-delivery", "local-close", "peer-abort", "shutdown-complete-lost"} {
		how := how
		runs++
		synctest.Test(t, func(t *testing.T) {
			o := simOpts{seed: 2, interleaveA: 0, interleaveB: 0, setTSN: true, tsnA: 50, tsnB: 60, rtoMax: 2000}
			s := newSim(t, o, "transport-loss/"+how)
			defer sdExtDrop(s)
			x := sdExtOf(s)
			if !s.establish() {
				s.fail("C04", "fault-free handshake did not complete")
				s.closeBoth()
				st.report(s)
				return
			}
			s.obs = append(s.obs, &sdRecorder{st: store})
			_ = s.write(0, 1, 100, PayloadTypeWebRTCBinary)
			sdCallShutdown(s, 0)
			wantNil := false
			switch how {
			case "transport-failure":
				for len(s.flight[0]) > 0 {
					s.drop(0, 0)
				}
				sdTransportDown(s, 0)
			case "peer-transport-failure-after-delivery":
				// the DATA arrives, the SACK does not; then the transport fails: the sequence did not complete
				for len(s.flight[0]) > 0 {
					s.deliver(0, 0, false)
				}
				s.readAll()
				for len(s.flight[1]) > 0 {
					s.drop(1, 0)
				}
				sdTransportDown(s, 0)
			case "local-close":
				for len(s.flight[0]) > 0 {
					s.drop(0, 0)
				}
				sdCallClose(s, 0)
			case "peer-abort":
				for len(s.flight[0]) > 0 {
					s.drop(0, 0)
				}
				sdInject(s, 0, sdCraft(s, 0, &chunkAbort{}), "ABORT")
			case "shutdown-complete-lost":
				// control: everything up to and including the SHUTDOWN ACK arrives at A, the SHUTDOWN COMPLETE is lost:
				// the sequence completed from A's point of view, nil is justified (and the message was delivered)
				wantNil = true
				for i := 0; i < 50 && !sdClosed(s.assoc[0]); i++ {
					from, ok := sdOldest(s, x)
					if !ok {
						s.advance(137 * time.Millisecond)
						continue
					}
					s.deliver(from, 0, false)
					s.readAll()
				}
				for len(s.flight[0]) > 0 {
					s.drop(0, 0)
				}
			}
			s.readAll()
			ret := x.call[0].status()
			got := len(s.recvd[1][1])
			if ret == sdRetNil && got != 1 {
				s.fail("C08", fmt.Sprintf("(shutdown-nil-on-%s) Shutdown returned nil although the peer received %d of 1 message written before the call (state at return: closed through closeWriteLoopCh)", how, got))
			}
			if !wantNil && ret != sdRetIncomplete {
				s.fail("C08", fmt.Sprintf("(shutdown-result-on-%s) Shutdown returned %d (err=%v), expected ErrShutdownIncomplete: the association closed before the shutdown sequence completed", how, ret, x.call[0].err))
			}
			if wantNil && ret != sdRetNil {
				s.fail("C08", fmt.Sprintf("(shutdown-result-on-%s) Shutdown returned %d (err=%v), expected nil: SHUTDOWN ACK had been received", how, ret, x.call[0].err))
			}
			if ret == sdRetWaiting {
				s.fail("C08", fmt.Sprintf("(shutdown-call-hangs) Shutdown still blocked after %s", how))
			}
			if !sdClosed(s.assoc[0]) || !sdLoopsExited(s.assoc[0]) {
				s.fail("C08", fmt.Sprintf("(not-closed-after-%s) side 0 state=%s", how, getAssociationStateString(s.assoc[0].getState())))
			}
			s.closeBoth()
			st.report(s)
		})
	}
	return runs
}

// TestVerifSimSdOne replays one schedule: VERIF_SD_PLAN="crossed/dataA/dataB/fault@pos,fault@pos" (e.g. "true/2/0/swap@5,drop@9");
// prints every monitor line (all properties) and the event log.
func TestVerifSimSdOne(t *testing.T) {
	spec := os.Getenv("VERIF_SD_PLAN")
	if spec == "" {
		t.Skip("VERIF_SD_PLAN not set")
	}
	parts := strings.Split(spec, "/")
	if len(parts) < 3 {
		t.Fatalf("bad VERIF_SD_PLAN")
	}
	sc := sdScenario{crossed: parts[0] == "true"}
	fmt.Sscanf(parts[1], "%d", &sc.dataA)
	fmt.Sscanf(parts[2], "%d", &sc.dataB)
	if len(parts) > 3 && parts[3] != "" {
		for _, f := range strings.Split(parts[3], ",") {
			var name string
			var pos int
			at := strings.Index(f, "@")
			if at < 0 {
				t.Fatalf("bad fault %q", f)
			}
			name = f[:at]
			fmt.Sscanf(f[at+1:], "%d", &pos)
			kind := -1
			for i, n := range sdFaultNames {
				if n == name {
					kind = i
				}
			}
			if kind < 0 {
				t.Fatalf("bad fault %q", f)
			}
			sc.plan = append(sc.plan, sdFault{pos: pos, kind: kind})
		}
	}
	sdReplayVerbose = true
	defer func() { sdReplayVerbose = false }()
	st := &sdStats{printed: map[string]int{}}
	n, ok := runSdScenario(t, sc, newSdRecStore(), st)
	fmt.Printf("SIMSDONE %s decisions=%d applicable=%v c08_fails=%d other_monitor_lines=%d\n", sc.label(), n, ok, st.fails, st.foreign)
}

var sdReplayVerbose bool
