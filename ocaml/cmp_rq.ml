(* replay of reassemblyQueue traces (go/inpkg/zz_verif_rq_test.go) on the extracted model RQ.v *)
module M = Model
open Zio

let chunk_tokens (c : M.rqchunk) : string =
  Printf.sprintf " %s %s %s %s %s %s %s %s %s %s %d%s" (sz c.M.rqc_tsn) (sz c.M.rqc_si) (sz c.M.rqc_ssn)
    (sz c.M.rqc_mid) (sz c.M.rqc_fsn) (sz c.M.rqc_ppi) (sbool c.M.rqc_unord) (sbool c.M.rqc_beg)
    (sbool c.M.rqc_end) (sbool c.M.rqc_idata) (List.length c.M.rqc_data)
    (String.concat "" (List.map (fun b -> " " ^ sz b) c.M.rqc_data))

let set_tokens (s : M.rqset) : string =
  Printf.sprintf " %s %s %d%s" (sz s.M.rqs_key) (sz s.M.rqs_ppi) (List.length s.M.rqs_chunks)
    (String.concat "" (List.map chunk_tokens s.M.rqs_chunks))

let sets tag (l : M.rqset list) : string =
  Printf.sprintf " %s %d%s" tag (List.length l) (String.concat "" (List.map set_tokens l))

(* harness glue: Go maps are dumped in numeric key order *)
let by_key (l : M.rqset list) : M.rqset list =
  List.stable_sort (fun a b -> Z.compare (z_of_cz a.M.rqs_key) (z_of_cz b.M.rqs_key)) l

let dump_model (q : M.rq) : string =
  let umap = by_key q.M.rq_umidmap in
  let omap = by_key q.M.rq_orderedMID in
  Printf.sprintf "dump %s %s %s %s%s%s C %d%s%s%s MAP %d%s OMAP %d%s"
    (sz q.M.rq_nextSSN) (sz q.M.rq_nextMID) (sbool q.M.rq_inter) (sz q.M.rq_nbytes)
    (sets "O" q.M.rq_ordered) (sets "U" q.M.rq_unordered)
    (List.length q.M.rq_uchunks) (String.concat "" (List.map chunk_tokens q.M.rq_uchunks))
    (sets "OM" q.M.rq_orderedMID) (sets "UM" q.M.rq_unorderedMID)
    (List.length umap) (String.concat "" (List.map (fun s -> " " ^ sz s.M.rqs_key ^ set_tokens s) umap))
    (List.length omap) (String.concat "" (List.map (fun s -> " " ^ sz s.M.rqs_key ^ " 1") omap))

let rec take n l = if n <= 0 then ([], l) else match l with [] -> ([], []) | x :: t -> let (a, b) = take (n - 1) t in (x :: a, b)

let parse_chunk (toks : string list) : M.rqchunk * string list =
  match toks with
  | tsn :: si :: ssn :: mid :: fsn :: ppi :: u :: b :: e :: i :: len :: rest ->
      let (d, rest') = take (int_of_string len) rest in
      ({ M.rqc_tsn = cz tsn; rqc_si = cz si; rqc_ssn = cz ssn; rqc_mid = cz mid; rqc_fsn = cz fsn;
         rqc_ppi = cz ppi; rqc_unord = (u = "1"); rqc_beg = (b = "1"); rqc_end = (e = "1");
         rqc_idata = (i = "1"); rqc_data = List.map cz d }, rest')
  | _ -> failwith "chunk"

let run path =
  let cases = read_cases path in
  let ncase = ref 0 in
  let n_push = ref 0 and n_read = ref 0 and n_fwd = ref 0 and n_dump = ref 0 and n_readable = ref 0 in
  let n_complete = ref 0 and n_err = ref 0 and n_rdok = ref 0 and n_short = ref 0 and n_again = ref 0 in
  let held_ne = ref 0 in
  let c_limit = ref 0 and c_wrap = ref 0 and p_idata = ref 0 and p_unord = ref 0 and p_zero = ref 0 and p_wrongsi = ref 0 in
  List.iter (fun (name, lines) ->
    incr ncase;
    let q = ref (M.rq_new (czi 0) (czi 0)) in
    let stop = ref false in
    List.iteri (fun i toks ->
      if not !stop then begin
        incr records;
        let bad what m im = report name (i+1) what m im; stop := true in
        match toks with
        | ["new"; si; mx; nssn; nmid] ->
            if mx <> "0" then incr c_limit;
            if Z.gt (Z.of_string nssn) (Z.of_int 65000) || Z.gt (Z.of_string nmid) (Z.of_string "4294900000") then incr c_wrap;
            let q0 = M.rq_new (cz si) (cz mx) in
            q := { q0 with M.rq_nextSSN = cz nssn; M.rq_nextMID = cz nmid }
        | "push" :: rest ->
            incr n_push;
            (try
              let (c, tail) = parse_chunk rest in
              if c.M.rqc_idata then incr p_idata;
              if c.M.rqc_unord then incr p_unord;
              if c.M.rqc_data = [] then incr p_zero;
              if sz c.M.rqc_si <> sz (!q).M.rq_si then incr p_wrongsi;
              let (q', r) = M.rq_push !q c in
              q := q';
              let m = match r with
                | M.RqOk b -> if b then incr n_complete; sbool b ^ " 0"
                | M.RqErrLimit -> incr n_err; "0 1"
                | M.RqErrMIDLimit -> incr n_err; "0 2"
                | M.RqPanic -> "0 3" in
              let im = String.concat " " tail in
              if m <> im then bad "push result (complete err)" m im
            with Failure _ -> bad "unparsed push" "" (String.concat " " toks))
        | "read" :: buflen :: n :: ppi :: code :: _k :: bytes ->
            incr n_read;
            let (q', r) = M.rq_read !q (cz buflen) in
            q := q';
            let im = String.concat " " (n :: ppi :: code :: bytes) in
            let m = match r with
              | M.RdOk (mn, mppi, del) ->
                  incr n_rdok;
                  let data = List.concat (List.map (fun c -> c.M.rqc_data) del) in
                  String.concat " " (sz mn :: sz mppi :: "0" :: List.map sz data)
              | M.RdShort mn -> incr n_short; String.concat " " [sz mn; "0"; "2"]
              | M.RdTryAgain -> incr n_again; "0 0 1" in
            if m <> im then bad ("read " ^ buflen ^ " (n ppi err bytes)") m im
        | ["readable"; r] ->
            incr n_readable;
            let b = M.rq_is_readable !q in
            if sbool b <> r then bad "isReadable" (sbool b) r
        | ["fwdo"; v] -> incr n_fwd; q := M.rq_fwd_ordered !q (cz v)
        | ["fwdu"; v] -> incr n_fwd; q := M.rq_fwd_unordered !q (cz v)
        | ["fwdom"; v] -> incr n_fwd; q := M.rq_fwd_ordered_mid !q (cz v)
        | ["fwdum"; v] -> incr n_fwd; q := M.rq_fwd_unordered_mid !q (cz v)
        | "dump" :: _ ->
            incr n_dump;
            let im = String.concat " " toks in
            let m = dump_model !q in
            if m <> im then bad "state" m im;
            (* the theorem's statement re-evaluated on the replayed state (redundant with the proof,
               kept as a guard against a vacuous reading of it) *)
            if sz (M.rq_held_bytes !q) <> sz (!q).M.rq_nbytes then incr held_ne
        | _ -> bad "unparsed line" "" (String.concat " " toks)
      end) lines) cases;
  Printf.printf "SUMMARY component=rq cases=%d records=%d mismatches=%d pushes=%d complete=%d push_errors=%d reads=%d read_ok=%d read_short=%d read_tryagain=%d readable=%d forwards=%d dumps=%d counter_ne_held=%d cases_entry_limit=%d cases_cursor_near_wrap=%d pushes_idata=%d pushes_unordered=%d pushes_zero_len=%d pushes_wrong_si=%d\n"
    !ncase !records !mismatches !n_push !n_complete !n_err !n_read !n_rdok !n_short !n_again !n_readable !n_fwd !n_dump !held_ne !c_limit !c_wrap !p_idata !p_unord !p_zero !p_wrongsi
