(* C20 — executable checker of the lock discipline over the program of coq/gen/LockGraph.v.

   [ainterp] is an abstract interpreter of one statement from one lock set; calls use a table of
   function summaries (function, lock set at entry) -> possible lock sets at exit.
   [lc_solve] computes such a table from the roots by fixpoint iteration (untrusted: any table
   works as long as [lc_verify] accepts it).
   [lc_verify] (the part LockProofs.v proves sound) re-runs the interpreter on every table entry
   and checks that the table is closed and that every atom reached satisfies the per-atom rules.
   The rest infers the lock order, the guard of every written field and prints diagnostics. *)
From Coq Require Import List Arith Bool.
From Sctp Require Import LockLang.
Import ListNotations.

(* ---------------------------------------------------------------- small set library *)

Definition ls_mem (h : lockset) (l : list lockset) : bool := existsb (ls_eqb h) l.

Fixpoint ls_union (l add : list lockset) : list lockset :=
  match add with
  | [] => l
  | h :: t => if ls_mem h l then ls_union l t else ls_union (l ++ [h]) t
  end.

Definition ls_dedup (l : list lockset) : list lockset := ls_union [] l.

Definition ex_eqb (a b : nat * lockset) : bool := Nat.eqb (fst a) (fst b) && ls_eqb (snd a) (snd b).

Fixpoint ex_union (l add : list (nat * lockset)) : list (nat * lockset) :=
  match add with
  | [] => l
  | h :: t => if existsb (ex_eqb h) l then ex_union l t else ex_union (l ++ [h]) t
  end.

Definition ex_dedup (l : list (nat * lockset)) := ex_union [] l.

(* ---------------------------------------------------------------- abstract interpreter *)

Inductive event := EAtom (a : atom) | ECall (f : nat) | EFuel.

Record ares := mk_ares {
  r_norm : list lockset;               (* lock sets when the statement completes normally *)
  r_exit : list (nat * lockset);       (* (n, lock set) for every SExit n leaving the statement *)
  r_ev : list (event * lockset)        (* everything executed, with the lock set held just before *)
}.

(* least set containing L and closed under step, by iteration; the caller checks closure *)
Fixpoint loop_iter (fuel : nat) (step : lockset -> list lockset) (L : list lockset) : list lockset :=
  match fuel with
  | O => L
  | S n => let L' := ls_union L (flat_map step L) in
           if Nat.eqb (length L') (length L) then L else loop_iter n step L'
  end.

Definition exits0 (l : list (nat * lockset)) : list lockset :=
  flat_map (fun e => match fst e with O => [snd e] | S _ => [] end) l.
Definition exitsS (l : list (nat * lockset)) : list (nat * lockset) :=
  flat_map (fun e => match fst e with O => [] | S n => [(n, snd e)] end) l.

Section Interp.
  Variable X : nat -> lockset -> list lockset.   (* summaries *)
  Variable v : nat -> bool.                      (* flags *)
  Variable fuel : nat.

  Fixpoint ainterp (s : stmt) (h : lockset) : ares :=
    match s with
    | SSkip => mk_ares [h] [] []
    | SAtom a => mk_ares [atom_apply a h] [] [(EAtom a, h)]
    | SCall f => mk_ares (X f h) [] [(ECall f, h)]
    | SSeq a b =>
        let ra := ainterp a h in
        let rbs := map (ainterp b) (r_norm ra) in
        mk_ares (ls_dedup (flat_map r_norm rbs)) (ex_dedup (r_exit ra ++ flat_map r_exit rbs))
                (r_ev ra ++ flat_map r_ev rbs)
    | SChoice a b =>
        let ra := ainterp a h in
        let rb := ainterp b h in
        mk_ares (ls_dedup (r_norm ra ++ r_norm rb)) (ex_dedup (r_exit ra ++ r_exit rb)) (r_ev ra ++ r_ev rb)
    | SLoop b =>
        let L := loop_iter fuel (fun h' => r_norm (ainterp b h')) [h] in
        let rs := map (ainterp b) L in
        if forallb (fun r => forallb (fun h' => ls_mem h' L) (r_norm r)) rs
        then mk_ares L (ex_dedup (flat_map r_exit rs)) (flat_map r_ev rs)
        else mk_ares [] [] [(EFuel, h)]
    | SBlock b =>
        let r := ainterp b h in
        mk_ares (ls_dedup (r_norm r ++ exits0 (r_exit r))) (exitsS (r_exit r)) (r_ev r)
    | SExit n => mk_ares [] [(n, h)] []
    | SIfFlag fl a b => if v fl then ainterp a h else ainterp b h
    end.
End Interp.

(* ---------------------------------------------------------------- summary tables *)

Definition entry := (nat * lockset * list lockset)%type.   (* function, lock set at entry, lock sets at exit *)
Definition table := list entry.

Definition e_fn (e : entry) : nat := fst (fst e).
Definition e_in (e : entry) : lockset := snd (fst e).
Definition e_out (e : entry) : list lockset := snd e.

Fixpoint tbl_find (T : table) (f : nat) (h : lockset) : option (list lockset) :=
  match T with
  | [] => None
  | e :: T' => if Nat.eqb (e_fn e) f && ls_eqb (e_in e) h then Some (e_out e) else tbl_find T' f h
  end.

Definition tbl_has (T : table) (f : nat) (h : lockset) : bool :=
  match tbl_find T f h with Some _ => true | None => false end.

Definition tbl_X (T : table) (f : nat) (h : lockset) : list lockset :=
  match tbl_find T f h with Some xs => xs | None => [] end.

(* ---------------------------------------------------------------- solver (untrusted) *)

Definition calls_of (evs : list (event * lockset)) : list (nat * lockset) :=
  flat_map (fun e => match fst e with ECall f => [(f, snd e)] | _ => [] end) evs.

Definition tbl_set_out (T : table) (f : nat) (h : lockset) (xs : list lockset) : table :=
  map (fun e => if Nat.eqb (e_fn e) f && ls_eqb (e_in e) h then (e_fn e, e_in e, ls_union (e_out e) xs) else e) T.

(* depth-first pass: the summary of a callee is computed (and memoised in the table) when the call
   is met, so that one pass suffices when the call graph is acyclic *)
Record sres := mk_sres { s_T : table; s_norm : list lockset; s_exit : list (nat * lockset) }.

Section DSolve.
  Variable call : table -> nat -> lockset -> table.
  Variable v : nat -> bool.
  Variable fuel : nat.

  Fixpoint sint (s : stmt) (h : lockset) (T : table) : sres :=
    match s with
    | SSkip => mk_sres T [h] []
    | SAtom a => mk_sres T [atom_apply a h] []
    | SCall f => let T' := call T f h in mk_sres T' (tbl_X T' f h) []
    | SSeq a b =>
        let ra := sint a h T in
        fold_left (fun acc h' => let r := sint b h' (s_T acc) in
                                 mk_sres (s_T r) (ls_union (s_norm acc) (s_norm r)) (ex_union (s_exit acc) (s_exit r)))
                  (s_norm ra) (mk_sres (s_T ra) [] (s_exit ra))
    | SChoice a b =>
        let ra := sint a h T in
        let rb := sint b h (s_T ra) in
        mk_sres (s_T rb) (ls_union (s_norm ra) (s_norm rb)) (ex_union (s_exit ra) (s_exit rb))
    | SLoop b =>
        (fix lp (n : nat) (L : list lockset) (T0 : table) (ex : list (nat * lockset)) : sres :=
           match n with
           | O => mk_sres T0 L ex
           | S n' =>
               let r := fold_left (fun acc h' => let r := sint b h' (s_T acc) in
                                                 mk_sres (s_T r) (ls_union (s_norm acc) (s_norm r)) (ex_union (s_exit acc) (s_exit r)))
                                  L (mk_sres T0 L ex) in
               if Nat.eqb (length (s_norm r)) (length L) then r else lp n' (s_norm r) (s_T r) (s_exit r)
           end) fuel [h] T []
    | SBlock b =>
        let r := sint b h T in
        mk_sres (s_T r) (ls_union (s_norm r) (exits0 (s_exit r))) (exitsS (s_exit r))
    | SExit n => mk_sres T [] [(n, h)]
    | SIfFlag fl a b => if v fl then sint a h T else sint b h T
    end.
End DSolve.

Section Solve.
  Variable p : lg_program.
  Variable v : nat -> bool.
  Variable fuel : nat.

  Definition run_entry (T : table) (f : nat) (h : lockset) : ares :=
    ainterp (tbl_X T) v fuel (lg_body p f) h.

  Fixpoint dsolve (n : nat) (T : table) (f : nat) (h : lockset) : table :=
    match n with
    | O => T
    | S n' =>
        if tbl_has T f h then T
        else let r := sint (dsolve n') v fuel (lg_body p f) h (T ++ [(f, h, [])]) in
             tbl_set_out (s_T r) f h (s_norm r)
    end.

  (* one round: recompute the exits of every entry, add an entry for every call seen *)
  Definition solve_round (T : table) : table :=
    let rs := map (fun e => (e, run_entry T (e_fn e) (e_in e))) T in
    let T1 := map (fun er => (e_fn (fst er), e_in (fst er), ls_union (e_out (fst er)) (r_norm (snd er)))) rs in
    let newcalls := ex_dedup (flat_map (fun er => calls_of (r_ev (snd er))) rs) in
    fold_left (fun acc c => if tbl_has acc (fst c) (snd c) then acc else acc ++ [(fst c, snd c, [])]) newcalls T1.

  Definition tbl_size (T : table) : nat := fold_left (fun n e => n + 1 + length (e_out e)) T 0.

  Fixpoint solve_iter (n : nat) (T : table) : table :=
    match n with
    | O => T
    | S n' => let T' := solve_round T in
              if Nat.eqb (tbl_size T') (tbl_size T) then T else solve_iter n' T'
    end.

  (* depth-first pass from every root, then rounds until nothing changes (needed for recursion only) *)
  Definition lc_solve : table :=
    solve_iter fuel (fold_left (fun T r => dsolve fuel T r (ls_empty (lg_p_nmutex p))) (lg_p_roots p) []).
End Solve.

(* ---------------------------------------------------------------- verifier (proved sound) *)

Section Verify.
  Variable p : lg_program.
  Variable v : nat -> bool.
  Variable fuel : nat.
  Variable chk : atom -> lockset -> bool.     (* per-atom rule on (atom, lock set held when it executes) *)
  Variable T : table.

  Definition okev (e : event * lockset) : bool :=
    match fst e with
    | EAtom a => atom_ok a (snd e) && chk a (snd e)
    | ECall f => tbl_has T f (snd e)
    | EFuel => false
    end.

  Definition entry_ok (e : entry) : bool :=
    let r := run_entry p v fuel T (e_fn e) (e_in e) in
    forallb okev (r_ev r) &&
    match r_exit r with [] => true | _ => false end &&
    forallb (fun h => ls_mem h (e_out e)) (r_norm r).

  Definition root_ok (r : nat) : bool :=
    let h0 := ls_empty (lg_p_nmutex p) in
    match tbl_find T r h0 with
    | Some xs => forallb (ls_eqb h0) xs         (* a root returns with no lock held *)
    | None => false
    end.

  Definition lc_verify : bool := forallb root_ok (lg_p_roots p) && forallb entry_ok T.
End Verify.

(* ---------------------------------------------------------------- facts, inference (untrusted) *)

Definition fact := (nat * lockset * event * lockset)%type.  (* function, its entry lock set, event, lock set *)

Definition lc_facts (p : lg_program) (v : nat -> bool) (fuel : nat) (T : table) : list fact :=
  flat_map (fun e => map (fun ev => (e_fn e, e_in e, fst ev, snd ev))
                         (r_ev (run_entry p v fuel T (e_fn e) (e_in e)))) T.

Definition held (h : lockset) : list nat :=
  flat_map (fun i => if is_free (ls_get i h) then [] else [i]) (seq 0 (length h)).

(* lock-order edges: (m1, m2) when m2 is acquired while m1 is held *)
Definition order_edges (fs : list fact) : list (nat * nat) :=
  flat_map (fun f => match f with
                     | (_, _, EAtom (ALock m), h) | (_, _, EAtom (ARLock m), h) => map (fun m1 => (m1, m)) (held h)
                     | _ => [] end) fs.

Definition edge_mem (e : nat * nat) (l : list (nat * nat)) : bool :=
  existsb (fun x => Nat.eqb (fst x) (fst e) && Nat.eqb (snd x) (snd e)) l.

Fixpoint edges_dedup (l acc : list (nat * nat)) : list (nat * nat) :=
  match l with
  | [] => acc
  | e :: t => if edge_mem e acc then edges_dedup t acc else edges_dedup t (acc ++ [e])
  end.

(* rank by longest path, Bellman-Ford style; a cycle shows as an edge that is not strictly increasing *)
Fixpoint rank_iter (n : nat) (edges : list (nat * nat)) (rk : list nat) : list nat :=
  match n with
  | O => rk
  | S n' =>
      let rk' := fold_left (fun r e => let a := nth (fst e) r 0 in let b := nth (snd e) r 0 in
                                       if Nat.ltb a b then r
                                       else (fix set (i : nat) (l : list nat) : list nat :=
                                               match l, i with
                                               | [], _ => []
                                               | _ :: t, O => S a :: t
                                               | y :: t, S i' => y :: set i' t
                                               end) (snd e) r) edges rk in
      rank_iter n' edges rk'
  end.

Definition lc_rank (nm : nat) (edges : list (nat * nat)) : list nat := rank_iter nm edges (repeat 0 nm).

(* guard of a field: the mutexes held for writing at every non-atomic write *)
Definition write_sets (fs : list fact) (o : nat) : list lockset :=
  flat_map (fun f => match f with (_, _, EAtom (AAct KWrite o'), h) => if Nat.eqb o o' then [h] else [] | _ => [] end) fs.

Definition written_fields (fs : list fact) : list nat :=
  fold_left (fun acc f => match f with
                          | (_, _, EAtom (AAct KWrite o), _) => if existsb (Nat.eqb o) acc then acc else acc ++ [o]
                          | _ => acc end) fs [].

Definition common_write_locks (nm : nat) (hs : list lockset) : list nat :=
  filter (fun m => forallb (fun h => is_write (ls_get m h)) hs) (seq 0 nm).

(* (field, mutexes held for writing at all its write sites) *)
Definition lc_guards (nm : nat) (fs : list fact) : list (nat * list nat) :=
  map (fun o => (o, common_write_locks nm (write_sets fs o))) (written_fields fs).

(* fields accessed through sync/atomic somewhere *)
Definition lc_atomics (fs : list fact) : list nat :=
  fold_left (fun acc f => match f with
                          | (_, _, EAtom (AAct KAtomic o), _) => if existsb (Nat.eqb o) acc then acc else acc ++ [o]
                          | _ => acc end) fs [].

Definition guard_of (g : list (nat * list nat)) (o : nat) : option (list nat) :=
  match find (fun x => Nat.eqb (fst x) o) g with Some x => Some (snd x) | None => None end.

(* ---------------------------------------------------------------- the discipline *)

(* a waiver allows atom kind k on object o while mutex m is held; each one is listed with its
   justification in coq/props/C20.v *)
Definition waiver := (akind * nat * nat)%type.

Definition akind_eqb (a b : akind) : bool :=
  match a, b with
  | KUser, KUser | KExt, KExt | KSend, KSend | KRecv, KRecv | KTrySend, KTrySend | KTryRecv, KTryRecv
  | KSelSend, KSelSend | KSelRecv, KSelRecv | KClose, KClose | KWait, KWait | KSignal, KSignal
  | KWrite, KWrite | KRead, KRead | KAtomic, KAtomic | KGo, KGo => true
  | _, _ => false
  end.

Definition waived (ws : list waiver) (k : akind) (o m : nat) : bool :=
  existsb (fun w => akind_eqb (fst (fst w)) k && Nat.eqb (snd (fst w)) o && Nat.eqb (snd w) m) ws.

(* kinds that must run with no lock held: user code, the user's net.Conn, blocking operations *)
Definition needs_no_lock (k : akind) : bool :=
  match k with KUser | KExt | KSend | KRecv | KSelSend | KSelRecv | KWait => true | _ => false end.

Section Discipline.
  Variable p : lg_program.
  Variable ws : list waiver.                  (* atoms allowed under a lock *)
  Variable unguarded_ok : list nat.           (* written fields allowed to have no common write lock *)
  Variable unguarded_reads_ok : list nat.     (* guarded fields that may be read without the guard *)
  Variable rank : list nat.
  Variable guards : list (nat * list nat).
  Variable atomics : list nat.                (* fields also accessed with sync/atomic: no plain write allowed *)

  Definition chk_order (m : nat) (h : lockset) : bool :=
    forallb (fun m1 => Nat.ltb (nth m1 rank 0) (nth m rank 0)) (held h).

  Definition lc_chk (a : atom) (h : lockset) : bool :=
    match a with
    | ALock m | ARLock m => chk_order m h
    | AUnlock _ | ARUnlock _ => true
    | AAct KGo f => existsb (Nat.eqb f) (lg_p_roots p)
    | AAct KWrite o =>
        negb (existsb (Nat.eqb o) atomics) &&
        match guard_of guards o with
        | Some (m :: _) => is_write (ls_get m h)
        | _ => existsb (Nat.eqb o) unguarded_ok
        end
    | AAct KRead o =>
        match guard_of guards o with
        | Some (m :: ms) => existsb (fun m' => negb (is_free (ls_get m' h))) (m :: ms) || existsb (Nat.eqb o) unguarded_reads_ok
        | _ => true
        end
    | AAct k o => if needs_no_lock k then forallb (fun m => waived ws k o m) (held h) else true
    end.
End Discipline.

Definition lc_fuel : nat := 64.

Definition all_valuations (n : nat) : list (nat -> bool) :=
  fold_right (fun i acc => flat_map (fun f => [(fun j => if Nat.eqb j i then true else f j);
                                               (fun j => if Nat.eqb j i then false else f j)]) acc)
             [fun _ => false] (seq 0 n).

(* every (function, entry lock set) has at most one exit lock set *)
Definition balanced (T : table) : bool := forallb (fun e => Nat.leb (length (e_out e)) 1) T.

Record lc_result := {
  lcr_table : table;
  lcr_rank : list nat;
  lcr_guards : list (nat * list nat);
  lcr_atomics : list nat;
  lcr_ok : bool
}.

Definition lc_run (p : lg_program) (ws : list waiver) (ung urd : list nat) (v : nat -> bool) : lc_result :=
  let T := lc_solve p v lc_fuel in
  let fs := lc_facts p v lc_fuel T in
  let rk := lc_rank (lg_p_nmutex p) (edges_dedup (order_edges fs) []) in
  let gs := lc_guards (lg_p_nmutex p) fs in
  let ats := lc_atomics fs in
  {| lcr_table := T; lcr_rank := rk; lcr_guards := gs; lcr_atomics := ats;
     lcr_ok := lc_verify p v lc_fuel (lc_chk p ws ung urd rk gs ats) T && balanced T |}.

Definition discipline_ok_with (ws : list waiver) (ung urd : list nat) (p : lg_program) : bool :=
  forallb (fun v => lcr_ok (lc_run p ws ung urd v)) (all_valuations (lg_p_nflags p)).

Definition discipline_ok (p : lg_program) : bool := discipline_ok_with [] [] [] p.

(* ---------------------------------------------------------------- report (diagnostics only) *)

Definition mode_code (x : mode) : nat := match x with MFree => 0 | MRead => 1 | MWrite => 2 end.

Definition akind_code (k : akind) : nat :=
  match k with
  | KUser => 0 | KExt => 1 | KSend => 2 | KRecv => 3 | KTrySend => 4 | KTryRecv => 5 | KSelSend => 6 | KSelRecv => 7
  | KClose => 8 | KWait => 9 | KSignal => 10 | KWrite => 11 | KRead => 12 | KAtomic => 13 | KGo => 14
  end.

(* event as (code, object): 100 Lock, 101 Unlock, 102 RLock, 103 RUnlock, 200 Call, 300 fuel, else act kind *)
Definition ev_code (e : event) : nat * nat :=
  match e with
  | EAtom (ALock m) => (100, m) | EAtom (AUnlock m) => (101, m) | EAtom (ARLock m) => (102, m) | EAtom (ARUnlock m) => (103, m)
  | EAtom (AAct k o) => (akind_code k, o)
  | ECall f => (200, f)
  | EFuel => (300, 0)
  end.

Definition fact_code (f : fact) : nat * list nat * (nat * nat) * list nat :=
  match f with (fn, e, ev, h) => (fn, map mode_code e, ev_code ev, map mode_code h) end.

Definition fact_eqb (a b : nat * list nat * (nat * nat) * list nat) : bool :=
  match a, b with
  | (f1, e1, (c1, o1), h1), (f2, e2, (c2, o2), h2) =>
      Nat.eqb f1 f2 && Nat.eqb c1 c2 && Nat.eqb o1 o2 &&
      (if list_eq_dec Nat.eq_dec e1 e2 then true else false) && (if list_eq_dec Nat.eq_dec h1 h2 then true else false)
  end.

Fixpoint fact_dedup (l acc : list (nat * list nat * (nat * nat) * list nat)) :=
  match l with
  | [] => acc
  | x :: t => if existsb (fact_eqb x) acc then fact_dedup t acc else fact_dedup t (x :: acc)
  end.

Record lc_report := {
  rep_ok : bool;
  rep_table : list (nat * list nat * list (list nat));
  rep_rank : list nat;
  rep_guards : list (nat * list nat);
  rep_atomics : list nat;
  rep_bad : list (nat * list nat * (nat * nat) * list nat);   (* facts that break a rule *)
  rep_facts : list (nat * list nat * (nat * nat) * list nat)
}.

Definition lc_report_of (p : lg_program) (ws : list waiver) (ung urd : list nat) (v : nat -> bool) : lc_report :=
  let r := lc_run p ws ung urd v in
  let T := lcr_table r in
  let fs := lc_facts p v lc_fuel T in
  let chk := lc_chk p ws ung urd (lcr_rank r) (lcr_guards r) (lcr_atomics r) in
  {| rep_ok := lcr_ok r;
     rep_table := map (fun e => (e_fn e, map mode_code (e_in e), map (map mode_code) (e_out e))) T;
     rep_rank := lcr_rank r;
     rep_guards := lcr_guards r;
     rep_atomics := lcr_atomics r;
     rep_bad := fact_dedup (map fact_code (filter (fun f => match f with (_, _, ev, h) => negb (okev chk T (ev, h)) end) fs)) [];
     rep_facts := map fact_code fs |}.
