// Verification harness: Stream.onBufferReleased (buffered amount and the low-threshold callback decision)
// against coq/model/BufLow.v, single calls and whole histories on one Stream object (C15).
package sctp

import (
	"fmt"
	"math/rand"
	"strings"
	"testing"

	"github.com/pion/logging"
)

func TestVerifBufLow(t *testing.T) {
	seed := verifEnvInt("VERIF_SEED", 1)
	n := int(verifEnvInt("VERIF_N", 4000))
	w, done := verifOut(t, "/tmp/verif_buflow.trace")
	defer done()
	rng := rand.New(rand.NewSource(seed))
	lf := logging.NewDefaultLoggerFactory()
	lf.DefaultLogLevel = logging.LogLevelDisabled
	pick := func() uint64 {
		switch rng.Intn(6) {
		case 0:
			return 0
		case 1:
			return uint64(rng.Intn(4))
		case 2:
			return 1<<32 - 2 + uint64(rng.Intn(5))
		case 3:
			return 1<<63 - 2 + uint64(rng.Intn(4))
		default:
			return uint64(rng.Intn(5000))
		}
	}
	stats := map[string]int{}
	fmt.Fprintln(w, "case buflow-single")
	for i := 0; i < n; i++ {
		s := &Stream{log: lf.NewLogger("verif"), name: "verif"}
		v, low := pick(), pick()
		if rng.Intn(3) == 0 {
			low = v + uint64(rng.Intn(3)) - 1
			if v == 0 && low > 1<<63 {
				low = 0
			}
		}
		var rel int
		switch rng.Intn(8) {
		case 0:
			rel = 0
		case 1:
			rel = -rng.Intn(5)
		case 2:
			rel = int(v % (1 << 40))
		case 3:
			rel = int(v%(1<<40)) + rng.Intn(3) - 1
		default:
			rel = rng.Intn(6000)
		}
		hascb := rng.Intn(5) != 0
		fired := 0
		s.bufferedAmount, s.bufferedAmountLow = v, low
		if hascb {
			s.onBufferedAmountLow = func() {
				// the callback must be able to call back into the stream (runs without s.lock)
				_ = s.BufferedAmount()
				fired++
			}
		}
		s.onBufferReleased(rel)
		if fired > 1 {
			fmt.Printf("BUFLOWFAIL callback fired %d times in one release\n", fired)
			t.Fail()
		}
		fmt.Fprintf(w, "rel %d %d %d %d %d %d\n", v, low, rel, b2i(hascb), s.bufferedAmount, fired)
		switch {
		case rel <= 0:
			stats["nonpositive"]++
		case uint64(rel) > v:
			stats["clamp"]++
		case fired == 1:
			stats["fired"]++
		default:
			stats["plain"]++
		}
	}
	fmt.Fprintln(w, "case buflow-history")
	for i := 0; i < n/10; i++ {
		s := &Stream{log: lf.NewLogger("verif"), name: "verif"}
		low := uint64(rng.Intn(3000))
		v0 := uint64(rng.Intn(6000))
		s.bufferedAmount = v0
		s.SetBufferedAmountLowThreshold(low)
		fired := 0
		s.OnBufferedAmountLow(func() { _ = s.BufferedAmount(); fired++ })
		var sb, fs strings.Builder
		k := 1 + rng.Intn(30)
		for j := 0; j < k; j++ {
			if rng.Intn(3) == 0 {
				nb := uint64(rng.Intn(2500))
				// an accepted write grows the amount by its length (Stream.WriteSCTP: s.bufferedAmount += n)
				s.lock.Lock()
				s.bufferedAmount += nb
				s.lock.Unlock()
				fmt.Fprintf(&sb, " w %d", nb)
				fs.WriteString(" 0")
			} else {
				nb := rng.Intn(2500) - 20
				before := fired
				s.onBufferReleased(nb)
				fmt.Fprintf(&sb, " r %d", nb)
				fmt.Fprintf(&fs, " %d", fired-before)
				stats["hist-fired"] += fired - before
			}
		}
		fmt.Fprintf(w, "hist %d %d%s | %d%s\n", low, v0, sb.String(), s.BufferedAmount(), fs.String())
	}
	fmt.Printf("BUFLOW single=%d histories=%d nonpositive=%d clamp=%d fired=%d plain=%d hist-fired=%d\n",
		n, n/10, stats["nonpositive"], stats["clamp"], stats["fired"], stats["plain"], stats["hist-fired"])
}
