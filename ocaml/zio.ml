(* conversions between decimal strings / OCaml ints and the extracted Coq numbers.
   Zarith's Z is used only for text <-> binary; all model arithmetic is the extracted code. *)
module M = Model

let rec pos_of_z (n : Z.t) : M.positive =
  if Z.equal n Z.one then M.XH
  else if Z.is_even n then M.XO (pos_of_z (Z.shift_right n 1))
  else M.XI (pos_of_z (Z.shift_right n 1))

let cz_of_z (n : Z.t) : M.z =
  match Z.sign n with
  | 0 -> M.Z0
  | 1 -> M.Zpos (pos_of_z n)
  | _ -> M.Zneg (pos_of_z (Z.neg n))

let rec z_of_pos (p : M.positive) : Z.t =
  match p with
  | M.XH -> Z.one
  | M.XO q -> Z.shift_left (z_of_pos q) 1
  | M.XI q -> Z.succ (Z.shift_left (z_of_pos q) 1)

let z_of_cz (n : M.z) : Z.t =
  match n with
  | M.Z0 -> Z.zero
  | M.Zpos p -> z_of_pos p
  | M.Zneg p -> Z.neg (z_of_pos p)

let cz s = cz_of_z (Z.of_string s)
let czi i = cz_of_z (Z.of_int i)
let sz n = Z.to_string (z_of_cz n)
let iz n = Z.to_int (z_of_cz n)

let rec nat_of_int i : M.nat = if i <= 0 then M.O else M.S (nat_of_int (i - 1))
let rec int_of_nat (n : M.nat) = match n with M.O -> 0 | M.S m -> 1 + int_of_nat m

let sbool b = if b then "1" else "0"
let slist f l = String.concat " " (List.map f l)

(* trace reading: a trace is a list of cases; each case has a name and lines of tokens *)
let read_cases (path : string) : (string * string list list) list =
  (* VERIF_SHARD=k/n : keep only cases whose index is k modulo n (parallel comparison); the lines of
     the other cases are skipped while reading, so a shard holds 1/n of the trace in memory *)
  let (sk, sn) =
    match Sys.getenv_opt "VERIF_SHARD" with
    | Some s -> (match String.split_on_char '/' s with
                 | [k; n] -> (int_of_string k, int_of_string n)
                 | _ -> (0, 1))
    | None -> (0, 1) in
  let ic = open_in path in
  let cases = ref [] and cur = ref None and idx = ref (-1) and keep = ref true in
  let flush () =
    match !cur with
    | Some (n, ls) -> cases := (n, List.rev ls) :: !cases
    | None -> () in
  let is_case l = String.length l >= 5 && String.sub l 0 5 = "case " in
  (try
     while true do
       let l = input_line ic in
       if is_case l then begin
         flush (); cur := None;
         incr idx;
         keep := (!idx mod sn = sk);
         if !keep then
           (match List.filter (fun s -> s <> "") (String.split_on_char ' ' l) with
            | _ :: n :: _ -> cur := Some (n, [])
            | _ -> cur := Some ("anon", []))
       end else if !keep then begin
         let toks = List.filter (fun s -> s <> "") (String.split_on_char ' ' l) in
         match toks with
         | [] -> ()
         | _ -> (match !cur with
                 | Some (n, ls) -> cur := Some (n, toks :: ls)
                 | None ->
                     (* lines before the first "case": an anonymous case with index 0 *)
                     if !idx < 0 then begin idx := 0; keep := (0 mod sn = sk) end;
                     if !keep then cur := Some ("anon", [toks]))
       end
     done
   with End_of_file -> ());
  flush (); close_in ic;
  List.rev !cases

let mismatches = ref 0
let records = ref 0
let report case_name lineno what model impl =
  incr mismatches;
  if !mismatches <= 50 then
    Printf.printf "MISMATCH case=%s line=%d %s model=[%s] impl=[%s]\n" case_name lineno what model impl
