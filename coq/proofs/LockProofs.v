(* C20 — soundness of the lock-discipline checker (coq/model/LockCheck.v) with respect to the
   interleaving semantics of coq/model/LockSem.v.

   lc_sound_locksets   if [lc_verify] accepts a summary table, then whenever a goroutine started on a
                       root is about to execute an atom, the atom is legal for the lock set the
                       goroutine holds (no re-acquisition, no release of a mutex not held) and
                       satisfies the per-atom rule [chk] the table was verified against; a goroutine
                       that runs to completion holds nothing.
   lc_no_lock_deadlock if moreover [chk] contains the rank rule of [lc_chk] (every acquisition is of
                       a mutex ranked strictly above all mutexes held), no set of goroutines can be
                       blocked on each other's mutexes (pending writers included). *)
From Coq Require Import List Arith Bool Lia.
From Sctp Require Import LockLang LockSem LockCheck.
Import ListNotations.

(* ---------------------------------------------------------------- lock sets, small sets *)

Lemma mode_eqb_eq : forall a b, mode_eqb a b = true <-> a = b.
Proof. destruct a, b; simpl; split; intro H; try reflexivity; try discriminate. Qed.

Lemma ls_eqb_eq : forall a b, ls_eqb a b = true <-> a = b.
Proof.
  induction a as [|x a IH]; destruct b as [|y b]; simpl; split; intro H; try reflexivity; try discriminate.
  - apply andb_true_iff in H. destruct H as [H1 H2]. apply mode_eqb_eq in H1. apply IH in H2. subst. reflexivity.
  - inversion H; subst. apply andb_true_iff. split. apply mode_eqb_eq. reflexivity. apply IH. reflexivity.
Qed.

Lemma ls_mem_In : forall h l, ls_mem h l = true <-> In h l.
Proof.
  intros h l. unfold ls_mem. rewrite existsb_exists. split.
  - intros [x [Hin He]]. apply ls_eqb_eq in He. subst. exact Hin.
  - intro Hin. exists h. split. exact Hin. apply ls_eqb_eq. reflexivity.
Qed.

Lemma ls_union_In : forall add l x, In x (ls_union l add) <-> In x l \/ In x add.
Proof.
  induction add as [|a add IH]; intros l x; simpl.
  - tauto.
  - destruct (ls_mem a l) eqn:Hm.
    + rewrite IH. apply ls_mem_In in Hm. split; intros [H|H]; auto. destruct H as [H|H]; subst; auto.
    + rewrite IH. rewrite in_app_iff. simpl. tauto.
Qed.

Lemma ls_dedup_In : forall l x, In x (ls_dedup l) <-> In x l.
Proof. intros. unfold ls_dedup. rewrite ls_union_In. simpl. tauto. Qed.

Lemma ex_eqb_eq : forall a b, ex_eqb a b = true <-> a = b.
Proof.
  intros [n1 h1] [n2 h2]. unfold ex_eqb. simpl. rewrite andb_true_iff, Nat.eqb_eq, ls_eqb_eq.
  split. intros [A B]; subst; reflexivity. intro H; inversion H; auto.
Qed.

Lemma ex_union_In : forall add l x, In x (ex_union l add) <-> In x l \/ In x add.
Proof.
  induction add as [|a add IH]; intros l x; simpl.
  - tauto.
  - destruct (existsb (ex_eqb a) l) eqn:Hm.
    + rewrite IH. apply existsb_exists in Hm. destruct Hm as [y [Hy He]]. apply ex_eqb_eq in He. subst y.
      split; intros [H|H]; auto. destruct H as [H|H]; subst; auto.
    + rewrite IH. rewrite in_app_iff. simpl. tauto.
Qed.

Lemma ex_dedup_In : forall l x, In x (ex_dedup l) <-> In x l.
Proof. intros. unfold ex_dedup. rewrite ex_union_In. simpl. tauto. Qed.

Lemma exits0_In : forall l h, In h (exits0 l) <-> In (0, h) l.
Proof.
  intros l h. unfold exits0. rewrite in_flat_map. split.
  - intros [[n h'] [Hin H]]. simpl in H. destruct n; simpl in H; [destruct H as [H|[]]; subst; exact Hin | destruct H].
  - intro Hin. exists (0, h). split. exact Hin. simpl. auto.
Qed.

Lemma exitsS_In : forall l n h, In (n, h) (exitsS l) <-> In (S n, h) l.
Proof.
  intros l n h. unfold exitsS. rewrite in_flat_map. split.
  - intros [[n' h'] [Hin H]]. simpl in H. destruct n'; simpl in H; [destruct H | destruct H as [H|[]]; inversion H; subst; exact Hin].
  - intro Hin. exists (S n, h). split. exact Hin. simpl. auto.
Qed.

Lemma loop_iter_incl : forall fuel step L x, In x L -> In x (loop_iter fuel step L).
Proof.
  induction fuel as [|n IH]; intros step L x Hin; simpl.
  - exact Hin.
  - destruct (Nat.eqb _ _). exact Hin. apply IH. apply ls_union_In. auto.
Qed.

Lemma tbl_find_In : forall T f h xs, tbl_find T f h = Some xs ->
  exists e, In e T /\ e_fn e = f /\ e_in e = h /\ e_out e = xs.
Proof.
  induction T as [|e T IH]; intros f h xs H; simpl in H.
  - discriminate.
  - destruct (Nat.eqb (e_fn e) f && ls_eqb (e_in e) h) eqn:E.
    + inversion H; subst. apply andb_true_iff in E. destruct E as [E1 E2].
      apply Nat.eqb_eq in E1. apply ls_eqb_eq in E2. exists e. simpl. auto.
    + destruct (IH _ _ _ H) as [e' [Hin R]]. exists e'. simpl. auto.
Qed.

Lemma pop_blocks_stmt : forall n s k, pop_blocks n (KStmt s :: k) = pop_blocks n k.
Proof. reflexivity. Qed.

(* ---------------------------------------------------------------- soundness of the verifier *)

Section Sound.
  Variable p : lg_program.
  Variable v : nat -> bool.
  Variable fuel : nat.
  Variable chk : atom -> lockset -> bool.
  Variable T : table.
  Hypothesis Hver : lc_verify p v fuel chk T = true.

  Let ai := ainterp (tbl_X T) v fuel.
  Let ok := okev chk T.
  Let h0 := ls_empty (lg_p_nmutex p).

  (* a continuation is well-typed from a lock set: everything it can still do has been checked *)
  Inductive wtK : cont -> lockset -> Prop :=
  | wtK_nil : wtK [] h0
  | wtK_blk : forall k h, wtK k h -> wtK (KBlk :: k) h
  | wtK_stmt : forall s k h,
      (forall e, In e (r_ev (ai s h)) -> ok e = true) ->
      (forall h', In h' (r_norm (ai s h)) -> wtK k h') ->
      (forall n h', In (n, h') (r_exit (ai s h)) -> wtK (pop_blocks n k) h') ->
      wtK (KStmt s :: k) h
  | wtK_loop : forall b k h L,
      In h L ->
      (forall h1, In h1 L ->
         (forall e, In e (r_ev (ai b h1)) -> ok e = true) /\
         (forall h', In h' (r_norm (ai b h1)) -> In h' L) /\
         (forall n h', In (n, h') (r_exit (ai b h1)) -> wtK (pop_blocks n k) h')) ->
      (forall h1, In h1 L -> wtK k h1) ->
      wtK (KStmt (SLoop b) :: k) h.

  (* every well-typed loop continuation has an invariant *)
  Lemma wtK_loop_inv : forall b k h, wtK (KStmt (SLoop b) :: k) h ->
    exists L, In h L /\
      (forall h1, In h1 L ->
         (forall e, In e (r_ev (ai b h1)) -> ok e = true) /\
         (forall h', In h' (r_norm (ai b h1)) -> In h' L) /\
         (forall n h', In (n, h') (r_exit (ai b h1)) -> wtK (pop_blocks n k) h')) /\
      (forall h1, In h1 L -> wtK k h1).
  Proof.
    intros b k h H. inversion H as [| |s k' h' Hev Hn Hx|b' k' h' L HinL Hbody Hk]; subst.
    - (* from the interpreter's fixpoint *)
      unfold ai in Hev, Hn, Hx. simpl in Hev, Hn, Hx.
      set (L := loop_iter fuel (fun h' => r_norm (ainterp (tbl_X T) v fuel b h')) [h]) in *.
      destruct (forallb (fun r => forallb (fun h' => ls_mem h' L) (r_norm r)) (map (ainterp (tbl_X T) v fuel b) L)) eqn:Hc.
      + simpl in Hev, Hn, Hx. exists L. split; [|split].
        * apply loop_iter_incl. simpl. auto.
        * intros h1 Hh1. split; [|split].
          -- intros e He. apply Hev. apply in_flat_map. exists (ainterp (tbl_X T) v fuel b h1). split.
             apply in_map. exact Hh1. exact He.
          -- intros h' Hh'. rewrite forallb_forall in Hc.
             specialize (Hc (ainterp (tbl_X T) v fuel b h1) (in_map _ _ _ Hh1)).
             rewrite forallb_forall in Hc. apply ls_mem_In. apply Hc. exact Hh'.
          -- intros n h' Hx'. apply Hx. apply ex_dedup_In. apply in_flat_map.
             exists (ainterp (tbl_X T) v fuel b h1). split. apply in_map. exact Hh1. exact Hx'.
        * intros h1 Hh1. apply Hn. exact Hh1.
      + simpl in Hev. specialize (Hev (EFuel, h) (or_introl eq_refl)). discriminate.
    - exists L. auto.
  Qed.

  Lemma entry_of_call : forall f h, tbl_has T f h = true ->
    (forall e, In e (r_ev (ai (lg_body p f) h)) -> ok e = true) /\
    r_exit (ai (lg_body p f) h) = [] /\
    (forall h', In h' (r_norm (ai (lg_body p f) h)) -> In h' (tbl_X T f h)).
  Proof.
    intros f h Hhas. unfold tbl_has in Hhas. destruct (tbl_find T f h) as [xs|] eqn:Hf; [|discriminate].
    destruct (tbl_find_In _ _ _ _ Hf) as [e [Hin [Ef [Ei Eo]]]].
    unfold lc_verify in Hver. apply andb_true_iff in Hver. destruct Hver as [_ Hent].
    rewrite forallb_forall in Hent. specialize (Hent e Hin). unfold entry_ok in Hent.
    rewrite Ef, Ei, Eo in Hent. unfold run_entry in Hent.
    apply andb_true_iff in Hent. destruct Hent as [Hent Hnorm]. apply andb_true_iff in Hent. destruct Hent as [Hev Hex].
    split; [|split].
    - intros e' He'. rewrite forallb_forall in Hev. apply Hev. exact He'.
    - unfold ai. destruct (r_exit (ainterp (tbl_X T) v fuel (lg_body p f) h)). reflexivity. discriminate.
    - intros h' Hh'. rewrite forallb_forall in Hnorm. unfold tbl_X. rewrite Hf. apply ls_mem_In. apply Hnorm. exact Hh'.
  Qed.

  Lemma wtK_preserved : forall t t', tstep p v t t' -> wtK (fst t) (snd t) -> wtK (fst t') (snd t').
  Proof.
    intros t t' Hs. destruct Hs; simpl; intro W.
    - (* skip *)
      inversion W as [| |s k' h' Hev Hn Hx|]; subst. apply Hn. simpl. auto.
    - (* atom *)
      inversion W as [| |s k' h' Hev Hn Hx|]; subst. apply Hn. simpl. auto.
    - (* call *)
      inversion W as [| |s k' h' Hev Hn Hx|]; subst.
      assert (Hhas : tbl_has T f h = true).
      { specialize (Hev (ECall f, h)). simpl in Hev. apply Hev. auto. }
      destruct (entry_of_call f h Hhas) as [Eev [Eex Enorm]].
      apply wtK_stmt.
      + exact Eev.
      + intros h' Hh'. apply Hn. simpl. apply Enorm. exact Hh'.
      + intros n h' Hin. rewrite Eex in Hin. destruct Hin.
    - (* seq *)
      inversion W as [| |s k' h' Hev Hn Hx|]; subst. unfold ai in Hev, Hn, Hx. simpl in Hev, Hn, Hx.
      apply wtK_stmt.
      + intros e He. apply Hev. apply in_or_app. left. exact He.
      + intros h' Hh'. apply wtK_stmt.
        * intros e He. apply Hev. apply in_or_app. right. apply in_flat_map.
          exists (ainterp (tbl_X T) v fuel b h'). split. apply in_map. exact Hh'. exact He.
        * intros h'' Hh''. apply Hn. apply ls_dedup_In. apply in_flat_map.
          exists (ainterp (tbl_X T) v fuel b h'). split. apply in_map. exact Hh'. exact Hh''.
        * intros n h'' Hx''. apply Hx. apply ex_dedup_In. apply in_or_app. right. apply in_flat_map.
          exists (ainterp (tbl_X T) v fuel b h'). split. apply in_map. exact Hh'. exact Hx''.
      + intros n h' Hx'. rewrite pop_blocks_stmt. apply Hx. apply ex_dedup_In. apply in_or_app. left. exact Hx'.
    - (* choice left *)
      inversion W as [| |s k' h' Hev Hn Hx|]; subst. unfold ai in Hev, Hn, Hx. simpl in Hev, Hn, Hx.
      apply wtK_stmt.
      + intros e He. apply Hev. apply in_or_app. left. exact He.
      + intros h' Hh'. apply Hn. apply ls_dedup_In. apply in_or_app. left. exact Hh'.
      + intros n h' Hx'. apply Hx. apply ex_dedup_In. apply in_or_app. left. exact Hx'.
    - (* choice right *)
      inversion W as [| |s k' h' Hev Hn Hx|]; subst. unfold ai in Hev, Hn, Hx. simpl in Hev, Hn, Hx.
      apply wtK_stmt.
      + intros e He. apply Hev. apply in_or_app. right. exact He.
      + intros h' Hh'. apply Hn. apply ls_dedup_In. apply in_or_app. right. exact Hh'.
      + intros n h' Hx'. apply Hx. apply ex_dedup_In. apply in_or_app. right. exact Hx'.
    - (* loop exit *)
      destruct (wtK_loop_inv _ _ _ W) as [L [HinL [_ Hk]]]. apply Hk. exact HinL.
    - (* loop enter *)
      destruct (wtK_loop_inv _ _ _ W) as [L [HinL [Hbody Hk]]].
      destruct (Hbody h HinL) as [Bev [Bn Bx]].
      apply wtK_stmt.
      + exact Bev.
      + intros h' Hh'. apply wtK_loop with (L := L). apply Bn. exact Hh'. exact Hbody. exact Hk.
      + intros n h' Hx'. rewrite pop_blocks_stmt. apply Bx. exact Hx'.
    - (* block *)
      inversion W as [| |s k' h' Hev Hn Hx|]; subst. unfold ai in Hev, Hn, Hx. simpl in Hev, Hn, Hx.
      apply wtK_stmt.
      + exact Hev.
      + intros h' Hh'. apply wtK_blk. apply Hn. apply ls_dedup_In. apply in_or_app. left. exact Hh'.
      + intros n h' Hx'. destruct n as [|n]; simpl.
        * apply Hn. apply ls_dedup_In. apply in_or_app. right. apply exits0_In. exact Hx'.
        * apply Hx. apply exitsS_In. exact Hx'.
    - (* end of block *)
      inversion W; subst. assumption.
    - (* exit *)
      inversion W as [| |s k' h' Hev Hn Hx|]; subst. apply Hx. simpl. auto.
    - (* flag *)
      inversion W as [| |s k' h' Hev Hn Hx|]; subst. unfold ai in Hev, Hn, Hx. simpl in Hev, Hn, Hx.
      apply wtK_stmt; unfold ai; destruct (v fl); assumption.
  Qed.

  Lemma wtK_init : forall r, In r (lg_p_roots p) -> wtK (fst (tinit p r)) (snd (tinit p r)).
  Proof.
    intros r Hr. unfold tinit. simpl. fold h0.
    unfold lc_verify in Hver. apply andb_true_iff in Hver. destruct Hver as [Hroots _].
    rewrite forallb_forall in Hroots. specialize (Hroots r Hr). unfold root_ok in Hroots. fold h0 in Hroots.
    destruct (tbl_find T r h0) as [xs|] eqn:Hf; [|discriminate].
    apply wtK_stmt.
    - intros e He. simpl in He. destruct He as [He|[]]. subst e. unfold ok, okev. simpl. unfold tbl_has. rewrite Hf. reflexivity.
    - intros h' Hh'. unfold ai in Hh'. simpl in Hh'. unfold tbl_X in Hh'. rewrite Hf in Hh'.
      rewrite forallb_forall in Hroots. specialize (Hroots h' Hh'). apply ls_eqb_eq in Hroots. subst h'. apply wtK_nil.
    - intros n h' Hx. simpl in Hx. destruct Hx.
  Qed.

  Lemma wtK_reachable : forall r t, In r (lg_p_roots p) -> tsteps p v (tinit p r) t -> wtK (fst t) (snd t).
  Proof.
    intros r t Hr Hs. pose proof (wtK_init r Hr) as W0.
    induction Hs as [t|t1 t2 t3 Hs IH Hst].
    - exact W0.
    - eapply wtK_preserved. exact Hst. apply IH. exact W0.
  Qed.

  (* (i) the lock set a goroutine holds when it reaches an atom is one the checker has examined *)
  Theorem lc_sound_locksets : forall r k h,
    In r (lg_p_roots p) -> tsteps p v (tinit p r) (k, h) ->
    (forall a k', k = KStmt (SAtom a) :: k' -> atom_ok a h = true /\ chk a h = true) /\
    (k = [] -> h = ls_empty (lg_p_nmutex p)).
  Proof.
    intros r k h Hr Hs. pose proof (wtK_reachable r (k, h) Hr Hs) as W. simpl in W. split.
    - intros a k' Ek. subst k. inversion W as [| |s k0 h' Hev Hn Hx|]; subst.
      specialize (Hev (EAtom a, h)). unfold ai in Hev. simpl in Hev.
      assert (E : ok (EAtom a, h) = true) by (apply Hev; auto).
      unfold ok, okev in E. simpl in E. apply andb_true_iff in E. exact E.
    - intro Ek. subst k. inversion W. reflexivity.
  Qed.
End Sound.

(* ---------------------------------------------------------------- (ii) no lock deadlock *)

Lemma held_In : forall h m, In m (held h) <-> is_free (ls_get m h) = false.
Proof.
  intros h m. unfold held. rewrite in_flat_map. split.
  - intros [i [Hi H]]. destruct (is_free (ls_get i h)) eqn:E; simpl in H. destruct H. destruct H as [H|[]]. subst. exact E.
  - intro Hf. exists m. split.
    + apply in_seq. split. lia. simpl.
      destruct (Nat.lt_ge_cases m (length h)) as [Hlt|Hge]. exact Hlt.
      unfold ls_get in Hf. rewrite nth_overflow in Hf by exact Hge. discriminate.
    + rewrite Hf. simpl. auto.
Qed.

Section Deadlock.
  Variable p : lg_program.
  Variable v : nat -> bool.
  Variable fuel : nat.
  Variable ws : list waiver.
  Variable ung urd : list nat.
  Variable rank : list nat.
  Variable guards : list (nat * list nat).
  Variable atomics : list nat.
  Variable T : table.
  Hypothesis Hver : lc_verify p v fuel (lc_chk p ws ung urd rank guards atomics) T = true.

  Definition treach (t : tstate) : Prop := exists r, In r (lg_p_roots p) /\ tsteps p v (tinit p r) t.

  Definition holds (t : tstate) (m : nat) : Prop := is_free (ls_get m (snd t)) = false.

  (* t cannot proceed because of t': t wants a mutex t' holds (in any mode), or t wants to read-lock
     a mutex for which t' is a pending writer (Go's RWMutex blocks new readers then) *)
  Definition waits_for (t t' : tstate) : Prop :=
    exists m,
      ((next_atom t = Some (ALock m) \/ next_atom t = Some (ARLock m)) /\ holds t' m) \/
      (next_atom t = Some (ARLock m) /\ next_atom t' = Some (ALock m)).

  Definition rk (m : nat) : nat := nth m rank 0.

  (* potential: twice the rank of the awaited mutex, plus one for a writer *)
  Definition phi (t : tstate) : nat :=
    match next_atom t with
    | Some (ALock m) => 2 * rk m + 1
    | Some (ARLock m) => 2 * rk m
    | _ => 0
    end.

  Lemma acquire_rank : forall t m, treach t ->
    (next_atom t = Some (ALock m) \/ next_atom t = Some (ARLock m)) ->
    forall m1, holds t m1 -> rk m1 < rk m.
  Proof.
    intros [k h] m [r [Hr Hs]] Hnext m1 Hh.
    destruct (lc_sound_locksets p v fuel _ T Hver r k h Hr Hs) as [Hat _].
    unfold next_atom in Hnext. simpl in Hnext.
    destruct k as [|[s|] k']; try (destruct Hnext; discriminate).
    destruct s; try (destruct Hnext; discriminate).
    destruct (Hat a k' eq_refl) as [_ Hc].
    assert (Hord : chk_order rank m h = true).
    { destruct Hnext as [E|E]; inversion E; subst a; simpl in Hc; exact Hc. }
    unfold chk_order in Hord. rewrite forallb_forall in Hord.
    unfold holds in Hh. simpl in Hh. apply held_In in Hh. specialize (Hord m1 Hh).
    apply Nat.ltb_lt in Hord. exact Hord.
  Qed.

  Lemma waits_phi : forall t t', treach t' -> waits_for t t' ->
    (exists m', next_atom t' = Some (ALock m') \/ next_atom t' = Some (ARLock m')) ->
    phi t < phi t'.
  Proof.
    intros t t' Hr' [m [[Hacq Hh]|[Hrd Hwr]]] [m' Hacq'].
    - pose proof (acquire_rank t' m' Hr' Hacq' m Hh) as Hlt.
      unfold phi. destruct Hacq as [E|E]; rewrite E; destruct Hacq' as [E'|E']; rewrite E'; lia.
    - unfold phi. rewrite Hrd, Hwr. lia.
  Qed.

  Lemma max_phi : forall (S : list tstate), S <> [] -> exists t, In t S /\ forall t', In t' S -> phi t' <= phi t.
  Proof.
    induction S as [|a S IH]; intro Hne. congruence.
    destruct S as [|b S'].
    - exists a. split. simpl; auto. intros t' [E|[]]. subst. lia.
    - destruct IH as [t [Hin Hmax]]. discriminate.
      destruct (le_lt_dec (phi a) (phi t)) as [Hle|Hlt].
      + exists t. split. right. exact Hin. intros t' [E|Hin']. subst. exact Hle. apply Hmax. exact Hin'.
      + exists a. split. left. reflexivity. intros t' [E|Hin']. subst. lia. specialize (Hmax t' Hin'). lia.
  Qed.

  (* no non-empty set of reachable goroutines in which every member waits for a member:
     the member awaiting the mutex of highest rank waits for someone awaiting a higher one *)
  Theorem lc_no_lock_deadlock : forall (S : list tstate),
    S <> [] -> (forall t, In t S -> treach t) ->
    ~ (forall t, In t S -> exists t', In t' S /\ waits_for t t').
  Proof.
    intros S Hne Hreach Hdead.
    destruct (max_phi S Hne) as [t [Hin Hmax]].
    destruct (Hdead t Hin) as [t' [Hin' Hw]].
    destruct (Hdead t' Hin') as [t'' [_ Hw']].
    assert (Hacq' : exists m', next_atom t' = Some (ALock m') \/ next_atom t' = Some (ARLock m')).
    { destruct Hw' as [m' [[Hacq _]|[Hrd _]]]; exists m'; tauto. }
    pose proof (waits_phi t t' (Hreach t' Hin') Hw Hacq') as Hlt.
    specialize (Hmax t' Hin'). lia.
  Qed.

  (* the same for the goroutines of any configuration reached under any scheduling / blocking policy *)
  Lemma upd_In : forall (c : config) i (x y : tstate), In y (upd i x c) -> y = x \/ In y c.
  Proof.
    induction c as [|a c IH]; intros i x y H.
    - destruct i; simpl in H; destruct H.
    - destruct i; simpl in H; destruct H as [H|H]; subst; simpl; auto.
      destruct (IH _ _ _ H); auto.
  Qed.

  Lemma greachable_treach : forall enabled c, greachable p v enabled c -> forall t, In t c -> treach t.
  Proof.
    intros enabled c [c0 [Hinit Hsteps]]. induction Hsteps as [c|c1 c2 c3 Hs IH Hg].
    - intros t Hin. unfold ginit in Hinit. rewrite Forall_forall in Hinit.
      destruct (Hinit t Hin) as [r [Hr E]]. subst. exists r. split. exact Hr. apply tss_refl.
    - intros t Hin. specialize (IH Hinit). destruct Hg as [c i t0 t1 Hnth Hen Hst].
      destruct (upd_In _ _ _ _ Hin) as [E|Hin'].
      + subst t. apply nth_error_In in Hnth. destruct (IH t0 Hnth) as [r [Hr Hs0]].
        exists r. split. exact Hr. eapply tss_step. exact Hs0. exact Hst.
      + apply IH. exact Hin'.
  Qed.

  Theorem lc_no_lock_deadlock_config : forall enabled c, greachable p v enabled c ->
    forall S, S <> [] -> incl S c -> ~ (forall t, In t S -> exists t', In t' S /\ waits_for t t').
  Proof.
    intros enabled c Hg S Hne Hincl. apply lc_no_lock_deadlock. exact Hne.
    intros t Hin. eapply greachable_treach. exact Hg. apply Hincl. exact Hin.
  Qed.
End Deadlock.

(* ---------------------------------------------------------------- what [discipline_ok_with] gives *)

Lemma discipline_ok_run : forall ws ung urd p v, discipline_ok_with ws ung urd p = true ->
  In v (all_valuations (lg_p_nflags p)) ->
  lc_verify p v lc_fuel (lc_chk p ws ung urd (lcr_rank (lc_run p ws ung urd v)) (lcr_guards (lc_run p ws ung urd v))
                                (lcr_atomics (lc_run p ws ung urd v)))
            (lcr_table (lc_run p ws ung urd v)) = true.
Proof.
  intros ws ung urd p v H Hin. unfold discipline_ok_with in H. rewrite forallb_forall in H.
  specialize (H v Hin). unfold lc_run in *. simpl in *. apply andb_true_iff in H. destruct H as [H _]. exact H.
Qed.

(* what a goroutine started on a root can be about to do, for the flag valuations the checker enumerates *)
Definition about_to (p : lg_program) (v : nat -> bool) (a : atom) (h : lockset) : Prop :=
  exists r k, In r (lg_p_roots p) /\ tsteps p v (tinit p r) (KStmt (SAtom a) :: k, h).

Theorem discipline_sound : forall ws ung urd p v, discipline_ok_with ws ung urd p = true ->
  In v (all_valuations (lg_p_nflags p)) ->
  forall a h, about_to p v a h ->
    atom_ok a h = true /\
    lc_chk p ws ung urd (lcr_rank (lc_run p ws ung urd v)) (lcr_guards (lc_run p ws ung urd v))
           (lcr_atomics (lc_run p ws ung urd v)) a h = true.
Proof.
  intros ws ung urd p v H Hin a h [r [k [Hr Hs]]].
  destruct (lc_sound_locksets p v lc_fuel _ _ (discipline_ok_run ws ung urd p v H Hin) r _ h Hr Hs) as [Hat _].
  exact (Hat a k eq_refl).
Qed.

Theorem discipline_sound_exit : forall ws ung urd p v, discipline_ok_with ws ung urd p = true ->
  In v (all_valuations (lg_p_nflags p)) ->
  forall r h, In r (lg_p_roots p) -> tsteps p v (tinit p r) ([], h) -> h = ls_empty (lg_p_nmutex p).
Proof.
  intros ws ung urd p v H Hin r h Hr Hs.
  destruct (lc_sound_locksets p v lc_fuel _ _ (discipline_ok_run ws ung urd p v H Hin) r _ h Hr Hs) as [_ Hk].
  apply Hk. reflexivity.
Qed.

(* user code, the user's net.Conn and blocking operations: every mutex held then is explicitly waived *)
Lemma lc_chk_no_lock : forall p ws ung urd rank guards atomics k o h,
  needs_no_lock k = true -> lc_chk p ws ung urd rank guards atomics (AAct k o) h = true ->
  forall m, is_free (ls_get m h) = false -> waived ws k o m = true.
Proof.
  intros p ws ung urd rank guards atomics k o h Hk Hc m Hm.
  assert (E : forallb (fun m => waived ws k o m) (held h) = true).
  { destruct k; simpl in Hk; try discriminate; simpl in Hc; exact Hc. }
  rewrite forallb_forall in E. apply E. apply held_In. exact Hm.
Qed.

Theorem discipline_user_code_unlocked : forall ws ung urd p v, discipline_ok_with ws ung urd p = true ->
  In v (all_valuations (lg_p_nflags p)) ->
  forall k o h, needs_no_lock k = true -> about_to p v (AAct k o) h ->
  forall m, is_free (ls_get m h) = false -> waived ws k o m = true.
Proof.
  intros ws ung urd p v H Hin k o h Hk Hab m Hm.
  destruct (discipline_sound ws ung urd p v H Hin _ _ Hab) as [_ Hc].
  eapply lc_chk_no_lock; eassumption.
Qed.

(* every non-atomic write of a field happens with the field's inferred guard held for writing *)
Theorem discipline_writes_guarded : forall ws ung urd p v, discipline_ok_with ws ung urd p = true ->
  In v (all_valuations (lg_p_nflags p)) ->
  forall o h, about_to p v (AAct KWrite o) h ->
  forall m rest, guard_of (lcr_guards (lc_run p ws ung urd v)) o = Some (m :: rest) -> is_write (ls_get m h) = true.
Proof.
  intros ws ung urd p v H Hin o h Hab m rest Hg.
  destruct (discipline_sound ws ung urd p v H Hin _ _ Hab) as [_ Hc].
  unfold lc_chk in Hc. rewrite Hg in Hc. apply andb_true_iff in Hc. destruct Hc as [_ Hc]. exact Hc.
Qed.

(* every plain read of a guarded field holds one of the mutexes that all writers of the field hold
   (in either mode), except the listed fields *)
Theorem discipline_reads_guarded : forall ws ung urd p v, discipline_ok_with ws ung urd p = true ->
  In v (all_valuations (lg_p_nflags p)) ->
  forall o h, about_to p v (AAct KRead o) h ->
  forall m rest, guard_of (lcr_guards (lc_run p ws ung urd v)) o = Some (m :: rest) ->
  existsb (Nat.eqb o) urd = false ->
  exists m', In m' (m :: rest) /\ is_free (ls_get m' h) = false.
Proof.
  intros ws ung urd p v H Hin o h Hab m rest Hg Hnw.
  destruct (discipline_sound ws ung urd p v H Hin _ _ Hab) as [_ Hc].
  unfold lc_chk in Hc. rewrite Hg, Hnw in Hc. rewrite orb_false_r in Hc.
  apply existsb_exists in Hc. destruct Hc as [m' [Hm' Hf]]. exists m'. split. exact Hm'.
  apply negb_true_iff in Hf. exact Hf.
Qed.

(* ... and such a field is never also accessed through sync/atomic *)
Theorem discipline_writes_not_atomic : forall ws ung urd p v, discipline_ok_with ws ung urd p = true ->
  In v (all_valuations (lg_p_nflags p)) ->
  forall o h, about_to p v (AAct KWrite o) h ->
  existsb (Nat.eqb o) (lcr_atomics (lc_run p ws ung urd v)) = false.
Proof.
  intros ws ung urd p v H Hin o h Hab.
  destruct (discipline_sound ws ung urd p v H Hin _ _ Hab) as [_ Hc].
  unfold lc_chk in Hc. apply andb_true_iff in Hc. destruct Hc as [Hc _]. apply negb_true_iff in Hc. exact Hc.
Qed.

Theorem discipline_no_lock_deadlock : forall ws ung urd p v, discipline_ok_with ws ung urd p = true ->
  In v (all_valuations (lg_p_nflags p)) ->
  forall enabled c, greachable p v enabled c ->
  forall S, S <> [] -> incl S c ->
  ~ (forall t, In t S -> exists t', In t' S /\ waits_for t t').
Proof.
  intros ws ung urd p v H Hin enabled c Hg S Hne Hincl.
  eapply lc_no_lock_deadlock_config.
  - exact (discipline_ok_run ws ung urd p v H Hin).
  - exact Hg.
  - exact Hne.
  - exact Hincl.
Qed.

(* the names used in DESIGN.md / the work order *)
Definition lc_checker_sound_locksets := lc_sound_locksets.
Definition lc_acyclic_order_no_lock_deadlock := lc_no_lock_deadlock_config.
