"""Helpers shared by the properties that use the association simulator (go/inpkg/zz_verif_sim*_test.go)."""
import re
import vlib


def classify(prop):
    def f(line):
        m = re.search(r"\(([a-z0-9-]+)\)", line)
        return "sim-%s-%s" % (prop, m.group(1)) if m else "sim-%s" % prop
    return f


def sim_monitor(ctx, name, test, env, summary_prefix, timeout=3000):
    """Run a simulator test and collect the SIMFAIL lines of this property as concrete failing inputs."""
    return vlib.monitor(ctx, name, test, env, fail_prefixes=("SIMFAIL prop=%s " % ctx.prop,),
                        classify=classify(ctx.prop), summary_prefix=summary_prefix, timeout=timeout)


def transfer(ctx, quick=60, thorough=2500, events=250):
    return sim_monitor(ctx, "sim-transfer", "TestVerifSimTransfer",
                       {"VERIF_N": ctx.scale(quick, thorough), "VERIF_EVENTS": events}, "SIMTRANSFER")


def wire_sack_monitor(ctx):
    """P_C05 on the wire history of simulated runs (SIMFAIL prop=C05 lines of the transfer scenarios)."""
    return transfer(ctx)
