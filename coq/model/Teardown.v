(* Executable model of association teardown in pion/sctp (property C09).  No proofs in this file.

   One association.  Its goroutines and the API callers blocked on it are small program-counter automata
   over a shared abstract state; the system step relation is the interleaving of all enabled automata
   steps.  Channels that are only ever closed are booleans (closed or not); sync.Once guards are separate
   booleans exactly as in the code; closing a closed channel sets td_panic.

     readLoop    association.go readLoop + deferred exit path, handleAbort, handleShutdownComplete,
                 completeHandshake (blocks under a.lock)
     writeLoop   association.go writeLoop, gatherOutbound (abstracted: which kind of batch it returns)
     timerLoop   exits on closeWriteLoopCh
     timers      rtx/ack timer callbacks (awakeWriteLoop under a.lock) until closeAllTimers;
                 onRetransmissionFailure of T1 -> completeHandshake
     callers     Client/Server wait, ReadSCTP (condition variable), blocking WriteSCTP (writeNotify),
                 AcceptStream, Shutdown, Close (twice), Abort
     environment the one injection of the family (Close call, Abort call, conn.Read failing, conn.Write
                 failing, inbound ABORT), inbound packets of the phase

   a.lock is the boolean td_lk: steps that lock, do something and unlock without blocking in between are
   single steps enabled when the lock is free; the holders that do block or that are split into several
   steps (completeHandshake, a.close() inside a handler, the read loop's exit path) keep td_lk set.
   Stream locks are not modelled separately: set readErr + Broadcast is one step, check readErr + Wait is
   one step (sync.Cond's contract). *)
From Coq Require Import Bool List PArith NArith FSets.FSetPositive FSets.FMapPositive.
From Sctp Require Import Gen.
Import ListNotations.

(* ------------------------------------------------------------------------------------------
   Program counters, abstract values, the state record, its setters and the injective key.
   (Mechanical part: one constructor per program point; td_<type>_enc prepends the fixed-width binary code
   of a value to a positive; td_set_<field> replaces one field.)

   td_ast   abstraction of a.state: handshake states / established / shutdown states / closed
   td_err   closeErr of the read loop = readErr of the streams: none, the error conn.Read returned,
            the error built by handleAbort from the ABORT's causes (two distinguishable causes)
   td_cl    the four effects of a.close() in program order
   td_rlpc  readLoop: TdRlRead blocked in conn.Read; TdRlHs in completeHandshake (a.lock held);
            TdRlAb0-3 handleAbort's a.close() (lock held); TdRlSc0-3 handleShutdownComplete's a.close();
            TdRlX1-7 the deferred exit path: close closeWriteLoopCh (Once), lock, setState(closed),
            unregister streams (readErr, Broadcast), unblockPendingWrites + unlock, close(acceptCh),
            close(readLoopCloseCh)
   td_wlpc  writeLoop: gathering; writing (the ABORT / last of a batch / first of two / SHUTDOWN-COMPLETE);
            a.close() after ok=false; select on {awake, closeWriteLoop}; the abort-pending check;
            closeNetConn after a write error; setState(closed); closeAllTimers
   td_tfpc  T1 failure callback: not fired, fired (wants a.lock), in completeHandshake (lock held), done
   td_cwpc, td_rdpc, td_wrpc, td_acpc, td_shpc   the callers blocked in Client/Server, ReadSCTP,
            blocking WriteSCTP, AcceptStream, Shutdown and what they returned; the connect call that received
            a handshake error runs assoc.Close() (TdCwErrCl0-3, TdCwErrWait) before it returns the error
            (TdCwHsErr); Shutdown, woken by closeWriteLoopCh (TdShWoken), reads shutdownCompleted under the
            lock: nil (TdShNil) or ErrShutdownIncomplete (TdShErr)
   td_ccpc  Close(): not called, the four steps of a.close(), waiting for readLoopCloseCh, returned
   td_abpc  Abort(): set flag (lock), awake, wait abortSentCh|200ms, SetReadDeadline(now),
            wait readLoopCloseCh, wait abortSentCh|200ms, returned
   td_dlpc  the goroutine of Stream.SetReadDeadline: none, armed (waits for readTimeoutCancel or the deadline), ended
   td_cnt   conn.Write attempts after this side closed the conn (saturating at 2)

   state fields: td_rl td_wl td_tl (timerLoop exited) td_tf td_cw td_rd td_wr td_ac td_sh td_c1 td_c2 td_ab
   td_st td_cerr (closeErr) td_rerr (readErr) td_pab (cause of the ABORT the environment delivered) td_wac
   td_connc (netConn closed by this side) td_rfail/td_wfail (transport fails reads/writes) td_rdl (read
   deadline passed) td_cwl/td_cwlo (closeWriteLoopCh closed / its Once) td_rlc (readLoopCloseCh) td_acc
   (acceptCh) td_abs/td_abso (abortSentCh / its Once) td_awake (awakeWriteLoopCh holds a token) td_lk (a.lock
   held) td_wsa (willSendAbort) td_tcl (closeAllTimers done) td_sdc (shutdownCompleted) td_dlc (readTimeoutCancel closed) td_panic (a closed channel was closed again)
   td_injd (the environment's injection happened)
   ------------------------------------------------------------------------------------------ *)
Inductive td_phase := TdPhHs | TdPhEst | TdPhSd.
Inductive td_ast := TdStHs | TdStEst | TdStSd | TdStClosed.
Inductive td_err := TdCeNone | TdCeRead | TdCeAbort0 | TdCeAbort1.
Inductive td_cl := TdCl0 | TdCl1 | TdCl2 | TdCl3.
Inductive td_rlpc := TdRlRead | TdRlHs | TdRlAb0 | TdRlAb1 | TdRlAb2 | TdRlAb3 | TdRlSc0 | TdRlSc1 | TdRlSc2 | TdRlSc3 | TdRlX1 | TdRlX2 | TdRlX3 | TdRlX4 | TdRlX5 | TdRlX6 | TdRlX7 | TdRlDone.
Inductive td_wlpc := TdWlGather | TdWlWrAbort | TdWlWr1 | TdWlWr2 | TdWlWrFin | TdWlCl0 | TdWlCl1 | TdWlCl2 | TdWlCl3 | TdWlSelect | TdWlChk | TdWlFailConn | TdWlExit1 | TdWlExit2 | TdWlDone.
Inductive td_tfpc := TdTfIdle | TdTfFired | TdTfBlocked | TdTfDone.
Inductive td_cwpc := TdCwNone | TdCwWait | TdCwOk | TdCwErrCl0 | TdCwErrCl1 | TdCwErrCl2 | TdCwErrCl3 | TdCwErrWait | TdCwHsErr | TdCwClosed.
Inductive td_rdpc := TdRdNone | TdRdParked | TdRdCheck | TdRdRetRead | TdRdRetAb0 | TdRdRetAb1 | TdRdRetData.
Inductive td_wrpc := TdWrNone | TdWrBlocked | TdWrWoken | TdWrErr | TdWrOk.
Inductive td_acpc := TdAcNone | TdAcWait | TdAcEof | TdAcStream.
Inductive td_shpc := TdShNone | TdShWait | TdShWoken | TdShNil | TdShErr.
Inductive td_ccpc := TdCcNone | TdCcCl0 | TdCcCl1 | TdCcCl2 | TdCcCl3 | TdCcWait | TdCcRet.
Inductive td_abpc := TdAbNone | TdAbFlag | TdAbAwake | TdAbWait1 | TdAbRdl | TdAbWaitRl | TdAbWait2 | TdAbRet.
Inductive td_dlpc := TdDlNone | TdDlArmed | TdDlDone.
Inductive td_cnt := TdCnt0 | TdCnt1 | TdCnt2.

Definition td_ast_enc (x : td_ast) (p : positive) : positive :=
  match x with
  | TdStHs => xO (xO p)
  | TdStEst => xO (xI p)
  | TdStSd => xI (xO p)
  | TdStClosed => xI (xI p)
  end.
Definition td_err_enc (x : td_err) (p : positive) : positive :=
  match x with
  | TdCeNone => xO (xO p)
  | TdCeRead => xO (xI p)
  | TdCeAbort0 => xI (xO p)
  | TdCeAbort1 => xI (xI p)
  end.
Definition td_rlpc_enc (x : td_rlpc) (p : positive) : positive :=
  match x with
  | TdRlRead => xO (xO (xO (xO (xO p))))
  | TdRlHs => xO (xO (xO (xO (xI p))))
  | TdRlAb0 => xO (xO (xO (xI (xO p))))
  | TdRlAb1 => xO (xO (xO (xI (xI p))))
  | TdRlAb2 => xO (xO (xI (xO (xO p))))
  | TdRlAb3 => xO (xO (xI (xO (xI p))))
  | TdRlSc0 => xO (xO (xI (xI (xO p))))
  | TdRlSc1 => xO (xO (xI (xI (xI p))))
  | TdRlSc2 => xO (xI (xO (xO (xO p))))
  | TdRlSc3 => xO (xI (xO (xO (xI p))))
  | TdRlX1 => xO (xI (xO (xI (xO p))))
  | TdRlX2 => xO (xI (xO (xI (xI p))))
  | TdRlX3 => xO (xI (xI (xO (xO p))))
  | TdRlX4 => xO (xI (xI (xO (xI p))))
  | TdRlX5 => xO (xI (xI (xI (xO p))))
  | TdRlX6 => xO (xI (xI (xI (xI p))))
  | TdRlX7 => xI (xO (xO (xO (xO p))))
  | TdRlDone => xI (xO (xO (xO (xI p))))
  end.
Definition td_wlpc_enc (x : td_wlpc) (p : positive) : positive :=
  match x with
  | TdWlGather => xO (xO (xO (xO p)))
  | TdWlWrAbort => xO (xO (xO (xI p)))
  | TdWlWr1 => xO (xO (xI (xO p)))
  | TdWlWr2 => xO (xO (xI (xI p)))
  | TdWlWrFin => xO (xI (xO (xO p)))
  | TdWlCl0 => xO (xI (xO (xI p)))
  | TdWlCl1 => xO (xI (xI (xO p)))
  | TdWlCl2 => xO (xI (xI (xI p)))
  | TdWlCl3 => xI (xO (xO (xO p)))
  | TdWlSelect => xI (xO (xO (xI p)))
  | TdWlChk => xI (xO (xI (xO p)))
  | TdWlFailConn => xI (xO (xI (xI p)))
  | TdWlExit1 => xI (xI (xO (xO p)))
  | TdWlExit2 => xI (xI (xO (xI p)))
  | TdWlDone => xI (xI (xI (xO p)))
  end.
Definition td_tfpc_enc (x : td_tfpc) (p : positive) : positive :=
  match x with
  | TdTfIdle => xO (xO p)
  | TdTfFired => xO (xI p)
  | TdTfBlocked => xI (xO p)
  | TdTfDone => xI (xI p)
  end.
Definition td_cwpc_enc (x : td_cwpc) (p : positive) : positive :=
  match x with
  | TdCwNone => xO (xO (xO (xO p)))
  | TdCwWait => xO (xO (xO (xI p)))
  | TdCwOk => xO (xO (xI (xO p)))
  | TdCwErrCl0 => xO (xO (xI (xI p)))
  | TdCwErrCl1 => xO (xI (xO (xO p)))
  | TdCwErrCl2 => xO (xI (xO (xI p)))
  | TdCwErrCl3 => xO (xI (xI (xO p)))
  | TdCwErrWait => xO (xI (xI (xI p)))
  | TdCwHsErr => xI (xO (xO (xO p)))
  | TdCwClosed => xI (xO (xO (xI p)))
  end.
Definition td_rdpc_enc (x : td_rdpc) (p : positive) : positive :=
  match x with
  | TdRdNone => xO (xO (xO p))
  | TdRdParked => xO (xO (xI p))
  | TdRdCheck => xO (xI (xO p))
  | TdRdRetRead => xO (xI (xI p))
  | TdRdRetAb0 => xI (xO (xO p))
  | TdRdRetAb1 => xI (xO (xI p))
  | TdRdRetData => xI (xI (xO p))
  end.
Definition td_wrpc_enc (x : td_wrpc) (p : positive) : positive :=
  match x with
  | TdWrNone => xO (xO (xO p))
  | TdWrBlocked => xO (xO (xI p))
  | TdWrWoken => xO (xI (xO p))
  | TdWrErr => xO (xI (xI p))
  | TdWrOk => xI (xO (xO p))
  end.
Definition td_acpc_enc (x : td_acpc) (p : positive) : positive :=
  match x with
  | TdAcNone => xO (xO p)
  | TdAcWait => xO (xI p)
  | TdAcEof => xI (xO p)
  | TdAcStream => xI (xI p)
  end.
Definition td_shpc_enc (x : td_shpc) (p : positive) : positive :=
  match x with
  | TdShNone => xO (xO (xO p))
  | TdShWait => xO (xO (xI p))
  | TdShWoken => xO (xI (xO p))
  | TdShNil => xO (xI (xI p))
  | TdShErr => xI (xO (xO p))
  end.
Definition td_ccpc_enc (x : td_ccpc) (p : positive) : positive :=
  match x with
  | TdCcNone => xO (xO (xO p))
  | TdCcCl0 => xO (xO (xI p))
  | TdCcCl1 => xO (xI (xO p))
  | TdCcCl2 => xO (xI (xI p))
  | TdCcCl3 => xI (xO (xO p))
  | TdCcWait => xI (xO (xI p))
  | TdCcRet => xI (xI (xO p))
  end.
Definition td_abpc_enc (x : td_abpc) (p : positive) : positive :=
  match x with
  | TdAbNone => xO (xO (xO p))
  | TdAbFlag => xO (xO (xI p))
  | TdAbAwake => xO (xI (xO p))
  | TdAbWait1 => xO (xI (xI p))
  | TdAbRdl => xI (xO (xO p))
  | TdAbWaitRl => xI (xO (xI p))
  | TdAbWait2 => xI (xI (xO p))
  | TdAbRet => xI (xI (xI p))
  end.
Definition td_dlpc_enc (x : td_dlpc) (p : positive) : positive :=
  match x with
  | TdDlNone => xO (xO p)
  | TdDlArmed => xO (xI p)
  | TdDlDone => xI (xO p)
  end.
Definition td_cnt_enc (x : td_cnt) (p : positive) : positive :=
  match x with
  | TdCnt0 => xO (xO p)
  | TdCnt1 => xO (xI p)
  | TdCnt2 => xI (xO p)
  end.

Record td_state := mkTd {
  td_rl : td_rlpc;
  td_wl : td_wlpc;
  td_tl : bool;
  td_tf : td_tfpc;
  td_cw : td_cwpc;
  td_rd : td_rdpc;
  td_wr : td_wrpc;
  td_ac : td_acpc;
  td_sh : td_shpc;
  td_c1 : td_ccpc;
  td_c2 : td_ccpc;
  td_ab : td_abpc;
  td_dl : td_dlpc;
  td_st : td_ast;
  td_cerr : td_err;
  td_rerr : td_err;
  td_pab : td_err;
  td_wac : td_cnt;
  td_connc : bool;
  td_rfail : bool;
  td_wfail : bool;
  td_rdl : bool;
  td_cwl : bool;
  td_cwlo : bool;
  td_rlc : bool;
  td_acc : bool;
  td_abs : bool;
  td_abso : bool;
  td_awake : bool;
  td_lk : bool;
  td_wsa : bool;
  td_tcl : bool;
  td_sdc : bool;
  td_dlc : bool;
  td_panic : bool;
  td_injd : bool
}.

Definition td_set_rl (v : td_rlpc) (s : td_state) : td_state :=
  mkTd v (td_wl s) (td_tl s) (td_tf s) (td_cw s) (td_rd s) (td_wr s) (td_ac s) (td_sh s) (td_c1 s) (td_c2 s) (td_ab s) (td_dl s) (td_st s) (td_cerr s) (td_rerr s) (td_pab s) (td_wac s) (td_connc s) (td_rfail s) (td_wfail s) (td_rdl s) (td_cwl s) (td_cwlo s) (td_rlc s) (td_acc s) (td_abs s) (td_abso s) (td_awake s) (td_lk s) (td_wsa s) (td_tcl s) (td_sdc s) (td_dlc s) (td_panic s) (td_injd s).
Definition td_set_wl (v : td_wlpc) (s : td_state) : td_state :=
  mkTd (td_rl s) v (td_tl s) (td_tf s) (td_cw s) (td_rd s) (td_wr s) (td_ac s) (td_sh s) (td_c1 s) (td_c2 s) (td_ab s) (td_dl s) (td_st s) (td_cerr s) (td_rerr s) (td_pab s) (td_wac s) (td_connc s) (td_rfail s) (td_wfail s) (td_rdl s) (td_cwl s) (td_cwlo s) (td_rlc s) (td_acc s) (td_abs s) (td_abso s) (td_awake s) (td_lk s) (td_wsa s) (td_tcl s) (td_sdc s) (td_dlc s) (td_panic s) (td_injd s).
Definition td_set_tl (v : bool) (s : td_state) : td_state :=
  mkTd (td_rl s) (td_wl s) v (td_tf s) (td_cw s) (td_rd s) (td_wr s) (td_ac s) (td_sh s) (td_c1 s) (td_c2 s) (td_ab s) (td_dl s) (td_st s) (td_cerr s) (td_rerr s) (td_pab s) (td_wac s) (td_connc s) (td_rfail s) (td_wfail s) (td_rdl s) (td_cwl s) (td_cwlo s) (td_rlc s) (td_acc s) (td_abs s) (td_abso s) (td_awake s) (td_lk s) (td_wsa s) (td_tcl s) (td_sdc s) (td_dlc s) (td_panic s) (td_injd s).
Definition td_set_tf (v : td_tfpc) (s : td_state) : td_state :=
  mkTd (td_rl s) (td_wl s) (td_tl s) v (td_cw s) (td_rd s) (td_wr s) (td_ac s) (td_sh s) (td_c1 s) (td_c2 s) (td_ab s) (td_dl s) (td_st s) (td_cerr s) (td_rerr s) (td_pab s) (td_wac s) (td_connc s) (td_rfail s) (td_wfail s) (td_rdl s) (td_cwl s) (td_cwlo s) (td_rlc s) (td_acc s) (td_abs s) (td_abso s) (td_awake s) (td_lk s) (td_wsa s) (td_tcl s) (td_sdc s) (td_dlc s) (td_panic s) (td_injd s).
Definition td_set_cw (v : td_cwpc) (s : td_state) : td_state :=
  mkTd (td_rl s) (td_wl s) (td_tl s) (td_tf s) v (td_rd s) (td_wr s) (td_ac s) (td_sh s) (td_c1 s) (td_c2 s) (td_ab s) (td_dl s) (td_st s) (td_cerr s) (td_rerr s) (td_pab s) (td_wac s) (td_connc s) (td_rfail s) (td_wfail s) (td_rdl s) (td_cwl s) (td_cwlo s) (td_rlc s) (td_acc s) (td_abs s) (td_abso s) (td_awake s) (td_lk s) (td_wsa s) (td_tcl s) (td_sdc s) (td_dlc s) (td_panic s) (td_injd s).
Definition td_set_rd (v : td_rdpc) (s : td_state) : td_state :=
  mkTd (td_rl s) (td_wl s) (td_tl s) (td_tf s) (td_cw s) v (td_wr s) (td_ac s) (td_sh s) (td_c1 s) (td_c2 s) (td_ab s) (td_dl s) (td_st s) (td_cerr s) (td_rerr s) (td_pab s) (td_wac s) (td_connc s) (td_rfail s) (td_wfail s) (td_rdl s) (td_cwl s) (td_cwlo s) (td_rlc s) (td_acc s) (td_abs s) (td_abso s) (td_awake s) (td_lk s) (td_wsa s) (td_tcl s) (td_sdc s) (td_dlc s) (td_panic s) (td_injd s).
Definition td_set_wr (v : td_wrpc) (s : td_state) : td_state :=
  mkTd (td_rl s) (td_wl s) (td_tl s) (td_tf s) (td_cw s) (td_rd s) v (td_ac s) (td_sh s) (td_c1 s) (td_c2 s) (td_ab s) (td_dl s) (td_st s) (td_cerr s) (td_rerr s) (td_pab s) (td_wac s) (td_connc s) (td_rfail s) (td_wfail s) (td_rdl s) (td_cwl s) (td_cwlo s) (td_rlc s) (td_acc s) (td_abs s) (td_abso s) (td_awake s) (td_lk s) (td_wsa s) (td_tcl s) (td_sdc s) (td_dlc s) (td_panic s) (td_injd s).
Definition td_set_ac (v : td_acpc) (s : td_state) : td_state :=
  mkTd (td_rl s) (td_wl s) (td_tl s) (td_tf s) (td_cw s) (td_rd s) (td_wr s) v (td_sh s) (td_c1 s) (td_c2 s) (td_ab s) (td_dl s) (td_st s) (td_cerr s) (td_rerr s) (td_pab s) (td_wac s) (td_connc s) (td_rfail s) (td_wfail s) (td_rdl s) (td_cwl s) (td_cwlo s) (td_rlc s) (td_acc s) (td_abs s) (td_abso s) (td_awake s) (td_lk s) (td_wsa s) (td_tcl s) (td_sdc s) (td_dlc s) (td_panic s) (td_injd s).
Definition td_set_sh (v : td_shpc) (s : td_state) : td_state :=
  mkTd (td_rl s) (td_wl s) (td_tl s) (td_tf s) (td_cw s) (td_rd s) (td_wr s) (td_ac s) v (td_c1 s) (td_c2 s) (td_ab s) (td_dl s) (td_st s) (td_cerr s) (td_rerr s) (td_pab s) (td_wac s) (td_connc s) (td_rfail s) (td_wfail s) (td_rdl s) (td_cwl s) (td_cwlo s) (td_rlc s) (td_acc s) (td_abs s) (td_abso s) (td_awake s) (td_lk s) (td_wsa s) (td_tcl s) (td_sdc s) (td_dlc s) (td_panic s) (td_injd s).
Definition td_set_c1 (v : td_ccpc) (s : td_state) : td_state :=
  mkTd (td_rl s) (td_wl s) (td_tl s) (td_tf s) (td_cw s) (td_rd s) (td_wr s) (td_ac s) (td_sh s) v (td_c2 s) (td_ab s) (td_dl s) (td_st s) (td_cerr s) (td_rerr s) (td_pab s) (td_wac s) (td_connc s) (td_rfail s) (td_wfail s) (td_rdl s) (td_cwl s) (td_cwlo s) (td_rlc s) (td_acc s) (td_abs s) (td_abso s) (td_awake s) (td_lk s) (td_wsa s) (td_tcl s) (td_sdc s) (td_dlc s) (td_panic s) (td_injd s).
Definition td_set_c2 (v : td_ccpc) (s : td_state) : td_state :=
  mkTd (td_rl s) (td_wl s) (td_tl s) (td_tf s) (td_cw s) (td_rd s) (td_wr s) (td_ac s) (td_sh s) (td_c1 s) v (td_ab s) (td_dl s) (td_st s) (td_cerr s) (td_rerr s) (td_pab s) (td_wac s) (td_connc s) (td_rfail s) (td_wfail s) (td_rdl s) (td_cwl s) (td_cwlo s) (td_rlc s) (td_acc s) (td_abs s) (td_abso s) (td_awake s) (td_lk s) (td_wsa s) (td_tcl s) (td_sdc s) (td_dlc s) (td_panic s) (td_injd s).
Definition td_set_ab (v : td_abpc) (s : td_state) : td_state :=
  mkTd (td_rl s) (td_wl s) (td_tl s) (td_tf s) (td_cw s) (td_rd s) (td_wr s) (td_ac s) (td_sh s) (td_c1 s) (td_c2 s) v (td_dl s) (td_st s) (td_cerr s) (td_rerr s) (td_pab s) (td_wac s) (td_connc s) (td_rfail s) (td_wfail s) (td_rdl s) (td_cwl s) (td_cwlo s) (td_rlc s) (td_acc s) (td_abs s) (td_abso s) (td_awake s) (td_lk s) (td_wsa s) (td_tcl s) (td_sdc s) (td_dlc s) (td_panic s) (td_injd s).
Definition td_set_dl (v : td_dlpc) (s : td_state) : td_state :=
  mkTd (td_rl s) (td_wl s) (td_tl s) (td_tf s) (td_cw s) (td_rd s) (td_wr s) (td_ac s) (td_sh s) (td_c1 s) (td_c2 s) (td_ab s) v (td_st s) (td_cerr s) (td_rerr s) (td_pab s) (td_wac s) (td_connc s) (td_rfail s) (td_wfail s) (td_rdl s) (td_cwl s) (td_cwlo s) (td_rlc s) (td_acc s) (td_abs s) (td_abso s) (td_awake s) (td_lk s) (td_wsa s) (td_tcl s) (td_sdc s) (td_dlc s) (td_panic s) (td_injd s).
Definition td_set_st (v : td_ast) (s : td_state) : td_state :=
  mkTd (td_rl s) (td_wl s) (td_tl s) (td_tf s) (td_cw s) (td_rd s) (td_wr s) (td_ac s) (td_sh s) (td_c1 s) (td_c2 s) (td_ab s) (td_dl s) v (td_cerr s) (td_rerr s) (td_pab s) (td_wac s) (td_connc s) (td_rfail s) (td_wfail s) (td_rdl s) (td_cwl s) (td_cwlo s) (td_rlc s) (td_acc s) (td_abs s) (td_abso s) (td_awake s) (td_lk s) (td_wsa s) (td_tcl s) (td_sdc s) (td_dlc s) (td_panic s) (td_injd s).
Definition td_set_cerr (v : td_err) (s : td_state) : td_state :=
  mkTd (td_rl s) (td_wl s) (td_tl s) (td_tf s) (td_cw s) (td_rd s) (td_wr s) (td_ac s) (td_sh s) (td_c1 s) (td_c2 s) (td_ab s) (td_dl s) (td_st s) v (td_rerr s) (td_pab s) (td_wac s) (td_connc s) (td_rfail s) (td_wfail s) (td_rdl s) (td_cwl s) (td_cwlo s) (td_rlc s) (td_acc s) (td_abs s) (td_abso s) (td_awake s) (td_lk s) (td_wsa s) (td_tcl s) (td_sdc s) (td_dlc s) (td_panic s) (td_injd s).
Definition td_set_rerr (v : td_err) (s : td_state) : td_state :=
  mkTd (td_rl s) (td_wl s) (td_tl s) (td_tf s) (td_cw s) (td_rd s) (td_wr s) (td_ac s) (td_sh s) (td_c1 s) (td_c2 s) (td_ab s) (td_dl s) (td_st s) (td_cerr s) v (td_pab s) (td_wac s) (td_connc s) (td_rfail s) (td_wfail s) (td_rdl s) (td_cwl s) (td_cwlo s) (td_rlc s) (td_acc s) (td_abs s) (td_abso s) (td_awake s) (td_lk s) (td_wsa s) (td_tcl s) (td_sdc s) (td_dlc s) (td_panic s) (td_injd s).
Definition td_set_pab (v : td_err) (s : td_state) : td_state :=
  mkTd (td_rl s) (td_wl s) (td_tl s) (td_tf s) (td_cw s) (td_rd s) (td_wr s) (td_ac s) (td_sh s) (td_c1 s) (td_c2 s) (td_ab s) (td_dl s) (td_st s) (td_cerr s) (td_rerr s) v (td_wac s) (td_connc s) (td_rfail s) (td_wfail s) (td_rdl s) (td_cwl s) (td_cwlo s) (td_rlc s) (td_acc s) (td_abs s) (td_abso s) (td_awake s) (td_lk s) (td_wsa s) (td_tcl s) (td_sdc s) (td_dlc s) (td_panic s) (td_injd s).
Definition td_set_wac (v : td_cnt) (s : td_state) : td_state :=
  mkTd (td_rl s) (td_wl s) (td_tl s) (td_tf s) (td_cw s) (td_rd s) (td_wr s) (td_ac s) (td_sh s) (td_c1 s) (td_c2 s) (td_ab s) (td_dl s) (td_st s) (td_cerr s) (td_rerr s) (td_pab s) v (td_connc s) (td_rfail s) (td_wfail s) (td_rdl s) (td_cwl s) (td_cwlo s) (td_rlc s) (td_acc s) (td_abs s) (td_abso s) (td_awake s) (td_lk s) (td_wsa s) (td_tcl s) (td_sdc s) (td_dlc s) (td_panic s) (td_injd s).
Definition td_set_connc (v : bool) (s : td_state) : td_state :=
  mkTd (td_rl s) (td_wl s) (td_tl s) (td_tf s) (td_cw s) (td_rd s) (td_wr s) (td_ac s) (td_sh s) (td_c1 s) (td_c2 s) (td_ab s) (td_dl s) (td_st s) (td_cerr s) (td_rerr s) (td_pab s) (td_wac s) v (td_rfail s) (td_wfail s) (td_rdl s) (td_cwl s) (td_cwlo s) (td_rlc s) (td_acc s) (td_abs s) (td_abso s) (td_awake s) (td_lk s) (td_wsa s) (td_tcl s) (td_sdc s) (td_dlc s) (td_panic s) (td_injd s).
Definition td_set_rfail (v : bool) (s : td_state) : td_state :=
  mkTd (td_rl s) (td_wl s) (td_tl s) (td_tf s) (td_cw s) (td_rd s) (td_wr s) (td_ac s) (td_sh s) (td_c1 s) (td_c2 s) (td_ab s) (td_dl s) (td_st s) (td_cerr s) (td_rerr s) (td_pab s) (td_wac s) (td_connc s) v (td_wfail s) (td_rdl s) (td_cwl s) (td_cwlo s) (td_rlc s) (td_acc s) (td_abs s) (td_abso s) (td_awake s) (td_lk s) (td_wsa s) (td_tcl s) (td_sdc s) (td_dlc s) (td_panic s) (td_injd s).
Definition td_set_wfail (v : bool) (s : td_state) : td_state :=
  mkTd (td_rl s) (td_wl s) (td_tl s) (td_tf s) (td_cw s) (td_rd s) (td_wr s) (td_ac s) (td_sh s) (td_c1 s) (td_c2 s) (td_ab s) (td_dl s) (td_st s) (td_cerr s) (td_rerr s) (td_pab s) (td_wac s) (td_connc s) (td_rfail s) v (td_rdl s) (td_cwl s) (td_cwlo s) (td_rlc s) (td_acc s) (td_abs s) (td_abso s) (td_awake s) (td_lk s) (td_wsa s) (td_tcl s) (td_sdc s) (td_dlc s) (td_panic s) (td_injd s).
Definition td_set_rdl (v : bool) (s : td_state) : td_state :=
  mkTd (td_rl s) (td_wl s) (td_tl s) (td_tf s) (td_cw s) (td_rd s) (td_wr s) (td_ac s) (td_sh s) (td_c1 s) (td_c2 s) (td_ab s) (td_dl s) (td_st s) (td_cerr s) (td_rerr s) (td_pab s) (td_wac s) (td_connc s) (td_rfail s) (td_wfail s) v (td_cwl s) (td_cwlo s) (td_rlc s) (td_acc s) (td_abs s) (td_abso s) (td_awake s) (td_lk s) (td_wsa s) (td_tcl s) (td_sdc s) (td_dlc s) (td_panic s) (td_injd s).
Definition td_set_cwl (v : bool) (s : td_state) : td_state :=
  mkTd (td_rl s) (td_wl s) (td_tl s) (td_tf s) (td_cw s) (td_rd s) (td_wr s) (td_ac s) (td_sh s) (td_c1 s) (td_c2 s) (td_ab s) (td_dl s) (td_st s) (td_cerr s) (td_rerr s) (td_pab s) (td_wac s) (td_connc s) (td_rfail s) (td_wfail s) (td_rdl s) v (td_cwlo s) (td_rlc s) (td_acc s) (td_abs s) (td_abso s) (td_awake s) (td_lk s) (td_wsa s) (td_tcl s) (td_sdc s) (td_dlc s) (td_panic s) (td_injd s).
Definition td_set_cwlo (v : bool) (s : td_state) : td_state :=
  mkTd (td_rl s) (td_wl s) (td_tl s) (td_tf s) (td_cw s) (td_rd s) (td_wr s) (td_ac s) (td_sh s) (td_c1 s) (td_c2 s) (td_ab s) (td_dl s) (td_st s) (td_cerr s) (td_rerr s) (td_pab s) (td_wac s) (td_connc s) (td_rfail s) (td_wfail s) (td_rdl s) (td_cwl s) v (td_rlc s) (td_acc s) (td_abs s) (td_abso s) (td_awake s) (td_lk s) (td_wsa s) (td_tcl s) (td_sdc s) (td_dlc s) (td_panic s) (td_injd s).
Definition td_set_rlc (v : bool) (s : td_state) : td_state :=
  mkTd (td_rl s) (td_wl s) (td_tl s) (td_tf s) (td_cw s) (td_rd s) (td_wr s) (td_ac s) (td_sh s) (td_c1 s) (td_c2 s) (td_ab s) (td_dl s) (td_st s) (td_cerr s) (td_rerr s) (td_pab s) (td_wac s) (td_connc s) (td_rfail s) (td_wfail s) (td_rdl s) (td_cwl s) (td_cwlo s) v (td_acc s) (td_abs s) (td_abso s) (td_awake s) (td_lk s) (td_wsa s) (td_tcl s) (td_sdc s) (td_dlc s) (td_panic s) (td_injd s).
Definition td_set_acc (v : bool) (s : td_state) : td_state :=
  mkTd (td_rl s) (td_wl s) (td_tl s) (td_tf s) (td_cw s) (td_rd s) (td_wr s) (td_ac s) (td_sh s) (td_c1 s) (td_c2 s) (td_ab s) (td_dl s) (td_st s) (td_cerr s) (td_rerr s) (td_pab s) (td_wac s) (td_connc s) (td_rfail s) (td_wfail s) (td_rdl s) (td_cwl s) (td_cwlo s) (td_rlc s) v (td_abs s) (td_abso s) (td_awake s) (td_lk s) (td_wsa s) (td_tcl s) (td_sdc s) (td_dlc s) (td_panic s) (td_injd s).
Definition td_set_abs (v : bool) (s : td_state) : td_state :=
  mkTd (td_rl s) (td_wl s) (td_tl s) (td_tf s) (td_cw s) (td_rd s) (td_wr s) (td_ac s) (td_sh s) (td_c1 s) (td_c2 s) (td_ab s) (td_dl s) (td_st s) (td_cerr s) (td_rerr s) (td_pab s) (td_wac s) (td_connc s) (td_rfail s) (td_wfail s) (td_rdl s) (td_cwl s) (td_cwlo s) (td_rlc s) (td_acc s) v (td_abso s) (td_awake s) (td_lk s) (td_wsa s) (td_tcl s) (td_sdc s) (td_dlc s) (td_panic s) (td_injd s).
Definition td_set_abso (v : bool) (s : td_state) : td_state :=
  mkTd (td_rl s) (td_wl s) (td_tl s) (td_tf s) (td_cw s) (td_rd s) (td_wr s) (td_ac s) (td_sh s) (td_c1 s) (td_c2 s) (td_ab s) (td_dl s) (td_st s) (td_cerr s) (td_rerr s) (td_pab s) (td_wac s) (td_connc s) (td_rfail s) (td_wfail s) (td_rdl s) (td_cwl s) (td_cwlo s) (td_rlc s) (td_acc s) (td_abs s) v (td_awake s) (td_lk s) (td_wsa s) (td_tcl s) (td_sdc s) (td_dlc s) (td_panic s) (td_injd s).
Definition td_set_awake (v : bool) (s : td_state) : td_state :=
  mkTd (td_rl s) (td_wl s) (td_tl s) (td_tf s) (td_cw s) (td_rd s) (td_wr s) (td_ac s) (td_sh s) (td_c1 s) (td_c2 s) (td_ab s) (td_dl s) (td_st s) (td_cerr s) (td_rerr s) (td_pab s) (td_wac s) (td_connc s) (td_rfail s) (td_wfail s) (td_rdl s) (td_cwl s) (td_cwlo s) (td_rlc s) (td_acc s) (td_abs s) (td_abso s) v (td_lk s) (td_wsa s) (td_tcl s) (td_sdc s) (td_dlc s) (td_panic s) (td_injd s).
Definition td_set_lk (v : bool) (s : td_state) : td_state :=
  mkTd (td_rl s) (td_wl s) (td_tl s) (td_tf s) (td_cw s) (td_rd s) (td_wr s) (td_ac s) (td_sh s) (td_c1 s) (td_c2 s) (td_ab s) (td_dl s) (td_st s) (td_cerr s) (td_rerr s) (td_pab s) (td_wac s) (td_connc s) (td_rfail s) (td_wfail s) (td_rdl s) (td_cwl s) (td_cwlo s) (td_rlc s) (td_acc s) (td_abs s) (td_abso s) (td_awake s) v (td_wsa s) (td_tcl s) (td_sdc s) (td_dlc s) (td_panic s) (td_injd s).
Definition td_set_wsa (v : bool) (s : td_state) : td_state :=
  mkTd (td_rl s) (td_wl s) (td_tl s) (td_tf s) (td_cw s) (td_rd s) (td_wr s) (td_ac s) (td_sh s) (td_c1 s) (td_c2 s) (td_ab s) (td_dl s) (td_st s) (td_cerr s) (td_rerr s) (td_pab s) (td_wac s) (td_connc s) (td_rfail s) (td_wfail s) (td_rdl s) (td_cwl s) (td_cwlo s) (td_rlc s) (td_acc s) (td_abs s) (td_abso s) (td_awake s) (td_lk s) v (td_tcl s) (td_sdc s) (td_dlc s) (td_panic s) (td_injd s).
Definition td_set_tcl (v : bool) (s : td_state) : td_state :=
  mkTd (td_rl s) (td_wl s) (td_tl s) (td_tf s) (td_cw s) (td_rd s) (td_wr s) (td_ac s) (td_sh s) (td_c1 s) (td_c2 s) (td_ab s) (td_dl s) (td_st s) (td_cerr s) (td_rerr s) (td_pab s) (td_wac s) (td_connc s) (td_rfail s) (td_wfail s) (td_rdl s) (td_cwl s) (td_cwlo s) (td_rlc s) (td_acc s) (td_abs s) (td_abso s) (td_awake s) (td_lk s) (td_wsa s) v (td_sdc s) (td_dlc s) (td_panic s) (td_injd s).
Definition td_set_sdc (v : bool) (s : td_state) : td_state :=
  mkTd (td_rl s) (td_wl s) (td_tl s) (td_tf s) (td_cw s) (td_rd s) (td_wr s) (td_ac s) (td_sh s) (td_c1 s) (td_c2 s) (td_ab s) (td_dl s) (td_st s) (td_cerr s) (td_rerr s) (td_pab s) (td_wac s) (td_connc s) (td_rfail s) (td_wfail s) (td_rdl s) (td_cwl s) (td_cwlo s) (td_rlc s) (td_acc s) (td_abs s) (td_abso s) (td_awake s) (td_lk s) (td_wsa s) (td_tcl s) v (td_dlc s) (td_panic s) (td_injd s).
Definition td_set_dlc (v : bool) (s : td_state) : td_state :=
  mkTd (td_rl s) (td_wl s) (td_tl s) (td_tf s) (td_cw s) (td_rd s) (td_wr s) (td_ac s) (td_sh s) (td_c1 s) (td_c2 s) (td_ab s) (td_dl s) (td_st s) (td_cerr s) (td_rerr s) (td_pab s) (td_wac s) (td_connc s) (td_rfail s) (td_wfail s) (td_rdl s) (td_cwl s) (td_cwlo s) (td_rlc s) (td_acc s) (td_abs s) (td_abso s) (td_awake s) (td_lk s) (td_wsa s) (td_tcl s) (td_sdc s) v (td_panic s) (td_injd s).
Definition td_set_panic (v : bool) (s : td_state) : td_state :=
  mkTd (td_rl s) (td_wl s) (td_tl s) (td_tf s) (td_cw s) (td_rd s) (td_wr s) (td_ac s) (td_sh s) (td_c1 s) (td_c2 s) (td_ab s) (td_dl s) (td_st s) (td_cerr s) (td_rerr s) (td_pab s) (td_wac s) (td_connc s) (td_rfail s) (td_wfail s) (td_rdl s) (td_cwl s) (td_cwlo s) (td_rlc s) (td_acc s) (td_abs s) (td_abso s) (td_awake s) (td_lk s) (td_wsa s) (td_tcl s) (td_sdc s) (td_dlc s) v (td_injd s).
Definition td_set_injd (v : bool) (s : td_state) : td_state :=
  mkTd (td_rl s) (td_wl s) (td_tl s) (td_tf s) (td_cw s) (td_rd s) (td_wr s) (td_ac s) (td_sh s) (td_c1 s) (td_c2 s) (td_ab s) (td_dl s) (td_st s) (td_cerr s) (td_rerr s) (td_pab s) (td_wac s) (td_connc s) (td_rfail s) (td_wfail s) (td_rdl s) (td_cwl s) (td_cwlo s) (td_rlc s) (td_acc s) (td_abs s) (td_abso s) (td_awake s) (td_lk s) (td_wsa s) (td_tcl s) (td_sdc s) (td_dlc s) (td_panic s) v.

Definition td_bool_enc (b : bool) (p : positive) : positive := if b then xI p else xO p.
(* injective key of a state: the fields' fixed-width codes, one after the other *)
Definition td_enc (s : td_state) : positive :=
  td_rlpc_enc (td_rl s)
  (td_wlpc_enc (td_wl s)
  (td_bool_enc (td_tl s)
  (td_tfpc_enc (td_tf s)
  (td_cwpc_enc (td_cw s)
  (td_rdpc_enc (td_rd s)
  (td_wrpc_enc (td_wr s)
  (td_acpc_enc (td_ac s)
  (td_shpc_enc (td_sh s)
  (td_ccpc_enc (td_c1 s)
  (td_ccpc_enc (td_c2 s)
  (td_abpc_enc (td_ab s)
  (td_dlpc_enc (td_dl s)
  (td_ast_enc (td_st s)
  (td_err_enc (td_cerr s)
  (td_err_enc (td_rerr s)
  (td_err_enc (td_pab s)
  (td_cnt_enc (td_wac s)
  (td_bool_enc (td_connc s)
  (td_bool_enc (td_rfail s)
  (td_bool_enc (td_wfail s)
  (td_bool_enc (td_rdl s)
  (td_bool_enc (td_cwl s)
  (td_bool_enc (td_cwlo s)
  (td_bool_enc (td_rlc s)
  (td_bool_enc (td_acc s)
  (td_bool_enc (td_abs s)
  (td_bool_enc (td_abso s)
  (td_bool_enc (td_awake s)
  (td_bool_enc (td_lk s)
  (td_bool_enc (td_wsa s)
  (td_bool_enc (td_tcl s)
  (td_bool_enc (td_sdc s)
  (td_bool_enc (td_dlc s)
  (td_bool_enc (td_panic s)
  (td_bool_enc (td_injd s)
  (xH)))))))))))))))))))))))))))))))))))).
(* ------------------------------------------------------------------------------------------
   Shared-state helpers
   ------------------------------------------------------------------------------------------ *)

(* close(ch) on a channel that is already closed panics in Go: the model records it in td_panic. *)
Definition td_close_ch_cwl (s : td_state) := if td_cwl s then td_set_panic true s else td_set_cwl true s.
Definition td_close_ch_abs (s : td_state) := if td_abs s then td_set_panic true s else td_set_abs true s.
Definition td_close_ch_acc (s : td_state) := if td_acc s then td_set_panic true s else td_set_acc true s.
Definition td_close_ch_rlc (s : td_state) := if td_rlc s then td_set_panic true s else td_set_rlc true s.

(* closeWriteLoopOnce.Do(func() { close(a.closeWriteLoopCh) })  /  abortSentOnce.Do(...) *)
Definition td_once_cwl (s : td_state) := if td_cwlo s then s else td_close_ch_cwl (td_set_cwlo true s).
Definition td_once_abs (s : td_state) := if td_abso s then s else td_close_ch_abs (td_set_abso true s).

(* a.close(): setState(closed); closeNetConn() (netConnCloseOnce); closeAllTimers(); closeWriteLoopOnce *)
Definition td_close_eff (k : td_cl) (s : td_state) : td_state :=
  match k with
  | TdCl0 => td_set_st TdStClosed s
  | TdCl1 => td_set_connc true s
  | TdCl2 => td_set_tcl true s
  | TdCl3 => td_once_cwl s
  end.

(* unblockPendingWrites: close(a.writeNotify) — the channel object a blocked writer captured — and a
   fresh channel replaces it under the same lock (so the current channel is never closed twice). *)
Definition td_unblock_writers (s : td_state) :=
  match td_wr s with TdWrBlocked => td_set_wr TdWrWoken s | _ => s end.

(* if s.readTimeoutCancel != nil { close(s.readTimeoutCancel); s.readTimeoutCancel = nil }: in unregisterStream
   (fix 2bd54a4) and in ReadSCTP's deferred function when it returns with readErr set; the nil check under
   s.lock makes a second close impossible *)
Definition td_cancel_deadline (s : td_state) :=
  match td_dl s with TdDlArmed => td_set_dlc true s | _ => s end.

(* s.readNotifier.Broadcast(): a parked reader re-evaluates its wait condition *)
Definition td_broadcast (s : td_state) :=
  match td_rd s with TdRdParked => td_set_rd TdRdCheck s | _ => s end.

Definition td_cnt_succ (c : td_cnt) := match c with TdCnt0 => TdCnt1 | _ => TdCnt2 end.

(* ------------------------------------------------------------------------------------------
   Scenario family
   ------------------------------------------------------------------------------------------ *)

Inductive td_inj := TdInjClose | TdInjAbort | TdInjRfail | TdInjWfail | TdInjPeerAbort.

(* which API call is blocked on the association when the run starts (during the handshake the
   Client/Server call is always there) *)
Inductive td_mix := TdMixNone | TdMixReader | TdMixWriter | TdMixAcceptor | TdMixShutdown | TdMixDeadline.

Record td_cfg := mkTdCfg {
  td_c_phase : td_phase;   (* phase of the association when the run starts *)
  td_c_inj : td_inj;       (* the one injection that may happen at any point of the run *)
  td_c_mix : td_mix;       (* the blocked caller *)
  td_c_t1fail : bool;      (* handshake only: the T1 timer may exhaust its retransmissions *)
  td_c_close2 : bool       (* a further Close() call may start at any point *)
}.

Definition td_phase_eqb (a b : td_phase) :=
  match a, b with TdPhHs, TdPhHs | TdPhEst, TdPhEst | TdPhSd, TdPhSd => true | _, _ => false end.

(* conn.Read can hand a packet to the read loop: it is blocked in Read, this side has not closed the
   conn, and the handler can take a.lock (handleChunksStart / handleChunk) *)
Definition td_can_recv (s : td_state) : bool :=
  match td_rl s with TdRlRead => negb (td_connc s) && negb (td_lk s) | _ => false end.

(* ------------------------------------------------------------------------------------------
   Environment: the injection, the optional second Close, inbound packets
   ------------------------------------------------------------------------------------------ *)

Definition td_peer_abort (c : td_err) (s : td_state) : td_state :=
  td_set_injd true (td_set_pab c (td_set_lk true (td_set_rl TdRlAb0 s))).

Definition td_env (c : td_cfg) (s : td_state) : list td_state :=
  (match td_c_inj c with
   | TdInjClose => match td_c1 s with TdCcNone => [td_set_c1 TdCcCl0 s] | _ => [] end
   | TdInjAbort => match td_ab s with TdAbNone => [td_set_ab TdAbFlag s] | _ => [] end
   | TdInjRfail => if td_injd s then [] else [td_set_injd true (td_set_rfail true s)]
   | TdInjWfail => if td_injd s then [] else [td_set_injd true (td_set_wfail true s)]
   | TdInjPeerAbort =>
       if td_injd s || negb (td_can_recv s) then []
       else [td_peer_abort TdCeAbort0 s; td_peer_abort TdCeAbort1 s]
   end) ++
  (if td_c_close2 c then match td_c2 s with TdCcNone => [td_set_c2 TdCcCl0 s] | _ => [] end else []) ++
  (if td_can_recv s then
     (* a packet whose handling only queues a reply / marks an ack: awakeWriteLoop *)
     (if td_awake s then [] else [td_set_awake true s]) ++
     (* DATA on a new stream: createStream(accept=true) sends on acceptCh (panics if it were closed) *)
     (match td_c_phase c, td_ac s with
      | TdPhHs, _ => []
      | _, TdAcWait => [if td_acc s then td_set_panic true s else td_set_ac TdAcStream s]
      | _, _ => []
      end) ++
     (* DATA completing a message on the stream with the parked reader: Signal, ReadSCTP returns it *)
     (match td_rd s with TdRdParked => [td_set_rd TdRdRetData s] | _ => [] end) ++
     (* COOKIE-ECHO (state closed / cookieWait / cookieEchoed) or COOKIE-ACK (cookieEchoed): establish(),
        then completeHandshake under a.lock *)
     (match td_c_phase c, td_st s with
      | TdPhHs, TdStHs | TdPhHs, TdStClosed => [td_set_lk true (td_set_rl TdRlHs (td_set_st TdStEst s))]
      | _, _ => []
      end) ++
     (* peer SHUTDOWN (handleShutdown) or the local Shutdown() call: state leaves established,
        unblockPendingWrites, awakeWriteLoop *)
     (match td_c_phase c, td_st s with
      | TdPhEst, TdStEst => [td_unblock_writers (td_set_awake true (td_set_st TdStSd s))]
      | _, _ => []
      end) ++
     (* SHUTDOWN-ACK in shutdownSent / shutdownAckSent: handleShutdownAck sets willSendShutdownComplete and
        shutdownCompleted, awakeWriteLoop (the write loop then sends SHUTDOWN-COMPLETE with ok = false) *)
     (match td_st s with
      | TdStSd => if td_sdc s then [] else [td_set_awake true (td_set_sdc true s)]
      | _ => []
      end) ++
     (* SHUTDOWN-COMPLETE in shutdownAckSent: handleShutdownComplete sets shutdownCompleted and calls
        a.close() under a.lock *)
     (match td_st s with TdStSd => [td_set_lk true (td_set_rl TdRlSc0 (td_set_sdc true s))] | _ => [] end)
   else []).

(* ------------------------------------------------------------------------------------------
   readLoop
   ------------------------------------------------------------------------------------------ *)

Definition td_read (s : td_state) : list td_state :=
  match td_rl s with
  | TdRlRead =>
      (* conn.Read returns an error: conn closed by this side, transport failure, read deadline passed *)
      if td_connc s || td_rfail s || td_rdl s then [td_set_rl TdRlX1 (td_set_cerr TdCeRead s)] else []
  | TdRlHs =>
      (* completeHandshake: select { handshakeCompletedCh <- err | <-closeWriteLoopCh | <-readLoopCloseCh } *)
      (match td_cw s with
       | TdCwWait => [td_set_awake true (td_set_lk false (td_set_rl TdRlRead (td_set_cw TdCwOk s)))]
       | _ => []
       end) ++
      (if td_cwl s || td_rlc s then [td_set_lk false (td_set_rl TdRlRead s)] else [])
  | TdRlAb0 => [td_set_rl TdRlAb1 (td_close_eff TdCl0 s)]
  | TdRlAb1 => [td_set_rl TdRlAb2 (td_close_eff TdCl1 s)]
  | TdRlAb2 => [td_set_rl TdRlAb3 (td_close_eff TdCl2 s)]
  | TdRlAb3 =>
      (* handleAbort returns the error built from the chunk's causes; handleChunk returns it because the
         chunk is an ABORT; handleInbound returns it; readLoop: closeErr = err; break *)
      [td_set_rl TdRlX1 (td_set_cerr (td_pab s) (td_set_lk false (td_close_eff TdCl3 s)))]
  | TdRlSc0 => [td_set_rl TdRlSc1 (td_close_eff TdCl0 s)]
  | TdRlSc1 => [td_set_rl TdRlSc2 (td_close_eff TdCl1 s)]
  | TdRlSc2 => [td_set_rl TdRlSc3 (td_close_eff TdCl2 s)]
  | TdRlSc3 => [td_set_rl TdRlRead (td_set_lk false (td_close_eff TdCl3 s))]
  (* deferred exit path *)
  | TdRlX1 => [td_set_rl TdRlX2 (td_once_cwl s)]
  | TdRlX2 => if td_lk s then [] else [td_set_rl TdRlX3 (td_set_lk true s)]
  | TdRlX3 => [td_set_rl TdRlX4 (td_set_st TdStClosed s)]
  | TdRlX4 => [td_set_rl TdRlX5 (td_broadcast (td_cancel_deadline (td_set_rerr (td_cerr s) s)))]
  | TdRlX5 => [td_set_rl TdRlX6 (td_set_lk false (td_unblock_writers s))]
  | TdRlX6 => [td_set_rl TdRlX7 (td_close_ch_acc s)]
  | TdRlX7 => [td_set_rl TdRlDone (td_close_ch_rlc s)]
  | TdRlDone => []
  end.

(* ------------------------------------------------------------------------------------------
   writeLoop
   ------------------------------------------------------------------------------------------ *)

(* one a.netConn.Write; for the ABORT packet abortSentOnce fires whatever the result *)
Definition td_conn_write (isabort : bool) (next : td_wlpc) (s : td_state) : list td_state :=
  let s1 := if isabort then td_once_abs s else s in
  if td_connc s || td_wfail s
  then [td_set_wl TdWlFailConn (if td_connc s then td_set_wac (td_cnt_succ (td_wac s)) s1 else s1)]
  else [td_set_wl next s1].

Definition td_write (s : td_state) : list td_state :=
  match td_wl s with
  | TdWlGather =>
      (* gatherOutbound, under a.lock *)
      if td_lk s then []
      else if td_wsa s then
        (* gatherAbortPacket: the ABORT alone, ok = false; if it cannot be marshalled: abortSentOnce, no
           packet, ok = false *)
        [td_set_wl TdWlWrAbort (td_set_wsa false s); td_set_wl TdWlCl0 (td_once_abs (td_set_wsa false s))]
      else
        [td_set_wl TdWlSelect s; td_set_wl TdWlWr1 s; td_set_wl TdWlWr2 s] ++
        (* the last pending chunk moved to the in-flight queue: notifyBlockWritable *)
        (match td_wr s, td_st s with
         | TdWrBlocked, TdStEst => [td_set_wl TdWlWr1 (td_set_wr TdWrWoken s)]
         | _, _ => []
         end) ++
        (* SHUTDOWN-COMPLETE (willSendShutdownComplete, set together with shutdownCompleted by a handled
           SHUTDOWN-ACK): ok = false *)
        (match td_st s with TdStSd => if td_sdc s then [td_set_wl TdWlWrFin s] else [] | _ => [] end)
  | TdWlWrAbort => td_conn_write true TdWlCl0 s
  | TdWlWr2 => td_conn_write false TdWlWr1 s
  | TdWlWr1 => td_conn_write false TdWlSelect s
  | TdWlWrFin => td_conn_write false TdWlCl0 s
  (* !ok: a.close(); return *)
  | TdWlCl0 => [td_set_wl TdWlCl1 (td_close_eff TdCl0 s)]
  | TdWlCl1 => [td_set_wl TdWlCl2 (td_close_eff TdCl1 s)]
  | TdWlCl2 => [td_set_wl TdWlCl3 (td_close_eff TdCl2 s)]
  | TdWlCl3 => [td_set_wl TdWlDone (td_close_eff TdCl3 s)]
  | TdWlSelect =>
      (if td_awake s then [td_set_wl TdWlGather (td_set_awake false s)] else []) ++
      (if td_cwl s then [td_set_wl TdWlChk s] else [])
  | TdWlChk =>
      (* a.lock.Lock(); abortPending := a.willSendAbort; a.lock.Unlock() *)
      if td_lk s then [] else if td_wsa s then [td_set_wl TdWlGather s] else [td_set_wl TdWlExit1 s]
  | TdWlFailConn => [td_set_wl TdWlExit1 (td_set_connc true s)]     (* closeNetConn(); break loop *)
  | TdWlExit1 => [td_set_wl TdWlExit2 (td_set_st TdStClosed s)]
  | TdWlExit2 => [td_set_wl TdWlDone (td_set_tcl true s)]
  | TdWlDone => []
  end.

(* ------------------------------------------------------------------------------------------
   timerLoop, timer callbacks
   ------------------------------------------------------------------------------------------ *)

Definition td_timerloop (s : td_state) : list td_state :=
  if negb (td_tl s) && td_cwl s then [td_set_tl true s] else [].

(* T3 / T2 / reconfig / ack timer expiry: lock, mark, awakeWriteLoop *)
Definition td_timercb (s : td_state) : list td_state :=
  if negb (td_tcl s) && negb (td_lk s) && negb (td_awake s) then [td_set_awake true s] else [].

(* T1-init / T1-cookie exhausted: rtxTimer.timeout decides "failure" under the timer's mutex (TdTfFired);
   onRetransmissionFailure then takes a.lock, re-checks the state and calls completeHandshake(err) *)
Definition td_t1fail (c : td_cfg) (s : td_state) : list td_state :=
  match td_tf s with
  | TdTfIdle =>
      match td_c_phase c, td_st s with
      | TdPhHs, TdStHs => if td_c_t1fail c && negb (td_tcl s) then [td_set_tf TdTfFired s] else []
      | _, _ => []
      end
  | TdTfFired =>
      (* onRetransmissionFailure: a.lock.Lock(); the failure is stale if the handshake has moved on in the
         meantime (state no longer cookieWait / cookieEchoed): return without reporting it (fix c7c80cb) *)
      if td_lk s then []
      else match td_st s with
           | TdStHs => [td_set_tf TdTfBlocked (td_set_lk true s)]
           | _ => [td_set_tf TdTfDone s]
           end
  | TdTfBlocked =>
      (match td_cw s with
       | TdCwWait => [td_set_tf TdTfDone (td_set_lk false (td_set_cw TdCwErrCl0 s))]
       | _ => []
       end) ++
      (if td_cwl s || td_rlc s then [td_set_tf TdTfDone (td_set_lk false s)] else [])
  | TdTfDone => []
  end.

(* ------------------------------------------------------------------------------------------
   blocked callers
   ------------------------------------------------------------------------------------------ *)

(* Client/Server: select { <-handshakeCompletedCh | <-readLoopCloseCh } (the send side is in td_read /
   td_t1fail); when the handshake result is an error: assoc.Close() (a.close(), <-readLoopCloseCh), then
   return the error *)
Definition td_connect (s : td_state) : list td_state :=
  match td_cw s with
  | TdCwWait => if td_rlc s then [td_set_cw TdCwClosed s] else []
  | TdCwErrCl0 => [td_set_cw TdCwErrCl1 (td_close_eff TdCl0 s)]
  | TdCwErrCl1 => [td_set_cw TdCwErrCl2 (td_close_eff TdCl1 s)]
  | TdCwErrCl2 => [td_set_cw TdCwErrCl3 (td_close_eff TdCl2 s)]
  | TdCwErrCl3 => [td_set_cw TdCwErrWait (td_close_eff TdCl3 s)]
  | TdCwErrWait => if td_rlc s then [td_set_cw TdCwHsErr s] else []
  | _ => []
  end.

(* ReadSCTP: for { if readErr != nil return; readNotifier.Wait() } (no data in the queue) *)
Definition td_reader (s : td_state) : list td_state :=
  match td_rd s with
  | TdRdCheck =>
      [match td_rerr s with
       | TdCeNone => td_set_rd TdRdParked s
       | TdCeRead => td_cancel_deadline (td_set_rd TdRdRetRead s)
       | TdCeAbort0 => td_cancel_deadline (td_set_rd TdRdRetAb0 s)
       | TdCeAbort1 => td_cancel_deadline (td_set_rd TdRdRetAb1 s)
       end]
  | _ => []
  end.

(* the goroutine of Stream.SetReadDeadline: select { <-readTimeoutCancel: return | <-t.C: ... } *)
Definition td_deadline (s : td_state) : list td_state :=
  match td_dl s with TdDlArmed => if td_dlc s then [td_set_dl TdDlDone s] else [] | _ => [] end.

(* sendPayloadData in blocking-write mode after the wait on writeNotify: re-lock, re-check the state *)
Definition td_writer (s : td_state) : list td_state :=
  match td_wr s with
  | TdWrWoken =>
      if td_lk s then []
      else match td_st s with
           | TdStEst => [td_set_wr TdWrOk (td_set_awake true s)]
           | _ => [td_set_wr TdWrErr s]
           end
  | _ => []
  end.

Definition td_acceptor (s : td_state) : list td_state :=
  match td_ac s with TdAcWait => if td_acc s then [td_set_ac TdAcEof s] else [] | _ => [] end.

(* Shutdown(ctx): select { <-closeWriteLoopCh } (ctx never done); then RLock, read shutdownCompleted,
   RUnlock: nil if the shutdown sequence ran to its end, ErrShutdownIncomplete otherwise *)
Definition td_shutdown (s : td_state) : list td_state :=
  match td_sh s with
  | TdShWait => if td_cwl s then [td_set_sh TdShWoken s] else []
  | TdShWoken => if td_lk s then [] else [td_set_sh (if td_sdc s then TdShNil else TdShErr) s]
  | _ => []
  end.

(* Close(): a.close(); <-a.readLoopCloseCh *)
Definition td_close_caller (get : td_state -> td_ccpc) (set : td_ccpc -> td_state -> td_state) (s : td_state)
  : list td_state :=
  match get s with
  | TdCcNone => []
  | TdCcCl0 => [set TdCcCl1 (td_close_eff TdCl0 s)]
  | TdCcCl1 => [set TdCcCl2 (td_close_eff TdCl1 s)]
  | TdCcCl2 => [set TdCcCl3 (td_close_eff TdCl2 s)]
  | TdCcCl3 => [set TdCcWait (td_close_eff TdCl3 s)]
  | TdCcWait => if td_rlc s then [set TdCcRet s] else []
  | TdCcRet => []
  end.

(* Abort(reason) *)
Definition td_abort_caller (s : td_state) : list td_state :=
  match td_ab s with
  | TdAbNone => []
  | TdAbFlag => if td_lk s then [] else [td_set_ab TdAbAwake (td_set_wsa true s)]
  | TdAbAwake => [td_set_ab TdAbWait1 (td_set_awake true s)]
  | TdAbWait1 => [td_set_ab TdAbRdl s]                          (* <-abortSentCh or 200 ms *)
  | TdAbRdl => [td_set_ab TdAbWaitRl (td_set_rdl true s)]         (* netConn.SetReadDeadline(now) *)
  | TdAbWaitRl => if td_rlc s then [td_set_ab TdAbWait2 s] else []
  | TdAbWait2 => [td_set_ab TdAbRet s]                          (* <-abortSentCh or 200 ms *)
  | TdAbRet => []
  end.

(* ------------------------------------------------------------------------------------------
   System step: interleaving of all enabled automata steps
   ------------------------------------------------------------------------------------------ *)

Inductive td_actor :=
  TdAEnv | TdARead | TdAWrite | TdATimerLoop | TdATimerCb | TdAT1Fail | TdAConnect | TdAReader | TdAWriter
  | TdAAcceptor | TdAShutdown | TdAClose1 | TdAClose2 | TdAAbort | TdADeadline.

Definition td_tag (a : td_actor) (l : list td_state) : list (td_actor * td_state) := map (fun s => (a, s)) l.

Definition td_steps (c : td_cfg) (s : td_state) : list (td_actor * td_state) :=
  td_tag TdAEnv (td_env c s) ++ td_tag TdARead (td_read s) ++ td_tag TdAWrite (td_write s) ++
  td_tag TdATimerLoop (td_timerloop s) ++ td_tag TdATimerCb (td_timercb s) ++ td_tag TdAT1Fail (td_t1fail c s) ++
  td_tag TdAConnect (td_connect s) ++ td_tag TdAReader (td_reader s) ++ td_tag TdAWriter (td_writer s) ++
  td_tag TdAAcceptor (td_acceptor s) ++ td_tag TdAShutdown (td_shutdown s) ++
  td_tag TdAClose1 (td_close_caller td_c1 td_set_c1 s) ++ td_tag TdAClose2 (td_close_caller td_c2 td_set_c2 s) ++
  td_tag TdAAbort (td_abort_caller s) ++ td_tag TdADeadline (td_deadline s).

Definition td_step (c : td_cfg) (s : td_state) : list td_state := map snd (td_steps c s).

(* ------------------------------------------------------------------------------------------
   Initial states
   ------------------------------------------------------------------------------------------ *)

Definition td_init (c : td_cfg) : td_state :=
  let st := match td_c_phase c with TdPhHs => TdStHs | TdPhEst => TdStEst | TdPhSd => TdStSd end in
  let cw := match td_c_phase c with TdPhHs => TdCwWait | _ => TdCwNone end in
  let rd := match td_c_mix c with TdMixReader => TdRdParked | _ => TdRdNone end in
  (* a writer can only be blocked in sendPayloadData while the association is established *)
  let wr := match td_c_mix c, td_c_phase c with TdMixWriter, TdPhEst => TdWrBlocked | _, _ => TdWrNone end in
  let ac := match td_c_mix c with TdMixAcceptor => TdAcWait | _ => TdAcNone end in
  (* Shutdown() blocks only if it found the association established; it left it in shutdownPending/Sent *)
  let sh := match td_c_mix c, td_c_phase c with TdMixShutdown, TdPhSd => TdShWait | _, _ => TdShNone end in
  (* a stream with an armed read deadline and nobody reading: the goroutine started by SetReadDeadline waits
     for its cancel channel (or for a deadline that does not expire during the run) *)
  let dl := match td_c_mix c with TdMixDeadline => TdDlArmed | _ => TdDlNone end in
  mkTd TdRlRead TdWlGather false TdTfIdle cw rd wr ac sh TdCcNone TdCcNone TdAbNone dl st TdCeNone TdCeNone TdCeNone TdCnt0
       false false false false false false false false false false false false false false false false false false.

(* ------------------------------------------------------------------------------------------
   State predicates
   ------------------------------------------------------------------------------------------ *)

(* every goroutine automaton has terminated, every caller has returned (or was never there), timers closed *)
Definition td_done (s : td_state) : bool :=
  (match td_rl s with TdRlDone => true | _ => false end) &&
  (match td_wl s with TdWlDone => true | _ => false end) &&
  td_tl s && td_tcl s && negb (td_lk s) &&
  (match td_tf s with TdTfIdle | TdTfDone => true | _ => false end) &&
  (match td_cw s with TdCwNone | TdCwOk | TdCwHsErr | TdCwClosed => true | _ => false end) &&
  (match td_rd s with TdRdParked | TdRdCheck => false | _ => true end) &&
  (match td_wr s with TdWrBlocked | TdWrWoken => false | _ => true end) &&
  (match td_ac s with TdAcWait => false | _ => true end) &&
  (match td_sh s with TdShWait | TdShWoken => false | _ => true end) &&
  (match td_c1 s with TdCcNone | TdCcRet => true | _ => false end) &&
  (match td_c2 s with TdCcNone | TdCcRet => true | _ => false end) &&
  (match td_ab s with TdAbNone | TdAbRet => true | _ => false end) &&
  (match td_dl s with TdDlArmed => false | _ => true end).

Definition td_is_nil {A} (l : list A) : bool := match l with [] => true | _ => false end.

(* maximal run end *)
Definition td_final (c : td_cfg) (s : td_state) : bool := td_is_nil (td_steps c s).

(* has the injection of the family happened? *)
Definition td_injected (c : td_cfg) (s : td_state) : bool :=
  match td_c_inj c with
  | TdInjClose => match td_c1 s with TdCcNone => false | _ => true end
  | TdInjAbort => match td_ab s with TdAbNone => false | _ => true end
  | _ => td_injd s
  end.

(* ------------------------------------------------------------------------------------------
   Reachable-set computation (worklist), certificate checkers
   ------------------------------------------------------------------------------------------ *)

Definition td_push (acc : list td_state * PositiveSet.t) (t : td_state) : list td_state * PositiveSet.t :=
  let k := td_enc t in
  if PositiveSet.mem k (snd acc) then acc else (t :: fst acc, PositiveSet.add k (snd acc)).

Fixpoint td_explore (fuel : nat) (c : td_cfg) (work : list td_state) (seen : PositiveSet.t) (acc : list td_state)
  : option (list td_state) :=
  match fuel with
  | O => None
  | S f =>
      match work with
      | [] => Some acc
      | s :: w =>
          let '(w', seen') := fold_left td_push (td_step c s) (w, seen) in
          td_explore f c w' seen' (s :: acc)
      end
  end.

Definition td_fuel : nat := 400 * 1000.

Definition td_reach_list (c : td_cfg) : option (list td_state) :=
  td_explore td_fuel c [td_init c] (PositiveSet.add (td_enc (td_init c)) PositiveSet.empty) [].

(* a state with its key and the keys of its successors (computed once per family) *)
Definition td_node := (td_state * positive * list positive)%type.
Definition td_node_of (c : td_cfg) (s : td_state) : td_node := (s, td_enc s, map td_enc (td_step c s)).
(* (tail-recursive: the lists are long) *)
Definition td_nodes (c : td_cfg) (l : list td_state) : list td_node :=
  fold_left (fun acc s => td_node_of c s :: acc) l [].

Definition td_keyset (ns : list td_node) : PositiveSet.t :=
  fold_left (fun acc (n : td_node) => PositiveSet.add (snd (fst n)) acc) ns PositiveSet.empty.

(* closure certificate: the initial state is in the set, every successor of a member is in the set *)
Definition td_closed (c : td_cfg) (ns : list td_node) : bool :=
  let st := td_keyset ns in
  PositiveSet.mem (td_enc (td_init c)) st &&
  forallb (fun n : td_node => forallb (fun k => PositiveSet.mem k st) (snd n)) ns.

(* ---- rank certificate: distance to a finished state, computed by backward breadth-first search ---- *)

Definition td_find_list (k : positive) (m : PositiveMap.t (list positive)) : list positive :=
  match PositiveMap.find k m with Some ps => ps | None => [] end.

Definition td_pred_map (ns : list td_node) : PositiveMap.t (list positive) :=
  fold_left (fun m (n : td_node) =>
    fold_left (fun m k => PositiveMap.add k (snd (fst n) :: td_find_list k m) m) (snd n) m)
    ns (PositiveMap.empty _).

Definition td_rank_push (d : nat) (acc : list positive * PositiveMap.t nat) (p : positive) :=
  match PositiveMap.find p (snd acc) with
  | Some _ => acc
  | None => (p :: fst acc, PositiveMap.add p d (snd acc))
  end.

Fixpoint td_rank_bfs (fuel : nat) (preds : PositiveMap.t (list positive)) (d : nat) (frontier : list positive)
  (rk : PositiveMap.t nat) : PositiveMap.t nat :=
  match fuel with
  | O => rk
  | S f =>
      match frontier with
      | [] => rk
      | _ =>
          let '(next, rk') :=
            fold_left (fun acc k => fold_left (td_rank_push (S d)) (td_find_list k preds) acc) frontier ([], rk) in
          td_rank_bfs f preds (S d) next rk'
      end
  end.

Definition td_ranks (ns : list td_node) : PositiveMap.t nat :=
  let goals := fold_left (fun acc (n : td_node) => if td_done (fst (fst n)) then snd (fst n) :: acc else acc) ns [] in
  let rk0 := fold_left (fun m k => PositiveMap.add k O m) goals (PositiveMap.empty nat) in
  td_rank_bfs 1000 (td_pred_map ns) O goals rk0.

(* the certificate check: rank 0 states are finished, a state of rank n+1 has a successor of rank <= n *)
Definition td_rank_ok (rk : PositiveMap.t nat) (n : td_node) : bool :=
  match PositiveMap.find (snd (fst n)) rk with
  | None => false
  | Some O => td_done (fst (fst n))
  | Some (S m) =>
      existsb (fun k => match PositiveMap.find k rk with Some j => Nat.leb j m | None => false end) (snd n)
  end.

(* ------------------------------------------------------------------------------------------
   Per-state checks (the clauses of C09)
   ------------------------------------------------------------------------------------------ *)

Definition td_cerr_eqb (a b : td_err) : bool :=
  match a, b with
  | TdCeNone, TdCeNone | TdCeRead, TdCeRead | TdCeAbort0, TdCeAbort0 | TdCeAbort1, TdCeAbort1 => true
  | _, _ => false
  end.

(* (a) a state without an enabled step is finished *)
Definition td_chk_dead (c : td_cfg) (s : td_state) : bool := implb (td_final c s) (td_done s).

(* (b) at most one conn.Write is attempted after this side closed the conn (it returns an error) *)
Definition td_chk_wac (s : td_state) : bool := match td_wac s with TdCnt2 => false | _ => true end.

(* (e) no close of a closed channel; the Once guards agree with the channels they protect *)
Definition td_chk_chan (s : td_state) : bool :=
  negb (td_panic s) && Bool.eqb (td_cwl s) (td_cwlo s) && Bool.eqb (td_abs s) (td_abso s).

(* (d) the error readers get is the ABORT's cause whenever an ABORT was handled, and only then *)
Definition td_chk_abort (s : td_state) : bool :=
  (match td_rerr s with
   | TdCeAbort0 | TdCeAbort1 => td_cerr_eqb (td_rerr s) (td_pab s)
   | _ => true
   end) &&
  (match td_rd s with
   | TdRdRetAb0 => td_cerr_eqb (td_pab s) TdCeAbort0
   | TdRdRetAb1 => td_cerr_eqb (td_pab s) TdCeAbort1
   | _ => true
   end) &&
  (match td_pab s with
   | TdCeNone | TdCeRead => true
   | pa =>
       implb (td_done s)
             (td_cerr_eqb (td_rerr s) pa &&
              match td_rd s, pa with
              | TdRdNone, _ | TdRdRetData, _ | TdRdRetAb0, TdCeAbort0 | TdRdRetAb1, TdCeAbort1 => true
              | _, _ => false
              end)
   end).

(* (c) once a first Close has returned, every step of a second Close changes nothing but its own program
   counter, and it is never blocked *)
Definition td_chk_close2 (s : td_state) : bool :=
  match td_c1 s, td_c2 s with
  | TdCcRet, TdCcNone | TdCcRet, TdCcRet => true
  | TdCcRet, pc =>
      match td_close_caller td_c2 td_set_c2 s with
      | [t] => Pos.eqb (td_enc (td_set_c2 pc t)) (td_enc s)
      | _ => false
      end
  | _, _ => true
  end.

(* (f) Shutdown returns nil only if the shutdown sequence ran to its end (shutdownCompleted), and
   ErrShutdownIncomplete only if it did not *)
Definition td_chk_shut (s : td_state) : bool :=
  match td_sh s with TdShNil => td_sdc s | TdShErr => negb (td_sdc s) | _ => true end.

Definition td_chk_state (c : td_cfg) (s : td_state) : bool :=
  td_chk_dead c s && td_chk_wac s && td_chk_chan s && td_chk_abort s && td_chk_close2 s && td_chk_shut s.

(* one family: reachable set computed and closed; every member passes the per-state checks (safety);
   every member has a rank certificate (progress) *)
Definition td_check_family (c : td_cfg) : bool :=
  match td_reach_list c with
  | None => false
  | Some l =>
      let ns := td_nodes c l in
      td_closed c ns && forallb (td_chk_state c) l && (let rk := td_ranks ns in forallb (td_rank_ok rk) ns)
  end.

(* safety only (used for the families in which progress is refuted) *)
Definition td_check_family_safe (c : td_cfg) (chk : td_state -> bool) : bool :=
  match td_reach_list c with
  | None => false
  | Some l => td_closed c (td_nodes c l) && forallb chk l
  end.

(* ------------------------------------------------------------------------------------------
   Families
   ------------------------------------------------------------------------------------------ *)

Definition td_phases := [TdPhHs; TdPhEst; TdPhSd].
Definition td_injs := [TdInjClose; TdInjAbort; TdInjRfail; TdInjWfail; TdInjPeerAbort].

Definition td_mixes (p : td_phase) : list td_mix :=
  match p with
  | TdPhHs => [TdMixNone; TdMixReader; TdMixAcceptor]
  | TdPhEst => [TdMixReader; TdMixWriter; TdMixAcceptor]
  | TdPhSd => [TdMixReader; TdMixAcceptor; TdMixShutdown]
  end.

(* the families for which every clause holds (no T1 exhaustion), one list per phase *)
Definition td_families_of (p : td_phase) : list td_cfg :=
  flat_map (fun i => map (fun m => mkTdCfg p i m false false) (td_mixes p)) td_injs.

Definition td_families : list td_cfg := flat_map td_families_of td_phases.

(* a further Close() call racing with everything: in the established phase with every injection (a
   Close() after or during a transport failure, an Abort(), an inbound ABORT; two concurrent Close()),
   in the other phases with a first Close() *)
Definition td_families_close2 : list td_cfg :=
  map (fun i => mkTdCfg TdPhEst i TdMixNone false true) [TdInjClose; TdInjAbort; TdInjRfail; TdInjWfail] ++
  [mkTdCfg TdPhHs TdInjClose TdMixNone false true; mkTdCfg TdPhSd TdInjClose TdMixNone false true].

(* established, a read deadline armed on a stream with nobody reading: its goroutine must end with the
   association (fix 2bd54a4: unregisterStream cancels it) *)
Definition td_families_deadline : list td_cfg := map (fun i => mkTdCfg TdPhEst i TdMixDeadline false false) td_injs.

(* handshake with T1 exhaustion *)
Definition td_families_t1 : list td_cfg := map (fun i => mkTdCfg TdPhHs i TdMixNone true false) td_injs.

(* ------------------------------------------------------------------------------------------
   Outcome table for the comparison with the implementation
   ------------------------------------------------------------------------------------------ *)

Definition td_outcome := (td_err * td_cwpc * td_rdpc * td_wrpc * td_acpc * td_shpc * bool * td_dlpc)%type.
Definition td_outcome_of (s : td_state) : td_outcome :=
  (td_pab s, td_cw s, td_rd s, td_wr s, td_ac s, td_sh s, td_sdc s, td_dl s).

(* outcomes of the blocked callers in the final states (no step enabled) of a family *)
Definition td_final_outcomes (c : td_cfg) : list td_outcome :=
  match td_reach_list c with
  | None => []
  | Some l => fold_left (fun acc s => if td_final c s then td_outcome_of s :: acc else acc) l []
  end.

(* ------------------------------------------------------------------------------------------
   Witness search (breadth-first; returns the indices into td_step along a shortest run from the initial
   state to a state satisfying [bad]) and the actors along a path
   ------------------------------------------------------------------------------------------ *)

Fixpoint td_enum {A : Type} (i : nat) (l : list A) : list (nat * A) :=
  match l with [] => [] | x :: r => (i, x) :: td_enum (S i) r end.

Definition td_wpush (path : list nat) (acc : list (td_state * list nat) * PositiveSet.t) (it : nat * td_state) :=
  let k := td_enc (snd it) in
  if PositiveSet.mem k (snd acc) then acc
  else ((snd it, fst it :: path) :: fst acc, PositiveSet.add k (snd acc)).

Fixpoint td_search (fuel : nat) (c : td_cfg) (bad : td_state -> bool) (frontier : list (td_state * list nat))
  (seen : PositiveSet.t) : option (list nat) :=
  match fuel with
  | O => None
  | S f =>
      match find (fun x : td_state * list nat => bad (fst x)) frontier with
      | Some x => Some (rev (snd x))
      | None =>
          match frontier with
          | [] => None
          | _ =>
              let '(next, seen') :=
                fold_left (fun acc (x : td_state * list nat) =>
                             fold_left (td_wpush (snd x)) (td_enum 0 (td_step c (fst x))) acc)
                          frontier ([], seen) in
              td_search f c bad next seen'
          end
      end
  end.

Definition td_find_path (c : td_cfg) (bad : td_state -> bool) : option (list nat) :=
  td_search 200 c bad [(td_init c, [])] (PositiveSet.add (td_enc (td_init c)) PositiveSet.empty).

Fixpoint td_path_actors (c : td_cfg) (s : td_state) (path : list nat) : list td_actor :=
  match path with
  | [] => []
  | i :: p => match nth_error (td_steps c s) i with
              | Some (a, t) => a :: td_path_actors c t p
              | None => []
              end
  end.

(* size of the reachable set of a family (tail-recursive count) *)
Definition td_family_size (c : td_cfg) : N :=
  match td_reach_list c with Some l => fold_left (fun n _ => N.succ n) l 0%N | None => 0%N end.
