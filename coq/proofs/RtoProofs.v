(* Proofs about the float model coq/model/Rto.v.

   Part A (no Reals, no Flocq): IEEE comparisons through the SpecFloat specification of the primitive
           floats (FloatAxioms.ltb_spec / leb_spec / eqb_spec): the clamp
           math.Min(math.Max(v, rtoMin), rtoMax) lies in [rtoMin, rtoMax] whenever v and rtoMax are not NaN
           and rtoMin <= rtoMax, and equals rtoMax when rtoMax < rtoMin.
   Part B (Flocq 4.1 bridge, pulls the Reals axioms): srtt and rttvar stay non-negative and not NaN for every
           sequence of finite non-negative samples, hence the clamp input is never NaN.
   Part C (Flocq): back-off law of calculateNextTimeout. *)
From Coq Require Import ZArith Bool List Lia Floats.
From Sctp Require Import Rto.
Import ListNotations.

(* ================================================================================================ *)
(* Part A: order facts on spec floats                                                                *)
(* ================================================================================================ *)

Definition sf_nan (x : spec_float) : bool := match x with S754_nan => true | _ => false end.

Lemma SFltb_leb : forall x y, SFltb x y = true -> SFleb x y = true.
Proof. intros x y. unfold SFltb, SFleb. destruct (SFcompare x y) as [[]|]; congruence. Qed.

Lemma Pcompare_refl : forall m, Pos.compare_cont Eq m m = Eq.
Proof. intro m. exact (Pos.compare_refl m). Qed.

Lemma SFleb_refl : forall x, sf_nan x = false -> SFleb x x = true.
Proof.
  intros [s|s| |s m e] H; try discriminate H; unfold SFleb; simpl.
  - reflexivity.
  - destruct s; reflexivity.
  - destruct s; rewrite Z.compare_refl, Pcompare_refl; reflexivity.
Qed.

(* lexicographic comparison used by SFcompare on same-sign finite numbers *)
Definition lexc (e1 : Z) (m1 : positive) (e2 : Z) (m2 : positive) : comparison :=
  match Z.compare e1 e2 with Lt => Lt | Gt => Gt | Eq => Pos.compare_cont Eq m1 m2 end.

Definition lexlt (e1 : Z) (m1 : positive) (e2 : Z) (m2 : positive) : Prop :=
  (e1 < e2)%Z \/ (e1 = e2 /\ (m1 < m2)%positive).

Lemma lexc_Lt : forall e1 m1 e2 m2, lexc e1 m1 e2 m2 = Lt <-> lexlt e1 m1 e2 m2.
Proof.
  intros. unfold lexc, lexlt. change (Pos.compare_cont Eq m1 m2) with (Pos.compare m1 m2).
  destruct (Z.compare_spec e1 e2); destruct (Pos.compare_spec m1 m2); split; intro HH;
    try reflexivity; try discriminate HH; try lia.
Qed.

Lemma lexc_Gt : forall e1 m1 e2 m2, lexc e1 m1 e2 m2 = Gt <-> lexlt e2 m2 e1 m1.
Proof.
  intros. unfold lexc, lexlt. change (Pos.compare_cont Eq m1 m2) with (Pos.compare m1 m2).
  destruct (Z.compare_spec e1 e2); destruct (Pos.compare_spec m1 m2); split; intro HH;
    try reflexivity; try discriminate HH; try lia.
Qed.

Lemma lexc_Eq : forall e1 m1 e2 m2, lexc e1 m1 e2 m2 = Eq <-> (e1 = e2 /\ m1 = m2).
Proof.
  intros. unfold lexc. change (Pos.compare_cont Eq m1 m2) with (Pos.compare m1 m2).
  destruct (Z.compare_spec e1 e2); destruct (Pos.compare_spec m1 m2); split; intro HH;
    try reflexivity; try discriminate HH; try lia.
Qed.

Lemma SFcompare_finite : forall s1 m1 e1 s2 m2 e2,
  SFcompare (S754_finite s1 m1 e1) (S754_finite s2 m2 e2) =
  Some (match s1, s2 with
        | true, false => Lt
        | false, true => Gt
        | false, false => lexc e1 m1 e2 m2
        | true, true => CompOpp (lexc e1 m1 e2 m2)
        end).
Proof.
  intros. unfold lexc. simpl. destruct s1, s2; try reflexivity.
  destruct (e1 ?= e2)%Z; reflexivity.
Qed.

(* c <= a, b < c, a < b is impossible (transitivity through the middle point c) *)
Lemma SF_sandwich : forall a b c,
  SFleb c a = true -> SFltb b c = true -> SFltb a b = false.
Proof.
  intros a b c Hca Hbc.
  destruct (SFltb a b) eqn:Hab; [exfalso|reflexivity].
  unfold SFleb, SFltb in *.
  destruct a as [sa|sa| |sa ma ea], b as [sb|sb| |sb mb eb], c as [sc|sc| |sc mc ec];
    rewrite ?SFcompare_finite in *; cbn [SFcompare] in *;
    repeat match goal with s : bool |- _ => destruct s end;
    try discriminate;
    repeat match goal with
    | H : match lexc ?e1 ?m1 ?e2 ?m2 with _ => _ end = true |- _ =>
        let E := fresh "E" in destruct (lexc e1 m1 e2 m2) eqn:E; try discriminate H; clear H
    | H : match CompOpp (lexc ?e1 ?m1 ?e2 ?m2) with _ => _ end = true |- _ =>
        let E := fresh "E" in destruct (lexc e1 m1 e2 m2) eqn:E; try discriminate H; clear H
    end;
    repeat match goal with
    | H : lexc _ _ _ _ = Lt |- _ => apply lexc_Lt in H
    | H : lexc _ _ _ _ = Gt |- _ => apply lexc_Gt in H
    | H : lexc _ _ _ _ = Eq |- _ => apply lexc_Eq in H
    end; unfold lexlt in *; lia.
Qed.

(* ================================================================================================ *)
(* Part A, continued: the clamp of setNewRTT                                                         *)
(* ================================================================================================ *)
Local Open Scope float_scope.

(* readable order predicates on primitive floats: IEEE comparisons, false on NaN *)
Definition fle (x y : float) : Prop := (x <=? y) = true.
Definition flt (x y : float) : Prop := (x <? y) = true.
Definition fnan (x : float) : bool := rto_isnan x.

Lemma SFeqb_refl_nan : forall X, SFeqb X X = negb (sf_nan X).
Proof.
  intros [s|s| |s m e]; unfold SFeqb; simpl; try reflexivity.
  - destruct s; reflexivity.
  - destruct s; rewrite Z.compare_refl, Pcompare_refl; reflexivity.
Qed.

Lemma fnan_spec : forall x, fnan x = sf_nan (Prim2SF x).
Proof. intro x. unfold fnan, rto_isnan. rewrite eqb_spec, SFeqb_refl_nan. apply negb_involutive. Qed.

Lemma fle_not_nan_r : forall x y, fle x y -> fnan y = false.
Proof.
  intros x y H. unfold fle in H. rewrite leb_spec in H. rewrite fnan_spec.
  destruct (Prim2SF y); try reflexivity. unfold SFleb in H. destruct (Prim2SF x); discriminate H.
Qed.

Lemma fle_not_nan_l : forall x y, fle x y -> fnan x = false.
Proof.
  intros x y H. unfold fle in H. rewrite leb_spec in H. rewrite fnan_spec.
  destruct (Prim2SF x); try reflexivity. discriminate H.
Qed.

Lemma flt_fle : forall x y, flt x y -> fle x y.
Proof. unfold flt, fle. intros x y. rewrite ltb_spec, leb_spec. apply SFltb_leb. Qed.

Lemma fle_refl : forall x, fnan x = false -> fle x x.
Proof. unfold fle. intros x H. rewrite leb_spec. apply SFleb_refl. now rewrite <- fnan_spec. Qed.

Lemma f_sandwich : forall a b c, fle c a -> flt b c -> (a <? b) = false.
Proof. unfold fle, flt. intros a b c. rewrite !ltb_spec, leb_spec. apply SF_sandwich. Qed.

Definition C1000 : spec_float := S754_finite false 8796093022208000 (-43).
Lemma Prim2SF_rto_min : Prim2SF rto_min = C1000. Proof. reflexivity. Qed.

(* math.Max(v, rtoMin) for v not NaN: at least rtoMin (possibly +Inf), never NaN *)
Lemma gomax_min_ge : forall v, fnan v = false -> fle rto_min (rto_gomax v rto_min).
Proof.
  intros v Hv. unfold rto_gomax.
  destruct (rto_isinf_pos v) eqn:Hinf; [reflexivity|].
  change (rto_isinf_pos rto_min) with false. cbn [orb].
  change (rto_isnan v) with (fnan v). rewrite Hv. change (rto_isnan rto_min) with false. cbn [orb].
  assert (Hz : (v =? 0) && (v =? rto_min) = false).
  { rewrite !eqb_spec. change (Prim2SF 0) with (S754_zero false). rewrite Prim2SF_rto_min.
    destruct (Prim2SF v) as [s|s| |s m e]; try reflexivity; destruct s; reflexivity. }
  rewrite Hz.
  destruct (rto_min <? v) eqn:Hlt.
  - apply flt_fle. exact Hlt.
  - reflexivity.
Qed.

(* math.Min(r1, rtoMax) for rtoMin <= r1 and rtoMax not NaN *)
Lemma gomin_clamp : forall r1 mx, fle rto_min r1 -> fnan mx = false ->
  (fle rto_min mx -> fle rto_min (rto_gomin r1 mx) /\ fle (rto_gomin r1 mx) mx) /\
  (flt mx rto_min -> rto_gomin r1 mx = mx).
Proof.
  intros r1 mx H1 Hmx.
  assert (Hn1 : fnan r1 = false) by (eapply fle_not_nan_r; exact H1).
  assert (Hi1 : rto_isinf_neg r1 = false).
  { unfold rto_isinf_neg. unfold fle in H1. rewrite leb_spec, Prim2SF_rto_min in H1. rewrite eqb_spec.
    change (Prim2SF neg_infinity) with (S754_infinity true).
    destruct (Prim2SF r1) as [s|s| |s m e]; try reflexivity; destruct s; try reflexivity; discriminate H1. }
  assert (Hz1 : (r1 =? 0) = false).
  { unfold fle in H1. rewrite leb_spec, Prim2SF_rto_min in H1. rewrite eqb_spec.
    change (Prim2SF 0) with (S754_zero false).
    destruct (Prim2SF r1) as [s|s| |s m e]; try reflexivity; destruct s; try reflexivity; discriminate H1. }
  unfold rto_gomin. rewrite Hi1, Hz1. cbn [orb andb].
  change (rto_isnan r1) with (fnan r1). change (rto_isnan mx) with (fnan mx). rewrite Hn1, Hmx. cbn [orb].
  destruct (rto_isinf_neg mx) eqn:Him.
  - (* rtoMax = -Inf *)
    assert (Emx : mx = neg_infinity).
    { apply Prim2SF_inj. unfold rto_isinf_neg in Him. rewrite eqb_spec in Him.
      change (Prim2SF neg_infinity) with (S754_infinity true) in *.
      destruct (Prim2SF mx) as [s|s| |s m e]; try discriminate Him.
      destruct s; [reflexivity|discriminate Him]. }
    subst mx. split; [intro Hc; discriminate Hc | reflexivity].
  - destruct (r1 <? mx) eqn:Hlt.
    + split.
      * intros _. split; [exact H1 | apply flt_fle; exact Hlt].
      * intro Hc. rewrite (f_sandwich r1 mx rto_min H1 Hc) in Hlt. discriminate Hlt.
    + split.
      * intro Hc. split; [exact Hc | apply fle_refl; exact Hmx].
      * reflexivity.
Qed.

(* The clamp of setNewRTT: for every non-NaN input v = srtt + 4*rttvar and every non-NaN rtoMax *)
Lemma rto_clamp_range : forall s v mx,
  fnan (s + 4 * v) = false -> fnan mx = false ->
  (fle rto_min mx -> fle rto_min (rto_clamp s v mx) /\ fle (rto_clamp s v mx) mx) /\
  (flt mx rto_min -> rto_clamp s v mx = mx).
Proof.
  intros s v mx Hv Hmx. unfold rto_clamp. apply gomin_clamp; [apply gomax_min_ge; exact Hv | exact Hmx].
Qed.

(* what a NaN input does: the result is NaN unless rtoMax is -Inf *)
Lemma rto_clamp_nan : forall s v mx,
  fnan (s + 4 * v) = true -> rto_isinf_neg mx = false -> fnan (rto_clamp s v mx) = true.
Proof.
  intros s v mx Hv Hmx. unfold rto_clamp.
  assert (E : rto_gomax (s + 4 * v) rto_min = nan).
  { unfold rto_gomax. change (rto_isinf_pos rto_min) with false.
    assert (Hi : rto_isinf_pos (s + 4 * v) = false).
    { unfold rto_isinf_pos. rewrite eqb_spec. rewrite fnan_spec in Hv.
      destruct (Prim2SF (s + 4 * v)); try discriminate Hv. reflexivity. }
    rewrite Hi. cbn [orb]. change (rto_isnan (s + 4 * v)) with (fnan (s + 4 * v)). rewrite Hv. reflexivity. }
  rewrite E. unfold rto_gomin. change (rto_isinf_neg nan) with false. rewrite Hmx. reflexivity.
Qed.

(* ================================================================================================ *)
(* Part B (Flocq bridge): srtt and rttvar stay >= 0 and not NaN                                      *)
(* ================================================================================================ *)
Notation primf := Coq.Floats.PrimFloat.float (only parsing).
From Coq Require Import Reals.
From Flocq Require Import Core.Core IEEE754.BinarySingleNaN.
Require Flocq.IEEE754.PrimFloat.
Module FP := Flocq.IEEE754.PrimFloat.
Local Existing Instance FP.Hprec.
Local Existing Instance FP.Hmax.

Notation bfloat := (binary_float prec emax).
Notation Bzero := (B754_zero false : bfloat).

(* "x >= 0 and x is not NaN" on Flocq binary floats: +0, -0, positive finite, +Inf *)
Definition NNb (X : bfloat) : Prop := Bleb Bzero X = true.

Lemma NNb_of_finite_sign : forall Z : bfloat, is_nan Z = false -> Bsign Z = false -> NNb Z.
Proof. intros [s|s| |s m e H] Hn Hs; simpl in *; try discriminate; subst; reflexivity. Qed.

Lemma NNb_of_overflow : forall Z : bfloat, B2SF Z = binary_overflow prec emax mode_NE false -> NNb Z.
Proof. intros Z H. unfold NNb, Bleb. rewrite H. reflexivity. Qed.

Lemma finite_not_nan : forall Z : bfloat, is_finite Z = true -> is_nan Z = false.
Proof. intros [s|s| |s m e H]; simpl; congruence. Qed.

Lemma B2R_pos_finite : forall m e H, (0 < B2R (B754_finite false m e H : bfloat))%R.
Proof. intros. simpl. apply F2R_gt_0. reflexivity. Qed.

Lemma Bmult_NNb : forall mc ec Hc (X : bfloat), NNb X ->
  NNb (Bmult mode_NE (B754_finite false mc ec Hc) X).
Proof.
  intros mc ec Hc X HX. set (C := B754_finite false mc ec Hc : bfloat).
  destruct X as [s|s| |s m e H]; try discriminate HX.
  - destruct s; reflexivity.
  - destruct s; [discriminate HX | reflexivity].
  - destruct s; [discriminate HX|].
    generalize (Bmult_correct prec emax FP.Hprec FP.Hmax mode_NE C (B754_finite false m e H)).
    destruct Rlt_bool.
    + intros (_ & HF & HS). simpl in HF. apply finite_not_nan in HF.
      apply NNb_of_finite_sign; [exact HF | exact (HS HF)].
    + intro HO. apply NNb_of_overflow. exact HO.
Qed.

Lemma Bplus_NNb : forall X Y : bfloat, NNb X -> NNb Y -> NNb (Bplus mode_NE X Y).
Proof.
  intros X Y HX HY.
  destruct X as [sx|sx| |sx mx ex Hx]; try discriminate HX;
  destruct Y as [sy|sy| |sy my ey Hy]; try discriminate HY;
  destruct sx; try discriminate HX; destruct sy; try discriminate HY; try reflexivity.
  generalize (Bplus_correct prec emax FP.Hprec FP.Hmax mode_NE
                (B754_finite false mx ex Hx) (B754_finite false my ey Hy) eq_refl eq_refl).
  destruct Rlt_bool.
  - intros (_ & HF & HS). apply NNb_of_finite_sign; [apply finite_not_nan; exact HF|].
    rewrite HS. rewrite Rcompare_Gt; [reflexivity|].
    apply Rplus_lt_0_compat; apply B2R_pos_finite.
  - intros (HO & _). apply NNb_of_overflow. exact HO.
Qed.

(* x - y is not NaN when y is finite (x may be +Inf) *)
Lemma Bminus_not_nan : forall X Y : bfloat, NNb X -> NNb Y -> is_finite Y = true ->
  is_nan (Bminus mode_NE X Y) = false.
Proof.
  intros X Y HX HY HFY.
  destruct X as [sx|sx| |sx mx ex Hx]; try discriminate HX;
  destruct Y as [sy|sy| |sy my ey Hy]; try discriminate HY; try discriminate HFY;
  destruct sx; try discriminate HX; destruct sy; try discriminate HY; try reflexivity.
  generalize (Bminus_correct prec emax FP.Hprec FP.Hmax mode_NE
                (B754_finite false mx ex Hx) (B754_finite false my ey Hy) eq_refl eq_refl).
  destruct Rlt_bool.
  - intros (_ & HF & _). apply finite_not_nan. exact HF.
  - intros (HO & _). destruct (Bminus mode_NE _ _); try reflexivity. discriminate HO.
Qed.

Lemma Babs_NNb : forall Z : bfloat, is_nan Z = false -> NNb (Babs Z).
Proof. intros [s|s| |s m e H] Hn; try discriminate Hn; reflexivity. Qed.

Lemma Bdiv_NNb : forall (X : bfloat) md ed Hd, NNb X -> is_finite X = true ->
  NNb (Bdiv mode_NE X (B754_finite false md ed Hd)).
Proof.
  intros X md ed Hd HX HF. set (D := B754_finite false md ed Hd : bfloat).
  destruct X as [s|s| |s m e H]; try discriminate HX; try discriminate HF.
  - destruct s; reflexivity.
  - destruct s; [discriminate HX|].
    assert (HD : B2R D <> 0%R) by (apply Rgt_not_eq; apply B2R_pos_finite).
    generalize (Bdiv_correct prec emax FP.Hprec FP.Hmax mode_NE (B754_finite false m e H) D HD).
    destruct Rlt_bool.
    + intros (_ & HF' & HS). simpl in HF'. apply finite_not_nan in HF'.
      apply NNb_of_finite_sign; [exact HF' | exact (HS HF')].
    + intro HO. apply NNb_of_overflow. exact HO.
Qed.

(* ---------- the same facts on primitive floats ---------- *)
Lemma Prim2B_zero : FP.Prim2B 0 = Bzero. Proof. reflexivity. Qed.

Lemma fle0_NNb : forall x, fle 0 x <-> NNb (FP.Prim2B x).
Proof. intro x. unfold fle, NNb. rewrite FP.leb_equiv, Prim2B_zero. tauto. Qed.

Lemma Prim2B_pos_finite : forall c m e, Prim2SF c = S754_finite false m e ->
  exists H, FP.Prim2B c = B754_finite false m e H.
Proof.
  intros c m e E. rewrite <- FP.B2SF_Prim2B in E.
  destruct (FP.Prim2B c) as [s|s| |s m' e' H]; simpl in E; try discriminate E.
  injection E as -> -> ->. eexists; reflexivity.
Qed.

(* c is a positive finite float *)
Definition fposfin (c : primf) : Prop := exists m e, Prim2SF c = S754_finite false m e.

Lemma fmul_nn : forall c x, fposfin c -> fle 0 x -> fle 0 (c * x).
Proof.
  intros c x (m & e & Hc) Hx. apply fle0_NNb in Hx. apply fle0_NNb.
  destruct (Prim2B_pos_finite c m e Hc) as (H & E).
  rewrite FP.mul_equiv, E. apply Bmult_NNb. exact Hx.
Qed.

Lemma fadd_nn : forall x y, fle 0 x -> fle 0 y -> fle 0 (x + y).
Proof.
  intros x y Hx Hy. apply fle0_NNb in Hx, Hy. apply fle0_NNb.
  rewrite FP.add_equiv. apply Bplus_NNb; assumption.
Qed.

Lemma flt_inf_finite : forall y, fle 0 y -> flt y infinity -> is_finite (FP.Prim2B y) = true.
Proof.
  intros y H0 H. apply fle0_NNb in H0. unfold flt in H. rewrite FP.ltb_equiv in H.
  replace (FP.Prim2B infinity) with (B754_infinity false : bfloat) in H by reflexivity.
  destruct (FP.Prim2B y) as [s|s| |s m e Hm]; try reflexivity; try discriminate H.
  destruct s; [discriminate H0 | discriminate H].
Qed.

Lemma fabs_sub_nn : forall x y, fle 0 x -> fle 0 y -> flt y infinity -> fle 0 (abs (x - y)).
Proof.
  intros x y Hx Hy Hfy. apply fle0_NNb in Hx, Hy. apply fle0_NNb.
  rewrite FP.abs_equiv, FP.sub_equiv. apply Babs_NNb. apply Bminus_not_nan; try assumption.
  apply flt_inf_finite; [apply fle0_NNb; exact Hy | exact Hfy].
Qed.

Lemma fdiv2_nn : forall x, fle 0 x -> flt x infinity -> fle 0 (x / 2).
Proof.
  intros x Hx Hf. apply fle0_NNb in Hx. apply fle0_NNb.
  destruct (Prim2B_pos_finite 2 4503599627370496 (-51) eq_refl) as (H & E).
  rewrite FP.div_equiv, E. apply Bdiv_NNb; [exact Hx | apply flt_inf_finite; [apply fle0_NNb; exact Hx | exact Hf]].
Qed.

Lemma fle0_not_nan : forall x, fle 0 x -> fnan x = false.
Proof. intros x H. eapply fle_not_nan_r. exact H. Qed.

(* ---------- one smoothing step keeps srtt, rttvar >= 0; the clamp input is not NaN ---------- *)
Definition sample_ok (r : primf) : Prop := fle 0 r /\ flt r infinity.

Lemma posfin_consts :
  fposfin (1 - rto_beta) /\ fposfin rto_beta /\ fposfin (1 - rto_alpha) /\ fposfin rto_alpha /\ fposfin 4.
Proof. repeat split; do 2 eexists; reflexivity. Qed.

Lemma rto_smooth_nn : forall s v r, fle 0 s -> fle 0 v -> sample_ok r ->
  fle 0 (fst (rto_smooth s v r)) /\ fle 0 (snd (rto_smooth s v r)).
Proof.
  intros s v r Hs Hv (Hr & Hrf). destruct posfin_consts as (P1 & P2 & P3 & P4 & _).
  unfold rto_smooth. destruct (s =? 0).
  - split; [exact Hr | apply fdiv2_nn; assumption].
  - cbn [fst snd]. split.
    + apply fadd_nn; apply fmul_nn; assumption.
    + apply fadd_nn; apply fmul_nn; try assumption. apply fabs_sub_nn; assumption.
Qed.

Lemma rto_clamp_input_not_nan : forall s v, fle 0 s -> fle 0 v -> fnan (s + 4 * v) = false.
Proof.
  intros s v Hs Hv. apply fle0_not_nan. apply fadd_nn; [exact Hs|].
  apply fmul_nn; [apply posfin_consts | exact Hv].
Qed.

(* ================================================================================================ *)
(* rto_bounds: all sequences of samples and resets                                                   *)
(* ================================================================================================ *)
Inductive rto_ev := ESample (r : primf) | EReset.

Definition rto_apply (m : rtomgr) (e : rto_ev) : rtomgr :=
  match e with ESample r => fst (rto_set_new_rtt m r) | EReset => rto_reset m end.

Definition rto_ev_ok (e : rto_ev) : Prop := match e with ESample r => sample_ok r | EReset => True end.

(* the rtoMax actually stored by newRTOManager *)
Definition rto_eff_max (mx0 : primf) : primf := if mx0 =? 0 then rto_default_max else mx0.

Definition rto_inv (MX : primf) (m : rtomgr) : Prop :=
  rm_noupdate m = false /\ rm_rtomax m = MX /\ fle 0 (rm_srtt m) /\ fle 0 (rm_rttvar m) /\
  (fle rto_min MX -> fle rto_min (rm_rto m) /\ fle (rm_rto m) MX).

Lemma rto_inv_new : forall mx0, rto_inv (rto_eff_max mx0) (rto_new mx0).
Proof.
  intro mx0. unfold rto_inv, rto_new, rto_eff_max. cbn [rm_noupdate rm_rtomax rm_srtt rm_rttvar rm_rto].
  repeat split; try reflexivity. exact H.
Qed.

Lemma rto_eff_max_not_nan : forall mx0, fnan mx0 = false -> fnan (rto_eff_max mx0) = false.
Proof. intros mx0 H. unfold rto_eff_max. destruct (mx0 =? 0); [reflexivity | exact H]. Qed.

Lemma rto_inv_step : forall MX m e, fnan MX = false -> rto_ev_ok e -> rto_inv MX m -> rto_inv MX (rto_apply m e).
Proof.
  intros MX m e HMX He (Hnu & Hmx & Hs & Hv & Hr).
  destruct e as [r|]; cbn [rto_apply rto_ev_ok] in *.
  - unfold rto_set_new_rtt. rewrite Hnu.
    destruct (rto_smooth_nn (rm_srtt m) (rm_rttvar m) r Hs Hv He) as (Hs' & Hv').
    destruct (rto_smooth (rm_srtt m) (rm_rttvar m) r) as [s' v']. cbn [fst snd] in *.
    unfold rto_inv. cbn [rm_noupdate rm_rtomax rm_srtt rm_rttvar rm_rto]. rewrite Hmx.
    repeat split; try assumption;
      destruct (rto_clamp_range s' v' MX (rto_clamp_input_not_nan s' v' Hs' Hv') HMX) as (HA & _);
      apply HA; assumption.
  - unfold rto_reset. rewrite Hnu. unfold rto_inv. cbn [rm_noupdate rm_rtomax rm_srtt rm_rttvar rm_rto].
    repeat split; try reflexivity; try assumption.
Qed.

Lemma rto_inv_run : forall MX evs m, fnan MX = false -> Forall rto_ev_ok evs -> rto_inv MX m ->
  rto_inv MX (fold_left rto_apply evs m).
Proof.
  intros MX evs. induction evs as [|e evs IH]; intros m HMX Hok Hinv; [exact Hinv|].
  inversion Hok; subst. cbn [fold_left]. apply IH; try assumption. apply rto_inv_step; assumption.
Qed.

(* For every configured maximum that is not NaN and every sequence of finite non-negative samples
   (interleaved with resets), the RTO is between rtoMin and the effective maximum whenever
   rtoMin <= max. *)
Theorem rto_bounds : forall mx0 evs,
  fnan mx0 = false -> Forall rto_ev_ok evs ->
  let m := fold_left rto_apply evs (rto_new mx0) in
  rm_rtomax m = rto_eff_max mx0 /\
  (fle rto_min (rto_eff_max mx0) -> fle rto_min (rto_get m) /\ fle (rto_get m) (rto_eff_max mx0)).
Proof.
  intros mx0 evs Hmx Hok m.
  destruct (rto_inv_run (rto_eff_max mx0) evs (rto_new mx0) (rto_eff_max_not_nan mx0 Hmx) Hok (rto_inv_new mx0))
    as (_ & H1 & _ & _ & H2).
  split; [exact H1 | exact H2].
Qed.

(* When the configured maximum is below rtoMin, every update sets rto to exactly that maximum. *)
Theorem rto_small_max : forall mx0 evs r,
  fnan mx0 = false -> Forall rto_ev_ok evs -> sample_ok r ->
  flt (rto_eff_max mx0) rto_min ->
  rto_get (fold_left rto_apply (evs ++ [ESample r]) (rto_new mx0)) = rto_eff_max mx0.
Proof.
  intros mx0 evs r Hmx Hok Hr Hsmall. rewrite fold_left_app. cbn [fold_left rto_apply].
  destruct (rto_inv_run (rto_eff_max mx0) evs (rto_new mx0) (rto_eff_max_not_nan mx0 Hmx) Hok (rto_inv_new mx0))
    as (Hnu & H1 & Hs & Hv & _).
  set (m := fold_left rto_apply evs (rto_new mx0)) in *.
  unfold rto_set_new_rtt. rewrite Hnu.
  destruct (rto_smooth_nn (rm_srtt m) (rm_rttvar m) r Hs Hv Hr) as (Hs' & Hv').
  destruct (rto_smooth (rm_srtt m) (rm_rttvar m) r) as [s' v']. cbn [fst snd rto_get rm_rto] in *.
  rewrite H1.
  destruct (rto_clamp_range s' v' (rto_eff_max mx0) (rto_clamp_input_not_nan s' v' Hs' Hv')
              (rto_eff_max_not_nan mx0 Hmx)) as (_ & HB).
  apply HB. exact Hsmall.
Qed.

(* ================================================================================================ *)
(* Part C: calculateNextTimeout                                                                      *)
(* ================================================================================================ *)
Local Open Scope Z_scope.

(* float64(1 << n) for n = 0 .. 30 is the float 2^n = 2^52 * 2^(n-52) *)
Lemma rto_pow2_spec : forall n, 0 <= n < 31 ->
  Prim2SF (rto_pow2 n) = S754_finite false 4503599627370496 (n - 52).
Proof.
  intros n H.
  assert (E : exists k, (k < 31)%nat /\ n = Z.of_nat k) by (exists (Z.to_nat n); lia).
  destruct E as (k & Hk & ->).
  do 31 (destruct k as [|k]; [reflexivity|]). lia.
Qed.

Lemma rto_pow2_posfin : forall n, 0 <= n < 31 -> fposfin (rto_pow2 n).
Proof. intros n H. do 2 eexists. apply rto_pow2_spec. exact H. Qed.

(* the definition is the back-off law: min(rto * 2^n, rtoMax) below 31 expiries, rtoMax from then on *)
Lemma rto_next_timeout_law : forall rto n mx,
  (0 <= n < 31 -> rto_next_timeout rto n mx = rto_gomin (rto * rto_pow2 n)%float mx) /\
  (31 <= n -> rto_next_timeout rto n mx = mx).
Proof.
  intros rto n mx. unfold rto_next_timeout. split; intro H.
  - destruct (n <? 31) eqn:E; [reflexivity|lia].
  - destruct (n <? 31) eqn:E; [lia|reflexivity].
Qed.

Lemma SFeqb_leb : forall x y, SFeqb x y = true -> SFleb x y = true.
Proof. intros x y. unfold SFeqb, SFleb. destruct (SFcompare x y) as [[]|]; congruence. Qed.

Lemma SFleb_neg_inf : forall X, sf_nan X = false -> SFleb (S754_infinity true) X = true.
Proof. intros [s|s| |s m e] H; try discriminate H; try reflexivity. destruct s; reflexivity. Qed.

(* math.Min(p, mx) <= mx whenever neither is NaN *)
Lemma gomin_le_r : forall p mx, fnan p = false -> fnan mx = false -> fle (rto_gomin p mx) mx.
Proof.
  intros p mx Hp Hmx. unfold rto_gomin.
  destruct (rto_isinf_neg p || rto_isinf_neg mx).
  - unfold fle. rewrite leb_spec. change (Prim2SF neg_infinity) with (S754_infinity true).
    apply SFleb_neg_inf. rewrite <- fnan_spec. exact Hmx.
  - change (rto_isnan p) with (fnan p). change (rto_isnan mx) with (fnan mx). rewrite Hp, Hmx. cbn [orb].
    destruct ((p =? 0) && (p =? mx))%float eqn:Ez.
    + apply andb_prop in Ez. destruct Ez as [_ Ez].
      destruct (rto_signbit p).
      * unfold fle. rewrite leb_spec. rewrite eqb_spec in Ez. apply SFeqb_leb. exact Ez.
      * apply fle_refl. exact Hmx.
    + destruct (p <? mx)%float eqn:El.
      * apply flt_fle. exact El.
      * apply fle_refl. exact Hmx.
Qed.

(* the constant on the right: x * 2^n *)
Lemma Bmult_NNb_r : forall mc ec Hc (X : bfloat), NNb X ->
  NNb (Bmult mode_NE X (B754_finite false mc ec Hc)).
Proof.
  intros mc ec Hc X HX. set (C := B754_finite false mc ec Hc : bfloat).
  destruct X as [s|s| |s m e H]; try discriminate HX.
  - destruct s; reflexivity.
  - destruct s; [discriminate HX | reflexivity].
  - destruct s; [discriminate HX|].
    generalize (Bmult_correct prec emax FP.Hprec FP.Hmax mode_NE (B754_finite false m e H) C).
    destruct Rlt_bool.
    + intros (_ & HF & HS). simpl in HF. apply finite_not_nan in HF.
      apply NNb_of_finite_sign; [exact HF | exact (HS HF)].
    + intro HO. apply NNb_of_overflow. exact HO.
Qed.

Lemma fmul_nn_r : forall x c, fposfin c -> fle 0 x -> fle 0 (x * c)%float.
Proof.
  intros x c (m & e & Hc) Hx. apply fle0_NNb in Hx. apply fle0_NNb.
  destruct (Prim2B_pos_finite c m e Hc) as (H & E).
  rewrite FP.mul_equiv, E. apply Bmult_NNb_r. exact Hx.
Qed.

(* every time-out handed to the runtime timer is at most rtoMax *)
Theorem rto_next_timeout_le_max : forall rto n mx, 0 <= n ->
  fle 0 rto -> fnan mx = false -> fle (rto_next_timeout rto n mx) mx.
Proof.
  intros rto n mx Hn Hr Hmx. unfold rto_next_timeout. destruct (n <? 31) eqn:E.
  - apply gomin_le_r; [|exact Hmx]. apply fle0_not_nan. apply fmul_nn_r; [apply rto_pow2_posfin; lia | exact Hr].
  - apply fle_refl. exact Hmx.
Qed.

(* ---------- lower bound: rtoMin <= rto implies rtoMin <= rto * 2^n (rounding is monotone) ---------- *)
Lemma B2R_pow2_ge_1 : forall n H, 0 <= n ->
  (1 <= B2R (B754_finite false 4503599627370496 (n - 52) H : bfloat))%R.
Proof.
  intros n H Hn. simpl. unfold F2R. simpl.
  change 4503599627370496%R with (IZR (Zpower radix2 52)).
  rewrite IZR_Zpower by lia. rewrite <- bpow_plus.
  change 1%R with (bpow radix2 0). apply bpow_le. lia.
Qed.

Lemma Bmult_ge_min : forall (C X : bfloat) n H, 0 <= n ->
  is_finite C = true -> Bsign C = false -> (0 < B2R C)%R ->
  Bleb C X = true ->
  Bleb C (Bmult mode_NE X (B754_finite false 4503599627370496 (n - 52) H)) = true.
Proof.
  intros C X n H Hn FC SC PC HX. set (P := B754_finite false 4503599627370496 (n - 52) H : bfloat).
  destruct C as [sc|sc| |sc mc ec Hc]; try discriminate FC.
  { simpl in PC. exfalso. apply (Rlt_irrefl 0). exact PC. }
  simpl in SC. subst sc. set (C := B754_finite false mc ec Hc : bfloat) in *.
  destruct X as [s|s| |s m e Hx]; try discriminate HX.
  - destruct s; [discriminate HX | reflexivity].
  - destruct s; [discriminate HX|]. set (X := B754_finite false m e Hx : bfloat) in *.
    assert (LX : (B2R C <= B2R X)%R).
    { rewrite (Bleb_correct prec emax C X eq_refl eq_refl) in HX.
      destruct (Rle_bool_spec (B2R C) (B2R X)) as [L|L]; [exact L | discriminate HX]. }
    assert (LP : (B2R C <= B2R X * B2R P)%R).
    { pose proof (B2R_pow2_ge_1 n H Hn) as H1. fold P in H1.
      apply Rle_trans with (1 := LX). rewrite <- (Rmult_1_r (B2R X)) at 1.
      apply Rmult_le_compat_l; [|exact H1]. apply Rle_trans with (2 := LX). apply Rlt_le. exact PC. }
    generalize (Bmult_correct prec emax FP.Hprec FP.Hmax mode_NE X P).
    destruct Rlt_bool.
    + intros (HR & HF & _). change (is_finite (Bmult mode_NE X P) = true) in HF.
      rewrite (Bleb_correct prec emax C _ eq_refl HF). apply Rle_bool_true. rewrite HR.
      rewrite <- (round_generic radix2 (SpecFloat.fexp prec emax) (round_mode mode_NE) (B2R C)) at 1.
      * apply round_le; try typeclasses eauto. exact LP.
      * apply generic_format_B2R.
    + intro HO. unfold Bleb. rewrite HO. reflexivity.
Qed.

Lemma fmul_pow2_ge_min : forall rto n, 0 <= n < 31 -> fle rto_min rto -> fle rto_min (rto * rto_pow2 n)%float.
Proof.
  intros rto n Hn H. unfold fle in *. rewrite FP.leb_equiv in *. rewrite FP.mul_equiv.
  destruct (Prim2B_pos_finite (rto_pow2 n) _ _ (rto_pow2_spec n Hn)) as (Hb & E). rewrite E.
  destruct (Prim2B_pos_finite rto_min _ _ Prim2SF_rto_min) as (Hc & Ec). rewrite Ec in *.
  apply Bmult_ge_min; try reflexivity; try lia; try assumption.
  apply B2R_pos_finite.
Qed.

(* every time-out handed to the runtime timer lies in [rtoMin, rtoMax] when rto does; and equals rtoMax
   when rtoMax < rtoMin <= rto *)
Theorem rto_next_timeout_bounds : forall rto n mx, 0 <= n ->
  fle rto_min rto -> fnan mx = false ->
  (fle rto_min mx -> fle rto_min (rto_next_timeout rto n mx) /\ fle (rto_next_timeout rto n mx) mx) /\
  (flt mx rto_min -> rto_next_timeout rto n mx = mx).
Proof.
  intros rto n mx Hn Hr Hmx. unfold rto_next_timeout. destruct (n <? 31) eqn:E.
  - apply gomin_clamp; [|exact Hmx]. apply fmul_pow2_ge_min; [lia | exact Hr].
  - split; [|reflexivity]. intro H. split; [exact H | apply fle_refl; exact Hmx].
Qed.

(* ================================================================================================ *)
(* Part C, continued: doubling.  Multiplication by a power of two is exact unless it overflows       *)
(* ================================================================================================ *)
Local Open Scope R_scope.

Lemma B2R_pow2 : forall n H, B2R (B754_finite false 4503599627370496 (n - 52) H : bfloat) = bpow radix2 n.
Proof.
  intros n H. simpl. unfold F2R. simpl.
  change 4503599627370496%R with (IZR (Zpower radix2 52)).
  rewrite IZR_Zpower by lia. rewrite <- bpow_plus. f_equal. lia.
Qed.

(* x * 2^k is in the format whenever x is (k >= 0) *)
Lemma format_scale : forall (X : bfloat) k, (0 <= k)%Z ->
  generic_format radix2 (SpecFloat.fexp prec emax) (B2R X * bpow radix2 k).
Proof.
  intros X k Hk.
  destruct (FLT_format_B2R prec emax FP.Hprec X) as [f Hf Hm He].
  apply generic_format_FLT.
  apply FLT_spec with (Float radix2 (Fnum f) (Fexp f + k)).
  - rewrite Hf. unfold F2R. simpl. rewrite bpow_plus. ring.
  - exact Hm.
  - simpl. lia.
Qed.

(* multiplication of a finite float by the float 2^k *)
Lemma Bmult_pow2 : forall (X P : bfloat) k, (0 <= k)%Z ->
  is_finite X = true -> is_finite P = true -> Bsign P = false -> B2R P = bpow radix2 k ->
  if Rlt_bool (Rabs (B2R X * bpow radix2 k)) (bpow radix2 emax)
  then B2R (Bmult mode_NE X P) = B2R X * bpow radix2 k /\ is_finite (Bmult mode_NE X P) = true /\
       Bsign (Bmult mode_NE X P) = Bsign X
  else B2SF (Bmult mode_NE X P) = S754_infinity (Bsign X).
Proof.
  intros X P k Hk FX FP SP RP.
  generalize (Bmult_correct prec emax FP.Hprec FP.Hmax mode_NE X P).
  rewrite RP. rewrite (round_generic radix2 (SpecFloat.fexp prec emax) (round_mode mode_NE) _ (format_scale X k Hk)).
  destruct (Rlt_bool (Rabs (B2R X * bpow radix2 k)) (bpow radix2 emax)).
  - intros (HR & HF & HS). rewrite FX, FP in HF. cbn [andb] in HF.
    split; [exact HR|]. split; [exact HF|].
    rewrite (HS (finite_not_nan _ HF)), SP. apply xorb_false_r.
  - intro HO. rewrite HO, SP, xorb_false_r. reflexivity.
Qed.

Lemma finite_pos_form : forall (P : bfloat) k, is_finite P = true -> Bsign P = false -> B2R P = bpow radix2 k ->
  exists m e H, P = B754_finite false m e H.
Proof.
  intros [s|s| |s m e H] k FP SP RP; try discriminate FP.
  - exfalso. simpl in RP. pose proof (bpow_gt_0 radix2 k) as G. rewrite <- RP in G. apply (Rlt_irrefl 0). exact G.
  - simpl in SP. subst s. do 3 eexists. reflexivity.
Qed.

Lemma Bmult_double : forall (X Pn Pn1 Two : bfloat) n, (0 <= n)%Z ->
  is_finite Pn = true -> Bsign Pn = false -> B2R Pn = bpow radix2 n ->
  is_finite Pn1 = true -> Bsign Pn1 = false -> B2R Pn1 = bpow radix2 (n + 1) ->
  is_finite Two = true -> Bsign Two = false -> B2R Two = bpow radix2 1 ->
  Bmult mode_NE X Pn1 = Bmult mode_NE (Bmult mode_NE X Pn) Two.
Proof.
  intros X Pn Pn1 Two n Hn F0 S0 R0 F1 S1 R1 F2 S2 R2.
  destruct (finite_pos_form Pn n F0 S0 R0) as (m0 & e0 & H0 & E0).
  destruct (finite_pos_form Pn1 (n + 1) F1 S1 R1) as (m1 & e1 & H1 & E1).
  destruct (finite_pos_form Two 1 F2 S2 R2) as (m2 & e2 & H2 & E2).
  destruct X as [sx|sx| |sx mx ex Hx].
  - subst. destruct sx; reflexivity.
  - subst. destruct sx; reflexivity.
  - subst. reflexivity.
  - set (X := B754_finite sx mx ex Hx : bfloat).
    assert (FX : is_finite X = true) by reflexivity.
    assert (SX : Bsign X = sx) by reflexivity.
    set (r0 := B2R X * bpow radix2 n). set (r1 := B2R X * bpow radix2 (n + 1)).
    assert (Er : r1 = r0 * bpow radix2 1) by (unfold r0, r1; rewrite bpow_plus; ring).
    assert (Hle : Rabs r0 <= Rabs r1).
    { rewrite Er, Rabs_mult. rewrite <- (Rmult_1_r (Rabs r0)) at 1. apply Rmult_le_compat_l; [apply Rabs_pos|].
      rewrite Rabs_pos_eq by apply bpow_ge_0. change 1 with (bpow radix2 0). apply bpow_le. lia. }
    pose proof (Bmult_pow2 X Pn1 (n + 1) ltac:(lia) FX F1 S1 R1) as L1. fold r1 in L1.
    pose proof (Bmult_pow2 X Pn n Hn FX F0 S0 R0) as L0. fold r0 in L0.
    destruct (Rlt_bool_spec (Rabs r1) (bpow radix2 emax)) as [B1|B1].
    + (* no overflow *)
      destruct L1 as (HR1 & HF1 & HS1).
      rewrite Rlt_bool_true in L0 by (eapply Rle_lt_trans; eassumption).
      destruct L0 as (HR0 & HF0 & HS0).
      pose proof (Bmult_pow2 (Bmult mode_NE X Pn) Two 1 ltac:(lia) HF0 F2 S2 R2) as L2.
      rewrite HR0, <- Er in L2. rewrite Rlt_bool_true in L2 by exact B1.
      destruct L2 as (HR2 & HF2 & HS2).
      apply B2R_Bsign_inj; try assumption; congruence.
    + (* overflow *)
      apply B2SF_inj. rewrite L1.
      destruct (Rlt_bool_spec (Rabs r0) (bpow radix2 emax)) as [B0|B0].
      * destruct L0 as (HR0 & HF0 & HS0).
        pose proof (Bmult_pow2 (Bmult mode_NE X Pn) Two 1 ltac:(lia) HF0 F2 S2 R2) as L2.
        rewrite HR0, <- Er in L2. rewrite Rlt_bool_false in L2 by exact B1.
        rewrite L2, HS0. reflexivity.
      * destruct (Bmult mode_NE X Pn) as [s|s| |s m e H]; try discriminate L0.
        simpl in L0. injection L0 as ->. subst Two. simpl. rewrite xorb_false_r. reflexivity.
Qed.
Local Close Scope R_scope.

Lemma Prim2B_pow2 : forall n, 0 <= n < 31 ->
  is_finite (FP.Prim2B (rto_pow2 n)) = true /\ Bsign (FP.Prim2B (rto_pow2 n)) = false /\
  B2R (FP.Prim2B (rto_pow2 n)) = bpow radix2 n.
Proof.
  intros n Hn. destruct (Prim2B_pos_finite (rto_pow2 n) _ _ (rto_pow2_spec n Hn)) as (H & E).
  rewrite E. split; [reflexivity|]. split; [reflexivity|]. apply B2R_pow2.
Qed.

(* rto * 2^(n+1) = (rto * 2^n) * 2, bit for bit, for every float rto (zeros, infinities and NaN included) *)
Theorem rto_mul_pow2_succ : forall rto n, 0 <= n < 30 ->
  (rto * rto_pow2 (n + 1) = (rto * rto_pow2 n) * 2)%float.
Proof.
  intros rto n Hn. apply FP.Prim2B_inj. rewrite !FP.mul_equiv.
  destruct (Prim2B_pow2 n ltac:(lia)) as (F0 & S0 & R0).
  destruct (Prim2B_pow2 (n + 1) ltac:(lia)) as (F1 & S1 & R1).
  destruct (Prim2B_pos_finite 2%float 4503599627370496 (1 - 52) eq_refl) as (H2 & E2).
  apply (Bmult_double _ _ _ _ n); try assumption; try lia; rewrite E2; try reflexivity.
  apply B2R_pow2.
Qed.

Lemma gomin_lt_left : forall p mx, flt p mx -> rto_gomin p mx = p.
Proof.
  intros p mx H. unfold rto_gomin.
  assert (Hp : fnan p = false) by (eapply fle_not_nan_l; apply flt_fle; exact H).
  assert (Hm : fnan mx = false) by (eapply fle_not_nan_r; apply flt_fle; exact H).
  change (rto_isnan p) with (fnan p). change (rto_isnan mx) with (fnan mx). rewrite Hp, Hm.
  assert (Hi : rto_isinf_neg mx = false).
  { unfold rto_isinf_neg. unfold flt in H. rewrite ltb_spec in H. rewrite eqb_spec.
    change (Prim2SF neg_infinity) with (S754_infinity true).
    destruct (Prim2SF mx) as [s|s| |s m e]; try reflexivity; destruct s; try reflexivity.
    destruct (Prim2SF p) as [s'|s'| |s' m' e']; try discriminate H; destruct s'; discriminate H. }
  rewrite Hi, orb_false_r. cbn [orb].
  destruct (rto_isinf_neg p) eqn:Hip.
  - apply Prim2SF_inj. unfold rto_isinf_neg in Hip. rewrite eqb_spec in Hip.
    change (Prim2SF neg_infinity) with (S754_infinity true) in *.
    destruct (Prim2SF p) as [s|s| |s m e]; try discriminate Hip; destruct s; try discriminate Hip; reflexivity.
  - assert (Hz : ((p =? 0) && (p =? mx))%float = false).
    { destruct (p =? 0)%float eqn:E0; [|reflexivity]. cbn [andb].
      unfold flt in H. rewrite ltb_spec in H. rewrite eqb_spec.
      unfold SFltb in H. unfold SFeqb. destruct (SFcompare (Prim2SF p) (Prim2SF mx)) as [[]|]; try discriminate H; reflexivity. }
    rewrite Hz. unfold flt in H. rewrite H. reflexivity.
Qed.

(* doubling law: while the backed-off value is still below rtoMax, the next time-out is min(2 * T(n), rtoMax) *)
Theorem rto_backoff_doubling : forall rto n mx, 0 <= n < 30 ->
  flt (rto * rto_pow2 n)%float mx ->
  rto_next_timeout rto n mx = (rto * rto_pow2 n)%float /\
  rto_next_timeout rto (n + 1) mx = rto_gomin (rto_next_timeout rto n mx * 2)%float mx.
Proof.
  intros rto n mx Hn Hlt.
  destruct (rto_next_timeout_law rto n mx) as (L0 & _).
  destruct (rto_next_timeout_law rto (n + 1) mx) as (L1 & _).
  rewrite L0 by lia. rewrite L1 by lia. rewrite (gomin_lt_left _ _ Hlt).
  split; [reflexivity|]. rewrite rto_mul_pow2_succ by exact Hn. reflexivity.
Qed.

(* ================================================================================================ *)
(* Part C, continued: the time-out is monotone in the number of expiries                             *)
(* ================================================================================================ *)
Lemma SFleb_trans : forall a b c, SFleb a b = true -> SFleb b c = true -> SFleb a c = true.
Proof.
  intros a b c Hab Hbc. unfold SFleb in *.
  destruct a as [sa|sa| |sa ma ea], b as [sb|sb| |sb mb eb], c as [sc|sc| |sc mc ec];
    rewrite ?SFcompare_finite in *; cbn [SFcompare] in *;
    repeat match goal with s : bool |- _ => destruct s end;
    try discriminate; try reflexivity;
    repeat match goal with
    | H : match lexc ?e1 ?m1 ?e2 ?m2 with _ => _ end = true |- _ =>
        let E := fresh "E" in destruct (lexc e1 m1 e2 m2) eqn:E; try discriminate H; clear H
    | H : match CompOpp (lexc ?e1 ?m1 ?e2 ?m2) with _ => _ end = true |- _ =>
        let E := fresh "E" in destruct (lexc e1 m1 e2 m2) eqn:E; try discriminate H; clear H
    end;
    match goal with
    | |- match lexc ?e1 ?m1 ?e2 ?m2 with _ => _ end = true =>
        let E := fresh "E" in destruct (lexc e1 m1 e2 m2) eqn:E
    | |- match CompOpp (lexc ?e1 ?m1 ?e2 ?m2) with _ => _ end = true =>
        let E := fresh "E" in destruct (lexc e1 m1 e2 m2) eqn:E
    | _ => idtac
    end; cbn [CompOpp]; try reflexivity;
    repeat match goal with
    | H : lexc _ _ _ _ = Lt |- _ => apply lexc_Lt in H
    | H : lexc _ _ _ _ = Gt |- _ => apply lexc_Gt in H
    | H : lexc _ _ _ _ = Eq |- _ => apply lexc_Eq in H
    end; unfold lexlt in *; exfalso; lia.
Qed.

Lemma fle_trans : forall a b c, fle a b -> fle b c -> fle a c.
Proof. unfold fle. intros a b c. rewrite !leb_spec. apply SFleb_trans. Qed.

Lemma feq_fle : forall a b, (a =? b)%float = true -> fle a b.
Proof. unfold fle. intros a b. rewrite eqb_spec, leb_spec. apply SFeqb_leb. Qed.

Lemma feq_refl : forall a, fnan a = false -> (a =? a)%float = true.
Proof. intros a H. rewrite eqb_spec, SFeqb_refl_nan, <- fnan_spec, H. reflexivity. Qed.

Lemma fle_neg_inf : forall x, fnan x = false -> fle neg_infinity x.
Proof.
  intros x H. unfold fle. rewrite leb_spec. change (Prim2SF neg_infinity) with (S754_infinity true).
  apply SFleb_neg_inf. rewrite <- fnan_spec. exact H.
Qed.

Lemma fnot_lt_le : forall p mx, fnan p = false -> fnan mx = false -> (p <? mx)%float = false -> fle mx p.
Proof.
  intros p mx Hp Hm H. unfold fle. rewrite leb_spec. rewrite ltb_spec in H. rewrite fnan_spec in Hp, Hm.
  unfold SFltb in H. unfold SFleb.
  destruct (Prim2SF p) as [sp|sp| |sp mp ep], (Prim2SF mx) as [sm|sm| |sm mm em];
    try discriminate Hp; try discriminate Hm;
    rewrite ?SFcompare_finite in *; cbn [SFcompare] in *;
    repeat match goal with s : bool |- _ => destruct s end; try discriminate H; try reflexivity.
  all: destruct (lexc ep mp em mm) eqn:E; cbn [CompOpp] in H; try discriminate H;
       destruct (lexc em mm ep mp) eqn:E2; cbn [CompOpp]; try reflexivity;
       repeat match goal with
       | H : lexc _ _ _ _ = Lt |- _ => apply lexc_Lt in H
       | H : lexc _ _ _ _ = Gt |- _ => apply lexc_Gt in H
       | H : lexc _ _ _ _ = Eq |- _ => apply lexc_Eq in H
       end; unfold lexlt in *; exfalso; lia.
Qed.

Lemma SFeqb_sym : forall x y, SFeqb x y = true -> SFeqb y x = true.
Proof.
  intros x y H. unfold SFeqb in *.
  destruct x as [sx|sx| |sx mx ex], y as [sy|sy| |sy my ey];
    rewrite ?SFcompare_finite in *; cbn [SFcompare] in *;
    repeat match goal with s : bool |- _ => destruct s end; try discriminate H; try reflexivity;
    (destruct (lexc ex mx ey my) eqn:E; cbn [CompOpp] in H; try discriminate H;
     apply lexc_Eq in E; destruct E as [-> ->]; unfold lexc; rewrite Z.compare_refl, Pcompare_refl; reflexivity).
Qed.

Lemma feq_sym : forall a b, (a =? b)%float = true -> (b =? a)%float = true.
Proof. intros a b. rewrite !eqb_spec. apply SFeqb_sym. Qed.

(* math.Min(p, mx) is a lower bound of both arguments and IEEE-equal to one of them *)
Lemma gomin_le_l : forall p mx, fnan p = false -> fnan mx = false -> fle (rto_gomin p mx) p.
Proof.
  intros p mx Hp Hmx. unfold rto_gomin.
  destruct (rto_isinf_neg p || rto_isinf_neg mx).
  - apply fle_neg_inf. exact Hp.
  - change (rto_isnan p) with (fnan p). change (rto_isnan mx) with (fnan mx). rewrite Hp, Hmx. cbn [orb].
    destruct ((p =? 0) && (p =? mx))%float eqn:Ez.
    + apply andb_prop in Ez. destruct Ez as [_ Ez].
      destruct (rto_signbit p); [apply fle_refl; exact Hp|].
      apply feq_fle. apply feq_sym. exact Ez.
    + destruct (p <? mx)%float eqn:El.
      * apply fle_refl. exact Hp.
      * apply fnot_lt_le; assumption.
Qed.

Lemma gomin_eq_either : forall p mx, fnan p = false -> fnan mx = false ->
  (rto_gomin p mx =? p)%float = true \/ (rto_gomin p mx =? mx)%float = true.
Proof.
  intros p mx Hp Hmx. unfold rto_gomin.
  destruct (rto_isinf_neg p) eqn:Ip.
  - left. cbn [orb]. unfold rto_isinf_neg in Ip. rewrite eqb_spec in *. 
    change (Prim2SF neg_infinity) with (S754_infinity true) in *.
    destruct (Prim2SF p) as [s|s| |s m e]; try discriminate Ip; destruct s; try discriminate Ip; reflexivity.
  - cbn [orb]. destruct (rto_isinf_neg mx) eqn:Im.
    + right. unfold rto_isinf_neg in Im. rewrite eqb_spec in *.
      change (Prim2SF neg_infinity) with (S754_infinity true) in *.
      destruct (Prim2SF mx) as [s|s| |s m e]; try discriminate Im; destruct s; try discriminate Im; reflexivity.
    + change (rto_isnan p) with (fnan p). change (rto_isnan mx) with (fnan mx). rewrite Hp, Hmx. cbn [orb].
      destruct ((p =? 0) && (p =? mx))%float.
      * destruct (rto_signbit p); [left; apply feq_refl; exact Hp | right; apply feq_refl; exact Hmx].
      * destruct (p <? mx)%float; [left; apply feq_refl; exact Hp | right; apply feq_refl; exact Hmx].
Qed.

Lemma gomin_mono : forall p q mx, fle p q -> fnan mx = false -> fle (rto_gomin p mx) (rto_gomin q mx).
Proof.
  intros p q mx Hpq Hmx.
  assert (Hp : fnan p = false) by (eapply fle_not_nan_l; exact Hpq).
  assert (Hq : fnan q = false) by (eapply fle_not_nan_r; exact Hpq).
  destruct (gomin_eq_either q mx Hq Hmx) as [E|E].
  - (* the right-hand side is (IEEE-equal to) q: gomin p mx <= p <= q *)
    apply fle_trans with q; [apply fle_trans with p; [apply gomin_le_l; assumption | exact Hpq]|].
    apply feq_fle. apply feq_sym. exact E.
  - apply fle_trans with mx; [apply gomin_le_r; assumption|].
    apply feq_fle. apply feq_sym. exact E.
Qed.

(* x <= 2x for x >= 0 (Flocq) *)
Lemma fle_double : forall x, fle 0 x -> fle x (x * 2)%float.
Proof.
  intros x Hx. pose proof Hx as Hx0. apply fle0_NNb in Hx. unfold fle. rewrite FP.leb_equiv, FP.mul_equiv.
  destruct (Prim2B_pos_finite 2%float 4503599627370496 (1 - 52) eq_refl) as (H2 & E2). rewrite E2.
  set (Two := B754_finite false 4503599627370496 (1 - 52) H2 : bfloat).
  destruct (FP.Prim2B x) as [s|s| |s m e H] eqn:EX; try discriminate Hx.
  - destruct s; reflexivity.
  - destruct s; [discriminate Hx | reflexivity].
  - destruct s; [discriminate Hx|]. set (X := B754_finite false m e H : bfloat).
    pose proof (Bmult_pow2 X Two 1 ltac:(lia) eq_refl eq_refl eq_refl (B2R_pow2 1 H2)) as L.
    destruct (Rlt_bool (Rabs (B2R X * bpow radix2 1)) (bpow radix2 emax)).
    + destruct L as (HR & HF & _).
      rewrite (Bleb_correct prec emax X _ eq_refl HF). apply Rle_bool_true. rewrite HR.
      pose proof (B2R_pos_finite m e H) as P. fold X in P.
      rewrite <- (Rmult_1_r (B2R X)) at 1. apply Rmult_le_compat_l; [apply Rlt_le; exact P|].
      change 1%R with (bpow radix2 0). apply bpow_le. lia.
    + unfold Bleb. rewrite L. reflexivity.
Qed.

(* T(n) <= T(n+1) for every n >= 0 when rto >= 0 and rtoMax is not NaN *)
Theorem rto_backoff_monotone : forall rto n mx, 0 <= n ->
  fle 0 rto -> fnan mx = false -> fle (rto_next_timeout rto n mx) (rto_next_timeout rto (n + 1) mx).
Proof.
  intros rto n mx Hn Hr Hmx.
  destruct (Z_lt_le_dec n 30) as [L|L].
  - destruct (rto_next_timeout_law rto n mx) as (L0 & _).
    destruct (rto_next_timeout_law rto (n + 1) mx) as (L1 & _).
    rewrite L0, L1 by lia. rewrite rto_mul_pow2_succ by lia.
    apply gomin_mono; [|exact Hmx]. apply fle_double.
    apply fmul_nn_r; [apply rto_pow2_posfin; lia | exact Hr].
  - destruct (rto_next_timeout_law rto (n + 1) mx) as (_ & L1). rewrite L1 by lia.
    apply rto_next_timeout_le_max; assumption.
Qed.
