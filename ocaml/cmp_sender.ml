(* step-commuting check of the sender model: each record (pre, event, sends, post) is replayed
   independently: post' = gather_new (event_step (abs pre)) sends ; post' must equal abs post on the
   compared projection. *)
module M = Model
open Zio

let parse_state (toks : string list) : M.sst * string list =
  match toks with
  | st :: cum :: front :: nbytes :: cwnd :: rwnd :: ssth :: pba :: infr :: frexit :: rtxfast :: mtu :: mincwnd :: castep :: pendn :: pendbytes :: ninfl :: rest ->
    let n = int_of_string ninfl in
    let rec chunks k l acc =
      if k = 0 then (List.rev acc, l) else
      match l with
      | sid :: len :: acked :: aband :: miss :: rtx :: r ->
        chunks (k-1) r ({ M.sc_sid = cz sid; M.sc_len = cz len; M.sc_acked = (acked = "1"); M.sc_aband = (aband = "1");
                          M.sc_miss = cz miss; M.sc_rtx = (rtx = "1") } :: acc)
      | _ -> failwith "bad chunk list" in
    let (infl, rest) = chunks n rest [] in
    (match rest with
     | nb :: r ->
       let nb = int_of_string nb in
       let rec bufs k l acc =
         if k = 0 then (List.rev acc, l) else
         match l with a :: b :: r -> bufs (k-1) r ((cz a, cz b) :: acc) | _ -> failwith "bad buffered list" in
       let (buf, r') = bufs nb r [] in
       ({ M.st_state = cz st; M.st_cum = cz cum; M.st_front = cz front; M.st_infl = infl; M.st_nbytes = cz nbytes;
          M.st_cwnd = cz cwnd; M.st_rwnd = cz rwnd; M.st_ssthresh = cz ssth; M.st_pba = cz pba; M.st_infr = (infr = "1");
          M.st_frexit = cz frexit; M.st_rtxfast = (rtxfast = "1"); M.st_mtu = cz mtu; M.st_mincwnd = cz mincwnd;
          M.st_castep = cz castep; M.st_pendn = cz pendn; M.st_pendbytes = cz pendbytes; M.st_buffered = buf }, r')
     | _ -> failwith "bad state line")
  | _ -> failwith "short state line"

(* the compared projection, as text *)
let proj (s : M.sst) : string =
  let infl = String.concat ";" (List.map (fun c -> Printf.sprintf "%s,%s,%s,%s" (sz c.M.sc_sid) (sz c.M.sc_len) (sbool c.M.sc_acked) (sz c.M.sc_miss)) s.M.st_infl) in
  let buf = List.sort compare (List.map (fun (a, b) -> (iz a, sz b)) s.M.st_buffered) in
  let buf = String.concat ";" (List.map (fun (a, b) -> Printf.sprintf "%d=%s" a b) buf) in
  Printf.sprintf "cum=%s front=%s nbytes=%s cwnd=%s rwnd=%s ssthresh=%s pba=%s infr=%s frexit=%s pendbytes=%s infl=[%s] buffered=[%s]"
    (sz s.M.st_cum) (if s.M.st_infl = [] then "-" else sz s.M.st_front) (sz s.M.st_nbytes) (sz s.M.st_cwnd) (sz s.M.st_rwnd)
    (sz s.M.st_ssthresh) (sz s.M.st_pba) (sbool s.M.st_infr) (if s.M.st_infr then sz s.M.st_frexit else "-") (sz s.M.st_pendbytes) infl buf

let rec pairs l = match l with a :: b :: r -> (cz a, cz b) :: pairs r | _ -> []
let rec take n l = if n = 0 then [] else match l with x :: r -> x :: take (n-1) r | [] -> []
let rec drop n l = if n = 0 then l else match l with _ :: r -> drop (n-1) r | [] -> []

let kinds = Hashtbl.create 8
let bump k = Hashtbl.replace kinds k (1 + try Hashtbl.find kinds k with Not_found -> 0)

let run path =
  let cases = read_cases path in
  List.iter (fun (name, lines) ->
    incr records;
    try
      let find k = List.tl (List.find (fun l -> List.hd l = k) lines) in
      let (pre, _) = parse_state (find "pre") in
      let (post, _) = parse_state (find "post") in
      let ev = find "ev" in
      let sends = find "sends" in
      let nsend = int_of_string (List.hd sends) in
      let chunks = pairs (take (2 * nsend) (List.tl sends)) in
      let rest = drop (2 * nsend) (List.tl sends) in
      let first_tsn = cz (List.nth rest 0) in
      let tlr = (List.nth rest 1) = "1" in
      ignore tlr;
      (* oracle: RACK declared chunks lost during this event (onRackLossLocked ran) *)
      let rack = (try int_of_string (List.hd (find "rack")) > 0 with Not_found | Failure _ -> false) in
      let after_ev =
        match ev with
        | "sack" :: cum :: arwnd :: ng :: gl ->
          bump "sack";
          let gaps = pairs (take (2 * int_of_string ng) gl) in
          (match M.sack_step pre (cz cum) (cz arwnd) gaps with
           | M.SOk s -> bump "sack-accepted"; if rack then (bump "sack-with-rack-loss"; Some (M.rack_cut s)) else Some s
           | M.SErr -> bump "sack-rejected"; Some pre)
        | ["t3"] -> bump "t3"; Some (M.t3_step pre)
        | "write" :: sid :: n :: frags -> bump "write"; Some (M.write_step pre (cz sid) (List.map cz frags))
        | _ -> None in
      let try_gather s1 =
        match M.gather_new s1 chunks first_tsn false with
        | None -> None
        | Some s2 -> Some (proj s2) in
      (match after_ev with
      | None -> report name 0 "unparsed event" "" (String.concat " " ev)
      | Some s1 ->
        let im = proj post in
        let primary = try_gather s1 in
        (* during one clock advance the T3 expiry and a gather triggered by another timer may occur in
           either order: accept "gather then T3" as well for t3 records *)
        let alt =
          if ev = ["t3"] then
            (match M.gather_new pre chunks first_tsn false with
             | Some s2 -> Some (proj (M.t3_step s2))
             | None -> None)
          else None in
        (* the RACK timer may expire in the same clock advance as T3 (its marks are indistinguishable from T3's):
           accept the congestion response of a RACK loss after the T3 step as well *)
        let alt2 =
          if ev = ["t3"] then
            (match M.gather_new (M.rack_cut s1) chunks first_tsn false with
             | Some s2 -> Some (proj s2)
             | None -> None)
          else None in
        if nsend > 0 then bump "with-new-sends";
        if primary = Some im then ()
        else if alt = Some im then bump "t3-after-gather"
        else if alt2 = Some im then bump "t3-then-rack-loss"
        else match primary with
          | None ->
            report name 0 ("implementation moved new data the admission rule forbids: ev=" ^ String.concat " " ev ^ " sends=" ^ String.concat " " sends)
              (proj s1) im
          | Some m -> report name 0 ("ev=" ^ String.concat " " ev ^ " sends=" ^ String.concat " " sends) m im)
    with Failure e | Invalid_argument e -> report name 0 ("malformed record: " ^ e) "" ""
       | Not_found -> report name 0 "malformed record (missing line)" "" "") cases;
  let ks = String.concat "," (List.sort compare (Hashtbl.fold (fun k v acc -> (k ^ ":" ^ string_of_int v) :: acc) kinds [])) in
  Printf.printf "SUMMARY component=sender cases=%d records=%d mismatches=%d kinds=%s\n" (List.length cases) !records !mismatches ks
