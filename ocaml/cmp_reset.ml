(* step-commuting check of the reset model (coq/model/Reset.v): each record
     sid / pre / ev* / out / post
   is replayed independently: the events are applied to abs(pre) in order with the extracted step
   functions; the resulting state must equal abs(post) on the compared projection, the responses and
   retransmitted requests the model emits must be those seen on the wire, and the read / write results
   must agree. *)
module M = Model
open Zio

let take_n n l =
  let rec go k l acc = if k = 0 then (List.rev acc, l) else
    match l with x :: r -> go (k-1) r (x :: acc) | [] -> failwith "short list" in
  go n l []

let next = function x :: r -> (x, r) | [] -> failwith "short line"

let parse_chunks l =
  let (n, l) = next l in
  let n = int_of_string n in
  let rec go k l acc id =
    if k = 0 then (List.rev acc, l) else
    match l with
    | len :: un :: b :: e :: r ->
      go (k-1) r ({ M.rs_pc_id = czi id; M.rs_pc_len = cz len; M.rs_pc_unord = (un = "1");
                    M.rs_pc_beg = (b = "1"); M.rs_pc_end = (e = "1") } :: acc) (id + 1)
    | _ -> failwith "bad chunk list" in
  go n l [] 0

let parse_reqs l =
  let (n, l) = next l in
  let rec go k l acc =
    if k = 0 then (List.rev acc, l) else
    match l with
    | rsn :: last :: nids :: r ->
      let (ids, r') = take_n (int_of_string nids) r in
      go (k-1) r' ({ M.rs_q_rsn = cz rsn; M.rs_q_last = cz last; M.rs_q_ids = List.map cz ids } :: acc)
    | _ -> failwith "bad request list" in
  go (int_of_string n) l []

(* returns the endpoint, whether the read buffer is comparable, and the timer flag *)
let parse_state (toks : string list) : M.rs_ep * bool * bool =
  match toks with
  | estab :: present :: gen :: state :: eof :: ssn :: omid :: umid :: rnext :: valid :: nrb :: rest ->
    let (rbuf, rest) = take_n (int_of_string nrb) rest in
    let (fifo, rest) = next rest in
    let (selo, rest) = next rest in
    let (pu, rest) = parse_chunks rest in
    let (po, rest) = parse_chunks rest in
    let (ntsn, rest) = next rest in
    let (nrsn, rest) = next rest in
    let (rc, rest) = parse_reqs rest in
    let (wrtx, rest) = next rest in
    let (cum, rest) = next rest in
    let (maxoff, rest) = next rest in
    let (nrcvd, rest) = next rest in
    let (rcvd, rest) = take_n (int_of_string nrcvd) rest in
    let (reqs, rest) = parse_reqs rest in
    let (hasdone, rest) = next rest in
    let (done_, rest) = next rest in
    let (trun, _) = next rest in
    let o = { M.rs_gen = cz gen; M.rs_state = cz state; M.rs_eof = (eof = "1"); M.rs_ssn = cz ssn; M.rs_omid = cz omid;
              M.rs_umid = cz umid; M.rs_rnext = cz rnext; M.rs_rbuf = List.map cz rbuf } in
    ({ M.rs_estab = (estab = "1"); M.rs_present = (present = "1"); M.rs_obj = o; M.rs_fifo = (fifo = "1");
       M.rs_pend_u = pu; M.rs_pend_o = po; M.rs_sel_o = (selo = "1"); M.rs_next_tsn = cz ntsn; M.rs_next_rsn = cz nrsn;
       M.rs_reconfigs = rc; M.rs_will_rtx = (wrtx = "1"); M.rs_cum = cz cum; M.rs_maxoff = cz maxoff;
       M.rs_rcvd = List.map cz rcvd; M.rs_reqs = reqs;
       M.rs_done = (if hasdone = "1" then Some (cz done_) else None) }, valid = "1", trun = "1")
  | _ -> failwith "short state line"

let s_chunk c = Printf.sprintf "%s,%s,%s,%s" (sz c.M.rs_pc_len) (sbool c.M.rs_pc_unord) (sbool c.M.rs_pc_beg) (sbool c.M.rs_pc_end)
let s_req q = Printf.sprintf "%s,%s,[%s]" (sz q.M.rs_q_rsn) (sz q.M.rs_q_last) (String.concat " " (List.map sz q.M.rs_q_ids))
let s_reqs l = String.concat ";" (List.map s_req (List.sort (fun a b -> Z.compare (z_of_cz a.M.rs_q_rsn) (z_of_cz b.M.rs_q_rsn)) l))

let proj (e : M.rs_ep) (with_rbuf : bool) : string =
  let o = e.M.rs_obj in
  Printf.sprintf "estab=%s present=%s gen=%s state=%s eof=%s ssn=%s mid=%s/%s rnext=%s rbuf=[%s] fifo=%s sel=%s pend_u=[%s] pend_o=[%s] next_tsn=%s next_rsn=%s reconfigs=[%s] willrtx=%s cum=%s rcvd=[%s] reqs=[%s] performed=%s"
    (sbool e.M.rs_estab) (sbool e.M.rs_present) (sz o.M.rs_gen) (sz o.M.rs_state) (sbool o.M.rs_eof) (sz o.M.rs_ssn)
    (sz o.M.rs_omid) (sz o.M.rs_umid) (sz o.M.rs_rnext)
    (if with_rbuf then String.concat " " (List.map sz o.M.rs_rbuf) else "-")
    (sbool e.M.rs_fifo) (sbool e.M.rs_sel_o)
    (String.concat ";" (List.map s_chunk e.M.rs_pend_u)) (String.concat ";" (List.map s_chunk e.M.rs_pend_o))
    (sz e.M.rs_next_tsn) (sz e.M.rs_next_rsn) (s_reqs e.M.rs_reconfigs) (sbool e.M.rs_will_rtx) (sz e.M.rs_cum)
    (String.concat " " (List.map Z.to_string (List.sort Z.compare (List.map z_of_cz e.M.rs_rcvd))))
    (s_reqs e.M.rs_reqs) (match e.M.rs_done with Some p -> sz p | None -> "-")

let kinds = Hashtbl.create 16
let bump k = Hashtbl.replace kinds k (1 + try Hashtbl.find kinds k with Not_found -> 0)

exception Stop of string

let run path =
  let cases = read_cases path in
  List.iter (fun (name, lines) ->
    incr records;
    try
      let find k = List.tl (List.find (fun l -> List.hd l = k) lines) in
      let sid = cz (List.hd (find "sid")) in
      let (pre, vpre, _) = parse_state (find "pre") in
      let (post, vpost, trun_post) = parse_state (find "post") in
      let resps = ref [] and rtx = ref [] in
      let all_simple = ref true in
      let last_tact = ref None and new_req = ref false in
      let add_resps l = List.iter (fun r -> resps := (z_of_cz r.M.rs_r_rsn, z_of_cz r.M.rs_r_res) :: !resps) l in
      let step (e : M.rs_ep) (ev : string list) : M.rs_ep =
        match ev with
        | "req" :: rsn :: last :: nids :: r ->
          bump "request";
          let (ids, _) = take_n (int_of_string nids) r in
          let q = { M.rs_q_rsn = cz rsn; M.rs_q_last = cz last; M.rs_q_ids = List.map cz ids } in
          (match M.rs_recv_request sid e q with
           | None -> bump "request-refused"; e
           | Some (e1, r) ->
             add_resps [r];
             if Z.equal (z_of_cz r.M.rs_r_res) Z.one && M.rs_already e q && M.rs_mem sid q.M.rs_q_ids then bump "request-already-performed-answered-again";
             if r.M.rs_r_hit then bump "request-reset-performed-on-stream"
             else if Z.equal (z_of_cz r.M.rs_r_res) Z.one then bump "request-performed-no-stream" else bump "request-deferred";
             e1)
        | ["resp"; rsn; result] ->
          bump ("response-" ^ result);
          let (e1, tact) = M.rs_recv_response sid e (cz rsn) (cz result) in
          if result = "1" && e.M.rs_present && Z.equal (z_of_cz e.M.rs_obj.M.rs_state) Z.zero
             && (match M.rs_req_get e.M.rs_reconfigs (cz rsn) with Some q -> M.rs_mem sid q.M.rs_q_ids | None -> false)
          then bump "response-for-earlier-incarnation-left-open-stream-alone";
          last_tact := Some tact; e1
        | ["data"; tsn; mine; simple; ssn] ->
          if mine = "1" then bump "data-mine" else bump "data-other";
          if mine = "1" && simple <> "1" then all_simple := false;
          let (e1, rs) = M.rs_recv_data sid e (cz tsn) (mine = "1") (simple = "1") (cz ssn) in
          List.iter (fun r -> if Z.equal (z_of_cz r.M.rs_r_res) Z.one then bump "deferred-reset-performed-after-cum-advance") rs;
          add_resps rs; e1
        | ["fwd"; c; has; ssn] ->
          bump "forward-tsn";
          let (e1, rs) = M.rs_recv_fwd sid e (cz c) (if has = "1" then Some (cz ssn) else None) in add_resps rs; e1
        | "write" :: il :: un :: ok :: _n :: frags ->
          bump "write";
          let (e1, okm) = M.rs_write e (czi 1000) (il = "1") (un = "1") (List.map cz frags) in
          if okm <> (ok = "1") then raise (Stop (Printf.sprintf "write accepted: model=%b impl=%s" okm ok));
          if not okm then bump "write-refused";
          e1
        | ["close"] -> bump "close"; let (e1, m) = M.rs_close e (czi 2000) in if m then bump "close-queued-marker"; e1
        | ["open"] -> bump "open"; let e1 = M.rs_open e in
          if not e.M.rs_present then bump "open-created-fresh-object"; e1
        | ["read"; k] ->
          bump "read";
          let (e1, r) = M.rs_read e in
          let km = (match r with M.RsMsg _ -> "1" | M.RsEOF -> "2" | M.RsWait -> "0") in
          if vpre && !all_simple && km <> k then raise (Stop (Printf.sprintf "read result: model=%s impl=%s" km k));
          if k = "2" then bump "read-eof";
          if vpre && !all_simple then e1
          else (* read buffer not in the modelled fragment: only the error path is compared *)
            if k = "2" then e else { e with M.rs_obj = { e.M.rs_obj with M.rs_rnext = post.M.rs_obj.M.rs_rnext } }
        | ["expire"] -> bump "treconfig-expiry"; M.rs_treconfig_expire e
        | "gather" :: n :: r ->
          let n = int_of_string n in
          let rec items k l acc =
            if k = 0 then (List.rev acc, l) else
            match l with
            | "0" :: r -> items (k-1) r (M.RsOther :: acc)
            | "1" :: len :: un :: r -> items (k-1) r (M.RsMine (cz len, un = "1") :: acc)
            | _ -> failwith "bad gather items" in
          let (its, r) = items n r [] in
          let (nids, r) = next r in
          let (ids, _) = take_n (int_of_string nids) r in
          (match M.rs_gather sid e its (List.map cz ids) with
           | None -> raise (Stop "gather: pop order / marker position excluded by the model")
           | Some (e1, g) ->
             if g.M.rs_go_marks <> [] then begin
               bump "marker-pop";
               if not (List.exists (fun l -> l = ["ev"; "close"]) lines) then bump "marker-pop-after-waiting-behind-data";
               if e.M.rs_pend_u <> [] then bump "marker-pop-gather-with-unordered-data-of-stream"
             end;
             if g.M.rs_go_sent <> [] then bump "gather-with-data-of-stream";
             (match g.M.rs_go_new with Some _ -> new_req := true; bump "request-created" | None -> ());
             List.iter (fun q -> rtx := z_of_cz q.M.rs_q_rsn :: !rtx) g.M.rs_go_rtx;
             if g.M.rs_go_rtx <> [] then bump "request-retransmitted";
             e1)
        | _ -> raise (Stop ("unparsed event " ^ String.concat " " ev)) in
      let evs = List.filter_map (fun l -> match l with "ev" :: r -> Some r | _ -> None) lines in
      let final = List.fold_left step pre evs in
      let cmp_rbuf = vpre && vpost && !all_simple in
      let m = proj final cmp_rbuf and im = proj post cmp_rbuf in
      let evtxt = String.concat " | " (List.map (String.concat " ") evs) in
      if m <> im then report name 0 ("state after [" ^ evtxt ^ "]") m im
      else begin
        (* outputs *)
        let out = find "out" in
        let (nr, r) = next out in
        let (rl, r) = take_n (2 * int_of_string nr) r in
        let rec pairs l = match l with a :: b :: t -> (Z.of_string a, Z.of_string b) :: pairs t | _ -> [] in
        let (nx, r) = next r in
        let (xl, _) = take_n (int_of_string nx) r in
        let srt l = List.sort compare (List.map (fun (a, b) -> Z.to_string a ^ ":" ^ Z.to_string b) l) in
        let mr = String.concat " " (srt !resps) and ir = String.concat " " (srt (pairs rl)) in
        if mr <> ir then report name 0 ("responses after [" ^ evtxt ^ "]") mr ir
        else begin
          let mx = String.concat " " (List.sort compare (List.map Z.to_string !rtx))
          and ix = String.concat " " (List.sort compare xl) in
          if mx <> ix then report name 0 ("retransmitted requests after [" ^ evtxt ^ "]") mx ix
          else begin
            (* timer: a final response that empties a.reconfigs stops it, InProgress for a stored request restarts it,
               a created request starts it *)
            (match !last_tact with
             | Some M.RsTStop when trun_post && not !new_req -> report name 0 "re-configuration timer still running after the last final response" "stopped" "running"
             | Some M.RsTRestart when not trun_post -> report name 0 "re-configuration timer not running after InProgress" "running" "stopped"
             | _ -> ());
            if !new_req && not trun_post then report name 0 "re-configuration timer not running after a request was created" "running" "stopped"
          end
        end
      end
    with Failure e | Invalid_argument e -> report name 0 ("malformed record: " ^ e) "" ""
       | Stop e -> report name 0 e "" ""
       | Not_found -> report name 0 "malformed record (missing line)" "" "") cases;
  let ks = String.concat "," (List.sort compare (Hashtbl.fold (fun k v acc -> (k ^ ":" ^ string_of_int v) :: acc) kinds [])) in
  Printf.printf "SUMMARY component=reset cases=%d records=%d mismatches=%d kinds=%s\n" (List.length cases) !records !mismatches ks
