"""C16 — sequence-number wrap-around is invisible."""
import vlib, simcommon

PROP = "C16"
PROPS_FILE = "props/C16.v"
COQ_FILES = ["gen/Gen.v", "proofs/SnaProofs.v", "model/RPQ.v", "proofs/RPQProofs.v", "props/C16.v"]
# (the differentials below also need the models of their components to be extractable: RQ.v, StreamW.v, Sender.v)
TRUSTED_BASE = [
    "Coq 8.16.1 kernel (vm_compute used in Examples only; no native_compute)",
    "translator /verif/go/translator (Go subset -> Gallina over Z; uintN arithmetic as mod 2^N)",
    "extraction (ExtrOcamlBasic only) + /verif/ocaml/cmp_sna.ml, cmp_rpq.ml",
    "Go harness zz_verif_sna_test.go / zz_verif_shift_test.go injected with go test -overlay",
]
ASSUMPTIONS = [
    "serial-number laws are proved on definitions regenerated from util.go on this run",
    "wrap-invariance of whole-association behaviour is shown for the receive-queue component (theorem + offset-sweep); "
    "association-level offset sweeps are monitors, not theorems",
]


def classify_shift(line):
    # SHIFTDIFF ... words_divides_2p26=0 ... : the ring bitmap aliases across 2^32 (finding D1)
    if "words_divides_2p26=0" in line:
        return "rpq-ring-alias-wrap"
    return "rpq-shift-other"


def correspondence(ctx):
    vlib.differential(ctx, "sna-differential", "TestVerifSna", "sna", {"VERIF_N": ctx.scale(20000, 400000)})
    vlib.monitor(ctx, "sna-laws", "TestVerifSnaLaws", {"VERIF_N": ctx.scale(200000, 5000000)},
                 fail_prefixes=("LAWFAIL",), classify=lambda l: "sna-law", summary_prefix="SNALAWS")
    vlib.monitor(ctx, "rpq-offset-sweep", "TestVerifRPQShift",
                 {"VERIF_N": ctx.scale(60, 600), "VERIF_BASES": ctx.scale(12, 64)},
                 fail_prefixes=("SHIFTDIFF",), classify=classify_shift, summary_prefix="RPQSHIFT")
    # every component that compares sequence numbers, exercised with start values at their wraps
    vlib.differential(ctx, "rq-differential-near-wraps", "TestVerifRQ", "rq", {"VERIF_N": ctx.scale(150, 3000)})
    vlib.differential(ctx, "streamw-differential-near-wraps", "TestVerifStreamW", "streamw", {"VERIF_N": ctx.scale(150, 3000)})
    vlib.differential(ctx, "sender-step-commuting-near-wraps", "TestVerifSimSender", "sender",
                      {"VERIF_N": ctx.scale(60, 1500), "VERIF_EVENTS": 250}, timeout=3000)
    simcommon.transfer(ctx, quick=60, thorough=2500)
    if ctx.tier == "thorough":
        vlib.monitor(ctx, "sna16-exhaustive", "TestVerifSna16Exhaustive", {}, fail_prefixes=("SNA16BAD",),
                     classify=lambda l: "sna-law", summary_prefix="SNA16", timeout=3000)


def search(ctx):
    # the monitors above are the search; widen them
    vlib.monitor(ctx, "sna-laws-wide", "TestVerifSnaLaws", {"VERIF_N": 3000000, "VERIF_SEED": ctx.seed + 7},
                 fail_prefixes=("LAWFAIL",), classify=lambda l: "sna-law", summary_prefix="SNALAWS")
    vlib.monitor(ctx, "sna16-exhaustive", "TestVerifSna16Exhaustive", {}, fail_prefixes=("SNA16BAD",),
                 classify=lambda l: "sna-law", summary_prefix="SNA16", timeout=3000)

LEVEL_TEXT = ("Machine-checked theorems (Coq) on definitions regenerated from util.go on every run: trichotomy, "
              "distance characterisation, flip, transitivity and shift-invariance of all 32/16-bit serial comparisons for all "
              "values; the receive-queue model is proved correct for every initial TSN (C05 theorems quantify over the unbounded "
              "ghost index k0). Offset-sweep monitors run the same relative scripts at bases straddling 2^32 on the implementation.")
LEVEL_NOTE = ("Trusted: Coq kernel, translator subset semantics (uintN as mod 2^N over Z), extraction (ExtrOcamlBasic), harness. "
              "Whole-association wrap-invariance (SSN/MID/RSN running past their wraps in live associations) is exercised by "
              "monitors, not proved end-to-end.")
TECHNIQUE = "Coq proof on translator-generated definitions + differential/offset-sweep correspondence"
