(* Executable model of receive_payload_queue.go (receivePayloadQueue).
   No proofs in this file.

   Representation: the []uint64 bitmap is modelled as the list of set bit positions
   p = word_index*64 + bit_offset, with word_index = (tsn/64) mod nwords exactly as the Go
   code computes it.  OR-ing a bit = add-if-absent, AND-NOT = remove.  The dump function
   packs the positions back into 64-bit words for comparison with the Go slice. *)
From Coq Require Import ZArith Bool List.
From Sctp Require Import Gen.
Import ListNotations.
Open Scope Z_scope.

Record rpq := mkRpq {
  cum : Z;        (* cumulativeTSN *)
  tail : Z;       (* tailTSN *)
  size : Z;       (* chunkSize *)
  bits : list Z;  (* set positions of tsnBitmask *)
  dups : list Z;  (* dupTSN, oldest first *)
  max_off : Z;    (* maxTSNOffset *)
  nwords : Z      (* len(tsnBitmask) *)
}.

Definition memz (p : Z) (l : list Z) : bool := existsb (Z.eqb p) l.
Definition addz (p : Z) (l : list Z) : list Z := if memz p l then l else p :: l.
Definition remz (p : Z) (l : list Z) : list Z := filter (fun x => negb (x =? p)) l.

Definition pos (q : rpq) (t : Z) : Z := ((t / 64) mod nwords q) * 64 + t mod 64.

(* newReceivePayloadQueue *)
(* the word count is rounded up to a power of two (loop "for words < m/64 { words <<= 1 }") *)
Fixpoint pow2_ge (fuel : nat) (w target : Z) : Z :=
  match fuel with
  | O => w
  | S f => if w <? target then pow2_ge f (wrap32 (Z.shiftl w 1)) target else w
  end.

Definition rpq_new (maxTSNOffset : Z) : rpq :=
  let m := wrap32 (wrap32 (wrap32 (maxTSNOffset + 63) / 64) * 64) in
  mkRpq 0 0 0 [] [] m (pow2_ge 32 1 (m / 64)).

Definition rpq_init (q : rpq) (c : Z) : rpq :=
  mkRpq c c 0 [] [] (max_off q) (nwords q).

Definition has_chunk (q : rpq) (t : Z) : bool :=
  if (size q =? 0) || sna32LTE t (cum q) || sna32GT t (tail q) then false
  else memz (pos q t) (bits q).

Definition can_push (q : rpq) (t : Z) : bool :=
  if has_chunk q t || sna32LTE t (cum q) || sna32GT t (wrap32 (cum q + max_off q)) then false
  else true.

Definition push (q : rpq) (t : Z) : rpq * bool :=
  if sna32GT t (wrap32 (cum q + max_off q)) then (q, false)
  else if sna32LTE t (cum q) || has_chunk q t then
    (mkRpq (cum q) (tail q) (size q) (bits q) (dups q ++ [t]) (max_off q) (nwords q), false)
  else
    (mkRpq (cum q) (if sna32GT t (tail q) then t else tail q) (size q + 1)
           (addz (pos q t) (bits q)) (dups q) (max_off q) (nwords q), true).

Definition pop (q : rpq) (force : bool) : rpq * bool :=
  let t := wrap32 (cum q + 1) in
  if has_chunk q t then
    (mkRpq t (tail q) (size q - 1) (remz (pos q t) (bits q)) (dups q) (max_off q) (nwords q), true)
  else if force then
    (mkRpq t (if size q =? 0 then t else tail q) (size q) (bits q) (dups q) (max_off q) (nwords q), false)
  else (q, false).

(* clearTSNRange: remove the positions of start .. start+n-1 ; the Go loop works word by word,
   which is equivalent to clearing each TSN's bit; chunkSize decreases by the number of bits
   actually cleared (OnesCount of the cleared mask). *)
Fixpoint clear_range (q : rpq) (start : Z) (n : nat) (bs : list Z) (cleared : Z) : list Z * Z :=
  match n with
  | O => (bs, cleared)
  | S n' =>
      let p := pos q start in
      if memz p bs then clear_range q (wrap32 (start + 1)) n' (remz p bs) (cleared + 1)
      else clear_range q (wrap32 (start + 1)) n' bs cleared
  end.

Definition advance (q : rpq) (c : Z) : rpq :=
  if negb (sna32LT (cum q) c) then q
  else if (size q =? 0) || sna32LTE (tail q) c then
    mkRpq c c 0 [] (dups q) (max_off q) (nwords q)
  else
    let start := wrap32 (cum q + 1) in
    let n := wrap32 (wrap32 (c - start) + 1) in
    let '(bs, cl) := clear_range q start (Z.to_nat n) (bits q) 0 in
    let sz := size q - cl in
    mkRpq c (if sz =? 0 then c else tail q) sz bs (dups q) (max_off q) (nwords q).

Definition pop_duplicates (q : rpq) : rpq * list Z :=
  (mkRpq (cum q) (tail q) (size q) (bits q) [] (max_off q) (nwords q), dups q).

(* getGapAckBlocks, bit-level specification model: maximal runs of held offsets in
   1 .. tail-cum.  (The Go code scans word by word with TrailingZeros; the word-level scan is
   modelled separately in [gap_blocks_w] and both are compared with the implementation.) *)
Definition held_off (q : rpq) (o : Z) : bool := memz (pos q (wrap32 (cum q + o))) (bits q).

(* scan offsets o, o+1, ... (n of them); [cur] = start of the open run if any *)
Fixpoint gap_scan (q : rpq) (o : Z) (n : nat) (cur : option Z) : list (Z * Z) :=
  match n with
  | O => match cur with Some s => [(s, o - 1)] | None => [] end
  | S n' =>
      if held_off q o then
        gap_scan q (o + 1) n' (match cur with Some s => Some s | None => Some o end)
      else
        match cur with
        | Some s => (s, o - 1) :: gap_scan q (o + 1) n' None
        | None => gap_scan q (o + 1) n' None
        end
  end.

Definition gap_blocks (q : rpq) : list (Z * Z) :=
  if size q =? 0 then []
  else gap_scan q 1 (Z.to_nat (wrap32 (tail q - cum q))) None.

(* ---------- word-level scan, mirroring the Go loop ---------- *)

(* first b in [off, 64) such that bit (idx*64+b) has value [v]; None if there is none *)
Fixpoint first_bit (bs : list Z) (idx : Z) (v : bool) (off : Z) (n : nat) : option Z :=
  match n with
  | O => None
  | S n' => if Bool.eqb (memz (idx * 64 + off) bs) v then Some off
            else first_bit bs idx v (off + 1) n'
  end.

Definition word_find (q : rpq) (t : Z) (v : bool) : option Z :=
  let idx := (t / 64) mod nwords q in
  let off := t mod 64 in
  first_bit (bits q) idx v off (Z.to_nat (64 - off)).

Fixpoint gap_loop (q : rpq) (fuel : nat) (t : Z) (findEnd : bool) (st : Z) (acc : list (Z * Z))
  : option (list (Z * Z)) :=
  match fuel with
  | O => None
  | S f =>
      let endT := tail q in
      if negb (sna32LTE t endT) then Some acc
      else
        let off := t mod 64 in
        if negb findEnd then
          match word_find q t true with
          | Some b =>
              let st' := wrap16 (wrap32 (wrap32 (t + wrap32 (b - off)) - cum q)) in
              gap_loop q f (wrap32 (t + wrap32 (b - off))) true st' acc
          | None => gap_loop q f (wrap32 (t + wrap32 (64 - off))) false st acc
          end
        else
          let '(t1, acc1, fe1) :=
            match word_find q t false with
            | Some b =>
                let en := wrap16 (wrap32 (wrap32 (wrap32 (t + wrap32 (b - off)) - 1) - cum q)) in
                let t' := wrap32 (t + wrap32 (b - off)) in
                (t', (if sna32LTE t' endT then acc ++ [(st, en)] else acc), false)
            | None => (wrap32 (t + wrap32 (64 - off)), acc, true)
            end in
          if sna32GT t1 endT then
            Some (acc1 ++ [(st, wrap16 (wrap32 (endT - cum q)))])
          else gap_loop q f t1 fe1 st acc1
  end.

Definition gap_blocks_w (q : rpq) : option (list (Z * Z)) :=
  if size q =? 0 then Some []
  else gap_loop q (Z.to_nat (2 * wrap32 (tail q - cum q) + 4)) (wrap32 (cum q + 1)) false 0 [].

Definition last_tsn_received (q : rpq) : option Z :=
  if size q =? 0 then None else Some (tail q).

(* ---------- operations as data, for histories ---------- *)
Inductive rop :=
| OpPush (t : Z) | OpPop (force : bool) | OpAdvance (c : Z) | OpPopDups.

Definition rstep (q : rpq) (o : rop) : rpq :=
  match o with
  | OpPush t => fst (push q t)
  | OpPop f => fst (pop q f)
  | OpAdvance c => advance q c
  | OpPopDups => fst (pop_duplicates q)
  end.

(* dump of the bitmap as 64-bit words, for comparison with the Go slice *)
Definition word_value (bs : list Z) (idx : Z) : Z :=
  fold_left (fun acc p => if (p / 64 =? idx) then acc + 2 ^ (p mod 64) else acc) bs 0.
