(* C18 — write/read API contract: rejected or failed calls have no side effects.
   Models: coq/model/StreamW.v (Stream.WriteSCTP, packetize, blocking-write gate, ReadSCTP loop) and
   coq/model/RQ.v (reassemblyQueue.read).  Only statements closed by [exact] + Print Assumptions. *)
From Coq Require Import ZArith Bool List.
From Sctp Require Import Gen SnaProofs StreamW StreamWProofs RQ RQProofs.
Import ListNotations.
Open Scope Z_scope.

(* a write larger than the maximum message size is rejected: same stream state, nothing enqueued *)
Theorem c18_too_large_no_effect : forall st n ppi il maxp maxmsg ok,
  n > maxmsg -> sw_write st n ppi il maxp maxmsg ok = Some (st, SwTooLarge, []).
Proof. exact sw_too_large_identity. Qed.
Print Assumptions c18_too_large_no_effect.

(* a write on a stream that is not open is rejected without effect *)
Theorem c18_closed_stream_no_effect : forall st n ppi il maxp maxmsg ok,
  n <= maxmsg -> sw_state st <> sw_open -> sw_write st n ppi il maxp maxmsg ok = Some (st, SwClosed, []).
Proof. exact sw_closed_identity. Qed.
Print Assumptions c18_closed_stream_no_effect.

(* an empty write returns 0 bytes, sends nothing and leaves SSN / MID counters and the buffered amount alone
   (fix e67ffff; before it the sequence number was consumed: finding D5) *)
Theorem c18_empty_write_no_effect : forall st ppi il maxp maxmsg ok,
  0 <= maxmsg -> sw_state st = sw_open -> sw_write st 0 ppi il maxp maxmsg ok = Some (st, SwOk 0, []).
Proof. exact sw_empty_identity. Qed.
Print Assumptions c18_empty_write_no_effect.

(* a write the association refuses (not established, blocking write cancelled by its deadline) is rolled
   back exactly: sequence number / message identifiers / buffered amount are what they were *)
Theorem c18_failed_send_rolled_back : forall st n ppi il maxp maxmsg st' r cs,
  sw_wf st -> sw_write st n ppi il maxp maxmsg false = Some (st', r, cs) ->
  st' = st /\ cs = [] /\ r <> SwOk n \/ (n = 0 /\ st' = st /\ cs = []).
Proof. exact sw_senderr_identity. Qed.
Print Assumptions c18_failed_send_rolled_back.

(* fragmentation: the fragments are consecutive slices of the payload, each non-empty and at most the
   maximum payload size, numbered 0.., first carries B, last carries E, lengths add up to the message *)
Theorem c18_fragments_partition_payload : forall fuel maxp off remaining fsn mk cs,
  0 < maxp < 4294967296 -> 0 <= remaining -> 0 <= off -> off + remaining < 4294967296 -> 0 <= fsn ->
  fsn + remaining < 4294967296 ->
  sw_frags fuel maxp off remaining fsn mk = Some cs ->
  exists lens,
    cs = (fix build (l : list Z) (o f : Z) : list sw_chunk :=
            match l with
            | [] => []
            | x :: r => mk o x f (o =? 0) (match r with [] => true | _ => false end) :: build r (o + x) (f + 1)
            end) lens off fsn /\
    Forall (fun x => 0 < x <= maxp) lens /\ fold_right Z.add 0 lens = remaining.
Proof. exact sw_frags_spec. Qed.
Print Assumptions c18_fragments_partition_payload.

(* blocking-write mode: for every history of writes, gathers and shutdown/close, a blocking write is let
   through only when all chunks of the previously written data have left the pending queue *)
Theorem c18_blocking_write_waits_for_drain : forall evs g k,
  sw_gate_inv g ->
  Forall (fun e => match e with GWrite k => 1 <= k | GGather j => 0 <= j | GUnblock => True end) evs ->
  let g' := fold_left (fun g e => fst (sw_gate_step g e)) evs g in
  snd (sw_gate_step g' (GWrite k)) = GAdmitted -> swg_user_chunks g' = 0.
Proof. exact sw_gate_admit_means_drained. Qed.
Print Assumptions c18_blocking_write_waits_for_drain.

Theorem c18_write_rejected_when_not_established : forall g k,
  swg_established g = false -> sw_gate_step g (GWrite k) = (g, GRejected).
Proof. exact sw_gate_rejects_when_not_established. Qed.
Print Assumptions c18_write_rejected_when_not_established.

(* a read into a buffer that is too small reports a short buffer and leaves the queue exactly as it was *)
Theorem c18_short_buffer_read_keeps_message : forall q b q' n,
  rq_read q b = (q', RdShort n) -> q' = q /\ b < n.
Proof. exact rq_read_short_spec. Qed.
Print Assumptions c18_short_buffer_read_keeps_message.

(* any read that does not return a message leaves the queue unchanged (so a read deadline, which only makes
   the blocked read return an error, loses or duplicates nothing) *)
Theorem c18_failed_read_no_effect : forall q b,
  match snd (rq_read q b) with RdOk _ _ _ => True | _ => fst (rq_read q b) = q end.
Proof. exact rq_read_not_ok_identity. Qed.
Print Assumptions c18_failed_read_no_effect.

(* ReadSCTP serves a readable message before any read error (deadline, reset, close) *)
Theorem c18_message_before_read_error : forall q err, sw_read_once q err = RErr -> q = None /\ err = true.
Proof. exact sw_read_error_only_when_nothing_readable. Qed.
Print Assumptions c18_message_before_read_error.

(* non-vacuity *)
Example c18_example_writes :
  let st := mkSW 65535 7 4294967295 true 100 sw_open in
  sw_write st 70000 51 false 1160 65536 true = Some (st, SwTooLarge, []) /\
  sw_write st 0 51 true 1160 65536 true = Some (st, SwOk 0, []) /\
  (exists cs, sw_write st 2500 51 true 1160 65536 true = Some (mkSW 65535 7 0 true 2600 sw_open, SwOk 2500, cs) /\ length cs = 3%nat) /\
  sw_write st 2500 51 true 1160 65536 false = Some (st, SwSendErr, []).
Proof. vm_compute. repeat split. eexists. split; reflexivity. Qed.
