// Verification harness (overlay; not part of pion/sctp): step-commuting records of the composed receiver taken
// from simulated two-endpoint runs.  For every packet the harness delivers that carries DATA / I-DATA (and
// otherwise only chunks that do not touch the receive side), the observer writes: the receiving association's
// receive bitmap and all its stream queues before, the chunks in packet order, the same state after.
// ocaml/cmp_e2e.ml loads the pre-state into the Coq model (e2e_recv_data, coq/model/E2E.v), applies the chunks
// and compares the post-state.
package sctp

import (
	"bufio"
	"fmt"
	"strings"
	"sync"
	"testing"
)

type recvRecorder struct {
	mu      *sync.Mutex
	w       *bufio.Writer
	n       *int
	chunks  *int
	skipped map[string]int
	pending []string
}

func (r *recvRecorder) before(s *sim, ev *simEvent) {
	r.pending = nil
	if ev.kind != "deliver" || ev.pkt == nil || ev.pkt.pkt == nil {
		return
	}
	var data []*chunkPayloadData
	for _, c := range ev.pkt.pkt.chunks {
		switch v := c.(type) {
		case *chunkPayloadData:
			data = append(data, v)
		case *chunkSelectiveAck, *chunkHeartbeat, *chunkHeartbeatAck, *chunkCookieAck:
		default:
			if len(data) > 0 || true {
				r.skipped["other-chunk-in-packet"]++
			}
			return
		}
	}
	if len(data) == 0 {
		return
	}
	a := s.assoc[ev.side]
	if a == nil {
		return
	}
	a.lock.RLock()
	defer a.lock.RUnlock()
	if a.getState() != established || a.willSendAbort || a.shutdownCompletePending {
		r.skipped["not-established"]++
		return
	}
	if ev.pkt.pkt.verificationTag != a.myVerificationTag {
		r.skipped["bad-tag"]++
		return
	}
	held := 0
	for _, st := range a.streams {
		held += st.getNumBytesInReassemblyQueue()
	}
	for _, c := range data {
		held += len(c.userData)
	}
	if held > 5000 { // every payload byte is printed: keep records small (see after)
		r.skipped["large"]++
		return
	}
	acceptOK := len(a.acceptCh) < cap(a.acceptCh)
	lines := []string{fmt.Sprintf("load %d %d %d %s", a.maxReceiveBufferSize, a.maxReassemblyQueueEntries,
		b2i(a.useInterleaving), e2eStateStringDups(a, false))}
	for _, c := range data {
		var sb strings.Builder
		sb.WriteString("arr")
		rqChunkTokens(&sb, c)
		lines = append(lines, fmt.Sprintf("%s %d", sb.String(), b2i(acceptOK)))
	}
	r.pending = lines
}

func (r *recvRecorder) after(s *sim, ev *simEvent) {
	if r.pending == nil {
		return
	}
	a := s.assoc[ev.side]
	a.lock.RLock()
	post := e2eStateStringDups(a, false)
	ok := a.getState() == established
	a.lock.RUnlock()
	if !ok {
		r.skipped["state-changed"]++
		return
	}
	// the dumps print every payload byte; records of associations holding large messages are left out
	// (the bare-association differential covers large buffers), the rest stays a few kB per record
	size := len(post)
	for _, l := range r.pending {
		size += len(l)
	}
	if size > 24000 {
		r.skipped["large"]++
		return
	}
	r.mu.Lock()
	defer r.mu.Unlock()
	*r.n++
	*r.chunks += len(r.pending) - 1
	fmt.Fprintf(r.w, "case s%d\n", *r.n)
	for _, l := range r.pending {
		fmt.Fprintln(r.w, l)
	}
	fmt.Fprintln(r.w, post)
}

// TestVerifSimRecv runs transfer scenarios and records receiver step-commuting records.
func TestVerifSimRecv(t *testing.T) {
	seed := verifEnvInt("VERIF_SEED", 1)
	n := int(verifEnvInt("VERIF_N", 40))
	nEvents := int(verifEnvInt("VERIF_EVENTS", 250))
	w, done := verifOut(t, "/tmp/verif_simrecv.trace")
	defer done()
	var mu sync.Mutex
	cnt, chunks := 0, 0
	skipped := map[string]int{}
	simObserverFactory = func() []simObserver {
		return []simObserver{&recvRecorder{mu: &mu, w: w, n: &cnt, chunks: &chunks, skipped: skipped}}
	}
	defer func() { simObserverFactory = nil }()
	st := &xferStats{faults: map[string]int{}}
	for i := 0; i < n; i++ {
		fails := runTransferScenario(t, seed*1000003+int64(i), nEvents, st)
		st.scenarios++
		st.fails += len(fails)
	}
	fmt.Printf("SIMRECV scenarios=%d records=%d chunks=%d skipped_other_chunk=%d skipped_not_established=%d skipped_state_changed=%d skipped_bad_tag=%d skipped_large_dump=%d monitor_fails=%d\n",
		st.scenarios, cnt, chunks, skipped["other-chunk-in-packet"], skipped["not-established"], skipped["state-changed"], skipped["bad-tag"], skipped["large"], st.fails)
}
