(* C02 — no permanent stall (PARTIAL by design: the wall-clock bound across goroutine wake-ups is not carried
   by the model).  What is proved: every ingredient of the progress argument, each over all states / histories
   of its model; the composition "every fault-free round strictly advances the cumulative ack" is argued in
   DESIGN.md and searched for counterexamples by the simulator (heal-then-drain scenarios, zero-window episodes,
   invariant monitors at every quiescent point).  Only statements closed by [exact]. *)
From Coq Require Import ZArith Bool List.
From Sctp Require Import Gen SnaProofs Sender SenderProofs RPQ RPQProofs RQ RQProofs TimerFsm TimerProofs.
Import ListNotations.
Open Scope Z_scope.

(* 1. T3 never gives up: with maxRetrans = 0 (T3-rtx, T2-shutdown, reconfig) no history of start/stop/expiry
      events produces a failure callback and the timer stays alive *)
Theorem c02_t3_never_gives_up : forall evs t,
  rtx_inv t -> rx_maxretrans t = 0 -> rtx_alive t -> Forall tm_quiet evs ->
  (forall id, ~ In (OFailure id) (snd (rtx_run t evs))) /\ rtx_alive (fst (rtx_run t evs)).
Proof. exact rtx_never_gives_up. Qed.
Print Assumptions c02_t3_never_gives_up.

(* 2. a T3 expiry marks every outstanding chunk (not acknowledged, not abandoned) for retransmission and
      keeps the queue and its byte count *)
Theorem c02_t3_marks_all_outstanding : forall s c,
  In c (st_infl (t3_step s)) -> sc_acked c = false -> sc_aband c = false -> sc_rtx c = true.
Proof. exact t3_marks_all_outstanding. Qed.
Print Assumptions c02_t3_marks_all_outstanding.

(* 3. after a T3 expiry the lowest outstanding chunk is retransmitted whatever the peer's window is (zero-window
      probe) and although the congestion window collapsed to one MTU *)
Theorem c02_t3_retransmits_lowest_outstanding : forall s gate c rest,
  st_infl s = c :: rest -> sc_acked c = false -> sc_aband c = false -> 0 <= sc_len c ->
  0 < st_mtu s -> sc_len c <= st_mtu s -> st_mincwnd s <= st_cwnd s -> gate (sc_len c) = true ->
  In 0 (rtx_select (t3_step s) gate).
Proof. exact t3_retransmits_lowest_outstanding. Qed.
Print Assumptions c02_t3_retransmits_lowest_outstanding.

(* 4. queued data always gets a chunk on the wire when nothing is in flight: the probe path *)
Theorem c02_pending_progress : forall s n,
  st_infl s = [] -> admit_new s n false <> AdmitNo.
Proof.
  intros s n H. unfold admit_new. rewrite H. cbn.
  destruct ((wrap32 (wrap32 (st_nbytes s) + n) <=? st_cwnd s) && (n <=? st_rwnd s))%bool; discriminate.
Qed.
Print Assumptions c02_pending_progress.

(* 5. the receiver always takes the lowest missing TSN: an arrival just above the cumulative point is inside
      the tracking window and, unless already accepted, is accepted by the bitmap — for every history *)
Theorem c02_lowest_missing_accepted : forall m k0 evs k,
  0 <= m < 2147483584 ->
  run_ok (ginit (rpq_new m) k0) evs ->
  let s := grun (ginit (rpq_new m) k0) evs in
  - H31 < k - gK (snd s) < H31 ->
  (snd (push (fst s) (wrap32 k)) = true <->
   gK (snd s) < k <= gK (snd s) + max_off (fst s) /\ ~ In k (gacc (snd s))).
Proof. exact accept_iff. Qed.
Print Assumptions c02_lowest_missing_accepted.

(* 6. at zero credit the association still takes a chunk that fills a gap below the highest TSN received *)
Theorem c02_gap_fill_at_zero_window : forall pq tsn,
  can_push pq tsn = true -> size pq <> 0 -> sna32LT tsn (tail pq) = true -> rq_assoc_takes pq 0 tsn = true.
Proof.
  intros pq tsn H1 H2 H3. unfold rq_assoc_takes. rewrite H1. cbn [andb].
  unfold rq_admit, last_tsn_received. destruct (size pq =? 0) eqn:E; [apply Z.eqb_eq in E; contradiction|].
  cbn. rewrite H3. reflexivity.
Qed.
Print Assumptions c02_gap_fill_at_zero_window.

(* 7. an accepted SACK that advances the cumulative point strictly shrinks the in-flight queue's byte count or
      leaves it (never grows): the measure of the progress argument *)
Theorem c02_ack_never_grows_outstanding : forall s cum arwnd gaps s' pend,
  sack_step s cum arwnd gaps = SOk s' -> BI s pend ->
  BI s' pend /\ st_nbytes s' <= st_nbytes s /\ map fst (st_buffered s') = map fst (st_buffered s).
Proof. exact sack_step_BI. Qed.
Print Assumptions c02_ack_never_grows_outstanding.

(* 8. the congestion window never falls below one MTU, so a full-sized chunk always fits it *)
Theorem c02_cwnd_floor_after_t3 : forall s, 0 < st_mtu s < 1073741824 ->
  st_cwnd (t3_step s) = Z.max (st_mtu s) (st_mincwnd s) /\
  st_ssthresh (t3_step s) = Z.max (st_cwnd s / 2) (4 * st_mtu s).
Proof. exact t3_cwnd. Qed.
Print Assumptions c02_cwnd_floor_after_t3.

Example c02_example_t3_round :
  let s := mkS c_established 99 100 [mkSC 1 1000 false false 0 false; mkSC 1 0 true false 0 false; mkSC 2 700 false false 1 false]
               1700 8000 0 9000 0 false 0 false 1200 0 0 3 3000 [(1, 2000); (2, 2700)] in
  rtx_select (t3_step s) (fun _ => true) = [0] /\ st_cwnd (t3_step s) = 1200 /\
  map sc_rtx (st_infl (t3_step s)) = [true; false; true].
Proof. vm_compute. repeat split. Qed.
