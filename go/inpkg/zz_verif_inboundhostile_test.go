package sctp

// C03, "semantically invalid or misplaced packets must be dropped, not crash the endpoint": every
// structurally valid chunk of a list of misplaced / unsolicited / stale control chunks is handed to
// handleInbound of a bare association in each of the 8 association states (with and without streams
// and outstanding data), inside recover(): a panic is a concrete failing input.  The live-association
// injection (TestVerifSimInject) covers the state-change and stall clauses; this matrix covers the
// handlers that need no running peer (RE-CONFIG, HEARTBEAT-ACK, ERROR, handshake and shutdown chunks).

import (
	"fmt"
	"math/rand"
	"testing"
)

type ihCase struct {
	name string
	mk   func(a *Association, rng *rand.Rand) []chunk
}

func ihCases() []ihCase {
	resp := func(seq uint32, res reconfigResult) chunk {
		return &chunkReconfig{paramA: &paramReconfigResponse{reconfigResponseSequenceNumber: seq, result: res}}
	}
	return []ihCase{
		{"reconfig-response-unknown-seq", func(a *Association, rng *rand.Rand) []chunk {
			return []chunk{resp(a.myNextRSN+uint32(rng.Intn(5)), reconfigResult(rng.Intn(7)))}
		}},
		{"reconfig-response-performed-unsolicited", func(a *Association, rng *rand.Rand) []chunk {
			return []chunk{resp([]uint32{0, 1, a.myNextRSN - 1, a.myNextRSN, 0xffffffff, rng.Uint32()}[rng.Intn(6)], reconfigResultSuccessPerformed)}
		}},
		{"reconfig-response-in-both-params", func(a *Association, rng *rand.Rand) []chunk {
			return []chunk{&chunkReconfig{
				paramA: &paramReconfigResponse{reconfigResponseSequenceNumber: a.myNextRSN - 1, result: reconfigResultSuccessPerformed},
				paramB: &paramReconfigResponse{reconfigResponseSequenceNumber: rng.Uint32(), result: reconfigResultInProgress}}}
		}},
		{"reconfig-reset-request-unknown-streams", func(a *Association, rng *rand.Rand) []chunk {
			return []chunk{&chunkReconfig{paramA: &paramOutgoingResetRequest{reconfigRequestSequenceNumber: rng.Uint32(),
				reconfigResponseSequenceNumber: rng.Uint32(), senderLastTSN: a.peerLastTSN() + uint32(rng.Intn(3)) - 1,
				streamIdentifiers: []uint16{uint16(rng.Intn(70000)), 1, 1}}}}
		}},
		{"reconfig-reset-request-far-last-tsn", func(a *Association, rng *rand.Rand) []chunk {
			return []chunk{&chunkReconfig{paramA: &paramOutgoingResetRequest{reconfigRequestSequenceNumber: 1,
				reconfigResponseSequenceNumber: 1, senderLastTSN: a.peerLastTSN() + 0x7fffffff, streamIdentifiers: []uint16{1}}}}
		}},
		{"reconfig-reset-request-no-streams", func(a *Association, rng *rand.Rand) []chunk {
			return []chunk{&chunkReconfig{paramA: &paramOutgoingResetRequest{reconfigRequestSequenceNumber: 2,
				reconfigResponseSequenceNumber: 2, senderLastTSN: a.peerLastTSN()}}}
		}},
		{"heartbeat-ack-unsolicited", func(a *Association, rng *rand.Rand) []chunk {
			info := make([]byte, []int{0, 1, 3, 8, 16, 40}[rng.Intn(6)])
			rng.Read(info)
			return []chunk{&chunkHeartbeatAck{params: []param{&paramHeartbeatInfo{heartbeatInformation: info}}}}
		}},
		{"heartbeat-ack-without-info", func(a *Association, rng *rand.Rand) []chunk {
			return []chunk{&chunkHeartbeatAck{}}
		}},
		{"heartbeat-with-odd-info", func(a *Association, rng *rand.Rand) []chunk {
			info := make([]byte, rng.Intn(5))
			return []chunk{&chunkHeartbeat{params: []param{&paramHeartbeatInfo{heartbeatInformation: info}}}}
		}},
		{"error-chunk", func(a *Association, rng *rand.Rand) []chunk {
			return []chunk{&chunkError{errorCauses: []errorCause{&errorCauseUnrecognizedChunkType{}}}}
		}},
		{"cookie-ack-misplaced", func(a *Association, rng *rand.Rand) []chunk { return []chunk{&chunkCookieAck{}} }},
		{"cookie-echo-foreign", func(a *Association, rng *rand.Rand) []chunk {
			c := make([]byte, 4+rng.Intn(40))
			rng.Read(c)
			return []chunk{&chunkCookieEcho{cookie: c}}
		}},
		{"shutdown-misplaced", func(a *Association, rng *rand.Rand) []chunk {
			return []chunk{&chunkShutdown{cumulativeTSNAck: []uint32{a.cumulativeTSNAckPoint, a.myNextTSN + 5, a.cumulativeTSNAckPoint - 0x80000000, rng.Uint32()}[rng.Intn(4)]}}
		}},
		{"shutdown-ack-misplaced", func(a *Association, rng *rand.Rand) []chunk { return []chunk{&chunkShutdownAck{}} }},
		{"shutdown-complete-misplaced", func(a *Association, rng *rand.Rand) []chunk { return []chunk{&chunkShutdownComplete{}} }},
		{"forward-tsn-unknown-streams", func(a *Association, rng *rand.Rand) []chunk {
			return []chunk{&chunkForwardTSN{newCumulativeTSN: a.peerLastTSN() + uint32(rng.Intn(4)),
				streams: []chunkForwardTSNStream{{identifier: uint16(rng.Intn(65536)), sequence: uint16(rng.Intn(65536))}, {identifier: 1, sequence: 65535}}}}
		}},
		{"i-forward-tsn-unknown-streams", func(a *Association, rng *rand.Rand) []chunk {
			return []chunk{&chunkIForwardTSN{newCumulativeTSN: a.peerLastTSN() + uint32(rng.Intn(4)),
				streams: []chunkIForwardTSNStream{{identifier: uint16(rng.Intn(65536)), unordered: rng.Intn(2) == 0, messageIdentifier: rng.Uint32()}}}}
		}},
		{"sack-for-nothing-in-flight", func(a *Association, rng *rand.Rand) []chunk {
			return []chunk{&chunkSelectiveAck{cumulativeTSNAck: a.cumulativeTSNAckPoint + uint32(rng.Intn(3)), advertisedReceiverWindowCredit: rng.Uint32(),
				gapAckBlocks: []gapAckBlock{{uint16(1 + rng.Intn(3)), uint16(2 + rng.Intn(3))}}, duplicateTSN: []uint32{rng.Uint32()}}}
		}},
		{"abort-with-causes", func(a *Association, rng *rand.Rand) []chunk {
			return []chunk{&chunkAbort{errorCauses: []errorCause{&errorCauseProtocolViolation{additionalInformation: []byte("x")}}}}
		}},
		{"init-ack-misplaced", func(a *Association, rng *rand.Rand) []chunk {
			ia := &chunkInitAck{}
			ia.initiateTag, ia.initialTSN, ia.numInboundStreams, ia.numOutboundStreams, ia.advertisedReceiverWindowCredit = 9, 9, 1, 1, 1000
			if rng.Intn(2) == 0 {
				ia.params = append(ia.params, &paramStateCookie{cookie: []byte("cookie")})
			}
			return []chunk{ia}
		}},
	}
}

func TestVerifInboundHostile(t *testing.T) {
	seed := verifEnvInt("VERIF_SEED", 1)
	reps := int(verifEnvInt("VERIF_N", 6))
	rng := rand.New(rand.NewSource(seed + 41))
	fails, n, unmarshalable := 0, 0, 0
	seen := map[string]bool{}
	cases := ihCases()
	for rep := 0; rep < reps; rep++ {
		for state := uint32(0); state < 8; state++ {
			for flavour := 0; flavour < 4; flavour++ {
				for _, hc := range cases {
					a := ibBareAssoc()
					// stands in for the connect call that waits for the handshake result
					go func(a *Association) {
						for {
							select {
							case <-a.handshakeCompletedCh:
							case <-a.readLoopCloseCh:
								return
							case <-a.closeWriteLoopCh:
								return
							}
						}
					}(a)
					il := flavour&1 != 0
					a.lock.Lock()
					a.setState(state)
					a.useInterleaving, a.useForwardTSN, a.useIForwardTSN = il, !il, il
					_ = a.pendingQueue.setInterleaving(il)
					if flavour&2 != 0 {
						// a stream with received data and some outstanding data of our own
						s := a.createStream(1, false)
						_ = s
						a.lock.Unlock()
						_ = a.handleChunk(nil, &chunkPayloadData{tsn: 5002, streamIdentifier: 1, beginningFragment: true, userData: []byte{1, 2}, iData: il})
						a.lock.Lock()
						c := &chunkPayloadData{streamIdentifier: 1, beginningFragment: true, endingFragment: true, userData: []byte{1, 2, 3}, tsn: a.myNextTSN, iData: il}
						a.myNextTSN++
						a.inflightQueue.pushNoCheck(c)
						a.setState(state)
					}
					a.lock.Unlock()
					chunks := hc.mk(a, rng)
					raw := ibMarshal(a, chunks...)
					if raw == nil {
						unmarshalable++
						_ = a.close()
						continue
					}
					n++
					func() {
						defer func() {
							if r := recover(); r != nil {
								fails++
								key := hc.name
								if !seen[key] {
									seen[key] = true
									fmt.Printf("SIMFAIL prop=C03 (panic-on-inbound) kind=%s state=%s interleaving=%v with_streams=%v: panic: %v\n",
										hc.name, getAssociationStateString(state), il, flavour&2 != 0, r)
								}
							}
						}()
						_ = a.handleInbound(raw)
					}()
					// the association may be left locked after a panic: do not touch it again
					if !seen[hc.name] {
						_ = a.close()
					}
				}
			}
		}
	}
	fmt.Printf("INBOUNDHOSTILE kinds=%d packets=%d not_encodable=%d panics=%d\n", len(cases), n, unmarshalable, fails)
}
