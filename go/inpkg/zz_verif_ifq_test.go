// Verification harness (overlay; not part of pion/sctp): differential for the generic ring deque
// (queue.go) and the in-flight queue (payload_queue.go).
// Writes a trace of operations, observed results and a canonical state dump after every operation;
// /verif/ocaml/cmp_ifq.ml replays it on the extracted Coq model (coq/model/IFQ.v).
//
// Trace lines (space separated tokens), one record per operation line, each followed by a dump:
//
//	case <name>
//	new                                  newPayloadQueue()
//	push id tsn len acked rtx aband      pushNoCheck(chunk)
//	pop tsn ok id rtsn                   pop(tsn)      id/rtsn of the returned chunk (0 0 if none)
//	get tsn ok id rtsn                   get(tsn)
//	ack tsn n                            markAsAcked(tsn) = n
//	rtxall                               markAllToRetrasmit()
//	nbytes v / size v                    getNumBytes() / size()
//	aband i v                            (not a queue op) the i-th live chunk's abandoned() becomes v
//	d nBytes count head tail cap n {id tsn len acked rtx aband}*n     live elements, queue order
//
//	rnew kind capacity                   newQueue[int] (kind i) / newQueue[*ifqRingElem] (kind p)
//	rpush v / rpop v / rfront v / rback v / rlen v
//	rat i ok v                           At(i); ok=0 if it panicked
//	rd count head tail cap {slot}*cap    the whole buffer (0 = zero value / nil)
//
// A token "panic" in place of a result means the Go call panicked.
package sctp

import (
	"bufio"
	"fmt"
	"math/rand"
	"sort"
	"strings"
	"testing"
)

type ifqHarness struct {
	w      *bufio.Writer
	q      *payloadQueue
	ids    map[*chunkPayloadData]int
	nextID int
	ops    map[string]int
	notes  []string
	consec bool   // the case pushes consecutive TSNs only: the invariant of the theorems must hold
	name   string // current case
	fails  int
}

// fail prints one line per violated expectation on the implementation itself (prefix IFQ-FAIL).
func (h *ifqHarness) fail(format string, args ...any) {
	h.fails++
	if h.fails <= 20 {
		fmt.Printf("IFQ-FAIL case=%s "+format+"\n", append([]any{h.name}, args...)...)
	}
}

func (h *ifqHarness) id(c *chunkPayloadData) int {
	if c == nil {
		return 0
	}
	if id, ok := h.ids[c]; ok {
		return id
	}

	return -1 // a pointer the harness never pushed: would be a defect
}

// live returns the i-th live element reading the buffer directly (not through At).
func (h *ifqHarness) live(i int) *chunkPayloadData {
	r := h.q.chunks

	return r.buf[(r.head+i)%len(r.buf)]
}

func (h *ifqHarness) dump() {
	r := h.q.chunks
	n := r.count
	if n < 0 {
		n = 0
	}
	fmt.Fprintf(h.w, "d %d %d %d %d %d %d", h.q.nBytes, r.count, r.head, r.tail, len(r.buf), n)
	for i := 0; i < n; i++ {
		c := h.live(i)
		if c == nil {
			fmt.Fprintf(h.w, " 0 0 0 0 0 0")

			continue
		}
		fmt.Fprintf(h.w, " %d %d %d %d %d %d", h.id(c), c.tsn, len(c.userData), b2i(c.acked), b2i(c.retransmit), b2i(c.abandoned()))
	}
	fmt.Fprintln(h.w)
	if h.consec {
		// what ifq_thm_history states, observed on the real object after every operation
		sum := 0
		for i := 0; i < n; i++ {
			c := h.live(i)
			if c == nil {
				h.fail("nil chunk in live range at %d", i)

				continue
			}
			if !c.acked {
				sum += len(c.userData)
			} else if len(c.userData) != 0 {
				h.fail("acked chunk tsn=%d keeps %d bytes", c.tsn, len(c.userData))
			}
			if c.tsn != h.live(0).tsn+uint32(i) {
				h.fail("tsn not consecutive at %d", i)
			}
		}
		if h.q.nBytes != sum || h.q.nBytes < 0 {
			h.fail("nBytes=%d but un-acked payload sum=%d", h.q.nBytes, sum)
		}
	}
}

func (h *ifqHarness) newCase(name string) {
	h.q = newPayloadQueue()
	h.ids = map[*chunkPayloadData]int{}
	h.nextID = 1
	h.name = name
	h.consec = !strings.HasPrefix(name, "nonconsec") && name != "witness_get_wrong_tsn"
	fmt.Fprintf(h.w, "case %s\nnew\n", name)
	h.ops["new"]++
	h.dump()
}

// guard runs f and reports whether it panicked.
func ifqGuard(f func()) (panicked bool) {
	defer func() {
		if recover() != nil {
			panicked = true
		}
	}()
	f()

	return false
}

func (h *ifqHarness) push(tsn uint32, n int, acked, rtx, ab bool) {
	c := &chunkPayloadData{tsn: tsn, userData: make([]byte, n), acked: acked, retransmit: rtx}
	// abandoned() = _abandoned && _allInflight (no head pointer); vary both fields
	if ab {
		c._abandoned, c._allInflight = true, true
	} else {
		switch n % 3 {
		case 0:
			c._abandoned = true
		case 1:
			c._allInflight = true
		}
	}
	h.ids[c] = h.nextID
	h.nextID++
	h.ops["push"]++
	if ifqGuard(func() { h.q.pushNoCheck(c) }) {
		fmt.Fprintf(h.w, "push panic\n")
	} else {
		fmt.Fprintf(h.w, "push %d %d %d %d %d %d\n", h.ids[c], tsn, n, b2i(acked), b2i(rtx), b2i(c.abandoned()))
	}
	h.dump()
}

func (h *ifqHarness) pop(tsn uint32) {
	var c *chunkPayloadData
	var ok bool
	h.ops["pop"]++
	if ifqGuard(func() { c, ok = h.q.pop(tsn) }) {
		fmt.Fprintf(h.w, "pop %d panic\n", tsn)
	} else {
		rt := uint32(0)
		if c != nil {
			rt = c.tsn
			id := h.id(c)
			delete(h.ids, c) // left the queue: a later get returning it would print id -1
			fmt.Fprintf(h.w, "pop %d %d %d %d\n", tsn, b2i(ok), id, rt)
		} else {
			fmt.Fprintf(h.w, "pop %d %d 0 0\n", tsn, b2i(ok))
		}
		if ok {
			h.ops["pop_hit"]++
		}
	}
	h.dump()
}

func (h *ifqHarness) get(tsn uint32) {
	var c *chunkPayloadData
	var ok bool
	h.ops["get"]++
	if ifqGuard(func() { c, ok = h.q.get(tsn) }) {
		fmt.Fprintf(h.w, "get %d panic\n", tsn)
	} else {
		rt := uint32(0)
		if c != nil {
			rt = c.tsn
		}
		fmt.Fprintf(h.w, "get %d %d %d %d\n", tsn, b2i(ok), h.id(c), rt)
		if ok {
			h.ops["get_hit"]++
			if rt != tsn {
				h.ops["get_wrong_tsn"]++
				if h.consec {
					h.fail("get(%d) returned tsn=%d", tsn, rt)
				}
			}
		}
	}
	h.dump()
}

func (h *ifqHarness) ack(tsn uint32) {
	var n int
	h.ops["ack"]++
	if ifqGuard(func() { n = h.q.markAsAcked(tsn) }) {
		fmt.Fprintf(h.w, "ack %d panic\n", tsn)
	} else {
		fmt.Fprintf(h.w, "ack %d %d\n", tsn, n)
		if n > 0 {
			h.ops["ack_bytes>0"]++
		}
	}
	h.dump()
}

func (h *ifqHarness) misc(op string) {
	h.ops[op]++
	switch op {
	case "rtxall":
		if ifqGuard(func() { h.q.markAllToRetrasmit() }) {
			fmt.Fprintf(h.w, "rtxall panic\n")
		} else {
			fmt.Fprintf(h.w, "rtxall\n")
		}
	case "nbytes":
		fmt.Fprintf(h.w, "nbytes %d\n", h.q.getNumBytes())
	case "size":
		fmt.Fprintf(h.w, "size %d\n", h.q.size())
	}
	h.dump()
}

// setAband changes what abandoned() answers for the i-th live chunk, as the association does
// through setAbandoned/setAllInflight on the shared pointer.
func (h *ifqHarness) setAband(i int, v bool) {
	c := h.live(i)
	if c == nil {
		return
	}
	h.ops["aband"]++
	c._abandoned, c._allInflight = v, true
	fmt.Fprintf(h.w, "aband %d %d\n", i, b2i(c.abandoned()))
	h.dump()
}

// pickTSN draws a TSN relative to the queue content: present, just outside, below front, far ahead.
func (h *ifqHarness) pickTSN(rng *rand.Rand) uint32 {
	r := h.q.chunks
	var front uint32
	if r.count > 0 && h.live(0) != nil {
		front = h.live(0).tsn
	} else {
		// empty queue: Front() would be the nil slot; TSN 0 is what a forgotten Len() guard would match
		if rng.Intn(3) == 0 {
			return 0
		}
		front = rng.Uint32()
	}
	cnt := r.count
	if cnt < 1 {
		cnt = 1
	}
	switch rng.Intn(12) {
	case 0:
		return front - 1 - uint32(rng.Intn(4)) // below front
	case 1:
		return front + uint32(cnt) + uint32(rng.Intn(3)) // just past the end
	case 2:
		return front + uint32(1<<31) + uint32(rng.Intn(5)) - 2 // far ahead
	case 3:
		return rng.Uint32()
	case 4:
		return front + uint32(cnt) - 1 // last
	case 5:
		return front
	default:
		return front + uint32(rng.Intn(cnt)) // present
	}
}

func (h *ifqHarness) frontTSN() (uint32, bool) {
	if h.q.chunks.count > 0 && h.live(0) != nil {
		return h.live(0).tsn, true
	}

	return 0, false
}

func ifqBase(rng *rand.Rand) uint32 {
	if rng.Intn(2) == 0 {
		return uint32(0) - uint32(rng.Intn(400)) // within a few hundred of the 2^32 wrap
	}

	return rng.Uint32()
}

// randomOps drives the queue with the association's entry points.  consecutive=true pushes
// next, next+1, ... un-acked (what movePendingDataChunkToInflightQueue does); false pushes anything.
func (h *ifqHarness) randomOps(rng *rand.Rand, nOps int, next *uint32, consecutive bool, pushPct int) {
	var lastAck uint32
	haveAck := false
	for i := 0; i < nOps; i++ {
		r := rng.Intn(100)
		switch {
		case r < pushPct:
			n := 0
			switch rng.Intn(6) {
			case 0:
			case 1:
				n = 1 + rng.Intn(3)
			default:
				n = 1 + rng.Intn(1200)
			}
			if consecutive {
				h.push(*next, n, false, rng.Intn(8) == 0, rng.Intn(6) == 0)
				*next++
			} else {
				var t uint32
				switch rng.Intn(4) {
				case 0:
					t = *next - uint32(rng.Intn(6)) // repeats and going backwards
				case 1:
					t = rng.Uint32()
				default:
					t = *next + uint32(rng.Intn(4)) // gaps
				}
				*next = t + 1
				h.push(t, n, rng.Intn(6) == 0, rng.Intn(4) == 0, rng.Intn(5) == 0)
			}
		case r < pushPct+16:
			if f, ok := h.frontTSN(); ok && rng.Intn(4) != 0 {
				h.pop(f)
			} else {
				h.pop(h.pickTSN(rng))
			}
		case r < pushPct+28:
			h.get(h.pickTSN(rng))
		case r < pushPct+40:
			if haveAck && rng.Intn(4) == 0 {
				h.ack(lastAck) // double ack
				h.ops["ack_repeat"]++
			} else {
				lastAck, haveAck = h.pickTSN(rng), true
				h.ack(lastAck)
			}
		case r < pushPct+43:
			h.misc("rtxall")
		case r < pushPct+47:
			h.misc("nbytes")
		case r < pushPct+51:
			h.misc("size")
		default:
			if c := h.q.chunks.count; c > 0 {
				h.setAband(rng.Intn(c), rng.Intn(2) == 0)
			} else {
				h.misc("size")
			}
		}
	}
}

// growth script: make head != 0, fill to 128 so that growIfFull copies a wrapped buffer, again
// for 256, then random traffic on the 512-slot ring.
func (h *ifqHarness) growthScript(rng *rand.Rand, next *uint32) {
	pushN := func(n int) {
		for i := 0; i < n; i++ {
			h.push(*next, rng.Intn(300), false, false, rng.Intn(9) == 0)
			*next++
		}
	}
	popN := func(n int) {
		for i := 0; i < n; i++ {
			if f, ok := h.frontTSN(); ok {
				if rng.Intn(3) == 0 {
					h.ack(f)
				}
				h.pop(f)
			}
		}
	}
	a := 20 + rng.Intn(100)
	pushN(a)
	popN(1 + rng.Intn(a))
	pushN(129 - h.q.chunks.count + rng.Intn(4)) // crosses 128 with head != 0
	if len(h.q.chunks.buf) > 128 {
		h.ops["grow256"]++
	}
	if rng.Intn(2) == 0 {
		popN(1 + rng.Intn(100))
		h.get(h.pickTSN(rng))
		h.misc("rtxall")
		pushN(257 - h.q.chunks.count + rng.Intn(4)) // crosses 256 with head != 0
		if len(h.q.chunks.buf) > 256 {
			h.ops["grow512"]++
		}
	}
}

// ---------------------------------------------------------------------------------------------
// generic ring

type ifqRingElem struct{ id int }

type ifqRing struct {
	w    *bufio.Writer
	kind byte
	qi   *queue[int]
	qp   *queue[*ifqRingElem]
	next int
	ops  map[string]int
}

func (r *ifqRing) state() (count, head, tail, capacity int) {
	if r.kind == 'i' {
		return r.qi.count, r.qi.head, r.qi.tail, len(r.qi.buf)
	}

	return r.qp.count, r.qp.head, r.qp.tail, len(r.qp.buf)
}

func ifqElemID(e *ifqRingElem) int {
	if e == nil {
		return 0
	}

	return e.id
}

func (r *ifqRing) dump() {
	count, head, tail, capacity := r.state()
	fmt.Fprintf(r.w, "rd %d %d %d %d", count, head, tail, capacity)
	if r.kind == 'i' {
		for _, v := range r.qi.buf {
			fmt.Fprintf(r.w, " %d", v)
		}
	} else {
		for _, v := range r.qp.buf {
			fmt.Fprintf(r.w, " %d", ifqElemID(v))
		}
	}
	fmt.Fprintln(r.w)
}

func (r *ifqRing) newCase(name string, kind byte, capacity int) {
	r.kind = kind
	r.next = 1
	if kind == 'i' {
		r.qi = newQueue[int](capacity)
	} else {
		r.qp = newQueue[*ifqRingElem](capacity)
	}
	r.ops["rnew"]++
	fmt.Fprintf(r.w, "case %s\nrnew %c %d\n", name, kind, capacity)
	r.dump()
}

func (r *ifqRing) apply(op string, arg int) {
	r.ops[op]++
	var v int
	var p bool
	switch op {
	case "rpush":
		v = r.next
		r.next++
		if r.kind == 'i' {
			p = ifqGuard(func() { r.qi.PushBack(v) })
		} else {
			e := &ifqRingElem{id: v}
			p = ifqGuard(func() { r.qp.PushBack(e) })
		}
	case "rpop":
		if c, _, _, _ := r.state(); c <= 0 {
			r.ops["rpop_empty"]++
		}
		if r.kind == 'i' {
			p = ifqGuard(func() { v = r.qi.PopFront() })
		} else {
			p = ifqGuard(func() { v = ifqElemID(r.qp.PopFront()) })
		}
	case "rfront":
		if r.kind == 'i' {
			p = ifqGuard(func() { v = r.qi.Front() })
		} else {
			p = ifqGuard(func() { v = ifqElemID(r.qp.Front()) })
		}
	case "rback":
		if r.kind == 'i' {
			p = ifqGuard(func() { v = r.qi.Back() })
		} else {
			p = ifqGuard(func() { v = ifqElemID(r.qp.Back()) })
		}
	case "rlen":
		if r.kind == 'i' {
			v = r.qi.Len()
		} else {
			v = r.qp.Len()
		}
	case "rat":
		if r.kind == 'i' {
			p = ifqGuard(func() { v = r.qi.At(arg) })
		} else {
			p = ifqGuard(func() { v = ifqElemID(r.qp.At(arg)) })
		}
		if p {
			r.ops["rat_panic"]++
			fmt.Fprintf(r.w, "rat %d 0 0\n", arg)
		} else {
			fmt.Fprintf(r.w, "rat %d 1 %d\n", arg, v)
		}
		r.dump()

		return
	}
	if p {
		r.ops[op+"_panic"]++
		fmt.Fprintf(r.w, "%s panic\n", op)
	} else {
		fmt.Fprintf(r.w, "%s %d\n", op, v)
	}
	r.dump()
}

func ifqRingCases(w *bufio.Writer, rng *rand.Rand, nCases, nOps int, ops map[string]int) []string {
	caps := []int{0, 1, 16, 17, 100, 128, 129}
	r := &ifqRing{w: w, ops: ops}
	var notes []string

	// fixed witness: PopFront has no emptiness guard (payloadQueue.pop has one)
	r.newCase("witness_ring_pop_empty", 'i', 0)
	r.apply("rpop", 0)
	lenAfterPop := r.qi.Len()
	r.apply("rlen", 0)
	r.apply("rpush", 0)
	r.apply("rlen", 0)
	r.apply("rfront", 0)
	if lenAfterPop == -1 && r.qi.Len() == 0 && r.qi.buf[0] == 1 {
		notes = append(notes, "RING-WITNESS newQueue[int](0): PopFront() on the empty ring did not panic, Len()=-1; "+
			"then PushBack(1): Len()=0, the element sits in buf[0] outside the live range (head=1)")
	}
	for c := 0; c < nCases; c++ {
		capacity := caps[c%len(caps)]
		if c >= 4*len(caps) && rng.Intn(3) == 0 {
			capacity = rng.Intn(300) - 10 // other capacities, a few negative ones
		}
		kind := byte('i')
		if (c/len(caps))%2 == 1 {
			kind = 'p'
		}
		r.newCase(fmt.Sprintf("ring%d", c), kind, capacity)
		// some cases start by popping the empty ring: count goes negative, no panic expected
		if rng.Intn(10) < 3 {
			for k := 1 + rng.Intn(5); k > 0; k-- {
				r.apply("rpop", 0)
			}
		}
		pushPct := 40 + rng.Intn(35)
		guarded := rng.Intn(4) != 0 // most cases never pop an empty ring (as payloadQueue guarantees)
		for i := 0; i < nOps; i++ {
			x := rng.Intn(100)
			count, head, _, capacity := r.state()
			switch {
			case x < pushPct:
				r.apply("rpush", 0)
			case x < pushPct+20:
				if count > 0 || !guarded {
					r.apply("rpop", 0)
				} else {
					r.apply("rlen", 0)
				}
			case x < pushPct+25:
				r.apply("rfront", 0)
			case x < pushPct+30:
				r.apply("rback", 0)
			case x < pushPct+34:
				r.apply("rlen", 0)
			default:
				var i int
				switch rng.Intn(6) {
				case 0:
					i = -rng.Intn(head + 4) // negative: panics iff (head+i)%cap < 0
				case 1:
					i = count + rng.Intn(2*capacity) // beyond the live range: no check in At
				default:
					if count > 0 {
						i = rng.Intn(count)
					}
				}
				r.apply("rat", i)
			}
		}
	}

	return notes
}

// ---------------------------------------------------------------------------------------------

func ifqCases(w *bufio.Writer, rng *rand.Rand, nCases, nOps int, ops map[string]int) []string {
	h := &ifqHarness{w: w, ops: ops}

	// fixed witness first: get() never compares the TSN it finds with the TSN asked for.
	h.newCase("witness_get_wrong_tsn")
	h.push(10, 100, false, false, false)
	h.push(20, 7, false, false, false)
	if c, ok := h.q.get(11); ok && c.tsn != 11 {
		h.notes = append(h.notes, fmt.Sprintf("IFQ-WITNESS get(11) after pushNoCheck(tsn=10),pushNoCheck(tsn=20) returned ok=true chunk.tsn=%d", c.tsn))
	}
	h.get(11)
	nb := h.q.getNumBytes()
	h.ack(11)
	if h.q.getNumBytes() != nb {
		h.notes = append(h.notes, fmt.Sprintf("IFQ-WITNESS markAsAcked(11) released %d bytes of the chunk with tsn=20", nb-h.q.getNumBytes()))
	}
	h.ack(11)
	h.get(10)
	h.get(20) // offset 10 >= 2: the chunk with TSN 20 is not found
	if _, ok := h.q.get(20); !ok {
		h.notes = append(h.notes, "IFQ-WITNESS get(20) with chunks tsn=10,20 queued returned ok=false")
	}
	h.pop(20)
	h.pop(10)
	h.pop(20)

	// fixed witness: double ack releases once; pop after ack releases nothing more
	h.newCase("witness_release_once")
	h.push(4294967295, 500, false, false, false)
	h.push(0, 300, false, true, false)
	h.push(1, 0, false, false, true)
	h.ack(0)
	h.ack(0)
	h.misc("nbytes")
	h.misc("rtxall")
	h.pop(4294967295)
	h.pop(0)
	h.ack(0)
	h.pop(1)
	h.misc("nbytes")

	for c := 0; c < nCases; c++ {
		base := ifqBase(rng)
		next := base
		switch {
		case c%8 == 0:
			h.newCase(fmt.Sprintf("grow%d", c))
			h.ops["case_grow"]++
			h.growthScript(rng, &next)
			h.randomOps(rng, nOps/3, &next, true, 40)
		case c%4 == 1:
			h.newCase(fmt.Sprintf("nonconsec%d", c))
			h.ops["case_nonconsec"]++
			h.randomOps(rng, nOps, &next, false, 35+rng.Intn(20))
		default:
			h.newCase(fmt.Sprintf("consec%d", c))
			h.ops["case_consec"]++
			h.randomOps(rng, nOps, &next, true, 30+rng.Intn(25))
		}
		if base > next {
			h.ops["case_crossed_2^32"]++
		}
	}

	ops["impl_invariant_failures"] = h.fails

	return h.notes
}

func ifqOpsLine(prefix string, ops map[string]int) string {
	keys := make([]string, 0, len(ops))
	for k := range ops {
		keys = append(keys, k)
	}
	sort.Strings(keys)
	var sb strings.Builder
	sb.WriteString(prefix)
	for _, k := range keys {
		fmt.Fprintf(&sb, " %s=%d", k, ops[k])
	}

	return sb.String()
}

func TestVerifIFQ(t *testing.T) {
	seed := verifEnvInt("VERIF_SEED", 1)
	nCases := int(verifEnvInt("VERIF_N", 160))
	nOps := int(verifEnvInt("VERIF_OPS", 150))
	w, done := verifOut(t, "/tmp/verif_ifq.trace")
	defer done()
	rng := rand.New(rand.NewSource(seed))
	ops := map[string]int{}
	notes := ifqCases(w, rng, nCases, nOps, ops)
	notes = append(notes, ifqRingCases(w, rng, nCases/2, nOps, ops)...)
	for _, n := range notes {
		fmt.Println(n)
	}
	fmt.Println(ifqOpsLine(fmt.Sprintf("IFQ-OPS seed=%d cases=%d", seed, nCases+2+nCases/2+1), ops))
}

// TestVerifRing: the ring family alone (same trace format, same comparator component).
func TestVerifRing(t *testing.T) {
	seed := verifEnvInt("VERIF_SEED", 1)
	nCases := int(verifEnvInt("VERIF_N", 160))
	nOps := int(verifEnvInt("VERIF_OPS", 150))
	w, done := verifOut(t, "/tmp/verif_ring.trace")
	defer done()
	rng := rand.New(rand.NewSource(seed))
	ops := map[string]int{}
	for _, n := range ifqRingCases(w, rng, nCases, nOps, ops) {
		fmt.Println(n)
	}
	fmt.Println(ifqOpsLine(fmt.Sprintf("RING-OPS seed=%d cases=%d", seed, nCases+1), ops))
}
