(* C02, sender half of the progress argument: a SACK whose cumulative point and gap blocks lie inside
   what is in flight is never rejected by handleSack (model sack_step), moves the cumulative ack point
   exactly there, pops exactly the acknowledged prefix of the in-flight queue, and marks as acknowledged
   only chunks the SACK names.  Everything is stated with a ghost index K of the cumulative ack point
   (st_cum s = K mod 2^32) so that the 2^32 wrap is covered. *)
From Coq Require Import ZArith Bool List Lia.
From Coq Require Import ZifyBool.
From Sctp Require Import Gen SnaProofs Sender SenderProofs.
Import ListNotations.
Open Scope Z_scope.
Ltac Zify.zify_post_hook ::= Z.div_mod_to_equations.

Definition B30 : Z := 1073741824.

(* ---------- serial comparisons of two TSNs given by ghost indices ---------- *)

Lemma lte_idx K a b : - B30 <= a - b <= B30 ->
  sna32LTE (wrap32 (K + a)) (wrap32 (K + b)) = (a <=? b).
Proof.
  intros H. apply eq_true_iff_eq. rewrite sna32LTE_spec by (unfold in32, wrap32; lia).
  unfold wrap32, B30 in *. lia.
Qed.

Lemma lt_idx K a b : - B30 <= a - b <= B30 ->
  sna32LT (wrap32 (K + a)) (wrap32 (K + b)) = (a <? b).
Proof.
  intros H. apply eq_true_iff_eq. rewrite sna32LT_spec by (unfold in32, wrap32; lia).
  unfold wrap32, B30 in *. lia.
Qed.

Lemma gt_idx K a b : - B30 <= a - b <= B30 ->
  sna32GT (wrap32 (K + a)) (wrap32 (K + b)) = (a >? b).
Proof.
  intros H. apply eq_true_iff_eq. rewrite sna32GT_spec by (unfold in32, wrap32; lia).
  unfold wrap32, B30 in *. lia.
Qed.

Lemma wrap_succ x : wrap32 (wrap32 x + 1) = wrap32 (x + 1).
Proof. unfold wrap32. lia. Qed.

(* ---------- the in-flight queue indexed from its front ---------- *)

Lemma get_idx s F i :
  st_front s = wrap32 F -> 0 <= i < Z.of_nat (length (st_infl s)) -> Z.of_nat (length (st_infl s)) < B30 ->
  infl_get s (wrap32 (F + i)) = nth_error (st_infl s) (Z.to_nat i).
Proof.
  intros Hf Hi Hl. unfold infl_get. destruct (st_infl s) as [|c l] eqn:E; [cbn in Hi; lia|].
  rewrite Hf.
  assert (Eo : wrap32 (wrap32 (F + i) - wrap32 F) = i) by (unfold wrap32, B30 in *; lia).
  rewrite Eo. destruct (i >=? Z.of_nat (length (c :: l))) eqn:E2; [lia|reflexivity].
Qed.

Lemma nth_upd_nth {A} : forall (l : list A) n x i,
  nth_error (upd_nth l n x) i = if Nat.eqb i n then (match nth_error l n with Some _ => Some x | None => None end) else nth_error l i.
Proof.
  induction l as [|a l IH]; intros n x i; cbn [upd_nth].
  - destruct (Nat.eqb i n); destruct n, i; reflexivity.
  - destruct n as [|n]; destruct i as [|i]; cbn; try reflexivity. apply IH.
Qed.

Lemma length_upd_nth {A} : forall (l : list A) n x, length (upd_nth l n x) = length l.
Proof. induction l as [|a l IH]; intros [|n] x; cbn; auto. Qed.

(* flags of the in-flight list after an operation, relative to the list before: same length, a chunk is
   acknowledged only if it already was or its index satisfies P; the abandoned flags are unchanged *)
Definition flags_le (l' l : list schunk) (P : nat -> Prop) : Prop :=
  length l' = length l /\
  forall i c', nth_error l' i = Some c' ->
    exists c, nth_error l i = Some c /\ sc_aband c' = sc_aband c /\
              (sc_acked c' = true -> sc_acked c = true \/ P i) /\
              (sc_len c' = sc_len c \/ sc_len c' = 0).

Lemma flags_le_refl l P : flags_le l l P.
Proof. split; [reflexivity|]. intros i c' H. exists c'. repeat split; auto. Qed.

Lemma flags_le_trans l1 l2 l3 (P : nat -> Prop) : flags_le l3 l2 P -> flags_le l2 l1 P -> flags_le l3 l1 P.
Proof.
  intros [L1 H1] [L2 H2]. split; [congruence|]. intros i c3 E3.
  destruct (H1 i c3 E3) as (c2 & E2 & A2 & F2 & N2). destruct (H2 i c2 E2) as (c1 & E1 & A1 & F1 & N1).
  exists c1. split; [assumption|]. split; [congruence|]. split.
  - intros Ha. destruct (F2 Ha) as [X|X]; [apply F1; assumption|right; assumption].
  - destruct N2 as [N2|N2]; [|right; assumption]. destruct N1 as [N1|N1]; [left|right]; congruence.
Qed.

Lemma flags_le_weaken l' l (P Q : nat -> Prop) : (forall i, P i -> Q i) -> flags_le l' l P -> flags_le l' l Q.
Proof.
  intros PQ [L H]. split; [assumption|]. intros i c' E. destruct (H i c' E) as (c & E1 & A & F & N).
  exists c. repeat split; try assumption. intros Ha. destruct (F Ha); [left; assumption|right; apply PQ; assumption].
Qed.

(* ---------- structural frame of the steps: state, cum, front, length ---------- *)

Definition same_shape (s' s : sst) : Prop :=
  st_state s' = st_state s /\ st_cum s' = st_cum s /\ st_front s' = st_front s /\
  length (st_infl s') = length (st_infl s) /\ st_mtu s' = st_mtu s /\ st_mincwnd s' = st_mincwnd s.

Lemma same_shape_refl s : same_shape s s.
Proof. unfold same_shape. repeat split; reflexivity. Qed.

Lemma same_shape_trans a b c : same_shape a b -> same_shape b c -> same_shape a c.
Proof. unfold same_shape. intros (A1 & A2 & A3 & A4 & A5 & A6) (B1 & B2 & B3 & B4 & B5 & B6). repeat split; congruence. Qed.

(* ---------- the pop loop is total on an acknowledged prefix ---------- *)

Lemma pop_total : forall fuel s K j d acc,
  (st_infl s <> [] -> st_front s = wrap32 (K + 1 + j)) ->
  0 <= j <= d -> d - j <= Z.of_nat (length (st_infl s)) -> d - j < Z.of_nat fuel -> d < B30 ->
  exists s' acc', pop_acked fuel s (wrap32 (K + 1 + j)) (wrap32 (K + d)) acc = Some (s', acc') /\
    st_infl s' = skipn (Z.to_nat (d - j)) (st_infl s) /\
    (st_infl s' <> [] -> st_front s' = wrap32 (K + 1 + d)) /\
    st_state s' = st_state s /\ st_mtu s' = st_mtu s /\ st_mincwnd s' = st_mincwnd s /\ st_cum s' = st_cum s.
Proof.
  induction fuel as [|f IH]; intros s K j d acc Hf Hj Hl Hfu Hd; [lia|].
  cbn [pop_acked].
  replace (K + 1 + j) with (K + (1 + j)) by lia.
  rewrite lte_idx by (unfold B30 in *; lia).
  destruct (1 + j <=? d) eqn:E; cbn [negb].
  - destruct (st_infl s) as [|c rest] eqn:El; [cbn in Hl; lia|].
    assert (Ef : st_front s = wrap32 (K + (1 + j))).
    { replace (K + (1 + j)) with (K + 1 + j) by lia. apply Hf. discriminate. }
    rewrite Ef, Z.eqb_refl. cbn [negb].
    match goal with |- exists s' acc', pop_acked f ?X ?I _ ?A = _ /\ _ => set (s1 := X); set (a1 := A) end.
    assert (EI : wrap32 (wrap32 (K + (1 + j)) + 1) = wrap32 (K + 1 + (j + 1))).
    { rewrite wrap_succ. f_equal. lia. }
    rewrite EI.
    destruct (IH s1 K (j + 1) d a1) as (s' & acc' & E1 & E2 & E3 & E4 & E5 & E6 & E7).
    + intros _. unfold s1; cbn [st_front]. rewrite wrap_succ. f_equal. lia.
    + lia.
    + unfold s1; cbn [st_infl]. cbn [length] in Hl. lia.
    + lia.
    + assumption.
    + exists s', acc'. split; [exact E1|]. unfold s1 in *; cbn [st_infl st_state st_mtu st_mincwnd st_cum] in *.
      split.
      * rewrite E2. replace (Z.to_nat (d - j)) with (S (Z.to_nat (d - (j + 1)))) by lia. reflexivity.
      * repeat split; assumption.
  - assert (d = j) by lia. subst d. exists s, acc. split; [reflexivity|].
    replace (j - j) with 0 by lia. cbn [Z.to_nat skipn]. repeat split; try reflexivity.
    intros Hn. rewrite (Hf Hn). reflexivity.
Qed.

(* ---------- gap marking is total on in-flight TSNs and marks only what it is told ---------- *)

Lemma mark_one_total s F i acc htna :
  st_front s = wrap32 F -> 0 <= i < Z.of_nat (length (st_infl s)) -> Z.of_nat (length (st_infl s)) < B30 ->
  exists s' acc' h', mark_one s (wrap32 (F + i)) acc htna = Some (s', acc', h') /\
    same_shape s' s /\ flags_le (st_infl s') (st_infl s) (fun k => k = Z.to_nat i).
Proof.
  intros Hf Hi Hl. unfold mark_one. rewrite (get_idx s F i Hf Hi Hl).
  destruct (nth_error (st_infl s) (Z.to_nat i)) as [c|] eqn:En.
  2:{ apply nth_error_None in En. lia. }
  destruct (sc_acked c) eqn:Ea.
  - do 3 eexists. split; [reflexivity|]. split; [apply same_shape_refl|apply flags_le_refl].
  - do 3 eexists. split; [reflexivity|].
    assert (Eo : Z.to_nat (wrap32 (wrap32 (F + i) - st_front s)) = Z.to_nat i).
    { rewrite Hf. f_equal. unfold wrap32, B30 in *. lia. }
    rewrite Eo. split.
    + unfold same_shape; cbn [st_state st_cum st_front st_infl st_mtu st_mincwnd]. rewrite length_upd_nth. repeat split; reflexivity.
    + cbn [st_infl]. split; [apply length_upd_nth|].
      intros k c' Ek. rewrite nth_upd_nth in Ek. destruct (Nat.eqb k (Z.to_nat i)) eqn:Ekk.
      * apply Nat.eqb_eq in Ekk. subst k. rewrite En in Ek. inversion Ek; subst c'.
        exists c. split; [assumption|]. split; [reflexivity|]. split; [intros _; right; reflexivity|right; reflexivity].
      * exists c'. repeat split; auto.
Qed.

Lemma mark_range_total : forall n s F i acc htna,
  st_front s = wrap32 F -> 0 <= i -> i + Z.of_nat n <= Z.of_nat (length (st_infl s)) -> Z.of_nat (length (st_infl s)) < B30 ->
  exists s' acc' h', mark_range n s (wrap32 (F - 1)) (i + 1) acc htna = Some (s', acc', h') /\
    same_shape s' s /\
    flags_le (st_infl s') (st_infl s) (fun k => i <= Z.of_nat k < i + Z.of_nat n).
Proof.
  induction n as [|n IH]; intros s F i acc htna Hf Hi Hl Hb; cbn [mark_range].
  - do 3 eexists. split; [reflexivity|]. split; [apply same_shape_refl|apply flags_le_refl].
  - assert (Et : wrap32 (wrap32 (F - 1) + (i + 1)) = wrap32 (F + i)) by (unfold wrap32; lia).
    rewrite Et.
    destruct (mark_one_total s F i acc htna Hf) as (s1 & a1 & h1 & E1 & S1 & L1); [lia|assumption|].
    rewrite E1.
    destruct S1 as (Q1 & Q2 & Q3 & Q4 & Q5 & Q6).
    destruct (IH s1 F (i + 1) a1 h1) as (s2 & a2 & h2 & E2 & S2 & L2); [congruence|lia|rewrite Q4; lia|rewrite Q4; assumption|].
    replace (i + 1 + 1) with (i + 1 + 1) in E2 by lia.
    exists s2, a2, h2. split; [exact E2|]. split.
    + eapply same_shape_trans; [exact S2|]. unfold same_shape. repeat split; assumption.
    + eapply flags_le_trans.
      * eapply flags_le_weaken; [|exact L2]. intros k Hk. cbn beta in Hk. lia.
      * eapply flags_le_weaken; [|exact L1]. intros k Hk. cbn beta in Hk. subst k. lia.
Qed.

(* a SACK's gap blocks as offsets from its cumulative point; G = ghost index of that point *)
Definition gaps_in_range (gaps : list (Z * Z)) (len : Z) : Prop :=
  Forall (fun g : Z * Z => 1 <= fst g /\ fst g <= snd g /\ snd g <= len) gaps.

Definition in_gaps (gaps : list (Z * Z)) (o : Z) : Prop := exists gs ge, In (gs, ge) gaps /\ gs <= o <= ge.

Lemma mark_gaps_total : forall gaps s G acc htna,
  st_front s = wrap32 (G + 1) -> gaps_in_range gaps (Z.of_nat (length (st_infl s))) ->
  Z.of_nat (length (st_infl s)) < B30 ->
  exists s' acc' h', mark_gaps gaps s (wrap32 G) acc htna = Some (s', acc', h') /\
    same_shape s' s /\
    flags_le (st_infl s') (st_infl s) (fun k => in_gaps gaps (Z.of_nat k + 1)).
Proof.
  induction gaps as [|[gs ge] r IH]; intros s G acc htna Hf Hg Hb; cbn [mark_gaps].
  - do 3 eexists. split; [reflexivity|]. split; [apply same_shape_refl|apply flags_le_refl].
  - inversion Hg as [|? ? Hg1 Hg2]; subst. cbn [fst snd] in Hg1.
    destruct (mark_range_total (Z.to_nat (ge - gs + 1)) s (G + 1) (gs - 1) acc htna Hf) as (s1 & a1 & h1 & E1 & S1 & L1); [lia|lia|assumption|].
    replace (G + 1 - 1) with G in E1 by lia. replace (gs - 1 + 1) with gs in E1 by lia.
    rewrite E1. destruct S1 as (Q1 & Q2 & Q3 & Q4 & Q5 & Q6).
    destruct (IH s1 G a1 h1) as (s2 & a2 & h2 & E2 & S2 & L2); [congruence|rewrite Q4; assumption|rewrite Q4; assumption|].
    exists s2, a2, h2. split; [exact E2|]. split.
    + eapply same_shape_trans; [exact S2|]. unfold same_shape. repeat split; assumption.
    + eapply flags_le_trans.
      * eapply flags_le_weaken; [|exact L2]. intros k (a & b & Hin & Hr). exists a, b. split; [right; assumption|assumption].
      * eapply flags_le_weaken; [|exact L1]. intros k Hk. cbn beta in Hk. exists gs, ge. split; [left; reflexivity|lia].
Qed.

(* ---------- highest newly acknowledged TSN stays inside the in-flight range ---------- *)

Definition hr (G len h : Z) : Prop := exists m, 0 <= m <= len /\ h = wrap32 (G + m).

Lemma mark_one_hr s tsn acc htna s' acc' h' G len i :
  mark_one s tsn acc htna = Some (s', acc', h') -> tsn = wrap32 (G + i) -> 1 <= i <= len -> len < B30 ->
  hr G len htna -> hr G len h'.
Proof.
  unfold mark_one. destruct (infl_get s tsn) as [c|]; [|discriminate]. intros H Et Hi Hl (m & Hm & Eh).
  assert (Eh' : h' = if sna32LT htna tsn then tsn else htna) by (destruct (sc_acked c); inversion H; reflexivity).
  rewrite Eh'. destruct (sna32LT htna tsn); [exists i; split; [lia|assumption]|exists m; split; assumption].
Qed.

Lemma mark_range_hr : forall n s cum i acc htna s' acc' h' G len,
  mark_range n s cum i acc htna = Some (s', acc', h') -> cum = wrap32 G -> 1 <= i -> i + Z.of_nat n - 1 <= len -> len < B30 ->
  hr G len htna -> hr G len h'.
Proof.
  induction n as [|n IH]; intros s cum i acc htna s' acc' h' G len H Ec Hi Hl Hb Hh; cbn [mark_range] in H.
  - inversion H; subst. assumption.
  - destruct (mark_one s (wrap32 (cum + i)) acc htna) as [[[s1 a1] h1]|] eqn:E1; [|discriminate].
    assert (H1 : hr G len h1).
    { eapply (mark_one_hr s _ acc htna s1 a1 h1 G len i E1); try lia; [|assumption]. subst cum. unfold wrap32. lia. }
    eapply (IH s1 cum (i + 1) a1 h1 s' acc' h' G len H Ec); try lia. assumption.
Qed.

Lemma mark_gaps_hr : forall gaps s cum acc htna s' acc' h' G len,
  mark_gaps gaps s cum acc htna = Some (s', acc', h') -> cum = wrap32 G -> gaps_in_range gaps len -> len < B30 ->
  hr G len htna -> hr G len h'.
Proof.
  induction gaps as [|[gs ge] r IH]; intros s cum acc htna s' acc' h' G len H Ec Hg Hb Hh; cbn [mark_gaps] in H.
  - inversion H; subst. assumption.
  - inversion Hg as [|? ? Hg1 Hg2]; subst. cbn [fst snd] in Hg1.
    destruct (mark_range _ s (wrap32 G) gs acc htna) as [[[s1 a1] h1]|] eqn:E1; [|discriminate].
    assert (H1 : hr G len h1) by (eapply (mark_range_hr _ s _ gs acc htna s1 a1 h1 G len E1); try reflexivity; try lia; assumption).
    eapply (IH s1 _ a1 h1 s' acc' h' G len H); try reflexivity; assumption.
Qed.

(* ---------- miss indications / fast recovery: total, shape and flags unchanged ---------- *)

Lemma fr_total : forall fuel s G a m htna,
  st_front s = wrap32 (G + 1) -> 1 <= a -> m <= Z.of_nat (length (st_infl s)) -> Z.of_nat (length (st_infl s)) < B30 ->
  0 <= m -> a <= m + 1 -> m - a + 1 < Z.of_nat fuel ->
  exists s', fr_loop fuel s (wrap32 (G + a)) (wrap32 (G + m)) htna = Some s' /\ same_shape s' s /\
             flags_le (st_infl s') (st_infl s) (fun _ => False).
Proof.
  induction fuel as [|f IH]; intros s G a m htna Hf Ha Hm Hb Hm0 Ham Hfu; [lia|]. cbn [fr_loop].
  rewrite lt_idx by (unfold B30 in *; lia).
  destruct (a <? m) eqn:E; cbn [negb].
  2:{ exists s. split; [reflexivity|]. split; [apply same_shape_refl|apply flags_le_refl]. }
  assert (Eg : infl_get s (wrap32 (G + a)) = nth_error (st_infl s) (Z.to_nat (a - 1))).
  { replace (G + a) with (G + 1 + (a - 1)) by lia. apply get_idx; [assumption|lia|assumption]. }
  rewrite Eg. destruct (nth_error (st_infl s) (Z.to_nat (a - 1))) as [c|] eqn:En.
  2:{ apply nth_error_None in En. lia. }
  assert (Eo : Z.to_nat (wrap32 (wrap32 (G + a) - st_front s)) = Z.to_nat (a - 1)).
  { rewrite Hf. f_equal. unfold wrap32, B30 in *. lia. }
  match goal with |- exists s', fr_loop f ?X _ _ _ = _ /\ _ => set (s1 := X) end.
  assert (S1 : same_shape s1 s /\ flags_le (st_infl s1) (st_infl s) (fun _ => False)).
  { unfold s1. destruct (negb (sc_acked c) && negb (sc_aband c) && (sc_miss c <? 3))%bool.
    2:{ split; [apply same_shape_refl|apply flags_le_refl]. }
    rewrite Eo.
    assert (FL : flags_le (upd_nth (st_infl s) (Z.to_nat (a - 1))
                   (mkSC (sc_sid c) (sc_len c) (sc_acked c) (sc_aband c) (sc_miss c + 1) (sc_rtx c))) (st_infl s) (fun _ => False)).
    { split; [apply length_upd_nth|]. intros k c' Ek. rewrite nth_upd_nth in Ek.
      destruct (Nat.eqb k (Z.to_nat (a - 1))) eqn:Ekk.
      - apply Nat.eqb_eq in Ekk. subst k. rewrite En in Ek. inversion Ek; subst c'. exists c. cbn. repeat split; auto.
      - exists c'. repeat split; auto. }
    destruct ((sc_miss c + 1 =? 3) && negb (st_infr s))%bool;
      (split; [unfold same_shape; cbn [st_state st_cum st_front st_infl st_mtu st_mincwnd]; rewrite length_upd_nth; repeat split; reflexivity
              |cbn [st_infl]; exact FL]). }
  destruct S1 as [SS FL]. destruct SS as (Q1 & Q2 & Q3 & Q4 & Q5 & Q6).
  rewrite wrap_succ. replace (G + a + 1) with (G + (a + 1)) by lia.
  destruct (IH s1 G (a + 1) m htna) as (s' & E1 & S2 & L2); try lia; try congruence.
  exists s'. split; [exact E1|]. split.
  - eapply same_shape_trans; [exact S2|]. unfold same_shape. repeat split; assumption.
  - eapply flags_le_trans; eassumption.
Qed.

Lemma last_gap_end_range gaps len : gaps_in_range gaps len -> gaps <> [] -> 1 <= last_gap_end gaps <= len.
Proof.
  intros Hg Hn. unfold last_gap_end.
  assert (Hr : Forall (fun g : Z * Z => 1 <= fst g /\ fst g <= snd g /\ snd g <= len) (rev gaps)).
  { apply Forall_forall. intros x Hx. apply in_rev in Hx. unfold gaps_in_range in Hg. rewrite Forall_forall in Hg. apply Hg. assumption. }
  destruct (rev gaps) as [|[a b] r] eqn:E.
  - exfalso. apply Hn. apply (f_equal (@rev _)) in E. rewrite rev_involutive in E. assumption.
  - inversion Hr as [|? ? H1 _]; subst. cbn in H1. lia.
Qed.

Lemma fast_rtx_total s G gaps htna adv :
  st_front s = wrap32 (G + 1) \/ (st_infl s = [] /\ gaps = []) ->
  gaps_in_range gaps (Z.of_nat (length (st_infl s))) -> Z.of_nat (length (st_infl s)) < B30 ->
  hr G (Z.of_nat (length (st_infl s))) htna ->
  exists s', fast_rtx s (wrap32 G) gaps htna adv = Some s' /\ same_shape s' s /\
             flags_le (st_infl s') (st_infl s) (fun _ => False).
Proof.
  intros Hf Hg Hb (m & Hm & Eh). subst htna. unfold fast_rtx.
  assert (LOOP : forall mx, 0 <= mx <= Z.of_nat (length (st_infl s)) ->
            exists s1, fr_loop (S (length (st_infl s))) s (wrap32 (wrap32 G + 1)) (wrap32 (G + mx)) (wrap32 (G + m)) = Some s1 /\ same_shape s1 s /\
                       flags_le (st_infl s1) (st_infl s) (fun _ => False)).
  { intros mx Hmx. rewrite wrap_succ. destruct Hf as [Hf|[He Hgn]].
    - apply fr_total; try assumption; try lia.
    - (* nothing in flight: the loop stops at once *)
      rewrite He in Hmx. cbn in Hmx. assert (mx = 0) by lia. subst mx. rewrite He. cbn [length fr_loop].
      replace (G + 0) with (G + 0) by lia. rewrite lt_idx by (unfold B30; lia). cbn.
      exists s. split; [reflexivity|]. split; [apply same_shape_refl|rewrite He; apply flags_le_refl]. }
  assert (FIN : forall s1, same_shape s1 s -> flags_le (st_infl s1) (st_infl s) (fun _ => False) ->
            exists s', (if (st_infr s1 && adv)%bool then
                          Some (mkS (st_state s1) (st_cum s1) (st_front s1) (st_infl s1) (st_nbytes s1) (st_cwnd s1) (st_rwnd s1) (st_ssthresh s1) (st_pba s1)
                                    (st_infr s1) (st_frexit s1) true (st_mtu s1) (st_mincwnd s1) (st_castep s1) (st_pendn s1) (st_pendbytes s1) (st_buffered s1))
                        else Some s1) = Some s' /\ same_shape s' s /\ flags_le (st_infl s') (st_infl s) (fun _ => False)).
  { intros s1 S1 L1. destruct (st_infr s1 && adv)%bool; eexists; (split; [reflexivity|]); split; assumption. }
  destruct (negb (st_infr s) || st_infr s && adv)%bool.
  - destruct (negb (st_infr s)).
    + destruct (LOOP m Hm) as (s1 & E1 & S1 & L1). rewrite E1. apply FIN; assumption.
    + destruct gaps as [|g r] eqn:Egp.
      * cbn [length]. replace (0 <? Z.of_nat 0) with false by reflexivity.
        replace (wrap32 (wrap32 G + 0)) with (wrap32 (G + 0)) by (unfold wrap32; lia).
        destruct (LOOP 0) as (s1 & E1 & S1 & L1); [lia|]. rewrite E1. apply FIN; assumption.
      * replace (0 <? Z.of_nat (length (g :: r))) with true by (cbn [length]; lia).
        assert (Hle : 1 <= last_gap_end (g :: r) <= Z.of_nat (length (st_infl s))) by (apply last_gap_end_range; [assumption|discriminate]).
        replace (wrap32 (wrap32 G + last_gap_end (g :: r))) with (wrap32 (G + last_gap_end (g :: r))) by (unfold wrap32; lia).
        destruct (LOOP (last_gap_end (g :: r))) as (s1 & E1 & S1 & L1); [lia|]. rewrite E1. apply FIN; assumption.
  - apply FIN; [apply same_shape_refl|apply flags_le_refl].
Qed.

(* ---------- handleSack on a SACK that lies inside what is in flight ---------- *)

Record Sl (s : sst) (K : Z) : Prop := {
  sl_cum : st_cum s = wrap32 K;
  sl_front : st_infl s <> [] -> st_front s = wrap32 (K + 1);
  sl_len : Z.of_nat (length (st_infl s)) < B30;
  sl_state : state_accepts_sack (st_state s) = true
}.

Lemma gaps_nil_of_range0 gaps : gaps_in_range gaps 0 -> gaps = [].
Proof. destruct gaps as [|[a b] r]; [reflexivity|]. intros H. inversion H as [|? ? H1 _]; subst. cbn in H1. lia. Qed.

Lemma sack_valid_range s K d gaps :
  Sl s K -> 0 <= d <= Z.of_nat (length (st_infl s)) ->
  gaps_in_range gaps (Z.of_nat (length (st_infl s)) - d) ->
  sack_valid s (wrap32 (K + d)) gaps = true.
Proof.
  intros [Hc Hf Hl Hs] Hd Hg. unfold sack_valid. apply andb_true_iff. split.
  - rewrite Hc. replace (wrap32 K) with (wrap32 (K + 0)) by (f_equal; lia).
    rewrite lt_idx by (unfold B30 in *; lia). destruct (0 <? d) eqn:E; [|reflexivity].
    assert (Hne : st_infl s <> []) by (intros X; rewrite X in Hd; cbn in Hd; lia).
    specialize (Hf Hne).
    replace (wrap32 (wrap32 (K + 0) + 1)) with (wrap32 (K + 1 + 0)) by (unfold wrap32; lia).
    rewrite (get_idx s (K + 1) 0 Hf) by lia.
    replace (K + d) with (K + 1 + (d - 1)) by lia.
    rewrite (get_idx s (K + 1) (d - 1) Hf) by lia.
    destruct (nth_error (st_infl s) (Z.to_nat 0)) eqn:E0; [|apply nth_error_None in E0; lia].
    destruct (nth_error (st_infl s) (Z.to_nat (d - 1))) eqn:E1; [reflexivity|apply nth_error_None in E1; lia].
  - apply forallb_forall. intros [gs ge] Hin. unfold gaps_in_range in Hg. rewrite Forall_forall in Hg.
    specialize (Hg _ Hin). cbn [fst snd] in Hg.
    assert (Hne : st_infl s <> []) by (intros X; rewrite X in Hg; cbn in Hg; lia).
    specialize (Hf Hne).
    replace (wrap32 (wrap32 (K + d) + gs)) with (wrap32 (K + 1 + (d + gs - 1))) by (unfold wrap32; lia).
    replace (wrap32 (wrap32 (K + d) + ge)) with (wrap32 (K + 1 + (d + ge - 1))) by (unfold wrap32; lia).
    rewrite (get_idx s (K + 1) (d + gs - 1) Hf) by lia.
    rewrite (get_idx s (K + 1) (d + ge - 1) Hf) by lia.
    destruct (nth_error (st_infl s) (Z.to_nat (d + gs - 1))) eqn:E0; [|apply nth_error_None in E0; lia].
    destruct (nth_error (st_infl s) (Z.to_nat (d + ge - 1))) eqn:E1; [|apply nth_error_None in E1; lia].
    replace (negb (gs =? 0)) with true by lia. replace (gs <=? ge) with true by lia. cbn [andb].
    destruct (_ =? _); reflexivity.
Qed.

Lemma cwnd_grow_shape s total : same_shape (cwnd_grow s total) s /\ st_infl (cwnd_grow s total) = st_infl s.
Proof.
  unfold cwnd_grow, same_shape. destruct (st_cwnd s <=? st_ssthresh s).
  - destruct (negb (st_infr s) && (0 <? st_pendn s))%bool; cbn; repeat split; reflexivity.
  - destruct ((wrap32 (st_pba s + wrap32 total) >=? st_cwnd s) && (0 <? st_pendn s))%bool; cbn; repeat split; reflexivity.
Qed.

Theorem sack_total s K d arwnd gaps :
  Sl s K -> 0 <= d <= Z.of_nat (length (st_infl s)) ->
  gaps_in_range gaps (Z.of_nat (length (st_infl s)) - d) ->
  exists s', sack_step s (wrap32 (K + d)) arwnd gaps = SOk s' /\
    st_cum s' = wrap32 (K + d) /\ st_state s' = st_state s /\ st_mtu s' = st_mtu s /\ st_mincwnd s' = st_mincwnd s /\
    (st_infl s' <> [] -> st_front s' = wrap32 (K + d + 1)) /\
    flags_le (st_infl s') (skipn (Z.to_nat d) (st_infl s)) (fun k => in_gaps gaps (Z.of_nat k + 1)).
Proof.
  intros SL Hd Hg. pose proof (sack_valid_range s K d gaps SL Hd Hg) as Hv.
  destruct SL as [Hc Hf Hl Hs].
  unfold sack_step. rewrite Hs. cbn [negb].
  rewrite Hc.
  assert (EG : sna32GT (wrap32 K) (wrap32 (K + d)) = false).
  { replace (wrap32 K) with (wrap32 (K + 0)) by (f_equal; lia). rewrite gt_idx by (unfold B30 in *; lia). lia. }
  assert (EL : sna32LT (wrap32 K) (wrap32 (K + d)) = (0 <? d)).
  { replace (wrap32 K) with (wrap32 (K + 0)) by (f_equal; lia). apply lt_idx. unfold B30 in *; lia. }
  rewrite EG, EL, Hv. cbn [negb].
  (* pop *)
  replace (wrap32 (wrap32 K + 1)) with (wrap32 (K + 1 + 0)) by (unfold wrap32; lia).
  destruct (pop_total (S (length (st_infl s))) s K 0 d []) as (s1 & acc1 & E1 & I1 & F1 & St1 & M1 & C1 & Cu1);
    [intros Hne; rewrite (Hf Hne); f_equal; lia|lia|lia|lia|unfold B30 in *; lia|].
  rewrite E1. replace (d - 0) with d in I1 by lia.
  assert (Len1 : Z.of_nat (length (st_infl s1)) = Z.of_nat (length (st_infl s)) - d).
  { rewrite I1, skipn_length. lia. }
  (* gap marking *)
  assert (MG : exists s2 acc2 htna, mark_gaps gaps s1 (wrap32 (K + d)) acc1 (wrap32 (K + d)) = Some (s2, acc2, htna) /\
               same_shape s2 s1 /\ flags_le (st_infl s2) (st_infl s1) (fun k => in_gaps gaps (Z.of_nat k + 1)) /\
               hr (K + d) (Z.of_nat (length (st_infl s1))) htna).
  { destruct gaps as [|g r] eqn:Eg.
    - do 3 eexists. split; [reflexivity|]. split; [apply same_shape_refl|]. split; [apply flags_le_refl|].
      exists 0. split; [lia|f_equal; lia].
    - assert (Hne : st_infl s1 <> []).
      { intros X. rewrite X in Len1. cbn in Len1. rewrite <- Len1 in Hg. apply gaps_nil_of_range0 in Hg. discriminate. }
      assert (Fr : st_front s1 = wrap32 (K + d + 1)) by (rewrite (F1 Hne); f_equal; lia).
      destruct (mark_gaps_total (g :: r) s1 (K + d) acc1 (wrap32 (K + d)) Fr) as (s2 & a2 & h2 & E2 & S2 & L2);
        [rewrite Len1; assumption|lia|].
      exists s2, a2, h2. split; [exact E2|]. split; [exact S2|]. split; [exact L2|].
      eapply (mark_gaps_hr (g :: r) s1 _ acc1 _ s2 a2 h2 (K + d) _ E2); try reflexivity; [rewrite Len1; assumption|lia|].
      exists 0. split; [lia|f_equal; lia]. }
  destruct MG as (s2 & acc2 & htna & E2 & S2 & L2 & H2). rewrite E2.
  destruct S2 as (Q1 & Q2 & Q3 & Q4 & Q5 & Q6).
  (* window growth, rwnd, buffered: the in-flight list and the shape are untouched *)
  match goal with |- exists s', match fast_rtx ?S4 _ _ _ ?ADV with _ => _ end = _ /\ _ => set (s4 := S4); set (adv := ADV) end.
  assert (S4 : st_infl s4 = st_infl s2 /\ st_front s4 = st_front s2 /\ st_state s4 = st_state s2 /\
               st_mtu s4 = st_mtu s2 /\ st_mincwnd s4 = st_mincwnd s2 /\ st_cum s4 = wrap32 (K + d)).
  { unfold s4. cbn [st_infl st_front st_state st_mtu st_mincwnd st_cum].
    destruct (0 <? d) eqn:Ea.
    - match goal with |- context [cwnd_grow ?X ?T] => destruct (cwnd_grow_shape X T) as [(G1 & G2 & G3 & G4 & G5 & G6) G7] end.
      cbn [st_state st_cum st_front st_infl st_mtu st_mincwnd] in *. rewrite G7, G3, G1, G5, G6, G2. repeat split; reflexivity.
    - assert (d = 0) by lia. subst d.
      repeat split; try reflexivity. rewrite Q2, Cu1, Hc. f_equal. lia. }
  destruct S4 as (T1 & T2 & T3 & T4 & T5 & T6).
  assert (Len4 : Z.of_nat (length (st_infl s4)) = Z.of_nat (length (st_infl s)) - d) by (rewrite T1, Q4; assumption).
  destruct (fast_rtx_total s4 (K + d) gaps htna adv) as (s5 & E5 & S5 & L5).
  - destruct (Nat.eq_dec (length (st_infl s4)) 0) as [Z0|NZ].
    + right. split; [apply length_zero_iff_nil; assumption|]. rewrite Z0 in Len4. cbn in Len4. rewrite <- Len4 in Hg. apply gaps_nil_of_range0. assumption.
    + left. rewrite T2, Q3. rewrite F1; [f_equal; lia|]. intros X. apply NZ. rewrite T1, Q4, X. reflexivity.
  - rewrite Len4. assumption.
  - lia.
  - rewrite T1, Q4. assumption.
  - rewrite E5. exists s5. split; [reflexivity|].
    destruct S5 as (R1 & R2 & R3 & R4 & R5 & R6).
    split; [congruence|]. split; [congruence|]. split; [congruence|]. split; [congruence|].
    split.
    + intros Hne. rewrite R3, T2, Q3. rewrite F1; [f_equal; lia|].
      intros X. apply Hne. apply length_zero_iff_nil. rewrite R4, T1, Q4, X. reflexivity.
    + rewrite <- I1. eapply flags_le_trans; [eapply flags_le_weaken; [|exact L5]; intros k []|].
      rewrite T1. exact L2.
Qed.
