"""C17 — framing as negotiated (decided with the handshake model) and the queue / scheduler clauses decided here:
message-policy TSN contiguity, conservation + FIFO for every policy, round-robin rounds, WFQ fairness and
no-starvation, mode switch only on an empty queue."""
import os
import re
import vlib, simcommon

PROP = "C17"
PROPS_FILE = "props/C17.v"
COQ_FILES = ["gen/Gen.v", "model/PQ.v", "proofs/PQProofs.v", "proofs/PQFairProofs.v", "props/C17.v",
             "model/Handshake.v", "proofs/HandshakeProofs.v", "proofs/HandshakeReach.v", "model/Inbound.v", "proofs/InboundProofs.v", "props/C17Framing.v"]
EXTRA_PROPS_FILES = ["props/C17Framing.v"]
TRUSTED_BASE = [
    "Coq 8.16.1 kernel; vm_compute only in Examples (non-vacuity, former witness); no native_compute",
    "hand-written model coq/model/PQ.v of pending_queue.go + association_interleaving_options.go: chunk pointers are records "
    "with an identity, Go maps are association lists sorted by key (the one map iteration, WFQ Peek, is proved order-insensitive), "
    "WFQ float64 time values are exact rationals written as integers scaled by the lcm of the weights",
    "extraction (ExtrOcamlBasic only) + /verif/ocaml/cmp_pq.ml (float64 bit patterns -> exact rationals with Zarith); "
    "Go harness zz_verif_pq_test.go / zz_verif_pqmon_test.go (overlay)",
    "float rounding of the WFQ tags is outside the theorems: exact match required for dyadic weights, 2^-40 relative tolerance "
    "and tolerated rounding ties (counted) for arbitrary weights",
]
ASSUMPTIONS = [
    "operations reach the queue as the association issues them: whole messages pushed under one lock hold (sendPayloadData, "
    "sendResetRequest), pop of exactly the peeked chunk (movePendingDataChunkToInflightQueue); other call patterns are compared "
    "by the differential (abuse cases) but not covered by the theorems",
    "negotiation of interleaving and the wrong-chunk-kind ABORT are decided with the handshake model (C04 system), not here",
    "each chunk object is pushed at most once while queued (chunkFinish is keyed by pointer)",
]


def _key(line):
    m = re.search(r"key=([A-Za-z0-9_-]+)", line)
    return m.group(1) if m else "pq-monitor"


def correspondence(ctx):
    corpus = os.path.join(vlib.VERIF, "corpus/pq.ops")
    vlib.differential(ctx, "pq-differential", "TestVerifPQ", "pq",
                      {"VERIF_N": ctx.scale(250, 1500), "VERIF_OPS": ctx.scale(150, 200), "VERIF_CORPUS": corpus})
    vlib.monitor(ctx, "pq-scheduler-predicates", "TestVerifPQMonitor",
                 {"VERIF_N": ctx.scale(40, 800), "VERIF_OPS": ctx.scale(3000, 6000), "VERIF_STYLES": "witness,atomic,stalled"},
                 fail_prefixes=("PQMON key=",), classify=_key, summary_prefix="PQMONSUM")
    # negotiation / wrong-kind clauses (props/C17Framing.v): handshake step records incl. a foreign peer announcing every
    # subset of {FORWARD-TSN, I-DATA, I-FORWARD-TSN}, and the exhaustive inbound dispatch matrix
    simcommon.hs_step_run(ctx, "hs-special-framing", "TestVerifSimHsSpecial", {}, "SIMHSSPECIAL")
    vlib.differential(ctx, "dispatch-matrix", "TestVerifInboundMatrix", "inbound", {})


def search(ctx):
    vlib.monitor(ctx, "pq-scheduler-predicates-wide", "TestVerifPQMonitor",
                 {"VERIF_N": 600, "VERIF_OPS": 4000, "VERIF_STYLES": "witness,atomic,stalled", "VERIF_SEED": ctx.seed + 17},
                 fail_prefixes=("PQMON key=",), classify=_key, summary_prefix="PQMONSUM")


LEVEL_TEXT = ("Coq theorems over all operation sequences (pushes of whole messages over any streams / sizes / weights, peeks, "
              "pops of the peeked chunk, mode switches): conservation and counters (the underflow clamp is dead code), FIFO per "
              "ordering class / per stream, message-policy contiguity (a message occupies consecutive TSNs, unordered overtakes "
              "only at message boundaries), round-robin ring = backlogged streams, bounded wait by ring position and one chunk "
              "per stream per round, WFQ fairness |W_i/w_i - W_k/w_k| <= Lmax_i/w_i + Lmax_k/w_k and no starvation over exact "
              "rationals with no restriction on held selections (code as of fix f24bbf1), order-insensitivity of the WFQ map "
              "iteration, setInterleaving effective only on an empty queue. Model tied to pending_queue.go by an op-sequence "
              "differential with full state dumps (float tags compared as exact rationals) and by monitors that evaluate the "
              "same predicates on the implementation.")
LEVEL_NOTE = ("Float64 rounding of WFQ tags is outside the theorems. The negotiation and wrong-kind-ABORT clauses are decided on the handshake and inbound-dispatch "
              "models (props/C17Framing.v) with their own correspondences run by this check. Finding wfq-unfair-stale-selection (virtual time advanced only in Pop) was found by the "
              "fairness monitor + model refutation and is fixed in /repo by f24bbf1; its witness is replayed from corpus/pq.ops.")
TECHNIQUE = "Coq proof (invariants over all runs, SCFQ tag argument over scaled integers) + differential correspondence + monitors"
