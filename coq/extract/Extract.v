(* Extraction of the executable model for the correspondence checks.
   Only ExtrOcamlBasic is used: bool/option/unit/list/prod/sumbool map to OCaml's,
   andb/orb/negb/fst/snd are inlined; N/Z/positive/nat stay Coq inductives. *)
From Coq Require Import Extraction ExtrOcamlBasic ZArith List.
From Sctp Require Import Gen RPQ.
Extraction Language OCaml.
Extraction "model.ml"
  Z.add Z.mul Z.sub Z.div Z.modulo Z.eqb Z.ltb Z.leb Z.of_nat Z.to_nat Z.of_N Z.to_N
  sna32LT sna32LTE sna32GT sna32GTE sna16LT sna16LTE sna16GT sna16GTE getPadding
  maxPayloadSizeForMTU getMaxTSNOffset
  rpq_new rpq_init push pop advance pop_duplicates gap_blocks gap_blocks_w has_chunk can_push
  last_tsn_received word_value.
