(* replay of the ring / in-flight queue traces (go/inpkg/zz_verif_ifq_test.go) on the extracted
   model (coq/model/IFQ.v).  One record = one operation line; the dump line that follows each
   operation is compared in full. *)
module M = Model
open Zio

(* canonical dump of the in-flight queue: nBytes count head tail cap n {id tsn len acked rtx aband} *)
let ifq_chunk_str (c : M.ichunk) : string =
  String.concat " " [sz c.M.ic_id; sz c.M.ic_tsn; sz c.M.ic_len; sbool c.M.ic_acked; sbool c.M.ic_rtx; sbool c.M.ic_aband]

let ifq_dump_model (q : M.ifq) : string =
  let r = q.M.ifq_chunks in
  let l = M.rg_to_list r in
  let b = Buffer.create 256 in
  Buffer.add_string b (Printf.sprintf "%s %s %s %s %d %d" (sz q.M.ifq_nbytes) (sz r.M.rg_count) (sz r.M.rg_head)
                         (sz r.M.rg_tail) (List.length r.M.rg_buf) (List.length l));
  List.iter (fun c -> Buffer.add_char b ' '; Buffer.add_string b (ifq_chunk_str c)) l;
  Buffer.contents b

(* dump of a ring of integers: count head tail cap {slot}*cap *)
let ifq_ring_dump_model (r : M.z M.rg) : string =
  let b = Buffer.create 256 in
  Buffer.add_string b (Printf.sprintf "%s %s %s %d" (sz r.M.rg_count) (sz r.M.rg_head) (sz r.M.rg_tail) (List.length r.M.rg_buf));
  List.iter (fun v -> Buffer.add_char b ' '; Buffer.add_string b (sz v)) r.M.rg_buf;
  Buffer.contents b

let run path =
  let cases = read_cases path in
  let ncase = ref 0 in
  let counts : (string, int) Hashtbl.t = Hashtbl.create 32 in
  let count k = Hashtbl.replace counts k (1 + try Hashtbl.find counts k with Not_found -> 0) in
  let z0 = czi 0 in
  List.iter (fun (name, lines) ->
    incr ncase;
    let q = ref M.ifq_new in
    let r = ref (M.rg_new z0 z0) in
    let stop = ref false in
    List.iteri (fun i toks ->
      if not !stop then begin
        let bad what m im = report name (i+1) what m im; stop := true in
        let op = match toks with o :: _ -> o | [] -> "" in
        if op <> "d" && op <> "rd" then begin incr records; count op end;
        match toks with
        (* ---- in-flight queue ---- *)
        | ["new"] -> q := M.ifq_new
        | ["push"; id; tsn; len; acked; rtx; aband] ->
            let c = { M.ic_id = cz id; M.ic_tsn = cz tsn; M.ic_len = cz len; M.ic_acked = (acked = "1");
                      M.ic_rtx = (rtx = "1"); M.ic_aband = (aband = "1") } in
            q := M.ifq_push_no_check !q c
        | ["pop"; tsn; ok; id; rtsn] ->
            let (q', res) = M.ifq_pop !q (cz tsn) in
            q := q';
            let m = match res with
              | None -> "0 0 0"
              | Some c -> "1 " ^ sz c.M.ic_id ^ " " ^ sz c.M.ic_tsn in
            let im = String.concat " " [ok; id; rtsn] in
            if m <> im then bad ("pop " ^ tsn) m im
        | ["get"; tsn; ok; id; rtsn] ->
            let m = match M.ifq_get !q (cz tsn) with
              | None -> "0 0 0"
              | Some c -> "1 " ^ sz c.M.ic_id ^ " " ^ sz c.M.ic_tsn in
            let im = String.concat " " [ok; id; rtsn] in
            if m <> im then bad ("get " ^ tsn) m im
        | ["ack"; tsn; n] ->
            let (q', nb) = M.ifq_mark_as_acked !q (cz tsn) in
            q := q';
            if sz nb <> n then bad ("ack " ^ tsn) (sz nb) n
        | ["rtxall"] -> q := M.ifq_mark_all_to_retransmit !q
        | ["nbytes"; v] ->
            let m = sz (M.ifq_get_num_bytes !q) in if m <> v then bad "nbytes" m v
        | ["size"; v] ->
            let m = sz (M.ifq_size !q) in if m <> v then bad "size" m v
        | ["aband"; idx; v] ->
            (* harness-side mutation of the pointee: abandoned() of the idx-th live chunk becomes v *)
            let ch = (!q).M.ifq_chunks in
            (match M.rg_at ch (cz idx) with
             | None -> bad ("aband " ^ idx) "rg_at: out of range" v
             | Some c ->
                 let c' = { c with M.ic_aband = (v = "1") } in
                 q := { !q with M.ifq_chunks = M.rg_set_at ch (cz idx) c' })
        | "d" :: rest ->
            let im = String.concat " " rest in
            let m = ifq_dump_model !q in
            if m <> im then bad "state" m im
        (* ---- generic ring (queue[int] and queue[*T] with T identified by an integer, nil = 0) ---- *)
        | ["rnew"; _; capacity] -> r := M.rg_new z0 (cz capacity)
        | ["rpush"; v] -> r := M.rg_push_back z0 !r (cz v)
        | ["rpop"; v] ->
            let (x, r') = M.rg_pop_front z0 !r in
            r := r';
            if sz x <> v then bad "rpop" (sz x) v
        | ["rfront"; v] -> let m = sz (M.rg_front z0 !r) in if m <> v then bad "rfront" m v
        | ["rback"; v] -> let m = sz (M.rg_back z0 !r) in if m <> v then bad "rback" m v
        | ["rlen"; v] -> let m = sz (M.rg_len !r) in if m <> v then bad "rlen" m v
        | ["rat"; idx; ok; v] ->
            let m = match M.rg_at !r (cz idx) with None -> "0 0" | Some x -> "1 " ^ sz x in
            let im = ok ^ " " ^ v in
            if m <> im then bad ("rat " ^ idx) m im
        | "rd" :: rest ->
            let im = String.concat " " rest in
            let m = ifq_ring_dump_model !r in
            if m <> im then bad "ring state" m im
        | _ -> bad "unparsed line (a Go panic prints the token panic)" "" (String.concat " " toks)
      end) lines) cases;
  let keys = List.sort compare (Hashtbl.fold (fun k _ acc -> k :: acc) counts []) in
  let dist = String.concat " " (List.map (fun k -> Printf.sprintf "%s=%d" k (Hashtbl.find counts k)) keys) in
  Printf.printf "SUMMARY component=ifq cases=%d records=%d mismatches=%d %s\n" !ncase !records !mismatches dist
