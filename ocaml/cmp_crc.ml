(* replay of checksum traces (go/inpkg/zz_verif_crc_test.go, TestVerifCrc) on the extracted model Crc.v *)
module M = Model
open Zio

let byte_tab : M.z array = Array.init 256 czi

let hexval c =
  match c with
  | '0' .. '9' -> Char.code c - 48
  | 'a' .. 'f' -> Char.code c - 87
  | 'A' .. 'F' -> Char.code c - 55
  | _ -> failwith "bad hex digit"

let bytes_of_hex (s : string) : M.z list =
  if s = "-" then []
  else begin
    let n = String.length s / 2 in
    let acc = ref [] in
    for i = n - 1 downto 0 do
      acc := byte_tab.(16 * hexval s.[2 * i] + hexval s.[2 * i + 1]) :: !acc
    done;
    !acc
  end

let hex_of_bytes (l : M.z list) : string =
  if l = [] then "-"
  else begin
    let b = Buffer.create 64 in
    List.iter (fun x -> Buffer.add_string b (Printf.sprintf "%02x" (iz x))) l;
    Buffer.contents b
  end

let verdict_s = function M.CrcShort -> "S" | M.CrcMismatch -> "C" | M.CrcPass -> "P"

let param_of_tok (t : string) : M.crc_param =
  let v = String.sub t 1 (String.length t - 1) in
  if t.[0] = 'z' then M.CrcZCA (cz v) else M.CrcOtherParam (cz v)

let tok_of_param = function
  | M.CrcZCA e -> "z" ^ sz e
  | M.CrcOtherParam t -> "o" ^ sz t

let run path =
  let cases = read_cases path in
  let ncase = ref 0 in
  let n_crc = ref 0 and n_acc = ref 0 and n_emit = ref 0 and n_neg = ref 0 and n_adv = ref 0 in
  let n_impl_ok = ref 0 and n_zero_out = ref 0 and n_wire = ref 0 and n_wire_zero = ref 0 in
  List.iter (fun (name, lines) ->
    incr ncase;
    List.iteri (fun i toks ->
      incr records;
      let bad what m im = report name (i + 1) what m im in
      match toks with
      | ["crc"; h; v] ->
          incr n_crc;
          let m = sz (M.crc32c (bytes_of_hex h)) in
          if m <> v then bad ("crc32c len=" ^ string_of_int (String.length h / 2)) m v
      | "acc" :: rz :: h :: cls :: ok :: rest ->
          incr n_acc;
          let raw = bytes_of_hex h in
          let rzb = rz <> "0" in
          let what = "acc rz=" ^ rz ^ " " ^ String.concat " " rest ^ " raw=" ^ h in
          let g = verdict_s (M.crc_gate (not rzb) raw) in
          if g <> cls then bad (what ^ " gate") g cls;
          let a = M.crc_accept rzb raw in
          (* the implementation may reject more (chunk codec), never accept what the model refuses *)
          if ok = "1" then begin
            incr n_impl_ok;
            if not a then bad (what ^ " accepted-by-impl-only") "0" "1"
          end
      | ["emit"; szs; types; h0; hout] ->
          incr n_emit;
          let raw0 = bytes_of_hex h0 in
          let tl = if types = "-" then [] else List.map cz (String.split_on_char ',' types) in
          let szb = szs <> "0" in
          let what = "emit sz=" ^ szs ^ " types=" ^ types in
          if not (M.crc_bytes_ok raw0 && iz (M.crc_len raw0) >= 12 && sz (M.crc_field raw0) = "0") then
            bad (what ^ " premarshal_ok") "1" "0";
          if not (M.crc_types_consistent tl raw0) then bad (what ^ " types_consistent") "1" "0";
          let out = M.crc_emit szb tl raw0 in
          let m = hex_of_bytes out in
          if m <> hout then bad what m hout;
          if sz (M.crc_field out) = "0" then incr n_zero_out
      | "neg" :: path :: prev :: now :: ps ->
          incr n_neg;
          let m = M.crc_send_zero_after (prev <> "0") (List.map param_of_tok ps) in
          if sbool m <> now then bad ("neg " ^ path ^ " prev=" ^ prev ^ " [" ^ String.concat " " ps ^ "]") (sbool m) now
      | "adv" :: path :: opt :: rznow :: ps ->
          incr n_adv;
          let ep = M.crc_ep_new (opt <> "0") in
          if sbool ep.M.ep_recv_zero <> rznow then bad ("adv " ^ path ^ " recv_zero") (sbool ep.M.ep_recv_zero) rznow;
          let m = slist tok_of_param (M.crc_ep_advert ep) in
          let im = slist tok_of_param (M.crc_zca_of (List.map param_of_tok ps)) in
          if m <> im then bad ("adv " ^ path ^ " opt=" ^ opt) m im
      | ["wire"; ro; h] ->
          (* a packet a real association put on the wire towards an endpoint whose option is ro: the model's
             receiver rules take it, and a field that is not the CRC goes only to an endpoint with the option *)
          incr n_wire;
          let raw = bytes_of_hex h in
          let rob = ro <> "0" in
          if not (M.crc_accept rob raw) then bad ("wire recv_opt=" ^ ro ^ " raw=" ^ h) "refused" "emitted";
          if sz (M.crc_field raw) <> sz (M.crc_packet_checksum raw) then begin
            incr n_wire_zero;
            if not rob || sz (M.crc_field raw) <> "0" || M.crc_starts_mandatory raw then
              bad ("wire recv_opt=" ^ ro ^ " non-CRC field raw=" ^ h) "not permitted" "emitted"
          end
      | _ -> bad "unparsed line" "" (String.concat " " toks)) lines) cases;
  Printf.printf "SUMMARY component=crc cases=%d records=%d mismatches=%d crc=%d acc=%d impl_accepted=%d emit=%d emit_zero=%d neg=%d adv=%d wire=%d wire_zero=%d\n"
    !ncase !records !mismatches !n_crc !n_acc !n_impl_ok !n_emit !n_zero_out !n_neg !n_adv !n_wire !n_wire_zero
