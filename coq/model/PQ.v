(* Executable model of pending_queue.go (pendingBaseQueue, messagePendingQueuePolicy,
   roundRobinPendingQueuePolicy, weightedFairQueueingPendingQueuePolicy, pendingQueue) and of the
   scheduler selection of association_interleaving_options.go.  No proofs in this file.

   Representation choices (all checked by the differential against the real objects):
   - a *chunkPayloadData is a record with an identity [pc_id]; Go pointer equality = equality of ids;
   - pendingBaseQueue = list (head first);
   - Go maps = association lists sorted by key ([al_get]/[al_set]/[al_del]);
     the only map iteration in the code (WFQ Peek over streamQueues) is [wf_scan]; it is proved
     independent of the iteration order in PQProofs.v;
   - WFQ virtual finish times: the Go code uses float64; the model uses exact rationals written as
     scaled integers: every time value t is stored as t * wf_scale where wf_scale = lcm of the
     configured weights, so  len/weight  becomes  len * (wf_scale / weight)  (an integer);
     chunkFinish (map keyed by chunk pointer) is stored next to each queued chunk;
   - errors are small integers: 0 nil, 1 ErrUnexpectedChunkPoppedUnordered,
     2 ErrUnexpectedChunkPoppedOrdered, 3 ErrUnexpectedChunkPoppedStream, 4 ErrUnexpectedQState,
     5 ErrPendingQueueModeChangeNonEmpty, 6 errNilStreamScheduler;
   - a nil-pointer dereference in Go is the distinct result [PR_panic]. *)
From Coq Require Import ZArith Bool List.
From Sctp Require Import Gen.
Import ListNotations.
Open Scope Z_scope.

Record pchunk := mkPchunk {
  pc_id : Z;        (* identity of the Go object *)
  pc_sid : Z;       (* streamIdentifier *)
  pc_unord : bool;  (* unordered *)
  pc_b : bool;      (* beginningFragment *)
  pc_e : bool;      (* endingFragment *)
  pc_len : Z        (* len(userData) *)
}.

Definition pc_eqb (a b : pchunk) : bool := pc_id a =? pc_id b.

Inductive pq_res := PR_nil | PR_chunk (c : pchunk) | PR_panic.

(* ---------- association lists (Go maps keyed by uint16) ---------- *)
Fixpoint al_get {V : Type} (k : Z) (m : list (Z * V)) : option V :=
  match m with
  | [] => None
  | (k0, v0) :: r => if k =? k0 then Some v0 else al_get k r
  end.

Fixpoint al_set {V : Type} (k : Z) (v : V) (m : list (Z * V)) : list (Z * V) :=
  match m with
  | [] => [(k, v)]
  | (k0, v0) :: r =>
      if k =? k0 then (k, v) :: r
      else if k <? k0 then (k, v) :: (k0, v0) :: r
      else (k0, v0) :: al_set k v r
  end.

Fixpoint al_del {V : Type} (k : Z) (m : list (Z * V)) : list (Z * V) :=
  match m with
  | [] => []
  | (k0, v0) :: r => if k =? k0 then al_del k r else (k0, v0) :: al_del k r
  end.

(* ---------- messagePendingQueuePolicy ---------- *)
Record mp := mkMp {
  mp_uq : list pchunk;   (* unorderedQueue *)
  mp_oq : list pchunk;   (* orderedQueue *)
  mp_sel : bool;         (* selected *)
  mp_usel : bool         (* unorderedIsSelected *)
}.

Definition mp_new : mp := mkMp [] [] false false.

Definition mp_push (m : mp) (c : pchunk) : mp :=
  if pc_unord c then mkMp (mp_uq m ++ [c]) (mp_oq m) (mp_sel m) (mp_usel m)
  else mkMp (mp_uq m) (mp_oq m ++ [c]) (mp_sel m) (mp_usel m).

Definition pq_head (l : list pchunk) : pq_res :=
  match l with [] => PR_nil | c :: _ => PR_chunk c end.

Definition mp_peek (m : mp) : pq_res :=
  if mp_sel m then (if mp_usel m then pq_head (mp_uq m) else pq_head (mp_oq m))
  else match mp_uq m with
       | c :: _ => PR_chunk c
       | [] => pq_head (mp_oq m)
       end.

(* popSelected: the sub-queue is popped before the identity check *)
Definition mp_pop_selected (m : mp) (c : pchunk) : mp * Z :=
  if mp_usel m then
    match mp_uq m with
    | [] => (m, 1)
    | p :: r =>
        let m1 := mkMp r (mp_oq m) (mp_sel m) (mp_usel m) in
        if negb (pc_eqb p c) then (m1, 1)
        else if pc_e p then (mkMp r (mp_oq m) false (mp_usel m), 0) else (m1, 0)
    end
  else
    match mp_oq m with
    | [] => (m, 2)
    | p :: r =>
        let m1 := mkMp (mp_uq m) r (mp_sel m) (mp_usel m) in
        if negb (pc_eqb p c) then (m1, 2)
        else if pc_e p then (mkMp (mp_uq m) r false (mp_usel m), 0) else (m1, 0)
    end.

Definition mp_pop_new_selection (m : mp) (c : pchunk) : mp * Z :=
  if pc_unord c then
    match mp_uq m with
    | [] => (m, 1)
    | p :: r =>
        let m1 := mkMp r (mp_oq m) (mp_sel m) (mp_usel m) in
        if negb (pc_eqb p c) then (m1, 1)
        else if negb (pc_e p) then (mkMp r (mp_oq m) true true, 0) else (m1, 0)
    end
  else
    match mp_oq m with
    | [] => (m, 2)
    | p :: r =>
        let m1 := mkMp (mp_uq m) r (mp_sel m) (mp_usel m) in
        if negb (pc_eqb p c) then (m1, 2)
        else if negb (pc_e p) then (mkMp (mp_uq m) r true false, 0) else (m1, 0)
    end.

Definition mp_pop (m : mp) (c : pchunk) : mp * Z :=
  if mp_sel m then mp_pop_selected m c
  else if negb (pc_b c) then (m, 4)
  else mp_pop_new_selection m c.

(* ---------- roundRobinPendingQueuePolicy ---------- *)
Record rr := mkRr {
  rr_qs : list (Z * list pchunk);  (* streamQueues *)
  rr_order : list Z;               (* streamOrder *)
  rr_sel : bool;                   (* streamSelected *)
  rr_selsid : Z                    (* selectedStream *)
}.

Definition rr_new : rr := mkRr [] [] false 0.

Definition rr_push (r : rr) (c : pchunk) : rr :=
  let s := pc_sid c in
  let old := al_get s (rr_qs r) in
  let was_empty := match old with None => true | Some [] => true | Some _ => false end in
  let l := match old with None => [] | Some l => l end in
  mkRr (al_set s (l ++ [c]) (rr_qs r))
       (if was_empty then rr_order r ++ [s] else rr_order r)
       (rr_sel r) (rr_selsid r).

(* q.streamQueues[s].get(0): a missing entry is a nil *pendingBaseQueue, get dereferences it *)
Definition rr_head (qs : list (Z * list pchunk)) (s : Z) : pq_res :=
  match al_get s qs with
  | None => PR_panic
  | Some l => pq_head l
  end.

Definition rr_peek (r : rr) : rr * pq_res :=
  if rr_sel r then (r, rr_head (rr_qs r) (rr_selsid r))
  else match rr_order r with
       | [] => (r, PR_nil)
       | s :: _ => (mkRr (rr_qs r) (rr_order r) true s, rr_head (rr_qs r) s)
       end.

Definition rr_pop (r : rr) (c : pchunk) : rr * Z :=
  if negb (rr_sel r) then (r, 4)
  else match al_get (rr_selsid r) (rr_qs r) with
       | None => (r, 4)
       | Some [] => (r, 3)
       | Some (p :: l) =>
           let qs1 := al_set (rr_selsid r) l (rr_qs r) in
           if negb (pc_eqb p c) then (mkRr qs1 (rr_order r) (rr_sel r) (rr_selsid r), 3)
           else
             let o1 := match rr_order r with [] => [] | _ :: t => t end in
             match l with
             | [] => (mkRr (al_del (rr_selsid r) qs1) o1 false 0, 0)
             | _ :: _ => (mkRr qs1 (o1 ++ [rr_selsid r]) false 0, 0)
             end
       end.

(* ---------- weightedFairQueueingPendingQueuePolicy ---------- *)
Record wfq := mkWfq {
  wf_qs : list (Z * list (pchunk * Z));  (* streamQueues, each chunk with chunkFinish[chunk] (scaled) *)
  wf_fin : list (Z * Z);                 (* streamFinish (scaled) *)
  wf_w : list (Z * Z);                   (* weights *)
  wf_scale : Z;                          (* common multiple of the weights: model-only *)
  wf_vt : Z;                             (* virtualTime (scaled) *)
  wf_sel : bool;                         (* streamSelected *)
  wf_selsid : Z                          (* selectedStream *)
}.

(* newWeightedFairQueueingPendingQueuePolicy copies the non-zero weights *)
Fixpoint wf_copy_weights (ws : list (Z * Z)) : list (Z * Z) :=
  match ws with
  | [] => []
  | (s, w) :: r => if w =? 0 then wf_copy_weights r else al_set s w (wf_copy_weights r)
  end.

Definition wf_lcm_all (ws : list (Z * Z)) : Z := fold_right (fun sw acc => Z.lcm (snd sw) acc) 1 ws.

Definition wf_new (ws : list (Z * Z)) : wfq :=
  let cw := wf_copy_weights ws in
  mkWfq [] [] cw (wf_lcm_all cw) 0 false 0.

(* weight := float64(q.weights[streamID]); if weight == 0 { weight = 1 } *)
Definition wf_weight (w : wfq) (s : Z) : Z :=
  match al_get s (wf_w w) with
  | Some x => if x =? 0 then 1 else x
  | None => 1
  end.

(* scaled cost of one byte on stream s: wf_scale / weight *)
Definition wf_phi (w : wfq) (s : Z) : Z := wf_scale w / wf_weight w s.

Definition wf_fin_of (w : wfq) (s : Z) : Z :=
  match al_get s (wf_fin w) with Some f => f | None => 0 end.

Definition wf_push (w : wfq) (c : pchunk) : wfq :=
  let s := pc_sid c in
  let l := match al_get s (wf_qs w) with None => [] | Some l => l end in
  let start := Z.max (wf_vt w) (wf_fin_of w s) in
  let finish := start + pc_len c * wf_phi w s in
  mkWfq (al_set s (l ++ [(c, finish)]) (wf_qs w)) (al_set s finish (wf_fin w))
        (wf_w w) (wf_scale w) (wf_vt w) (wf_sel w) (wf_selsid w).

(* the Peek loop over the map; [best] = None stands for (nil, 0, +Inf) *)
Fixpoint wf_scan (m : list (Z * list (pchunk * Z))) (best : option (pchunk * Z * Z))
  : option (pchunk * Z * Z) :=
  match m with
  | [] => best
  | (s, l) :: r =>
      match l with
      | [] => wf_scan r best
      | (c, f) :: _ =>
          let take := match best with
                      | None => true
                      | Some (_, bs, bf) => (f <? bf) || ((f =? bf) && (s <? bs))
                      end in
          wf_scan r (if take then Some (c, s, f) else best)
      end
  end.

Definition wf_head (qs : list (Z * list (pchunk * Z))) (s : Z) : pq_res :=
  match al_get s qs with
  | None => PR_panic
  | Some [] => PR_nil
  | Some ((c, _) :: _) => PR_chunk c
  end.

Definition wf_peek (w : wfq) : wfq * pq_res :=
  if wf_sel w then (w, wf_head (wf_qs w) (wf_selsid w))
  else match wf_scan (wf_qs w) None with
       | None => (w, PR_nil)
       | Some (c, s, f) =>
           (* the selected chunk is in service from now on: virtualTime = max(virtualTime, its finish tag) *)
           (mkWfq (wf_qs w) (wf_fin w) (wf_w w) (wf_scale w) (Z.max (wf_vt w) f) true s, PR_chunk c)
       end.

Definition wf_pop (w : wfq) (c : pchunk) : wfq * Z :=
  if negb (wf_sel w) then (w, 4)
  else match al_get (wf_selsid w) (wf_qs w) with
       | None => (w, 4)
       | Some [] => (w, 3)
       | Some ((p, f) :: l) =>
           let qs1 := al_set (wf_selsid w) l (wf_qs w) in
           if negb (pc_eqb p c) then
             (* the entry chunkFinish[p] stays behind in Go; not represented here (never happens
                when the popped chunk is the peeked one) *)
             (mkWfq qs1 (wf_fin w) (wf_w w) (wf_scale w) (wf_vt w) (wf_sel w) (wf_selsid w), 3)
           else
             let qs2 := match l with [] => al_del (wf_selsid w) qs1 | _ :: _ => qs1 end in
             (mkWfq qs2 (wf_fin w) (wf_w w) (wf_scale w) (Z.max (wf_vt w) f) false 0, 0)
       end.

(* comparator glue only (NOT a Go function): follow the implementation's choice after a tolerated
   floating-point rounding tie *)
Definition wf_force_select (w : wfq) (s : Z) (f : Z) : wfq :=
  mkWfq (wf_qs w) (wf_fin w) (wf_w w) (wf_scale w) (Z.max (wf_vt w) f) true s.

(* ---------- pendingQueue ---------- *)
(* the scheduler factory handed to newPendingQueue: nil, round-robin, or WFQ with a weight map *)
Inductive pq_sched := PS_none | PS_rr | PS_wfq (ws : list (Z * Z)).
Inductive pq_policy := PP_msg (m : mp) | PP_rr (r : rr) | PP_wfq (w : wfq).

Record pq := mkPq {
  pq_nbytes : Z;
  pq_nchunks : Z;
  pq_il : bool;            (* interleaving *)
  pq_sch : pq_sched;       (* newStreamScheduler *)
  pq_pol : pq_policy       (* policy *)
}.

Definition pq_new (s : pq_sched) : pq := mkPq 0 0 false s (PP_msg mp_new).

Definition pq_set_interleaving (q : pq) (enabled : bool) : pq * Z :=
  if Bool.eqb (pq_il q) enabled then (q, 0)
  else if negb (pq_nchunks q =? 0) then (q, 5)
  else if enabled then
    (* q.interleaving is assigned before the factory is inspected *)
    match pq_sch q with
    | PS_none => (mkPq (pq_nbytes q) (pq_nchunks q) true (pq_sch q) (pq_pol q), 6)
    | PS_rr => (mkPq (pq_nbytes q) (pq_nchunks q) true (pq_sch q) (PP_rr rr_new), 0)
    | PS_wfq ws => (mkPq (pq_nbytes q) (pq_nchunks q) true (pq_sch q) (PP_wfq (wf_new ws)), 0)
    end
  else (mkPq (pq_nbytes q) (pq_nchunks q) false (pq_sch q) (PP_msg mp_new), 0).

Definition pol_push (p : pq_policy) (c : pchunk) : pq_policy :=
  match p with
  | PP_msg m => PP_msg (mp_push m c)
  | PP_rr r => PP_rr (rr_push r c)
  | PP_wfq w => PP_wfq (wf_push w c)
  end.

Definition pol_peek (p : pq_policy) : pq_policy * pq_res :=
  match p with
  | PP_msg m => (p, mp_peek m)
  | PP_rr r => let '(r', x) := rr_peek r in (PP_rr r', x)
  | PP_wfq w => let '(w', x) := wf_peek w in (PP_wfq w', x)
  end.

Definition pol_pop (p : pq_policy) (c : pchunk) : pq_policy * Z :=
  match p with
  | PP_msg m => let '(m', e) := mp_pop m c in (PP_msg m', e)
  | PP_rr r => let '(r', e) := rr_pop r c in (PP_rr r', e)
  | PP_wfq w => let '(w', e) := wf_pop w c in (PP_wfq w', e)
  end.

Definition pq_push (q : pq) (c : pchunk) : pq :=
  mkPq (pq_nbytes q + pc_len c) (pq_nchunks q + 1) (pq_il q) (pq_sch q) (pol_push (pq_pol q) c).

Definition pq_peek (q : pq) : pq * pq_res :=
  let '(p, x) := pol_peek (pq_pol q) in
  (mkPq (pq_nbytes q) (pq_nchunks q) (pq_il q) (pq_sch q) p, x).

Definition pq_pop (q : pq) (c : pchunk) : pq * Z :=
  let '(p, e) := pol_pop (pq_pol q) c in
  if negb (e =? 0) then (mkPq (pq_nbytes q) (pq_nchunks q) (pq_il q) (pq_sch q) p, e)
  else
    let nb := pq_nbytes q - pc_len c in
    (mkPq (if nb <? 0 then 0 else nb) (pq_nchunks q - 1) (pq_il q) (pq_sch q) p, 0).

(* ---------- the way the association drives the queue ----------
   sendPayloadData pushes all fragments of one message under one lock hold;
   popPendingDataChunksToSend peeks, possibly stops there (cwnd/rwnd/MTU/burst budget), otherwise
   pops exactly the chunk it peeked (movePendingDataChunkToInflightQueue). *)
Inductive pq_op :=
| PO_push (m : list pchunk)
| PO_peek
| PO_pop
| PO_setil (b : bool).

Definition pq_pop_peeked (q : pq) : pq * list pchunk :=
  let '(q1, x) := pq_peek q in
  match x with
  | PR_chunk c => let '(q2, e) := pq_pop q1 c in (q2, if e =? 0 then [c] else [])
  | _ => (q1, [])
  end.

Definition pq_step (q : pq) (op : pq_op) : pq * list pchunk :=
  match op with
  | PO_push m => (fold_left pq_push m q, [])
  | PO_peek => (fst (pq_peek q), [])
  | PO_pop => pq_pop_peeked q
  | PO_setil b => (fst (pq_set_interleaving q b), [])
  end.

(* final state and the chunks popped, in pop order *)
Fixpoint pq_run (q : pq) (ops : list pq_op) : pq * list pchunk :=
  match ops with
  | [] => (q, [])
  | op :: r =>
      let '(q1, o1) := pq_step q op in
      let '(q2, o2) := pq_run q1 r in
      (q2, o1 ++ o2)
  end.

(* chunks held, in a canonical order *)
Definition pol_queued (p : pq_policy) : list pchunk :=
  match p with
  | PP_msg m => mp_uq m ++ mp_oq m
  | PP_rr r => concat (map snd (rr_qs r))
  | PP_wfq w => map fst (concat (map snd (wf_qs w)))
  end.

Definition pq_queued (q : pq) : list pchunk := pol_queued (pq_pol q).

Definition pq_pushed (ops : list pq_op) : list pchunk :=
  concat (map (fun op => match op with PO_push m => m | _ => [] end) ops).

(* a well-formed message, as produced by Stream.packetize / sendResetRequest: non-empty, one stream,
   one ordering class, B on the first fragment only, E on the last fragment only, lengths >= 0 *)
Fixpoint msg_tail_ok (s : Z) (u : bool) (l : list pchunk) : bool :=
  match l with
  | [] => false
  | c :: r =>
      (pc_sid c =? s) && Bool.eqb (pc_unord c) u && negb (pc_b c) && (0 <=? pc_len c) &&
      match r with
      | [] => pc_e c
      | _ :: _ => negb (pc_e c) && msg_tail_ok s u r
      end
  end.

Definition msg_ok (m : list pchunk) : bool :=
  match m with
  | [] => false
  | c :: r =>
      pc_b c && (0 <=? pc_len c) &&
      match r with
      | [] => pc_e c
      | _ :: _ => negb (pc_e c) && msg_tail_ok (pc_sid c) (pc_unord c) r
      end
  end.

Definition op_ok (op : pq_op) : bool :=
  match op with PO_push m => msg_ok m | _ => true end.
