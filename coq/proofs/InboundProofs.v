From Coq Require Import ZArith Bool List Lia.
From Sctp Require Import Gen Inbound.
Open Scope Z_scope.

(* a payload chunk of the wrong kind is answered with ABORT in every state that handles data *)
Lemma ib_wrong_kind_data_aborts c :
  ib_complete_pending c = false -> isDataReceiveState (ib_state c) = true ->
  (ib_use_il c = true -> ib_dispatch c IbData = IbAbort) /\
  (ib_use_il c = false -> ib_dispatch c IbIData = IbAbort) /\
  (ib_use_il c = false -> ib_dispatch c IbData = IbProcess) /\
  (ib_use_il c = true -> ib_dispatch c IbIData = IbProcess).
Proof.
  intros Hp Hs. unfold ib_dispatch. rewrite Hp, Hs. cbn.
  repeat split; intros ->; reflexivity.
Qed.

Lemma ib_wrong_kind_fwd_aborts c :
  (ib_use_il c = true -> ib_dispatch c IbFwd = IbAbort) /\
  (ib_use_ifwd c = false -> ib_dispatch c IbIFwd = IbAbort).
Proof. unfold ib_dispatch. split; intros ->; reflexivity. Qed.

(* after negotiation the forward-TSN variant matches the framing, so exactly one variant is ever processed *)
Lemma ib_negotiated_variants l p pf pif :
  let '(il, fwd, ifwd) := ib_negotiate l p pf pif in
  il = (l && p)%bool /\ (il = true -> fwd = false) /\ (il = false -> ifwd = false) /\
  (ifwd = true -> il = true) /\ (fwd = true -> il = false).
Proof. unfold ib_negotiate. destruct l, p, pf, pif; cbn; repeat split; intros; try discriminate; reflexivity. Qed.

Lemma ib_data_ignored_outside_receive_states c k :
  (k = IbData \/ k = IbIData) ->
  (ib_complete_pending c = true \/ isDataReceiveState (ib_state c) = false) -> ib_dispatch c k = IbIgnore.
Proof.
  intros [-> | ->] [H|H]; unfold ib_dispatch; rewrite H; cbn; try reflexivity;
    destruct (ib_complete_pending c); reflexivity.
Qed.
