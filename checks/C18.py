"""C18 — write/read API contract: rejected or failed calls have no side effects."""
import vlib, simcommon

PROP = "C18"
PROPS_FILE = "props/C18.v"
COQ_FILES = ["gen/Gen.v", "proofs/SnaProofs.v", "model/StreamW.v", "proofs/StreamWProofs.v", "model/RPQ.v", "model/RQ.v",
             "proofs/RQProofs.v", "props/C18.v"]
TRUSTED_BASE = [
    "Coq 8.16.1 kernel; vm_compute only in Examples; no native_compute",
    "hand-written models coq/model/StreamW.v (Stream.WriteSCTP, packetize, blocking-write gate, ReadSCTP loop) and coq/model/RQ.v "
    "(reassemblyQueue.read)",
    "extraction (ExtrOcamlBasic) + ocaml/cmp_streamw.ml, cmp_rq.ml; harness zz_verif_streamw_test.go, zz_verif_rq_test.go, simulator scenarios",
    "modelled, not verified: the deadline goroutine of SetReadDeadline, context cancellation inside sendPayloadData (enter the model as the "
    "boolean 'the association refused the chunks'), goroutine scheduling",
]
ASSUMPTIONS = [
    "the blocking-write gate is a three-field abstraction (established, writePending, user chunks pending); its tie to the code is the "
    "blocking-write scenario on real associations, not a step-commuting record",
]
LEVEL_TEXT = ("Coq theorems for all inputs: too-large / closed-stream / empty writes and writes the association refuses are identities "
              "on the stream state (SSN, MIDs, buffered amount) and enqueue nothing; fragments partition the payload; for all gate "
              "histories a blocking write is admitted only when earlier data left the pending queue; short-buffer and failed reads are "
              "identities on the reassembly queue; a readable message is served before any read error. WriteSCTP/packetize and the "
              "reassembly queue are tied to the code by differentials; deadline sweeps, blocking-write and empty-write scenarios run on "
              "real associations in virtual time.")
LEVEL_NOTE = "Trusted: Coq kernel, hand models, extraction, harness. Deadline goroutine and ctx cancellation are exercised, not modelled."
TECHNIQUE = "Coq proof (identity / invariant lemmas) + differential correspondence + virtual-time scenarios"


def correspondence(ctx):
    vlib.differential(ctx, "streamw-differential", "TestVerifStreamW", "streamw", {"VERIF_N": ctx.scale(300, 6000)})
    vlib.differential(ctx, "rq-differential", "TestVerifRQ", "rq", {"VERIF_N": ctx.scale(150, 3000)})
    vlib.monitor(ctx, "streamw-content", "TestVerifStreamW", {"VERIF_N": 50, "VERIF_OUT": "/dev/null"},
                 fail_prefixes=("STREAMWFAIL",), classify=lambda l: "streamw-content", summary_prefix="STREAMW")
    simcommon.sim_monitor(ctx, "empty-write", "TestVerifScenEmptyWrite", {}, "SCENEMPTY")
    simcommon.sim_monitor(ctx, "read-deadline-sweep", "TestVerifScenReadDeadline", {}, "SCENREADDL")
    simcommon.sim_monitor(ctx, "blocking-write", "TestVerifScenBlockingWrite", {}, "SCENBLOCKW")
    simcommon.transfer(ctx, quick=30, thorough=1000)


def search(ctx):
    simcommon.sim_monitor(ctx, "sim-transfer-wide", "TestVerifSimTransfer",
                          {"VERIF_N": 400, "VERIF_EVENTS": 300, "VERIF_SEED": ctx.seed + 17}, "SIMTRANSFER")
