(* Ring deque (queue.go) and in-flight queue (payload_queue.go): statements for property C15
   "buffered amount" (the inflight.n_bytes half) and for every user of queue[T].
   Model: coq/model/IFQ.v; lemmas: coq/proofs/IFQProofs.v.  Only statements closed by [exact] here.
   (This file is IFQProps.v and not IFQ.v because all .v files share the flat namespace Sctp.)

   Vocabulary
     rg_to_list r    the count elements of ring r from head on, wrapping (abstraction function)
     rg_wf r         minCap <= cap = len(buf), 0 <= head < cap, tail = (head+count) mod cap, count <= cap
     rg_ok r         rg_wf r and 0 <= count
     ifq_list q      rg_to_list of the chunk ring
     ifq_ok q        rg_ok, TSNs consecutive mod 2^32 from the front chunk, fewer than 2^32 chunks,
                     every chunk has len >= 0 and acked -> len = 0, nBytes = sum of the lengths *)
From Coq Require Import ZArith Bool List.
From Sctp Require Import Gen IFQ IFQProofs.
Import ListNotations.
Open Scope Z_scope.

(* ------------------------------------------------------------------------------------------ *)
(* R1: the ring refines a list                                                                 *)
(* ------------------------------------------------------------------------------------------ *)

(* newQueue(capacity): invariant established, empty, capacity = smallest minCap*2^k >= capacity *)
Theorem rg_thm_new : forall (A : Type) (z : A) capacity, capacity <= 2 ^ 62 ->
  rg_ok (rg_new z capacity) /\ rg_to_list (rg_new z capacity) = [] /\
  rg_count (rg_new z capacity) = 0 /\
  capacity <= rg_cap (rg_new z capacity) /\
  (capacity <= c_minCap -> rg_cap (rg_new z capacity) = c_minCap) /\
  (c_minCap < capacity -> rg_cap (rg_new z capacity) < 2 * capacity).
Proof. exact @rg_new_ok. Qed.
Print Assumptions rg_thm_new.

(* PushBack appends, growth case included, and keeps the invariant *)
Theorem rg_thm_push_back : forall (A : Type) (z : A) (r : rg A) x, rg_ok r ->
  rg_ok (rg_push_back z r x) /\ rg_to_list (rg_push_back z r x) = rg_to_list r ++ [x].
Proof. exact @rg_push_back_spec. Qed.
Print Assumptions rg_thm_push_back.

(* the capacity doubles exactly when the ring is full, and never otherwise *)
Theorem rg_thm_push_back_cap : forall (A : Type) (z : A) (r : rg A) x, rg_wf r ->
  rg_cap (rg_push_back z r x) = (if rg_count r <? rg_cap r then rg_cap r else 2 * rg_cap r) /\
  rg_count (rg_push_back z r x) = rg_count r + 1.
Proof. exact @rg_push_back_cap. Qed.
Print Assumptions rg_thm_push_back_cap.

(* growIfFull: when the ring is full tail = head, so the branch "if q.tail > q.head" is dead code *)
Theorem rg_thm_grow_first_branch_dead : forall (A : Type) (r : rg A),
  rg_wf r -> rg_count r <? rg_cap r = false -> rg_head r <? rg_tail r = false.
Proof. exact @rg_grow_first_branch_dead. Qed.
Print Assumptions rg_thm_grow_first_branch_dead.

(* PopFront on a non-empty ring returns the head of the list and leaves its tail *)
Theorem rg_thm_pop_front : forall (A : Type) (z : A) (r : rg A), rg_ok r -> 0 < rg_count r ->
  fst (rg_pop_front z r) = hd z (rg_to_list r) /\
  rg_to_list (snd (rg_pop_front z r)) = tl (rg_to_list r) /\
  rg_ok (snd (rg_pop_front z r)) /\
  rg_count (snd (rg_pop_front z r)) = rg_count r - 1 /\
  rg_cap (snd (rg_pop_front z r)) = rg_cap r.
Proof. exact @rg_pop_front_spec. Qed.
Print Assumptions rg_thm_pop_front.

(* PopFront on an EMPTY ring (the Go code has no guard): Len() becomes -1 and rg_ok is lost;
   indices stay in range (rg_wf), so nothing panics later either *)
Theorem rg_thm_pop_front_empty : forall (A : Type) (z : A) (r : rg A), rg_ok r -> rg_count r = 0 ->
  let r' := snd (rg_pop_front z r) in
  rg_len r' = -1 /\ ~ rg_ok r' /\ rg_wf r' /\ rg_to_list r' = [] /\
  rg_head r' = (rg_head r + 1) mod rg_cap r.
Proof. exact @rg_pop_front_empty. Qed.
Print Assumptions rg_thm_pop_front_empty.

Theorem rg_thm_front : forall (A : Type) (z : A) (r : rg A), rg_ok r -> 0 < rg_count r ->
  rg_front z r = hd z (rg_to_list r).
Proof. exact @rg_front_spec. Qed.
Print Assumptions rg_thm_front.

Theorem rg_thm_back : forall (A : Type) (z : A) (r : rg A), rg_ok r -> 0 < rg_count r ->
  rg_back z r = last (rg_to_list r) z.
Proof. exact @rg_back_spec. Qed.
Print Assumptions rg_thm_back.

Theorem rg_thm_at : forall (A : Type) (r : rg A) d i, rg_ok r -> 0 <= i < rg_count r ->
  rg_at r i = Some (nth (Z.to_nat i) (rg_to_list r) d).
Proof. exact @rg_at_spec. Qed.
Print Assumptions rg_thm_at.

(* At(i), i >= 0, cannot index out of range in any reachable state *)
Theorem rg_thm_at_in_range : forall (A : Type) (r : rg A) i, rg_wf r -> 0 <= i -> rg_at r i <> None.
Proof. exact @rg_at_in_range. Qed.
Print Assumptions rg_thm_at_in_range.

Theorem rg_thm_len : forall (A : Type) (r : rg A), rg_ok r ->
  rg_len r = Z.of_nat (length (rg_to_list r)).
Proof. exact @rg_len_spec. Qed.
Print Assumptions rg_thm_len.

(* mutation through a stored pointer = replacing the i-th element of the list *)
Theorem rg_thm_set_at : forall (A : Type) (r : rg A) i x, rg_ok r -> 0 <= i < rg_count r ->
  rg_ok (rg_set_at r i x) /\
  rg_to_list (rg_set_at r i x) = rg_upd_nat (rg_to_list r) (Z.to_nat i) x /\
  rg_count (rg_set_at r i x) = rg_count r /\ rg_cap (rg_set_at r i x) = rg_cap r.
Proof. exact @rg_set_at_spec. Qed.
Print Assumptions rg_thm_set_at.

(* ALL sequences of PushBack/PopFront from newQueue, empty pops included, keep every buffer index
   in range: this is what justifies the unchecked reads of the model, and "no panic in queue.go" *)
Theorem rg_thm_wf_always : forall (A : Type) (z : A) capacity (ops : list (rg_op A)),
  capacity <= 2 ^ 62 -> rg_wf (rg_run z (rg_new z capacity) ops).
Proof. exact @rg_wf_always. Qed.
Print Assumptions rg_thm_wf_always.

(* ALL sequences that pop only non-empty rings behave like the list (append / tail) *)
Theorem rg_thm_run_refines : forall (A : Type) (z : A) (ops : list (rg_op A)) (r : rg A),
  rg_ok r -> rg_guarded (rg_to_list r) ops ->
  rg_ok (rg_run z r ops) /\ rg_to_list (rg_run z r ops) = fold_left rg_spec_step ops (rg_to_list r).
Proof. exact @rg_run_refines. Qed.
Print Assumptions rg_thm_run_refines.

(* ------------------------------------------------------------------------------------------ *)
(* R2: the in-flight queue                                                                     *)
(* ------------------------------------------------------------------------------------------ *)

Theorem ifq_thm_new : ifq_ok ifq_new /\ ifq_list ifq_new = [] /\ ifq_nbytes ifq_new = 0 /\
  rg_cap (ifq_chunks ifq_new) = 128.
Proof. exact ifq_new_ok. Qed.
Print Assumptions ifq_thm_new.

(* pushNoCheck appends and adds the payload length (any chunk) ... *)
Theorem ifq_thm_push : forall q c, rg_ok (ifq_chunks q) ->
  rg_ok (ifq_chunks (ifq_push_no_check q c)) /\
  ifq_list (ifq_push_no_check q c) = ifq_list q ++ [c] /\
  ifq_nbytes (ifq_push_no_check q c) = ifq_nbytes q + ic_len c.
Proof. exact ifq_push_spec. Qed.
Print Assumptions ifq_thm_push.

(* ... and keeps the invariant when the chunk carries the next TSN (any TSN if the queue is empty),
   has len >= 0, is not acked unless empty, and the queue stays below 2^32 chunks *)
Theorem ifq_thm_push_ok : forall q c, ifq_ok q -> ifq_push_pre q c -> ifq_ok (ifq_push_no_check q c).
Proof. exact ifq_push_ok. Qed.
Print Assumptions ifq_thm_push_ok.

(* get finds exactly the chunk with the TSN asked for ... *)
Theorem ifq_thm_get_spec : forall q t c, ifq_ok q -> ifq_u32 t ->
  (ifq_get q t = Some c <-> In c (ifq_list q) /\ ic_tsn c = t).
Proof. exact ifq_get_spec. Qed.
Print Assumptions ifq_thm_get_spec.

(* ... which is unique ... *)
Theorem ifq_thm_tsn_unique : forall q c c', ifq_ok q ->
  In c (ifq_list q) -> In c' (ifq_list q) -> ic_tsn c = ic_tsn c' -> c = c'.
Proof. exact ifq_tsn_unique. Qed.
Print Assumptions ifq_thm_tsn_unique.

(* ... and answers (nil,false) iff no queued chunk has that TSN *)
Theorem ifq_thm_get_none : forall q t, ifq_ok q -> ifq_u32 t ->
  (ifq_get q t = None <-> forall c, In c (ifq_list q) -> ic_tsn c <> t).
Proof. exact ifq_get_none_spec. Qed.
Print Assumptions ifq_thm_get_none.

(* in any reachable state the model's None is one of get's two guards, never a hidden panic of At *)
Theorem ifq_thm_get_none_is_guard : forall q t, rg_wf (ifq_chunks q) ->
  (ifq_get q t = None <-> rg_len (ifq_chunks q) = 0 \/ rg_len (ifq_chunks q) <= ifq_offset q t).
Proof. exact ifq_get_none_iff. Qed.
Print Assumptions ifq_thm_get_none_is_guard.

(* markAsAcked of a queued TSN: returns the chunk's remaining length, nBytes decreases by exactly
   the returned value, only that chunk changes (acked, retransmit = false, empty payload) *)
Theorem ifq_thm_ack_present : forall q c, ifq_ok q -> In c (ifq_list q) ->
  let r := ifq_mark_as_acked q (ic_tsn c) in
  snd r = ic_len c /\
  ifq_nbytes (fst r) = ifq_nbytes q - snd r /\
  ifq_ok (fst r) /\
  exists i, (i < length (ifq_list q))%nat /\ nth i (ifq_list q) ic_zero = c /\
            ifq_list (fst r) = rg_upd_nat (ifq_list q) i (ic_set_acked c).
Proof. exact ifq_mark_as_acked_present. Qed.
Print Assumptions ifq_thm_ack_present.

(* markAsAcked of a TSN that is not queued: 0, state unchanged *)
Theorem ifq_thm_ack_absent : forall q t, ifq_ok q -> ifq_u32 t ->
  (forall c, In c (ifq_list q) -> ic_tsn c <> t) -> ifq_mark_as_acked q t = (q, 0).
Proof. exact ifq_mark_as_acked_absent. Qed.
Print Assumptions ifq_thm_ack_absent.

(* a second markAsAcked of the same TSN returns 0 and changes nothing: each byte released once *)
Theorem ifq_thm_ack_twice : forall q t, ifq_ok q -> ifq_u32 t ->
  ifq_mark_as_acked (fst (ifq_mark_as_acked q t)) t = (fst (ifq_mark_as_acked q t), 0).
Proof. exact ifq_mark_as_acked_twice. Qed.
Print Assumptions ifq_thm_ack_twice.

(* markAsAcked keeps the invariant for every argument *)
Theorem ifq_thm_ack_ok : forall q t, ifq_ok q -> ifq_ok (fst (ifq_mark_as_acked q t)).
Proof. exact ifq_mark_as_acked_ok. Qed.
Print Assumptions ifq_thm_ack_ok.

(* pop removes exactly the front chunk when the TSN matches (nBytes stays the sum), else identity *)
Theorem ifq_thm_pop : forall q t, ifq_ok q ->
  match ifq_list q with
  | [] => ifq_pop q t = (q, None)
  | c :: l' =>
      if t =? ic_tsn c then
        snd (ifq_pop q t) = Some c /\
        ifq_list (fst (ifq_pop q t)) = l' /\
        ifq_nbytes (fst (ifq_pop q t)) = ifq_nbytes q - ic_len c /\
        ifq_ok (fst (ifq_pop q t))
      else ifq_pop q t = (q, None)
  end.
Proof. exact ifq_pop_spec. Qed.
Print Assumptions ifq_thm_pop.

(* markAllToRetrasmit: retransmit := true on the chunks that are neither acked nor abandoned *)
Theorem ifq_thm_rtx_all : forall q, rg_ok (ifq_chunks q) ->
  rg_ok (ifq_chunks (ifq_mark_all_to_retransmit q)) /\
  ifq_list (ifq_mark_all_to_retransmit q) = map ifq_rtx_f (ifq_list q) /\
  ifq_nbytes (ifq_mark_all_to_retransmit q) = ifq_nbytes q.
Proof. exact ifq_mark_all_spec. Qed.
Print Assumptions ifq_thm_rtx_all.

Theorem ifq_thm_rtx_all_ok : forall q, ifq_ok q -> ifq_ok (ifq_mark_all_to_retransmit q).
Proof. exact ifq_mark_all_ok. Qed.
Print Assumptions ifq_thm_rtx_all_ok.

(* in every state satisfying the invariant: getNumBytes() >= 0, it is the sum of the payload
   lengths of the un-acked chunks, and size() is the number of queued chunks *)
Theorem ifq_thm_nbytes : forall q, ifq_ok q ->
  0 <= ifq_get_num_bytes q /\
  ifq_get_num_bytes q = ifq_sum_unacked (ifq_list q) /\
  ifq_size q = Z.of_nat (length (ifq_list q)).
Proof. exact ifq_ok_nbytes. Qed.
Print Assumptions ifq_thm_nbytes.

(* ALL histories from newPayloadQueue (pushes of consecutive TSNs; pops, acks of arbitrary TSNs,
   T3 marking, in any order) satisfy the invariant and the byte-count statements *)
Theorem ifq_thm_history : forall ops, ifq_run_pre ifq_new ops ->
  let q := ifq_run ifq_new ops in
  ifq_ok q /\ 0 <= ifq_get_num_bytes q /\ ifq_get_num_bytes q = ifq_sum_unacked (ifq_list q) /\
  ifq_size q = Z.of_nat (length (ifq_list q)).
Proof. exact ifq_history. Qed.
Print Assumptions ifq_thm_history.

(* ------------------------------------------------------------------------------------------ *)
(* refuted by the faithful model (witnesses replayed on the real code by TestVerifIFQ)         *)
(* ------------------------------------------------------------------------------------------ *)

(* "get returns reference to chunkPayloadData with the given TSN value" is false without the
   consecutive-TSN invariant, which pushNoCheck does not check: with TSNs 10 and 20 queued,
   get(11) returns the chunk with TSN 20, get(20) finds nothing, markAsAcked(11) releases the
   bytes of TSN 20 *)
Theorem ifq_thm_get_checks_tsn_refuted :
  exists c1 c2 t,
    let q := ifq_push_no_check (ifq_push_no_check ifq_new c1) c2 in
    rg_ok (ifq_chunks q) /\ ifq_list q = [c1; c2] /\ t <> ic_tsn c2 /\
    ifq_get q t = Some c2 /\
    ifq_get q (ic_tsn c2) = None /\
    ifq_mark_as_acked q t = (fst (ifq_mark_as_acked q t), ic_len c2) /\
    ifq_nbytes (fst (ifq_mark_as_acked q t)) = ifq_nbytes q - ic_len c2 /\ 0 < ic_len c2.
Proof. exact ifq_get_checks_tsn_refuted. Qed.
Print Assumptions ifq_thm_get_checks_tsn_refuted.

(* "PopFront is only meaningful on a non-empty queue" is not enforced by queue.go: on the fresh
   ring it returns the zero value, Len() = -1, and the next PushBack is lost (Len() = 0) *)
Theorem rg_thm_pop_front_guard_refuted :
  exists r : rg Z,
    rg_ok r /\ rg_len r = 0 /\
    fst (rg_pop_front 0 r) = 0 /\
    rg_len (snd (rg_pop_front 0 r)) = -1 /\
    rg_head (snd (rg_pop_front 0 r)) = 1 /\
    let r2 := rg_push_back 0 (snd (rg_pop_front 0 r)) 7 in
    rg_len r2 = 0 /\ rg_to_list r2 = [] /\ rg_front 0 r2 = 0 /\ nth 0 (rg_buf r2) 0 = 7.
Proof. exact rg_pop_front_guard_refuted. Qed.
Print Assumptions rg_thm_pop_front_guard_refuted.

(* ------------------------------------------------------------------------------------------ *)
(* the hypotheses are satisfiable                                                              *)
(* ------------------------------------------------------------------------------------------ *)

Definition ifq_ex_chunk (id tsn len : Z) (ab : bool) : ichunk := ic_mk id tsn len false false ab.

(* a history across the 2^32 wrap: three pushes, SACK of the middle chunk twice, T3 marking,
   cumulative ack of the first two; 8 bytes stay in flight *)
Example ifq_ex_history :
  let ops := [ifq_op_push (ifq_ex_chunk 1 4294967295 5 false);
              ifq_op_push (ifq_ex_chunk 2 0 3 false);
              ifq_op_push (ifq_ex_chunk 3 1 8 true);
              ifq_op_ack 0; ifq_op_ack 0; ifq_op_rtx_all;
              ifq_op_pop 4294967295; ifq_op_pop 0; ifq_op_pop 7] in
  ifq_run_pre ifq_new ops /\
  ifq_nbytes (ifq_run ifq_new (firstn 3 ops)) = 16 /\
  ifq_nbytes (ifq_run ifq_new (firstn 4 ops)) = 13 /\
  ifq_nbytes (ifq_run ifq_new (firstn 5 ops)) = 13 /\
  ifq_list (ifq_run ifq_new (firstn 6 ops)) =
    [ic_mk 1 4294967295 5 false true false; ic_mk 2 0 0 true false false; ic_mk 3 1 8 false false true] /\
  ifq_list (ifq_run ifq_new ops) = [ic_mk 3 1 8 false false true] /\
  ifq_nbytes (ifq_run ifq_new ops) = 8.
Proof.
  vm_compute. repeat split; intros; try reflexivity; try discriminate.
  match goal with H : ?a = ?a -> False |- _ => destruct (H eq_refl) end.
Qed.

(* a ring history with growth of a wrapped buffer: capacity 16, 10 pushes, 3 pops (head = 3),
   9 pushes (full, tail = head = 3), one more push: the buffer doubles and keeps the order *)
Example rg_ex_growth :
  let pushes := fun a n => map (fun k => rg_op_push (a + Z.of_nat k)) (seq 0 n) in
  let ops := pushes 1 10%nat ++ [rg_op_pop; rg_op_pop; rg_op_pop] ++ pushes 11 9%nat in
  let r := rg_run 0 (rg_new 0 0) ops in
  let r' := rg_push_back 0 r 20 in
  rg_guarded (rg_to_list (rg_new 0 0)) (ops ++ [rg_op_push 20]) /\
  rg_cap r = 16 /\ rg_count r = 16 /\ rg_head r = 3 /\ rg_tail r = 3 /\
  rg_cap r' = 32 /\ rg_head r' = 0 /\ rg_tail r' = 17 /\
  rg_to_list r' = map Z.of_nat (seq 4 17).
Proof. vm_compute. repeat split; intros; try reflexivity; try discriminate. Qed.
