(* C05 — selective acknowledgements tell the truth about what was received.
   Model: coq/model/RPQ.v (receive_payload_queue.go); histories carry unbounded ghost indices
   (gK = index of the cumulative point, gacc = indices accepted so far, gskip = ranges skipped by
   FORWARD-TSN / forced pops).  Only statements closed by [exact] + Print Assumptions here. *)
From Coq Require Import ZArith Bool List.
From Sctp Require Import Gen SnaProofs RPQ RPQProofs RPQWordProofs.
Import ListNotations.
Open Scope Z_scope.

(* For every requested window size m (any receive-buffer size), every initial cumulative index k0
   (any initial TSN = k0 mod 2^32, wrap included), and every history of arrivals / pops /
   forward-TSNs whose sequence numbers stay within half the number space of the cumulative point:
   - every offset named by a gap block was accepted (soundness),
   - every accepted index above the cumulative point is named by a gap block (completeness),
   - the reported cumulative TSN is the ghost index modulo 2^32,
   - every index covered by the cumulative point was accepted or explicitly skipped,
   - the cumulative index never lies below its initial value. *)
Theorem c05_sack_truth : forall m k0 evs,
  0 <= m < 2147483584 ->
  run_ok (ginit (rpq_new m) k0) evs ->
  let s := grun (ginit (rpq_new m) k0) evs in
  let q := fst s in let g := snd s in
  (forall b e, In (b, e) (gap_blocks q) ->
     1 <= b /\ b <= e /\ forall o, b <= o <= e -> In (gK g + o) (gacc g)) /\
  (forall k, In k (gacc g) -> gK g < k -> exists b e, In (b, e) (gap_blocks q) /\ b <= k - gK g <= e) /\
  cum q = wrap32 (gK g) /\
  (forall k, k0 < k <= gK g -> In k (gacc g) \/ skipped g k) /\
  k0 <= gK g.
Proof. exact sack_truth. Qed.
Print Assumptions c05_sack_truth.

(* the cumulative point never moves backwards, step by step *)
Theorem c05_cum_never_backwards : forall m k0 evs e,
  0 <= m < 2147483584 ->
  run_ok (ginit (rpq_new m) k0) (evs ++ [e]) ->
  gK (snd (grun (ginit (rpq_new m) k0) evs)) <= gK (snd (grun (ginit (rpq_new m) k0) (evs ++ [e]))).
Proof. exact cum_never_backwards. Qed.
Print Assumptions c05_cum_never_backwards.

(* an arrival is accepted exactly when it lies in the tracking window and was not accepted before *)
Theorem c05_accept_iff : forall m k0 evs k,
  0 <= m < 2147483584 ->
  run_ok (ginit (rpq_new m) k0) evs ->
  let s := grun (ginit (rpq_new m) k0) evs in
  - H31 < k - gK (snd s) < H31 ->
  (snd (push (fst s) (wrap32 k)) = true <->
   gK (snd s) < k <= gK (snd s) + max_off (fst s) /\ ~ In k (gacc (snd s))).
Proof. exact accept_iff. Qed.
Print Assumptions c05_accept_iff.

(* the word count chosen by newReceivePayloadQueue makes the ring index injective across the wrap *)
Theorem c05_ring_condition : forall m, 0 <= m < 2147483584 ->
  ring_ok (rpq_new m) /\ (0 <= max_off (rpq_new m) < H31 /\ max_off (rpq_new m) <= R (rpq_new m)) /\
  m <= max_off (rpq_new m) < m + 64.
Proof. exact rpq_new_ok. Qed.
Print Assumptions c05_ring_condition.

(* getGapAckBlocks as written — a word-by-word scan with TrailingZeros-style searches, 32-bit TSN
   arithmetic and uint16 truncation of the offsets (model gap_blocks_w, a transcription of the Go
   loop) — returns exactly the blocks of the bit-level specification above, in every reachable
   state, and the loop terminates within the model's fuel.  The bound on m covers every window
   the association can configure (second statement: at most 40000 for any receive-buffer size). *)
Theorem c05_word_scan_is_spec : forall m k0 evs,
  0 <= m <= 64936 ->
  run_ok (ginit (rpq_new m) k0) evs ->
  gap_blocks_w (fst (grun (ginit (rpq_new m) k0) evs)) =
  Some (gap_blocks (fst (grun (ginit (rpq_new m) k0) evs))).
Proof. exact word_scan_is_spec. Qed.
Print Assumptions c05_word_scan_is_spec.

Theorem c05_configured_windows_in_range : forall b, in32 b -> 2000 <= getMaxTSNOffset b <= 40000.
Proof. exact getMaxTSNOffset_range. Qed.
Print Assumptions c05_configured_windows_in_range.

(* non-vacuity: a history straddling the 2^32 wrap with default-buffer window *)
Example c05_example_history :
  let evs := [EArr 4294967297; EArr 4294967299; EArr 4294967300; EArr 4294967297; EPop false; EArr 4294967296;
              EFwd 4294967298; EPop false] in
  let s := grun (ginit (rpq_new 8388) 4294967195) evs in
  gap_blocks (fst (grun (ginit (rpq_new 8388) 4294967195) (firstn 4 evs))) = [(102, 102); (104, 105)] /\
  gap_blocks_w (fst (grun (ginit (rpq_new 8388) 4294967195) (firstn 4 evs))) = Some [(102, 102); (104, 105)] /\
  cum (fst s) = 3 /\ gK (snd s) = 4294967299 /\ gap_blocks (fst s) = [(1, 1)].
Proof. vm_compute. repeat split. Qed.

(* D1 (fixed in /repo by 452b544): with a word count that does not divide 2^26 the ring index is
   not injective when the window straddles 2^32.  Witness with the former default of 132 words:
   after receiving TSN 2^32-64 and TSN 5000, TSN 4032 (never received) is reported as held and the
   gap blocks name its offset. *)
Example c05_ring_alias_refuted_for_132_words :
  let q0 := mkRpq 0 0 0 [] [] 8448 132 in
  let q := fst (push (fst (push (rpq_init q0 4294967195) 4294967232)) 5000) in
  has_chunk q 4032 = true /\ In (4133, 4133) (gap_blocks q).
Proof. vm_compute. split; [reflexivity|]. right. left. reflexivity. Qed.
