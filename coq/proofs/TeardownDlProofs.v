(* Teardown (C09): established association, a read deadline armed on a stream with nobody reading: the families
   of td_families_deadline pass every check; in particular the goroutine started by Stream.SetReadDeadline has
   ended in every finished state (fix 2bd54a4: unregisterStream closes readTimeoutCancel). *)
From Coq Require Import Bool List PArith NArith.
From Sctp Require Import Gen Teardown TeardownProofs.
Import ListNotations.

Lemma td_families_ok_deadline : forallb td_check_family td_families_deadline = true.
Proof. vm_cast_no_check (eq_refl true). Qed.

Definition td_sizes_deadline : list N := Eval vm_compute in map td_family_size td_families_deadline.

(* the goroutine exists in every reachable state of these families (it is armed or has ended) *)
Definition td_dl_present (s : td_state) : bool := match td_dl s with TdDlNone => false | _ => true end.

Lemma td_families_deadline_present :
  forallb (fun c => td_check_family_safe c td_dl_present) td_families_deadline = true.
Proof. vm_cast_no_check (eq_refl true). Qed.
