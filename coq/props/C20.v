(* C20 — concurrency (partial by design): the LOCK DISCIPLINE of package sctp.

   The program is coq/gen/LockGraph.v, regenerated from /repo on every run by /verif/go/locktranslator.
   c20_discipline_ok is a finite computation (vm_compute) over that program; the other theorems are
   instances of the soundness theorems of coq/proofs/LockProofs.v, which hold for every program, every
   interleaving and every blocking / scheduling policy of the abstract semantics (coq/model/LockSem.v).
   What the abstraction cannot say (Go memory model, channels' and sync.Cond's liveness, mutex
   instances) is listed in notes/C20.md. *)
From Coq Require Import List Arith Bool.
From Sctp Require Import LockLang LockSem LockCheck LockGraph LockWaivers LockProofs.
Import ListNotations.

(* the waiver lists c20_justified / c20_findings / c20_waivers are in coq/model/LockWaivers.v *)

(* The discipline holds on the current source, for both values of the BlockWrite flag:
   - the summary table computed from the roots (exported methods and functions, goroutine entries, timer
     callbacks, escaping closures; all entered with no lock held) is closed;
   - no acquisition of a mutex class already held (in any mode), no release of a mutex not held;
   - every acquisition is of a class ranked strictly above all classes held (the lock order is acyclic);
   - every function has one exit lock set per entry lock set, roots return holding nothing;
   - user code, net.Conn calls and blocking operations run with no lock held, except c20_waivers;
   - every written field of the tracked structs has a mutex held for writing at all its write sites;
   - every go statement targets a root. *)
Theorem c20_discipline_ok : discipline_ok_with c20_waivers [] c20_unguarded_reads program = true.
Proof. vm_cast_no_check (eq_refl true). Qed.  (* = vm_compute; reflexivity, evaluated once (by the kernel, at Qed) *)
Print Assumptions c20_discipline_ok.

(* the full statement ("callbacks run without internal locks held") fails on the current code *)
Theorem c20_full_discipline_refuted : discipline_ok_with c20_justified [] c20_unguarded_reads program = false.
Proof. vm_cast_no_check (eq_refl false). Qed.
Print Assumptions c20_full_discipline_refuted.

(* the only callbacks concerned are the scheduler's: the buffered-amount callback is never waived *)
Example c20_on_buffered_amount_low_not_waived :
  forallb (fun m => negb (waived c20_waivers KUser cb_Stream_onBufferedAmountLow m)) (seq 0 lg_nmutex) = true.
Proof. vm_compute. reflexivity. Qed.

(* (i) the lock sets: whenever a goroutine started on a root is about to execute a lock operation, it is
   legal for the set it holds (never a second acquisition, never a release of something not held), and
   the rule of the discipline for that atom holds *)
Theorem c20_locksets_sound : forall v, In v (all_valuations (lg_p_nflags program)) ->
  forall a h, about_to program v a h ->
    atom_ok a h = true /\
    lc_chk program c20_waivers [] c20_unguarded_reads (lcr_rank (lc_run program c20_waivers [] c20_unguarded_reads v))
           (lcr_guards (lc_run program c20_waivers [] c20_unguarded_reads v)) (lcr_atomics (lc_run program c20_waivers [] c20_unguarded_reads v)) a h = true.
Proof. exact (fun v => discipline_sound c20_waivers [] c20_unguarded_reads program v c20_discipline_ok). Qed.
Print Assumptions c20_locksets_sound.

(* a goroutine that runs its root to completion holds no lock *)
Theorem c20_roots_return_unlocked : forall v, In v (all_valuations (lg_p_nflags program)) ->
  forall r h, In r (lg_p_roots program) -> tsteps program v (tinit program r) ([], h) ->
  h = ls_empty (lg_p_nmutex program).
Proof. exact (fun v => discipline_sound_exit c20_waivers [] c20_unguarded_reads program v c20_discipline_ok). Qed.
Print Assumptions c20_roots_return_unlocked.

(* callbacks, net.Conn calls and blocking operations: any mutex held at that moment is one of the
   listed (kind, object, mutex) triples; in particular OnBufferedAmountLow handlers run with no sctp
   lock held (example above) *)
Theorem c20_callbacks_without_locks : forall v, In v (all_valuations (lg_p_nflags program)) ->
  forall k o h, needs_no_lock k = true -> about_to program v (AAct k o) h ->
  forall m, is_free (ls_get m h) = false -> waived c20_waivers k o m = true.
Proof. exact (fun v => discipline_user_code_unlocked c20_waivers [] c20_unguarded_reads program v c20_discipline_ok). Qed.
Print Assumptions c20_callbacks_without_locks.

(* non-atomic writes of tracked fields happen with the field's guard held for writing *)
Theorem c20_writes_guarded : forall v, In v (all_valuations (lg_p_nflags program)) ->
  forall o h, about_to program v (AAct KWrite o) h ->
  forall m rest, guard_of (lcr_guards (lc_run program c20_waivers [] c20_unguarded_reads v)) o = Some (m :: rest) ->
  is_write (ls_get m h) = true.
Proof. exact (fun v => discipline_writes_guarded c20_waivers [] c20_unguarded_reads program v c20_discipline_ok). Qed.
Print Assumptions c20_writes_guarded.

(* plain reads of guarded fields hold one of the field's guards (any mode), except the four fields of
   c20_unguarded_reads *)
Theorem c20_reads_guarded : forall v, In v (all_valuations (lg_p_nflags program)) ->
  forall o h, about_to program v (AAct KRead o) h ->
  forall m rest, guard_of (lcr_guards (lc_run program c20_waivers [] c20_unguarded_reads v)) o = Some (m :: rest) ->
  existsb (Nat.eqb o) c20_unguarded_reads = false ->
  exists m', In m' (m :: rest) /\ is_free (ls_get m' h) = false.
Proof. exact (fun v => discipline_reads_guarded c20_waivers [] c20_unguarded_reads program v c20_discipline_ok). Qed.
Print Assumptions c20_reads_guarded.

(* ... and every written field has such a guard (no field is written under inconsistent lock sets) *)
Example c20_every_written_field_has_a_guard :
  forallb (fun v => forallb (fun g => match snd g with [] => false | _ => true end)
                            (lcr_guards (lc_run program c20_waivers [] c20_unguarded_reads v)))
          (all_valuations (lg_p_nflags program)) = true.
Proof. vm_cast_no_check (eq_refl true). Qed.

(* (ii) acyclic_order_no_lock_deadlock: in no configuration reachable under any scheduling and blocking
   policy is there a non-empty set of goroutines each of which waits for a mutex held by (or, for a
   read lock, requested for writing by) a member of the set *)
Theorem c20_no_lock_deadlock : forall v, In v (all_valuations (lg_p_nflags program)) ->
  forall enabled c, greachable program v enabled c ->
  forall S, S <> [] -> incl S c ->
  ~ (forall t, In t S -> exists t', In t' S /\ waits_for t t').
Proof. exact (fun v => discipline_no_lock_deadlock c20_waivers [] c20_unguarded_reads program v c20_discipline_ok). Qed.
Print Assumptions c20_no_lock_deadlock.

(* the hypotheses are satisfiable: the valuations exist, roots exist, and a goroutine can run *)
Example c20_valuations : length (all_valuations (lg_p_nflags program)) = 2.
Proof. reflexivity. Qed.
Example c20_has_roots : negb (Nat.eqb (length (lg_p_roots program)) 0) = true.
Proof. reflexivity. Qed.
Example c20_a_goroutine_runs : forall v,
  tsteps program v (tinit program fn_Association_BytesSent)
         ([KStmt (lg_body program fn_Association_BytesSent)], ls_empty (lg_p_nmutex program)).
Proof. intro v. eapply tss_step. apply tss_refl. apply ts_call. Qed.

(* ---------------------------------------------------------------- the checker is not vacuous:
   toy programs (2 mutexes, function 0 is the root unless said otherwise) that it rejects, one per rule *)
Open Scope lg_scope.
Definition c20_toy (funs : list stmt) (roots : list nat) : lg_program :=
  {| lg_p_funs := funs; lg_p_roots := roots; lg_p_nmutex := 2; lg_p_nflags := 0 |}.

Example c20_toy_accepts_nested_locks :
  discipline_ok (c20_toy [lk 0 ;; SCall 1 ;; ul 0; lk 1 ;; act KWrite 0 ;; ul 1] [0]) = true.
Proof. vm_compute. reflexivity. Qed.
Example c20_toy_rejects_relock :
  discipline_ok (c20_toy [lk 0 ;; SCall 1 ;; ul 0; rlk 0 ;; rul 0] [0]) = false.
Proof. vm_compute. reflexivity. Qed.
Example c20_toy_rejects_unlock_of_unheld :
  discipline_ok (c20_toy [lk 0 ;; ul 0 ;; ul 0] [0]) = false.
Proof. vm_compute. reflexivity. Qed.
Example c20_toy_rejects_order_cycle :
  discipline_ok (c20_toy [lk 0 ;; lk 1 ;; ul 1 ;; ul 0; lk 1 ;; lk 0 ;; ul 0 ;; ul 1] [0; 1]) = false.
Proof. vm_compute. reflexivity. Qed.
Example c20_toy_rejects_callback_under_lock :
  discipline_ok (c20_toy [lk 0 ;; SCall 1 ;; ul 0; act KUser 0] [0]) = false.
Proof. vm_compute. reflexivity. Qed.
Example c20_toy_rejects_blocking_receive_under_lock :
  discipline_ok (c20_toy [rlk 0 ;; act KRecv 0 ;; rul 0] [0]) = false.
Proof. vm_compute. reflexivity. Qed.
Example c20_toy_rejects_return_with_lock_held :
  discipline_ok (c20_toy [SBlock (lk 0 ;; (SExit 0 [+] SSkip) ;; ul 0)] [0]) = false.
Proof. vm_compute. reflexivity. Qed.
Example c20_toy_rejects_lock_leaking_from_loop :
  discipline_ok (c20_toy [SLoop (lk 0)] [0]) = false.
Proof. vm_compute. reflexivity. Qed.
Example c20_toy_rejects_inconsistent_guard :
  discipline_ok (c20_toy [lk 0 ;; act KWrite 0 ;; ul 0; lk 1 ;; act KWrite 0 ;; ul 1] [0; 1]) = false.
Proof. vm_compute. reflexivity. Qed.
Example c20_toy_rejects_unlocked_write :
  discipline_ok (c20_toy [lk 0 ;; act KWrite 0 ;; ul 0 ;; act KWrite 0] [0]) = false.
Proof. vm_compute. reflexivity. Qed.
Example c20_toy_rejects_unlocked_read :
  discipline_ok (c20_toy [lk 0 ;; act KWrite 0 ;; ul 0 ;; act KRead 0] [0]) = false.
Proof. vm_compute. reflexivity. Qed.
Example c20_toy_accepts_read_under_read_lock :
  discipline_ok (c20_toy [lk 0 ;; act KWrite 0 ;; ul 0 ;; rlk 0 ;; act KRead 0 ;; rul 0] [0]) = true.
Proof. vm_compute. reflexivity. Qed.
Example c20_toy_rejects_plain_write_of_atomic_field :
  discipline_ok (c20_toy [lk 0 ;; act KWrite 0 ;; ul 0 ;; act KAtomic 0] [0]) = false.
Proof. vm_compute. reflexivity. Qed.
Example c20_toy_rejects_go_of_non_root :
  discipline_ok (c20_toy [act KGo 1; lk 0 ;; ul 0] [0]) = false.
Proof. vm_compute. reflexivity. Qed.
