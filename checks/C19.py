"""C19 — timer laws (RTO bounds and back-off, retry limits, Karn's rule, delayed ack, on-demand heartbeat)."""
import os, re, subprocess, sys, time
import vlib

PROP = "C19"
PROPS_FILE = "props/C19.v"
COQ_FILES = ["gen/Gen.v", "model/RPQ.v", "model/Rto.v", "model/TimerFsm.v", "proofs/RtoProofs.v", "proofs/TimerProofs.v", "props/C19.v"]

# Exact names printed by `Print Assumptions` for the float theorems of props/C19.v (see notes/C19.md).
# The integer-only theorems (timer FSM, Karn, ack decision) are closed under the global context.
ALLOWED_AXIOMS = (
    # primitive floats of the Coq standard library: the type, the operations used by the model (and by Prim2SF /
    # SF2Prim), and their specification axioms (FloatAxioms)
    "float", "abs", "add", "sub", "mul", "div", "opp", "eqb", "ltb", "leb", "of_uint63",
    "normfr_mantissa", "frshiftexp", "ldshiftexp",
    "abs_spec", "add_spec", "sub_spec", "mul_spec", "div_spec", "eqb_spec", "ltb_spec", "leb_spec",
    "Prim2SF_valid", "SF2Prim_Prim2SF", "Prim2SF_SF2Prim",
    # primitive 63-bit integers used inside Prim2SF / SF2Prim / of_uint63
    "PrimInt63.int", "PrimInt63.eqb", "PrimInt63.land", "PrimInt63.lor", "PrimInt63.lsl", "PrimInt63.lsr", "PrimInt63.sub",
    # Reals / classical logic, reached through Flocq 4.1 (IEEE754.BinarySingleNaN, IEEE754.PrimFloat)
    "ClassicalDedekindReals.sig_forall_dec", "ClassicalDedekindReals.sig_not_dec", "Classical_Prop.classic",
    "FunctionalExtensionality.functional_extensionality_dep",
)

TRUSTED_BASE = [
    "Coq 8.16.1 kernel; vm_compute (bytecode VM) in Examples, in finite case splits closed by forallb, and in the "
    "float differential runner; no native_compute",
    "float theorems without Reals (c19_rto_clamp_range, c19_rto_clamp_nan, c19_backoff_law): primitive floats of the Coq "
    "standard library: float, abs, add, div, mul, opp, eqb, ltb, leb, of_uint63, normfr_mantissa, frshiftexp, ldshiftexp; "
    "PrimInt63.int/eqb/land/lor/lsl/lsr/sub (used by Prim2SF, SF2Prim); FloatAxioms eqb_spec, ltb_spec, leb_spec, SF2Prim_Prim2SF",
    "float theorems through Flocq 4.1 (c19_rto_bounds, c19_rto_small_max, c19_rto_smoothing_never_nan, c19_backoff_le_max, "
    "c19_backoff_bounds, c19_backoff_pow2_exact, c19_backoff_doubling, c19_backoff_monotone): additionally sub, FloatAxioms abs_spec, add_spec, sub_spec, mul_spec, div_spec, Prim2SF_valid, "
    "Prim2SF_SF2Prim, and from Reals: ClassicalDedekindReals.sig_forall_dec, ClassicalDedekindReals.sig_not_dec, "
    "Classical_Prop.classic, FunctionalExtensionality.functional_extensionality_dep",
    "integer theorems (timer FSM, retry bound, Karn, ack decision): no axioms",
    "hand-written models coq/model/Rto.v (rtoManager, calculateNextTimeout, math.Max/Min as in $GOROOT/src/math/dim.go) and "
    "coq/model/TimerFsm.v (rtxTimer, ackTimer with the pending counter and in-flight callbacks; ack decision incl. the "
    "duplicate branch of handleData on the receive-queue model coq/model/RPQ.v; Karn's rule)",
    "float path: the model is evaluated inside Coq (coqc + vm_compute) on the bit patterns written by the Go harness; "
    "Python glue in checks/C19.py turns trace lines into a Coq list literal",
    "integer path: extraction (ExtrOcamlBasic only) + /verif/ocaml/cmp_timers.ml; Go harness zz_verif_timers_test.go "
    "(overlay), testing/synctest of go1.26.8 as the virtual clock",
    "modelled, not verified: the Go runtime timer (time.AfterFunc/Reset/Stop contract: Stop reports whether it prevented "
    "the callback), goroutine scheduling of timer callbacks (any order of mutex acquisition is allowed by the model), "
    "the float64 -> time.Duration conversion in rtxTimer.calculateNextTimeout (truncation; exact in the differential "
    "because integer millisecond values are used there), amd64 without FMA contraction (GOAMD64=v1)",
]
ASSUMPTIONS = [
    "rto_bounds needs every round-trip sample to be finite, non-negative and not NaN (what time.Duration.Seconds()*1000 "
    "produces); for +Inf samples the second sample makes rto NaN (Example c19_rto_nan_from_two_infinite_samples)",
    "rtoMax is not NaN; for rtoMax < rtoMin the clamp returns rtoMax (theorem c19_rto_small_max), i.e. the one-second "
    "minimum is given up in favour of the configured maximum",
    "timer theorems assume fewer than 255 expired callbacks are waiting for the timer mutex at any time (pending is a uint8; "
    "Example c19_pending_wrap_refuted shows the statement fails at 256)",
    "retry bound: 0 < maxRetrans < 2^64-1 (nRtos is a uint and wraps)",
]


# ------------------------------------------------------------------------------------------------
# float path: trace -> cases.v shards -> coqc (vm_compute) -> `M = []`

def _zs(toks):
    return "[" + "; ".join(toks) + "]"


def _op_of_line(toks):
    """One trace line -> Coq constructor application (all numbers are Z literals)."""
    k = toks[0]
    if k == "consts" and len(toks) == 6:
        return "RConsts " + _zs(toks[1:])
    if k == "new" and len(toks) == 7:
        return "RNew %s %s" % (toks[1], _zs(toks[2:]))
    if k == "rtt" and len(toks) == 8:
        return "RRtt %s %s %s" % (toks[1], toks[2], _zs(toks[3:]))
    if k == "reset" and len(toks) == 6:
        return "RReset " + _zs(toks[1:])
    if k == "set" and len(toks) == 8:
        return "RSet %s %s %s" % (toks[1], "true" if toks[2] == "1" else "false", _zs(toks[3:]))
    if k == "get" and len(toks) == 2:
        return "RGet " + toks[1]
    if k == "nto" and len(toks) == 5:
        return "RNto %s %s %s %s" % tuple(toks[1:])
    if k in ("max", "min") and len(toks) == 4:
        return "R%s %s %s %s" % (k.capitalize(), toks[1], toks[2], toks[3])
    return None


def parse_rto_trace(path):
    """-> list of (case name, [raw line], [coq op])."""
    cases = []
    for line in open(path):
        toks = line.split()
        if not toks:
            continue
        if toks[0] == "case":
            cases.append((toks[1], [], []))
            continue
        if not all(re.fullmatch(r"\d+", t) for t in toks[1:]):
            raise ValueError("non-numeric token in trace line: " + line.strip())
        op = _op_of_line(toks)
        if op is None or not cases:
            raise ValueError("unparsed trace line: " + line.strip())
        cases[-1][1].append(line.strip())
        cases[-1][2].append(op)
    return cases


def run_float_cases(cases, workdir, shards=16, timeout=900):
    """Evaluate the model inside Coq on all cases.  Returns dict(ok, records, mismatches=[(case, line)], log)."""
    os.makedirs(workdir, exist_ok=True)
    shards = max(1, min(shards, len(cases)))
    procs = []
    for k in range(shards):
        mine = [(i, c) for i, c in enumerate(cases) if i % shards == k]
        body = ";\n".join("  (%d, [%s])" % (i, "; ".join(c[2])) for i, c in mine)
        src = ("From Coq Require Import ZArith List Floats.\nFrom Sctp Require Import Rto.\nImport ListNotations.\n"
               "Open Scope Z_scope.\nDefinition cases : list (Z * list rto_op) := [\n%s\n].\n"
               "Definition M := Eval vm_compute in rto_mismatches cases.\n"
               "Definition N := Eval vm_compute in rto_count cases.\nPrint M.\nPrint N.\n" % body)
        d = os.path.join(workdir, "shard%d" % k)
        os.makedirs(d, exist_ok=True)
        with open(os.path.join(d, "cases.v"), "w") as f:
            f.write(src)
        procs.append(subprocess.Popen(
            ["timeout", str(timeout), "coqc", "-Q", os.path.join(vlib.COQ, "gen"), "Sctp", "-Q", os.path.join(vlib.COQ, "model"), "Sctp", "cases.v"],
            cwd=d, stdout=subprocess.PIPE, stderr=subprocess.STDOUT, text=True, errors="replace"))
    ok, records, mism, log = True, 0, [], ""
    for k, p in enumerate(procs):
        out, _ = p.communicate()
        out1 = " ".join(out.split())
        mN = re.search(r"N = (\d+) : Z", out1)
        mM = re.search(r"M = (\[.*?\]) : list \(Z \* Z\)", out1)
        if p.returncode != 0 or not mN or not mM:
            ok = False
            log += "shard %d: coqc rc=%s\n%s\n" % (k, p.returncode, out[-1500:])
            continue
        records += int(mN.group(1))
        if mM.group(1).replace(" ", "") != "[]":
            ok = False
            for ci, ri in re.findall(r"\((\d+), (\d+)\)", mM.group(1)):
                ci, ri = int(ci), int(ri)
                mism.append((cases[ci][0], cases[ci][1][ri] if ri < len(cases[ci][1]) else "?"))
    return dict(ok=ok and records == sum(len(c[2]) for c in cases), records=records, mismatches=mism, log=log)


def float_differential(ctx, name, test, env):
    trace = os.path.join(ctx.tmp, name + ".trace")
    e = dict(env)
    e.update(VERIF_OUT=trace, VERIF_SEED=ctx.seed)
    t0 = time.time()
    r = vlib.run_harness(test, e)
    gen = [l for l in r["out"].splitlines() if l.startswith("RTOGEN")]
    if r["rc"] != 0 or not os.path.exists(trace):
        ctx.broken.append(("correspondence", name, "harness run failed (rc=%s): %s" % (r["rc"], r["out"][-1500:])))
        ctx.corr.append(dict(name=name, ok=False, records=0, detail="harness run failed"))
        return
    try:
        cases = parse_rto_trace(trace)
        res = run_float_cases(cases, os.path.join(ctx.tmp, name + "-coq"))
    except Exception as ex:  # malformed trace = broken correspondence
        ctx.broken.append(("correspondence", name, "trace not understood: %s" % ex))
        ctx.corr.append(dict(name=name, ok=False, records=0, detail=str(ex)))
        return
    ctx.corr.append(dict(name=name, ok=res["ok"], records=res["records"], cases=len(cases), mismatches=len(res["mismatches"]),
                         evaluated="inside Coq: Eval vm_compute in rto_mismatches cases (primitive floats), result = []",
                         generator=gen[-1] if gen else "", wall_s=round(time.time() - t0, 2), env=e))
    if not res["ok"]:
        detail = "\n".join("FLOATMISMATCH case=%s record=[%s]" % m for m in res["mismatches"][:5]) or res["log"][-1500:]
        ctx.broken.append(("correspondence", name, detail))
    ctx.samples.append({"trace": name, "first_lines": [l for c in cases[:3] for l in c[1][:4]]})


# ------------------------------------------------------------------------------------------------

def classify_monitor(line):
    m = re.search(r"\bkey=([A-Za-z0-9_-]+)", line)
    return m.group(1) if m else "timers-other"


def correspondence(ctx):
    float_differential(ctx, "rto-float-differential", "TestVerifTimersRto",
                       {"VERIF_N": ctx.scale(300, 6000), "VERIF_OPS": 24})
    vlib.differential(ctx, "timer-fsm-differential", "TestVerifTimersFsm", "timers",
                      {"VERIF_N": ctx.scale(400, 8000), "VERIF_LEN": ctx.scale(5, 6)})
    vlib.differential(ctx, "ack-karn-differential", "TestVerifTimersAckFsm", "timers",
                      {"VERIF_N": ctx.scale(300, 6000)})
    vlib.monitor(ctx, "timers-monitor", "TestVerifTimersMonitor", {"VERIF_N": ctx.scale(20, 400)},
                 fail_prefixes=("TIMERFAIL",), classify=classify_monitor, summary_prefix="TIMERMON")


def search(ctx):
    vlib.monitor(ctx, "timers-monitor-wide", "TestVerifTimersMonitor", {"VERIF_N": 400, "VERIF_SEED": ctx.seed + 19},
                 fail_prefixes=("TIMERFAIL",), classify=classify_monitor, summary_prefix="TIMERMON")


LEVEL_TEXT = ("Coq theorems: (floats, IEEE binary64 = Go float64) after every setNewRTT with a finite non-negative sample, for all "
              "sample sequences and all non-NaN rtoMax, rtoMin <= rto <= rtoMax when rtoMax >= rtoMin and rto = rtoMax otherwise; "
              "calculateNextTimeout = min(rto*2^n, rtoMax), in [rtoMin, rtoMax], monotone in n, doubling law (multiplication by 2^n exact); (integers) timer state "
              "machines with the pending counter and in-flight callbacks for all start/stop/close/fire/run interleavings: no stale "
              "or early expiry, retry bound N+1 for maxRetrans=N>0 and no give-up for 0, ack timer fires once 200 ms after start; "
              "Karn's rule and the ack decision as step functions, duplicate DATA => recorded in the SACK's duplicate list and acknowledged at once. Model tied to the code by a bit-exact float differential "
              "evaluated inside Coq and by a timer/ack differential under testing/synctest.")
LEVEL_NOTE = ("Trusted: Coq kernel + primitive floats and their axiomatised specification, Flocq, hand-written models, Go runtime timer "
              "contract, harness. Not proved: float64->Duration truncation, FMA-contracting architectures. History: "
              "D15 (duplicate DATA delayed and never listed) and D2/D3 (on-demand heartbeat) were found by the monitors of this check "
              "and repaired in /repo (19816ad, 46c3107, c4c4893); model and theorems follow the repaired code, the monitors pass.")
TECHNIQUE = "Coq proof (primitive floats via SpecFloat/Flocq; state-machine invariants) + differential correspondence + monitors"


if __name__ == "__main__":
    # private try-out: python3 checks/C19.py <rto trace> <workdir>
    cs = parse_rto_trace(sys.argv[1])
    t0 = time.time()
    res = run_float_cases(cs, sys.argv[2])
    print("cases=%d %s wall=%.1fs" % (len(cs), {k: v for k, v in res.items() if k != "log"}, time.time() - t0))
    print(res["log"])
