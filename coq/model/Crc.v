(* Executable model of the checksum handling of pion/sctp (property C13).
   No proofs in this file.

   Sources modelled:
     packet.go       generatePacketChecksum, the checksum gate at the head of packet.unmarshal,
                     the checksum store at the end of packet.marshal
     association.go  chunkMandatoryChecksum, marshalPacket, unmarshalPacket, handleInbound (the
                     "unmarshal failed -> drop" branch), setSendZeroChecksum / the parameter loops of
                     handleInit and handleInitAck, recvZeroChecksum := Config.EnableZeroChecksum,
                     the ZeroChecksumAcceptable parameter put into INIT / INIT-ACK.
     hash/crc32      Castagnoli, as the reflected bit-at-a-time shift register (no table).

   Bytes are Z in 0..255 in [list Z].  Nothing here knows the chunk codec: only the 12-byte common
   header, the checksum field raw[8..11] (little-endian in this implementation:
   binary.LittleEndian.Uint32(raw[8:]) / PutUint32), the type byte of the first chunk raw[12] and the
   raw byte string are used.  Packets are represented on the sending side by the bytes produced by
   marshal before the checksum store plus the list of chunk type codes of p.chunks. *)
From Coq Require Import ZArith Bool List.
From Sctp Require Import Gen.
Import ListNotations.
Open Scope Z_scope.

(* ------------------------------------------------------------------ CRC32c *)

Definition crc_poly : Z := 2197175160.   (* 0x82F63B78 = crc32.Castagnoli (reflected form) *)
Definition crc_mask : Z := 4294967295.   (* 0xFFFFFFFF *)

(* one shift of the reflected register *)
Definition crc_step (r : Z) : Z :=
  if Z.odd r then Z.lxor (Z.div2 r) crc_poly else Z.div2 r.

Fixpoint crc_steps (n : nat) (r : Z) : Z :=
  match n with
  | O => r
  | S k => crc_steps k (crc_step r)
  end.

(* crc = tab[byte(crc) ^ b] ^ (crc >> 8), table-free: xor the byte into the low end, shift 8 times *)
Definition crc_byte (r b : Z) : Z := crc_steps 8 (Z.lxor r b).

Fixpoint crc_update (r : Z) (bs : list Z) : Z :=
  match bs with
  | [] => r
  | b :: t => crc_update (crc_byte r b) t
  end.

(* crc32.Update(crc, castagnoliTable, p) = ^update(^crc, p) on uint32 *)
Definition crc_go_update (crc : Z) (p : list Z) : Z :=
  Z.lxor (crc_update (Z.lxor crc crc_mask) p) crc_mask.

(* crc32.Checksum(p, castagnoliTable) *)
Definition crc32c (bs : list Z) : Z := crc_go_update 0 bs.

(* ------------------------------------------------------------------ packet view *)

Definition crc_len (raw : list Z) : Z := Z.of_nat (length raw).
(* raw[i]; every use below is behind the same length test as in the Go code *)
Definition crc_at (raw : list Z) (i : nat) : Z := nth i raw 0.

(* binary.LittleEndian.Uint32(raw[8:]) *)
Definition crc_field (raw : list Z) : Z :=
  crc_at raw 8 + 256 * crc_at raw 9 + 65536 * crc_at raw 10 + 16777216 * crc_at raw 11.

Definition crc_zero_field (raw : list Z) : list Z :=
  firstn 8 raw ++ [0; 0; 0; 0] ++ skipn 12 raw.

(* generatePacketChecksum: three chained crc32.Update calls over raw[0:8], fourZeroes, raw[12:] *)
Definition crc_packet_checksum (raw : list Z) : Z :=
  let s1 := crc_go_update 0 (firstn 8 raw) in
  let s2 := crc_go_update s1 [0; 0; 0; 0] in
  crc_go_update s2 (skipn 12 raw).

(* ------------------------------------------------------------------ receiving side *)

Inductive crc_verdict := CrcShort | CrcMismatch | CrcPass.

Definition crc_mandatory_type (t : Z) : bool := (t =? c_ctInit) || (t =? c_ctCookieEcho).

(* "if offset+chunkHeaderSize <= len(raw) { switch chunkType(raw[offset]) { case ctInit, ctCookieEcho" *)
Definition crc_starts_mandatory (raw : list Z) : bool :=
  (c_packetHeaderSize + c_chunkHeaderSize <=? crc_len raw) &&
  crc_mandatory_type (crc_at raw (Z.to_nat c_packetHeaderSize)).

(* head of packet.unmarshal(doChecksum, raw), up to and including the checksum comparison *)
Definition crc_gate (do_checksum : bool) (raw : list Z) : crc_verdict :=
  if crc_len raw <? c_packetHeaderSize then CrcShort
  else
    let dc := do_checksum || crc_starts_mandatory raw in
    let theirs := crc_field raw in
    if negb (theirs =? 0) || dc then
      if theirs =? crc_packet_checksum raw then CrcPass else CrcMismatch
    else CrcPass.

(* the chunk loop that follows needs a whole chunk header as soon as one byte follows the common
   header ("if len(remaining) < chunkHeaderSize { return ErrParseSCTPChunkNotEnoughData }") *)
Definition crc_chunk_hdr_ok (raw : list Z) : bool :=
  (crc_len raw =? c_packetHeaderSize) || (c_packetHeaderSize + c_chunkHeaderSize <=? crc_len raw).

(* Association.unmarshalPacket passes doChecksum = !a.recvZeroChecksum.  [crc_accept] is the part of
   "unmarshalPacket returns no error" that this component decides; the chunk codec can only reject more. *)
Definition crc_accept (recv_zero : bool) (raw : list Z) : bool :=
  match crc_gate (negb recv_zero) raw with
  | CrcPass => crc_chunk_hdr_ok raw
  | _ => false
  end.

(* handleInbound: "pkt, err := a.unmarshalPacket(raw); if err != nil { log; return nil }".
   [rest] stands for everything that happens to an accepted packet (checkPacket, handleChunk...). *)
Definition crc_handle_inbound {S O : Type} (rest : S -> list Z -> S * list O)
           (recv_zero : bool) (s : S) (raw : list Z) : S * list O :=
  if crc_accept recv_zero raw then rest s raw else (s, []).

(* ------------------------------------------------------------------ sending side *)

(* chunkMandatoryChecksum(p.chunks): any chunk of Go type *chunkInit or *chunkCookieEcho; chunks are
   represented by their type codes *)
Definition crc_chunk_mandatory (types : list Z) : bool := existsb crc_mandatory_type types.

(* marshalPacket: p.marshal(!a.sendZeroChecksum || chunkMandatoryChecksum(p.chunks)) *)
Definition crc_do_checksum (send_zero : bool) (types : list Z) : bool :=
  negb send_zero || crc_chunk_mandatory types.

(* binary.LittleEndian.PutUint32(raw[8:], v) *)
Definition crc_le_bytes (v : Z) : list Z :=
  [v mod 256; (v / 256) mod 256; (v / 65536) mod 256; (v / 16777216) mod 256].
Definition crc_put_field (raw : list Z) (v : Z) : list Z :=
  firstn 8 raw ++ crc_le_bytes v ++ skipn 12 raw.

(* raw0 = the bytes built by marshal before "if doChecksum" (checksum field still zero) *)
Definition crc_emit (send_zero : bool) (types : list Z) (raw0 : list Z) : list Z :=
  if crc_do_checksum send_zero types then crc_put_field raw0 (crc_packet_checksum raw0) else raw0.

Definition crc_emit_checksum (send_zero : bool) (types : list Z) (raw0 : list Z) : Z :=
  crc_field (crc_emit send_zero types raw0).

(* the only fact about the chunk codec used by the theorems (checked on every real packet by the
   correspondence): the bytes start with the type code of the first chunk, and a packet with at least
   one chunk is at least a chunk header longer than the common header *)
Definition crc_types_consistent (types : list Z) (raw0 : list Z) : bool :=
  match types with
  | [] => crc_len raw0 =? c_packetHeaderSize
  | t :: _ => (c_packetHeaderSize + c_chunkHeaderSize <=? crc_len raw0) &&
              (crc_at raw0 (Z.to_nat c_packetHeaderSize) =? t)
  end.

(* ------------------------------------------------------------------ negotiation *)

(* parameters of a received INIT / INIT-ACK as far as this component looks at them *)
Inductive crc_param := CrcZCA (edmid : Z) | CrcOtherParam (typ : Z).

(* setSendZeroChecksum and the loops in handleInit / handleInitAck: every ZeroChecksumAcceptable
   parameter overwrites the flag (the last one wins); the flag is not reset when none is present *)
Definition crc_send_zero_after (prev : bool) (ps : list crc_param) : bool :=
  fold_left (fun acc p => match p with
                          | CrcZCA e => e =? c_dtlsErrorDetectionMethod
                          | CrcOtherParam _ => acc
                          end) ps prev.

Record crc_ep := mkCrcEp { ep_recv_zero : bool; ep_send_zero : bool }.

(* createAssociationFromConfigWithTsn: recvZeroChecksum: cfg.EnableZeroChecksum, sendZeroChecksum: false *)
Definition crc_ep_new (enable_zero_checksum : bool) : crc_ep := mkCrcEp enable_zero_checksum false.

(* reception of the peer's INIT or INIT-ACK (or the remote out-of-band INIT) *)
Definition crc_ep_on_peer_params (ep : crc_ep) (ps : list crc_param) : crc_ep :=
  mkCrcEp (ep_recv_zero ep) (crc_send_zero_after (ep_send_zero ep) ps).

Definition crc_ep_run (ep : crc_ep) (h : list (list crc_param)) : crc_ep :=
  fold_left crc_ep_on_peer_params h ep.

(* initClient / handleInit: "if a.recvZeroChecksum { params = append(params, &paramZeroChecksumAcceptable{edmid: dtls}) }" *)
Definition crc_ep_advert (ep : crc_ep) : list crc_param :=
  if ep_recv_zero ep then [CrcZCA c_dtlsErrorDetectionMethod] else [].

Definition crc_is_zca (p : crc_param) : bool :=
  match p with CrcZCA _ => true | CrcOtherParam _ => false end.
Definition crc_zca_of (ps : list crc_param) : list crc_param := filter crc_is_zca ps.

(* ------------------------------------------------------------------ vocabulary of the theorems *)

Definition crc_is_byte (b : Z) : bool := (0 <=? b) && (b <? 256).
Definition crc_bytes_ok (l : list Z) : bool := forallb crc_is_byte l.

(* bytewise xor of a packet with an error pattern *)
Fixpoint crc_xor (a e : list Z) : list Z :=
  match a, e with
  | x :: a', y :: e' => Z.lxor x y :: crc_xor a' e'
  | _, _ => []
  end.

(* the byte string as one number, first byte least significant (the order in which the reflected
   register consumes bits: bit 0 of byte 0 first) *)
Fixpoint crc_le (bs : list Z) : Z :=
  match bs with
  | [] => 0
  | b :: t => b + 256 * crc_le t
  end.
