#!/usr/bin/env python3
"""Regenerate MANIFEST.json from the check modules under checks/ (run after adding a property)."""
import importlib, json, os, sys
VERIF = os.path.dirname(os.path.dirname(os.path.abspath(__file__)))
sys.path.insert(0, os.path.join(VERIF, "lib")); sys.path.insert(0, os.path.join(VERIF, "checks"))
props = [json.loads(l)["id"] for l in open(os.path.join(VERIF, "properties.jsonl"))]
checks, na = [], []
claimed = set(open(os.path.join(VERIF, "claimed.txt")).read().split())
for p in props:
    if p not in claimed or not os.path.exists(os.path.join(VERIF, "checks", p + ".py")):
        na.append({"property_id": p, "reason": "check not built yet in this development (planned, see DESIGN.md section 5); not claimed"})
        continue
    m = importlib.import_module(p)
    checks.append({
        "property_id": p,
        "quick_cmd": "./check %s --tier quick" % p,
        "thorough_cmd": "./check %s --tier thorough" % p,
        "evidence_file": "/verif/evidence/%s.json" % p,
        "replay_cmd_template": "./check replay {path}",
        "engine": "coq-model+correspondence",
        "level_claimed": {"category": "proof", "text": m.LEVEL_TEXT, "design_ref": "DESIGN.md section 5, " + p},
        "level_note": m.LEVEL_NOTE,
        "technique": m.TECHNIQUE,
    })
man = {
    "version": 1,
    "setup_cmd": "./check setup",
    "hooks": {
        "guard": "verif-overlay",
        "enable": "go1.26.8 test -overlay /verif/.build/overlay.json (adds /verif/go/inpkg/zz_verif_*_test.go to package sctp; no file in /repo is modified, no build tag needed)",
        "baseline_off_cmd": "cd /repo && GOFLAGS=-mod=mod go test -vet=off -count=1 -timeout 25m ./...",
        "source_commits": [],
        "add_only": True,
    },
    "engines": [{"name": "coq-model+correspondence", "path": "/verif/check",
                 "serves_properties": [c["property_id"] for c in checks],
                 "kind_free_text": "Coq 8.16.1 theorems about an executable Gallina model (coq/model, coq/proofs, coq/props) tied to /repo by (a) a Go->Coq translator re-run on every check (coq/gen/Gen.v) and (b) differential correspondence checks: the Go implementation (white-box harness injected with -overlay) and the OCaml-extracted model run on the same operation sequences; property monitors on the implementation provide the failing-input search"}],
    "checks": checks,
    "not_applicable": na,
    "notes": "fix: commits in /repo are listed in known_findings.json (status fixed). Proof level: theorems are about the model; the tie to the code is checked on every run (translator + correspondence).",
}
json.dump(man, open(os.path.join(VERIF, "MANIFEST.json"), "w"), indent=1)
print("checks:", [c["property_id"] for c in checks], "not claimed:", [n["property_id"] for n in na])
