(* C09 teardown: the outcome of every blocked caller observed at a crash point of the implementation must be
   the outcome of that caller in some final state (no step enabled) of the model family
   (phase at the injection, injection kind, caller kind).  The final states are computed here by the
   extracted worklist (Model.td_final_outcomes); Coq proves that they cover every reachable maximal run end
   (td_outcomes_complete) and that in all families without T1 exhaustion no caller is still waiting in them.

   trace:  case <n>
           cp <scenario> <k> <injection> <side>
           out <inj|peer> <hs|est|sd> <close|abort|rfail|wfail|peerabort> <caller kind> <outcome> <abort cause or -1>
               <shutdownCompleted of that side for a Shutdown caller, else -1> *)
module M = Model
open Zio

let phase_of = function
  | "hs" -> M.TdPhHs | "est" -> M.TdPhEst | "sd" -> M.TdPhSd | s -> failwith ("phase " ^ s)
let inj_of = function
  | "close" -> M.TdInjClose | "abort" -> M.TdInjAbort | "rfail" -> M.TdInjRfail | "wfail" -> M.TdInjWfail
  | "peerabort" -> M.TdInjPeerAbort | s -> failwith ("injection " ^ s)
let mix_of = function
  | "connect" -> M.TdMixNone | "reader" -> M.TdMixReader | "writer" -> M.TdMixWriter
  | "acceptor" -> M.TdMixAcceptor | "shutdown" -> M.TdMixShutdown | "deadline" -> M.TdMixDeadline
  | s -> failwith ("caller " ^ s)

let memo : (string, M.td_outcome list) Hashtbl.t = Hashtbl.create 64
let finals phase inj kind t1 =
  let key = String.concat "/" [phase; inj; kind; sbool t1] in
  match Hashtbl.find_opt memo key with
  | Some l -> l
  | None ->
    let c = { M.td_c_phase = phase_of phase; M.td_c_inj = inj_of inj; M.td_c_mix = mix_of kind;
              M.td_c_t1fail = t1; M.td_c_close2 = false } in
    let l = M.td_final_outcomes c in
    Hashtbl.replace memo key l; l

(* does the model's final outcome o show the caller `kind` with the implementation's result `out`? *)
let matches kind out cause sdcf (o : M.td_outcome) : bool =
  let (((((((pab, cw), rd), wr), ac), sh), sdc), dl) = o in
  let cause_ok = match cause with
    | 0 -> pab = M.TdCeAbort0 | 1 -> pab = M.TdCeAbort1 | _ -> true in
  let sdc_ok = match sdcf with 0 -> not sdc | 1 -> sdc | _ -> true in
  cause_ok && sdc_ok &&
  (match kind, out with
   | "connect", "ok" -> cw = M.TdCwOk
   | "connect", "closed" -> cw = M.TdCwClosed
   | "connect", "hserr" -> cw = M.TdCwHsErr
   | "connect", "blocked" -> cw = M.TdCwWait
   | "reader", "readerr" -> rd = M.TdRdRetRead
   | "reader", "abort0" -> rd = M.TdRdRetAb0
   | "reader", "abort1" -> rd = M.TdRdRetAb1
   | "reader", "data" -> rd = M.TdRdRetData
   | "reader", "blocked" -> rd = M.TdRdParked
   | "writer", "err" -> wr = M.TdWrErr
   | "writer", "nil" -> wr = M.TdWrOk
   | "writer", "blocked" -> wr = M.TdWrBlocked
   | "acceptor", "eof" -> ac = M.TdAcEof
   | "acceptor", "stream" -> ac = M.TdAcStream
   | "acceptor", "blocked" -> ac = M.TdAcWait
   | "deadline", "ended" -> dl = M.TdDlDone      (* the goroutine of an armed read deadline with no reader *)
   | "deadline", "alive" -> dl = M.TdDlArmed
   | "shutdown", "nil" -> sh = M.TdShNil
   | "shutdown", "err" -> sh = M.TdShErr          (* ErrShutdownIncomplete *)
   | "shutdown", "blocked" -> sh = M.TdShWait || sh = M.TdShWoken
   | _, _ -> false)

let dist = Hashtbl.create 64
let bump k = Hashtbl.replace dist k (1 + try Hashtbl.find dist k with Not_found -> 0)

let run path =
  let cases = read_cases path in
  let ncases = ref 0 in
  List.iter (fun (name, lines) ->
    incr ncases;
    let scen = match List.find_opt (fun l -> List.hd l = "cp") lines with
      | Some (_ :: s :: _) -> s | _ -> "?" in
    (* the scenario in which T1 gave up is compared with the families in which it may (the connect call gets
       the handshake error and closes the association) *)
    let t1 = (scen = "t1-exhausted") in
    List.iteri (fun i l ->
      match l with
      | ["out"; role; phase; inj; kind; out; cause; sdcf] ->
        incr records;
        (try
           let phase = if t1 && role = "inj" then "hs" else phase in
           let t1here = t1 && role = "inj" in
           let fs = finals phase inj kind t1here in
           bump (Printf.sprintf "%s/%s/%s=%s" phase inj kind out);
           if not (List.exists (matches kind out (int_of_string cause) (int_of_string sdcf)) fs) then
             report name i (Printf.sprintf "scenario=%s %s-side phase=%s injection=%s caller=%s cause=%s: outcome not among the model's %d final states"
                              scen role phase inj kind cause (List.length fs))
               "-" out
         with Failure m -> report name i ("unparsable record: " ^ m) "-" (String.concat " " l))
      | _ -> ()) lines) cases;
  let keys = List.sort compare (Hashtbl.fold (fun k v acc -> (k, v) :: acc) dist []) in
  let d = String.concat "," (List.map (fun (k, v) -> Printf.sprintf "%s:%d" k v) keys) in
  Printf.printf "SUMMARY component=teardown cases=%d records=%d mismatches=%d families=%d dist=%s\n"
    !ncases !records !mismatches (Hashtbl.length memo) d
