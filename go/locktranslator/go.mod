module verif/locktranslator

go 1.23
