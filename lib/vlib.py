"""Shared machinery for the /verif checks: regenerate + build the Coq development, build the Go
harness against /repo's working tree (overlay, no file in /repo is touched), run the comparator,
decide the verdict, write evidence."""
import fcntl, glob, hashlib, json, os, re, shutil, subprocess, sys, time

VERIF = os.path.dirname(os.path.dirname(os.path.abspath(__file__)))
REPO = os.environ.get("VERIF_REPO", "/repo")
BUILD = os.path.join(VERIF, ".build")
COQ = os.path.join(VERIF, "coq")
GOENV = dict(os.environ, GOFLAGS="-mod=mod", GOPROXY="off", GOSUMDB="off", GOTOOLCHAIN="local",
             CGO_ENABLED="0")
GO = "go1.26.8"

FORBIDDEN = re.compile(r"\b(Admitted|admit|Axiom|Axioms|Parameter|Parameters|Conjecture|Hypothesis|Variable|Abort All)\b|Unset Guard|bypass_check|type-in-type|impredicative-set|Admit Obligations|Unset Universe Checking|Unset Positivity")

ALLOWED_AXIOM_PREFIXES = (
    # standard-library axioms that may appear (named in the trusted base of the property that uses them)
    "Coq.Logic.FunctionalExtensionality.functional_extensionality_dep",
    "functional_extensionality_dep",
    "FloatAxioms.", "PrimFloat.", "Uint63.", "Coq.Floats.", "Coq.Numbers.Cyclic.Int63.",
)


def sh(cmd, cwd=None, env=None, timeout=1800, shell=False):
    t0 = time.time()
    try:
        p = subprocess.run(cmd, cwd=cwd, env=env, shell=shell, timeout=timeout,
                           stdout=subprocess.PIPE, stderr=subprocess.STDOUT, text=True, errors="replace")
        return p.returncode, p.stdout, time.time() - t0
    except subprocess.TimeoutExpired as e:
        out = e.stdout if isinstance(e.stdout, str) else (e.stdout or b"").decode("utf8", "replace")
        return 124, out + "\n[timeout after %ds]" % timeout, time.time() - t0


class Lock:
    def __init__(self, name="lock"):
        os.makedirs(BUILD, exist_ok=True)
        self.path = os.path.join(BUILD, name)
    def __enter__(self):
        self.f = open(self.path, "w")
        fcntl.flock(self.f, fcntl.LOCK_EX)
        return self
    def __exit__(self, *a):
        fcntl.flock(self.f, fcntl.LOCK_UN)
        self.f.close()


def file_hash(paths):
    h = hashlib.sha256()
    for p in sorted(paths):
        h.update(p.encode())
        try:
            with open(p, "rb") as f:
                h.update(f.read())
        except OSError:
            h.update(b"<missing>")
    return h.hexdigest()


def write_if_changed(path, content):
    try:
        if open(path).read() == content:
            return False
    except OSError:
        pass
    os.makedirs(os.path.dirname(path), exist_ok=True)
    with open(path, "w") as f:
        f.write(content)
    return True


# ---------------------------------------------------------------- translator

def regen():
    """Run the translator on /repo's working tree.  Returns (ok, log)."""
    os.makedirs(BUILD, exist_ok=True)
    tbin = os.path.join(BUILD, "translator")
    src = glob.glob(os.path.join(VERIF, "go/translator/*.go"))
    stamp = os.path.join(BUILD, "translator.stamp")
    h = file_hash(src)
    if not os.path.exists(tbin) or not os.path.exists(stamp) or open(stamp).read() != h:
        rc, out, _ = sh(["go", "build", "-o", tbin, "."], cwd=os.path.join(VERIF, "go/translator"), env=GOENV)
        if rc != 0:
            return False, "translator build failed:\n" + out
        open(stamp, "w").write(h)
    tmp = os.path.join(BUILD, "Gen.v.new")
    rc, out, _ = sh([tbin, REPO, tmp])
    if rc != 0:
        return False, "translator refused the source (outside its subset):\n" + out
    os.makedirs(os.path.join(COQ, "gen"), exist_ok=True)
    write_if_changed(os.path.join(COQ, "gen/Gen.v"), open(tmp).read())
    return True, out


# ---------------------------------------------------------------- Coq build

def coq_sources():
    out = []
    for d in ("gen", "model", "proofs", "props"):
        out += sorted(glob.glob(os.path.join(COQ, d, "*.v")))
    return out


def scan_forbidden(only=None):
    """grep the development (or only the files a property depends on) for forbidden constructs"""
    bad = []
    for p in coq_sources():
        if only is not None and os.path.relpath(p, COQ) not in only:
            continue
        txt = open(p).read()
        # strip comments (non-nested handling is enough: we never put the words in comments on purpose)
        txt2 = re.sub(r"\(\*.*?\*\)", "", txt, flags=re.S)
        for m in FORBIDDEN.finditer(txt2):
            w = m.group(0)
            # Variable/Hypothesis are allowed inside Sections
            if w in ("Variable", "Hypothesis"):
                before = txt2[:m.start()]
                if len(re.findall(r"^\s*Section\b", before, flags=re.M)) > len(re.findall(r"^\s*End\b", before, flags=re.M)):
                    continue
            bad.append("%s: %s" % (os.path.relpath(p, VERIF), w))
    return bad


def build_coq(timeout=3000, only=None):
    """Full .vo build with make -k -j16 (all files, or only the given files and what they depend on).
    Returns dict(ok, log, failed=[files that did not compile])."""
    proj = "-Q gen Sctp\n-Q model Sctp\n-Q proofs Sctp\n-Q props Sctp\n" + \
        "\n".join(os.path.relpath(p, COQ) for p in coq_sources()) + "\n"
    changed = write_if_changed(os.path.join(COQ, "_CoqProject"), proj)
    if changed or not os.path.exists(os.path.join(COQ, "Makefile")):
        rc, out, _ = sh(["coq_makefile", "-f", "_CoqProject", "-o", "Makefile"], cwd=COQ)
        if rc != 0:
            return dict(ok=False, log=out, failed=["coq_makefile"])
    wanted = coq_sources()
    cmd = ["make", "-k", "-j16"]
    if only is not None:
        wanted = [p for p in wanted if os.path.relpath(p, COQ) in only]
        cmd += [os.path.relpath(p, COQ) + "o" for p in wanted]
    rc, out, dt = sh(cmd, cwd=COQ, timeout=timeout)
    failed = []
    for p in wanted:
        vo = p + "o"
        if not os.path.exists(vo) or os.path.getmtime(vo) < os.path.getmtime(p):
            failed.append(os.path.relpath(p, COQ))
    return dict(ok=(rc == 0 and not failed), log=out, failed=failed, wall=dt)


def print_assumptions(prop_file):
    """Re-run coqc on a props file and collect the output of its Print Assumptions commands.
    Returns (ok, theorems:list[str], axioms:list[str], raw)."""
    rc, out, _ = sh(["coqc", "-Q", "gen", "Sctp", "-Q", "model", "Sctp", "-Q", "proofs", "Sctp", "-Q", "props", "Sctp",
                     os.path.relpath(prop_file, COQ)], cwd=COQ, timeout=900)
    src = open(prop_file).read()
    src_nc = re.sub(r"\(\*.*?\*\)", "", src, flags=re.S)
    thms = re.findall(r"^\s*(?:Theorem|Lemma|Example|Corollary)\s+([A-Za-z0-9_']+)", src_nc, flags=re.M)
    axioms = []
    if rc == 0:
        # every block is either "Closed under the global context" or "Axioms:\n name : type ..."
        for blk in re.split(r"\n(?=Closed under|Axioms:)", out):
            if blk.startswith("Axioms:"):
                for line in blk.splitlines()[1:]:
                    m = re.match(r"^([A-Za-z0-9_.']+)\s*:", line)
                    if m:
                        axioms.append(m.group(1))
    return rc == 0, thms, sorted(set(axioms)), out


def coqchk(prop_file, timeout=14400):
    """Independent re-check of a property file and everything it depends on (thorough tier).
    Returns dict(ok, axioms, raw).  Running out of time is reported as timed_out, not as a failed check."""
    mod = "Sctp." + os.path.basename(prop_file)[:-2]
    rc, out, dt = sh(["coqchk", "-silent", "-o", "-Q", "gen", "Sctp", "-Q", "model", "Sctp", "-Q", "proofs", "Sctp",
                      "-Q", "props", "Sctp", mod], cwd=COQ, timeout=timeout)
    axioms, bad = [], []
    sect = None
    for line in out.splitlines():
        t = line.strip()
        if t.startswith("* "):
            sect = t
            if t.endswith("<none>"):
                sect = None
            continue
        if sect and t:
            if sect.startswith("* Axioms"):
                axioms.append(t)
            elif "type-in-type" in sect or "unsafe" in sect or "positivity" in sect:
                bad.append(sect + " " + t)
    return dict(ok=(rc == 0 and not bad), timed_out=(rc == 124), axioms=axioms, bad=bad, raw=out[-1500:], wall=dt)


# ---------------------------------------------------------------- extraction + comparator

def gen_extract(gen, exclude=()):
    """Extract.v and main.ml are generated from coq/extract/parts/*.txt and ocaml/cmp_*.ml, so that
    components can be added without editing shared files."""
    mods, names, skipped = [], [], list(exclude)
    for p in sorted(glob.glob(os.path.join(COQ, "extract/parts/*.txt"))):
        pm, pn = [], []
        for line in open(p):
            line = line.strip()
            if not line or line.startswith("#"):
                continue
            if line.startswith("modules:"):
                pm += line.split(":", 1)[1].split()
            else:
                pn += line.split()
        # a part whose model does not compile right now (work in progress) is left out, with its comparator
        okp = os.path.basename(p)[:-4] not in exclude
        for m in pm:
            src = [q for q in coq_sources() if os.path.basename(q) == m + ".v"]
            if not src or not os.path.exists(src[0] + "o") or os.path.getmtime(src[0] + "o") < os.path.getmtime(src[0]):
                okp = False
        if not okp:
            skipped.append(os.path.basename(p)[:-4])
            continue
        for m in pm:
            if m not in mods:
                mods.append(m)
        for n in pn:
            if n not in names:
                names.append(n)
    v = ("(* GENERATED from coq/extract/parts/*.txt.  Only ExtrOcamlBasic is used: bool/option/unit/list/prod/sumbool\n"
         "   map to OCaml's, andb/orb/negb/fst/snd are inlined; nat/positive/N/Z stay Coq inductives. *)\n"
         "From Coq Require Import Extraction ExtrOcamlBasic ZArith List.\n"
         "From Sctp Require Import %s.\nExtraction Language OCaml.\nExtraction \"model.ml\"\n  %s.\n" % (" ".join(mods), "\n  ".join(names)))
    write_if_changed(os.path.join(gen, "Extract.v"), v)
    comps = sorted(os.path.basename(p)[4:-3] for p in glob.glob(os.path.join(VERIF, "ocaml/cmp_*.ml")))
    comps = [c for c in comps if c not in skipped]
    m = "let () =\n  let fin () = exit (if !Zio.mismatches > 0 then 1 else 0) in\n  match Array.to_list Sys.argv with\n"
    for c in comps:
        m += "  | [_; \"%s\"; path] -> Cmp_%s.run path; fin ()\n" % (c, c)
    m += "  | _ -> prerr_endline \"usage: cmp <component> <trace>\"; exit 2\n"
    write_if_changed(os.path.join(gen, "main.ml"), m)
    return comps


def _part_names_missing(comp, coq_out):
    """True when the extraction error names an identifier listed in this component's part file."""
    p = os.path.join(COQ, "extract/parts", comp + ".txt")
    try:
        names = [w for l in open(p) if not l.startswith(("#", "modules:")) for w in l.split()]
    except OSError:
        return False
    return any(re.search(r"\b%s\b" % re.escape(n), coq_out) for n in names)


def build_cmp():
    gen = os.path.join(VERIF, "ocaml/gen")
    os.makedirs(gen, exist_ok=True)
    srcs = sorted(glob.glob(os.path.join(VERIF, "ocaml/*.ml"))) + sorted(glob.glob(os.path.join(COQ, "extract/parts/*.txt"))) + \
        sorted(glob.glob(os.path.join(COQ, "model/*.v"))) + [os.path.join(COQ, "gen/Gen.v")]
    h = file_hash(srcs)
    stamp = os.path.join(BUILD, "cmp.stamp")
    cmpbin = os.path.join(BUILD, "cmp")
    if os.path.exists(cmpbin) and os.path.exists(stamp) and open(stamp).read() == h:
        return True, "cached"
    # the models must be compiled before extraction
    build_coq(only=[os.path.relpath(q, COQ) for q in coq_sources() if "/model/" in q or "/gen/" in q])
    # A component whose comparator or extraction part does not build (another component's work in progress) is
    # left out and the build retried, so that it cannot take the other components' correspondence down with it;
    # a check that needs the excluded component then reports its correspondence as broken (run_cmp: usage error).
    excluded, out, out2 = [], "", ""
    for attempt in range(6):
        comps = gen_extract(gen, exclude=tuple(excluded))
        rc, out, _ = sh(["coqc", "-Q", "../../coq/gen", "Sctp", "-Q", "../../coq/model", "Sctp", "Extract.v"], cwd=gen, timeout=900)
        if rc != 0:
            bad = [c for c in comps if c not in excluded and _part_names_missing(c, out)]
            if bad:
                excluded += bad
                continue
            return False, "extraction failed:\n" + out
        mls = ["zio.ml"] + ["cmp_%s.ml" % c for c in comps]
        for m in mls:
            shutil.copy(os.path.join(VERIF, "ocaml", m), os.path.join(gen, m))
        mls.append("main.ml")
        rc, out2, _ = sh(["ocamlfind", "ocamlopt", "-inline", "50", "-w", "-a", "-package", "zarith", "-linkpkg",
                          "model.mli", "model.ml"] + mls + ["-o", cmpbin + ".new"], cwd=gen, timeout=900)
        if rc == 0:
            os.replace(cmpbin + ".new", cmpbin)
            break
        m = re.search(r'File "cmp_([a-z0-9_]+)\.ml"', out2)
        if m and m.group(1) in comps and m.group(1) not in excluded:
            excluded.append(m.group(1))
            continue
        return False, "comparator build failed:\n" + out2
    else:
        return False, "comparator build failed:\n" + out2
    if excluded:
        out2 += "\n[components left out because they do not build right now: %s]" % " ".join(excluded)
        open(os.path.join(BUILD, "cmp.excluded"), "w").write(" ".join(excluded))
        return True, out + out2   # no stamp: rebuilt next time
    try:
        os.remove(os.path.join(BUILD, "cmp.excluded"))
    except OSError:
        pass
    open(stamp, "w").write(h)
    return True, out + out2


BIN = {"cmp": None, "harness": None}


def use_private_binaries(tmpdir):
    for key, name in (("cmp", "cmp"), ("harness", "sctp.test")):
        src = os.path.join(BUILD, name)
        dst = os.path.join(tmpdir, name)
        try:
            shutil.copy2(src, dst)
            BIN[key] = dst
        except OSError:
            BIN[key] = None


def cmp_bin():
    return BIN["cmp"] or os.path.join(BUILD, "cmp")


def harness_bin():
    return BIN["harness"] or os.path.join(BUILD, "sctp.test")


def run_cmp(component, trace, timeout=1800, shards=16):
    """Replay a trace on the extracted model, cases sharded over `shards` processes."""
    t0 = time.time()
    procs = []
    for k in range(shards):
        e = dict(os.environ, VERIF_SHARD="%d/%d" % (k, shards))
        procs.append(subprocess.Popen(["bash", "-c", "ulimit -s unlimited; exec %s %s %s" % (cmp_bin(), component, trace)],
                                      env=e, stdout=subprocess.PIPE, stderr=subprocess.STDOUT, text=True, errors="replace"))
    mism, info, raw, rc, notes = [], {}, "", 0, []
    for k, p in enumerate(procs):
        try:
            out, _ = p.communicate(timeout=max(1, timeout - (time.time() - t0)))
        except subprocess.TimeoutExpired:
            p.kill()
            out, _ = p.communicate()
            out += "\n[timeout]"
            rc = 124
            notes.append("shard %d/%d: no result within %ds (comparator timeout, not a mismatch)" % (k, shards, timeout))
        raw += out
        if p.returncode not in (0, 1):
            rc = rc or p.returncode or 3
            notes.append("shard %d/%d: comparator exited with %s: %s" % (k, shards, p.returncode, out[-300:].replace("\n", " | ")))
        mism += [l for l in out.splitlines() if l.startswith("MISMATCH")]
        summ = [l for l in out.splitlines() if l.startswith("SUMMARY")]
        if summ:
            for kv in summ[-1].split()[1:]:
                k, _, v = kv.partition("=")
                if v.isdigit():
                    info[k] = info.get(k, 0) + int(v)
                else:
                    info[k] = v
        elif p.returncode in (0, 1):
            rc = rc or 3
    if mism:
        rc = rc or 1
    return dict(rc=rc, mismatches=mism, summary=info, raw="\n".join(notes) + "\n" + raw[-4000:], wall=time.time() - t0)


# ---------------------------------------------------------------- Go harness

def build_harness():
    """go test -c of package sctp in /repo's working tree with the overlay files.  Returns (ok, log)."""
    os.makedirs(BUILD, exist_ok=True)
    inpkg = sorted(glob.glob(os.path.join(VERIF, "go/inpkg/*.go")))
    ov = {"Replace": {os.path.join(REPO, os.path.basename(p)): p for p in inpkg}}
    ovp = os.path.join(BUILD, "overlay.json")
    with open(ovp, "w") as f:
        json.dump(ov, f)
    srcs = inpkg + glob.glob(os.path.join(REPO, "*.go")) + [os.path.join(REPO, "go.mod")]
    h = file_hash(srcs)
    stamp = os.path.join(BUILD, "harness.stamp")
    tbin = os.path.join(BUILD, "sctp.test")
    if os.path.exists(tbin) and os.path.exists(stamp) and open(stamp).read() == h:
        return True, "cached"
    rc, out, _ = sh([GO, "test", "-overlay", ovp, "-c", "-vet=off", "-o", tbin, "."], cwd=REPO, env=GOENV, timeout=900)
    if rc != 0:
        try:
            os.remove(stamp)
        except OSError:
            pass
        return False, out
    open(stamp, "w").write(h)
    return True, out


def run_harness(test, env=None, timeout=1800, extra=None):
    e = dict(os.environ)
    e.update({k: str(v) for k, v in (env or {}).items()})
    cmd = [harness_bin(), "-test.run", "^%s$" % test, "-test.count=1", "-test.timeout", "%ds" % timeout]
    if extra:
        cmd += extra
    rc, out, dt = sh(cmd, cwd=REPO, env=e, timeout=timeout + 30)
    return dict(rc=rc, out=out, wall=dt)


# ---------------------------------------------------------------- known findings, replays, evidence

def known_findings():
    p = os.path.join(VERIF, "known_findings.json")
    try:
        return json.load(open(p))
    except OSError:
        return {"findings": []}


def write_replay(prop, kind, payload):
    os.makedirs(os.path.join(VERIF, "replays"), exist_ok=True)
    body = json.dumps(payload, indent=1, sort_keys=True, default=str)
    h = hashlib.sha1(body.encode()).hexdigest()[:10]
    path = os.path.join(VERIF, "replays", "%s-%s-%s.json" % (prop, kind, h))
    with open(path, "w") as f:
        f.write(body)
    return path


def write_evidence(prop, ev):
    os.makedirs(os.path.join(VERIF, "evidence"), exist_ok=True)
    path = os.path.join(VERIF, "evidence", prop + ".json")
    with open(path, "w") as f:
        json.dump(ev, f, indent=1, default=str)
    return path


# ---------------------------------------------------------------- helpers used by the per-property modules

def differential(ctx, name, test, component, env=None, timeout=1800):
    """Run a harness test that writes a trace, replay the trace on the extracted model."""
    trace = os.path.join(ctx.tmp, name + ".trace")
    e = dict(env or {})
    e.update(VERIF_OUT=trace, VERIF_SEED=ctx.seed)
    r = run_harness(test, e, timeout=timeout)
    if r["rc"] != 0 or not os.path.exists(trace):
        ctx.broken.append(("correspondence", name, "harness run failed (rc=%s): %s" % (r["rc"], r["out"][-1500:])))
        ctx.corr.append(dict(name=name, ok=False, records=0, detail="harness run failed"))
        return None
    c = run_cmp(component, trace, timeout=timeout)
    ok = c["rc"] == 0 and not c["mismatches"] and c["summary"].get("records", 0) > 0
    ctx.corr.append(dict(name=name, ok=ok, records=c["summary"].get("records", 0), cases=c["summary"].get("cases", 0),
                         mismatches=len(c["mismatches"]), wall_s=round(r["wall"] + c["wall"], 2), env=e))
    if not ok:
        ctx.broken.append(("correspondence", name, "\n".join(c["mismatches"][:5]) or c["raw"][:1500]))
    # keep a few trace lines as samples
    try:
        with open(trace) as f:
            head = [next(f).strip() for _ in range(40)]
        ctx.samples.append({"trace": name, "first_lines": head[:12]})
    except (StopIteration, OSError):
        pass
    return c


def monitor(ctx, name, test, env=None, fail_prefixes=(), classify=None, timeout=1800, summary_prefix=None):
    """Run a harness test that evaluates a property predicate on the implementation itself and prints
    one line per failure.  Each failure is a concrete failing input (decisive)."""
    e = dict(env or {})
    e.update(VERIF_SEED=ctx.seed)
    r = run_harness(test, e, timeout=timeout)
    fails = [l for l in r["out"].splitlines() if l.startswith(tuple(fail_prefixes))]
    summ = [l for l in r["out"].splitlines() if summary_prefix and l.startswith(summary_prefix)]
    if r["rc"] != 0 and not fails:
        ctx.broken.append(("correspondence", name, "monitor run failed (rc=%s): %s" % (r["rc"], r["out"][-1500:])))
    for l in fails:
        key = classify(l) if classify else name
        ctx.concrete.append(dict(property=ctx.prop, what=l[:600], key=key, monitor=name, test=test, env=e))
    ctx.corr.append(dict(name=name, ok=not fails and r["rc"] == 0, records=0, failures=len(fails),
                         summary=summ[-1] if summ else "", wall_s=round(r["wall"], 2)))
    return r, fails
