// Verification harness: P_C05 evaluated on the implementation.  A ghost receiver with unbounded
// (64-bit) sequence indices records which TSNs were accepted or skipped; every acknowledgement the
// queue would produce (cumulative point + gap blocks) is compared with the ghost.
package sctp

import (
	"fmt"
	"math/rand"
	"testing"
)

func TestVerifRPQTruth(t *testing.T) {
	seed := verifEnvInt("VERIF_SEED", 1)
	nCases := int(verifEnvInt("VERIF_N", 300))
	nOps := int(verifEnvInt("VERIF_OPS", 200))
	rng := rand.New(rand.NewSource(seed))
	lies, acks := 0, 0
	bufSizes := []uint32{1024, 300000, 1024 * 1024, 1024 * 1024, 2 * 1024 * 1024, 3000000}
	for c := 0; c < nCases; c++ {
		maxOff := getMaxTSNOffset(bufSizes[rng.Intn(len(bufSizes))])
		if rng.Intn(3) == 0 {
			maxOff = uint32(64 * (1 + rng.Intn(40)))
		}
		q := newReceivePayloadQueue(maxOff)
		mo := uint64(q.maxTSNOffset)
		// unbounded index of the cumulative point; start so that the window is near a multiple of 2^32
		var cumK uint64 = 1<<32 + uint64(rng.Uint32())
		if rng.Intn(4) != 0 {
			cumK = 2<<32 - uint64(rng.Intn(int(mo)+64)) - 1
		}
		q.init(uint32(cumK))
		recv := map[uint64]bool{} // accepted and above cumK
		script := []string{fmt.Sprintf("new %d", maxOff), fmt.Sprintf("init %d", uint32(cumK))}
		lie := func(what string) {
			lies++
			if lies <= 5 {
				fmt.Printf("SACKLIE %s maxoff=%d words=%d seed=%d case=%d script=%v\n", what, maxOff, len(q.tsnBitmask), seed, c, script[max(0, len(script)-12):])
			}
		}
		checkAck := func() bool {
			// acknowledgement check
			acks++
			if q.getcumulativeTSN() != uint32(cumK) {
				lie(fmt.Sprintf("cumulative TSN %d, ghost %d", q.getcumulativeTSN(), uint32(cumK)))
				return false
			}
			named := map[uint64]bool{}
			prevEnd := uint64(0)
			for _, b := range q.getGapAckBlocks() {
				if b.start < 2 && b.start != 1 || b.end < b.start || uint64(b.start) <= prevEnd && prevEnd != 0 {
					lie(fmt.Sprintf("malformed gap block %d-%d", b.start, b.end))
				}
				if prevEnd != 0 && uint64(b.start) == prevEnd+1 {
					lie(fmt.Sprintf("adjacent gap blocks not merged at %d", b.start))
				}
				prevEnd = uint64(b.end)
				for o := uint64(b.start); o <= uint64(b.end); o++ {
					named[cumK+o] = true
					if !recv[cumK+o] {
						lie(fmt.Sprintf("gap block %d-%d names offset %d (TSN %d) which was never received", b.start, b.end, o, uint32(cumK+o)))
						break
					}
				}
			}
			for k := range recv {
				if !named[k] {
					lie(fmt.Sprintf("received TSN %d (offset %d) is not reported by any gap block", uint32(k), k-cumK))
					break
				}
			}
			if q.size() != len(recv) {
				lie(fmt.Sprintf("size %d, ghost %d", q.size(), len(recv)))
			}
			return true
		}
		dense := rng.Intn(2) == 0
		for i := 0; i < nOps; i++ {
			r := rng.Intn(100)
			switch {
			case r < 60:
				var k uint64
				switch rng.Intn(8) {
				case 0:
					k = cumK - uint64(rng.Intn(4))
				case 1:
					k = cumK + mo + uint64(rng.Intn(3))
				case 2:
					k = cumK + mo - uint64(rng.Intn(70))
				default:
					if dense {
						k = cumK + 1 + uint64(rng.Intn(150))
					} else {
						k = cumK + 1 + uint64(rng.Intn(int(mo)))
					}
				}
				script = append(script, fmt.Sprintf("push %d", uint32(k)))
				ok := q.push(uint32(k))
				want := k > cumK && k <= cumK+mo && !recv[k]
				if ok != want {
					lie(fmt.Sprintf("push(%d) returned %v, ghost expects %v", uint32(k), ok, want))
				}
				if ok {
					recv[k] = true
				}
			case r < 75:
				script = append(script, "poprun")
				for q.pop(false) {
					cumK++
					if !recv[cumK] {
						lie(fmt.Sprintf("cumulative point moved over %d which was never received", uint32(cumK)))
					}
					delete(recv, cumK)
				}
			case r < 80:
				adv := uint64(rng.Intn(300))
				script = append(script, fmt.Sprintf("adv %d", uint32(cumK+adv)))
				q.advanceCumulativeTSN(uint32(cumK + adv))
				for k := cumK + 1; k <= cumK+adv; k++ {
					delete(recv, k)
				}
				cumK += adv
			case r < 83:
				script = append(script, "pop 1")
				ok := q.pop(true)
				cumK++
				if ok != recv[cumK] {
					lie(fmt.Sprintf("pop(force) returned %v for %d, ghost %v", ok, uint32(cumK), recv[cumK]))
				}
				delete(recv, cumK)
			case r < 87:
				// a run of consecutive TSNs in order (whole bitmap words become all-ones), acknowledgement checked after each
				k := cumK + 2 + uint64(rng.Intn(3))
				for recv[k] {
					k++
				}
				runLen := 60 + rng.Intn(160)
				script = append(script, fmt.Sprintf("run %d+%d", uint32(k), runLen))
				for j := 0; j < runLen && k <= cumK+mo; j, k = j+1, k+1 {
					if recv[k] {
						continue
					}
					if q.push(uint32(k)) {
						recv[k] = true
					} else {
						lie(fmt.Sprintf("push(%d) inside the window refused", uint32(k)))
					}
					if !checkAck() {
						break
					}
				}
			default:
			}
			if !checkAck() {
				break
			}
			if lies > 20 {
				break
			}
		}
	}
	fmt.Printf("RPQTRUTH cases=%d acks_checked=%d lies=%d\n", nCases, acks, lies)
}
