(* Proofs about the handshake abstraction, part 2: the computed reachable set hs_M (vm_compute), its closedness,
   the state predicates over its elements, and their transfer to every state the exact system reaches. *)
From Coq Require Import ZArith Bool List Arith PeanoNat Lia FMapPositive.
From Sctp Require Import Gen Handshake HandshakeProofs.
Import ListNotations.
Local Open Scope nat_scope.

(* ------------------------------------------------------------------ the computed reachable set *)

Definition hs_M : hs_set := Eval vm_compute in hs_reach_set.

Lemma hs_M_complete : snd (hs_closure_from hs_inits) = [].
Proof. vm_compute. reflexivity. Qed.

Lemma hs_M_closed : hs_closed_check hs_M = true.
Proof. vm_cast_no_check (eq_refl true). Qed.

Lemma hs_M_inits : forallb (hs_in hs_M) (map hs_norm hs_inits) = true.
Proof. vm_cast_no_check (eq_refl true). Qed.

Lemma hs_M_size : N.of_nat (length (hs_states hs_M)) = 5024%N.
Proof. vm_compute. reflexivity. Qed.

Theorem hs_reachable_in_M s : hs_reachable s -> hs_in hs_M (hs_norm s) = true.
Proof. apply hs_closure_sound; [exact hs_M_closed | exact hs_M_inits]. Qed.

(* a state predicate checked on every element of hs_M holds for the collapsed image of every reachable state *)
Lemma hs_M_forall (P : hs_sys -> bool) :
  forallb P (hs_states hs_M) = true -> forall s, hs_reachable s -> P (hs_norm s) = true.
Proof.
  intros HP s R. rewrite forallb_forall in HP. apply HP. apply hs_in_states. apply hs_reachable_in_M. exact R.
Qed.

(* ------------------------------------------------------------------ the state predicates on every reachable state *)

(* the predicates do not look at the retry counters *)
Lemma hs_p_agree_il_norm s : hs_p_agree_il (hs_norm s) = hs_p_agree_il s.
Proof. destruct s as [a b n]; destruct a, b; reflexivity. Qed.
Lemma hs_p_fwd_norm s : hs_p_fwd (hs_norm s) = hs_p_fwd s.
Proof. destruct s as [a b n]; destruct a, b; reflexivity. Qed.
Lemma hs_p_zc_norm s : hs_p_zc (hs_norm s) = hs_p_zc s.
Proof. destruct s as [a b n]; destruct a, b; reflexivity. Qed.
Lemma hs_p_est_quiet_norm s : hs_p_est_quiet (hs_norm s) = hs_p_est_quiet s.
Proof. destruct s as [a b n]; destruct a, b; reflexivity. Qed.
Lemma hs_p_waiting_norm s : hs_p_waiting (hs_norm s) = hs_p_waiting s.
Proof. destruct s as [a b n]; destruct a, b; reflexivity. Qed.
Lemma hs_good_norm s : hs_good (hs_norm s) = hs_good s.
Proof. destruct s as [a b n]; destruct a, b; reflexivity. Qed.
Lemma hs_goal_norm s : hs_goal (hs_norm s) = hs_goal s.
Proof. destruct s as [a b n]; destruct a, b; reflexivity. Qed.
Lemma hs_p_net_canon_norm s : hs_p_net_canon (hs_norm s) = hs_p_net_canon s.
Proof.
  unfold hs_p_net_canon. rewrite hs_norm_net. apply forallb_ext_in || idtac.
  induction (hs_net s) as [|fp l IH]; [reflexivity|]. cbn [forallb]. rewrite IH. f_equal.
  unfold hs_side, hs_my_init, hs_my_init_ack. rewrite hs_norm_a, hs_norm_b.
  destruct (fst fp); [destruct (hs_b s) | destruct (hs_a s)]; reflexivity.
Qed.

Lemma hs_M_agree_il : forallb hs_p_agree_il (hs_states hs_M) = true. Proof. vm_cast_no_check (eq_refl true). Qed.
Lemma hs_M_fwd : forallb hs_p_fwd (hs_states hs_M) = true. Proof. vm_cast_no_check (eq_refl true). Qed.
Lemma hs_M_zc : forallb hs_p_zc (hs_states hs_M) = true. Proof. vm_cast_no_check (eq_refl true). Qed.
Lemma hs_M_est_quiet : forallb hs_p_est_quiet (hs_states hs_M) = true. Proof. vm_cast_no_check (eq_refl true). Qed.
Lemma hs_M_waiting : forallb hs_p_waiting (hs_states hs_M) = true. Proof. vm_cast_no_check (eq_refl true). Qed.
Lemma hs_M_net_canon : forallb hs_p_net_canon (hs_states hs_M) = true. Proof. vm_cast_no_check (eq_refl true). Qed.
Lemma hs_M_progress : forallb hs_progress_check (hs_states hs_M) = true. Proof. vm_cast_no_check (eq_refl true). Qed.
Lemma hs_M_fresh : forallb hs_fresh_check (hs_states hs_M) = true. Proof. vm_cast_no_check (eq_refl true). Qed.

Lemma hs_reach_agree_il s : hs_reachable s -> hs_p_agree_il s = true.
Proof. intros R. rewrite <- hs_p_agree_il_norm. exact (hs_M_forall _ hs_M_agree_il s R). Qed.
Lemma hs_reach_fwd s : hs_reachable s -> hs_p_fwd s = true.
Proof. intros R. rewrite <- hs_p_fwd_norm. exact (hs_M_forall _ hs_M_fwd s R). Qed.
Lemma hs_reach_zc s : hs_reachable s -> hs_p_zc s = true.
Proof. intros R. rewrite <- hs_p_zc_norm. exact (hs_M_forall _ hs_M_zc s R). Qed.
Lemma hs_reach_est_quiet s : hs_reachable s -> hs_p_est_quiet s = true.
Proof. intros R. rewrite <- hs_p_est_quiet_norm. exact (hs_M_forall _ hs_M_est_quiet s R). Qed.
Lemma hs_reach_waiting s : hs_reachable s -> hs_p_waiting s = true.
Proof. intros R. rewrite <- hs_p_waiting_norm. exact (hs_M_forall _ hs_M_waiting s R). Qed.
Lemma hs_reach_net_canon s : hs_reachable s -> hs_p_net_canon s = true.
Proof. intros R. rewrite <- hs_p_net_canon_norm. exact (hs_M_forall _ hs_M_net_canon s R). Qed.

Lemma hs_is_est_true e : hs_st e = HsEstablished -> hs_is_est e = true.
Proof. intros E. unfold hs_is_est. rewrite E. reflexivity. Qed.

Lemma hs_init_opts ra rb ila zca ilb zcb s :
  hs_reach_from (hs_init_sys ra rb ila zca ilb zcb) s ->
  hs_role_of (hs_a s) = ra /\ hs_lil (hs_a s) = ila /\ hs_rzc (hs_a s) = zca /\
  hs_role_of (hs_b s) = rb /\ hs_lil (hs_b s) = ilb /\ hs_rzc (hs_b s) = zcb.
Proof.
  intros R. apply hs_reach_from_opts in R. unfold hs_opts, hs_opts_ep, hs_init_sys, hs_new in R. cbn in R.
  inversion R. repeat split; reflexivity.
Qed.

(* (a) interleaving is in use at an established side exactly when both sides enabled it *)
Theorem hs_agree_interleaving ra rb ila zca ilb zcb s :
  In (ra, rb) hs_role_pairs -> hs_reach_from (hs_init_sys ra rb ila zca ilb zcb) s ->
  (hs_st (hs_a s) = HsEstablished -> hs_uil (hs_a s) = ila && ilb) /\
  (hs_st (hs_b s) = HsEstablished -> hs_uil (hs_b s) = ila && ilb).
Proof.
  intros Hr R. destruct (hs_init_opts _ _ _ _ _ _ _ R) as (_ & La & _ & _ & Lb & _).
  pose proof (hs_reach_agree_il s (hs_reach_from_reachable _ _ (hs_init_in _ _ _ _ _ _ Hr) R)) as P.
  unfold hs_p_agree_il in P. rewrite La, Lb in P.
  apply andb_prop in P. destruct P as [P _]. apply andb_prop in P. destruct P as [Pa Pb].
  split; intros E; apply hs_is_est_true in E.
  - rewrite E in Pa. apply eqb_prop in Pa. exact Pa.
  - rewrite E in Pb. apply eqb_prop in Pb. exact Pb.
Qed.

(* (b) the forward-TSN variant follows interleaving *)
Theorem hs_fwd_variant_matches s x :
  hs_reachable s -> hs_st (hs_side s x) = HsEstablished ->
  hs_uifwd (hs_side s x) = hs_uil (hs_side s x) /\ hs_ufwd (hs_side s x) = negb (hs_uil (hs_side s x)).
Proof.
  intros R E. pose proof (hs_reach_fwd s R) as P. unfold hs_p_fwd in P. apply andb_prop in P. destruct P as [Pa Pb].
  apply hs_is_est_true in E.
  assert (P : hs_p_fwd_ep (hs_side s x) = true) by (destruct x; assumption).
  unfold hs_p_fwd_ep in P. rewrite E in P. apply andb_prop in P. destruct P as [P1 P2].
  apply eqb_prop in P1. apply eqb_prop in P2. split; assumption.
Qed.

(* (c) zero checksums are sent only towards a side that declared them acceptable; once established the
   sender's flag is exactly the receiver's option, whatever the sender's own option is *)
Theorem hs_zero_checksum_direction ra rb ila zca ilb zcb s :
  In (ra, rb) hs_role_pairs -> hs_reach_from (hs_init_sys ra rb ila zca ilb zcb) s ->
  (hs_szc (hs_a s) = true -> zcb = true) /\ (hs_szc (hs_b s) = true -> zca = true) /\
  (hs_st (hs_a s) = HsEstablished -> hs_szc (hs_a s) = zcb) /\
  (hs_st (hs_b s) = HsEstablished -> hs_szc (hs_b s) = zca).
Proof.
  intros Hr R. destruct (hs_init_opts _ _ _ _ _ _ _ R) as (_ & _ & Za & _ & _ & Zb).
  pose proof (hs_reach_zc s (hs_reach_from_reachable _ _ (hs_init_in _ _ _ _ _ _ Hr) R)) as P.
  unfold hs_p_zc in P. rewrite Za, Zb in P.
  apply andb_prop in P. destruct P as [P P4]. apply andb_prop in P. destruct P as [P P3].
  apply andb_prop in P. destruct P as [P1 P2].
  repeat split.
  - intros E. rewrite E in P1. exact P1.
  - intros E. rewrite E in P2. exact P2.
  - intros E. apply hs_is_est_true in E. rewrite E in P3. apply eqb_prop in P3. exact P3.
  - intros E. apply hs_is_est_true in E. rewrite E in P4. apply eqb_prop in P4. exact P4.
Qed.

(* in a reachable state an established side is not changed by ANY event enabled for it (deliveries of any
   packet the peer ever emitted, timers); a delivered packet is answered by at most a COOKIE-ACK *)
Theorem hs_established_stable s x ev :
  hs_reachable s -> hs_st (hs_side s x) = HsEstablished -> In (x, ev) (hs_events s) ->
  hs_side (hs_apply s (x, ev)) x = hs_side s x /\
  (snd (fst (hs_ep_step (hs_side s x) ev)) = [] \/ snd (fst (hs_ep_step (hs_side s x) ev)) = [HsCookieAck]).
Proof.
  intros R E Hin.
  assert (Q : hs_p_est_quiet_ep (hs_side s x) = true).
  { pose proof (hs_reach_est_quiet s R) as P. unfold hs_p_est_quiet in P. apply andb_prop in P.
    destruct P; destruct x; assumption. }
  unfold hs_p_est_quiet_ep in Q. rewrite (hs_is_est_true _ E) in Q.
  apply andb_prop in Q. destruct Q as [Q _]. apply andb_prop in Q. destruct Q as [Q _].
  apply andb_prop in Q. destruct Q as [Q _]. apply andb_prop in Q. destruct Q as [Q _].
  apply andb_prop in Q. destruct Q as [Q Q2]. apply andb_prop in Q. destruct Q as [Q Q1].
  apply negb_true_iff in Q1, Q2.
  assert (Hstep : fst (fst (hs_ep_step (hs_side s x) ev)) = hs_side s x /\
                  (snd (fst (hs_ep_step (hs_side s x) ev)) = [] \/ snd (fst (hs_ep_step (hs_side s x) ev)) = [HsCookieAck])).
  { destruct (hs_frozen (hs_side s x)) eqn:Fr.
    { unfold hs_ep_step. rewrite Fr. split; [reflexivity | left; reflexivity]. }
    destruct (hs_stale_noop _ E Q Fr) as (S1 & S2 & S3 & S4 & S5 & S6).
    destruct ev as [|tok|p| |].
    - unfold hs_ep_step. rewrite Fr, Q. split; [reflexivity | left; reflexivity].
    - unfold hs_ep_step. rewrite Fr, Q. split; [reflexivity | left; reflexivity].
    - destruct p as [f i g z|f i g z c|m|].
      + rewrite S1. split; [reflexivity | left; reflexivity].
      + rewrite S2. split; [reflexivity | left; reflexivity].
      + destruct m; [|rewrite S5; split; [reflexivity | left; reflexivity]].
        destruct (hs_cookie (hs_side s x)) eqn:C.
        * rewrite (S4 eq_refl). split; [reflexivity | right; reflexivity].
        * rewrite (S6 eq_refl). split; [reflexivity | left; reflexivity].
      + rewrite S3. split; [reflexivity | left; reflexivity].
    - unfold hs_ep_step, hs_t1_init_expire. rewrite Fr, Q1. split; [reflexivity | left; reflexivity].
    - unfold hs_ep_step, hs_t1_cookie_expire. rewrite Fr, Q2. split; [reflexivity | left; reflexivity]. }
  destruct Hstep as [H1 H2]. split; [|exact H2].
  destruct x; [rewrite hs_apply_b | rewrite hs_apply_a]; cbn [hs_side hs_a hs_b] in *; exact H1.
Qed.

(* ------------------------------------------------------------------ (e) progress *)

(* from every reachable state in which no side has failed there is a finite schedule of start / delivery
   events (packets already emitted get their chance to arrive) after which both sides are established and
   both connect calls have returned success *)
Theorem hs_progress s :
  hs_reachable s -> hs_good s = true ->
  exists evs t, hs_no_timer_evs evs = true /\ hs_run s evs = Some t /\ hs_goal t = true.
Proof.
  intros R G.
  pose proof (hs_M_forall _ hs_M_progress s R) as P. unfold hs_progress_check in P.
  rewrite hs_good_norm, G in P. apply andb_prop in P. destruct P as [Pn Pr].
  destruct (hs_run (hs_norm s) (hs_drive 24 (hs_norm s))) as [a'|] eqn:Hr; [|discriminate].
  destruct (hs_run_transfer hs_cn _ Pn s (hs_norm s) a' (hs_eqnS_norm s) Hr) as [s' [Hs' En]].
  exists (hs_drive 24 (hs_norm s)), s'. repeat split; try assumption.
  rewrite (hs_goal_eqnS hs_cn _ _ En). exact Pr.
Qed.

(* ---- "fresh" progress: every packet now in flight is lost; the T1 timer of each waiting side expires once
   (it has a retry left) and the retransmissions and the answers to them complete the handshake *)

Definition hs_c0 (n : nat) : nat := 0.

Lemma hs_eqn0_norm e : hs_eqn hs_c0 e (hs_norm_ep e).
Proof.
  destruct e as [? ? ? ? ? ? ? ? ? ? ? ? ? ? ? t1i ni t1c nc ? ?].
  unfold hs_eqn, hs_coll, hs_norm_ep, hs_with_t1i, hs_with_t1c, hs_c0; cbn. destruct t1i, t1c; reflexivity.
Qed.

Lemma hs_retries_left_norm e : hs_retries_left_ep (hs_norm_ep e) = hs_retries_left_ep e.
Proof.
  destruct e as [? ? ? ? ? ? ? ? ? ? ? ? ? ? ? t1i ni t1c nc ? ?].
  unfold hs_retries_left_ep, hs_norm_ep, hs_with_t1i, hs_with_t1c; cbn -[Nat.ltb hs_maxr hs_cn].
  assert (Hc : forall n, Nat.ltb (hs_cn n) hs_maxr = Nat.ltb n hs_maxr).
  { intros n. unfold hs_cn. destruct (Nat.ltb_spec n hs_maxr) as [H|H].
    - destruct (Nat.ltb_spec 0 hs_maxr); [reflexivity | lia].
    - destruct (Nat.ltb_spec n hs_maxr); [lia | reflexivity]. }
  destruct t1i, t1c; rewrite ?Hc; reflexivity.
Qed.

(* one expiry of the running timer of side x, on two states equal up to the counters, both with a retry left *)
Lemma hs_fire_side_eqn0 s a x :
  hs_eqnS hs_c0 s a ->
  hs_retries_left_ep (hs_side s x) = true -> hs_retries_left_ep (hs_side a x) = true ->
  hs_eqnS hs_c0 (hs_fire_side s x) (hs_fire_side a x).
Proof.
  intros E Ls La. pose proof (hs_side_eqn hs_c0 s a x E) as Ex.
  destruct (hs_eqn_proj _ _ _ Ex) as (_ & _ & _ & _ & _ & _ & _ & _ & _ & _ & _ & _ & _ & _ & _ & Ti & Tc & _).
  unfold hs_fire_side, hs_fire_ep. rewrite Ti, Tc.
  unfold hs_retries_left_ep in Ls, La. rewrite Ti, Tc in La.
  destruct (hs_t1i (hs_side s x)) eqn:Ei.
  - apply hs_apply_eqnS; [exact E|]. apply hs_r_t1i_retrans; [exact Ex|]. intros _.
    apply andb_prop in Ls. apply andb_prop in La. destruct Ls as [Ls _]. destruct La as [La _].
    apply Nat.ltb_lt in Ls. apply Nat.ltb_lt in La. repeat split; try lia.
  - destruct (hs_t1c (hs_side s x)) eqn:Ec; [|exact E].
    apply hs_apply_eqnS; [exact E|]. apply hs_r_t1c_retrans; [exact Ex|]. intros _.
    cbn [andb] in Ls, La. apply Nat.ltb_lt in Ls. apply Nat.ltb_lt in La. repeat split; try lia.
Qed.

Lemma hs_fire_side_other s x : hs_side (hs_fire_side s x) (negb x) = hs_side s (negb x).
Proof.
  unfold hs_fire_side. destruct (hs_fire_ep (hs_side s x)); [|reflexivity].
  destruct x; [rewrite hs_apply_b | rewrite hs_apply_a]; reflexivity.
Qed.

Lemma hs_refire_eqn0 s a :
  hs_eqnS hs_c0 s a ->
  hs_retries_left_ep (hs_a s) = true -> hs_retries_left_ep (hs_b s) = true ->
  hs_retries_left_ep (hs_a a) = true -> hs_retries_left_ep (hs_b a) = true ->
  hs_eqnS hs_c0 (hs_refire s) (hs_refire a).
Proof.
  intros E A1 B1 A2 B2. unfold hs_refire.
  assert (E0 : hs_eqnS hs_c0 (hs_clear_net s) (hs_clear_net a)).
  { apply hs_eqnS_parts in E. destruct E as (Ea & Eb & _). apply hs_eqnS_parts. repeat split; assumption. }
  apply hs_fire_side_eqn0.
  - apply hs_fire_side_eqn0; assumption.
  - pose proof (hs_fire_side_other (hs_clear_net s) false) as F. cbn [negb] in F. rewrite F. exact B1.
  - pose proof (hs_fire_side_other (hs_clear_net a) false) as F. cbn [negb] in F. rewrite F. exact B2.
Qed.

Theorem hs_progress_fresh s :
  hs_reachable s -> hs_good s = true -> hs_goal s = false ->
  hs_retries_left_ep (hs_a s) = true -> hs_retries_left_ep (hs_b s) = true ->
  exists evs t, hs_no_timer_evs evs = true /\ hs_run (hs_refire s) evs = Some t /\ hs_goal t = true.
Proof.
  intros R G Ng La Lb.
  pose proof (hs_M_forall _ hs_M_fresh s R) as P. unfold hs_fresh_check in P.
  rewrite hs_good_norm, G, hs_goal_norm, Ng in P.
  change (hs_a (hs_norm s)) with (hs_norm_ep (hs_a s)) in P.
  change (hs_b (hs_norm s)) with (hs_norm_ep (hs_b s)) in P.
  rewrite !hs_retries_left_norm, La, Lb in P. cbn [andb negb] in P.
  apply andb_prop in P. destruct P as [Pn Pr].
  destruct (hs_run (hs_refire (hs_norm s)) (hs_drive 24 (hs_refire (hs_norm s)))) as [a'|] eqn:Hr; [|discriminate].
  assert (E : hs_eqnS hs_c0 (hs_refire s) (hs_refire (hs_norm s))).
  { apply hs_refire_eqn0; try assumption.
    - apply hs_eqnS_parts. split; [apply hs_eqn0_norm | split; [apply hs_eqn0_norm | reflexivity]].
    - change (hs_a (hs_norm s)) with (hs_norm_ep (hs_a s)). rewrite hs_retries_left_norm. exact La.
    - change (hs_b (hs_norm s)) with (hs_norm_ep (hs_b s)). rewrite hs_retries_left_norm. exact Lb. }
  destruct (hs_run_transfer hs_c0 _ Pn _ _ a' E Hr) as [s' [Hs' En]].
  exists (hs_drive 24 (hs_refire (hs_norm s))), s'. repeat split; try assumption.
  rewrite (hs_goal_eqnS hs_c0 _ _ En). exact Pr.
Qed.

(* while it waits, a started client has the T1 timer running that retransmits the packet whose answer it
   waits for (T1-init + stored INIT in COOKIE-WAIT, T1-cookie + stored COOKIE-ECHO in COOKIE-ECHOED);
   only a server waits in CLOSED, without timers *)
Theorem hs_waiting_has_timer s x :
  hs_reachable s -> hs_started (hs_side s x) = true -> hs_res_of (hs_side s x) = HsResNone ->
  match hs_st (hs_side s x) with
  | HsCookieWait => hs_t1i (hs_side s x) = true /\ hs_sinit (hs_side s x) = true
  | HsCookieEchoed => hs_t1c (hs_side s x) = true /\ hs_secho (hs_side s x) = true
  | HsClosed => hs_role_of (hs_side s x) = HsServer
  | HsEstablished => False
  end.
Proof.
  intros R St Rs. pose proof (hs_reach_waiting s R) as P. unfold hs_p_waiting in P. apply andb_prop in P.
  assert (Q : hs_p_waiting_ep (hs_side s x) = true) by (destruct P; destruct x; assumption).
  unfold hs_p_waiting_ep in Q. rewrite St, Rs in Q. cbn [hs_res_eqb andb] in Q.
  destruct (hs_st (hs_side s x)).
  - apply andb_prop in Q. destruct Q as [_ Q]. apply hs_role_eqb_eq in Q. exact Q.
  - apply andb_prop in Q. destruct Q as [Q _]. apply andb_prop in Q. destruct Q. split; assumption.
  - apply andb_prop in Q. destruct Q as [Q _]. apply andb_prop in Q. destruct Q. split; assumption.
  - discriminate.
Qed.

(* the connect call's result: success is reported only by an established endpoint *)
Theorem hs_ok_is_established s x :
  hs_reachable s -> hs_res_of (hs_side s x) = HsResOk -> hs_st (hs_side s x) = HsEstablished.
Proof.
  intros R Rs. pose proof (hs_reach_est_quiet s R) as P. unfold hs_p_est_quiet in P. apply andb_prop in P.
  assert (Q : hs_p_est_quiet_ep (hs_side s x) = true) by (destruct P; destruct x; assumption).
  unfold hs_p_est_quiet_ep in Q. rewrite Rs in Q. cbn [hs_res_eqb] in Q.
  apply andb_prop in Q. destruct Q as [_ Q]. apply hs_state_eqb_eq in Q. exact Q.
Qed.

