(* C04 — handshake.
   Model: coq/model/Handshake.v — a finite abstraction of association.go's set-up path (initClient,
   initServer, initWithOutOfBandTokens, handleInit, handleInitAck, handleCookieEcho, handleCookieAck,
   establish/updateInterleavingState, completeHandshake, T1-init/T1-cookie expiry and failure) and the
   retry counter of rtx_timer.go.  Two endpoints + the set of packets emitted so far; a step is the start
   of a side, the delivery of ANY packet the peer ever emitted (reordering, duplication; loss = never
   delivering), or a T1 expiry.  hs_reachable / hs_reach_from quantify over all finite sequences of such
   steps of the exact system (exact retry counters), for every role assignment in hs_role_pairs
   (client/server, server/client, client/client, SNAP/SNAP) and all 16 option combinations.
   Only statements closed by [exact] + Print Assumptions. *)
From Coq Require Import ZArith Bool List Arith.
From Sctp Require Import Gen Handshake HandshakeProofs HandshakeReach.
Import ListNotations.
Local Open Scope nat_scope.

(* The generic closure lemma, proved once by induction on runs: a set of collapsed states that contains the
   initial states and is closed under the abstract successor relation contains (the collapse of) every state
   reachable by any finite sequence of steps. *)
Theorem c04_closure_sound : forall m : hs_set,
  hs_closed_check m = true ->
  forallb (hs_in m) (map hs_norm hs_inits) = true ->
  forall s, hs_reachable s -> hs_in m (hs_norm s) = true.
Proof. exact hs_closure_sound. Qed.
Print Assumptions c04_closure_sound.

(* the computed set (5024 collapsed states for the 64 initial states) is closed and contains the initial states *)
Theorem c04_reachable_set : forall s, hs_reachable s -> hs_in hs_M (hs_norm s) = true.
Proof. exact hs_reachable_in_M. Qed.
Print Assumptions c04_reachable_set.

Theorem c04_reachable_set_size : N.of_nat (length (hs_states hs_M)) = 5024%N.
Proof. exact hs_M_size. Qed.
Print Assumptions c04_reachable_set_size.

(* (a) agree_interleaving: an established side uses interleaving exactly when BOTH sides enabled it
   (so two established sides agree) *)
Theorem c04_agree_interleaving : forall ra rb ila zca ilb zcb s,
  In (ra, rb) hs_role_pairs -> hs_reach_from (hs_init_sys ra rb ila zca ilb zcb) s ->
  (hs_st (hs_a s) = HsEstablished -> hs_uil (hs_a s) = ila && ilb) /\
  (hs_st (hs_b s) = HsEstablished -> hs_uil (hs_b s) = ila && ilb).
Proof. exact hs_agree_interleaving. Qed.
Print Assumptions c04_agree_interleaving.

(* (b) fwd_variant_matches: I-FORWARD-TSN is used iff interleaving is, FORWARD-TSN iff it is not *)
Theorem c04_fwd_variant_matches : forall s x,
  hs_reachable s -> hs_st (hs_side s x) = HsEstablished ->
  hs_uifwd (hs_side s x) = hs_uil (hs_side s x) /\ hs_ufwd (hs_side s x) = negb (hs_uil (hs_side s x)).
Proof. exact hs_fwd_variant_matches. Qed.
Print Assumptions c04_fwd_variant_matches.

(* (c) zero_checksum_direction: at every moment a side's sendZeroChecksum implies the OTHER side's option;
   once established it equals the other side's option, independently of its own *)
Theorem c04_zero_checksum_direction : forall ra rb ila zca ilb zcb s,
  In (ra, rb) hs_role_pairs -> hs_reach_from (hs_init_sys ra rb ila zca ilb zcb) s ->
  (hs_szc (hs_a s) = true -> zcb = true) /\ (hs_szc (hs_b s) = true -> zca = true) /\
  (hs_st (hs_a s) = HsEstablished -> hs_szc (hs_a s) = zcb) /\
  (hs_st (hs_b s) = HsEstablished -> hs_szc (hs_b s) = zca).
Proof. exact hs_zero_checksum_direction. Qed.
Print Assumptions c04_zero_checksum_direction.

(* (d) stale_noop, for EVERY established endpoint state and EVERY packet content: INIT -> error return, no
   change, no reply; INIT-ACK and COOKIE-ACK ignored; COOKIE-ECHO carrying this endpoint's cookie answered
   by COOKIE-ACK without change; any other COOKIE-ECHO ignored *)
Theorem c04_stale_noop : forall e,
  hs_st e = HsEstablished -> hs_started e = true -> hs_frozen e = false ->
  (forall f i g z, hs_ep_step e (HsDeliver (HsInit f i g z)) = (e, [], HsEInitState)) /\
  (forall f i g z c, hs_ep_step e (HsDeliver (HsInitAck f i g z c)) = (e, [], HsENone)) /\
  hs_ep_step e (HsDeliver HsCookieAck) = (e, [], HsENone) /\
  (hs_cookie e = true -> hs_ep_step e (HsDeliver (HsCookieEcho true)) = (e, [HsCookieAck], HsENone)) /\
  hs_ep_step e (HsDeliver (HsCookieEcho false)) = (e, [], HsENone) /\
  (hs_cookie e = false -> forall m, hs_ep_step e (HsDeliver (HsCookieEcho m)) = (e, [], HsENone)).
Proof. exact hs_stale_noop. Qed.
Print Assumptions c04_stale_noop.

(* ... and in every reachable state NO enabled event (delivery of anything the peer ever emitted, a timer)
   changes an established side; the only possible reply is a COOKIE-ACK *)
Theorem c04_established_stable : forall s x ev,
  hs_reachable s -> hs_st (hs_side s x) = HsEstablished -> In (x, ev) (hs_events s) ->
  hs_side (hs_apply s (x, ev)) x = hs_side s x /\
  (snd (fst (hs_ep_step (hs_side s x) ev)) = [] \/ snd (fst (hs_ep_step (hs_side s x) ev)) = [HsCookieAck]).
Proof. exact hs_established_stable. Qed.
Print Assumptions c04_established_stable.

(* (e) progress: from every reachable state in which no connect call has failed there is a finite schedule
   of start/delivery events (each packet emitted so far gets a chance to arrive) ending with both sides
   established and both connect calls returned with success *)
Theorem c04_progress : forall s,
  hs_reachable s -> hs_good s = true ->
  exists evs t, hs_no_timer_evs evs = true /\ hs_run s evs = Some t /\ hs_goal t = true.
Proof. exact hs_progress. Qed.
Print Assumptions c04_progress.

(* ... and the packet such a schedule needs is actually being retransmitted: a started side that has no
   result yet is a client in COOKIE-WAIT with T1-init running and the INIT stored, or a client in
   COOKIE-ECHOED with T1-cookie running and the COOKIE-ECHO stored, or a server in CLOSED *)
Theorem c04_waiting_has_timer : forall s x,
  hs_reachable s -> hs_started (hs_side s x) = true -> hs_res_of (hs_side s x) = HsResNone ->
  match hs_st (hs_side s x) with
  | HsCookieWait => hs_t1i (hs_side s x) = true /\ hs_sinit (hs_side s x) = true
  | HsCookieEchoed => hs_t1c (hs_side s x) = true /\ hs_secho (hs_side s x) = true
  | HsClosed => hs_role_of (hs_side s x) = HsServer
  | HsEstablished => False
  end.
Proof. exact hs_waiting_has_timer. Qed.
Print Assumptions c04_waiting_has_timer.

(* ... even if every packet now in flight is lost: as long as the running T1 timers have a retry left
   (counter < maxInitRetrans), one expiry per waiting side retransmits, and the retransmissions and the answers
   to them complete the handshake.  hs_refire s = s with an empty network after one T1 expiry on each side. *)
Theorem c04_progress_fresh : forall s,
  hs_reachable s -> hs_good s = true -> hs_goal s = false ->
  hs_retries_left_ep (hs_a s) = true -> hs_retries_left_ep (hs_b s) = true ->
  exists evs t, hs_no_timer_evs evs = true /\ hs_run (hs_refire s) evs = Some t /\ hs_goal t = true.
Proof. exact hs_progress_fresh. Qed.
Print Assumptions c04_progress_fresh.

Theorem c04_ok_is_established : forall s x,
  hs_reachable s -> hs_res_of (hs_side s x) = HsResOk -> hs_st (hs_side s x) = HsEstablished.
Proof. exact hs_ok_is_established. Qed.
Print Assumptions c04_ok_is_established.

(* (f) t1_bounded: after T1-init starts, expiries 1..maxInitRetrans retransmit the INIT and report nothing;
   expiry maxInitRetrans+1 stops the timer and the connect call receives ErrHandshakeInitAck.
   hs_maxr is the generated constant c_maxInitRetrans. *)
Theorem c04_t1_init_bounded : forall e,
  hs_frozen e = false -> hs_t1i e = true -> hs_ni e = 0 -> hs_res_of e = HsResNone ->
  (forall k, k < hs_maxr ->
     hs_ep_step (hs_t1i_iter k e) HsT1Init =
       (hs_with_t1i e true (S k), if hs_sinit e then [hs_my_init e] else [], HsENone)) /\
  (forall k, k <= hs_maxr -> hs_res_of (hs_t1i_iter k e) = HsResNone /\ hs_t1i (hs_t1i_iter k e) = true) /\
  hs_res_of (hs_t1i_iter (S hs_maxr) e) = HsResErrInit /\
  hs_t1i (hs_t1i_iter (S hs_maxr) e) = false /\
  hs_maxr = Z.to_nat c_maxInitRetrans.
Proof. exact hs_t1_init_bounded. Qed.
Print Assumptions c04_t1_init_bounded.

Theorem c04_t1_cookie_bounded : forall e,
  hs_frozen e = false -> hs_t1c e = true -> hs_nc e = 0 -> hs_res_of e = HsResNone ->
  (forall k, k < hs_maxr ->
     hs_ep_step (hs_t1c_iter k e) HsT1Cookie =
       (hs_with_t1c e true (S k), if hs_secho e then [HsCookieEcho true] else [], HsENone)) /\
  (forall k, k <= hs_maxr -> hs_res_of (hs_t1c_iter k e) = HsResNone /\ hs_t1c (hs_t1c_iter k e) = true) /\
  hs_res_of (hs_t1c_iter (S hs_maxr) e) = HsResErrCookie /\
  hs_t1c (hs_t1c_iter (S hs_maxr) e) = false.
Proof. exact hs_t1_cookie_bounded. Qed.
Print Assumptions c04_t1_cookie_bounded.

(* time of the failure in whole milliseconds = sum_{n=0..maxInitRetrans} min(rto * 2^n, rtoMax)
   <= (maxInitRetrans + 1) * rtoMax; 243 s with RTO.Initial = 1 s and RTO.Max = 60 s *)
Theorem c04_t1_fail_time_bound : forall rto rtoMax : Z,
  (hs_t1_fail_time rto rtoMax <= (c_maxInitRetrans + 1) * rtoMax)%Z.
Proof. exact hs_t1_fail_time_bound. Qed.
Print Assumptions c04_t1_fail_time_bound.

Theorem c04_t1_fail_time_default :
  hs_t1_fail_time 1000 60000 = 243000%Z /\
  map (hs_t1_expiry_time 1000 60000) [1; 2; 3; 4; 5; 6; 7; 8; 9] =
    [1000; 3000; 7000; 15000; 31000; 63000; 123000; 183000; 243000]%Z.
Proof. exact hs_t1_fail_time_default. Qed.
Print Assumptions c04_t1_fail_time_default.

(* options and roles are never written by any step *)
Theorem c04_options_constant : forall s sev, hs_opts (hs_apply s sev) = hs_opts s.
Proof. exact hs_apply_opts. Qed.
Print Assumptions c04_options_constant.

(* non-vacuity: the fault-free client/server exchange with one duplicated INIT and a late duplicate
   COOKIE-ECHO is a run of the system and ends established with interleaving on and zero checksum one way *)
Example c04_example_run :
  let s0 := hs_init_sys HsClient HsServer true false true true in
  let evs := [(false, HsStart); (true, HsStart);
              (true, HsDeliver (HsInit true true true HsZcaNone));
              (true, HsDeliver (HsInit true true true HsZcaNone));
              (false, HsDeliver (HsInitAck true true true HsZcaDtls true));
              (true, HsDeliver (HsCookieEcho true));
              (false, HsDeliver HsCookieAck);
              (true, HsDeliver (HsCookieEcho true))] in
  match hs_run s0 evs with
  | Some t => hs_goal t = true /\ hs_uil (hs_a t) = true /\ hs_szc (hs_a t) = true /\ hs_szc (hs_b t) = false
  | None => False
  end.
Proof. vm_compute. repeat split; reflexivity. Qed.

(* outside the property's quantifier (a forged packet, not loss/duplication/reordering of genuine ones):
   an INIT-ACK without state cookie stops T1-init and clears the stored INIT but leaves the client in
   COOKIE-WAIT: no timer, no result -- the connect call would wait for ever (see notes/C04.md) *)
Example c04_cookieless_init_ack_stalls :
  let e0 := fst (fst (hs_ep_step (hs_new HsClient true false) HsStart)) in
  let e1 := fst (fst (hs_ep_step e0 (HsDeliver (HsInitAck true true true HsZcaNone false)))) in
  hs_st e1 = HsCookieWait /\ hs_t1i e1 = false /\ hs_t1c e1 = false /\ hs_sinit e1 = false /\
  hs_res_of e1 = HsResNone /\ hs_p_waiting_ep e1 = false.
Proof. vm_compute. repeat split; reflexivity. Qed.
